// C43 harness: the real state.WithActivation / GetRoundByName on a real StateContext (engine world: the chain's own
// NewStateContext over a real MPT and state cache; forks recorded the way minersc.add_hardfork records them) against
// Model/HardFork.lean.
package main

import (
	"errors"
	"fmt"
	"math"
	"math/rand"
	"strconv"
	"strings"

	"0chain.net/chaincore/block"
	cstate "0chain.net/chaincore/chain/state"
	"0chain.net/chaincore/transaction"
	"0chain.net/core/encryption"
	"github.com/0chain/common/core/currency"
	"github.com/0chain/common/core/statecache"
	"github.com/0chain/common/core/util"
	"verifharness/lib/corr"
	"verifharness/lib/engine"
)

// raw: bytes stored as they are (a value under the fork's key that is not a HardFork record).
type raw struct{ b []byte }

func (r *raw) MarshalMsg(o []byte) ([]byte, error) { return append(o, r.b...), nil }
func (r *raw) UnmarshalMsg(b []byte) ([]byte, error) {
	r.b = append([]byte(nil), b...)
	return nil, nil
}

type world struct {
	sctx   *cstate.StateContext
	blk    *block.Block
	broken bool
}

func newWorld() *world {
	w, err := engine.NewWorld(map[string]currency.Coin{engine.NewClient("a").ID: 1000}, nil)
	if err != nil {
		panic(err)
	}
	return &world{sctx: w.SCtx(), blk: w.B}
}

// newBroken: a state whose root names a node that is not in the node DB — every lookup ends in ErrNodeNotFound.
func newBroken() *world {
	engine.Setup()
	root, _ := util.Key(nil), 0
	root = util.Key(encryption.RawHash("verif-missing-root"))
	mpt := util.NewMerklePatriciaTrie(util.NewMemoryNodeDB(), 0, root, statecache.NewEmpty())
	b := block.NewBlock("", 1)
	b.Hash = encryption.Hash("verif-broken")
	t := &transaction.Transaction{}
	t.Hash = encryption.Hash("verif-broken-txn")
	return &world{sctx: cstate.NewStateContext(b, mpt, t, nil, nil, nil, nil, nil, nil), blk: b, broken: true}
}

func parseInt(s string) (int64, bool) {
	v, err := strconv.ParseInt(s, 10, 64)
	if err != nil || strings.HasPrefix(s, "+") {
		return 0, false
	}
	return v, true
}

func errClass(err error) string {
	switch {
	case err == nil:
		return "ok"
	case errors.Is(err, util.ErrValueNotPresent):
		return "value-not-present"
	case errors.Is(err, util.ErrNodeNotFound):
		return "node-not-found"
	}
	return "error"
}

var errBranch = errors.New("branch error")

// forkName decodes a name token: "~" is the empty name, "+" stands for a space (tokens cannot hold either).
// The decoding is injective, so two different tokens are two different fork names.
func forkName(tok string) string {
	if tok == "~" {
		return ""
	}
	return strings.ReplaceAll(tok, "+", " ")
}

func impl(ops []string) []string {
	var w *world
	outs := make([]string, len(ops))
	for i, op := range ops {
		f := strings.Fields(op)
		func() {
			defer func() {
				if r := recover(); r != nil {
					outs[i] = "panic"
				}
			}()
			outs[i] = "bad-op"
			if len(f) == 0 {
				return
			}
			if w == nil && f[0] != "new" && f[0] != "newbroken" {
				w = newWorld()
			}
			switch {
			case f[0] == "new" && len(f) == 1:
				w = newWorld()
				outs[i] = "ok"
			case f[0] == "newbroken" && len(f) == 1:
				w = newBroken()
				outs[i] = "ok"
			case f[0] == "record" && len(f) == 3:
				r, ok := parseInt(f[2])
				if !ok || w.broken {
					return
				}
				h := cstate.NewHardFork(forkName(f[1]), r)
				if _, err := w.sctx.InsertTrieNode(h.GetKey(), h); err != nil {
					outs[i] = "error"
					return
				}
				outs[i] = "ok"
			case f[0] == "junk" && len(f) == 2:
				if w.broken {
					return
				}
				h := cstate.NewHardFork(forkName(f[1]), 0)
				if _, err := w.sctx.InsertTrieNode(h.GetKey(), &raw{[]byte{0xc3}}); err != nil {
					outs[i] = "error"
					return
				}
				outs[i] = "ok"
			case f[0] == "round" && len(f) == 2:
				r, err := cstate.GetRoundByName(w.sctx, forkName(f[1]))
				outs[i] = fmt.Sprintf("round %d %s", r, errClass(err))
			case f[0] == "with" && len(f) == 5:
				br, ok := parseInt(f[2])
				if !ok || (f[3] != "ok" && f[3] != "err") || (f[4] != "ok" && f[4] != "err") {
					return
				}
				w.blk.Round = br
				ran := ""
				err := cstate.WithActivation(w.sctx, forkName(f[1]), func() error {
					ran += "before"
					if f[3] == "err" {
						return errBranch
					}
					return nil
				}, func() error {
					ran += "after"
					if f[4] == "err" {
						return errBranch
					}
					return nil
				})
				if ran == "" {
					ran = "neither"
				}
				res := "ok"
				if err != nil {
					res = "err"
					if ran != "neither" && err != errBranch {
						res = "foreign-err"
					}
					if ran == "neither" && !errors.Is(err, util.ErrNodeNotFound) {
						res = "foreign-err"
					}
				}
				outs[i] = ran + " " + res
			}
		}()
	}
	return outs
}

// fork names in several spellings: letter-case variants, with/without spaces, prefixes of each other, the empty name,
// a name that contains the key prefix, non-ASCII with case variants.
var names = []string{"demeter", "Demeter", "DEMETER", "electra", "Electra", "apollo", "Apollo", "apol", "apollo2", "x", "X",
	"~", "a+b", "ab", "A+B", "a+", "hardfork:demeter", "ärtemis", "ÄRTEMIS", "a-very-long-fork-name-0123456789"}

var extremes = []int64{math.MinInt64, math.MinInt64 + 1, -1, 0, 1, math.MaxInt64 - 1, math.MaxInt64, 1<<53 + 1, -(1 << 62), 1 << 62}

func gen(r *rand.Rand, thorough bool, i int) []string {
	n := 5 + r.Intn(25)
	if thorough {
		n = 5 + r.Intn(120)
	}
	ops := []string{"new"}
	if r.Intn(12) == 0 {
		ops[0] = "newbroken"
	}
	recorded := map[string]int64{}
	pickRound := func() int64 {
		switch r.Intn(8) {
		case 0, 7: // the whole int64 range, incl. pairs more than 2^63 apart (a comparison must not become a subtraction)
			return extremes[r.Intn(len(extremes))]
		case 1:
			return int64(r.Intn(5))
		default:
			return int64(r.Intn(1000))
		}
	}
	// most cases work on a small family of names so that spellings of one another meet in one state
	fam := names
	if r.Intn(4) != 0 {
		st := r.Intn(len(names))
		fam = nil
		for j := 0; j < 4; j++ {
			fam = append(fam, names[(st+j)%len(names)])
		}
	}
	for k := 0; k < n; k++ {
		name := fam[r.Intn(len(fam))]
		switch x := r.Intn(100); {
		case x < 18:
			rr := pickRound()
			recorded[name] = rr
			ops = append(ops, fmt.Sprintf("record %s %d", name, rr))
		case x < 22:
			delete(recorded, name)
			ops = append(ops, "junk "+name)
		case x < 30:
			ops = append(ops, "round "+name)
		case x < 97:
			if len(recorded) > 0 && r.Intn(5) < 3 { // mostly ask about forks that are recorded
				k := r.Intn(len(fam))
				for j := 0; j < len(fam); j++ {
					if _, ok := recorded[fam[(k+j)%len(fam)]]; ok {
						name = fam[(k+j)%len(fam)]
						break
					}
				}
			}
			br := pickRound()
			if rr, ok := recorded[name]; ok && r.Intn(3) != 0 {
				d := int64(r.Intn(3) - 1) // r-1, r, r+1
				if (d > 0 && rr == math.MaxInt64) || (d < 0 && rr == math.MinInt64) {
					d = 0
				}
				br = rr + d
			}
			ops = append(ops, fmt.Sprintf("with %s %d %s %s", name, br, []string{"ok", "err"}[r.Intn(2)], []string{"ok", "err"}[r.Intn(2)]))
		default:
			ops = append(ops, []string{"with demeter", "record x", "record x y", "with x 1 ok maybe", "frob", "with x 1.5 ok ok", "junk"}[r.Intn(7)])
		}
	}
	return ops
}

// oracle: the property on the implementation's answers (reference: name -> recorded round).
//
//	recorded at r:      block round <  r -> `before` ran (and only it); block round >= r -> `after` ran (and only it);
//	never recorded:     `before` ran, for every block round;
//	the call returns what the closure returned.
//
// Names holding a value that is not a fork record, and states with missing trie nodes, are outside the property.
func oracle(ops, outs []string) *corr.Violation {
	var first, firstKnown *corr.Violation
	mk := func(sig, msg string) {
		v := &corr.Violation{Signature: "C43:" + sig, Message: msg, Ops: ops, Impl: outs}
		if sig == "unrecorded-fork-at-maxint64-round" {
			if firstKnown == nil {
				firstKnown = v
			}
		} else if first == nil {
			first = v
		}
	}
	rec := map[string]int64{}
	junk := map[string]bool{}
	broken := false
	for i, op := range ops {
		f := strings.Fields(op)
		if len(f) == 0 || outs[i] == "bad-op" {
			continue
		}
		switch f[0] {
		case "new":
			rec, junk, broken = map[string]int64{}, map[string]bool{}, false
		case "newbroken":
			rec, junk, broken = map[string]int64{}, map[string]bool{}, true
		case "record":
			r, _ := strconv.ParseInt(f[2], 10, 64)
			rec[f[1]] = r
			delete(junk, f[1])
		case "junk":
			junk[f[1]] = true
			delete(rec, f[1])
		case "round":
			// GetRoundByName answers with this name's own record (math.MaxInt64 + value-not-present when never recorded)
			if broken || junk[f[1]] {
				continue
			}
			want := fmt.Sprintf("round %d value-not-present", int64(math.MaxInt64))
			if r, ok := rec[f[1]]; ok {
				want = fmt.Sprintf("round %d ok", r)
			}
			if outs[i] != want {
				sig := "round-by-name"
				for other, or := range rec {
					if other != f[1] && outs[i] == fmt.Sprintf("round %d ok", or) {
						sig = "fork-record-shared-between-names"
					}
				}
				mk(sig, fmt.Sprintf("op %d %q answered %q, this name's own record gives %q", i, op, outs[i], want))
			}
		case "with":
			if broken || junk[f[1]] {
				continue
			}
			br, _ := strconv.ParseInt(f[2], 10, 64)
			want, res := "before", f[3]
			r, isRec := rec[f[1]]
			if isRec && br >= r {
				want, res = "after", f[4]
			}
			g := strings.Fields(outs[i])
			if len(g) != 2 {
				mk("answer", fmt.Sprintf("op %d %q answered %q", i, op, outs[i]))
				continue
			}
			if g[0] != want {
				// does the record of ANOTHER name explain what ran? then the two names share a record
				shared := ""
				for other, or := range rec {
					if other == f[1] {
						continue
					}
					ow := "before"
					if br >= or {
						ow = "after"
					}
					if ow == g[0] {
						shared = other
						if strings.EqualFold(forkName(other), forkName(f[1])) {
							break
						}
					}
				}
				switch {
				case shared != "" && !(!isRec && br == math.MaxInt64):
					mk("fork-record-shared-between-names", fmt.Sprintf("op %d %q: %q ran, which is what the record of the OTHER name %q (round %d) gives; name %q itself: recorded=%v round=%d, the property says %q", i, op, g[0], shared, rec[shared], f[1], isRec, r, want))
				case !isRec && br == math.MaxInt64 && g[0] == "after":
					mk("unrecorded-fork-at-maxint64-round", fmt.Sprintf("op %d %q: fork %q was never recorded, block round %d: %q ran (the property: pre-fork rules)", i, op, f[1], br, g[0]))
				case !isRec:
					mk("unrecorded-fork-not-before", fmt.Sprintf("op %d %q: fork %q was never recorded, %q ran", i, op, f[1], g[0]))
				default:
					mk("wrong-branch", fmt.Sprintf("op %d %q: fork recorded at %d, block round %d: %q ran, the property says %q", i, op, r, br, g[0], want))
				}
				continue
			}
			if g[1] != res {
				mk("result-not-propagated", fmt.Sprintf("op %d %q: the %s closure returned %q, WithActivation returned %q", i, op, want, res, g[1]))
			}
		}
	}
	if first != nil {
		return first
	}
	return firstKnown
}

func main() {
	corr.Main(corr.Prop{
		ID: "C43", Model: "C43", Gen: gen, Impl: impl, Oracle: oracle, Serial: true,
		Cases: func(th bool) int {
			if th {
				return 8000
			}
			return 600
		},
		Fixed: [][]string{
			{"new", "with demeter 9223372036854775807 ok ok", "with demeter 9223372036854775806 ok ok", "round demeter"}, // unrecorded at MaxInt64 (known finding)
			{"new", "record demeter 100", "with demeter 99 ok err", "with demeter 100 ok err", "with demeter 101 err ok", "round demeter", "with electra 100 ok ok"},
			{"newbroken", "with demeter 5 ok ok", "round demeter"},
			{"new", "record Electra 100", "with Electra 99 ok ok", "with Electra 100 ok ok", "with electra 100 ok ok", "with electra 150 ok ok", "round electra"}, // seeded C43-r2-2
			{"new", "record Apollo 50", "record apollo 500", "with Apollo 100 ok ok", "with apollo 100 ok ok", "round Apollo", "record ~ 7", "with ~ 7 ok ok", "with a+b 7 ok ok", "record a+b 9", "with ab 9 ok ok"},
			{"new", "record x -9223372036854775808", "with x 9223372036854775807 ok ok", "record y 9223372036854775807", "with y -9223372036854775808 ok ok", "with y -1 ok ok"},
			{"new", "junk demeter", "with demeter 5 ok err", "with demeter 9223372036854775807 ok err", "round demeter"},
			{"new", "record x -9223372036854775808", "with x -9223372036854775808 ok ok", "record y 9223372036854775807", "with y 9223372036854775806 ok ok", "with y 9223372036854775807 ok ok"},
		},
	})
}
