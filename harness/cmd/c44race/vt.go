package main

import (
	"context"
	"fmt"
	"os"

	"0chain.net/chaincore/block"
	"0chain.net/chaincore/transaction"
	"verifharness/lib/minerfix"
)

// runVT drives the real miner.Chain.ValidateTransactions (exported; the chain object is the fixture of
// harness/lib/minerfix, validation batch size 2) with blocks of 8 transactions = 4 worker goroutines:
//   - every transaction lacks its output hash: each worker reads `cancel` and then writes `cancel = true`;
//   - the chain's current round is past the block's round: each worker writes `cancel` and `roundMismatch`,
//     the spawning body reads `roundMismatch` after the first result arrives (blocks of 8 … 188 transactions, so that
//     many workers are still running at that moment).
//
// Both paths end before any signature is looked at, so no keys are needed.
func runVT(idx int, iters int) {
	f := minerfix.New(minerfix.Opts{N: 4, T: 3, Self: 0, ThresholdByCount: 60, ValidationBatchSize: 2})
	defer f.Close()
	mc := f.MC
	ctx := context.Background()
	mk := func(rn int64, withOutput bool, n int) *block.Block {
		b := block.NewBlock("", rn)
		for i := 0; i < n; i++ {
			t := mkTxn(900 + i)
			if !withOutput {
				t.OutputHash = ""
			}
			b.Txns = append(b.Txns, t)
		}
		b.Hash = fmt.Sprintf("vt-%d", rn)
		return b
	}
	reps := iters * 2
	fmt.Fprintf(os.Stderr, "=== SCEN %d VT.validate VT.validate no-output-hash\n", idx)
	mc.SetCurrentRound(1)
	for k := 0; k < reps; k++ {
		_ = mc.ValidateTransactions(ctx, mk(50, false, 8))
	}
	fmt.Fprintf(os.Stderr, "=== END %d\n", idx)
	fmt.Fprintf(os.Stderr, "=== SCEN %d VT.main VT.validate round-mismatch\n", idx+1)
	mc.SetCurrentRound(1000)
	for k := 0; k < reps; k++ {
		// many workers: the spawning body reads roundMismatch after the FIRST result while later workers still write it
		_ = mc.ValidateTransactions(ctx, mk(50, true, 8+(k%4)*60))
	}
	fmt.Fprintf(os.Stderr, "=== END %d\n", idx+1)
	_ = transaction.TxnTypeSend
}
