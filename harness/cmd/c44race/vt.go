package main

import (
	"context"
	"fmt"
	"os"
	"time"

	"0chain.net/chaincore/block"
	"0chain.net/chaincore/client"
	"0chain.net/chaincore/transaction"
	"0chain.net/core/common"
	"0chain.net/core/encryption"
	"verifharness/lib/minerfix"
)

// runAggregator drives the real miner.Chain.ValidateTransactions all the way through the signature aggregation: client
// signature scheme bls0chain (the fixture's), validation batch size 4, blocks of 5 / 9 / 13 correctly signed transactions
// (more than one batch, not a multiple of the batch size), `reps` blocks. The lock-free
// encryption.BLS0ChainAggregateSignatureScheme is shared by the batch workers; it is race-free only while worker k is
// the sole writer of slot k (ownership by index, Model/IndexOwn.lean). Every validation must succeed: the blocks are valid.
func runAggregator(idx int, reps int) {
	f := minerfix.New(minerfix.Opts{N: 4, T: 3, Self: 0, ThresholdByCount: 60, ValidationBatchSize: 4})
	defer f.Close()
	mc := f.MC
	mc.SetCurrentRound(7)
	transaction.TXN_TIME_TOLERANCE = 600
	ss := encryption.NewBLS0ChainScheme()
	if err := ss.GenerateKeys(); err != nil {
		panic(err)
	}
	cl := client.NewClient()
	if err := cl.SetPublicKey(ss.GetPublicKey()); err != nil {
		panic(err)
	}
	cl.ID = encryption.Hash(cl.PublicKeyBytes)
	if err := client.PutClientCache(cl); err != nil {
		panic(err)
	}
	to := encryption.Hash("receiver")
	fmt.Fprintf(os.Stderr, "=== SCEN %d VT.aggregator VT.aggregator scheme=%s batch=%d\n", idx, mc.ClientSignatureScheme(), mc.ValidationBatchSize())
	failed, first := 0, ""
	nonce := int64(0)
	for rep := 0; rep < reps; rep++ {
		n := 5 + 4*(rep%3)
		b := block.NewBlock(mc.ID, 7)
		b.CreationDate = common.Now()
		for i := 0; i < n; i++ {
			t := transaction.Provider().(*transaction.Transaction)
			t.ClientID = cl.ID
			t.PublicKey = cl.PublicKey
			t.ToClientID = to
			t.Value = 1
			nonce++
			t.Nonce = nonce
			t.CreationDate = b.CreationDate
			t.TransactionData = fmt.Sprintf("txn-%d-%d", rep, i)
			t.Hash = t.ComputeHash()
			sig, err := ss.Sign(t.Hash)
			if err != nil {
				panic(err)
			}
			t.Signature = sig
			t.OutputHash = t.ComputeOutputHash()
			b.Txns = append(b.Txns, t)
		}
		b.HashBlock()
		ctx, cancel := context.WithTimeout(context.Background(), 2*time.Minute)
		err := mc.ValidateTransactions(ctx, b)
		cancel()
		if err != nil {
			failed++
			if first == "" {
				first = err.Error()
			}
		}
	}
	fmt.Fprintf(os.Stderr, "=== AGG validations=%d failed=%d first=%q\n", reps, failed, first)
	fmt.Fprintf(os.Stderr, "=== END %d\n", idx)
}

// runVT drives the real miner.Chain.ValidateTransactions (exported; the chain object is the fixture of
// harness/lib/minerfix, validation batch size 2) with blocks of 8 transactions = 4 worker goroutines:
//   - every transaction lacks its output hash: each worker reads `cancel` and then writes `cancel = true`;
//   - the chain's current round is past the block's round: each worker writes `cancel` and `roundMismatch`,
//     the spawning body reads `roundMismatch` after the first result arrives (blocks of 8 … 188 transactions, so that
//     many workers are still running at that moment).
//
// Both paths end before any signature is looked at, so no keys are needed.
func runVT(idx int, iters int) {
	f := minerfix.New(minerfix.Opts{N: 4, T: 3, Self: 0, ThresholdByCount: 60, ValidationBatchSize: 2})
	defer f.Close()
	mc := f.MC
	ctx := context.Background()
	mk := func(rn int64, withOutput bool, n int) *block.Block {
		b := block.NewBlock("", rn)
		for i := 0; i < n; i++ {
			t := mkTxn(900 + i)
			if !withOutput {
				t.OutputHash = ""
			}
			b.Txns = append(b.Txns, t)
		}
		b.Hash = fmt.Sprintf("vt-%d", rn)
		return b
	}
	reps := iters * 2
	fmt.Fprintf(os.Stderr, "=== SCEN %d VT.validate VT.validate no-output-hash\n", idx)
	mc.SetCurrentRound(1)
	for k := 0; k < reps; k++ {
		_ = mc.ValidateTransactions(ctx, mk(50, false, 8))
	}
	fmt.Fprintf(os.Stderr, "=== END %d\n", idx)
	fmt.Fprintf(os.Stderr, "=== SCEN %d VT.main VT.validate round-mismatch\n", idx+1)
	mc.SetCurrentRound(1000)
	for k := 0; k < reps; k++ {
		// many workers: the spawning body reads roundMismatch after the FIRST result while later workers still write it
		_ = mc.ValidateTransactions(ctx, mk(50, true, 8+(k%4)*60))
	}
	fmt.Fprintf(os.Stderr, "=== END %d\n", idx+1)
	_ = transaction.TxnTypeSend
}
