// c44race: the race-detector child of the C44 harness. Built with `go build -race` by harness/cmd/c44 and run with
// GORACE="halt_on_error=0 …". It drives the REAL round.Round / block.Block objects and miner.Chain.ValidateTransactions
// from several goroutines: for every requested pair of entry points (one line `<entryA> <entryB>` on stdin) it builds a
// fresh object graph (a round holding blocks, a block with its previous block, both with computed state) and lets two
// goroutines per side hammer the two entries on the shared objects. The race detector writes its `WARNING: DATA RACE`
// reports to stderr; this program only prints `=== SCEN …` / `=== END` markers around each scenario (also on stderr, so
// that a report can be attributed to the scenario it belongs to) and never judges anything itself.
package main

import (
	"bufio"
	"context"
	"fmt"
	"os"
	"reflect"
	"sort"
	"strconv"
	"strings"
	"sync"
	"sync/atomic"
	"time"

	"0chain.net/chaincore/block"
	"0chain.net/chaincore/node"
	"0chain.net/chaincore/round"
	"0chain.net/chaincore/state"
	"0chain.net/chaincore/transaction"
	"0chain.net/core/common"
	"0chain.net/core/datastore"
	"0chain.net/core/memorystore"
	"0chain.net/core/viper"
	"0chain.net/smartcontract/dbs/event"
	"github.com/0chain/common/core/statecache"
	"github.com/0chain/common/core/util"
	"verifharness/lib/minerfix"
)

type env struct {
	hash        map[*block.Block]string   // constants of the fixture, read before the goroutines start
	shash       map[*block.Block]util.Key // the state hash the block was given
	mk          map[*block.Block]func() util.MerklePatriciaTrieI
	bsc         map[*block.Block]*block.StateChange // a state change matching the block
	withCompute bool                                // the scenario runs ComputeState (see the SetPreviousBlock driver)
	r           *round.Round
	b, pb       *block.Block
	ppb         *block.Block
	pool        []*block.Block // blocks the round operations are fed with
	nodes       []*node.Node
	npool       *node.Pool
	ch          *stubChain
	root        util.Key
	shares      []*round.VRFShare
}

type stubChain struct {
	db   util.NodeDB
	sc   *statecache.StateCache
	prev map[*block.Block]*block.Block
	// keys: what "executing the transactions" of a block inserts into the state (so that the computed state differs
	// from the previous block's and equals the state hash the block carries)
	keys map[*block.Block][]util.Path
}

func (c *stubChain) GetPreviousBlock(ctx context.Context, b *block.Block) *block.Block {
	return c.prev[b]
}
func (c *stubChain) GetBlockStateChange(b *block.Block) error { return nil }
func (c *stubChain) ComputeState(ctx context.Context, pb *block.Block, waitC ...chan struct{}) error {
	return nil
}
func (c *stubChain) GetStateDB() util.NodeDB { return c.db }
func (c *stubChain) UpdateState(ctx context.Context, b *block.Block, bState util.MerklePatriciaTrieI, txn *transaction.Transaction,
	bc *statecache.BlockCache, waitC ...chan struct{}) ([]event.Event, error) {
	for _, k := range c.keys[b] {
		if _, err := bState.Insert(k, changeVal()); err != nil {
			return nil, err
		}
	}
	return nil, nil
}
func (c *stubChain) GetEventDb() *event.EventDb            { return nil }
func (c *stubChain) GetStateCache() *statecache.StateCache { return c.sc }

func mkTxn(i int) *transaction.Transaction {
	t := datastore.GetEntityMetadata("txn").Instance().(*transaction.Transaction)
	t.ClientID = fmt.Sprintf("%064x", 1000+i)
	t.Hash = fmt.Sprintf("%064x", 5000+i)
	t.OutputHash = "oh"
	t.CreationDate = common.Now()
	return t
}

var baseDB = util.NewMemoryNodeDB()
var baseRoot util.Key // H0: root of the saved base state

func baseState() util.MerklePatriciaTrieI {
	mpt := util.NewMerklePatriciaTrie(baseDB, 1, baseRoot, statecache.NewEmpty())
	return mpt
}

var k1, k2 = util.Path("c0ffee"), util.Path("decade")

func changeVal() *util.SecureSerializableValue {
	return &util.SecureSerializableValue{Buffer: []byte("changed")}
}

// stateWith: the base state plus uncommitted insertions (one change each)
func stateWith(keys ...util.Path) util.MerklePatriciaTrieI {
	ndb := util.NewLevelNodeDB(util.NewMemoryNodeDB(), baseDB, false)
	mpt := util.NewMerklePatriciaTrie(ndb, 2, baseRoot, statecache.NewEmpty())
	for _, k := range keys {
		if _, err := mpt.Insert(k, changeVal()); err != nil {
			panic(err)
		}
	}
	return mpt
}

func initBase() {
	mpt := util.NewMerklePatriciaTrie(baseDB, 1, nil, statecache.NewEmpty())
	if _, err := mpt.Insert(util.Path("abcdef"), &util.SecureSerializableValue{Buffer: []byte("v")}); err != nil {
		panic(err)
	}
	if err := mpt.SaveChanges(context.Background(), baseDB, false); err != nil {
		panic(err)
	}
	baseRoot = mpt.GetRoot()
	// the nodes of the two later states are in the state DB as well (InitStateDB looks the root up there)
	for _, ks := range [][]util.Path{{k1}, {k1, k2}} {
		m := stateWith(ks...)
		if err := m.SaveChanges(context.Background(), baseDB, false); err != nil {
			panic(err)
		}
	}
}

func mkBlock(rn int64, rank int, hash string) *block.Block {
	b := block.NewBlock("", rn)
	b.MinerID = "miner1"
	b.RoundRank = rank
	b.Txns = []*transaction.Transaction{mkTxn(int(rn) * 10), mkTxn(int(rn)*10 + 1)}
	b.Hash = hash
	b.ClientStateHash = baseRoot
	b.VerificationTickets = []*block.VerificationTicket{{VerifierID: "v0", Signature: "s0"}}
	b.ComputeTxnMap()
	return b
}

func computed(b *block.Block, s util.MerklePatriciaTrieI) {
	b.SetClientState(s)
	b.SetStateChangesCount(s)
	b.SetStateStatus(block.StateSuccessful)
}

func newEnv() *env {
	e := &env{hash: map[*block.Block]string{}, bsc: map[*block.Block]*block.StateChange{}, shash: map[*block.Block]util.Key{},
		mk: map[*block.Block]func() util.MerklePatriciaTrieI{}}
	// three consecutive blocks whose states differ (H0, H0+k1, H0+k1+k2): the state-debug checks go all the way
	e.ppb = mkBlock(3, 0, "h-ppb")
	computed(e.ppb, baseState())
	e.pb = mkBlock(4, 0, "h-pb")
	e.mk[e.pb] = func() util.MerklePatriciaTrieI { return stateWith(k1) }
	computed(e.pb, e.mk[e.pb]())
	e.pb.SetPreviousBlock(e.ppb)
	e.b = mkBlock(5, 0, "h-b")
	e.mk[e.b] = func() util.MerklePatriciaTrieI { return stateWith(k1, k2) }
	computed(e.b, e.mk[e.b]())
	e.b.SetPreviousBlock(e.pb)
	for _, t := range []*block.Block{e.b, e.pb} {
		e.hash[t] = t.Hash
		e.shash[t] = t.ClientStateHash
		c, err := block.NewBlockStateChange(t)
		if err != nil {
			panic(err)
		}
		e.bsc[t] = c
	}
	// e.b: its state object (one change, root H0+k1) and its recorded state hash (H0+k1+k2) disagree — set through the
	// exported field before anything runs. CreateStateWithPreviousBlock(e.b, …) and validateStateChangesRoot(e.b) then
	// take their mismatch branches (they log the block's round), everything else works as before.
	e.b.ClientState = stateWith(k1)
	twin := mkBlock(5, 0, "h-b") // same hash, other object
	twin.VerificationTickets = []*block.VerificationTicket{{VerifierID: "v9", Signature: "s9"}}
	x := mkBlock(5, 0, "h-x") // same rank, other hash
	y := mkBlock(5, 1, "h-y")
	z := mkBlock(5, 2, "h-z")
	e.pool = []*block.Block{e.b, e.pb, twin, x, y, z}
	e.ch = &stubChain{db: baseDB, sc: statecache.NewStateCache(), prev: map[*block.Block]*block.Block{e.b: e.pb, e.pb: e.ppb, e.ppb: nil},
		keys: map[*block.Block][]util.Path{e.pb: {k1}, e.b: {k2}}}
	e.npool = node.NewPool(node.NodeTypeMiner)
	for i := 0; i < 4; i++ {
		nd := node.Provider()
		nd.ID = fmt.Sprintf("%064x", 77+i)
		nd.Type = node.NodeTypeMiner
		nd.SetIndex = i
		e.nodes = append(e.nodes, nd)
		e.npool.AddNode(nd)
		vs := &round.VRFShare{Round: 5, Share: fmt.Sprint("share", i)}
		vs.SetParty(nd)
		e.shares = append(e.shares, vs)
	}
	e.r = round.NewRound(5)
	e.r.SetRandomSeed(4242, 4)
	e.r.AddProposedBlock(y)
	e.r.AddProposedBlock(z)
	e.r.AddProposedBlock(e.b)
	e.r.AddNotarizedBlock(y)
	e.r.AddNotarizedBlock(z)
	e.r.AddNotarizedBlock(e.pb)
	e.r.AddVRFShare(e.shares[0], 10)
	e.r.ResetPhase(round.ShareVRF)
	return e
}

type driver struct {
	kind string // "round" | "block"
	f    func(e *env, t *block.Block, i int)
}

var sink atomic.Value

func keep(x interface{}) {
	if x != nil {
		sink.Store(fmt.Sprintf("%T", x))
	}
}

var drivers = map[string]driver{}

func rd(name string, f func(e *env, i int)) {
	drivers[name] = driver{"round", func(e *env, _ *block.Block, i int) { f(e, i) }}
}
func bd(name string, f func(e *env, t *block.Block, i int)) { drivers[name] = driver{"block", f} }

func init() {
	ctx := context.Background()
	// ---- round.Round
	rd("Round.AddNotarizedBlock", func(e *env, i int) { e.r.AddNotarizedBlock(e.pool[i%len(e.pool)]) })
	rd("Round.AddProposedBlock", func(e *env, i int) { e.r.AddProposedBlock(e.pool[i%len(e.pool)]) })
	rd("Round.AddVRFShare", func(e *env, i int) { e.r.AddVRFShare(e.shares[i%len(e.shares)], 10) })
	rd("Round.Clone", func(e *env, i int) { keep(e.r.Clone()) })
	rd("Round.Finalize", func(e *env, i int) { e.r.Finalize(e.pool[i%2]) })
	rd("Round.FinalizeState", func(e *env, i int) { keep(e.r.FinalizeState()) })
	rd("Round.GetBestRankedNotarizedBlock", func(e *env, i int) { keep(e.r.GetBestRankedNotarizedBlock()) })
	rd("Round.GetBestRankedProposedBlock", func(e *env, i int) { keep(e.r.GetBestRankedProposedBlock()) })
	rd("Round.GetBlockHash", func(e *env, i int) { keep(e.r.GetBlockHash()) })
	rd("Round.GetBlocksByRank", func(e *env, i int) {
		keep(e.r.GetBlocksByRank([]*block.Block{e.pool[(i+1)%len(e.pool)], e.pool[i%len(e.pool)]}))
	})
	rd("Round.GetHeaviestNotarizedBlock", func(e *env, i int) { keep(e.r.GetHeaviestNotarizedBlock()) })
	rd("Round.GetKey", func(e *env, i int) { keep(e.r.GetKey()) })
	rd("Round.GetMinerRank", func(e *env, i int) { keep(e.r.GetMinerRank(e.nodes[i%len(e.nodes)])) })
	rd("Round.GetMinersByRank", func(e *env, i int) { keep(e.r.GetMinersByRank(append([]*node.Node(nil), e.nodes...))) })
	rd("Round.GetNotarizedBlocks", func(e *env, i int) {
		// the caller of GetNotarizedBlocks walks the slice it is given (chain code ranges over it)
		n := 0
		for _, x := range e.r.GetNotarizedBlocks() {
			if x != nil {
				n++
			}
		}
		keep(n)
	})
	rd("Round.GetPhase", func(e *env, i int) { keep(e.r.GetPhase()) })
	rd("Round.GetProposedBlocks", func(e *env, i int) {
		n := 0
		for _, x := range e.r.GetProposedBlocks() {
			if x != nil {
				n++
			}
		}
		keep(n)
	})
	rd("Round.GetRandomSeed", func(e *env, i int) { keep(e.r.GetRandomSeed()) })
	rd("Round.GetRoundNumber", func(e *env, i int) { keep(e.r.GetRoundNumber()) })
	rd("Round.GetSoftTimeoutCount", func(e *env, i int) { keep(e.r.GetSoftTimeoutCount()) })
	rd("Round.GetVRFOutput", func(e *env, i int) { keep(e.r.GetVRFOutput()) })
	rd("Round.GetVRFShares", func(e *env, i int) { keep(e.r.GetVRFShares()) })
	rd("Round.GetVrfStartTime", func(e *env, i int) { keep(e.r.GetVrfStartTime()) })
	rd("Round.HasRandomSeed", func(e *env, i int) { keep(e.r.HasRandomSeed()) })
	rd("Round.IncSoftTimeoutCount", func(e *env, i int) { e.r.IncSoftTimeoutCount() })
	rd("Round.IsFinalized", func(e *env, i int) { keep(e.r.IsFinalized()) })
	rd("Round.IsFinalizing", func(e *env, i int) { keep(e.r.IsFinalizing()) })
	rd("Round.IsRanksComputed", func(e *env, i int) { keep(e.r.IsRanksComputed()) })
	rd("Round.ResetFinalizingState", func(e *env, i int) { e.r.ResetFinalizingState() })
	rd("Round.ResetFinalizingStateIfNotFinalized", func(e *env, i int) { e.r.ResetFinalizingStateIfNotFinalized() })
	rd("Round.ResetPhase", func(e *env, i int) { e.r.ResetPhase(round.Phase(i % 3)) })
	rd("Round.Restart", func(e *env, i int) { e.r.ResetPhase(round.ShareVRF); keep(e.r.Restart()) })
	rd("Round.SetFinalized", func(e *env, i int) { e.r.SetFinalized() })
	rd("Round.SetFinalizing", func(e *env, i int) { keep(e.r.SetFinalizing()) })
	rd("Round.SetPhase", func(e *env, i int) {
		if i%4 == 0 {
			e.r.ResetPhase(round.ShareVRF) // so that the next SetPhase calls store again
		}
		e.r.SetPhase(round.Phase(i % 4))
	})
	rd("Round.SetRandomSeed", func(e *env, i int) { e.r.Restart(); e.r.SetRandomSeed(int64(100+i), 4) })
	rd("Round.SetRandomSeedForNotarizedBlock", func(e *env, i int) { e.r.SetRandomSeedForNotarizedBlock(int64(200+i), 4) })
	rd("Round.SetVRFOutput", func(e *env, i int) { e.r.SetVRFOutput(strconv.Itoa(i)) })
	rd("Round.SetVrfStartTime", func(e *env, i int) { e.r.SetVrfStartTime(time.Unix(int64(i), 0)) })
	rd("Round.UpdateNotarizedBlock", func(e *env, i int) { e.r.UpdateNotarizedBlock(e.pool[i%len(e.pool)]) })
	rd("Round.VRFShareExist", func(e *env, i int) { keep(e.r.VRFShareExist(e.shares[i%len(e.shares)])) })
	rd("timeoutCounter.AddTimeoutVote", func(e *env, i int) { e.r.AddTimeoutVote(i%5, e.nodes[i%len(e.nodes)].ID) })
	rd("timeoutCounter.GetNormalizedTimeoutCount", func(e *env, i int) { keep(e.r.GetNormalizedTimeoutCount()) })
	rd("timeoutCounter.GetTimeoutCount", func(e *env, i int) { keep(e.r.GetTimeoutCount()) })
	rd("timeoutCounter.IncrementTimeoutCount", func(e *env, i int) { e.r.IncrementTimeoutCount(int64(1+i%3), e.npool) })
	rd("timeoutCounter.SetTimeoutCount", func(e *env, i int) { keep(e.r.SetTimeoutCount(i)) })

	// ---- block.Block (t = the block the entry is applied to: e.b or its previous block e.pb)
	bd("Block.AddUniqueBlockExtension", func(e *env, t *block.Block, i int) { t.AddUniqueBlockExtension(e.pool[i%len(e.pool)]) })
	bd("Block.AddVerificationTicket", func(e *env, t *block.Block, i int) {
		t.AddVerificationTicket(&block.VerificationTicket{VerifierID: "v" + strconv.Itoa(i%40), Signature: "s"})
	})
	bd("Block.ApplyBlockStateChange", func(e *env, t *block.Block, i int) {
		t.SetStateStatus(block.StatePending)
		if i%3 == 0 {
			// a change set without nodes: ends at the "state root not correct" test
			bsc := &block.StateChange{Block: e.hash[t]}
			bsc.Hash = e.shash[t]
			keep(t.ApplyBlockStateChange(bsc, e.ch))
			return
		}
		keep(t.ApplyBlockStateChange(e.bsc[t], e.ch))
	})
	bd("Block.Clear", func(e *env, t *block.Block, i int) { t.Clear() })
	bd("Block.Clone", func(e *env, t *block.Block, i int) { keep(t.Clone()) })
	bd("Block.ComputeHash", func(e *env, t *block.Block, i int) { keep(t.ComputeHash()) })
	bd("Block.ComputeState", func(e *env, t *block.Block, i int) {
		t.SetStateStatus(block.StatePending)
		if i%5 == 4 {
			// "a real case, may be unexpected" (entity.go:853): the block's previous-block pointer points at itself
			t.SetPreviousBlock(t)
		}
		keep(t.ComputeState(ctx, e.ch))
	})
	bd("Block.ComputeTxnMap", func(e *env, t *block.Block, i int) { t.ComputeTxnMap() })
	bd("Block.CreateState", func(e *env, t *block.Block, i int) { t.CreateState(baseDB, baseRoot) })
	bd("Block.GetBlockState", func(e *env, t *block.Block, i int) { keep(t.GetBlockState()) })
	bd("Block.GetClients", func(e *env, t *block.Block, i int) { c, _ := t.GetClients(); keep(c) })
	bd("Block.GetMerkleTree", func(e *env, t *block.Block, i int) { keep(t.GetMerkleTree()) })
	bd("Block.GetPrevBlockVerificationTickets", func(e *env, t *block.Block, i int) { keep(t.GetPrevBlockVerificationTickets()) })
	bd("Block.GetReceiptsMerkleTree", func(e *env, t *block.Block, i int) { keep(t.GetReceiptsMerkleTree()) })
	bd("Block.GetScore", func(e *env, t *block.Block, i int) { s, _ := t.GetScore(); keep(s) })
	bd("Block.GetStateStatus", func(e *env, t *block.Block, i int) { keep(t.GetStateStatus()) })
	bd("Block.GetSummary", func(e *env, t *block.Block, i int) { keep(t.GetSummary()) })
	bd("Block.GetTransaction", func(e *env, t *block.Block, i int) { keep(t.GetTransaction("nope")) })
	bd("Block.GetUniqueBlockExtensions", func(e *env, t *block.Block, i int) { keep(t.GetUniqueBlockExtensions()) })
	bd("Block.GetVerificationStatus", func(e *env, t *block.Block, i int) { keep(t.GetVerificationStatus()) })
	bd("Block.GetVerificationTickets", func(e *env, t *block.Block, i int) { keep(t.GetVerificationTickets()) })
	bd("Block.HasTransaction", func(e *env, t *block.Block, i int) { keep(t.HasTransaction("x")) })
	bd("Block.InitStateDB", func(e *env, t *block.Block, i int) { keep(t.InitStateDB(baseDB)) })
	bd("Block.IsBlockFinalised", func(e *env, t *block.Block, i int) { keep(t.IsBlockFinalised()) })
	bd("Block.IsBlockNotarized", func(e *env, t *block.Block, i int) { keep(t.IsBlockNotarized()) })
	bd("Block.IsStateComputed", func(e *env, t *block.Block, i int) { keep(t.IsStateComputed()) })
	bd("Block.MergeVerificationTickets", func(e *env, t *block.Block, i int) {
		t.MergeVerificationTickets([]*block.VerificationTicket{{VerifierID: "m" + strconv.Itoa(i%40), Signature: "s"}})
	})
	bd("Block.PrevBlockVerificationTicketsSize", func(e *env, t *block.Block, i int) { keep(t.PrevBlockVerificationTicketsSize()) })
	bd("Block.SaveChanges", func(e *env, t *block.Block, i int) { keep(t.SaveChanges(ctx, e.ch)) })
	bd("Block.SetBlockFinalised", func(e *env, t *block.Block, i int) { t.SetBlockFinalised() })
	bd("Block.SetBlockNotarized", func(e *env, t *block.Block, i int) { t.SetBlockNotarized() })
	bd("Block.SetBlockState", func(e *env, t *block.Block, i int) { t.SetBlockState(int8(i % 7)) })
	bd("Block.SetClientState", func(e *env, t *block.Block, i int) { t.SetClientState(e.mk[t]()) })
	bd("Block.SetPrevBlockVerificationTickets", func(e *env, t *block.Block, i int) {
		t.SetPrevBlockVerificationTickets([]*block.VerificationTicket{{VerifierID: "p" + strconv.Itoa(i), Signature: "s"}})
	})
	bd("Block.SetPreviousBlock", func(e *env, t *block.Block, i int) {
		if i%4 == 1 && !e.withCompute {
			// SetPreviousBlock then copies the previous block's tickets again. Not together with the ComputeState driver:
			// its SetPreviousBlock(t, t) would take t's ticket lock twice when t has no previous-block tickets.
			t.SetPrevBlockVerificationTickets(nil)
		}
		t.SetPreviousBlock(e.ch.prev[t])
	})
	bd("Block.SetStateStatus", func(e *env, t *block.Block, i int) { t.SetStateStatus(int8(block.StateSuccessful)) })
	bd("Block.SetVerificationStatus", func(e *env, t *block.Block, i int) { t.SetVerificationStatus(i % 3) })
	bd("Block.UnknownTickets", func(e *env, t *block.Block, i int) {
		keep(t.UnknownTickets([]*block.VerificationTicket{{VerifierID: "u", Signature: "s"}}))
	})
	bd("Block.Validate", func(e *env, t *block.Block, i int) { keep(t.Validate(ctx)) })
	bd("Block.VerificationTicketsSize", func(e *env, t *block.Block, i int) { keep(t.VerificationTicketsSize()) })
	bd("Block.Weight", func(e *env, t *block.Block, i int) { keep(t.Weight()) })
	bd("UnverifiedBlockBody.Clone", func(e *env, t *block.Block, i int) { keep(t.UnverifiedBlockBody.Clone()) })
	bd("UnverifiedBlockBody.GetRoundRandomSeed", func(e *env, t *block.Block, i int) { keep(t.GetRoundRandomSeed()) })
	bd("VerificationTicket.GetBlockVerificationTicket", func(e *env, t *block.Block, i int) {
		vt := &block.VerificationTicket{VerifierID: "v", Signature: "s"}
		keep(vt.GetBlockVerificationTicket(t))
	})
	bd("block.CreateFinalizeBlockEvent", func(e *env, t *block.Block, i int) { keep(block.CreateFinalizeBlockEvent(t)) })
	bd("block.CreateStateWithPreviousBlock", func(e *env, t *block.Block, i int) {
		keep(block.CreateStateWithPreviousBlock(t, baseDB, 6))
	})
	bd("block.NewBlockStateChange", func(e *env, t *block.Block, i int) { c, _ := block.NewBlockStateChange(t); keep(c) })
	bd("block.StateSanityCheck", func(e *env, t *block.Block, i int) { block.StateSanityCheck(ctx, t) })
	bd("block.ValidateState", func(e *env, t *block.Block, i int) { keep(block.ValidateState(ctx, t, nil)) })
}

// layout prints the field offsets of a root structure with the location names the table uses: fields of embedded
// value structs are promoted (Block.Round for Block.UnverifiedBlockBody.Round, Block.Hash for HashIDField.Hash) except
// Round.timeoutCounter, whose fields keep the prefix. The parent maps the address of a race report to a location.
func layout(name string, t reflect.Type) {
	var parts []string
	var walk func(prefix string, t reflect.Type, base uintptr)
	walk = func(prefix string, t reflect.Type, base uintptr) {
		for i := 0; i < t.NumField(); i++ {
			f := t.Field(i)
			if f.Type.Kind() == reflect.Struct && f.Anonymous && strings.HasPrefix(f.Type.PkgPath(), "0chain.net/") {
				p := prefix
				if f.Name == "timeoutCounter" {
					p = prefix + ".timeoutCounter"
				}
				walk(p, f.Type, base+f.Offset)
				continue
			}
			parts = append(parts, fmt.Sprintf("%s.%s:%d:%d", prefix, f.Name, base+f.Offset, f.Type.Size()))
		}
	}
	walk(name, t, 0)
	fmt.Fprintf(os.Stderr, "=== LAYOUT %s %d %s\n", name, t.Size(), strings.Join(parts, " "))
}

func (e *env) printObjects() {
	fmt.Fprintf(os.Stderr, "=== OBJ Round %p\n", e.r)
	seen := map[*block.Block]bool{}
	for _, b := range append([]*block.Block{e.b, e.pb, e.ppb}, e.pool...) {
		if !seen[b] {
			seen[b] = true
			fmt.Fprintf(os.Stderr, "=== OBJ Block %p\n", b)
		}
	}
}

func runScenario(idx int, a, b string, iters int) {
	da, oka := drivers[a]
	db, okb := drivers[b]
	if !oka || !okb {
		fmt.Fprintf(os.Stderr, "=== SKIP %d %s %s no-driver\n", idx, a, b)
		return
	}
	type combo struct{ ta, tb string }
	combos := []combo{{"b", "b"}}
	if da.kind == "block" && db.kind == "block" {
		combos = append(combos, combo{"pb", "pb"}, combo{"b", "pb"}, combo{"pb", "b"})
	} else if da.kind == "block" || db.kind == "block" {
		combos = []combo{{"b", "b"}, {"pb", "pb"}}
	} else {
		// two round entries: three fresh rounds (some writes happen once in the life of a round: the ranking of the
		// timeout counters, the first random seed)
		combos = []combo{{"b", "b"}, {"b", "b"}, {"b", "b"}}
	}
	for _, c := range combos {
		e := newEnv()
		e.withCompute = a == "Block.ComputeState" || b == "Block.ComputeState"
		pick := func(s string) *block.Block {
			if s == "pb" {
				return e.pb
			}
			return e.b
		}
		ta, tb := pick(c.ta), pick(c.tb)
		fmt.Fprintf(os.Stderr, "=== SCEN %d %s %s %s/%s\n", idx, a, b, c.ta, c.tb)
		e.printObjects()
		tScen := time.Now()
		var wg sync.WaitGroup
		start := make(chan struct{})
		var panics int32
		var firstPanic atomic.Value
		run := func(d driver, t *block.Block, off int) {
			defer wg.Done()
			<-start
			// `iters` calls, but at least 4 ms (cheap entries would otherwise be done before the other goroutines have
			// started) and, for expensive entries, no longer than 25 ms once 20 calls are done; time.Now is not a
			// synchronisation for the race detector
			t0 := time.Now()
			for i := 0; ; i++ {
				el := time.Since(t0)
				if i >= iters && el >= 4*time.Millisecond {
					break
				}
				if i >= 20 && el >= time.Duration(25*iters/120)*time.Millisecond {
					break
				}
				func() {
					defer func() {
						if r := recover(); r != nil {
							if atomic.AddInt32(&panics, 1) == 1 {
								firstPanic.Store(fmt.Sprint(r))
							}
						}
					}()
					d.f(e, t, i+off)
				}()
			}
		}
		wg.Add(4)
		go run(da, ta, 0)
		go run(da, ta, 1)
		go run(db, tb, 2)
		go run(db, tb, 3)
		close(start)
		done := make(chan struct{})
		go func() { wg.Wait(); close(done) }()
		select {
		case <-done:
		case <-time.After(20 * time.Second):
			fmt.Fprintf(os.Stderr, "=== HANG %d %s %s\n", idx, a, b)
		}
		if p := atomic.LoadInt32(&panics); p > 0 {
			fmt.Fprintf(os.Stderr, "=== PANICS %d %s %s n=%d first=%v\n", idx, a, b, p, firstPanic.Load())
		}
		fmt.Fprintf(os.Stderr, "=== END %d %dms\n", idx, time.Since(tScen).Milliseconds())
	}
}

func main() {
	iters := 150
	if len(os.Args) > 1 {
		if n, err := strconv.Atoi(os.Args[1]); err == nil && n > 0 {
			iters = n
		}
	}
	minerfix.GlobalInit()
	transaction.SetupEntity(memorystore.GetStorageProvider())
	block.SetupStateChange(memorystore.GetStorageProvider())
	viper.Set("server_chain.round_timeouts.timeout_cap", 3)
	initBase()
	// a Self node for IncrementTimeoutCount
	self := node.Provider()
	self.ID = fmt.Sprintf("%064x", 9999)
	node.Self = &node.SelfNode{}
	node.Self.Node = self
	if os.Getenv("C44_LIST") != "" {
		var ns []string
		for n := range drivers {
			ns = append(ns, n)
		}
		ns = append(ns, "VT.validate", "VT.main", "VT.aggregator")
		sort.Strings(ns)
		fmt.Println(strings.Join(ns, "\n"))
		return
	}
	// block-level state debugging on: ComputeState then runs StateSanityCheck / ValidateState (as a node configured
	// with server_chain.state.debug does)
	state.SetDebugLevel(state.DebugLevelBlock)
	layout("Round", reflect.TypeOf(round.Round{}))
	layout("Block", reflect.TypeOf(block.Block{}))
	sc := bufio.NewScanner(os.Stdin)
	idx := 0
	var vtPairs [][2]string
	aggregator := false
	for sc.Scan() {
		w := strings.Fields(sc.Text())
		if len(w) != 2 {
			continue
		}
		if w[0] == "VT.aggregator" {
			aggregator = true
			continue
		}
		if strings.HasPrefix(w[0], "VT.") || strings.HasPrefix(w[1], "VT.") {
			vtPairs = append(vtPairs, [2]string{w[0], w[1]})
			continue
		}
		runScenario(idx, w[0], w[1], iters)
		idx++
	}
	if len(vtPairs) > 0 {
		runVT(idx, iters)
		idx += 2
	}
	if aggregator {
		reps := iters * 10
		if reps > 4000 {
			reps = 4000
		}
		runAggregator(idx, reps)
	}
	fmt.Fprintln(os.Stderr, "=== DONE")
}
