// C31 harness: the real notarization handlers of a miner (processVerifyBlock, handleVerificationTicketMessage,
// notarizationProcess, handleNotarizedBlockMessage; VerifyNotarization / VerifyTickets / MergeVerificationTickets /
// UpdateBlockNotarization underneath) on a minimal miner chain with real BLS keys, against Model/Notarize.lean.
package main

import (
	"context"
	"encoding/hex"
	"fmt"
	"math/big"
	"math/rand"
	"strconv"
	"strings"

	"0chain.net/chaincore/block"
	"0chain.net/core/common"
	"0chain.net/core/config"
	"0chain.net/core/encryption"
	"0chain.net/miner"
	"verifharness/lib/corr"
	"verifharness/lib/cryptow"
	"verifharness/lib/minerfix"
)

const roundSeed = 424242

type blk struct {
	tmpl     *block.Block
	attached []*block.VerificationTicket
}

type state struct {
	w      *cryptow.World
	fix    *minerfix.Fix
	k      int
	blocks map[string]*blk
	r1     *miner.Round
}

func (s *state) close() {
	if s.fix != nil {
		s.fix.Close()
		s.fix = nil
	}
}

func (s *state) ticket(e string) (*block.VerificationTicket, bool) {
	f := strings.Split(e, ":")
	if len(f) != 2 || len(f[0]) < 2 {
		return nil, false
	}
	j, err := strconv.Atoi(f[0][1:])
	si, err2 := strconv.Atoi(f[1])
	if err != nil || j < 0 || err2 != nil || si < 0 || si >= len(s.w.Sigs) {
		return nil, false
	}
	id := ""
	switch f[0][0] {
	case 'n':
		if j < s.k {
			id = s.fix.Nodes[j].GetKey()
		} else {
			id = fmt.Sprintf("not-a-miner-%d", j)
		}
	case 'x':
		id = fmt.Sprintf("foreign-%d", j)
	default:
		return nil, false
	}
	return &block.VerificationTicket{VerifierID: id, Signature: s.w.Sigs[si].SerializeToHexStr()}, true
}

func (s *state) tickets(es string) ([]*block.VerificationTicket, bool) {
	var r []*block.VerificationTicket
	if es == "-" {
		return r, true
	}
	for _, e := range strings.Split(es, ",") {
		t, ok := s.ticket(e)
		if !ok {
			return nil, false
		}
		r = append(r, t)
	}
	return r, true
}

// fresh: the block as a message carries it (a new object every time), marked state-computed so that no handler tries to
// execute or fetch state in the fixture.
func (b *blk) fresh(withTickets bool) *block.Block {
	nb := b.tmpl.Clone()
	nb.VerificationTickets = nil
	if withTickets {
		for _, t := range b.attached {
			c := *t
			nb.VerificationTickets = append(nb.VerificationTickets, &c)
		}
	}
	nb.SetStateStatus(block.StateSuccessful)
	return nb
}

func (s *state) status(name string) string {
	b, ok := s.blocks[name]
	if !ok {
		return "bad-op"
	}
	hash := b.tmpl.Hash
	inr := false
	for _, nb := range s.r1.GetNotarizedBlocks() {
		if nb.Hash == hash {
			inr = true
		}
	}
	cb, err := s.fix.MC.GetBlock(context.Background(), hash)
	if err != nil || cb == nil {
		return fmt.Sprintf("known=false notarized=false inround=%v tickets=0", inr)
	}
	return fmt.Sprintf("known=true notarized=%v inround=%v tickets=%d", cb.IsBlockNotarized(), inr, len(cb.GetVerificationTickets()))
}

func (s *state) step(ws []string) string {
	if len(ws) == 0 {
		return "bad-op"
	}
	ctx := context.Background()
	switch {
	case ws[0] == "miners" && len(ws) == 2:
		k, err := strconv.Atoi(ws[1])
		if err != nil || k <= 0 {
			return "bad-op"
		}
		keys := make([]*encryption.BLS0ChainScheme, k)
		for j := range keys {
			full := s.w.Keys["n"+strconv.Itoa(j)]
			if full == nil {
				return "bad-op"
			}
			pub := encryption.NewBLS0ChainScheme()
			if err := pub.SetPublicKey(full.GetPublicKey()); err != nil {
				return "bad-op"
			}
			keys[j] = pub
		}
		s.close()
		s.fix = minerfix.New(minerfix.Opts{N: k, T: k, Self: 0, ThresholdByCount: 66, Keys: keys, SelfKey: s.w.Keys["n0"]})
		s.k = k
		s.blocks = map[string]*blk{}
		s.r1 = s.fix.Round(1, roundSeed)
		s.fix.MC.SetCurrentRound(2) // a notarization of round 1 must not start round 2 in the fixture
		return "ok"
	case ws[0] == "block" && len(ws) == 4:
		g, err := strconv.Atoi(ws[2])
		_, ok := cryptow.ParseFr(ws[3])
		if s.fix == nil || err != nil || g < 0 || g >= s.k || !ok || s.blocks[ws[1]] != nil {
			return "bad-op"
		}
		b := block.NewBlock(config.GetServerChainID(), 1)
		b.MinerID = s.fix.Nodes[g].GetKey()
		b.SetRoundRandomSeed(roundSeed)
		b.PrevHash = s.fix.GB.Hash
		b.SetPreviousBlock(s.fix.GB)
		b.CreationDate = s.fix.GB.CreationDate + common.Timestamp(1+len(s.blocks))
		b.ClientStateHash = s.fix.GB.ClientStateHash
		b.LatestFinalizedMagicBlockRound = 0
		b.LatestFinalizedMagicBlockHash = s.fix.GB.Hash
		b.HashBlock()
		sg, err := s.w.Keys["n"+strconv.Itoa(g)].Sign(b.Hash)
		if err != nil {
			return "err"
		}
		b.Signature = sg
		s.blocks[ws[1]] = &blk{tmpl: b}
		raw, _ := hex.DecodeString(b.Hash)
		s.w.Msgs["blk-"+ws[1]] = raw
		return "ok"
	case ws[0] == "attach" && len(ws) == 3:
		b := s.blocks[ws[1]]
		if s.fix == nil || b == nil {
			return "bad-op"
		}
		ts, ok := s.tickets(ws[2])
		if !ok {
			return "bad-op"
		}
		b.attached = ts
		return "ok"
	case ws[0] == "propose" && len(ws) == 2:
		b := s.blocks[ws[1]]
		if s.fix == nil || b == nil {
			return "bad-op"
		}
		if err := s.fix.MC.VerifProcessVerifyBlock(ctx, b.fresh(true)); err != nil {
			return "err"
		}
		return s.status(ws[1])
	case ws[0] == "know" && len(ws) == 2:
		b := s.blocks[ws[1]]
		if s.fix == nil || b == nil {
			return "bad-op"
		}
		s.fix.MC.AddRoundBlock(s.r1, b.fresh(true))
		return s.status(ws[1])
	case ws[0] == "ticket" && len(ws) == 3:
		b := s.blocks[ws[1]]
		if s.fix == nil || b == nil {
			return "bad-op"
		}
		t, ok := s.ticket(ws[2])
		if !ok {
			return "bad-op"
		}
		msg := miner.NewBlockMessage(miner.MessageVerificationTicket, s.fix.Nodes[0], nil, nil)
		msg.BlockVerificationTicket = &block.BlockVerificationTicket{VerificationTicket: *t, Round: 1, BlockID: b.tmpl.Hash}
		s.fix.MC.VerifHandleVerificationTicket(ctx, msg)
		return s.status(ws[1])
	case ws[0] == "notarization" && len(ws) == 3:
		b := s.blocks[ws[1]]
		if s.fix == nil || b == nil {
			return "bad-op"
		}
		ts, ok := s.tickets(ws[2])
		if !ok || len(ts) == 0 {
			return "bad-op"
		}
		if cb, err := s.fix.MC.GetBlock(ctx, b.tmpl.Hash); err != nil || cb == nil {
			return "bad-op" // an unknown block would be fetched from the network
		}
		not := &miner.Notarization{BlockID: b.tmpl.Hash, Round: 1, VerificationTickets: ts}
		_ = s.fix.MC.VerifNotarizationProcess(ctx, not)
		return s.status(ws[1])
	case ws[0] == "nblock" && len(ws) == 2:
		b := s.blocks[ws[1]]
		if s.fix == nil || b == nil {
			return "bad-op"
		}
		msg := miner.NewBlockMessage(miner.MessageNotarizedBlock, s.fix.Nodes[0], nil, b.fresh(true))
		s.fix.MC.VerifHandleNotarizedBlock(ctx, msg)
		return s.status(ws[1])
	case ws[0] == "status" && len(ws) == 2:
		if s.fix == nil {
			return "bad-op"
		}
		return s.status(ws[1])
	}
	o, handled := s.w.Step(ws)
	if !handled {
		return "bad-op"
	}
	if ws[0] == "dkg" {
		s.close()
		s.blocks = nil
	}
	return o
}

func impl(ops []string) []string {
	s := &state{w: cryptow.New()}
	defer s.close()
	outs := make([]string, len(ops))
	for i, op := range ops {
		func() {
			defer func() {
				if r := recover(); r != nil {
					outs[i] = fmt.Sprintf("panic %v", r)
				}
			}()
			outs[i] = s.step(strings.Fields(op))
		}()
	}
	return outs
}

// ---------------------------------------------------------------------------------------------- generator

func rndGeneric(r *rand.Rand) string {
	for {
		v := new(big.Int).Rand(r, cryptow.Order())
		if v.BitLen() > 200 {
			return v.String()
		}
	}
}

type gen struct {
	r    *rand.Rand
	ops  []string
	nsig int
}

func (g *gen) add(f string, a ...interface{}) { g.ops = append(g.ops, fmt.Sprintf(f, a...)) }
func (g *gen) sig(f string, a ...interface{}) int {
	g.add(f, a...)
	g.nsig++
	return g.nsig - 1
}

func genCase(r *rand.Rand, thorough bool, i int) []string {
	g := &gen{r: r}
	g.add("dkg 0 0")
	maxN := 5
	if thorough {
		maxN = 7
	}
	n := 1 + r.Intn(maxN)
	thr := (n*66 + 99) / 100
	for j := 0; j < n; j++ {
		g.add("key n%d %s", j, rndGeneric(r))
	}
	g.add("msg junk %s", rndGeneric(r))
	g.add("miners %d", n)
	nb := 1 + r.Intn(2)
	names := []string{"a", "b"}[:nb]
	for _, nm := range names {
		g.add("block %s %d %s", nm, r.Intn(n), rndGeneric(r))
	}
	junk := g.sig("ksign n0 junk")
	// per block: the honest tickets
	valid := map[string][]int{}
	for _, nm := range names {
		v := make([]int, n)
		for j := 0; j < n; j++ {
			v[j] = g.sig("ksign n%d blk-%s", j, nm)
			g.add("kverify n%d %d blk-%s", j, v[j], nm)
		}
		valid[nm] = v
	}
	// a ticket expression of a given kind for block nm, verifier j
	mk := func(nm string, j int, kind int) string {
		switch kind {
		case 0: // valid
			return fmt.Sprintf("n%d:%d", j, valid[nm][j])
		case 1: // forged: another point
			g.add("kverify n%d %d blk-%s", j, junk, nm)
			return fmt.Sprintf("n%d:%d", j, junk)
		case 2: // foreign verifier with a valid-looking signature
			return fmt.Sprintf("x%d:%d", j, valid[nm][j])
		case 3: // valid ticket of another block
			o := names[(len(names)-1)*r.Intn(2)]
			if o != nm {
				g.add("kverify n%d %d blk-%s", j, valid[o][j], nm)
			}
			return fmt.Sprintf("n%d:%d", j, valid[o][j])
		case 4: // another miner's valid signature under this verifier
			k := (j + 1) % n
			g.add("kverify n%d %d blk-%s", j, valid[nm][k], nm)
			return fmt.Sprintf("n%d:%d", j, valid[nm][k])
		default: // perturbed
			s := g.sig("sigadd %d %d", valid[nm][j], junk)
			g.add("kverify n%d %d blk-%s", j, s, nm)
			return fmt.Sprintf("n%d:%d", j, s)
		}
	}
	list := func(nm string, count int, mode int) string {
		var es []string
		for x := 0; x < count; x++ {
			j := r.Intn(n)
			kind := 0
			switch mode {
			case 1: // all forged / foreign / duplicated
				kind = 1 + r.Intn(5)
			case 2: // mixed
				if r.Intn(2) == 0 {
					kind = 1 + r.Intn(5)
				}
			case 3: // distinct valid
				j = x % n
			case 4: // one verifier repeated
				j = 0
			}
			es = append(es, mk(nm, j, kind))
		}
		if len(es) == 0 {
			return "-"
		}
		return strings.Join(es, ",")
	}
	cancel := func(nm string) string { // sigma_a + P, sigma_b - P (needs two miners)
		if n < 2 {
			return list(nm, thr, 3)
		}
		p := r.Perm(n)
		a := g.sig("sigadd %d %d", valid[nm][p[0]], junk)
		b := g.sig("sigsub %d %d", valid[nm][p[1]], junk)
		g.add("kverify n%d %d blk-%s", p[0], a, nm)
		g.add("kverify n%d %d blk-%s", p[1], b, nm)
		es := []string{fmt.Sprintf("n%d:%d", p[0], a), fmt.Sprintf("n%d:%d", p[1], b)}
		for _, j := range p[2:] {
			es = append(es, fmt.Sprintf("n%d:%d", j, valid[nm][j]))
		}
		return strings.Join(es, ",")
	}
	steps := 4 + r.Intn(10)
	for x := 0; x < steps; x++ {
		nm := names[r.Intn(nb)]
		switch y := r.Intn(100); {
		case y < 22:
			g.add("ticket %s %s", nm, mk(nm, r.Intn(n), []int{0, 0, 0, 1, 2, 3, 4, 5}[r.Intn(8)]))
		case y < 40:
			cnt := r.Intn(n + 2)
			mode := r.Intn(5)
			if r.Intn(3) == 0 {
				cnt, mode = 0, 0 // the honest case: nothing attached
			}
			g.add("attach %s %s", nm, list(nm, cnt, mode))
			g.add("propose %s", nm)
		case y < 52:
			if r.Intn(2) == 0 {
				g.add("attach %s %s", nm, list(nm, r.Intn(n+1), r.Intn(5)))
			}
			g.add("know %s", nm)
		case y < 70:
			g.add("know %s", nm)
			if r.Intn(4) == 0 {
				g.add("notarization %s %s", nm, cancel(nm))
			} else {
				g.add("notarization %s %s", nm, list(nm, 1+r.Intn(n+1), r.Intn(5)))
			}
		case y < 88:
			if r.Intn(4) == 0 {
				g.add("attach %s %s", nm, cancel(nm))
			} else {
				g.add("attach %s %s", nm, list(nm, r.Intn(n+2), r.Intn(5)))
			}
			g.add("nblock %s", nm)
		default:
			g.add("status %s", nm)
		}
	}
	for _, nm := range names {
		g.add("status %s", nm)
	}
	return g.ops
}

func genMalformed(r *rand.Rand) []string {
	return []string{"dkg 0 0", "key n0 5", "msg junk 3", "miners 0", "miners 2", "miners 1", "block a 3 7", "block a 0 7", "block a 0 7", "attach b -", "attach a q:1", "propose b", "ticket a n0:99", "notarization a -", "notarization a n0:0", "status zz", "frob"}
}

func genAll(r *rand.Rand, thorough bool, i int) []string {
	if i%50 == 49 {
		return genMalformed(r)
	}
	return genCase(r, thorough, i)
}

func main() {
	corr.Main(corr.Prop{
		ID: "C31", Model: "C31", Gen: genAll, Impl: impl, Oracle: oracle, Serial: true,
		Cases: func(th bool) int {
			if th {
				return 6000
			}
			return 400
		},
		Fixed: [][]string{
			// the negation witness of Props/C31: a proposal carrying 2 forged tickets of non-miners is notarized (n = 3, threshold 2)
			{"dkg 0 0", "key n0 11", "key n1 13", "key n2 17", "msg junk 9", "miners 3", "block a 1 5", "ksign n0 junk",
				"attach a x0:0,x1:0", "propose a", "status a"},
			// the same forged ticket twice
			{"dkg 0 0", "key n0 11", "key n1 13", "key n2 17", "msg junk 9", "miners 3", "block a 1 5", "ksign n0 junk", "kverify n2 0 blk-a",
				"attach a n2:0,n2:0", "propose a"},
			// honest run: tickets arrive one by one
			{"dkg 0 0", "key n0 11", "key n1 13", "key n2 17", "msg junk 9", "miners 3", "block a 1 5", "ksign n0 blk-a", "ksign n1 blk-a", "kverify n0 0 blk-a", "kverify n1 1 blk-a",
				"attach a -", "propose a", "know a", "ticket a n0:0", "ticket a n0:0", "ticket a n1:1", "status a"},
		},
	})
}
