// C31 harness: the real notarization handlers of a miner (processVerifyBlock, handleVerificationTicketMessage,
// notarizationProcess, handleNotarizedBlockMessage; VerifyNotarization / VerifyTickets / MergeVerificationTickets /
// UpdateBlockNotarization underneath) on a minimal miner chain with real BLS keys, against Model/Notarize.lean.
package main

import (
	"context"
	"encoding/hex"
	"fmt"
	"math/big"
	"math/rand"
	"strconv"
	"strings"

	"0chain.net/chaincore/block"
	"0chain.net/core/common"
	"0chain.net/core/config"
	"0chain.net/core/encryption"
	"0chain.net/miner"
	"verifharness/lib/corr"
	"verifharness/lib/cryptow"
	"verifharness/lib/minerfix"
)

const roundSeed = 424242

type blk struct {
	tmpl     *block.Block
	attached []*block.VerificationTicket
	slot     int
}

type state struct {
	w      *cryptow.World
	fix    *minerfix.Fix
	k      int
	blocks map[string]*blk
	pools  [][]int          // miner set (key indices) of the magic block in force for each slot's round
	slotMB []int            // which installed magic block the REAL chain returns for each slot's round (GetMagicBlock)
	rounds []*miner.Round   // the round of each slot
	prevs  []*block.Block   // a notarized previous block per slot
}

func (s *state) close() {
	if s.fix != nil {
		s.fix.Close()
		s.fix = nil
	}
}

func (s *state) ticket(e string) (*block.VerificationTicket, bool) {
	f := strings.Split(e, ":")
	upper := false
	if len(f) == 3 && f[2] == "u" {
		upper = true
		f = f[:2]
	}
	if len(f) != 2 || len(f[0]) < 2 {
		return nil, false
	}
	j, err := strconv.Atoi(f[0][1:])
	si, err2 := strconv.Atoi(f[1])
	if err != nil || j < 0 || err2 != nil || si < 0 || si >= len(s.w.Sigs) {
		return nil, false
	}
	id := ""
	switch f[0][0] {
	case 'n':
		if j < len(s.fix.Nodes) {
			id = s.fix.Nodes[j].GetKey() // a node the process knows; whether it is a miner of the round is the code's business
		} else {
			id = fmt.Sprintf("not-a-node-%d", j)
		}
	case 'x':
		id = fmt.Sprintf("foreign-%d", j)
	default:
		return nil, false
	}
	sg := s.w.Sigs[si].SerializeToHexStr()
	if upper {
		sg = strings.ToUpper(sg) // the same curve point, another string
	}
	return &block.VerificationTicket{VerifierID: id, Signature: sg}, true
}

func (s *state) tickets(es string) ([]*block.VerificationTicket, bool) {
	var r []*block.VerificationTicket
	if es == "-" {
		return r, true
	}
	for _, e := range strings.Split(es, ",") {
		t, ok := s.ticket(e)
		if !ok {
			return nil, false
		}
		r = append(r, t)
	}
	return r, true
}

// fresh: the block as a message carries it (a new object every time), marked state-computed so that no handler tries to
// execute or fetch state in the fixture.
func (b *blk) fresh(withTickets bool) *block.Block {
	nb := b.tmpl.Clone()
	nb.VerificationTickets = nil
	if withTickets {
		for _, t := range b.attached {
			c := *t
			nb.VerificationTickets = append(nb.VerificationTickets, &c)
		}
	}
	nb.SetStateStatus(block.StateSuccessful)
	return nb
}

func (s *state) status(name string) string {
	b, ok := s.blocks[name]
	if !ok {
		return "bad-op"
	}
	hash := b.tmpl.Hash
	inr := false
	for _, nb := range s.rounds[b.slot].GetNotarizedBlocks() {
		if nb.Hash == hash {
			inr = true
		}
	}
	cb, err := s.fix.MC.GetBlock(context.Background(), hash)
	if err != nil || cb == nil {
		return fmt.Sprintf("known=false notarized=false inround=%v tickets=0", inr)
	}
	return fmt.Sprintf("known=true notarized=%v inround=%v tickets=%d", cb.IsBlockNotarized(), inr, len(cb.GetVerificationTickets()))
}

func (s *state) step(ws []string) string {
	if len(ws) == 0 {
		return "bad-op"
	}
	ctx := context.Background()
	switch {
	case ws[0] == "miners" && len(ws) == 2:
		k, err := strconv.Atoi(ws[1])
		if err != nil || k <= 0 {
			return "bad-op"
		}
		all := make([]int, k)
		for j := range all {
			all[j] = j
		}
		return s.setup([][]int{all}, nil)
	case ws[0] == "miners2" && (len(ws) == 3 || len(ws) == 5):
		l0, ok0 := intList(ws[1])
		l1, ok1 := intList(ws[2])
		r0, r1 := int64(50), int64(200)
		if len(ws) == 5 {
			a, e1 := strconv.ParseInt(ws[3], 10, 64)
			b, e2 := strconv.ParseInt(ws[4], 10, 64)
			if e1 != nil || e2 != nil || a < 0 || b < 0 {
				return "bad-op"
			}
			r0, r1 = a, b
		}
		if !ok0 || !ok1 || len(l0) == 0 || len(l1) == 0 || !contains(l0, 0) || hasDup(l0) || hasDup(l1) || r0 < 2 || r1 <= r0+1 {
			return "bad-op"
		}
		return s.setup([][]int{l0, l1}, []int64{r0, r1})
	case ws[0] == "block" && (len(ws) == 4 || len(ws) == 5):
		g, err := strconv.Atoi(ws[2])
		_, ok := cryptow.ParseFr(ws[3])
		slot := 0
		if len(ws) == 5 {
			v, err := strconv.Atoi(ws[4])
			if err != nil || v < 0 {
				return "bad-op"
			}
			slot = v
		}
		if s.fix == nil || err != nil || g < 0 || !ok || s.blocks[ws[1]] != nil || slot >= len(s.pools) || !contains(s.pools[slot], g) {
			return "bad-op"
		}
		r := s.rounds[slot]
		pb := s.prevs[slot]
		b := block.NewBlock(config.GetServerChainID(), r.GetRoundNumber())
		b.MinerID = s.fix.Nodes[g].GetKey()
		b.SetRoundRandomSeed(roundSeed)
		b.PrevHash = pb.Hash
		b.SetPreviousBlock(pb)
		b.CreationDate = s.fix.GB.CreationDate + common.Timestamp(2+len(s.blocks))
		b.ClientStateHash = s.fix.GB.ClientStateHash
		b.LatestFinalizedMagicBlockRound = s.fix.MBs[s.slotMB[slot]].StartingRound
		b.LatestFinalizedMagicBlockHash = s.fix.LFMBs[s.slotMB[slot]].Hash
		b.HashBlock()
		sg, err := s.w.Keys["n"+strconv.Itoa(g)].Sign(b.Hash)
		if err != nil {
			return "err"
		}
		b.Signature = sg
		s.blocks[ws[1]] = &blk{tmpl: b, slot: slot}
		raw, _ := hex.DecodeString(b.Hash)
		s.w.Msgs["blk-"+ws[1]] = raw
		return "ok"
	case ws[0] == "attach" && len(ws) == 3:
		b := s.blocks[ws[1]]
		if s.fix == nil || b == nil {
			return "bad-op"
		}
		ts, ok := s.tickets(ws[2])
		if !ok {
			return "bad-op"
		}
		b.attached = ts
		return "ok"
	case ws[0] == "propose" && len(ws) == 2:
		b := s.blocks[ws[1]]
		if s.fix == nil || b == nil {
			return "bad-op"
		}
		if err := s.fix.MC.VerifProcessVerifyBlock(ctx, b.fresh(true)); err != nil {
			return "err"
		}
		return s.status(ws[1])
	case ws[0] == "know" && len(ws) == 2:
		b := s.blocks[ws[1]]
		if s.fix == nil || b == nil {
			return "bad-op"
		}
		s.fix.MC.AddRoundBlock(s.rounds[b.slot], b.fresh(true))
		return s.status(ws[1])
	case ws[0] == "ticket" && len(ws) == 3:
		b := s.blocks[ws[1]]
		if s.fix == nil || b == nil {
			return "bad-op"
		}
		t, ok := s.ticket(ws[2])
		if !ok {
			return "bad-op"
		}
		msg := miner.NewBlockMessage(miner.MessageVerificationTicket, s.fix.Nodes[0], nil, nil)
		msg.BlockVerificationTicket = &block.BlockVerificationTicket{VerificationTicket: *t, Round: b.tmpl.Round, BlockID: b.tmpl.Hash}
		s.fix.MC.VerifHandleVerificationTicket(ctx, msg)
		return s.status(ws[1])
	case ws[0] == "notarization" && len(ws) == 3:
		b := s.blocks[ws[1]]
		if s.fix == nil || b == nil {
			return "bad-op"
		}
		ts, ok := s.tickets(ws[2])
		if !ok || len(ts) == 0 {
			return "bad-op"
		}
		if cb, err := s.fix.MC.GetBlock(ctx, b.tmpl.Hash); err != nil || cb == nil {
			return "bad-op" // an unknown block would be fetched from the network
		}
		not := &miner.Notarization{BlockID: b.tmpl.Hash, Round: b.tmpl.Round, VerificationTickets: ts}
		_ = s.fix.MC.VerifNotarizationProcess(ctx, not)
		return s.status(ws[1])
	case ws[0] == "nblock" && len(ws) == 2:
		b := s.blocks[ws[1]]
		if s.fix == nil || b == nil {
			return "bad-op"
		}
		msg := miner.NewBlockMessage(miner.MessageNotarizedBlock, s.fix.Nodes[0], nil, b.fresh(true))
		s.fix.MC.VerifHandleNotarizedBlock(ctx, msg)
		return s.status(ws[1])
	case ws[0] == "status" && len(ws) == 2:
		if s.fix == nil {
			return "bad-op"
		}
		return s.status(ws[1])
	}
	o, handled := s.w.Step(ws)
	if !handled {
		return "bad-op"
	}
	if ws[0] == "dkg" {
		s.close()
		s.blocks = nil
	}
	return o
}

func intList(x string) ([]int, bool) {
	var r []int
	for _, e := range strings.Split(x, ",") {
		v, err := strconv.Atoi(e)
		if err != nil || v < 0 {
			return nil, false
		}
		r = append(r, v)
	}
	return r, true
}

func contains(l []int, x int) bool {
	for _, v := range l {
		if v == x {
			return true
		}
	}
	return false
}

func hasDup(l []int) bool {
	m := map[int]bool{}
	for _, v := range l {
		if m[v] {
			return true
		}
		m[v] = true
	}
	return false
}

// setup builds the miner chain: one magic block (blocks live in round 1), or two magic blocks with starting rounds 0 and 100
// (slot 0 = round 50 under the first, slot 1 = round 200 under the second).
func (s *state) setup(mbPools [][]int, rounds []int64) string {
	top := 0
	for _, p := range mbPools {
		for _, j := range p {
			if j > top {
				top = j
			}
		}
	}
	keys := make([]*encryption.BLS0ChainScheme, top+1)
	for j := range keys {
		full := s.w.Keys["n"+strconv.Itoa(j)]
		if full == nil {
			return "bad-op"
		}
		pub := encryption.NewBLS0ChainScheme()
		if err := pub.SetPublicKey(full.GetPublicKey()); err != nil {
			return "bad-op"
		}
		keys[j] = pub
	}
	s.close()
	s.fix = minerfix.New(minerfix.Opts{N: top + 1, T: len(mbPools[0]), Self: 0, ThresholdByCount: 66, Keys: keys, SelfKey: s.w.Keys["n0"], Pools: mbPools})
	s.k = top + 1
	s.blocks = map[string]*blk{}
	s.rounds, s.prevs, s.pools, s.slotMB = nil, nil, nil, nil
	if rounds == nil {
		s.rounds = []*miner.Round{s.fix.Round(1, roundSeed)}
		s.prevs = []*block.Block{s.fix.GB}
		s.pools = [][]int{mbPools[0]}
		s.slotMB = []int{0}
		s.fix.MC.SetCurrentRound(2) // a notarization of round 1 must not start round 2 in the fixture
		return "ok"
	}
	for _, rn := range rounds {
		// the magic block the REAL chain says is in force for the round
		mb := s.fix.MC.GetMagicBlock(rn)
		idx := -1
		for i, m := range s.fix.MBs {
			if m == mb {
				idx = i
			}
		}
		if idx < 0 {
			return "err"
		}
		s.slotMB = append(s.slotMB, idx)
		s.pools = append(s.pools, mbPools[idx])
		s.fix.Round(rn-1, roundSeed+1)
		s.rounds = append(s.rounds, s.fix.Round(rn, roundSeed))
		// the previous block: notarized and state-computed, so that nothing is fetched or verified for it
		pb := block.NewBlock(config.GetServerChainID(), rn-1)
		pb.SetRoundRandomSeed(roundSeed + 1)
		pb.CreationDate = s.fix.GB.CreationDate + 1
		pb.ClientStateHash = s.fix.GB.ClientStateHash
		pb.MinerID = s.fix.Nodes[mbPools[idx][0]].GetKey()
		pb.HashBlock()
		pb.SetBlockNotarized()
		pb.SetBlockState(block.StateNotarized)
		pb.SetStateStatus(block.StateSuccessful)
		pb.ClientState = s.fix.GB.ClientState
		s.prevs = append(s.prevs, pb)
	}
	// the lower round must still be accepted (b.Round >= current-1); the higher one must not be "the current round",
	// or its notarization would start the next round
	s.fix.MC.SetCurrentRound(rounds[0] + 1)
	return fmt.Sprintf("ok mb=%d,%d", s.slotMB[0], s.slotMB[1])
}

func impl(ops []string) []string {
	s := &state{w: cryptow.New()}
	defer s.close()
	outs := make([]string, len(ops))
	for i, op := range ops {
		func() {
			defer func() {
				if r := recover(); r != nil {
					outs[i] = fmt.Sprintf("panic %v", r)
				}
			}()
			outs[i] = s.step(strings.Fields(op))
		}()
	}
	return outs
}

// ---------------------------------------------------------------------------------------------- generator

func rndGeneric(r *rand.Rand) string {
	for {
		v := new(big.Int).Rand(r, cryptow.Order())
		if v.BitLen() > 200 {
			return v.String()
		}
	}
}

type gen struct {
	r    *rand.Rand
	ops  []string
	nsig int
}

func (g *gen) add(f string, a ...interface{}) { g.ops = append(g.ops, fmt.Sprintf(f, a...)) }
func (g *gen) sig(f string, a ...interface{}) int {
	g.add(f, a...)
	g.nsig++
	return g.nsig - 1
}

func genCase(r *rand.Rand, thorough bool, i int) []string {
	g := &gen{r: r}
	g.add("dkg 0 0")
	maxN := 5
	if thorough {
		maxN = 7
	}
	// n keys; one magic block holding all of them, or two magic blocks with different miner sets (a view change)
	two := r.Intn(3) == 0
	n := 1 + r.Intn(maxN)
	var pools [][]int   // pool of the magic block in force for each slot's round
	var mbPools [][]int // miner set of each installed magic block
	var rounds []int64
	if two {
		n = 3 + r.Intn(5) // up to 7 nodes: a shrinking view change 7 -> 4 must be reachable
		for {
			var l0, l1 []int
			l0 = append(l0, 0)
			shape := r.Intn(5) // 0 random overlap, 1 shrink (B subset of A), 2 grow (A subset of B), 3 disjoint apart from nothing, 4 random
			for j := 1; j < n; j++ {
				switch shape {
				case 1:
					l0 = append(l0, j)
					if r.Intn(2) == 0 {
						l1 = append(l1, j)
					}
				case 2:
					l1 = append(l1, j)
					if r.Intn(2) == 0 {
						l0 = append(l0, j)
					}
				case 3:
					if j%2 == 0 {
						l0 = append(l0, j)
					} else {
						l1 = append(l1, j)
					}
				default:
					switch r.Intn(3) {
					case 0:
						l0 = append(l0, j)
					case 1:
						l1 = append(l1, j)
					default:
						l0 = append(l0, j)
						l1 = append(l1, j)
					}
				}
			}
			if shape != 3 && r.Intn(2) == 0 {
				l1 = append(l1, 0)
			}
			if len(l1) > 0 && fmt.Sprint(l0) != fmt.Sprint(l1) {
				mbPools = [][]int{l0, l1}
				break
			}
		}
		// rounds around the view change at round 100: the new magic block is in force from round 104 (ViewChangeOffset)
		cand := []int64{50, 98, 99, 100, 100, 101, 101, 102, 103, 103, 104, 104, 105, 106, 200}
		for {
			a, b := cand[r.Intn(len(cand))], cand[r.Intn(len(cand))]
			if a < b && b != a+1 {
				rounds = []int64{a, b}
				break
			}
		}
		for _, rn := range rounds {
			if rn-4 >= 100 { // the generator's own idea of GetMagicBlock(round); the real answer is printed by `miners2`
				pools = append(pools, mbPools[1])
			} else {
				pools = append(pools, mbPools[0])
			}
		}
	} else {
		all := make([]int, n)
		for j := range all {
			all[j] = j
		}
		pools = [][]int{all}
		mbPools = pools
	}
	thrOf := func(slot int) int { return (len(pools[slot])*66 + 99) / 100 }
	for j := 0; j < n; j++ {
		g.add("key n%d %s", j, rndGeneric(r))
	}
	g.add("msg junk %s", rndGeneric(r))
	if two {
		g.add("miners2 %s %s %d %d", joinInts(mbPools[0]), joinInts(mbPools[1]), rounds[0], rounds[1])
	} else {
		g.add("miners %d", n)
	}
	nb := 1 + r.Intn(2)
	if two {
		nb = 2
	}
	names := []string{"a", "b"}[:nb]
	slotOf := map[string]int{}
	for x, nm := range names {
		slot := 0
		if two {
			slot = x
		}
		slotOf[nm] = slot
		gen := pools[slot][r.Intn(len(pools[slot]))]
		if two {
			g.add("block %s %d %s %d", nm, gen, rndGeneric(r), slot)
		} else {
			g.add("block %s %d %s", nm, gen, rndGeneric(r))
		}
	}
	junk := g.sig("ksign n0 junk")
	// per block: every known node's signature on the block hash (also of nodes that are no miners of the block's round)
	valid := map[string][]int{}
	for _, nm := range names {
		v := make([]int, n)
		for j := 0; j < n; j++ {
			v[j] = g.sig("ksign n%d blk-%s", j, nm)
			g.add("kverify n%d %d blk-%s", j, v[j], nm)
		}
		valid[nm] = v
	}
	member := func(nm string) int { p := pools[slotOf[nm]]; return p[r.Intn(len(p))] }
	// a ticket expression of a given kind for block nm, verifier j
	mk := func(nm string, j int, kind int) string {
		switch kind {
		case 0: // the node's valid signature (a valid ticket iff the node is a miner of the block's round)
			return fmt.Sprintf("n%d:%d", j, valid[nm][j])
		case 1: // forged: another point
			g.add("kverify n%d %d blk-%s", j, junk, nm)
			return fmt.Sprintf("n%d:%d", j, junk)
		case 2: // foreign verifier with a valid-looking signature
			return fmt.Sprintf("x%d:%d", j, valid[nm][j])
		case 3: // valid ticket of another block
			o := names[(len(names)-1)*r.Intn(2)]
			if o != nm {
				g.add("kverify n%d %d blk-%s", j, valid[o][j], nm)
			}
			return fmt.Sprintf("n%d:%d", j, valid[o][j])
		case 4: // another node's valid signature under this verifier
			k := (j + 1) % n
			g.add("kverify n%d %d blk-%s", j, valid[nm][k], nm)
			return fmt.Sprintf("n%d:%d", j, valid[nm][k])
		case 6: // the valid signature written in upper-case hex
			return fmt.Sprintf("n%d:%d:u", j, valid[nm][j])
		default: // perturbed
			s := g.sig("sigadd %d %d", valid[nm][j], junk)
			g.add("kverify n%d %d blk-%s", j, s, nm)
			return fmt.Sprintf("n%d:%d", j, s)
		}
	}
	list := func(nm string, count int, mode int) string {
		var es []string
		pool := pools[slotOf[nm]]
		for x := 0; x < count; x++ {
			j := r.Intn(n)
			kind := 0
			switch mode {
			case 1: // all forged / foreign / duplicated
				kind = 1 + r.Intn(6)
			case 2: // mixed
				if r.Intn(2) == 0 {
					kind = 1 + r.Intn(6)
				}
			case 3: // distinct valid miners of the round
				j = pool[x%len(pool)]
			case 4: // one verifier repeated
				j = pool[0]
			case 5: // valid signatures of any known node (members of the other magic block included)
				j = x % n
			}
			es = append(es, mk(nm, j, kind))
		}
		if len(es) == 0 {
			return "-"
		}
		return strings.Join(es, ",")
	}
	distinct := func(nm string, cnt int) ([]string, []int) { // cnt valid tickets of distinct miners of the round
		p := append([]int(nil), pools[slotOf[nm]]...)
		r.Shuffle(len(p), func(a, b int) { p[a], p[b] = p[b], p[a] })
		if cnt > len(p) {
			cnt = len(p)
		}
		var es []string
		for _, j := range p[:cnt] {
			es = append(es, fmt.Sprintf("n%d:%d", j, valid[nm][j]))
		}
		return es, p[cnt:]
	}
	// thr tickets, only thr-1 distinct verifiers: one ticket repeated with its signature in upper-case hex
	upperDup := func(nm string) string {
		thr := thrOf(slotOf[nm])
		es, _ := distinct(nm, thr-1)
		if len(es) == 0 {
			return fmt.Sprintf("n%d:%d", member(nm), valid[nm][member(nm)])
		}
		es = append(es, es[r.Intn(len(es))]+":u")
		r.Shuffle(len(es), func(a, b int) { es[a], es[b] = es[b], es[a] })
		return strings.Join(es, ",")
	}
	// thr tickets, only thr-1 distinct verifiers: one miner's signature s split into s+d and s-d (2s-(s+d))
	split := func(nm string) string {
		thr := thrOf(slotOf[nm])
		if thr < 2 {
			return upperDup(nm)
		}
		es, rest := distinct(nm, thr-2)
		j := member(nm)
		if len(rest) > 0 {
			j = rest[0]
		}
		s1 := g.sig("sigadd %d %d", valid[nm][j], junk)
		s2 := g.sig("sigsub %d %d", valid[nm][j], junk)
		g.add("kverify n%d %d blk-%s", j, s1, nm)
		g.add("kverify n%d %d blk-%s", j, s2, nm)
		es = append(es, fmt.Sprintf("n%d:%d", j, s1), fmt.Sprintf("n%d:%d", j, s2))
		r.Shuffle(len(es), func(a, b int) { es[a], es[b] = es[b], es[a] })
		return strings.Join(es, ",")
	}
	cancel := func(nm string) string { // sigma_a + P, sigma_b - P (needs two miners)
		pool := pools[slotOf[nm]]
		if len(pool) < 2 {
			return list(nm, thrOf(slotOf[nm]), 3)
		}
		p := append([]int(nil), pool...)
		r.Shuffle(len(p), func(a, b int) { p[a], p[b] = p[b], p[a] })
		a := g.sig("sigadd %d %d", valid[nm][p[0]], junk)
		b := g.sig("sigsub %d %d", valid[nm][p[1]], junk)
		g.add("kverify n%d %d blk-%s", p[0], a, nm)
		g.add("kverify n%d %d blk-%s", p[1], b, nm)
		es := []string{fmt.Sprintf("n%d:%d", p[0], a), fmt.Sprintf("n%d:%d", p[1], b)}
		for _, j := range p[2:] {
			es = append(es, fmt.Sprintf("n%d:%d", j, valid[nm][j]))
		}
		return strings.Join(es, ",")
	}
	// valid tickets of distinct miners of the round, as many as the OTHER magic block's threshold asks for
	thrOther := func(nm string) string {
		own := thrOf(slotOf[nm])
		cnt := own - 1
		if len(mbPools) == 2 {
			for _, p := range mbPools {
				if t := (len(p)*66 + 99) / 100; t < own {
					cnt = t
				}
			}
		}
		if cnt < 1 {
			cnt = 1
		}
		es, _ := distinct(nm, cnt)
		return strings.Join(es, ",")
	}
	special := func(nm string) string { // the crafted ticket lists
		switch r.Intn(5) {
		case 4:
			return thrOther(nm)
		case 0:
			return cancel(nm)
		case 1:
			return upperDup(nm)
		case 2:
			return split(nm)
		default:
			return list(nm, thrOf(slotOf[nm])+r.Intn(2), 5)
		}
	}
	steps := 4 + r.Intn(10)
	for x := 0; x < steps; x++ {
		nm := names[r.Intn(nb)]
		switch y := r.Intn(100); {
		case y < 22:
			g.add("ticket %s %s", nm, mk(nm, r.Intn(n), []int{0, 0, 0, 1, 2, 3, 4, 5, 6, 6}[r.Intn(10)]))
		case y < 40:
			cnt := r.Intn(n + 2)
			mode := r.Intn(6)
			if r.Intn(3) == 0 {
				cnt, mode = 0, 0 // the honest case: nothing attached
			}
			g.add("attach %s %s", nm, list(nm, cnt, mode))
			g.add("propose %s", nm)
		case y < 52:
			if r.Intn(2) == 0 {
				g.add("attach %s %s", nm, list(nm, r.Intn(n+1), r.Intn(6)))
			}
			g.add("know %s", nm)
		case y < 70:
			g.add("attach %s -", nm)
			g.add("know %s", nm)
			if r.Intn(2) == 0 {
				g.add("notarization %s %s", nm, special(nm))
			} else {
				g.add("notarization %s %s", nm, list(nm, 1+r.Intn(n+1), r.Intn(6)))
			}
		case y < 88:
			if r.Intn(2) == 0 {
				g.add("attach %s %s", nm, special(nm))
			} else {
				g.add("attach %s %s", nm, list(nm, r.Intn(n+2), r.Intn(6)))
			}
			g.add("nblock %s", nm)
		default:
			g.add("status %s", nm)
		}
	}
	for _, nm := range names {
		g.add("status %s", nm)
	}
	return g.ops
}

func joinInts(xs []int) string {
	s := make([]string, len(xs))
	for i, x := range xs {
		s[i] = strconv.Itoa(x)
	}
	return strings.Join(s, ",")
}

func genMalformed(r *rand.Rand) []string {
	return []string{"dkg 0 0", "key n0 5", "msg junk 3", "miners 0", "miners 2", "miners2 1 0", "miners2 0 5", "miners2 0,1 0 100 101", "miners2 0,1 0 1 50", "miners 1", "block a 3 7", "block c 0 7 1", "block a 0 7", "block a 0 7", "attach b -", "attach a q:1", "propose b", "ticket a n0:99", "notarization a -", "notarization a n0:0", "status zz", "frob"}
}

func genAll(r *rand.Rand, thorough bool, i int) []string {
	if i%50 == 49 {
		return genMalformed(r)
	}
	return genCase(r, thorough, i)
}

func main() {
	corr.Main(corr.Prop{
		ID: "C31", Model: "C31", Gen: genAll, Impl: impl, Oracle: oracle, Serial: true,
		Cases: func(th bool) int {
			if th {
				return 6000
			}
			return 400
		},
		Fixed: [][]string{
			// the negation witness of Props/C31: a proposal carrying 2 forged tickets of non-miners is notarized (n = 3, threshold 2)
			{"dkg 0 0", "key n0 11", "key n1 13", "key n2 17", "msg junk 9", "miners 3", "block a 1 5", "ksign n0 junk",
				"attach a x0:0,x1:0", "propose a", "status a"},
			// the same forged ticket twice
			{"dkg 0 0", "key n0 11", "key n1 13", "key n2 17", "msg junk 9", "miners 3", "block a 1 5", "ksign n0 junk", "kverify n2 0 blk-a",
				"attach a n2:0,n2:0", "propose a"},
			// four miners, threshold 3: "2 distinct + upper-case copy" and "1 honest + split ticket" must be refused by VerifyNotarization
			{"dkg 0 0", "key n0 11", "key n1 13", "key n2 17", "key n3 19", "msg junk 9", "miners 4", "block a 1 5", "block b 2 6", "ksign n0 junk",
				"ksign n0 blk-a", "ksign n1 blk-a", "kverify n0 1 blk-a", "kverify n1 2 blk-a", "attach a n0:1,n1:2,n1:2:u", "nblock a",
				"ksign n0 blk-b", "ksign n1 blk-b", "kverify n0 3 blk-b", "sigadd 4 0", "sigsub 4 0", "kverify n1 5 blk-b", "kverify n1 6 blk-b",
				"attach b n0:3,n1:5,n1:6", "nblock b", "attach b -", "know b", "notarization b n0:3,n1:5,n1:6"},
			// two magic blocks (view change at round 100): MB0 = n0..n3, MB1 = n0,n1,n4,n5; valid signatures of miners of the OTHER magic block
			{"dkg 0 0", "key n0 11", "key n1 13", "key n2 17", "key n3 19", "key n4 23", "key n5 29", "msg junk 9", "miners2 0,1,2,3 0,1,4,5",
				"block a 1 5 0", "block b 4 6 1",
				"ksign n0 blk-a", "ksign n4 blk-a", "ksign n5 blk-a", "kverify n0 0 blk-a", "kverify n4 1 blk-a", "kverify n5 2 blk-a",
				"attach a n0:0,n4:1,n5:2", "nblock a", "ticket a n5:2", "know a", "ticket a n5:2", "notarization a n0:0,n4:1,n5:2",
				"ksign n0 blk-b", "ksign n2 blk-b", "ksign n3 blk-b", "kverify n0 3 blk-b", "kverify n2 4 blk-b", "kverify n3 5 blk-b",
				"attach b n0:3,n2:4,n3:5", "nblock b", "ksign n4 blk-b", "ksign n5 blk-b", "kverify n4 6 blk-b", "kverify n5 7 blk-b", "attach b n0:3,n4:6,n5:7", "nblock b"},
			// a SHRINKING view change (7 miners -> 4 at round 100, in force from round 104): in rounds 100..103 the old magic block
			// still governs: 3 valid tickets (the new block's threshold) are not enough, 5 are; in round 104 three of the new set are
			{"dkg 0 0", "key n0 11", "key n1 13", "key n2 17", "key n3 19", "key n4 23", "key n5 29", "key n6 31", "msg junk 9",
				"miners2 0,1,2,3,4,5,6 0,1,2,3 101 104", "block a 5 5 0", "block b 1 6 1",
				"ksign n4 blk-a", "ksign n5 blk-a", "ksign n6 blk-a", "ksign n0 blk-a", "ksign n1 blk-a",
				"kverify n4 0 blk-a", "kverify n5 1 blk-a", "kverify n6 2 blk-a", "kverify n0 3 blk-a", "kverify n1 4 blk-a",
				"attach a n4:0,n5:1,n6:2", "nblock a", "attach a -", "know a", "notarization a n4:0,n5:1,n6:2", "ticket a n4:0", "ticket a n5:1", "ticket a n6:2", "status a",
				"ticket a n0:3", "ticket a n1:4", "status a",
				"ksign n0 blk-b", "ksign n1 blk-b", "ksign n2 blk-b", "kverify n0 5 blk-b", "kverify n1 6 blk-b", "kverify n2 7 blk-b", "attach b n0:5,n1:6,n2:7", "nblock b"},
			// the same valid ticket in two encodings while the block is unknown, then the (clean) proposal arrives
			{"dkg 0 0", "key n0 11", "key n1 13", "key n2 17", "msg junk 9", "miners 3", "block a 1 5", "ksign n2 blk-a", "kverify n2 0 blk-a",
				"ticket a n2:0", "ticket a n2:0:u", "attach a -", "propose a", "status a"},
			// honest run: tickets arrive one by one
			{"dkg 0 0", "key n0 11", "key n1 13", "key n2 17", "msg junk 9", "miners 3", "block a 1 5", "ksign n0 blk-a", "ksign n1 blk-a", "kverify n0 0 blk-a", "kverify n1 1 blk-a",
				"attach a -", "propose a", "know a", "ticket a n0:0", "ticket a n0:0", "ticket a n1:1", "status a"},
		},
	})
}
