package main

import (
	"fmt"
	"strconv"
	"strings"

	"verifharness/lib/corr"
)

// The property on the real code's answers: whenever the node treats a block as notarized (its notarized flag, or its
// presence in the round's notarized list), at least threshold DISTINCT miners of the magic block have delivered an
// individually valid signature on the block hash — counting every ticket that reached the node in any message for that
// block (attached to a proposal or a notarized block, sent alone, or inside a notarization), with the validity being the
// answer of the real BLS0ChainScheme.Verify recorded by `kverify`.
func oracle(ops, outs []string) *corr.Violation {
	mk := func(i int, sig, msg string) *corr.Violation {
		return &corr.Violation{Signature: "C31:" + sig, Message: fmt.Sprintf("op %d %q answered %q: %s", i, ops[i], outs[i], msg), Ops: ops, Impl: outs}
	}
	n := 0
	var pools [][]int   // pool of the magic block in force for each slot's round — as the REAL chain's GetMagicBlock(round) says
	var mbPools [][]int // every installed magic block's miner set
	slotOf := map[string]int{}
	inPool := func(blk string, j int) bool {
		sl := slotOf[blk]
		if sl >= len(pools) {
			return false
		}
		for _, v := range pools[sl] {
			if v == j {
				return true
			}
		}
		return false
	}
	thrOf := func(blk string) int {
		sl := slotOf[blk]
		if sl >= len(pools) {
			return 1 << 30
		}
		return (len(pools[sl])*66 + 99) / 100
	}
	indiv := map[string]string{}
	validFrom := map[string]map[int]bool{} // block -> miners with a valid ticket delivered
	attached := map[string][]string{}
	unverifiedInBlock := map[string]bool{} // an attached, never verified, invalid ticket may sit in the chain copy
	encSeen := map[string]map[string]bool{} // block|verifier|sigidx -> encodings delivered as single ticket messages
	reenc := map[string]bool{}              // block: the same valid ticket arrived in two encodings
	dupsInMsg := 0
	foreignInMsg := 0 // tickets whose verifier is not a miner of the block's round (unknown id, or a node of another magic block)
	note := func(blk string, entries []string) (invalid int) {
		seen := map[string]bool{}
		dupsInMsg = 0
		foreignInMsg = 0
		for _, e := range entries {
			f := strings.Split(e, ":")
			if len(f) == 3 && f[2] == "u" {
				f = f[:2] // another encoding of the same signature
			}
			if len(f) != 2 || len(f[0]) < 2 {
				continue
			}
			ok := false
			if f[0][0] != 'n' {
				foreignInMsg++
			}
			if f[0][0] == 'n' {
				j, err := strconv.Atoi(f[0][1:])
				if err != nil || j >= n || !inPool(blk, j) {
					foreignInMsg++
				}
				// a ticket counts for the property only if its verifier is a miner of the magic block in force for the
				// block's round and the signature is individually valid
				if err == nil && j < n && inPool(blk, j) && indiv[f[0]+"|"+f[1]+"|blk-"+blk] == "true" {
					if validFrom[blk] == nil {
						validFrom[blk] = map[int]bool{}
					}
					validFrom[blk][j] = true
					ok = true
					if seen[f[0]] { // a repeated verifier adds nothing
						dupsInMsg++
					}
				}
			}
			seen[f[0]] = true
			if !ok {
				invalid++
			}
		}
		return
	}
	list := func(s string) []string {
		if s == "-" {
			return nil
		}
		return strings.Split(s, ",")
	}
	for i, op := range ops {
		w := strings.Fields(op)
		if len(w) == 0 {
			continue
		}
		out := outs[i]
		invalidInMsg := 0
		blk := ""
		switch w[0] {
		case "dkg":
			n, pools, slotOf = 0, nil, map[string]int{}
			indiv, validFrom, attached, unverifiedInBlock = map[string]string{}, map[string]map[int]bool{}, map[string][]string{}, map[string]bool{}
			encSeen, reenc = map[string]map[string]bool{}, map[string]bool{}
		case "miners":
			if len(w) == 2 && out == "ok" {
				n, _ = strconv.Atoi(w[1])
				all := make([]int, n)
				for j := range all {
					all[j] = j
				}
				pools, slotOf = [][]int{all}, map[string]int{}
				mbPools = pools
				validFrom, attached, unverifiedInBlock = map[string]map[int]bool{}, map[string][]string{}, map[string]bool{}
				encSeen, reenc = map[string]map[string]bool{}, map[string]bool{}
			}
		case "miners2":
			if (len(w) == 3 || len(w) == 5) && strings.HasPrefix(out, "ok") {
				l0, _ := intList(w[1])
				l1, _ := intList(w[2])
				pools, slotOf = [][]int{l0, l1}, map[string]int{}
				mbPools = [][]int{l0, l1}
				n = 0
				if strings.HasPrefix(out, "ok mb=") {
					// which magic block governs each slot's round: the real chain's answer
					if ix, ok := intList(strings.TrimPrefix(out, "ok mb=")); ok && len(ix) == 2 && ix[0] < 2 && ix[1] < 2 {
						pools = [][]int{mbPools[ix[0]], mbPools[ix[1]]}
					}
				}
				for _, p := range mbPools {
					for _, j := range p {
						if j+1 > n {
							n = j + 1
						}
					}
				}
				validFrom, attached, unverifiedInBlock = map[string]map[int]bool{}, map[string][]string{}, map[string]bool{}
				encSeen, reenc = map[string]map[string]bool{}, map[string]bool{}
			}
		case "block":
			if (len(w) == 4 || len(w) == 5) && out == "ok" {
				slotOf[w[1]] = 0
				if len(w) == 5 {
					slotOf[w[1]], _ = strconv.Atoi(w[4])
				}
			}
		case "kverify":
			if len(w) == 4 && (out == "true" || out == "false") {
				indiv[w[1]+"|"+w[2]+"|"+w[3]] = out
			}
		case "attach":
			if len(w) == 3 && out == "ok" {
				attached[w[1]] = list(w[2])
			}
		case "propose", "know", "nblock":
			if len(w) == 2 {
				blk = w[1]
				invalidInMsg = note(blk, attached[blk])
				if w[0] != "nblock" && invalidInMsg+dupsInMsg > 0 {
					unverifiedInBlock[blk] = true
				}
			}
		case "ticket":
			if len(w) == 3 {
				blk = w[1]
				invalidInMsg = note(blk, []string{w[2]})
				f := strings.Split(w[2], ":")
				if invalidInMsg == 0 && len(f) >= 2 {
					k := blk + "|" + f[0] + "|" + f[1]
					if encSeen[k] == nil {
						encSeen[k] = map[string]bool{}
					}
					encSeen[k][strings.Join(f[2:], ":")] = true
					if len(encSeen[k]) > 1 {
						reenc[blk] = true
					}
				}
			}
		case "notarization":
			if len(w) == 3 {
				blk = w[1]
				invalidInMsg = note(blk, list(w[2]))
			}
		case "status":
			if len(w) == 2 {
				blk = w[1]
			}
		}
		if blk == "" || n == 0 || !strings.HasPrefix(out, "known=") {
			continue
		}
		treated := strings.Contains(out, "notarized=true") || strings.Contains(out, "inround=true")
		thr := thrOf(blk)
		if treated && len(validFrom[blk]) < thr {
			what := fmt.Sprintf("block %s is treated as notarized; only %d distinct miners of its round's magic block delivered a valid ticket (threshold %d)", blk, len(validFrom[blk]), thr)
			otherThr := 1 << 30
			for _, p := range mbPools {
				if t := (len(p)*66 + 99) / 100; t < thr {
					otherThr = t
				}
			}
			switch {
			case invalidInMsg == 0 && dupsInMsg == 0 && foreignInMsg == 0 && !unverifiedInBlock[blk] && !reenc[blk] && len(validFrom[blk]) >= otherThr:
				// only valid tickets of distinct miners of the round's magic block are involved, fewer than ITS threshold,
				// but enough for the threshold of another installed magic block
				return mk(i, "threshold-from-other-magic-block", what)
			case (w[0] == "notarization" || w[0] == "nblock" || w[0] == "ticket") && foreignInMsg > 0 && !unverifiedInBlock[blk]:
				// a verifying path accepted tickets of somebody who is no miner of the magic block in force for the round
				return mk(i, "non-member-tickets-counted", what)
			case (w[0] == "notarization" || w[0] == "nblock") && invalidInMsg == 0 && dupsInMsg > 0 && !unverifiedInBlock[blk]:
				return mk(i, "duplicate-tickets-counted", what)
			case (w[0] == "notarization" || w[0] == "nblock") && invalidInMsg > 0 && !unverifiedInBlock[blk]:
				// the message itself carried invalid tickets and the aggregate check let them through (C32)
				return mk(i, "cancelling-tickets-accepted", what)
			case unverifiedInBlock[blk]:
				// tickets attached to a received block object were merged into the block and counted without verification
				return mk(i, "attached-tickets-counted-unverified", what)
			case reenc[blk] && ((w[0] != "notarization" && w[0] != "nblock") || (invalidInMsg == 0 && dupsInMsg == 0 && foreignInMsg == 0)):
				// one miner's valid ticket, received in two textual encodings of the same signature, was counted twice
				return mk(i, "reencoded-ticket-counted-twice", what)
			default:
				return mk(i, "notarized-without-enough-valid-tickets", what)
			}
		}
	}
	return nil
}
