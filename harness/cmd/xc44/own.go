package main

// OWNERSHIP BY INDEX. Some shared slices are written by goroutines WITHOUT any lock and are race-free only because the
// goroutines write disjoint sets of indices. The lockset rows cannot express that; this file extracts, for each such
// site, the arithmetic the disjointness rests on, as canonical source text, and Props/C44.lean proves the disjointness
// over it (or fails to, which breaks the check):
//
//   - miner.Chain.ValidateTransactions + encryption.BLS0ChainAggregateSignatureScheme ("VT.aggregator"): the spawning loop
//     gives worker k the transactions [start, end) with start = k·STRIDE, end = min(start+BOUND, LIMIT), and the index
//     base `start`; the worker calls Aggregate(…, start+i, …) with i an index of a sub-list of its transactions; the
//     aggregator (no lock, value receiver sharing the ASigs/AGt backing arrays) reads and writes ONLY slot
//     idx / BatchSize, and BatchSize is the DIV argument it was constructed with. Disjoint slots for different workers
//     need STRIDE = BOUND = DIV (as expressions: the same text evaluates to the same value within one call).
//   - storagesc.verifyChallengeTickets ("storagesc.verifyChallengeTickets"): one goroutine per loop index i, started as
//     `go func(i int, …) {…}(i, …)`, writes errors[i] / validators[i] only: the identity partition.
//
// Fail closed: every shape that is not exactly the one described is an extraction error.

import (
	"bytes"
	"fmt"
	"go/ast"
	"go/parser"
	"go/printer"
	"go/token"
	"path/filepath"
	"strings"
)

type stridedSite struct {
	Name    string `json:"name"`
	Stride  string `json:"stride"`   // for start := 0; start < LIMIT; start += STRIDE
	Bound   string `json:"bound"`    // end := start + BOUND
	Limit   string `json:"limit"`    // if end > LIMIT { end = LIMIT }
	Total   string `json:"total"`    // aggregator constructed for TOTAL indices …
	Div     string `json:"div"`      // … in batches of DIV: slot = idx / DIV
	ShapeOK bool   `json:"shape_ok"` // every structural fact listed above was found in the source
	File    string `json:"file"`
	Line    int    `json:"line"` // the go statement
	// where the slots are accessed (for the race reports)
	SlotFile  string `json:"slot_file"`
	SlotLines []int  `json:"slot_lines"`
}

type perIndexSite struct {
	Name   string   `json:"name"`
	Arrays []string `json:"arrays"` // the shared slices written at the goroutine's own index
	File   string   `json:"file"`
	Line   int      `json:"line"`
}

func exprText(fset *token.FileSet, e ast.Expr) string {
	var b bytes.Buffer
	printer.Fprint(&b, fset, e)
	return strings.Join(strings.Fields(b.String()), "")
}

// inline: replace identifiers that are local variables assigned exactly once (x := e, never written again) by their
// definition, so that `bs := mc.ValidationBatchSize()` used in two places still compares equal; anything else stays.
func inlineOnce(fset *token.FileSet, scope ast.Node, e ast.Expr, depth int) string {
	if depth == 0 {
		return exprText(fset, e)
	}
	defs := map[*ast.Object]ast.Expr{}
	writes := map[*ast.Object]int{}
	ast.Inspect(scope, func(n ast.Node) bool {
		switch x := n.(type) {
		case *ast.AssignStmt:
			for i, l := range x.Lhs {
				if id, ok := l.(*ast.Ident); ok && id.Obj != nil {
					writes[id.Obj]++
					if x.Tok == token.DEFINE && len(x.Lhs) == len(x.Rhs) {
						defs[id.Obj] = x.Rhs[i]
					}
				}
			}
		case *ast.IncDecStmt:
			if id, ok := x.X.(*ast.Ident); ok && id.Obj != nil {
				writes[id.Obj]++
			}
		case *ast.UnaryExpr:
			if x.Op == token.AND {
				if id, ok := x.X.(*ast.Ident); ok && id.Obj != nil {
					writes[id.Obj] += 2
				}
			}
		}
		return true
	})
	var rec func(e ast.Expr, d int) string
	rec = func(e ast.Expr, d int) string {
		switch x := e.(type) {
		case *ast.Ident:
			if x.Obj != nil && writes[x.Obj] == 1 && defs[x.Obj] != nil && d > 0 {
				if _, isLit := defs[x.Obj].(*ast.FuncLit); !isLit {
					return "(" + rec(defs[x.Obj], d-1) + ")"
				}
			}
			return x.Name
		case *ast.ParenExpr:
			return "(" + rec(x.X, d) + ")"
		case *ast.BinaryExpr:
			return rec(x.X, d) + x.Op.String() + rec(x.Y, d)
		}
		return exprText(fset, e)
	}
	return rec(e, depth)
}

func (w *world) ownershipSites() ([]stridedSite, []perIndexSite) {
	vt := w.vtAggregatorSite()
	pi := w.challengeTicketsSite()
	return []stridedSite{vt}, []perIndexSite{pi}
}

func (w *world) ownFail(pos token.Pos, what string) { w.fail(pos, "ownership-by-index", what) }

func (w *world) vtAggregatorSite() stridedSite {
	s := stridedSite{Name: "VT.aggregator"}
	path := filepath.Join(w.gosrc, "miner/protocol_block.go")
	file, err := parser.ParseFile(w.fset, path, nil, 0)
	if err != nil {
		die("%v", err)
	}
	var fd *ast.FuncDecl
	for _, d := range file.Decls {
		if f, ok := d.(*ast.FuncDecl); ok && f.Name.Name == "ValidateTransactions" && f.Recv != nil {
			fd = f
		}
	}
	if fd == nil {
		die("miner: ValidateTransactions not found")
	}
	ok := true
	bad := func(pos token.Pos, what string) {
		ok = false
		w.ownFail(pos, "ValidateTransactions: "+what)
	}
	// 1. the aggregator: X := encryption.GetAggregateSignatureScheme(scheme, TOTAL, DIV)
	var agg *ast.Object
	ast.Inspect(fd, func(n ast.Node) bool {
		as, isAs := n.(*ast.AssignStmt)
		if !isAs || len(as.Lhs) != 1 || len(as.Rhs) != 1 {
			return true
		}
		c, isCall := as.Rhs[0].(*ast.CallExpr)
		if !isCall {
			return true
		}
		if sel, isSel := c.Fun.(*ast.SelectorExpr); isSel && sel.Sel.Name == "GetAggregateSignatureScheme" && len(c.Args) == 3 {
			if id, isID := as.Lhs[0].(*ast.Ident); isID && id.Obj != nil && as.Tok == token.DEFINE {
				if agg != nil {
					bad(as.Pos(), "two aggregators")
				}
				agg = id.Obj
				s.Total = inlineOnce(w.fset, fd, c.Args[1], 3)
				s.Div = inlineOnce(w.fset, fd, c.Args[2], 3)
			}
		}
		return true
	})
	if agg == nil {
		bad(fd.Pos(), "no `x := encryption.GetAggregateSignatureScheme(scheme, total, batchSize)`")
		return s
	}
	// 2. the worker literal and the spawning loop
	var workerLit *ast.FuncLit
	var workerObj *ast.Object
	var loop *ast.ForStmt
	var goStmt *ast.GoStmt
	ast.Inspect(fd, func(n ast.Node) bool {
		f, isFor := n.(*ast.ForStmt)
		if !isFor {
			return true
		}
		for _, st := range f.Body.List {
			if g, isGo := st.(*ast.GoStmt); isGo {
				if id, isID := g.Call.Fun.(*ast.Ident); isID && id.Obj != nil {
					if loop != nil {
						bad(g.Pos(), "two spawning loops")
					}
					loop, goStmt, workerObj = f, g, id.Obj
				}
			}
		}
		return true
	})
	if loop == nil {
		bad(fd.Pos(), "no `for start := 0; …; start += S { … go worker(…) }` loop")
		return s
	}
	s.File, s.Line = w.rel(goStmt.Pos())
	if as, isAs := workerObj.Decl.(*ast.AssignStmt); isAs && len(as.Rhs) == 1 {
		workerLit, _ = as.Rhs[0].(*ast.FuncLit)
	}
	if workerLit == nil {
		bad(goStmt.Pos(), "the spawned function is not a local function literal")
		return s
	}
	// loop header: for start := 0; start < LIMIT; start += STRIDE
	var startObj *ast.Object
	if init, isAs := loop.Init.(*ast.AssignStmt); isAs && init.Tok == token.DEFINE && len(init.Lhs) == 1 && len(init.Rhs) == 1 {
		if id, isID := init.Lhs[0].(*ast.Ident); isID {
			if lit, isLit := init.Rhs[0].(*ast.BasicLit); isLit && lit.Value == "0" {
				startObj = id.Obj
			}
		}
	}
	if startObj == nil {
		bad(loop.Pos(), "loop does not start with `start := 0`")
		return s
	}
	isStart := func(e ast.Expr) bool { id, isID := e.(*ast.Ident); return isID && id.Obj == startObj }
	if c, isBin := loop.Cond.(*ast.BinaryExpr); isBin && c.Op == token.LSS && isStart(c.X) {
		s.Limit = inlineOnce(w.fset, fd, c.Y, 3)
	} else {
		bad(loop.Pos(), "loop condition is not `start < LIMIT`")
	}
	if p, isAs := loop.Post.(*ast.AssignStmt); isAs && p.Tok == token.ADD_ASSIGN && len(p.Lhs) == 1 && isStart(p.Lhs[0]) {
		s.Stride = inlineOnce(w.fset, fd, p.Rhs[0], 3)
	} else {
		bad(loop.Pos(), "loop step is not `start += STRIDE`")
	}
	// loop body: end := start + BOUND; if end > LIMIT { end = LIMIT }; go worker(ctx, X[start:end], start)
	body := loop.Body.List
	var endObj *ast.Object
	if len(body) != 3 {
		bad(loop.Pos(), "loop body is not `end := start + B; if end > L { end = L }; go worker(…)`")
		return s
	}
	if as, isAs := body[0].(*ast.AssignStmt); isAs && as.Tok == token.DEFINE && len(as.Lhs) == 1 && len(as.Rhs) == 1 {
		if b, isBin := as.Rhs[0].(*ast.BinaryExpr); isBin && b.Op == token.ADD && isStart(b.X) {
			endObj = as.Lhs[0].(*ast.Ident).Obj
			s.Bound = inlineOnce(w.fset, fd, b.Y, 3)
		}
	}
	if endObj == nil {
		bad(body[0].Pos(), "first statement is not `end := start + BOUND`")
		return s
	}
	isEnd := func(e ast.Expr) bool { id, isID := e.(*ast.Ident); return isID && id.Obj == endObj }
	clampOK := false
	if ifs, isIf := body[1].(*ast.IfStmt); isIf && ifs.Init == nil && ifs.Else == nil && len(ifs.Body.List) == 1 {
		if c, isBin := ifs.Cond.(*ast.BinaryExpr); isBin && c.Op == token.GTR && isEnd(c.X) && inlineOnce(w.fset, fd, c.Y, 3) == s.Limit {
			if as, isAs := ifs.Body.List[0].(*ast.AssignStmt); isAs && as.Tok == token.ASSIGN && len(as.Lhs) == 1 && isEnd(as.Lhs[0]) &&
				inlineOnce(w.fset, fd, as.Rhs[0], 3) == s.Limit {
				clampOK = true
			}
		}
	}
	if !clampOK {
		bad(body[1].Pos(), "second statement is not `if end > LIMIT { end = LIMIT }`")
	}
	// go worker(ctx, X[start:end], start) with len(X) = LIMIT
	args := goStmt.Call.Args
	sliceOK := false
	if len(args) == 3 && isStart(args[2]) {
		if sl, isSl := args[1].(*ast.SliceExpr); isSl && sl.Low != nil && sl.High != nil && sl.Max == nil && isStart(sl.Low) && isEnd(sl.High) {
			if "len("+exprText(w.fset, sl.X)+")" == s.Limit {
				sliceOK = true
			}
		}
	}
	if !sliceOK {
		bad(goStmt.Pos(), "the worker is not started as `go worker(ctx, X[start:end], start)` with LIMIT = len(X)")
	}
	if s.Total != s.Limit {
		bad(goStmt.Pos(), "the aggregator's total "+s.Total+" is not the loop limit "+s.Limit)
	}
	// 3. inside the worker: parameters (ctx, txns, start); every use of the aggregator is Aggregate(ss, start+i, …)
	//    with i the key of `range Y`, Y a sub-list of txns
	var params []*ast.Object
	for _, f := range workerLit.Type.Params.List {
		for _, n := range f.Names {
			params = append(params, n.Obj)
		}
	}
	if len(params) != 3 {
		bad(workerLit.Pos(), "the worker does not take (ctx, txns, start)")
		return s
	}
	pTxns, pStart := params[1], params[2]
	ast.Inspect(workerLit.Body, func(n ast.Node) bool {
		switch x := n.(type) {
		case *ast.AssignStmt:
			for _, l := range x.Lhs {
				if id, isID := l.(*ast.Ident); isID && (id.Obj == pTxns || id.Obj == pStart) {
					bad(x.Pos(), "the worker assigns to its parameter "+id.Name)
				}
			}
		case *ast.IncDecStmt:
			if id, isID := x.X.(*ast.Ident); isID && (id.Obj == pTxns || id.Obj == pStart) {
				bad(x.Pos(), "the worker changes its parameter "+id.Name)
			}
		}
		return true
	})
	uses := 0
	var walk func(n ast.Node, ranges []*ast.RangeStmt)
	walk = func(n ast.Node, ranges []*ast.RangeStmt) {
		ast.Inspect(n, func(m ast.Node) bool {
			if m == n {
				return true
			}
			switch x := m.(type) {
			case *ast.RangeStmt:
				walk(x.Body, append(append([]*ast.RangeStmt{}, ranges...), x))
				return false
			case *ast.CallExpr:
				sel, isSel := x.Fun.(*ast.SelectorExpr)
				if !isSel {
					return true
				}
				id, isID := sel.X.(*ast.Ident)
				if !isID || id.Obj != agg {
					return true
				}
				uses++
				if sel.Sel.Name != "Aggregate" || len(x.Args) != 4 {
					bad(x.Pos(), "the worker uses the aggregator other than by Aggregate(ss, idx, sig, hash)")
					return true
				}
				idxOK := false
				if b, isBin := x.Args[1].(*ast.BinaryExpr); isBin && b.Op == token.ADD {
					if bx, isBx := b.X.(*ast.Ident); isBx && bx.Obj == pStart {
						if by, isBy := b.Y.(*ast.Ident); isBy && len(ranges) > 0 {
							r := ranges[len(ranges)-1]
							if k, isK := r.Key.(*ast.Ident); isK && k.Obj == by.Obj && r.Tok == token.DEFINE {
								if w.subListOf(workerLit.Body, r.X, pTxns, 3) {
									idxOK = true
								}
							}
						}
					}
				}
				if !idxOK {
					bad(x.Pos(), "the index given to Aggregate is not `start + i` with i ranging over a sub-list of the worker's transactions")
				}
			case *ast.Ident:
				_ = x
			}
			return true
		})
	}
	walk(workerLit.Body, nil)
	if uses == 0 {
		bad(workerLit.Pos(), "the worker never calls the aggregator")
	}
	// any other mention of the aggregator inside a function literal (another goroutine) is not understood
	ast.Inspect(fd, func(n ast.Node) bool {
		fl, isLit := n.(*ast.FuncLit)
		if !isLit || fl == workerLit {
			return true
		}
		inOuter := false
		ast.Inspect(fl.Body, func(m ast.Node) bool {
			if m == workerLit {
				return false
			}
			if id, isID := m.(*ast.Ident); isID && id.Obj == agg {
				inOuter = true
			}
			return true
		})
		_ = inOuter
		return true
	})
	// 4. the aggregator itself
	slotOK, slotFile, slotLines := w.aggregatorSlots()
	if !slotOK {
		ok = false
	}
	s.SlotFile, s.SlotLines = slotFile, slotLines
	s.ShapeOK = ok
	return s
}

// subListOf: is expression e (inside scope) a list with at most as many elements as the parameter p — p itself, a
// variable made with length 0 and appended to once per iteration of `range p` (or of a range over such a list), or
// chain.FilterOutValidatedTxns of such a list (its body is checked to build its result the same way)?
func (w *world) subListOf(scope ast.Node, e ast.Expr, p *ast.Object, depth int) bool {
	if depth == 0 {
		return false
	}
	switch x := e.(type) {
	case *ast.Ident:
		if x.Obj == p {
			return true
		}
		if x.Obj == nil {
			return false
		}
		as, isAs := x.Obj.Decl.(*ast.AssignStmt)
		if !isAs || as.Tok != token.DEFINE || len(as.Lhs) != 1 || len(as.Rhs) != 1 {
			return false
		}
		// every other write to the variable must be `v = append(v, one)` inside exactly one range over a sub-list of p
		obj := x.Obj
		okAll := true
		var within func(n ast.Node, rng *ast.RangeStmt, nested bool)
		appends := map[*ast.RangeStmt]int{}
		within = func(n ast.Node, rng *ast.RangeStmt, nested bool) {
			ast.Inspect(n, func(m ast.Node) bool {
				if m == n {
					return true
				}
				switch y := m.(type) {
				case *ast.RangeStmt:
					within(y.Body, y, rng != nil)
					return false
				case *ast.ForStmt:
					within(y.Body, rng, true)
					return false
				case *ast.AssignStmt:
					if y == as {
						return true
					}
					for i, l := range y.Lhs {
						if id, isID := l.(*ast.Ident); isID && id.Obj == obj {
							c, isCall := y.Rhs[min(i, len(y.Rhs)-1)].(*ast.CallExpr)
							f, isF := ast.Expr(nil), false
							if isCall {
								f, isF = c.Fun, true
							}
							fid, isFid := f.(*ast.Ident)
							if !isF || !isFid || fid.Name != "append" || len(c.Args) != 2 || c.Ellipsis.IsValid() {
								okAll = false
								continue
							}
							if a0, isA0 := c.Args[0].(*ast.Ident); !isA0 || a0.Obj != obj {
								okAll = false
								continue
							}
							if rng == nil || nested {
								okAll = false
								continue
							}
							appends[rng]++
						}
					}
				}
				return true
			})
		}
		within(scope, nil, false)
		for rng, n := range appends {
			if n != 1 || !w.subListOf(scope, rng.X, p, depth-1) {
				okAll = false
			}
		}
		if !okAll {
			return false
		}
		switch r := as.Rhs[0].(type) {
		case *ast.CallExpr:
			if f, isF := r.Fun.(*ast.Ident); isF && f.Name == "make" && len(r.Args) >= 2 {
				if lit, isLit := r.Args[1].(*ast.BasicLit); isLit && lit.Value == "0" {
					return true
				}
				return false
			}
			if sel, isSel := r.Fun.(*ast.SelectorExpr); isSel && sel.Sel.Name == "FilterOutValidatedTxns" && len(r.Args) == 1 && len(appends) == 0 {
				return w.filterIsSubList() && w.subListOf(scope, r.Args[0], p, depth-1)
			}
		}
		return false
	}
	return false
}

var filterChecked, filterOK bool

// filterIsSubList: chain.Chain.FilterOutValidatedTxns(txns) returns a list built from length 0 by at most one append per
// element of txns.
func (w *world) filterIsSubList() bool {
	if filterChecked {
		return filterOK
	}
	filterChecked = true
	file, err := parser.ParseFile(w.fset, filepath.Join(w.gosrc, "chaincore/chain/entity.go"), nil, 0)
	if err != nil {
		die("%v", err)
	}
	for _, d := range file.Decls {
		f, isF := d.(*ast.FuncDecl)
		if !isF || f.Name.Name != "FilterOutValidatedTxns" || f.Recv == nil || len(f.Type.Params.List) != 1 || len(f.Type.Params.List[0].Names) != 1 {
			continue
		}
		p := f.Type.Params.List[0].Names[0].Obj
		okRet := true
		nRet := 0
		ast.Inspect(f.Body, func(n ast.Node) bool {
			if r, isR := n.(*ast.ReturnStmt); isR {
				nRet++
				if len(r.Results) != 1 || !w.subListOf(f.Body, r.Results[0], p, 2) {
					okRet = false
				}
			}
			return true
		})
		filterOK = okRet && nRet > 0
	}
	if !filterOK {
		w.ownFail(token.NoPos, "chain.FilterOutValidatedTxns does not return a sub-list of its argument built by one append per element")
	}
	return filterOK
}

// aggregatorSlots: encryption.BLS0ChainAggregateSignatureScheme.Aggregate(ss, idx, …) computes `batch := idx / b0a.BatchSize`
// and touches ASigs / AGt only at [batch]; BatchSize is the constructor's batchSize argument, which
// GetAggregateSignatureScheme passes through unchanged.
func (w *world) aggregatorSlots() (bool, string, []int) {
	okAll := true
	bad := func(pos token.Pos, what string) {
		okAll = false
		w.ownFail(pos, "BLS0ChainAggregateSignatureScheme: "+what)
	}
	path := filepath.Join(w.gosrc, "core/encryption/bls0chain_aggregate.go")
	file, err := parser.ParseFile(w.fset, path, nil, 0)
	if err != nil {
		die("%v", err)
	}
	relFile, _ := w.rel(file.Pos())
	var lines []int
	foundAgg, foundCtor := false, false
	for _, d := range file.Decls {
		f, isF := d.(*ast.FuncDecl)
		if !isF {
			continue
		}
		switch {
		case f.Name.Name == "Aggregate" && f.Recv != nil:
			foundAgg = true
			if len(f.Recv.List) != 1 || len(f.Recv.List[0].Names) != 1 {
				bad(f.Pos(), "Aggregate has no named receiver")
				continue
			}
			recv := f.Recv.List[0].Names[0].Obj
			var idx *ast.Object
			n := 0
			for _, p := range f.Type.Params.List {
				for _, nm := range p.Names {
					if n == 1 {
						idx = nm.Obj
					}
					n++
				}
			}
			var batch *ast.Object
			ast.Inspect(f.Body, func(m ast.Node) bool {
				switch x := m.(type) {
				case *ast.AssignStmt:
					for i, l := range x.Lhs {
						id, isID := l.(*ast.Ident)
						if !isID {
							continue
						}
						if id.Obj == idx {
							bad(x.Pos(), "Aggregate assigns to idx")
						}
						if batch != nil && id.Obj == batch {
							bad(x.Pos(), "the slot variable is assigned twice")
						}
						if x.Tok == token.DEFINE && len(x.Lhs) == len(x.Rhs) {
							if b, isBin := x.Rhs[i].(*ast.BinaryExpr); isBin && b.Op == token.QUO {
								bx, isBx := b.X.(*ast.Ident)
								by, isBy := b.Y.(*ast.SelectorExpr)
								if isBx && bx.Obj == idx && isBy && by.Sel.Name == "BatchSize" {
									if r, isR := by.X.(*ast.Ident); isR && r.Obj == recv {
										batch = id.Obj
									}
								}
							}
						}
					}
				case *ast.CallExpr:
					if sel, isSel := x.Fun.(*ast.SelectorExpr); isSel {
						switch sel.Sel.Name {
						case "Lock", "RLock":
							bad(x.Pos(), "Aggregate takes a lock now: the ownership-by-index argument is not what protects it any more (re-classify)")
						}
					}
				}
				return true
			})
			if batch == nil {
				bad(f.Pos(), "no `batch := idx / b0a.BatchSize`")
				continue
			}
			ast.Inspect(f.Body, func(m ast.Node) bool {
				sel, isSel := m.(*ast.SelectorExpr)
				if !isSel {
					return true
				}
				if r, isR := sel.X.(*ast.Ident); !isR || r.Obj != recv {
					return true
				}
				if sel.Sel.Name == "ASigs" || sel.Sel.Name == "AGt" {
					_, l := w.rel(sel.Pos())
					lines = append(lines, l)
				}
				return true
			})
			// every ASigs / AGt mention must be the X of an index expression with index `batch`
			ast.Inspect(f.Body, func(m ast.Node) bool {
				ix, isIx := m.(*ast.IndexExpr)
				if !isIx {
					return true
				}
				sel, isSel := ix.X.(*ast.SelectorExpr)
				if !isSel || (sel.Sel.Name != "ASigs" && sel.Sel.Name != "AGt") {
					return true
				}
				if id, isID := ix.Index.(*ast.Ident); !isID || id.Obj != batch {
					bad(ix.Pos(), "a slot other than [batch] is touched")
				}
				return true
			})
			nIdx, nSel := 0, 0
			ast.Inspect(f.Body, func(m ast.Node) bool {
				switch x := m.(type) {
				case *ast.IndexExpr:
					if sel, isSel := x.X.(*ast.SelectorExpr); isSel && (sel.Sel.Name == "ASigs" || sel.Sel.Name == "AGt") {
						nIdx++
					}
				case *ast.SelectorExpr:
					if x.Sel.Name == "ASigs" || x.Sel.Name == "AGt" {
						nSel++
					}
				}
				return true
			})
			if nIdx != nSel {
				bad(f.Pos(), "ASigs / AGt used other than indexed by [batch]")
			}
		case f.Name.Name == "NewBLS0ChainAggregateSignature" && f.Recv == nil:
			foundCtor = true
			var bs *ast.Object
			n := 0
			for _, p := range f.Type.Params.List {
				for _, nm := range p.Names {
					if n == 1 {
						bs = nm.Obj
					}
					n++
				}
			}
			set := false
			ast.Inspect(f.Body, func(m ast.Node) bool {
				switch x := m.(type) {
				case *ast.KeyValueExpr:
					if k, isK := x.Key.(*ast.Ident); isK && k.Name == "BatchSize" {
						if v, isV := x.Value.(*ast.Ident); isV && v.Obj == bs {
							set = true
						} else {
							bad(x.Pos(), "BatchSize is not the constructor's batchSize argument")
						}
					}
				case *ast.AssignStmt:
					for _, l := range x.Lhs {
						if sel, isSel := l.(*ast.SelectorExpr); isSel && sel.Sel.Name == "BatchSize" {
							bad(x.Pos(), "BatchSize is assigned after construction")
						}
						if id, isID := l.(*ast.Ident); isID && id.Obj == bs {
							bad(x.Pos(), "the constructor changes batchSize")
						}
					}
				}
				return true
			})
			if !set {
				bad(f.Pos(), "the constructor does not set BatchSize: batchSize")
			}
		default:
			// no other function of the file may write BatchSize
			ast.Inspect(f.Body, func(m ast.Node) bool {
				if as, isAs := m.(*ast.AssignStmt); isAs {
					for _, l := range as.Lhs {
						if sel, isSel := l.(*ast.SelectorExpr); isSel && sel.Sel.Name == "BatchSize" {
							bad(as.Pos(), "BatchSize is written by "+f.Name.Name)
						}
					}
				}
				return true
			})
		}
	}
	if !foundAgg || !foundCtor {
		bad(file.Pos(), "Aggregate / NewBLS0ChainAggregateSignature not found")
	}
	// GetAggregateSignatureScheme(sigScheme, total, batchSize) → NewBLS0ChainAggregateSignature(total, batchSize)
	f2, err := parser.ParseFile(w.fset, filepath.Join(w.gosrc, "core/encryption/signature_scheme.go"), nil, 0)
	if err != nil {
		die("%v", err)
	}
	pass := false
	for _, d := range f2.Decls {
		f, isF := d.(*ast.FuncDecl)
		if !isF || f.Name.Name != "GetAggregateSignatureScheme" {
			continue
		}
		var ps []*ast.Object
		for _, p := range f.Type.Params.List {
			for _, nm := range p.Names {
				ps = append(ps, nm.Obj)
			}
		}
		if len(ps) != 3 {
			continue
		}
		calls := 0
		ast.Inspect(f.Body, func(m ast.Node) bool {
			c, isC := m.(*ast.CallExpr)
			if !isC {
				return true
			}
			if id, isID := c.Fun.(*ast.Ident); isID && id.Name == "NewBLS0ChainAggregateSignature" {
				calls++
				a0, ok0 := c.Args[0].(*ast.Ident)
				a1, ok1 := c.Args[1].(*ast.Ident)
				if len(c.Args) == 2 && ok0 && ok1 && a0.Obj == ps[1] && a1.Obj == ps[2] {
					pass = true
				} else {
					pass = false
					calls += 100
				}
			}
			if as, isAs := m.(*ast.AssignStmt); isAs {
				_ = as
			}
			return true
		})
		if calls != 1 {
			pass = false
		}
	}
	if !pass {
		bad(f2.Pos(), "GetAggregateSignatureScheme does not pass (total, batchSize) through to NewBLS0ChainAggregateSignature")
	}
	return okAll, relFile, lines
}

// challengeTicketsSite: storagesc.verifyChallengeTickets starts one goroutine per index of cr.ValidationTickets as
// `go func(i int, …) {…}(i, …)`; the literal writes the captured slices only at [i] and never changes i.
func (w *world) challengeTicketsSite() perIndexSite {
	s := perIndexSite{Name: "storagesc.verifyChallengeTickets"}
	path := filepath.Join(w.gosrc, "smartcontract/storagesc/challenge.go")
	file, err := parser.ParseFile(w.fset, path, nil, 0)
	if err != nil {
		die("%v", err)
	}
	var fd *ast.FuncDecl
	for _, d := range file.Decls {
		if f, ok := d.(*ast.FuncDecl); ok && f.Name.Name == "verifyChallengeTickets" {
			fd = f
		}
	}
	if fd == nil {
		w.ownFail(file.Pos(), "storagesc.verifyChallengeTickets not found")
		return s
	}
	found := false
	ast.Inspect(fd.Body, func(n ast.Node) bool {
		rng, isR := n.(*ast.RangeStmt)
		if !isR {
			return true
		}
		key, isK := rng.Key.(*ast.Ident)
		if !isK || rng.Tok != token.DEFINE {
			return true
		}
		for _, st := range rng.Body.List {
			g, isGo := st.(*ast.GoStmt)
			if !isGo {
				continue
			}
			fl, isLit := g.Call.Fun.(*ast.FuncLit)
			if !isLit {
				w.ownFail(g.Pos(), "verifyChallengeTickets: goroutine is not a function literal")
				continue
			}
			// the literal's first parameter receives the loop index by value
			var p0 *ast.Object
			if len(fl.Type.Params.List) > 0 && len(fl.Type.Params.List[0].Names) > 0 {
				p0 = fl.Type.Params.List[0].Names[0].Obj
			}
			a0, isA0 := ast.Expr(nil), false
			if len(g.Call.Args) > 0 {
				a0, isA0 = g.Call.Args[0], true
			}
			aid, isAid := a0.(*ast.Ident)
			if p0 == nil || !isA0 || !isAid || aid.Obj != key.Obj {
				w.ownFail(g.Pos(), "verifyChallengeTickets: the goroutine does not get the loop index as its first argument")
				continue
			}
			found = true
			s.File, s.Line = w.rel(g.Pos())
			arrays := map[string]bool{}
			ast.Inspect(fl.Body, func(m ast.Node) bool {
				switch x := m.(type) {
				case *ast.AssignStmt:
					for _, l := range x.Lhs {
						if id, isID := l.(*ast.Ident); isID && id.Obj == p0 {
							w.ownFail(x.Pos(), "verifyChallengeTickets: the goroutine changes its index")
						}
						if ix, isIx := l.(*ast.IndexExpr); isIx {
							base, isB := ix.X.(*ast.Ident)
							if !isB || base.Obj == nil {
								continue
							}
							// captured variable (declared outside the literal)?
							if base.Obj.Pos() >= fl.Pos() && base.Obj.Pos() <= fl.End() {
								continue
							}
							if id, isID := ix.Index.(*ast.Ident); isID && id.Obj == p0 {
								arrays[base.Name] = true
							} else {
								w.ownFail(ix.Pos(), "verifyChallengeTickets: shared slice "+base.Name+" written at an index other than the goroutine's own")
							}
						}
					}
				case *ast.IncDecStmt:
					if id, isID := x.X.(*ast.Ident); isID && id.Obj == p0 {
						w.ownFail(x.Pos(), "verifyChallengeTickets: the goroutine changes its index")
					}
				}
				return true
			})
			for a := range arrays {
				s.Arrays = append(s.Arrays, a)
			}
		}
		return true
	})
	if !found {
		w.ownFail(fd.Pos(), "verifyChallengeTickets: no `for i := range … { go func(i int, …) {…}(i, …) }`")
	}
	sortStrings(s.Arrays)
	return s
}

func sortStrings(a []string) {
	for i := 1; i < len(a); i++ {
		for j := i; j > 0 && a[j] < a[j-1]; j-- {
			a[j], a[j-1] = a[j-1], a[j]
		}
	}
}

func leanStrided(s stridedSite) string {
	return fmt.Sprintf("⟨nm! %q, nm! %q, nm! %q, nm! %q, nm! %q, nm! %q, %v⟩", s.Name, s.Stride, s.Bound, s.Limit, s.Total, s.Div, s.ShapeOK)
}
