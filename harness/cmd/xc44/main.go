// xc44: translator for property C44 (shared protocol structures are free of data races).
//
//	xc44 <gosrc> <out.lean>        (also writes <out.lean>.json, the same table for the search harness cmd/c44)
//
// Type-checks chaincore/round, chaincore/block and miner under <gosrc> (golang.org/x/tools/go/packages) and extracts,
// from the AST of the CURRENT source, a LOCKSET TABLE into lean/ZChain/Generated/C44.lean:
//
//   - accesses : (function, location, R|W, mutexes of the same object held at the access with their mode, atomic?, line)
//     for every field of round.Round (with its embedded timeoutCounter) and block.Block (with its embedded
//     UnverifiedBlockBody and the promoted fields of embedded datastore structs), for the ELEMENTS of slice/map
//     fields (location "<field>[]": index, range, in-place sort, append, copy, return of the internal slice) and for
//     the variables of miner.Chain.ValidateTransactions' closure that its goroutines touch;
//   - calls    : (caller, callee, locks the callee inherits) — the callee inherits the caller's lockset only when it
//     runs on the SAME object (receiver reached from the caller's receiver without a pointer hop, or the caller's
//     receiver passed as the callee's first root-typed parameter); otherwise it inherits nothing;
//   - entries  : the functions the miner/sharder workers can call concurrently: every exported method or function of
//     the two packages that reaches an access, minus the explicit set-up list below; the goroutines of
//     ValidateTransactions.
//
// The lockset walk is intra-procedural over straight-line / defer / branch patterns:
//
//	x.mu.Lock() … x.mu.Unlock(), defer x.mu.Unlock(), RLock/RUnlock, unlock-before-return inside a branch.
//
// Fail closed: a construct the walk cannot classify (lock state differing between branches, a return with a
// non-deferred lock held, an address of a field escaping, a goroutine, a slice/map field passed to an unknown
// function, …) is an error unless it is in the allow-list `allowed` below — each entry says why.
package main

import (
	"encoding/json"
	"fmt"
	"go/ast"
	"go/token"
	"go/types"
	"os"
	"path/filepath"
	"sort"
	"strings"

	"golang.org/x/tools/go/packages"
)

const (
	pRound = "0chain.net/chaincore/round"
	pBlock = "0chain.net/chaincore/block"
	pMiner = "0chain.net/miner"
)

// roots: the structures of the property. display = prefix of the location names of their fields.
var roots = map[string]string{
	pRound + ".Round":               "Round",
	pRound + ".timeoutCounter":      "Round.timeoutCounter", // embedded by value in Round
	pBlock + ".Block":               "Block",
	pBlock + ".UnverifiedBlockBody": "Block", // embedded by value in Block
}

// allowed: constructs the walk cannot classify by its rules, accepted explicitly. key = "<function>: <what>".
var allowed = map[string]string{
	// C37 finding C37:rejected-restart-leaves-mutex-locked: the early `return CompleteRoundRestartError` of Restart
	// keeps r.mutex locked. For the lockset table the accesses between Lock and the final Unlock are under the
	// mutex on every path that reaches them, which is all this table states.
	"Round.Restart: return with Round.mutex held": "C37:rejected-restart-leaves-mutex-locked (known finding of C37)",
	// ReadLockable interface: the caller holds the read lock between the two calls; neither method touches a field.
	"Block.DoReadLock: function ends with Block.ticketsMutex held":      "ReadLockable.DoReadLock hands the read lock to the caller",
	"Block.DoReadUnlock: unlock of Block.ticketsMutex that is not held": "ReadLockable.DoReadUnlock releases the caller's read lock",
}

// setupPhase: exported functions that are NOT counted as concurrently callable entry points, with the reason.
// Everything else that is exported and reaches an access is an entry.
var setupPhase = map[string]string{
	"round.NewRound":    "constructor: the object is not shared before it returns",
	"round.Provider":    "constructor (entity provider)",
	"block.NewBlock":    "constructor",
	"block.Provider":    "constructor (entity provider)",
	"round.SetupEntity": "process set-up",
	"block.SetupEntity": "process set-up",
	// block under construction by its generator, before it is signed and sent (callers at the pinned commit:
	// miner/protocol_block_main.go:25 hashAndSignGeneratedBlock; integration-test files)
	"Block.HashBlock": "generation phase: the generator hashes its own new block before publishing it",
	// miner/protocol_block.go:1290 (generateBlock, same phase)
	"Block.SetStateChangesCount": "generation phase (generateBlock)",
	// chaincore/chain/entity.go:1467 (genesis block set-up), miner/protocol_round.go:482 (new block before generation)
	"UnverifiedBlockBody.SetRoundRandomSeed": "generation phase / genesis set-up",
	// core/datastore/codec.go:44,62, core/datastore/handler.go:46,88, core/memorystore/store.go:53,188: called by the
	// decoders on the entity they have just filled, before anyone else can hold it
	"Block.ComputeProperties": "decode phase: called on a freshly decoded entity",
}

// freshFrom: calls whose result is an object no other goroutine can hold yet (accesses through it are not shared).
var freshFrom = map[string]bool{
	"round.NewRound": true, "block.NewBlock": true,
	// the Clone methods return an object built in the call (composite literal / value copy)
	"Block.Clone": true, "UnverifiedBlockBody.Clone": true,
}

// freshInstance: `datastore.GetEntityMetadata("round"|"block").Instance().(*T)` inside the constructors above.
var freshInstanceIn = map[string]bool{"round.NewRound": true, "block.NewBlock": true}

// elemReaders: external functions that only READ the elements of a slice/map argument, synchronously.
var elemReaders = map[string]bool{
	"go.uber.org/zap.Ints": true, "go.uber.org/zap.Any": true, "go.uber.org/zap.Strings": true,
}

// elemWriters: external functions that permute the elements of their first argument in place, synchronously,
// calling the function literal they are given synchronously as well.
var elemWriters = map[string]bool{"sort.Slice": true, "sort.SliceStable": true}

type lk struct {
	Name string `json:"name"`
	Excl bool   `json:"excl"`
}

type row struct {
	Fn     string `json:"fn"`
	Loc    string `json:"loc"`
	Write  bool   `json:"write"`
	Locks  []lk   `json:"locks"`
	Atomic bool   `json:"atomic"`
	File   string `json:"file"`
	Line   int    `json:"line"`
	Esc    bool   `json:"esc,omitempty"` // the internal slice/map is returned: the caller reads its elements unlocked
	Own    bool   `json:"own"`           // access to the function's own object: inherits the locks its callers hold on it
}

type call struct {
	Caller string `json:"caller"`
	Callee string `json:"callee"`
	Locks  []lk   `json:"locks"`
	Same   bool   `json:"same"`
	Line   int    `json:"line"`
}

type entry struct {
	Fn       string `json:"fn"`
	Group    int    `json:"group"`
	SelfConc bool   `json:"self_conc"`
}

type world struct {
	fset  *token.FileSet
	pkgs  map[string]*packages.Package
	gosrc string
	fns   map[string]*fn      // by key
	byObj map[*types.Func]*fn // declared functions of the analysed packages
	errs  []string
	used  map[string]bool // allow-list entries that were needed
}

type fn struct {
	key      string
	decl     *ast.FuncDecl
	pkg      *packages.Package
	obj      *types.Func
	self     types.Object // receiver, or first parameter of a root pointer type
	exported bool
	rows     []row
	calls    []call
}

func die(format string, a ...interface{}) {
	fmt.Fprintf(os.Stderr, "xc44: "+format+"\n", a...)
	os.Exit(1)
}

func load(gosrc string, paths ...string) (*token.FileSet, map[string]*packages.Package) {
	fset := token.NewFileSet()
	hdir := os.Getenv("VERIF_HARNESS")
	if hdir == "" {
		hdir = "/verif/harness"
	}
	var flags []string
	tmp := ""
	if gosrc != "/repo/code/go/0chain.net" {
		mod, err := os.ReadFile(filepath.Join(hdir, "go.mod"))
		if err != nil {
			die("%v", err)
		}
		s := strings.ReplaceAll(string(mod), "/repo/code/go/0chain.net", gosrc)
		s = strings.ReplaceAll(s, "./third_party/grocksdb", filepath.Join(hdir, "third_party/grocksdb"))
		tmp, err = os.MkdirTemp("", "xc44-mod-")
		if err != nil {
			die("%v", err)
		}
		defer os.RemoveAll(tmp)
		os.WriteFile(filepath.Join(tmp, "go.mod"), []byte(s), 0o644)
		sum, _ := os.ReadFile(filepath.Join(hdir, "go.sum"))
		os.WriteFile(filepath.Join(tmp, "go.sum"), sum, 0o644)
		flags = append(flags, "-modfile="+filepath.Join(tmp, "go.mod"))
	}
	cfg := &packages.Config{
		Mode: packages.NeedName | packages.NeedFiles | packages.NeedSyntax | packages.NeedTypes | packages.NeedTypesInfo | packages.NeedImports,
		Dir:  hdir, Fset: fset, BuildFlags: flags,
		Env: append(os.Environ(), "GOFLAGS=-mod=mod", "GOWORK=off", "GOPROXY=off", "GOSUMDB=off", "GOTOOLCHAIN=local"),
	}
	pkgs, err := packages.Load(cfg, paths...)
	if err != nil {
		die("load: %v", err)
	}
	res := map[string]*packages.Package{}
	for _, p := range pkgs {
		if len(p.Errors) > 0 {
			die("package %s does not type-check: %v", p.PkgPath, p.Errors[0])
		}
		if p.Types == nil || p.TypesInfo == nil || len(p.Syntax) == 0 {
			die("package %s: no syntax/types", p.PkgPath)
		}
		for _, f := range p.GoFiles {
			if !strings.HasPrefix(f, gosrc+"/") {
				die("package %s loaded from %s, expected under %s", p.PkgPath, f, gosrc)
			}
		}
		res[p.PkgPath] = p
	}
	for _, pa := range paths {
		if res[pa] == nil {
			die("package %s not loaded", pa)
		}
	}
	return fset, res
}

func (w *world) rel(pos token.Pos) (string, int) {
	p := w.fset.Position(pos)
	f := strings.TrimPrefix(p.Filename, w.gosrc+"/")
	return f, p.Line
}

func (w *world) fail(pos token.Pos, fnKey, what string) {
	k := fnKey + ": " + what
	if _, ok := allowed[k]; ok {
		w.used[k] = true
		return
	}
	f, l := w.rel(pos)
	w.errs = append(w.errs, fmt.Sprintf("%s:%d: %s", f, l, k))
}

func fnKey(obj *types.Func) string {
	sig := obj.Type().(*types.Signature)
	if sig.Recv() != nil {
		t := sig.Recv().Type()
		if p, ok := t.(*types.Pointer); ok {
			t = p.Elem()
		}
		if n, ok := t.(*types.Named); ok {
			return n.Obj().Name() + "." + obj.Name()
		}
		return "?." + obj.Name()
	}
	return obj.Pkg().Name() + "." + obj.Name()
}

func rootDisplay(t types.Type) (string, bool) {
	if p, ok := t.(*types.Pointer); ok {
		t = p.Elem()
	}
	n, ok := t.(*types.Named)
	if !ok || n.Obj().Pkg() == nil {
		return "", false
	}
	d, ok := roots[n.Obj().Pkg().Path()+"."+n.Obj().Name()]
	return d, ok
}

func main() {
	if len(os.Args) != 3 {
		die("usage: xc44 <gosrc> <out.lean>")
	}
	gosrc, _ := filepath.Abs(os.Args[1])
	out := os.Args[2]
	os.Remove(out + ".json") // a failed extraction must not leave the previous table behind for the harness
	fset, pkgs := load(gosrc, pRound, pBlock)
	w := &world{fset: fset, pkgs: pkgs, gosrc: gosrc, fns: map[string]*fn{}, byObj: map[*types.Func]*fn{}, used: map[string]bool{}}

	// 1. declare every function of round and block
	for _, pp := range []string{pRound, pBlock} {
		p := pkgs[pp]
		for _, file := range p.Syntax {
			fname := fset.Position(file.Pos()).Filename
			if strings.HasSuffix(fname, "_test.go") {
				continue
			}
			for _, d := range file.Decls {
				fd, ok := d.(*ast.FuncDecl)
				if !ok || fd.Body == nil {
					continue
				}
				obj, _ := p.TypesInfo.Defs[fd.Name].(*types.Func)
				if obj == nil {
					continue
				}
				f := &fn{key: fnKey(obj), decl: fd, pkg: p, obj: obj}
				sig := obj.Type().(*types.Signature)
				f.exported = obj.Exported()
				if sig.Recv() != nil {
					if len(fd.Recv.List[0].Names) == 1 {
						f.self = p.TypesInfo.Defs[fd.Recv.List[0].Names[0]]
					}
				} else {
					for i := 0; i < sig.Params().Len(); i++ {
						pv := sig.Params().At(i)
						if _, isPtr := pv.Type().(*types.Pointer); !isPtr {
							continue
						}
						if _, ok := rootDisplay(pv.Type()); ok {
							f.self = pv
							break
						}
					}
				}
				if w.fns[f.key] != nil {
					die("two functions with key %s", f.key)
				}
				w.fns[f.key] = f
				w.byObj[obj] = f
			}
		}
	}
	// 2. walk them
	keys := make([]string, 0, len(w.fns))
	for k := range w.fns {
		keys = append(keys, k)
	}
	sort.Strings(keys)
	for _, k := range keys {
		w.walkFn(w.fns[k])
	}
	// 3. ValidateTransactions' closure
	vtRows, vtCalls, vtEntries := w.validateTransactions()
	// 3b. shared slices written without a lock at goroutine-owned indices
	strided, perIndex := w.ownershipSites()

	if len(w.errs) > 0 {
		sort.Strings(w.errs)
		for _, e := range w.errs {
			fmt.Fprintln(os.Stderr, "xc44: unclassified: "+e)
		}
		os.Exit(1)
	}
	for k := range allowed {
		if !w.used[k] {
			// an allow-list entry that no longer applies is not an error (the code may have been repaired)
			fmt.Printf("note: allow-list entry no longer needed: %s\n", k)
		}
	}

	// 4. relevance: functions that reach at least one access
	reach := map[string]bool{}
	for _, k := range keys {
		if len(w.fns[k].rows) > 0 {
			reach[k] = true
		}
	}
	for changed := true; changed; {
		changed = false
		for _, k := range keys {
			if reach[k] {
				continue
			}
			for _, c := range w.fns[k].calls {
				if reach[c.Callee] {
					reach[k] = true
					changed = true
					break
				}
			}
		}
	}
	var rows []row
	var calls []call
	var entries []entry
	var setup []string
	for _, k := range keys {
		f := w.fns[k]
		if !reach[k] {
			continue
		}
		rows = append(rows, f.rows...)
		for _, c := range f.calls {
			if reach[c.Callee] {
				calls = append(calls, c)
			}
		}
		if f.exported {
			if _, isSetup := setupPhase[k]; isSetup {
				setup = append(setup, k)
				continue
			}
			entries = append(entries, entry{Fn: k, Group: 0, SelfConc: true})
		}
	}
	rows = append(rows, vtRows...)
	calls = append(calls, vtCalls...)
	entries = append(entries, vtEntries...)

	// callers-within-table check for unexported functions that nobody reaches: they are dead for this table
	called := map[string]bool{}
	for _, c := range calls {
		called[c.Callee] = true
	}
	var dead []string
	isEntry := map[string]bool{}
	for _, e := range entries {
		isEntry[e.Fn] = true
	}
	isSetup := map[string]bool{}
	for _, k := range setup {
		isSetup[k] = true
	}
	for _, k := range keys {
		if reach[k] && !isEntry[k] && !called[k] {
			dead = append(dead, k)
			if !isSetup[k] {
				// an unexported function with accesses that no entry reaches by a static call: it may be called through
				// an interface or a function value, and the table would then say nothing about it
				fmt.Fprintf(os.Stderr, "xc44: unclassified: function %s touches shared state but is reached by no static call from an entry point\n", k)
				os.Exit(1)
			}
		}
	}

	ctxs := contexts(entries, calls)
	writeLean(out, gosrc, rows, calls, entries, setup, dead, ctxs, strided, perIndex)
	b, _ := json.MarshalIndent(map[string]interface{}{"accesses": rows, "calls": calls, "entries": entries, "setup": setup, "dead": dead, "contexts": ctxs, "gosrc": gosrc, "strided_sites": strided, "per_index_sites": perIndex}, "", " ")
	if err := os.WriteFile(out+".json", b, 0o644); err != nil {
		die("%v", err)
	}
	locs := map[string]bool{}
	nw, na := 0, 0
	for _, r := range rows {
		locs[r.Loc] = true
		if r.Write {
			nw++
		}
		if r.Atomic {
			na++
		}
	}
	fmt.Printf("lockset table: %d accesses (%d writes, %d atomic) to %d locations, %d call edges, %d entry points, %d set-up functions, %d unreached helpers\n",
		len(rows), nw, na, len(locs), len(calls), len(entries), len(setup), len(dead))
}

func leanLocks(ls []lk) string {
	var parts []string
	for _, l := range ls {
		parts = append(parts, fmt.Sprintf("⟨nm! %q, %v⟩", l.Name, l.Excl))
	}
	return "[" + strings.Join(parts, ", ") + "]"
}

// ctx: entry (or any self-concurrent entry of the group when Origin is "") may run Fn with the locks Locks inherited
// from its callers on the same object. The list is the closure of the entries under the call edges; Lean re-checks
// that it is closed (theorem contexts_closed), so nothing rests on this computation.
type ctx struct {
	Group  int    `json:"group"`
	Origin string `json:"origin"` // "" = a self-concurrent entry
	Fn     string `json:"fn"`
	Locks  []lk   `json:"locks"`
}

func contexts(entries []entry, calls []call) []ctx {
	byCaller := map[string][]call{}
	for _, c := range calls {
		byCaller[c.Caller] = append(byCaller[c.Caller], c)
	}
	seen := map[string]bool{}
	var res []ctx
	var todo []ctx
	for _, e := range entries {
		o := e.Fn
		if e.SelfConc {
			o = ""
		}
		todo = append(todo, ctx{Group: e.Group, Origin: o, Fn: e.Fn, Locks: []lk{}})
	}
	for len(todo) > 0 {
		c := todo[0]
		todo = todo[1:]
		k := fmt.Sprint(c)
		if seen[k] {
			continue
		}
		seen[k] = true
		res = append(res, c)
		if len(res) > 5000 {
			die("context closure does not terminate (recursion with growing locksets?)")
		}
		for _, cl := range byCaller[c.Fn] {
			nl := []lk{}
			if cl.Same {
				nl = append(append(nl, c.Locks...), cl.Locks...)
			}
			todo = append(todo, ctx{Group: c.Group, Origin: c.Origin, Fn: cl.Callee, Locks: nl})
		}
	}
	return res
}

func writeLean(out, gosrc string, rows []row, calls []call, entries []entry, setup, dead []string, ctxs []ctx, strided []stridedSite, perIndex []perIndexSite) {
	var b strings.Builder
	b.WriteString("import ZChain.Model.LockSet\nimport ZChain.Model.IndexOwn\n/-!\nGENERATED by harness/cmd/xc44 from chaincore/round, chaincore/block and miner/protocol_block.go — do not edit.\n")
	b.WriteString("Regenerated by `./check C44` on every run; `Props/C44.lean` decides its theorems over this table.\n")
	b.WriteString("Names are `nm! \"…\"` (the string's bytes as a natural number, see Model/LockSet.lean).\n-/\nnamespace ZChain.Generated.C44\nopen ZChain.LockSet\n\n")
	b.WriteString("/-- (function, location, write?, locks of the same object held [name, exclusive?], atomic?, own object?, line) -/\ndef accesses : List Access := [\n")
	for i, r := range rows {
		sep := ","
		if i == len(rows)-1 {
			sep = ""
		}
		fmt.Fprintf(&b, "  ⟨nm! %q, nm! %q, %v, %s, %v, %v, %d⟩%s\n", r.Fn, r.Loc, r.Write, leanLocks(r.Locks), r.Atomic, r.Own, r.Line, sep)
	}
	b.WriteString("]\n\n/-- (caller, callee, same object?, locks the caller holds at the call) — the callee inherits locks only when it runs on the same object -/\ndef calls : List Call := [\n")
	for i, c := range calls {
		sep := ","
		if i == len(calls)-1 {
			sep = ""
		}
		fmt.Fprintf(&b, "  ⟨nm! %q, nm! %q, %v, %s⟩%s\n", c.Caller, c.Callee, c.Same, leanLocks(c.Locks), sep)
	}
	b.WriteString("]\n\n/-- (function, group, may run concurrently with itself?) — entries of one group may run concurrently -/\ndef entries : List Entry := [\n")
	for i, e := range entries {
		sep := ","
		if i == len(entries)-1 {
			sep = ""
		}
		fmt.Fprintf(&b, "  ⟨nm! %q, %d, %v⟩%s\n", e.Fn, e.Group, e.SelfConc, sep)
	}
	b.WriteString("]\n\n/-- exported functions not counted as entries (constructors / process set-up; reasons in harness/cmd/xc44) -/\ndef setupPhase : List Nat := [")
	for i, s := range setup {
		if i > 0 {
			b.WriteString(", ")
		}
		fmt.Fprintf(&b, "nm! %q", s)
	}
	b.WriteString("]\n\n/-- closure of the entries under the call edges: (group, origin entry or none for a self-concurrent one, function, inherited locks) -/\ndef contexts : List Ctx := [\n")
	for i, c := range ctxs {
		sep := ","
		if i == len(ctxs)-1 {
			sep = ""
		}
		o := "none"
		if c.Origin != "" {
			o = fmt.Sprintf("some (nm! %q)", c.Origin)
		}
		fmt.Fprintf(&b, "  ⟨%d, %s, nm! %q, %s⟩%s\n", c.Group, o, c.Fn, leanLocks(c.Locks), sep)
	}
	// effective accesses grouped by location (identical ones once)
	byFn := map[string][]row{}
	for _, r := range rows {
		byFn[r.Fn] = append(byFn[r.Fn], r)
	}
	type group struct {
		loc  string
		effs []string
		seen map[string]bool
	}
	gidx := map[string]*group{}
	var gs []*group
	for _, c := range ctxs {
		o := "none"
		if c.Origin != "" {
			o = fmt.Sprintf("some (nm! %q)", c.Origin)
		}
		for _, r := range byFn[c.Fn] {
			ls := r.Locks
			if r.Own {
				ls = append(append([]lk{}, c.Locks...), r.Locks...)
			}
			e := fmt.Sprintf("⟨%d, %s, nm! %q, nm! %q, %v, %v, %s⟩", c.Group, o, r.Fn, r.Loc, r.Write, r.Atomic, leanLocks(ls))
			g := gidx[r.Loc]
			if g == nil {
				g = &group{loc: r.Loc, seen: map[string]bool{}}
				gidx[r.Loc] = g
				gs = append(gs, g)
			}
			if !g.seen[e] {
				g.seen[e] = true
				g.effs = append(g.effs, e)
			}
		}
	}
	b.WriteString("]\n\n/-- the accesses of all contexts, by location: (group, origin, function, location, write?, atomic?, effective locks) -/\ndef groups : Groups := [\n")
	for i, g := range gs {
		sep := ","
		if i == len(gs)-1 {
			sep = ""
		}
		fmt.Fprintf(&b, "  (nm! %q, [\n    %s])%s\n", g.loc, strings.Join(g.effs, ",\n    "), sep)
	}
	b.WriteString("]\n\ndef table : Table := ⟨accesses, calls, entries⟩\n\n")
	b.WriteString("/-- shared slices written WITHOUT a lock by goroutines that each own a range of indices: (site, loop stride, `end := start +` bound,\nloop limit, aggregator total, aggregator batch size — all as canonical source text —, every structural fact found?) -/\ndef stridedSites : List ZChain.IndexOwn.StridedSite := [\n")
	for i, s := range strided {
		sep := ","
		if i == len(strided)-1 {
			sep = ""
		}
		b.WriteString("  " + leanStrided(s) + sep + "\n")
	}
	b.WriteString("]\n\n/-- one goroutine per loop index, writing the shared slices only at its own index: (site, number of such slices) -/\ndef perIndexSites : List (Nat × Nat) := [")
	for i, s := range perIndex {
		if i > 0 {
			b.WriteString(", ")
		}
		fmt.Fprintf(&b, "(nm! %q, %d)", s.Name, len(s.Arrays))
	}
	b.WriteString("]\n\nend ZChain.Generated.C44\n")
	if err := os.WriteFile(out, []byte(b.String()), 0o644); err != nil {
		die("%v", err)
	}
}
