package main

import (
	"fmt"
	"go/ast"
	"go/token"
	"go/types"
	"sort"
	"strings"
)

type held struct {
	excl     bool
	deferred bool // released by a `defer …Unlock()`: held until the function returns
}

type baseKind int

const (
	baseOther baseKind = iota // some other object of a root type: no lock of ours guards it
	baseSelf                  // the function's own object (receiver / first root parameter)
	baseFresh                 // an object created in this function and not yet shared
)

type alias struct {
	loc   string
	kind  baseKind
	basic bool // slice of a basic type ([]byte, []int): external functions given it are taken to READ its elements
}

func basicElems(t types.Type) bool {
	if sl, ok := t.Underlying().(*types.Slice); ok {
		_, isBasic := sl.Elem().Underlying().(*types.Basic)
		return isBasic
	}
	return false
}

type walker struct {
	w     *world
	f     *fn
	info  *types.Info
	locks map[string]held
	// loopEntry: lock state at the entry of the enclosing loop/switch bodies (for break/continue)
	fresh   map[types.Object]bool
	aliases map[types.Object]alias
	// local function literals bound to a variable (x := func(...) {...})
	localFns  map[types.Object]*ast.FuncLit
	localUsed map[types.Object]bool
	inLit     int
}

func copyLocks(m map[string]held) map[string]held {
	c := make(map[string]held, len(m))
	for k, v := range m {
		c[k] = v
	}
	return c
}

func sameLocks(a, b map[string]held) bool {
	if len(a) != len(b) {
		return false
	}
	for k, v := range a {
		if bv, ok := b[k]; !ok || bv != v {
			return false
		}
	}
	return true
}

func (wk *walker) lockList() []lk {
	ls := make([]lk, 0, len(wk.locks))
	for n, h := range wk.locks {
		ls = append(ls, lk{Name: n, Excl: h.excl})
	}
	sort.Slice(ls, func(i, j int) bool { return ls[i].Name < ls[j].Name })
	return ls
}

func (wk *walker) fail(pos token.Pos, what string) { wk.w.fail(pos, wk.f.key, what) }

func (wk *walker) src(e ast.Node) string {
	p := wk.w.fset.Position(e.Pos())
	return fmt.Sprintf("%s:%d", p.Filename[strings.LastIndex(p.Filename, "/")+1:], p.Line)
}

func (w *world) walkFn(f *fn) {
	wk := &walker{w: w, f: f, info: f.pkg.TypesInfo, locks: map[string]held{}, fresh: map[types.Object]bool{},
		aliases: map[types.Object]alias{}, localFns: map[types.Object]*ast.FuncLit{}, localUsed: map[types.Object]bool{}}
	term := wk.block(f.decl.Body.List)
	for obj, fl := range wk.localFns {
		if !wk.localUsed[obj] {
			// bound but never called directly: it must not touch shared state
			nrows, ncalls := len(f.rows), len(f.calls)
			wk.funcLitBody(fl)
			if len(f.rows) != nrows || len(f.calls) != ncalls {
				wk.fail(fl.Pos(), "function literal "+obj.Name()+" touching shared state is never called directly")
			}
		}
	}
	if !term {
		for n, h := range wk.locks {
			if !h.deferred {
				wk.fail(f.decl.Body.Rbrace, "function ends with "+n+" held")
			}
		}
	}
}

func unparen(e ast.Expr) ast.Expr {
	for {
		p, ok := e.(*ast.ParenExpr)
		if !ok {
			return e
		}
		e = p.X
	}
}

// ---- field resolution ------------------------------------------------------------------------------------------

type fieldRef struct {
	base   ast.Expr // expression of (pointer to) a root type the path starts at
	loc    string   // canonical location name of the final field
	ftype  types.Type
	ptrHop *fieldRef // the path crossed an embedded POINTER field: this is that field; the rest is another object
}

func isMutex(t types.Type) bool {
	n, ok := t.(*types.Named)
	return ok && n.Obj().Pkg() != nil && n.Obj().Pkg().Path() == "sync" && (n.Obj().Name() == "Mutex" || n.Obj().Name() == "RWMutex")
}

func isAtomicType(t types.Type) bool {
	n, ok := t.(*types.Named)
	return ok && n.Obj().Pkg() != nil && n.Obj().Pkg().Path() == "sync/atomic"
}

// valueStruct: a struct held BY VALUE whose fields are part of the containing object (a root, or a struct of the
// 0chain module such as datastore.HashIDField).
func valueStruct(t types.Type) (*types.Struct, *types.Named, bool) {
	n, ok := t.(*types.Named)
	if !ok || n.Obj().Pkg() == nil {
		return nil, nil, false
	}
	st, ok := n.Underlying().(*types.Struct)
	if !ok {
		return nil, nil, false
	}
	if _, isRoot := rootDisplay(n); isRoot || strings.HasPrefix(n.Obj().Pkg().Path(), "0chain.net/") {
		return st, n, true
	}
	return nil, nil, false
}

// resolve a selector that denotes a field reachable from an expression of a root type.
func (wk *walker) resolve(sel *ast.SelectorExpr) *fieldRef {
	s := wk.info.Selections[sel]
	if s == nil || s.Kind() != types.FieldVal {
		return nil
	}
	var base ast.Expr
	var prefix string
	var cur *types.Struct
	x := unparen(sel.X)
	if inner, ok := x.(*ast.SelectorExpr); ok {
		if ir := wk.resolve(inner); ir != nil && ir.ptrHop == nil {
			if st, n, ok := valueStruct(ir.ftype); ok {
				base = ir.base
				prefix = ir.loc
				if d, isRoot := rootDisplay(n); isRoot {
					prefix = d
				}
				cur = st
			}
		}
	}
	if base == nil {
		t := wk.info.TypeOf(x)
		if t == nil {
			return nil
		}
		d, ok := rootDisplay(t)
		if !ok {
			return nil
		}
		if p, isPtr := t.(*types.Pointer); isPtr {
			t = p.Elem()
		}
		base = x
		prefix = d
		cur = t.(*types.Named).Underlying().(*types.Struct)
	}
	idx := s.Index()
	for i, k := range idx {
		f := cur.Field(k)
		if i == len(idx)-1 {
			return &fieldRef{base: base, loc: prefix + "." + f.Name(), ftype: f.Type()}
		}
		// intermediate hop: an embedded field
		ft := f.Type()
		if p, isPtr := ft.(*types.Pointer); isPtr {
			// embedded pointer (e.g. *MagicBlock): the promoted field lives in another object
			return &fieldRef{base: base, ptrHop: &fieldRef{base: base, loc: prefix + "." + f.Name(), ftype: ft}, ftype: p}
		}
		st, n, ok := valueStruct(ft)
		if !ok {
			st2, ok2 := ft.Underlying().(*types.Struct)
			if !ok2 {
				return nil
			}
			st = st2
			prefix = prefix + "." + f.Name()
		} else if d, isRoot := rootDisplay(n); isRoot {
			prefix = d
		} // else: promoted through a non-root value struct: keep the prefix (Block.Hash for Block.HashIDField.Hash)
		cur = st
	}
	return nil
}

func (wk *walker) kindOf(base ast.Expr) baseKind {
	if id, ok := unparen(base).(*ast.Ident); ok {
		obj := wk.info.Uses[id]
		if obj == nil {
			obj = wk.info.Defs[id]
		}
		if obj != nil {
			if wk.f.self != nil && obj == wk.f.self {
				return baseSelf
			}
			if wk.fresh[obj] {
				return baseFresh
			}
		}
	}
	return baseOther
}

// leaves: the locations a whole-struct read of a value struct at prefix touches.
func leaves(prefix string, st *types.Struct, out *[]string) {
	for i := 0; i < st.NumFields(); i++ {
		f := st.Field(i)
		if isMutex(f.Type()) {
			continue
		}
		if sub, n, ok := valueStruct(f.Type()); ok {
			p := prefix
			if d, isRoot := rootDisplay(n); isRoot {
				p = d
			} else if !f.Embedded() {
				p = prefix + "." + f.Name()
			}
			leaves(p, sub, out)
			continue
		}
		*out = append(*out, prefix+"."+f.Name())
	}
}

func (wk *walker) emit(pos token.Pos, loc string, kind baseKind, write, atomic, esc bool) {
	if kind == baseFresh {
		return
	}
	file, line := wk.w.rel(pos)
	r := row{Fn: wk.f.key, Loc: loc, Write: write, Atomic: atomic, File: file, Line: line, Esc: esc, Locks: []lk{}}
	if kind == baseSelf && !esc {
		r.Locks = wk.lockList()
		r.Own = true
	}
	// de-duplicate identical rows of one line
	for _, o := range wk.f.rows {
		if o.Loc == r.Loc && o.Write == r.Write && o.Atomic == r.Atomic && o.Line == r.Line && o.File == r.File && o.Esc == r.Esc && fmt.Sprint(o.Locks) == fmt.Sprint(r.Locks) {
			return
		}
	}
	wk.f.rows = append(wk.f.rows, r)
}

// access to a field denoted by sel. mode: 'r' read, 'w' write, 'b' read and write.
func (wk *walker) fieldAccess(sel *ast.SelectorExpr, ref *fieldRef, mode byte, atomic bool) {
	kind := wk.kindOf(ref.base)
	if kind == baseOther {
		wk.expr(ref.base) // the base expression itself may read fields (r.Block.RoundRank reads r.Block)
	}
	if ref.ptrHop != nil {
		// promoted through an embedded pointer: a read of the pointer field; the target is out of scope
		wk.emit(sel.Pos(), ref.ptrHop.loc, kind, false, false, false)
		return
	}
	if isMutex(ref.ftype) {
		wk.fail(sel.Pos(), "mutex "+ref.loc+" used other than by Lock/Unlock/RLock/RUnlock")
		return
	}
	if st, _, ok := valueStruct(ref.ftype); ok {
		// the whole embedded struct is read or written
		var ls []string
		p := ref.loc
		if d, isRoot := rootDisplay(ref.ftype); isRoot {
			p = d
		} else if i := strings.LastIndex(p, "."); i >= 0 && wk.embeddedName(sel) {
			p = p[:i]
		}
		leaves(p, st, &ls)
		for _, l := range ls {
			if mode == 'r' || mode == 'b' {
				wk.emit(sel.Pos(), l, kind, false, false, false)
			}
			if mode == 'w' || mode == 'b' {
				wk.emit(sel.Pos(), l, kind, true, false, false)
			}
		}
		return
	}
	if mode == 'r' || mode == 'b' {
		wk.emit(sel.Pos(), ref.loc, kind, false, atomic, false)
	}
	if mode == 'w' || mode == 'b' {
		wk.emit(sel.Pos(), ref.loc, kind, true, atomic, false)
	}
}

func (wk *walker) embeddedName(sel *ast.SelectorExpr) bool {
	if v, ok := wk.info.Uses[sel.Sel].(*types.Var); ok {
		return v.Embedded()
	}
	return false
}

// ---- element tracking ------------------------------------------------------------------------------------------

func isSliceOrMap(t types.Type) bool {
	if t == nil {
		return false
	}
	switch t.Underlying().(type) {
	case *types.Slice, *types.Map:
		return true
	}
	return false
}

func isMap(t types.Type) bool {
	if t == nil {
		return false
	}
	_, ok := t.Underlying().(*types.Map)
	return ok
}

// aliasOf: does e denote (a view of) the backing store of a slice/map field?
func (wk *walker) aliasOf(e ast.Expr) (alias, bool) {
	switch x := unparen(e).(type) {
	case *ast.Ident:
		if obj := wk.info.Uses[x]; obj != nil {
			a, ok := wk.aliases[obj]
			return a, ok
		}
	case *ast.SelectorExpr:
		if ref := wk.resolve(x); ref != nil && ref.ptrHop == nil && isSliceOrMap(ref.ftype) {
			return alias{loc: ref.loc, kind: wk.kindOf(ref.base), basic: basicElems(ref.ftype)}, true
		}
	case *ast.SliceExpr:
		return wk.aliasOf(x.X)
	case *ast.CallExpr:
		if id, ok := x.Fun.(*ast.Ident); ok && id.Name == "append" && len(x.Args) > 0 {
			if _, isBuiltin := wk.info.Uses[id].(*types.Builtin); isBuiltin {
				return wk.aliasOf(x.Args[0])
			}
		}
		// a function that returns one of its slice parameters unchanged (GetBlocksByRank): result aliases the argument
		if callee := wk.callee(x); callee != nil {
			if cf := wk.w.byObj[callee]; cf != nil {
				for i, a := range x.Args {
					if al, ok := wk.aliasOf(a); ok && returnsParam(cf, i) {
						return al, true
					}
				}
			}
		}
	}
	return alias{}, false
}

func returnsParam(cf *fn, i int) bool {
	sig := cf.obj.Type().(*types.Signature)
	if i >= sig.Params().Len() {
		return false
	}
	pv := sig.Params().At(i)
	found := false
	ast.Inspect(cf.decl.Body, func(n ast.Node) bool {
		if r, ok := n.(*ast.ReturnStmt); ok {
			for _, e := range r.Results {
				if id, ok := unparen(e).(*ast.Ident); ok && cf.pkg.TypesInfo.Uses[id] == pv {
					found = true
				}
			}
		}
		return true
	})
	return found
}

func (wk *walker) elem(pos token.Pos, a alias, write bool) {
	wk.emit(pos, a.loc+"[]", a.kind, write, false, false)
}

// paramEffect: what a function body does to the ELEMENTS of parameter pv: reads / writes. unknown = passes it on
// to something the walk cannot see.
func paramEffect(info *types.Info, body *ast.BlockStmt, pv types.Object, depth int, w *world) (r, wr, unknown bool) {
	isP := func(e ast.Expr) bool {
		switch x := unparen(e).(type) {
		case *ast.Ident:
			return info.Uses[x] == pv
		case *ast.SliceExpr:
			if id, ok := unparen(x.X).(*ast.Ident); ok {
				return info.Uses[id] == pv
			}
		}
		return false
	}
	lhs := map[ast.Expr]bool{}
	ast.Inspect(body, func(n ast.Node) bool {
		switch s := n.(type) {
		case *ast.AssignStmt:
			for _, l := range s.Lhs {
				if ix, ok := unparen(l).(*ast.IndexExpr); ok && isP(ix.X) {
					wr = true
					lhs[ix] = true
				}
			}
		case *ast.IncDecStmt:
			if ix, ok := unparen(s.X).(*ast.IndexExpr); ok && isP(ix.X) {
				wr, r = true, true
				lhs[ix] = true
			}
		case *ast.RangeStmt:
			if isP(s.X) {
				r = true
			}
		case *ast.IndexExpr:
			if isP(s.X) && !lhs[s] {
				r = true
			}
		case *ast.CallExpr:
			for i, a := range s.Args {
				if !isP(a) {
					continue
				}
				name := calleeName(info, s)
				switch {
				case name == "len" || name == "cap":
				case name == "append" && i == 0:
					wr = true
				case name == "append":
					r = true
				case name == "copy" && i == 0:
					wr = true
				case name == "copy":
					r = true
				case name == "delete":
					wr = true
				case elemWriters[name]:
					wr = true
				case elemReaders[name]:
					r = true
				default:
					var cf *fn
					if fo := calleeObj(info, s); fo != nil {
						cf = w.byObj[fo]
					}
					if cf != nil && depth > 0 {
						sig := cf.obj.Type().(*types.Signature)
						if i < sig.Params().Len() {
							r2, w2, u2 := paramEffect(cf.pkg.TypesInfo, cf.decl.Body, sig.Params().At(i), depth-1, w)
							r, wr, unknown = r || r2, wr || w2, unknown || u2
							break
						}
					}
					unknown = true
				}
			}
		}
		return true
	})
	return
}

func calleeObj(info *types.Info, c *ast.CallExpr) *types.Func {
	switch f := unparen(c.Fun).(type) {
	case *ast.Ident:
		fo, _ := info.Uses[f].(*types.Func)
		return fo
	case *ast.SelectorExpr:
		fo, _ := info.Uses[f.Sel].(*types.Func)
		return fo
	}
	return nil
}

func calleeName(info *types.Info, c *ast.CallExpr) string {
	switch f := unparen(c.Fun).(type) {
	case *ast.Ident:
		if _, ok := info.Uses[f].(*types.Builtin); ok {
			return f.Name
		}
	}
	if fo := calleeObj(info, c); fo != nil && fo.Pkg() != nil {
		if sig := fo.Type().(*types.Signature); sig.Recv() == nil {
			return fo.Pkg().Path() + "." + fo.Name()
		}
	}
	return ""
}

func (wk *walker) callee(c *ast.CallExpr) *types.Func { return calleeObj(wk.info, c) }

// ---- statements ------------------------------------------------------------------------------------------------

func (wk *walker) block(stmts []ast.Stmt) (terminated bool) {
	for _, s := range stmts {
		if wk.stmt(s) {
			return true // what follows is unreachable
		}
	}
	return false
}

// branch: walk a nested body with a copy of the lock state; returns the state at its end (nil if it terminates).
func (wk *walker) branch(body func() bool) map[string]held {
	saved := wk.locks
	wk.locks = copyLocks(saved)
	term := body()
	end := wk.locks
	wk.locks = saved
	if term {
		return nil
	}
	return end
}

func (wk *walker) merge(pos token.Pos, ends []map[string]held, mayFallThrough bool) (terminated bool) {
	var live []map[string]held
	for _, e := range ends {
		if e != nil {
			live = append(live, e)
		}
	}
	if mayFallThrough {
		live = append(live, wk.locks)
	}
	if len(live) == 0 {
		return true
	}
	for _, e := range live[1:] {
		if !sameLocks(live[0], e) {
			wk.fail(pos, "lock state differs between the branches of this statement")
			break
		}
	}
	wk.locks = live[0]
	return false
}

// lockOp: is call a Lock/Unlock/… on a mutex field of a root object?
func (wk *walker) lockOp(c *ast.CallExpr) (name, op string, kind baseKind, ok bool) {
	sel, isSel := unparen(c.Fun).(*ast.SelectorExpr)
	if !isSel {
		return
	}
	switch sel.Sel.Name {
	case "Lock", "Unlock", "RLock", "RUnlock", "TryLock", "TryRLock":
	default:
		return
	}
	inner, isSel := unparen(sel.X).(*ast.SelectorExpr)
	if !isSel {
		return
	}
	ref := wk.resolve(inner)
	if ref == nil || ref.ptrHop != nil || !isMutex(ref.ftype) {
		return
	}
	return ref.loc, sel.Sel.Name, wk.kindOf(ref.base), true
}

func (wk *walker) doLock(pos token.Pos, name, op string, kind baseKind, deferred bool) {
	if kind == baseFresh {
		return
	}
	if kind != baseSelf {
		wk.fail(pos, op+" of "+name+" of another object")
		return
	}
	switch op {
	case "Lock", "RLock":
		if deferred {
			wk.fail(pos, "deferred "+op)
			return
		}
		if _, already := wk.locks[name]; already {
			wk.fail(pos, op+" of "+name+" while it is held")
			return
		}
		wk.locks[name] = held{excl: op == "Lock"}
	case "Unlock", "RUnlock":
		h, isHeld := wk.locks[name]
		if !isHeld {
			wk.fail(pos, "unlock of "+name+" that is not held")
			return
		}
		if h.excl != (op == "Unlock") {
			wk.fail(pos, op+" of "+name+" held in the other mode")
			return
		}
		if deferred {
			h.deferred = true
			wk.locks[name] = h
		} else {
			if h.deferred {
				wk.fail(pos, "explicit unlock of "+name+" whose unlock is already deferred")
				return
			}
			delete(wk.locks, name)
		}
	default:
		wk.fail(pos, op+" on "+name)
	}
}

func (wk *walker) stmt(s ast.Stmt) (terminated bool) {
	switch x := s.(type) {
	case nil:
	case *ast.ExprStmt:
		if c, ok := unparen(x.X).(*ast.CallExpr); ok {
			if name, op, kind, ok := wk.lockOp(c); ok {
				wk.doLock(c.Pos(), name, op, kind, false)
				return false
			}
			if id, ok := c.Fun.(*ast.Ident); ok && id.Name == "panic" {
				wk.exprs(c.Args)
				return true
			}
		}
		wk.expr(x.X)
	case *ast.DeferStmt:
		if name, op, kind, ok := wk.lockOp(x.Call); ok {
			wk.doLock(x.Pos(), name, op, kind, true)
			return false
		}
		if fl, ok := unparen(x.Call.Fun).(*ast.FuncLit); ok {
			// runs when the function returns: after every defer registered later, before those registered earlier.
			// Locks whose unlock is already deferred are still held then; a lock released explicitly is uncertain.
			wk.exprs(x.Call.Args)
			saved := wk.locks
			dl := map[string]held{}
			uncertain := false
			for n, h := range saved {
				if h.deferred {
					dl[n] = h
				} else {
					uncertain = true
				}
			}
			wk.locks = dl
			nrows := len(wk.f.rows)
			ncalls := len(wk.f.calls)
			wk.funcLitBody(fl)
			if uncertain && (len(wk.f.rows) != nrows || len(wk.f.calls) != ncalls) {
				wk.fail(x.Pos(), "deferred function literal touches shared state while a non-deferred lock is held")
			}
			wk.locks = saved
			return false
		}
		wk.callExpr(x.Call)
	case *ast.GoStmt:
		wk.fail(x.Pos(), "goroutine started")
		wk.exprs(x.Call.Args)
	case *ast.ReturnStmt:
		for _, r := range x.Results {
			if a, ok := wk.aliasOf(r); ok && a.kind != baseFresh && wk.inLit == 0 {
				// the internal slice/map leaves the function: the caller reads its elements without any lock
				wk.exprNoElem(r)
				file, line := wk.w.rel(r.Pos())
				wk.f.rows = append(wk.f.rows, row{Fn: wk.f.key, Loc: a.loc + "[]", File: file, Line: line, Esc: true, Locks: []lk{}})
				continue
			}
			wk.expr(r)
		}
		for n, h := range wk.locks {
			if !h.deferred {
				wk.fail(x.Pos(), "return with "+n+" held")
			}
		}
		return true
	case *ast.BranchStmt:
		// break / continue / goto / fallthrough: the lock state must be the one the enclosing statement started with;
		// checked by the merge of the enclosing statement because we keep this branch alive.
		if x.Tok == token.GOTO {
			wk.fail(x.Pos(), "goto")
		}
		return false
	case *ast.BlockStmt:
		return wk.block(x.List)
	case *ast.LabeledStmt:
		return wk.stmt(x.Stmt)
	case *ast.AssignStmt:
		wk.assign(x)
	case *ast.IncDecStmt:
		wk.lvalue(x.X, 'b')
	case *ast.DeclStmt:
		if gd, ok := x.Decl.(*ast.GenDecl); ok {
			for _, sp := range gd.Specs {
				vs, ok := sp.(*ast.ValueSpec)
				if !ok {
					continue
				}
				for i, v := range vs.Values {
					if len(vs.Names) == len(vs.Values) {
						wk.bind(vs.Names[i], v)
					}
					wk.rhs(v)
				}
			}
		}
	case *ast.SendStmt:
		wk.expr(x.Chan)
		wk.expr(x.Value)
	case *ast.IfStmt:
		if x.Init != nil {
			wk.stmt(x.Init)
		}
		wk.expr(x.Cond)
		ends := []map[string]held{wk.branch(func() bool { return wk.block(x.Body.List) })}
		fall := true
		if x.Else != nil {
			ends = append(ends, wk.branch(func() bool { return wk.stmt(x.Else) }))
			fall = false
		}
		return wk.merge(x.Pos(), ends, fall)
	case *ast.ForStmt:
		if x.Init != nil {
			wk.stmt(x.Init)
		}
		if x.Cond != nil {
			wk.expr(x.Cond)
		}
		end := wk.branch(func() bool {
			t := wk.block(x.Body.List)
			if !t && x.Post != nil {
				wk.stmt(x.Post)
			}
			return t
		})
		wk.merge(x.Pos(), []map[string]held{end}, true)
		return false
	case *ast.RangeStmt:
		if a, ok := wk.aliasOf(x.X); ok {
			wk.exprNoElem(x.X)
			if x.Value != nil || isMap(wk.info.TypeOf(x.X)) {
				wk.elem(x.X.Pos(), a, false)
			}
		} else {
			wk.expr(x.X)
		}
		if x.Tok == token.ASSIGN {
			if x.Key != nil {
				wk.lvalue(x.Key, 'w')
			}
			if x.Value != nil {
				wk.lvalue(x.Value, 'w')
			}
		}
		end := wk.branch(func() bool { return wk.block(x.Body.List) })
		wk.merge(x.Pos(), []map[string]held{end}, true)
		return false
	case *ast.SwitchStmt:
		if x.Init != nil {
			wk.stmt(x.Init)
		}
		if x.Tag != nil {
			wk.expr(x.Tag)
		}
		return wk.clauses(x.Pos(), x.Body.List)
	case *ast.TypeSwitchStmt:
		if x.Init != nil {
			wk.stmt(x.Init)
		}
		wk.stmt(x.Assign)
		return wk.clauses(x.Pos(), x.Body.List)
	case *ast.SelectStmt:
		return wk.clauses(x.Pos(), x.Body.List)
	case *ast.EmptyStmt:
	default:
		wk.fail(s.Pos(), fmt.Sprintf("statement %T", s))
	}
	return false
}

func (wk *walker) clauses(pos token.Pos, list []ast.Stmt) bool {
	var ends []map[string]held
	hasDefault := false
	for _, c := range list {
		switch cc := c.(type) {
		case *ast.CaseClause:
			if cc.List == nil {
				hasDefault = true
			}
			wk.exprs(cc.List)
			ends = append(ends, wk.branch(func() bool { return wk.block(cc.Body) }))
		case *ast.CommClause:
			if cc.Comm == nil {
				hasDefault = true
			}
			ends = append(ends, wk.branch(func() bool {
				if cc.Comm != nil {
					wk.stmt(cc.Comm)
				}
				return wk.block(cc.Body)
			}))
		}
	}
	// a switch without default may fall through; a select always takes one clause
	fall := !hasDefault
	if len(list) > 0 {
		if _, ok := list[0].(*ast.CommClause); ok {
			fall = false
		}
	}
	return wk.merge(pos, ends, fall)
}

func (wk *walker) assign(x *ast.AssignStmt) {
	for _, r := range x.Rhs {
		wk.rhs(r)
	}
	for i, l := range x.Lhs {
		if len(x.Lhs) == len(x.Rhs) {
			if id, ok := unparen(l).(*ast.Ident); ok {
				wk.bind(id, x.Rhs[i])
			}
		}
		mode := byte('w')
		if x.Tok != token.ASSIGN && x.Tok != token.DEFINE {
			mode = 'b'
		}
		wk.lvalue(l, mode)
	}
}

// bind: remember what a local variable stands for (a fresh object, a view of a slice/map field, a local function).
func (wk *walker) bind(id *ast.Ident, rhs ast.Expr) {
	obj := wk.info.Defs[id]
	if obj == nil {
		obj = wk.info.Uses[id]
	}
	if obj == nil {
		return
	}
	r := unparen(rhs)
	if fl, ok := r.(*ast.FuncLit); ok {
		wk.localFns[obj] = fl
		return
	}
	if a, ok := wk.aliasOf(r); ok {
		if old, had := wk.aliases[obj]; !had || old == a {
			wk.aliases[obj] = a
		} else {
			wk.fail(id.Pos(), "variable "+id.Name+" views two different fields")
		}
		return
	}
	if wk.isFresh(r) {
		wk.fresh[obj] = true
	}
}

func (wk *walker) isFresh(r ast.Expr) bool {
	switch v := unparen(r).(type) {
	case *ast.UnaryExpr:
		if v.Op == token.AND {
			if _, ok := unparen(v.X).(*ast.CompositeLit); ok {
				return true
			}
		}
	case *ast.CompositeLit:
		return true
	case *ast.StarExpr: // value copy `*u`: the copy is a new object
		_, ok := rootDisplay(wk.info.TypeOf(v))
		return ok
	case *ast.CallExpr:
		if fo := wk.callee(v); fo != nil && fo.Pkg() != nil && freshFrom[fnKey(fo)] {
			return true
		}
	case *ast.TypeAssertExpr:
		// datastore.GetEntityMetadata("…").Instance().(*T) inside the constructors
		if freshInstanceIn[wk.f.key] {
			if c, ok := unparen(v.X).(*ast.CallExpr); ok {
				if s, ok := unparen(c.Fun).(*ast.SelectorExpr); ok && s.Sel.Name == "Instance" {
					return true
				}
			}
		}
	}
	return false
}

// lvalue: e is assigned to (mode 'w') or read and assigned ('b').
func (wk *walker) lvalue(e ast.Expr, mode byte) {
	switch x := unparen(e).(type) {
	case *ast.Ident:
	case *ast.SelectorExpr:
		if ref := wk.resolve(x); ref != nil {
			wk.fieldAccess(x, ref, mode, false)
			return
		}
		wk.expr(x.X)
	case *ast.IndexExpr:
		wk.expr(x.Index)
		if a, ok := wk.aliasOf(x.X); ok {
			wk.exprNoElem(x.X)
			if mode == 'b' {
				wk.elem(x.Pos(), a, false)
			}
			wk.elem(x.Pos(), a, true)
			return
		}
		wk.expr(x.X)
	case *ast.StarExpr:
		if _, ok := rootDisplay(wk.info.TypeOf(x)); ok && wk.kindOf(x.X) != baseFresh {
			wk.fail(x.Pos(), "assignment to a whole root object")
		}
		wk.expr(x.X)
	default:
		wk.expr(e)
	}
}

// rhs: an expression whose value is stored somewhere (may be a view of a field; reading it does not read elements)
func (wk *walker) rhs(e ast.Expr) {
	if _, isLit := unparen(e).(*ast.FuncLit); isLit {
		return // bound to a variable: analysed where it is called (or at the end if it never is)
	}
	if _, ok := wk.aliasOf(e); ok {
		if c, isCall := unparen(e).(*ast.CallExpr); isCall {
			wk.callExpr(c)
			return
		}
		wk.exprNoElem(e)
		return
	}
	wk.expr(e)
}

func (wk *walker) exprs(es []ast.Expr) {
	for _, e := range es {
		wk.expr(e)
	}
}

// exprNoElem: read the slice header / map pointer of a field view without touching elements
func (wk *walker) exprNoElem(e ast.Expr) {
	switch x := unparen(e).(type) {
	case *ast.Ident:
	case *ast.SelectorExpr:
		if ref := wk.resolve(x); ref != nil {
			wk.fieldAccess(x, ref, 'r', false)
			return
		}
		wk.expr(x)
	case *ast.SliceExpr:
		wk.exprNoElem(x.X)
		for _, i := range []ast.Expr{x.Low, x.High, x.Max} {
			if i != nil {
				wk.expr(i)
			}
		}
	default:
		wk.expr(e)
	}
}

// expr: e is evaluated for its value.
func (wk *walker) expr(e ast.Expr) {
	switch x := e.(type) {
	case nil:
	case *ast.Ident, *ast.BasicLit:
	case *ast.ParenExpr:
		wk.expr(x.X)
	case *ast.SelectorExpr:
		if ref := wk.resolve(x); ref != nil {
			wk.fieldAccess(x, ref, 'r', false)
			return
		}
		if s := wk.info.Selections[x]; s != nil {
			wk.expr(x.X)
		} // else: qualified identifier pkg.Name
	case *ast.StarExpr:
		// *p where p points to a root object: the whole object is copied
		if d, ok := rootDisplay(wk.info.TypeOf(x)); ok {
			if kind := wk.kindOf(x.X); kind != baseFresh && !wk.isFresh(x.X) {
				st := wk.info.TypeOf(x).(*types.Named).Underlying().(*types.Struct)
				var ls []string
				leaves(d, st, &ls)
				for _, l := range ls {
					wk.emit(x.Pos(), l, kind, false, false, false)
				}
			}
		}
		wk.expr(x.X)
	case *ast.UnaryExpr:
		if x.Op == token.AND {
			if sel, ok := unparen(x.X).(*ast.SelectorExpr); ok {
				if ref := wk.resolve(sel); ref != nil && wk.kindOf(ref.base) != baseFresh {
					wk.fail(x.Pos(), "address of "+ref.loc+" taken")
					return
				}
			}
		}
		wk.expr(x.X)
	case *ast.BinaryExpr:
		wk.expr(x.X)
		wk.expr(x.Y)
	case *ast.IndexExpr:
		wk.expr(x.Index)
		if a, ok := wk.aliasOf(x.X); ok {
			wk.exprNoElem(x.X)
			wk.elem(x.Pos(), a, false)
			return
		}
		wk.expr(x.X)
	case *ast.IndexListExpr:
		wk.expr(x.X)
	case *ast.SliceExpr:
		wk.exprNoElem(x.X) // re-slicing reads the header only
		for _, i := range []ast.Expr{x.Low, x.High, x.Max} {
			if i != nil {
				wk.expr(i)
			}
		}
	case *ast.TypeAssertExpr:
		wk.expr(x.X)
	case *ast.CallExpr:
		wk.callExpr(x)
	case *ast.CompositeLit:
		for _, el := range x.Elts {
			if kv, ok := el.(*ast.KeyValueExpr); ok {
				if _, isIdent := kv.Key.(*ast.Ident); !isIdent {
					wk.expr(kv.Key)
				}
				wk.rhs(kv.Value)
			} else {
				wk.rhs(el)
			}
		}
	case *ast.KeyValueExpr:
		wk.expr(x.Value)
	case *ast.FuncLit:
		// a function literal that is not called here, not bound to a variable, not handed to a known synchronous
		// caller: it must not touch shared state
		nrows, ncalls := len(wk.f.rows), len(wk.f.calls)
		wk.funcLitBody(x)
		if len(wk.f.rows) != nrows || len(wk.f.calls) != ncalls {
			wk.fail(x.Pos(), "function literal touching shared state escapes")
		}
	case *ast.ArrayType, *ast.MapType, *ast.ChanType, *ast.FuncType, *ast.InterfaceType, *ast.StructType, *ast.Ellipsis:
	default:
		wk.fail(e.Pos(), fmt.Sprintf("expression %T", e))
	}
}

// funcLitBody: walk the body of a function literal with the current lock state. Returns inside it do not end the
// enclosing function, and it must leave the lock state as it found it.
func (wk *walker) funcLitBody(fl *ast.FuncLit) {
	saved := wk.locks
	// inside the literal every lock held outside counts as "deferred" (a return inside does not leak it)
	in := map[string]held{}
	for n, h := range saved {
		h.deferred = true
		in[n] = h
	}
	wk.locks = in
	wk.inLit++
	term := wk.block(fl.Body.List)
	wk.inLit--
	if !term && !sameLocks(wk.locks, in) {
		wk.fail(fl.Pos(), "function literal changes the lock state")
	}
	wk.locks = saved
}

func (wk *walker) callExpr(c *ast.CallExpr) {
	fun := unparen(c.Fun)
	// conversions T(x)
	if tv, ok := wk.info.Types[fun]; ok && tv.IsType() {
		wk.exprs(c.Args)
		return
	}
	if _, _, _, ok := wk.lockOp(c); ok {
		wk.fail(c.Pos(), "lock operation inside an expression")
		return
	}
	name := calleeName(wk.info, c)
	// builtins with element effects
	if id, ok := fun.(*ast.Ident); ok {
		if _, isBuiltin := wk.info.Uses[id].(*types.Builtin); isBuiltin {
			wk.builtin(id.Name, c)
			return
		}
		// call of a local function literal bound to a variable
		if obj := wk.info.Uses[id]; obj != nil {
			if fl, ok := wk.localFns[obj]; ok {
				wk.localUsed[obj] = true
				wk.localCall(c, fl)
				return
			}
		}
	}
	// immediately invoked literal
	if fl, ok := fun.(*ast.FuncLit); ok {
		wk.exprs(c.Args)
		wk.funcLitBody(fl)
		return
	}
	// sync/atomic functions on the address of a field
	if fo := wk.callee(c); fo != nil && fo.Pkg() != nil && fo.Pkg().Path() == "sync/atomic" {
		sig := fo.Type().(*types.Signature)
		if sig.Recv() == nil && len(c.Args) > 0 {
			if sel := addrOfField(c.Args[0]); sel != nil {
				if ref := wk.resolve(sel); ref != nil && ref.ptrHop == nil {
					mode := byte('w')
					if strings.HasPrefix(fo.Name(), "Load") {
						mode = 'r'
					}
					wk.fieldAccess(sel, ref, mode, true)
					wk.exprs(c.Args[1:])
					return
				}
			}
		}
		if sig.Recv() != nil {
			// method of an atomic type on a field: r.vrfStartTime.Store(t)
			if sel, ok := fun.(*ast.SelectorExpr); ok {
				if inner, ok := unparen(sel.X).(*ast.SelectorExpr); ok {
					if ref := wk.resolve(inner); ref != nil && ref.ptrHop == nil && isAtomicType(ref.ftype) {
						mode := byte('w')
						if strings.HasPrefix(fo.Name(), "Load") {
							mode = 'r'
						}
						wk.fieldAccess(inner, ref, mode, true)
						wk.exprs(c.Args)
						return
					}
				}
			}
		}
	}
	// synchronous element writers with a function literal (sort.Slice)
	if elemWriters[name] && len(c.Args) >= 1 {
		if a, ok := wk.aliasOf(c.Args[0]); ok {
			wk.exprNoElem(c.Args[0])
			wk.elem(c.Pos(), a, true)
		} else {
			wk.expr(c.Args[0])
		}
		for _, arg := range c.Args[1:] {
			if fl, ok := unparen(arg).(*ast.FuncLit); ok {
				wk.funcLitBody(fl)
			} else {
				wk.expr(arg)
			}
		}
		return
	}
	// static callee in the analysed packages: a call edge
	var cf *fn
	if fo := wk.callee(c); fo != nil {
		cf = wk.w.byObj[fo]
	}
	same := false
	if sel, ok := fun.(*ast.SelectorExpr); ok {
		if s := wk.info.Selections[sel]; s != nil && (s.Kind() == types.MethodVal) {
			var freshRecv bool
			same, freshRecv = wk.recvSame(sel, s)
			if freshRecv {
				cf = nil // runs on an object that is not shared yet
			}
		} else if s != nil {
			wk.expr(sel.X) // field of function type
		}
	} else if _, isIdent := fun.(*ast.Ident); !isIdent {
		wk.expr(fun)
	}
	if cf != nil && cf.obj.Type().(*types.Signature).Recv() == nil && cf.self != nil {
		// function: same object when the caller's own object is passed as the callee's self parameter
		sig := cf.obj.Type().(*types.Signature)
		for i := 0; i < sig.Params().Len() && i < len(c.Args); i++ {
			if sig.Params().At(i) == cf.self {
				if wk.kindOf(c.Args[i]) == baseSelf {
					same = true
				} else if wk.kindOf(c.Args[i]) == baseFresh {
					cf = nil // runs on an unshared object
				}
			}
		}
	}
	// arguments; slice/map field views handed to the callee
	for i, arg := range c.Args {
		a, ok := wk.aliasOf(arg)
		if !ok {
			wk.expr(arg)
			continue
		}
		if inner, isCall := unparen(arg).(*ast.CallExpr); isCall {
			wk.callExpr(inner)
		} else {
			wk.exprNoElem(arg)
		}
		switch {
		case elemReaders[name]:
			wk.elem(arg.Pos(), a, false)
		case cf != nil:
			sig := cf.obj.Type().(*types.Signature)
			if i < sig.Params().Len() {
				r, wr, unknown := paramEffect(cf.pkg.TypesInfo, cf.decl.Body, sig.Params().At(i), 3, wk.w)
				if unknown && a.basic {
					r = true // same assumption as below for []byte / []int
				} else if unknown {
					wk.fail(arg.Pos(), "view of "+a.loc+" passed on by "+cf.key+" to an unknown function")
				}
				if r {
					wk.elem(arg.Pos(), a, false)
				}
				if wr {
					wk.elem(arg.Pos(), a, true)
				}
			}
		case a.basic:
			// assumption (listed in checks/C44.json): a function outside the two packages that is given a []byte /
			// []int field reads it and does not keep or modify it (bytes.Equal, util.ToHex, NodeDB.GetNode, …)
			wk.elem(arg.Pos(), a, false)
		default:
			wk.fail(arg.Pos(), "view of "+a.loc+" passed to unknown function "+name)
		}
	}
	if cf != nil {
		ls := []lk{}
		if same {
			ls = wk.lockList()
		}
		_, line := wk.w.rel(c.Pos())
		for _, o := range wk.f.calls {
			if o.Callee == cf.key && o.Same == same && fmt.Sprint(o.Locks) == fmt.Sprint(ls) {
				return
			}
		}
		wk.f.calls = append(wk.f.calls, call{Caller: wk.f.key, Callee: cf.key, Locks: ls, Same: same, Line: line})
	}
}

// recvSame: does the method run on the caller's own object (receiver reached from self by value hops only)?
// Also records the reads the receiver expression performs.
func (wk *walker) recvSame(sel *ast.SelectorExpr, s *types.Selection) (same bool, freshRecv bool) {
	x := unparen(sel.X)
	kind := baseOther
	valuePath := false
	if inner, ok := x.(*ast.SelectorExpr); ok {
		if ref := wk.resolve(inner); ref != nil {
			if ref.ptrHop == nil {
				if _, _, isVal := valueStruct(ref.ftype); isVal {
					kind = wk.kindOf(ref.base)
					valuePath = true
					if kind == baseOther {
						wk.expr(ref.base)
					}
				}
			}
			if !valuePath {
				wk.expr(x) // e.g. r.Block.Clone(): reads r.Block, runs on another object
			}
		} else {
			wk.expr(x)
		}
	} else {
		kind = wk.kindOf(x)
		valuePath = true
		if kind == baseOther {
			wk.expr(x)
		}
	}
	if !valuePath {
		return false, false
	}
	if kind == baseFresh {
		return false, true
	}
	// implicit embedded hops of the method selection: all but the last index are fields
	t := wk.info.TypeOf(x)
	if p, ok := t.(*types.Pointer); ok {
		t = p.Elem()
	}
	idx := s.Index()
	for _, k := range idx[:len(idx)-1] {
		st, ok := t.Underlying().(*types.Struct)
		if !ok {
			return false, false
		}
		f := st.Field(k)
		t = f.Type()
		if p, isPtr := t.(*types.Pointer); isPtr {
			// promoted through an embedded pointer: reads that pointer, runs on another object
			if d, isRoot := rootDisplay(wk.info.TypeOf(x)); isRoot {
				wk.emit(sel.Pos(), d+"."+f.Name(), kind, false, false, false)
			}
			_ = p
			return false, false
		}
	}
	return kind == baseSelf, false
}

func addrOfField(e ast.Expr) *ast.SelectorExpr {
	e = unparen(e)
	// (*int32)(&r.phase)
	if c, ok := e.(*ast.CallExpr); ok && len(c.Args) == 1 {
		e = unparen(c.Args[0])
	}
	u, ok := e.(*ast.UnaryExpr)
	if !ok || u.Op != token.AND {
		return nil
	}
	sel, _ := unparen(u.X).(*ast.SelectorExpr)
	return sel
}

func (wk *walker) builtin(name string, c *ast.CallExpr) {
	switch name {
	case "len", "cap":
		if a, ok := wk.aliasOf(c.Args[0]); ok {
			wk.exprNoElem(c.Args[0])
			if isMap(wk.info.TypeOf(c.Args[0])) {
				wk.elem(c.Pos(), a, false) // len of a map reads the map itself
			}
			return
		}
	case "append":
		if a, ok := wk.aliasOf(c.Args[0]); ok {
			wk.exprNoElem(c.Args[0])
			wk.elem(c.Pos(), a, true) // writes into the spare capacity of the backing array
			for _, arg := range c.Args[1:] {
				if b, ok := wk.aliasOf(arg); ok {
					wk.exprNoElem(arg)
					wk.elem(arg.Pos(), b, false)
				} else {
					wk.expr(arg)
				}
			}
			return
		}
		for i, arg := range c.Args {
			if b, ok := wk.aliasOf(arg); ok && i > 0 {
				wk.exprNoElem(arg)
				wk.elem(arg.Pos(), b, false)
			} else {
				wk.expr(arg)
			}
		}
		return
	case "copy":
		for i, arg := range c.Args {
			if a, ok := wk.aliasOf(arg); ok {
				wk.exprNoElem(arg)
				wk.elem(arg.Pos(), a, i == 0)
			} else {
				wk.expr(arg)
			}
		}
		return
	case "delete":
		if a, ok := wk.aliasOf(c.Args[0]); ok {
			wk.exprNoElem(c.Args[0])
			wk.elem(c.Pos(), a, true)
			wk.exprs(c.Args[1:])
			return
		}
	case "make", "new":
		for _, arg := range c.Args[1:] {
			wk.expr(arg)
		}
		return
	}
	wk.exprs(c.Args)
}

// localCall: call of a function literal bound to a local variable: its body runs here, with the current locks;
// slice/map field views passed as arguments become views inside it.
func (wk *walker) localCall(c *ast.CallExpr, fl *ast.FuncLit) {
	var params []*ast.Ident
	for _, f := range fl.Type.Params.List {
		params = append(params, f.Names...)
	}
	added := []types.Object{}
	for i, arg := range c.Args {
		if a, ok := wk.aliasOf(arg); ok && i < len(params) {
			wk.exprNoElem(arg)
			if obj := wk.info.Defs[params[i]]; obj != nil {
				wk.aliases[obj] = a
				added = append(added, obj)
			}
			continue
		}
		wk.expr(arg)
	}
	wk.funcLitBody(fl)
	for _, o := range added {
		delete(wk.aliases, o)
	}
}
