package main

// The closure of miner.Chain.ValidateTransactions (miner/protocol_block.go): the variables declared in the function
// literal handed to validateTxnsWithContext.Run are shared between that body ("main") and the goroutines it starts
// (`go validate(...)` in a loop, `go func() {...}()`). Object = one invocation's closure ("VT"); locations = its
// variables; locks = local *sync.Mutex variables (bicLock). Channel operations are synchronisation and not modelled:
// a variable written by a worker and read by main after a receive is ordered only with the worker whose value was
// received, not with the others — which is why main's accesses after the first `go` count as concurrent.

import (
	"go/ast"
	"go/parser"
	"go/token"
	"path/filepath"
	"sort"
)

// The miner package is NOT type-checked (loading it costs several seconds on every run): the file is parsed with the
// parser's own identifier resolution (ast.Object: every use of a local variable points at its declaration), and the
// kind of a variable (mutex / channel / map / function literal) is read off its initialiser.

type vtWalker struct {
	w        *world
	vars     map[*ast.Object]bool         // variables declared at the top level of the Run body
	mutex    map[*ast.Object]bool         // … initialised with &sync.Mutex{} / sync.Mutex{}
	chans    map[*ast.Object]bool         // … initialised with make(chan …) (synchronisation objects)
	maps     map[*ast.Object]bool         // … initialised with make(map…)
	lits     map[*ast.Object]*ast.FuncLit // … bound to a function literal
	locks    map[string]bool
	fnName   string
	rows     []row
	calls    []call
	seenCall map[string]bool
}

func (w *world) validateTransactions() ([]row, []call, []entry) {
	file, err := parser.ParseFile(w.fset, filepath.Join(w.gosrc, "miner/protocol_block.go"), nil, 0)
	if err != nil {
		die("%v", err)
	}
	var fd *ast.FuncDecl
	for _, d := range file.Decls {
		if f, ok := d.(*ast.FuncDecl); ok && f.Name.Name == "ValidateTransactions" && f.Recv != nil {
			fd = f
		}
	}
	if fd == nil {
		die("miner: ValidateTransactions not found")
	}
	// the body: the function literal argument of the single statement `return mc.validateTxnsWithContext.Run(ctx, func() error {…})`
	var body *ast.FuncLit
	if len(fd.Body.List) == 1 {
		if rs, ok := fd.Body.List[0].(*ast.ReturnStmt); ok && len(rs.Results) == 1 {
			if c, ok := rs.Results[0].(*ast.CallExpr); ok && len(c.Args) == 2 {
				body, _ = c.Args[1].(*ast.FuncLit)
			}
		}
	}
	if body == nil {
		// the closure may have been inlined into the function: take the function body itself
		body = &ast.FuncLit{Type: fd.Type, Body: fd.Body}
	}
	v := &vtWalker{w: w, vars: map[*ast.Object]bool{}, mutex: map[*ast.Object]bool{}, chans: map[*ast.Object]bool{}, maps: map[*ast.Object]bool{},
		lits: map[*ast.Object]*ast.FuncLit{}, locks: map[string]bool{}, seenCall: map[string]bool{}}
	// top-level declarations
	declare := func(id *ast.Ident, val ast.Expr) {
		obj := id.Obj
		if obj == nil || id.Name == "_" {
			return
		}
		v.vars[obj] = true
		switch x := val.(type) {
		case *ast.FuncLit:
			v.lits[obj] = x
		case *ast.UnaryExpr:
			if cl, ok := x.X.(*ast.CompositeLit); ok && x.Op == token.AND && isSyncMutexType(cl.Type) {
				v.mutex[obj] = true
			}
		case *ast.CompositeLit:
			if isSyncMutexType(x.Type) {
				v.mutex[obj] = true
			}
		case *ast.CallExpr:
			if f, ok := x.Fun.(*ast.Ident); ok && f.Name == "make" && len(x.Args) > 0 {
				switch x.Args[0].(type) {
				case *ast.ChanType:
					v.chans[obj] = true
				case *ast.MapType:
					v.maps[obj] = true
				}
			}
		}
	}
	firstGo := -1
	for i, s := range body.Body.List {
		switch x := s.(type) {
		case *ast.DeclStmt:
			for _, sp := range x.Decl.(*ast.GenDecl).Specs {
				if vs, ok := sp.(*ast.ValueSpec); ok {
					for k, n := range vs.Names {
						var val ast.Expr
						if k < len(vs.Values) {
							val = vs.Values[k]
						}
						declare(n, val)
					}
				}
			}
		case *ast.AssignStmt:
			if x.Tok == token.DEFINE {
				for k, l := range x.Lhs {
					if id, ok := l.(*ast.Ident); ok {
						var val ast.Expr
						if k < len(x.Rhs) && len(x.Lhs) == len(x.Rhs) {
							val = x.Rhs[k]
						}
						declare(id, val)
					}
				}
			}
		}
		if firstGo < 0 {
			ast.Inspect(s, func(n ast.Node) bool {
				if _, ok := n.(*ast.FuncLit); ok {
					return false
				}
				if _, ok := n.(*ast.GoStmt); ok {
					firstGo = i
				}
				return true
			})
		}
	}
	if firstGo < 0 {
		// no goroutine any more: nothing is shared
		return nil, nil, nil
	}
	// goroutines
	type gor struct {
		name string
		lit  *ast.FuncLit
		loop bool
	}
	var gors []gor
	var findGo func(n ast.Node, inLoop bool)
	findGo = func(n ast.Node, inLoop bool) {
		ast.Inspect(n, func(m ast.Node) bool {
			switch x := m.(type) {
			case *ast.FuncLit:
				return false
			case *ast.ForStmt:
				if m != n {
					findGo(x.Body, true)
					return false
				}
			case *ast.RangeStmt:
				if m != n {
					findGo(x.Body, true)
					return false
				}
			case *ast.GoStmt:
				switch f := x.Call.Fun.(type) {
				case *ast.Ident:
					fl := v.lits[f.Obj]
					if fl == nil {
						w.fail(x.Pos(), "ValidateTransactions", "go statement on something that is not a local function literal")
						return false
					}
					gors = append(gors, gor{f.Name, fl, inLoop})
				case *ast.FuncLit:
					gors = append(gors, gor{"anon@" + itoa(w.fset.Position(x.Pos()).Line), f, inLoop})
				default:
					w.fail(x.Pos(), "ValidateTransactions", "go statement on something that is not a local function literal")
				}
				return false
			}
			return true
		})
	}
	for _, s := range body.Body.List {
		switch x := s.(type) {
		case *ast.ForStmt:
			findGo(x.Body, true)
		case *ast.RangeStmt:
			findGo(x.Body, true)
		default:
			findGo(s, false)
		}
	}
	var entries []entry
	for _, g := range gors {
		v.fnName = "VT." + g.name
		v.locks = map[string]bool{}
		v.walk(g.lit.Body)
		entries = append(entries, entry{Fn: "VT." + g.name, Group: 1, SelfConc: g.loop})
	}
	// main: the statements from the first `go` on (what precedes is ordered before every goroutine by the go statement)
	v.fnName = "VT.main"
	v.locks = map[string]bool{}
	for _, s := range body.Body.List[firstGo:] {
		v.walk(s)
	}
	entries = append(entries, entry{Fn: "VT.main", Group: 1, SelfConc: false})
	sort.SliceStable(entries, func(i, j int) bool { return entries[i].Fn < entries[j].Fn })
	// drop duplicate entries (the same literal started from two places)
	var es []entry
	for i, e := range entries {
		if i > 0 && entries[i-1].Fn == e.Fn {
			if e.SelfConc {
				es[len(es)-1].SelfConc = true
			}
			continue
		}
		es = append(es, e)
	}
	return v.rows, v.calls, es
}

func itoa(i int) string {
	if i == 0 {
		return "0"
	}
	s := ""
	for i > 0 {
		s = string(rune('0'+i%10)) + s
		i /= 10
	}
	return s
}

func (v *vtWalker) emit(pos token.Pos, name string, write bool) {
	file, line := v.w.rel(pos)
	ls := []lk{}
	for n := range v.locks {
		ls = append(ls, lk{Name: n, Excl: true})
	}
	sort.Slice(ls, func(i, j int) bool { return ls[i].Name < ls[j].Name })
	r := row{Fn: v.fnName, Loc: "VT." + name, Write: write, Locks: ls, File: file, Line: line, Own: true}
	for _, o := range v.rows {
		if o.Fn == r.Fn && o.Loc == r.Loc && o.Write == r.Write && o.Line == r.Line && len(o.Locks) == len(r.Locks) {
			return
		}
	}
	v.rows = append(v.rows, r)
}

func isSyncMutexType(t ast.Expr) bool {
	sel, ok := t.(*ast.SelectorExpr)
	if !ok {
		return false
	}
	x, ok := sel.X.(*ast.Ident)
	return ok && x.Name == "sync" && (sel.Sel.Name == "Mutex" || sel.Sel.Name == "RWMutex")
}

func (v *vtWalker) shared(e ast.Expr) (*ast.Object, bool) {
	id, ok := unparen(e).(*ast.Ident)
	if !ok {
		return nil, false
	}
	obj := id.Obj
	if obj == nil || !v.vars[obj] || v.mutex[obj] || v.chans[obj] || v.lits[obj] != nil {
		return nil, false
	}
	return obj, true
}

// walk a statement/expression tree in source order, tracking bicLock.Lock()/defer Unlock() and recording reads and
// writes of the shared variables. Calls of local function literals are followed (once per caller, with the locks held).
func (v *vtWalker) walk(n ast.Node) {
	written := map[*ast.Ident]bool{}
	ast.Inspect(n, func(m ast.Node) bool {
		switch x := m.(type) {
		case *ast.GoStmt:
			// a goroutine started from here is its own entry; its arguments are evaluated here
			for _, a := range x.Call.Args {
				v.walk(a)
			}
			return false
		case *ast.FuncLit:
			// deferred / immediately invoked literals of this goroutine run in this goroutine
			return true
		case *ast.AssignStmt:
			for _, l := range x.Lhs {
				switch le := unparen(l).(type) {
				case *ast.Ident:
					if obj, ok := v.shared(le); ok {
						written[le] = true
						if x.Tok != token.ASSIGN && x.Tok != token.DEFINE {
							v.emit(le.Pos(), obj.Name, false)
						}
						v.emit(le.Pos(), obj.Name, true)
					}
				case *ast.IndexExpr:
					if id, ok := unparen(le.X).(*ast.Ident); ok {
						if obj, ok := v.shared(id); ok {
							written[id] = true
							v.emit(id.Pos(), obj.Name, false)
							v.emit(le.Pos(), obj.Name+"[]", true)
						}
					}
				}
			}
		case *ast.IncDecStmt:
			if id, ok := unparen(x.X).(*ast.Ident); ok {
				if obj, ok := v.shared(id); ok {
					written[id] = true
					v.emit(id.Pos(), obj.Name, false)
					v.emit(id.Pos(), obj.Name, true)
				}
			}
		case *ast.IndexExpr:
			if id, ok := unparen(x.X).(*ast.Ident); ok && !written[id] {
				if obj, ok := v.shared(id); ok {
					if v.maps[obj] {
						v.emit(x.Pos(), obj.Name+"[]", false)
					}
				}
			}
		case *ast.UnaryExpr:
			if x.Op == token.AND {
				if obj, ok := v.shared(x.X); ok {
					v.w.fail(x.Pos(), "ValidateTransactions", "address of shared variable "+obj.Name+" taken")
				}
			}
		case *ast.CallExpr:
			// lock operations on local mutexes
			if sel, ok := unparen(x.Fun).(*ast.SelectorExpr); ok {
				if id, ok := unparen(sel.X).(*ast.Ident); ok {
					if obj := id.Obj; obj != nil && v.mutex[obj] {
						switch sel.Sel.Name {
						case "Lock":
							v.locks["VT."+obj.Name] = true
						case "Unlock":
							// `defer m.Unlock()` keeps the lock to the end of the literal; an explicit Unlock releases it
							if !v.deferredCall(n, x) {
								delete(v.locks, "VT."+obj.Name)
							}
						default:
							v.w.fail(x.Pos(), "ValidateTransactions", sel.Sel.Name+" on "+obj.Name)
						}
						return false
					}
				}
			}
			if id, ok := unparen(x.Fun).(*ast.Ident); ok {
				if obj := id.Obj; obj != nil && v.lits[obj] != nil {
					// call of a local function literal: runs here with the locks held here
					key := v.fnName + ">" + obj.Name
					if !v.seenCall[key] {
						v.seenCall[key] = true
						callee := "VT." + obj.Name
						ls := []lk{}
						for n := range v.locks {
							ls = append(ls, lk{Name: n, Excl: true})
						}
						_, line := v.w.rel(x.Pos())
						v.calls = append(v.calls, call{Caller: v.fnName, Callee: callee, Locks: ls, Same: true, Line: line})
						if !v.seenCall["body:"+callee] {
							v.seenCall["body:"+callee] = true
							savedName, savedLocks := v.fnName, v.locks
							v.fnName, v.locks = callee, map[string]bool{}
							v.walk(v.lits[obj].Body)
							v.fnName, v.locks = savedName, savedLocks
						}
					}
				}
			}
		case *ast.Ident:
			if obj, ok := v.shared(x); ok && !written[x] && obj.Decl != nil {
				// the declaring occurrence itself is not a read
				if !isDeclIdent(obj, x) {
					v.emit(x.Pos(), obj.Name, false)
				}
			}
		}
		return true
	})
	// a literal walked as a callee must not leave a lock behind except through defer (checked by construction:
	// locks acquired inside are dropped with the callee's lock map)
}

// deferredCall: is call c the call of a defer statement somewhere under root?
func (v *vtWalker) deferredCall(root ast.Node, c *ast.CallExpr) bool {
	found := false
	ast.Inspect(root, func(m ast.Node) bool {
		if d, ok := m.(*ast.DeferStmt); ok && d.Call == c {
			found = true
		}
		return !found
	})
	return found
}

func isDeclIdent(obj *ast.Object, id *ast.Ident) bool {
	switch d := obj.Decl.(type) {
	case *ast.ValueSpec:
		for _, n := range d.Names {
			if n == id {
				return true
			}
		}
	case *ast.AssignStmt:
		for _, l := range d.Lhs {
			if l == id {
				return true
			}
		}
	}
	return false
}
