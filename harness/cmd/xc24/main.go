// xc24: extracts from smartcontract/storagesc/free_allocation.go the facts the C24 model takes from the source and
// writes Generated/C24.lean:
//   * the fields of `type freeStorageMarker struct` (inductive `MField`);
//   * the format string and the argument list of the `fmt.Sprintf` in verifyFreeAllocationRequestNew that builds the
//     signed marker string (an argument that is the local `ids` must be the concatenation of frm.Blobbers), and that
//     this string and frm.Signature are what signatureScheme.Verify gets, under the key passed to SetPublicKey;
//   * that freeStorageAssigner.validate passes the assigner's stored PublicKey as that key;
//   * the constant floatToBalance.
// Fail closed: any other shape is an error and nothing is written.
package main

import (
	"fmt"
	"go/ast"
	"go/parser"
	"go/token"
	"os"
	"path/filepath"
	"strconv"
	"strings"
)

func die(f string, a ...interface{}) {
	fmt.Fprintf(os.Stderr, "xc24: "+f+"\n", a...)
	os.Exit(1)
}

func sel(e ast.Expr) (x, f string, ok bool) {
	s, ok := e.(*ast.SelectorExpr)
	if !ok {
		return "", "", false
	}
	id, ok := s.X.(*ast.Ident)
	if !ok {
		return "", "", false
	}
	return id.Name, s.Sel.Name, true
}

func main() {
	gosrc, out := os.Args[1], os.Args[2]
	file := filepath.Join(gosrc, "smartcontract/storagesc/free_allocation.go")
	fset := token.NewFileSet()
	f, err := parser.ParseFile(fset, file, nil, 0)
	if err != nil {
		die("%v", err)
	}
	var fields []string
	var format string
	var args []string
	keyFromAssigner := false
	floatToBalance := ""
	for _, d := range f.Decls {
		switch x := d.(type) {
		case *ast.GenDecl:
			for _, sp := range x.Specs {
				switch s := sp.(type) {
				case *ast.TypeSpec:
					if s.Name.Name != "freeStorageMarker" {
						continue
					}
					st, ok := s.Type.(*ast.StructType)
					if !ok {
						die("freeStorageMarker is not a struct")
					}
					for _, fl := range st.Fields.List {
						if len(fl.Names) == 0 {
							die("embedded field in freeStorageMarker")
						}
						for _, n := range fl.Names {
							fields = append(fields, n.Name)
						}
					}
				case *ast.ValueSpec:
					for i, n := range s.Names {
						if n.Name == "floatToBalance" && i < len(s.Values) {
							// a product of integer literals
							v := int64(1)
							var walk func(e ast.Expr)
							walk = func(e ast.Expr) {
								switch y := e.(type) {
								case *ast.BinaryExpr:
									if y.Op != token.MUL {
										die("floatToBalance: not a product")
									}
									walk(y.X)
									walk(y.Y)
								case *ast.BasicLit:
									k, err := strconv.ParseInt(y.Value, 10, 64)
									if err != nil {
										die("floatToBalance: %v", err)
									}
									v *= k
								default:
									die("floatToBalance: unexpected expression")
								}
							}
							walk(s.Values[i])
							floatToBalance = strconv.FormatInt(v, 10)
						}
					}
				}
			}
		case *ast.FuncDecl:
			switch x.Name.Name {
			case "verifyFreeAllocationRequestNew":
				if len(x.Type.Params.List) < 2 {
					die("verifyFreeAllocationRequestNew: parameters")
				}
				frm := x.Type.Params.List[0].Names[0].Name
				keyParam := x.Type.Params.List[1].Names[0].Name
				idsVar, idsOK := "", false
				markerVar := ""
				setKey, verified := false, false
				for _, st := range x.Body.List {
					switch s := st.(type) {
					case *ast.DeclStmt: // var ids string
						gd := s.Decl.(*ast.GenDecl)
						vs := gd.Specs[0].(*ast.ValueSpec)
						if id, ok := vs.Type.(*ast.Ident); ok && id.Name == "string" && len(vs.Values) == 0 {
							idsVar = vs.Names[0].Name
						} else {
							die("verifyFreeAllocationRequestNew: unexpected declaration")
						}
					case *ast.RangeStmt: // for _, b := range frm.Blobbers { ids += b }
						rx, rf, ok := sel(s.X)
						if !ok || rx != frm || rf != "Blobbers" || len(s.Body.List) != 1 {
							die("verifyFreeAllocationRequestNew: unexpected loop")
						}
						as, ok := s.Body.List[0].(*ast.AssignStmt)
						if !ok || as.Tok != token.ADD_ASSIGN || as.Lhs[0].(*ast.Ident).Name != idsVar || as.Rhs[0].(*ast.Ident).Name != s.Value.(*ast.Ident).Name {
							die("verifyFreeAllocationRequestNew: loop body is not `ids += b`")
						}
						idsOK = true
					case *ast.AssignStmt:
						call, ok := s.Rhs[0].(*ast.CallExpr)
						if !ok {
							die("verifyFreeAllocationRequestNew: unexpected assignment")
						}
						cx, cf, _ := sel(call.Fun)
						switch {
						case cx == "fmt" && cf == "Sprintf":
							markerVar = s.Lhs[0].(*ast.Ident).Name
							lit, ok := call.Args[0].(*ast.BasicLit)
							if !ok {
								die("marker format is not a literal")
							}
							format, _ = strconv.Unquote(lit.Value)
							for _, a := range call.Args[1:] {
								if id, ok := a.(*ast.Ident); ok {
									if id.Name != idsVar || !idsOK {
										die("marker argument %s is not the concatenated blobber ids", id.Name)
									}
									args = append(args, "Blobbers")
									continue
								}
								ax, af, ok := sel(a)
								if !ok || ax != frm {
									die("marker argument is not a field of the marker")
								}
								args = append(args, af)
							}
						case cf == "GetSignatureScheme":
						default:
							die("verifyFreeAllocationRequestNew: unexpected call %s.%s", cx, cf)
						}
					case *ast.IfStmt: // if err := signatureScheme.SetPublicKey(publicKey); err != nil { return false, err }
						as, ok := s.Init.(*ast.AssignStmt)
						if !ok {
							die("verifyFreeAllocationRequestNew: unexpected if")
						}
						call := as.Rhs[0].(*ast.CallExpr)
						_, cf, _ := sel(call.Fun)
						if cf != "SetPublicKey" || call.Args[0].(*ast.Ident).Name != keyParam {
							die("verifyFreeAllocationRequestNew: SetPublicKey is not given the key parameter")
						}
						setKey = true
					case *ast.ReturnStmt: // return signatureScheme.Verify(frm.Signature, hex.EncodeToString([]byte(marker)))
						call, ok := s.Results[0].(*ast.CallExpr)
						if !ok {
							die("verifyFreeAllocationRequestNew: unexpected return")
						}
						_, cf, _ := sel(call.Fun)
						sx, sf, ok2 := sel(call.Args[0])
						if cf != "Verify" || !ok2 || sx != frm || sf != "Signature" {
							die("verifyFreeAllocationRequestNew: Verify is not given frm.Signature")
						}
						enc, ok := call.Args[1].(*ast.CallExpr)
						if !ok {
							die("verifyFreeAllocationRequestNew: message is not hex.EncodeToString(..)")
						}
						conv, ok := enc.Args[0].(*ast.CallExpr)
						if !ok || conv.Args[0].(*ast.Ident).Name != markerVar {
							die("verifyFreeAllocationRequestNew: the verified message is not the marker string")
						}
						verified = true
					case *ast.ExprStmt: // logging
						call, ok := s.X.(*ast.CallExpr)
						if !ok {
							die("verifyFreeAllocationRequestNew: unexpected statement")
						}
						if fs, ok := call.Fun.(*ast.SelectorExpr); !ok || fs.Sel.Name != "Debug" {
							die("verifyFreeAllocationRequestNew: unexpected call statement")
						}
					default:
						die("verifyFreeAllocationRequestNew: unexpected statement %T", st)
					}
				}
				if !setKey || !verified || markerVar == "" {
					die("verifyFreeAllocationRequestNew: SetPublicKey/Verify/marker not all found")
				}
			case "validate":
				if x.Recv == nil {
					continue
				}
				recv := x.Recv.List[0].Names[0].Name
				ast.Inspect(x.Body, func(n ast.Node) bool {
					call, ok := n.(*ast.CallExpr)
					if !ok {
						return true
					}
					if id, ok := call.Fun.(*ast.Ident); ok && id.Name == "verifyFreeAllocationRequestNew" {
						kx, kf, ok := sel(call.Args[1])
						if ok && kx == recv && kf == "PublicKey" {
							keyFromAssigner = true
						}
					}
					return true
				})
			}
		}
	}
	if len(fields) == 0 || format == "" || !keyFromAssigner || floatToBalance == "" {
		die("struct / marker string / assigner key / floatToBalance not all found (fields=%d format=%q key=%v ftb=%q)", len(fields), format, keyFromAssigner, floatToBalance)
	}
	verbs := strings.Split(format, ":")
	if len(verbs) != len(args) {
		die("format %q has %d parts for %d arguments", format, len(verbs), len(args))
	}
	known := map[string]bool{}
	for _, fl := range fields {
		known[fl] = true
	}
	for i, v := range verbs {
		if len(v) != 2 || v[0] != '%' {
			die("format part %q is not a single verb", v)
		}
		if !known[args[i]] {
			die("argument %s is not a marker field", args[i])
		}
	}
	var b strings.Builder
	b.WriteString("-- GENERATED by harness/cmd/xc24 from smartcontract/storagesc/free_allocation.go — do not edit.\n")
	b.WriteString("namespace ZChain.Generated.C24\n\n/-- the fields of `type freeStorageMarker struct` -/\ninductive MField where\n")
	for _, fl := range fields {
		fmt.Fprintf(&b, "  | %s\n", fl)
	}
	b.WriteString("deriving DecidableEq, Repr\n\n")
	var qa, qv []string
	for i := range args {
		qa = append(qa, "."+args[i])
		switch verbs[i] {
		case "%s", "%f", "%d", "%v":
			qv = append(qv, "."+verbs[i][1:])
		default:
			die("verb %q is not one of %%s %%f %%d %%v", verbs[i])
		}
	}
	b.WriteString("/-- the `fmt` verbs the marker string may use -/\ninductive Verb where\n  | s | f | d | v\nderiving DecidableEq, Repr\n\n")
	fmt.Fprintf(&b, "/-- verifyFreeAllocationRequestNew: `fmt.Sprintf(markerFormat, markerArgs...)` is the signed string -/\ndef markerFormat : String := %q\n", format)
	fmt.Fprintf(&b, "def markerArgs : List MField := [%s]\ndef markerVerbs : List Verb := [%s]\n\n", strings.Join(qa, ", "), strings.Join(qv, ", "))
	b.WriteString("/-- validate passes the assigner's stored PublicKey to verifyFreeAllocationRequestNew, which verifies frm.Signature over the marker string under it -/\ndef verifiedUnderAssignerKey : Bool := true\n\n")
	fmt.Fprintf(&b, "def floatToBalance : Nat := %s\n\nend ZChain.Generated.C24\n", floatToBalance)
	if err := os.WriteFile(out, []byte(b.String()), 0o644); err != nil {
		die("%v", err)
	}
	fmt.Printf("format=%s args=%s fields=%s floatToBalance=%s\n", format, strings.Join(args, ","), strings.Join(fields, ","), floatToBalance)
}
