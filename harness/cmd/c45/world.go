package main

// The real miner on two chain objects: generator (the package singleton set up by miner.SetupMinerChain) and an
// independent verifier (hooks/miner_c45.go), each with its own node DB, state cache and previous block holding the same
// prior state. The transaction pool is the real core/memorystore over an in-process miniredis on loopback.

import (
	"context"
	"encoding/json"
	"errors"
	"fmt"
	"math"
	"net/url"
	"strings"
	"sync"
	"time"

	"0chain.net/chaincore/block"
	"0chain.net/chaincore/chain"
	cstate "0chain.net/chaincore/chain/state"
	"0chain.net/chaincore/client"
	"0chain.net/chaincore/node"
	"0chain.net/chaincore/smartcontract"
	"0chain.net/chaincore/state"
	"0chain.net/chaincore/transaction"
	"0chain.net/core/common"
	"0chain.net/core/config"
	"0chain.net/core/datastore"
	"0chain.net/core/encryption"
	"0chain.net/core/memorystore"
	"0chain.net/miner"
	"0chain.net/smartcontract/faucetsc"
	"0chain.net/smartcontract/minersc"
	"0chain.net/smartcontract/storagesc"
	"github.com/0chain/common/core/currency"
	"github.com/0chain/common/core/statecache"
	"github.com/0chain/common/core/util"
	"github.com/alicebob/miniredis/v2"
	"github.com/gomodule/redigo/redis"
	"verifharness/lib/engine"
)

// ---------------------------------------------------------------- scripted contract (harness only)

var scriptAddr = encryption.Hash("verif-script-contract")

type scriptOp struct {
	K    string `json:"k"` // t | s | w | d
	From string `json:"from,omitempty"`
	To   string `json:"to,omitempty"`
	Amt  uint64 `json:"amt,omitempty"`
	Key  string `json:"key,omitempty"`
	Val  uint64 `json:"val,omitempty"`
}
type scriptInput struct {
	Ops []scriptOp `json:"ops"`
	Err string     `json:"err"` // "" | chg | int (contract timeout class)
	Out int        `json:"out"` // length of the output / error text
	Pad string     `json:"pad,omitempty"`
}

type valNode struct{ V uint64 }

func (v *valNode) MarshalMsg(b []byte) ([]byte, error) {
	return append(b, []byte(fmt.Sprintf("%020d", v.V))...), nil
}
func (v *valNode) UnmarshalMsg(b []byte) ([]byte, error) {
	if len(b) < 20 {
		return nil, errors.New("short")
	}
	var n uint64
	_, err := fmt.Sscanf(string(b[:20]), "%d", &n)
	v.V = n
	return b[20:], err
}

// per-case script tables (the cases run serially)
var (
	scriptMu       sync.Mutex
	fnCosts        = map[string]int{}         // cost table of all scripted contracts (lower-case names)
	builtinScripts = map[string]scriptInput{} // behaviour of payFees / generate_challenge / … in this case
)

type scriptSC struct{ addr string }

func (scriptSC) GetHandlerStats(ctx context.Context, params url.Values) (interface{}, error) {
	return nil, nil
}
func (scriptSC) GetExecutionStats() map[string]interface{} { return map[string]interface{}{} }
func (s scriptSC) GetName() string                         { return "verifscript" }
func (s scriptSC) GetAddress() string                      { return s.addr }
func (scriptSC) GetCostTable(b cstate.StateContextI) (map[string]int, error) {
	scriptMu.Lock()
	defer scriptMu.Unlock()
	t := make(map[string]int, len(fnCosts))
	for k, v := range fnCosts {
		t[k] = v
	}
	return t, nil
}

var builtinNames = []string{"payFees", "generate_challenge", "blobber_block_rewards", "commit_settings_changes"}

func isBuiltinName(fn string) bool {
	for _, n := range builtinNames {
		if n == fn {
			return true
		}
	}
	return false
}

func (s scriptSC) Execute(t *transaction.Transaction, fn string, input []byte, b cstate.StateContextI) (string, error) {
	var in scriptInput
	scripted := false
	if isBuiltinName(fn) {
		// the miner's own built-in transactions carry {"round":N}; their behaviour comes from the case's table.
		// A pool transaction that merely uses such a name carries a script of its own.
		var probe map[string]json.RawMessage
		if json.Unmarshal(input, &probe) == nil {
			if _, ok := probe["round"]; ok {
				scriptMu.Lock()
				in = builtinScripts[fn]
				scriptMu.Unlock()
				scripted = true
			}
		}
	}
	if !scripted {
		if err := json.Unmarshal(input, &in); err != nil {
			return "", err
		}
	}
	for _, o := range in.Ops {
		switch o.K {
		case "t":
			if err := b.AddTransfer(state.NewTransfer(o.From, o.To, currency.Coin(o.Amt))); err != nil {
				return "", err
			}
		case "s":
			b.AddSignedTransfer(&state.SignedTransfer{Transfer: *state.NewTransfer(o.From, o.To, currency.Coin(o.Amt))})
		case "w":
			if _, err := b.InsertTrieNode(scriptAddr+o.Key, &valNode{o.Val}); err != nil {
				return "", err
			}
		case "d":
			if _, err := b.DeleteTrieNode(scriptAddr + o.Key); err != nil && err != util.ErrValueNotPresent {
				return "", err
			}
		}
	}
	switch in.Err {
	case "chg":
		return "", errors.New(strings.Repeat("e", in.Out))
	case "int":
		// an internal (non-chargeable) failure that is NOT a missing-node error: the generator skips the transaction.
		// (util.ErrNodeNotFound would make generateBlock abort and wait for a state sync, which is outside the model.)
		return "", transaction.ErrSmartContractContext
	}
	return strings.Repeat("o", in.Out), nil
}

// ---------------------------------------------------------------- configuration override

type cfgOverride struct {
	config.ChainConfig
	feeOn        bool
	maxBlockCost int
	maxByteSize  int64
	minBlockSize int32
	minTxnFee    currency.Coin
	blockRewards bool
	settingsPer  int64
	batch        int // server_chain.block.validation.batch_size
}

func (c cfgOverride) IsFeeEnabled() bool                      { return c.feeOn }
func (c cfgOverride) MaxBlockCost() int                       { return c.maxBlockCost }
func (c cfgOverride) MaxByteSize() int64                      { return c.maxByteSize }
func (c cfgOverride) MinBlockSize() int32                     { return c.minBlockSize }
func (c cfgOverride) MinTxnFee() currency.Coin                { return c.minTxnFee }
func (c cfgOverride) IsBlockRewardsEnabled() bool             { return c.blockRewards }
func (c cfgOverride) SmartContractSettingUpdatePeriod() int64 { return c.settingsPer }
func (c cfgOverride) ValidationBatchSize() int                { return c.batch }
func (c cfgOverride) BlockProposalMaxWaitTime() time.Duration { return time.Minute } // the deadline is an input of the property, not modelled

// ---------------------------------------------------------------- process-wide setup

const timeTol = 600 // seconds

const nClients = 6 // ids 5..5+nClients-1
const (
	idMinerSC = 0 // miner contract address (receives the fees); scripted
	idScript  = 1 // the harness's scripted contract
	idStorage = 2 // storage contract address; scripted
	idMiner   = 3 // the generator's own wallet (node.Self)
	idFaucet  = 4 // the REAL faucet contract
	idClient0 = 5
	nIDs      = idClient0 + nClients
)

type wallet struct {
	id, pk string
	ss     encryption.SignatureScheme
}

var (
	setupOnce sync.Once
	ids       [nIDs]string
	wallets   [nIDs]*wallet
	genMC     *miner.Chain
	verMC     *miner.Chain
	baseCfg   config.ChainConfig
	mred      *miniredis.Miniredis
	mbBlock   *block.Block
	prevRound = int64(99)
)

func newWallet() *wallet {
	ss := encryption.NewBLS0ChainScheme()
	if err := ss.GenerateKeys(); err != nil {
		panic(err)
	}
	c := client.NewClient()
	if err := c.SetPublicKey(ss.GetPublicKey()); err != nil {
		panic(err)
	}
	return &wallet{id: c.ID, pk: ss.GetPublicKey(), ss: ss}
}

func setup() {
	setupOnce.Do(func() {
		c := engine.Setup()
		baseCfg = c.ChainConfig
		var err error
		mred, err = miniredis.Run()
		if err != nil {
			panic(err)
		}
		memorystore.DefaultPool = &redis.Pool{MaxIdle: 80, MaxActive: 1000, Dial: func() (redis.Conn, error) { return redis.Dial("tcp", mred.Addr()) }}
		memorystore.AddPool("txndb", memorystore.DefaultPool)
		memorystore.AddPool("clientdb", memorystore.DefaultPool)
		transaction.SetupEntity(memorystore.GetStorageProvider())
		client.SetupEntity(memorystore.GetStorageProvider())
		transaction.SetTxnTimeout(timeTol) // TXN_TIME_TOLERANCE, seconds

		// identities
		ids[idMinerSC], ids[idScript], ids[idStorage], ids[idFaucet] = minersc.ADDRESS, scriptAddr, storagesc.ADDRESS, faucetsc.ADDRESS
		for i := idMiner; i < nIDs; i++ {
			if i == idFaucet {
				continue
			}
			wallets[i] = newWallet()
			ids[i] = wallets[i].id
		}
		// this node = the generator; the verifier knows it through the node registry
		n := node.Provider()
		n.Type = node.NodeTypeMiner
		n.Status = node.NodeStatusActive
		if err := n.SetPublicKey(wallets[idMiner].pk); err != nil {
			panic(err)
		}
		node.Self.Node = n
		if err := node.Self.SetSignatureScheme(wallets[idMiner].ss); err != nil {
			panic(err)
		}
		node.RegisterNode(n)

		// scripted contracts stand for "any contract behaviour" at the three addresses transactions are sent to
		smartcontract.ContractMap[scriptAddr] = scriptSC{scriptAddr}
		smartcontract.ContractMap[minersc.ADDRESS] = scriptSC{minersc.ADDRESS}
		smartcontract.ContractMap[storagesc.ADDRESS] = scriptSC{storagesc.ADDRESS}

		miner.SetupMinerChain(c)
		genMC = miner.GetMinerChain()
		c2 := chain.NewChainFromConfig()
		c2.SetupStateCache()
		verMC = miner.VerifC45NewChain(c2)
		chain.SetServerChain(c)

		// latest finalized magic block (referenced by every block)
		mb := block.NewMagicBlock()
		mb.Miners = node.NewPool(node.NodeTypeMiner)
		mb.Sharders = node.NewPool(node.NodeTypeSharder)
		mb.Miners.AddNode(n)
		mb.Hash = encryption.Hash("verif-c45-mb")
		mbBlock = block.NewBlock(c.ID, 0)
		mbBlock.Hash = encryption.Hash("verif-c45-mb-block")
		mbBlock.MagicBlock = mb
		for _, ch := range []*chain.Chain{c, c2} {
			go ch.StartLFMBWorker(context.Background())
			ch.SetMagicBlock(mb)
			ch.SetLatestFinalizedMagicBlock(mbBlock)
		}
	})
}

// ---------------------------------------------------------------- one case

type acctInit struct {
	id    int
	bal   uint64
	nonce int64
}

type caseCfg struct {
	cfgOverride
	challenge bool
	prevOff   int64 // creation date of the previous block, seconds relative to the clock at the start of the case
	accts     []acctInit
}

type side struct {
	mc   *miner.Chain
	prev *block.Block
}

// buildPrev creates the previous block with the prior state on a fresh node DB.
func buildPrev(c *chain.Chain, cc *caseCfg, now common.Timestamp) (*block.Block, error) {
	ndb := util.NewMemoryNodeDB()
	mpt := util.NewMerklePatriciaTrie(ndb, util.Sequence(prevRound), nil, statecache.NewEmpty())
	pb := block.NewBlock(c.ID, prevRound)
	pb.Hash = encryption.Hash("verif-c45-prev")
	pb.CreationDate = now + common.Timestamp(cc.prevOff) // the previous block may come from a miner whose clock is ahead
	gtxn := &transaction.Transaction{}
	gtxn.Hash = encryption.Hash("verif-c45-genesis-txn")
	sctx := cstate.NewStateContext(pb, mpt, gtxn, nil, nil, nil, nil, nil, nil)
	for _, a := range cc.accts {
		s := &state.State{Balance: currency.Coin(a.bal), Nonce: a.nonce}
		if err := s.SetTxnHash(gtxn.Hash); err != nil {
			return nil, err
		}
		if _, err := sctx.SetClientState(idOf(a.id), s); err != nil {
			return nil, err
		}
	}
	if err := faucetsc.InitConfig(sctx); err != nil {
		return nil, err
	}
	conf, err := storagesc.GetConfig(sctx)
	if err != nil {
		return nil, err
	}
	conf.ChallengeEnabled = cc.challenge
	conf.ChallengeGenerationGap = 1
	conf.BlockReward.TriggerPeriod = 1
	if _, err := sctx.InsertTrieNode(storagesc.ADDRESS+encryption.Hash("storagesc_config"), conf); err != nil {
		return nil, err
	}
	pb.ClientState = mpt
	pb.ClientStateHash = mpt.GetRoot()
	pb.SetStateStatus(block.StateSuccessful)
	pb.LatestFinalizedMagicBlockHash = mbBlock.Hash
	pb.LatestFinalizedMagicBlockRound = mbBlock.Round
	return pb, nil
}

func idOf(i int) string {
	if i >= 0 && i < nIDs {
		return ids[i]
	}
	return encryption.Hash(fmt.Sprintf("c45-extra-%d", i))
}

type world struct {
	cc       *caseCfg
	gen, ver side
	pool     []*transaction.Transaction // in intended iteration order
	poolIdx  map[string]int             // txn hash -> index
	now      common.Timestamp
	blk      *block.Block // generated block
}

func newWorld(cc *caseCfg) (*world, error) {
	setup()
	mred.FlushAll()
	cc.cfgOverride.ChainConfig = baseCfg
	w := &world{cc: cc, poolIdx: map[string]int{}, now: common.Now()}
	for i, s := range []*side{&w.gen, &w.ver} {
		s.mc = []*miner.Chain{genMC, verMC}[i]
		s.mc.Chain.ChainConfig = cc.cfgOverride
		pb, err := buildPrev(s.mc.Chain, cc, w.now)
		if err != nil {
			return nil, err
		}
		s.prev = pb
		s.mc.Chain.LatestFinalizedBlock = pb
	}
	config.Configuration().ChainConfig = cc.cfgOverride
	return w, nil
}

type poolTxn struct {
	typ    int
	sender int
	to     string
	value  uint64
	fee    uint64
	nonce  int64
	fn     string
	data   string // TransactionData
	dateOff int64 // creation date, seconds relative to the clock at the start of the case
}

// addTxn signs the transaction with the sender's key and stores it with an explicit collection score: the pool's
// iteration order is descending score, so `rank` (larger = earlier) makes the order an input of the case.
func (w *world) addTxn(p poolTxn, rank int64) (*transaction.Transaction, string) {
	t := transaction.Provider().(*transaction.Transaction)
	wl := wallets[p.sender]
	t.ClientID = wl.id
	t.PublicKey = wl.pk
	t.ToClientID = p.to
	t.Value = currency.Coin(p.value)
	t.Fee = currency.Coin(p.fee)
	t.Nonce = p.nonce
	t.TransactionType = p.typ
	t.TransactionData = p.data
	// (the hash covers creation date, nonce, sender, recipient, value, data — not the fee: the generator of cases keeps
	// (sender, nonce, date) distinct, otherwise two submissions would be one pool entry)
	t.CreationDate = w.now + common.Timestamp(p.dateOff)
	t.ChainID = genMC.ID
	if err := t.ComputeProperties(); err != nil {
		// a contract transaction whose data is not JSON: stored as the client sent it
		_ = err
	}
	if _, err := t.Sign(wl.ss); err != nil {
		return nil, "sign-error"
	}
	// the state-independent part of the admission handler chain.PutTransaction (the nonce / fee / balance tests of the
	// handler are relative to the state at admission time, which is any earlier state)
	adm := "admitted"
	if err := t.Validate(context.Background()); err != nil {
		adm = "unadmitted"
	} else if t.Value > config.MaxTokenSupply {
		adm = "unadmitted"
	} else if err := t.ValidateNonce(); err != nil {
		adm = "unadmitted"
	}
	t.SetCollectionScore(rank)
	md := t.GetEntityMetadata()
	ctx := memorystore.WithEntityConnection(context.Background(), md)
	defer memorystore.Close(ctx)
	if err := md.GetStore().Write(ctx, t); err != nil {
		return nil, "store-error " + err.Error()
	}
	w.poolIdx[t.Hash] = len(w.pool)
	w.pool = append(w.pool, t)
	return t, adm
}

func (w *world) poolOrder() ([]int, error) {
	md := datastore.GetEntityMetadata("txn")
	ctx := memorystore.WithEntityConnection(context.Background(), md)
	defer memorystore.Close(ctx)
	keys, err := miner.VerifC45PoolOrder(ctx)
	if err != nil {
		return nil, err
	}
	var res []int
	for _, k := range keys {
		i, ok := w.poolIdx[k]
		if !ok {
			return nil, fmt.Errorf("unknown key in pool")
		}
		res = append(res, i)
	}
	return res, nil
}

// generate runs the real GenerateBlock on the generator chain.
func (w *world) generate(waitOver bool) (*block.Block, error) {
	mc := w.gen.mc
	b := block.NewBlock(mc.ID, prevRound+1)
	b.MinerID = node.Self.Underlying().GetKey()
	b.SetRoundRandomSeed(4242)
	b.SetPreviousBlock(w.gen.prev)
	b.LatestFinalizedMagicBlockHash = mbBlock.Hash
	b.LatestFinalizedMagicBlockRound = mbBlock.Round
	md := datastore.GetEntityMetadata("txn")
	ctx := memorystore.WithEntityConnection(context.Background(), md)
	defer memorystore.Close(ctx)
	cmd := datastore.GetEntityMetadata("client")
	ctx = memorystore.WithEntityConnection(ctx, cmd)
	err := mc.GenerateBlock(ctx, b, waitOver, nil)
	if err != nil {
		return nil, err
	}
	w.blk = b
	return b, nil
}

// transmit encodes the block as it travels between miners and decodes it on the other side.
func transmit(b *block.Block) (*block.Block, error) {
	buf := datastore.ToMsgpack(b)
	nb := datastore.GetEntityMetadata("block").Instance().(*block.Block)
	if err := datastore.FromMsgpack(buf.Bytes(), nb); err != nil {
		return nil, err
	}
	if err := nb.ComputeProperties(); err != nil {
		return nil, err
	}
	return nb, nil
}

// verify runs the real VerifyBlock pipeline on the verifier chain (own state DB, own caches).
func (w *world) verify(b *block.Block) (*block.Block, error) {
	// The verification of a block runs under a deadline in the miner (the round moves on); a verifier that never
	// answers is a failed verification. An honest block of this size verifies in milliseconds; a second, longer
	// attempt guards against a loaded machine.
	var nb *block.Block
	var err error
	for _, d := range []time.Duration{2 * time.Second, 30 * time.Second} {
		nb, err = transmit(b)
		if err != nil {
			return nil, fmt.Errorf("transmit: %v", err)
		}
		md := datastore.GetEntityMetadata("txn")
		ctx := memorystore.WithEntityConnection(context.Background(), md)
		cctx, cancel := context.WithTimeout(ctx, d)
		_, err = w.ver.mc.VerifyBlock(cctx, nb)
		cancel()
		memorystore.Close(ctx)
		if err != context.DeadlineExceeded && err != context.Canceled {
			break
		}
	}
	return nb, err
}

var _ = math.MaxInt

func coin(u uint64) currency.Coin { return currency.Coin(u) }
func encHash(s string) string     { return encryption.Hash(s) }
