// C45 harness: the real miner.GenerateBlock over the real transaction pool (core/memorystore on an in-process miniredis),
// then the real miner.VerifyBlock on a SECOND chain object holding the same prior state in its own node DB, against
// Model/BlockGen.lean (driver zdrv-C45), plus the property oracle. See world.go for the construction and
// lean/ZChain/Drv/C45.lean for the line protocol.
package main

import (
	"context"
	"encoding/json"
	"fmt"
	"math"
	"math/big"
	"math/rand"
	"sort"
	"strconv"
	"strings"

	"0chain.net/chaincore/block"
	"0chain.net/chaincore/chain"
	"0chain.net/chaincore/transaction"
	"0chain.net/miner"
	"github.com/0chain/common/core/util"
	"verifharness/lib/corr"
)

const nKeys = 3

func keyName(k uint64) string { return fmt.Sprintf(":k%d", k) }

var kindFn = map[string]string{"p": "payFees", "c": "generate_challenge", "r": "blobber_block_rewards", "s": "commit_settings_changes"}
var fnKind = map[string]string{"payFees": "p", "generate_challenge": "c", "blobber_block_rewards": "r", "commit_settings_changes": "s"}

// ---------------------------------------------------------------- op fields

func atKV(w []string) map[string]string {
	m := map[string]string{}
	for _, x := range w {
		if strings.HasPrefix(x, "@") {
			if i := strings.IndexByte(x, '='); i > 0 {
				m[x[1:i]] = x[i+1:]
			}
		}
	}
	return m
}

func plain(w []string) []string {
	var r []string
	for _, x := range w {
		if !strings.HasPrefix(x, "@") {
			r = append(r, x)
		}
	}
	return r
}

// scriptOf turns a `res` word (ok|…, chg|…, int, -) and an output length into the scripted contract's input.
func scriptOf(res string, out int, pad int) scriptInput {
	in := scriptInput{Out: out}
	parts := strings.SplitN(res, "|", 2)
	switch parts[0] {
	case "chg":
		in.Err = "chg"
	case "int", "-":
		in.Err = "int"
	}
	if len(parts) == 2 && parts[1] != "" {
		for _, o := range strings.Split(parts[1], ";") {
			f := strings.Split(o, ",")
			switch f[0] {
			case "t", "s":
				a, _ := strconv.Atoi(f[1])
				b, _ := strconv.Atoi(f[2])
				amt, _ := strconv.ParseUint(f[3], 10, 64)
				in.Ops = append(in.Ops, scriptOp{K: f[0], From: idOf(a), To: idOf(b), Amt: amt})
			case "w":
				k, _ := strconv.ParseUint(f[1], 10, 64)
				v, _ := strconv.ParseUint(f[2], 10, 64)
				in.Ops = append(in.Ops, scriptOp{K: "w", Key: keyName(k), Val: v})
			case "d":
				k, _ := strconv.ParseUint(f[1], 10, 64)
				in.Ops = append(in.Ops, scriptOp{K: "d", Key: keyName(k)})
			}
		}
	}
	if pad > 0 {
		in.Pad = strings.Repeat("p", pad)
	}
	return in
}

// buildData is the TransactionData of a pool transaction; generator (for `bytes`) and implementation share it.
func buildData(typ, fn, res string, out, pad int) string {
	if typ != "sc" {
		return strings.Repeat("d", pad)
	}
	b, _ := json.Marshal(scriptOf(res, out, pad))
	n, _ := json.Marshal(fn)
	return fmt.Sprintf(`{"name":%s,"input":%s}`, n, b)
}

// ---------------------------------------------------------------- implementation runner

type run struct {
	w     *world
	miner int
}

func (x *run) showState(st util.MerklePatriciaTrieI) string {
	var parts []string
	for i := 0; i <= nIDs; i++ {
		s, err := chain.GetStateById(st, idOf(i))
		if err == nil && s != nil {
			parts = append(parts, fmt.Sprintf("%d:%d:%d", i, uint64(s.Balance), s.Nonce))
		}
	}
	var sp []string
	for k := uint64(0); k < nKeys; k++ {
		var v valNode
		if err := st.GetNodeValue(util.Path(encHash(scriptAddr+keyName(k))), &v); err == nil {
			sp = append(sp, fmt.Sprintf("%d:%d", k, v.V))
		}
	}
	return "a=" + strings.Join(parts, ",") + " s=" + strings.Join(sp, ",")
}

func (x *run) showTxns(b *block.Block) string {
	var parts []string
	for _, t := range b.Txns {
		k := "?"
		if i, ok := x.w.poolIdx[t.Hash]; ok {
			k = strconv.Itoa(i)
		} else if l, ok := fnKind[t.FunctionName]; ok {
			k = "b" + l
			// ClientID is blanked in a generated block (the public key travels instead); a decoded block has it recomputed
			if t.PublicKey != wallets[idMiner].pk {
				k = "b?" + l
			}
		}
		st := "?"
		switch t.Status {
		case transaction.TxnSuccess:
			st = "s"
		case transaction.TxnError:
			st = "f"
		}
		parts = append(parts, fmt.Sprintf("%s:%s:%d", k, st, t.Nonce))
	}
	return "t=" + strings.Join(parts, ",")
}

var stats = map[string]int{}

func impl(ops []string) []string {
	outs := make([]string, len(ops))
	var x *run
	for i, op := range ops {
		all := strings.Fields(op)
		w := plain(all)
		kv := atKV(all)
		func() {
			defer func() {
				if r := recover(); r != nil {
					outs[i] = fmt.Sprintf("panic %v", r)
				}
			}()
			if len(w) == 0 {
				outs[i] = "bad-op"
				return
			}
			switch w[0] {
			case "init":
				if len(w) != 11 {
					outs[i] = "bad-op"
					return
				}
				cc := &caseCfg{}
				if tol, _ := strconv.Atoi(w[7]); tol != timeTol {
					outs[i] = "bad-op"
					return
				}
				cc.prevOff, _ = strconv.ParseInt(w[8], 10, 64)
				cc.batch, _ = strconv.Atoi(kv["batch"])
				if cc.batch <= 0 {
					cc.batch = 1000
				}
				cc.feeOn = w[1] == "1"
				cc.maxBlockCost, _ = strconv.Atoi(w[2])
				cc.maxByteSize, _ = strconv.ParseInt(w[3], 10, 64)
				mbs, _ := strconv.Atoi(w[4])
				cc.minBlockSize = int32(mbs)
				mf, _ := strconv.ParseUint(w[5], 10, 64)
				cc.minTxnFee = coin(mf)
				miner, _ := strconv.Atoi(w[6])
				if miner != idMiner {
					outs[i] = "bad-op"
					return
				}
				if w[9] != "-" {
					for _, a := range strings.Split(w[9], ",") {
						f := strings.Split(a, ":")
						id, _ := strconv.Atoi(f[0])
						b, _ := strconv.ParseUint(f[1], 10, 64)
						n, _ := strconv.ParseInt(f[2], 10, 64)
						cc.accts = append(cc.accts, acctInit{id, b, n})
					}
				}
				scriptMu.Lock()
				fnCosts = map[string]int{}
				for _, c := range strings.Split(kv["costs"], ",") {
					f := strings.Split(c, ":")
					if len(f) == 2 {
						fnCosts[f[0]], _ = strconv.Atoi(f[1])
					}
				}
				builtinScripts = map[string]scriptInput{}
				kinds := map[string]bool{}
				if w[10] != "-" {
					for _, b := range strings.Split(w[10], "/") {
						f := strings.Split(b, "~")
						out, _ := strconv.Atoi(f[3])
						builtinScripts[kindFn[f[0]]] = scriptOf(f[2], out, 0)
						kinds[f[0]] = true
						// the generator's cost for a built-in transaction comes from the same cost table
						if c, err := strconv.Atoi(f[1]); err == nil {
							fnCosts[strings.ToLower(kindFn[f[0]])] = c
						}
					}
				}
				scriptMu.Unlock()
				// which built-in transactions buildInTxns creates: fee transaction iff fees are on; the others by configuration
				if kinds["p"] != cc.feeOn {
					outs[i] = "bad-op"
					return
				}
				cc.challenge = kinds["c"]
				cc.blockRewards = kinds["r"]
				if kinds["s"] {
					cc.settingsPer = 1
				}
				wd, err := newWorld(cc)
				if err != nil {
					outs[i] = "init-error " + err.Error()
					return
				}
				x = &run{w: wd, miner: miner}
				outs[i] = "ok"
			case "txn":
				if len(w) != 14 || x == nil {
					outs[i] = "bad-op"
					return
				}
				sender, _ := strconv.Atoi(w[2])
				to, _ := strconv.Atoi(w[3])
				value, _ := strconv.ParseUint(w[4], 10, 64)
				fee, _ := strconv.ParseUint(w[5], 10, 64)
				nonce, _ := strconv.ParseInt(w[6], 10, 64)
				bytes, _ := strconv.Atoi(w[9])
				out, _ := strconv.Atoi(w[10])
				pad, _ := strconv.Atoi(kv["pad"])
				typ := map[string]int{"send": transaction.TxnTypeSend, "data": transaction.TxnTypeData, "sc": transaction.TxnTypeSmartContract, "invalid": 77}[w[1]]
				data := buildData(w[1], kv["fn"], w[13], out, pad)
				if len(data) != bytes {
					outs[i] = fmt.Sprintf("harness-error bytes %d != %d", len(data), bytes)
					return
				}
				dateOff, _ := strconv.ParseInt(w[11], 10, 64)
				if sender < idMiner || sender >= nIDs || wallets[sender] == nil {
					outs[i] = "bad-op"
					return
				}
				_, adm := x.w.addTxn(poolTxn{typ: typ, sender: sender, to: idOf(to), value: value, fee: fee, nonce: nonce, fn: kv["fn"], data: data, dateOff: dateOff}, int64(1000000-len(x.w.pool)))
				stats[strings.Fields(adm)[0]]++
				if strings.HasPrefix(adm, "store-error") || adm == "sign-error" {
					outs[i] = "harness-error " + adm
					return
				}
				outs[i] = "ok"
			case "gen":
				if len(w) != 2 || x == nil {
					outs[i] = "bad-op"
					return
				}
				ord, err := x.w.poolOrder()
				if err != nil {
					outs[i] = "harness-error order " + err.Error()
					return
				}
				for k, v := range ord {
					if k != v {
						outs[i] = fmt.Sprintf("harness-error pool order %v", ord)
						return
					}
				}
				b, err := x.w.generate(w[1] == "1")
				if err != nil {
					x.w.blk = nil
					msg := err.Error()
					switch {
					case strings.Contains(msg, miner.InsufficientTxns):
						outs[i] = "gen-err insufficient"
					case strings.Contains(msg, "exceeds max token supply"):
						outs[i] = "gen-err iter"
					case strings.Contains(msg, "get build-in txns failed"):
						outs[i] = "gen-err bicost"
					default:
						outs[i] = "gen-err other:" + strings.ReplaceAll(msg, " ", "_")
					}
					return
				}
				// the block's date: raised to the previous block's date when that is ahead of this node's clock
				d := int64(0)
				if b.CreationDate == x.w.gen.prev.CreationDate {
					d = x.w.cc.prevOff
				} else if b.CreationDate < x.w.now || b.CreationDate > x.w.now+30 {
					d = int64(b.CreationDate) - int64(x.w.now)
				}
				outs[i] = fmt.Sprintf("gen-ok d=%d ", d) + x.showTxns(b) + " " + x.showState(b.ClientState)
			case "verify":
				if len(w) != 1 || x == nil {
					outs[i] = "bad-op"
					return
				}
				if x.w.blk == nil {
					outs[i] = "no-block"
					return
				}
				nb, err := x.w.verify(x.w.blk)
				if err != nil {
					msg := err.Error()
					switch {
					case err == context.DeadlineExceeded || err == context.Canceled:
						outs[i] = "verify-timeout"
					case strings.Contains(msg, "duplicate_transactions"):
						outs[i] = "fail dup"
					case strings.Contains(msg, "txn_validation_failed"):
						outs[i] = "fail txn"
					case err == block.ErrCostTooBig:
						outs[i] = "fail cost"
					case strings.Contains(msg, "state_update_error"):
						outs[i] = "fail state"
					case err == block.ErrStateMismatch:
						outs[i] = "fail root"
					case strings.Contains(msg, "txn_output_verification_failed"):
						outs[i] = "fail out"
					default:
						outs[i] = "fail other:" + strings.ReplaceAll(msg, " ", "_")
					}
					return
				}
				if string(nb.ClientState.GetRoot()) != string(x.w.blk.ClientState.GetRoot()) {
					outs[i] = "fail root-differs-unnoticed"
					return
				}
				if g, v := x.showTxns(x.w.blk), x.showTxns(nb); g != v {
					outs[i] = "fail statuses-differ " + v
					return
				}
				outs[i] = "ok " + x.showState(nb.ClientState)
			default:
				outs[i] = "bad-op"
			}
		}()
	}
	return outs
}

// ---------------------------------------------------------------- generator

const maxInt = math.MaxInt64

const faucetUnknown = "failed execution: no faucet smart contract method with name nosuchfn"

var exemptFns = map[string]bool{"contributeMpk": true, "shareSignsOrShares": true, "wait": true, "pour": true}

type gtxn struct {
	typ            string
	sender, to     int
	value, fee     uint64
	nonce          int64
	cost           string
	exempt         bool
	out            int
	created        int64
	bname          string
	res            string
	fn             string
	pad            int
	feeNeeded      uint64
	costN          int64
	scoreForSortBy uint64
}

func (t *gtxn) line() string {
	bytes := len(buildData(t.typ, t.fn, t.res, t.out, t.pad))
	ex := "0"
	if t.exempt {
		ex = "1"
	}
	return fmt.Sprintf("txn %s %d %d %d %d %d %s %s %d %d %d %s %s @fn=%s @pad=%d", t.typ, t.sender, t.to, t.value, t.fee, t.nonce, t.cost, ex, bytes, t.out, t.created, t.bname, t.res, t.fn, t.pad)
}

func feeOf(cost int64) uint64 {
	if cost < 0 || cost > 1000 {
		return 10000000000
	}
	return uint64(cost) * 10000000
}

func genRes(r *rand.Rand, sender int) string {
	kind := []string{"ok", "ok", "ok", "ok", "ok", "ok", "chg", "chg", "int"}[r.Intn(9)]
	var parts []string
	m := r.Intn(4)
	for j := 0; j < m; j++ {
		switch r.Intn(6) {
		case 0:
			parts = append(parts, fmt.Sprintf("w,%d,%d", r.Intn(nKeys), r.Intn(1000)))
		case 1:
			parts = append(parts, fmt.Sprintf("d,%d", r.Intn(nKeys)))
		case 2:
			parts = append(parts, fmt.Sprintf("s,%d,%d,%d", r.Intn(nIDs), r.Intn(nIDs+1), r.Intn(300)))
		default:
			src := r.Intn(nIDs)
			if r.Intn(2) == 0 {
				src = []int{sender, idScript}[r.Intn(2)]
			}
			parts = append(parts, fmt.Sprintf("t,%d,%d,%d", src, r.Intn(nIDs+1), r.Intn(300)))
		}
	}
	if len(parts) > 0 && kind != "int" {
		return kind + "|" + strings.Join(parts, ";")
	}
	return kind
}

func gen(r *rand.Rand, thorough bool, i int) []string {
	setup()
	feeOn := r.Intn(10) < 7
	maxCost := []int{30, 60, 200, 1000, 10000, 10000}[r.Intn(6)]
	maxBytes := []int{150, 400, 2000, 1638400, 1638400, 1638400}[r.Intn(6)]
	minSize := []int{1, 1, 1, 3, 8}[r.Intn(5)]
	minFee := []uint64{0, 0, 0, 50000000, 300000000}[r.Intn(5)]
	// cost table of the scripted contracts
	costs := map[string]int64{"f0": 0, "f1": 1, "f2": 10, "f3": 25, "f4": 100, "f5": 700, "pour": 30}
	fns := []string{"f0", "f1", "f1", "f2", "f2", "f2", "f3", "f3", "f4", "f5", "pour", "F2", "nofn"}
	// built-in transactions
	var bis []string
	biCost := map[string]int64{}
	for _, k := range []string{"p", "c", "r", "s"} {
		on := r.Intn(4) == 0
		if k == "p" {
			on = feeOn
		}
		if !on {
			continue
		}
		c := []int64{0, 1, 5, 20, 20, 100, 100}[r.Intn(7)]
		if r.Intn(25) == 0 {
			c = int64(maxCost) + int64(r.Intn(3)) - 1
		}
		res := genRes(r, idMiner)
		biCost[k] = c
		bis = append(bis, fmt.Sprintf("%s~%d~%s~%d", k, c, res, r.Intn(20)))
	}
	// accounts
	var accts []string
	cur := make([]int64, nIDs)
	for k := 0; k < nIDs; k++ {
		bal := uint64(1000000000000 + r.Int63n(1000000000000))
		switch r.Intn(10) {
		case 0:
			bal = 0
		case 1:
			bal = uint64(r.Intn(400000000))
		}
		n := int64(0)
		if r.Intn(3) == 0 {
			n = int64(r.Intn(5))
		}
		if k < idMiner {
			n = 0
		}
		if bal == 0 && n == 0 && r.Intn(2) == 0 {
			continue // no leaf at all
		}
		cur[k] = n
		accts = append(accts, fmt.Sprintf("%d:%d:%d", k, bal, n))
	}
	ctab := []string{}
	for k, v := range costs {
		ctab = append(ctab, fmt.Sprintf("%s:%d", k, v))
	}
	sort.Strings(ctab)
	a, b := "-", "-"
	if len(accts) > 0 {
		a = strings.Join(accts, ",")
	}
	if len(bis) > 0 {
		b = strings.Join(bis, "/")
	}
	fee01 := "0"
	if feeOn {
		fee01 = "1"
	}
	// creation date of the previous block relative to this node's clock: equal, ahead (a miner with a fast clock
	// produced it: the new block's date is raised to it) or behind
	prevOff := []int64{0, 0, -5, -300, 1, 120, 300, 300}[r.Intn(8)]
	blockD := prevOff
	if blockD < 0 {
		blockD = 0
	}
	// the verifier's validation batch size: small, so that block sizes at, below and above exact multiples occur all the time
	batch := []int{1, 2, 2, 3, 4, 4, 5, 1000}[r.Intn(8)]
	ops := []string{fmt.Sprintf("init %s %d %d %d %d %d %d %d %s %s @costs=%s @batch=%d", fee01, maxCost, maxBytes, minSize, minFee, idMiner, timeTol, prevOff, a, b, strings.Join(ctab, ","), batch)}
	usedDate := map[[3]int64]bool{}

	n := 3 + r.Intn(22)
	if thorough {
		n = 3 + r.Intn(50)
	}
	nameAsBuiltin := r.Intn(30) == 0
	var txns []*gtxn
	for k := 0; k < n; k++ {
		t := &gtxn{}
		t.sender = idClient0 + r.Intn(nClients)
		if r.Intn(12) == 0 {
			t.sender = idMiner // the generator's own wallet also submits transactions
		}
		t.typ = []string{"send", "send", "send", "sc", "sc", "sc", "sc", "sc", "data", "invalid"}[r.Intn(10)]
		if r.Intn(3) != 0 && t.typ == "invalid" {
			t.typ = "sc"
		}
		t.to = idClient0 + r.Intn(nClients)
		if r.Intn(8) == 0 {
			t.to = nIDs // an id without a leaf
		}
		for t.to == t.sender {
			t.to = idClient0 + r.Intn(nClients)
		}
		t.value = uint64(r.Intn(500))
		if r.Intn(60) == 0 {
			t.value = []uint64{4000000000000000000, 4000000000000000001, 1<<64 - 1}[r.Intn(3)]
		}
		t.res, t.fn, t.bname = "-", "-", "-"
		switch t.typ {
		case "send":
			t.costN, t.cost = 10, "10"
			t.pad = []int{0, 0, 0, 5, 40}[r.Intn(5)]
			if r.Intn(14) == 0 { // addressed to the sender itself (the admission handler refuses these; the generator must cope)
				t.to = t.sender
				if r.Intn(3) != 0 {
					t.value = 0
				}
			}
		case "data":
			t.costN, t.cost = 0, "0"
			t.pad = []int{0, 3, 20, 120}[r.Intn(4)]
			if r.Intn(14) == 0 {
				t.to = t.sender
			}
		case "invalid":
			t.cost = "x"
			t.pad = r.Intn(10)
		case "sc":
			t.to = []int{idScript, idScript, idScript, idScript, idMinerSC, idStorage}[r.Intn(6)]
			t.fn = fns[r.Intn(len(fns))]
			faucet := r.Intn(50) == 0
			if nameAsBuiltin && r.Intn(4) == 0 {
				t.fn = builtinNames[r.Intn(4)]
			}
			if r.Intn(40) == 0 {
				t.to = idClient0 + r.Intn(nClients) // not a contract: the estimate fails
				for t.to == t.sender {
					t.to = idClient0 + r.Intn(nClients)
				}
			}
			t.res = genRes(r, t.sender)
			t.out = r.Intn(30)
			if strings.HasPrefix(t.res, "int") {
				t.out = 0
			}
			t.pad = []int{0, 0, 0, 10, 100}[r.Intn(5)]
			if faucet {
				// the REAL faucet contract: an unknown method is a chargeable error with this text
				t.to, t.fn, t.res, t.out = idFaucet, "nosuchfn", "chg", len(faucetUnknown)
			}
			t.value = uint64(r.Intn(3)) * uint64(r.Intn(200))
			if l, ok := fnKind[t.fn]; ok {
				t.bname = l
			}
			t.exempt = exemptFns[t.fn]
			if t.to == idFaucet {
				t.costN, t.cost = maxInt, strconv.FormatInt(maxInt, 10)
			} else if t.to != idScript && t.to != idMinerSC && t.to != idStorage {
				t.cost = "x"
			} else {
				key := strings.ToLower(t.fn)
				c, ok := costs[key]
				if l, isb := fnKind[t.fn]; isb {
					// the built-in names are in the cost table only when this case has that built-in transaction
					c, ok = biCost[l]
					_ = key
				}
				if !ok {
					c = maxInt
				}
				t.costN, t.cost = c, strconv.FormatInt(c, 10)
			}
		}
		// fee: enough for the estimate most of the time
		need := feeOf(t.costN)
		if t.exempt || t.cost == "x" {
			need = 0
		}
		if minFee > need {
			need = minFee
		}
		t.feeNeeded = need
		switch r.Intn(12) {
		case 0:
			t.fee = 0
		case 1:
			if need > 0 {
				t.fee = need - 1
			}
		default:
			t.fee = need + uint64(r.Intn(5))*10000000
		}
		if !feeOn && r.Intn(2) == 0 {
			t.fee = uint64(r.Intn(3)) * 1000
		}
		// nonce stream per sender: next / gap / replay / far future / non-positive
		switch r.Intn(14) {
		case 0:
			t.nonce = cur[t.sender] // replay or same nonce again
		case 1:
			t.nonce = cur[t.sender] + 2
			cur[t.sender] += 2
		case 2:
			t.nonce = cur[t.sender] + 1 // same nonce as the next one will have: duplicate-nonce pair
		case 3:
			t.nonce = int64(r.Intn(4)) - 1
		case 4:
			if r.Intn(6) == 0 {
				t.nonce = []int64{math.MaxInt64, math.MinInt64, cur[t.sender] + 12}[r.Intn(3)]
			} else {
				t.nonce = cur[t.sender] + 1
				cur[t.sender]++
			}
		default:
			t.nonce = cur[t.sender] + 1
			cur[t.sender]++
		}
		// creation date: normally a few seconds old; sometimes around the edges of the BLOCK's tolerance window
		// (exact to the second when the block date is fixed by the previous block, with a margin when it is this node's clock)
		t.created = -int64(k + 1)
		if r.Intn(7) == 0 {
			if prevOff > 0 {
				t.created = []int64{blockD - timeTol - 1, blockD - timeTol, blockD - timeTol + 1, blockD + timeTol - 1, blockD + timeTol, blockD + timeTol + 1,
					-timeTol, -timeTol + 1, timeTol, timeTol + 1, blockD - timeTol - 150, blockD + timeTol - 200}[r.Intn(12)]
			} else {
				t.created = []int64{-timeTol - 40, -timeTol + 40, timeTol - 40, timeTol + 40, -timeTol - 1000, timeTol + 1000}[r.Intn(6)]
			}
		}
		for usedDate[[3]int64{int64(t.sender), t.nonce, t.created}] {
			t.created -= 2
		}
		usedDate[[3]int64{int64(t.sender), t.nonce, t.created}] = true
		txns = append(txns, t)
	}
	// pool order: by fee (what the real score gives when fees are on), by submission order, or shuffled
	switch r.Intn(3) {
	case 0:
		sort.SliceStable(txns, func(a, b int) bool { return txns[a].fee > txns[b].fee })
	case 1:
		r.Shuffle(len(txns), func(a, b int) { txns[a], txns[b] = txns[b], txns[a] })
	}
	for _, t := range txns {
		ops = append(ops, t.line())
	}
	wo := "1"
	if r.Intn(4) == 0 {
		wo = "0"
	}
	ops = append(ops, "gen "+wo, "verify")
	return ops
}

// ---------------------------------------------------------------- oracle: the property on the implementation's answers

type ent struct {
	key    string
	status string
	nonce  int64
}

func parseT(word string) ([]ent, bool) {
	s := strings.TrimPrefix(word, "t=")
	if s == "" {
		return nil, true
	}
	var res []ent
	for _, p := range strings.Split(s, ",") {
		f := strings.Split(p, ":")
		if len(f) != 3 {
			return nil, false
		}
		n, err := strconv.ParseInt(f[2], 10, 64)
		if err != nil {
			return nil, false
		}
		res = append(res, ent{f[0], f[1], n})
	}
	return res, true
}

func oracle(ops, outs []string) *corr.Violation {
	mk := func(sig, msg string, i int) *corr.Violation {
		return &corr.Violation{Signature: "C45:" + sig, Message: fmt.Sprintf("op %d %q: %s", i, ops[i], msg), Ops: ops[:i+1], Impl: outs[:i+1]}
	}
	var (
		initNonce map[int]int64
		maxCost   int64
		pool      [][]string
		biCosts   map[string]int64
		block     []ent
		blkMaxInt bool
		blkLate   string
		pending   *corr.Violation
		tol       int64
		prevOff   int64
		haveBlock bool
		genIdx    int
		known     *corr.Violation
	)
	for i, op := range ops {
		w := plain(strings.Fields(op))
		if len(w) == 0 || i >= len(outs) {
			continue
		}
		if strings.HasPrefix(outs[i], "harness-error") || strings.HasPrefix(outs[i], "panic") || strings.HasPrefix(outs[i], "init-error") {
			return mk("harness-failure", outs[i], i)
		}
		switch w[0] {
		case "init":
			if len(w) != 11 || outs[i] != "ok" {
				continue
			}
			tol, _ = strconv.ParseInt(w[7], 10, 64)
			prevOff, _ = strconv.ParseInt(w[8], 10, 64)
			initNonce = map[int]int64{}
			pool, biCosts, haveBlock = nil, map[string]int64{}, false
			maxCost, _ = strconv.ParseInt(w[2], 10, 64)
			if w[9] != "-" {
				for _, a := range strings.Split(w[9], ",") {
					f := strings.Split(a, ":")
					id, _ := strconv.Atoi(f[0])
					n, _ := strconv.ParseInt(f[2], 10, 64)
					initNonce[id] = n
				}
			}
			if w[10] != "-" {
				for _, b := range strings.Split(w[10], "/") {
					f := strings.Split(b, "~")
					c, _ := strconv.ParseInt(f[1], 10, 64)
					biCosts[f[0]] = c
				}
			}
		case "txn":
			if len(w) == 14 && outs[i] == "ok" {
				pool = append(pool, w)
			}
		case "gen":
			haveBlock = false
			f := strings.Fields(outs[i])
			if len(f) == 0 || f[0] != "gen-ok" {
				if strings.HasPrefix(outs[i], "gen-err other") {
					return mk("generation-failed-unexpectedly", outs[i], i)
				}
				continue
			}
			var ok bool
			if len(f) < 3 {
				return mk("unparsable-answer", outs[i], i)
			}
			block, ok = parseT(f[2])
			if !ok {
				return mk("unparsable-answer", outs[i], i)
			}
			haveBlock, genIdx = true, i
			// (0) the block's date is max(clock, previous block's date); every pool transaction in it is within the time
			// tolerance of THAT date (the verifier measures against it). When the date is this node's clock it is known up to
			// the duration of the case, hence the slack.
			blockD, slack := prevOff, int64(0)
			if prevOff <= 0 {
				blockD, slack = 0, 25
			}
			if f[1] != fmt.Sprintf("d=%d", blockD) {
				return mk("block-date-not-max-of-clock-and-previous-block", f[1]+fmt.Sprintf(", expected d=%d", blockD), i)
			}
			blkLate = ""
			for _, e := range block {
				if strings.HasPrefix(e.key, "b") {
					continue
				}
				k, _ := strconv.Atoi(e.key)
				if k >= len(pool) {
					return mk("unknown-transaction-in-block", "entry "+e.key, i)
				}
				c, _ := strconv.ParseInt(pool[k][11], 10, 64)
				if c < blockD-tol || c > blockD+slack+tol {
					blkLate = fmt.Sprintf("transaction %s created at %d, block dated %d, tolerance %d", e.key, c, blockD, tol)
				}
			}
			if blkLate != "" {
				pending = mk("block-includes-transaction-outside-time-tolerance", blkLate, i)
			}
			// (1) no transaction twice
			seen := map[string]bool{}
			for _, e := range block {
				if seen[e.key] {
					return mk("transaction-included-twice", "entry "+e.key, i)
				}
				seen[e.key] = true
				if strings.Contains(e.key, "?") {
					return mk("unknown-transaction-in-block", "entry "+e.key, i)
				}
			}
			// (2) each sender's nonces consecutive from the prior state
			next := map[int]int64{}
			for id, n := range initNonce {
				next[id] = n
			}
			for _, e := range block {
				sender := idMiner
				if !strings.HasPrefix(e.key, "b") {
					k, _ := strconv.Atoi(e.key)
					if k >= len(pool) {
						return mk("unknown-transaction-in-block", "entry "+e.key, i)
					}
					sender, _ = strconv.Atoi(pool[k][2])
				}
				if e.nonce != next[sender]+1 {
					return mk("nonce-not-consecutive", fmt.Sprintf("sender %d: nonce %d after %d", sender, e.nonce, next[sender]), i)
				}
				next[sender] = e.nonce
			}
			// (3) built-in transactions at most once (by the name the verifier goes by)
			names := map[string]int{}
			for _, e := range block {
				if strings.HasPrefix(e.key, "b") {
					names[strings.TrimPrefix(e.key, "b")]++
				} else {
					k, _ := strconv.Atoi(e.key)
					if pool[k][12] != "-" {
						names[pool[k][12]]++
					}
				}
			}
			for nme, c := range names {
				if c > 1 {
					onlyOwn := true
					for _, e := range block {
						if !strings.HasPrefix(e.key, "b") {
							k, _ := strconv.Atoi(e.key)
							if pool[k][12] == nme {
								onlyOwn = false
							}
						}
					}
					if onlyOwn {
						return mk("own-builtin-transaction-twice", kindFn[nme], i)
					}
					known = mk("pool-transaction-with-builtin-name-in-block", fmt.Sprintf("the block holds %d transactions named %s (one from the pool, sent by an ordinary client)", c, kindFn[nme]), i)
				}
			}
			// (4) block cost below the limit, in exact integers
			total := new(big.Int)
			hasMaxInt := false
			nPool := 0
			for _, e := range block {
				if strings.HasPrefix(e.key, "b") {
					total.Add(total, big.NewInt(biCosts[strings.TrimPrefix(e.key, "b")]))
					continue
				}
				k, _ := strconv.Atoi(e.key)
				nPool++
				if pool[k][7] == "x" {
					return mk("transaction-without-cost-estimate-in-block", "entry "+e.key, i)
				}
				c, _ := strconv.ParseInt(pool[k][7], 10, 64)
				if c == maxInt {
					hasMaxInt = true
				}
				total.Add(total, big.NewInt(c))
			}
			blkMaxInt = hasMaxInt
			if nPool > 0 && total.Cmp(big.NewInt(maxCost)) >= 0 {
				if !hasMaxInt {
					return mk("block-cost-limit-exceeded", fmt.Sprintf("cost %s, limit %d", total, maxCost), i)
				}
				if known == nil {
					known = mk("cost-limit-bypassed-by-maxint-estimate", fmt.Sprintf("a transaction calling a function without a cost entry (estimate MaxInt) is in the block; block cost %s, limit %d", total, maxCost), i)
				}
			}
		case "verify":
			if !haveBlock {
				continue
			}
			f := strings.Fields(outs[i])
			if len(f) > 0 && f[0] == "ok" {
				// same final state as the generator reported
				g := strings.Fields(outs[genIdx])
				if len(g) == 5 && len(f) == 3 && (g[3] != f[1] || g[4] != f[2]) {
					return mk("verifier-state-differs", outs[genIdx]+" vs "+outs[i], i)
				}
				continue
			}
			// the honest block failed honest verification
			if outs[i] == "verify-timeout" {
				return mk("honest-block-fails-verification:timeout", "VerifyBlock did not answer within its deadline (twice) for block "+outs[genIdx], i)
			}
			if outs[i] == "fail txn" && blkLate != "" {
				return mk("honest-block-fails-verification-time-tolerance", "the generator included a transaction that is outside the time tolerance of the block's creation date; the verifier, which measures against that date, rejects the block: "+blkLate, i)
			}
			dupName := false
			cnt := map[string]int{}
			for _, e := range block {
				if strings.HasPrefix(e.key, "b") {
					cnt[strings.TrimPrefix(e.key, "b")]++
				} else if k, _ := strconv.Atoi(e.key); pool[k][12] != "-" {
					cnt[pool[k][12]]++
				}
			}
			for _, c := range cnt {
				if c > 1 {
					dupName = true
				}
			}
			if outs[i] == "fail txn" && dupName {
				known = mk("pool-transaction-with-builtin-name-fails-verification", "a pool transaction whose function NAME equals a built-in one is included by the generator; the verifier rejects the block as 'duplicated build-in transaction'", i)
				continue
			}
			selfAddr := ""
			for _, e := range block {
				if !strings.HasPrefix(e.key, "b") {
					if k, _ := strconv.Atoi(e.key); pool[k][2] == pool[k][3] {
						selfAddr = e.key
					}
				}
			}
			if outs[i] == "fail txn" && selfAddr != "" {
				known = mk("self-addressed-transaction-included-but-rejected-by-verifier", "pool transaction "+selfAddr+" has ToClientID == ClientID; its state update succeeds (a zero amount is skipped before the from==to test, a data transaction transfers nothing) so the generator includes it; the verifier's ValidateWrtTimeForBlock refuses it and the honest block fails with txn_validation_failed", i)
				continue
			}
			if outs[i] == "fail cost" && blkMaxInt {
				known = mk("cost-limit-bypassed-by-maxint-estimate", "a transaction with the estimate MaxInt got into the block behind a built-in transaction that then failed to execute; the verifier sums only the block and rejects it with ErrCostTooBig", i)
				continue
			}
			if outs[i] == "fail cost" {
				// the built-in transactions alone reach the limit: a configuration the generator does not guard against
				bt := int64(0)
				for _, e := range block {
					if strings.HasPrefix(e.key, "b") {
						bt += biCosts[strings.TrimPrefix(e.key, "b")]
					}
				}
				if bt > maxCost {
					continue // misconfiguration (cost of the built-in transactions above the block limit), not a pool-dependent failure
				}
			}
			return mk("honest-block-fails-verification", outs[i]+" for block "+outs[genIdx], i)
		}
	}
	if pending != nil {
		return pending
	}
	return known
}

// ---------------------------------------------------------------- fixed cases

const richAccts = "0:0:0,3:5000000000000:0,5:5000000000000:0,6:5000000000000:3,7:5000000000000:0"

func tx(typ string, sender, to int, value, fee uint64, nonce int64, fn, res string, cost int64) *gtxn {
	t := &gtxn{typ: typ, sender: sender, to: to, value: value, fee: fee, nonce: nonce, fn: fn, res: res, bname: "-", costN: cost, cost: strconv.FormatInt(cost, 10)}
	if typ != "sc" {
		t.fn, t.res = "-", "-"
	} else {
		t.out = 4
		if l, ok := fnKind[fn]; ok {
			t.bname = l
		}
	}
	return t
}

func fixedCases() [][]string {
	setup()
	costs := "@costs=big:6000,f1:1,f2:10,f4:100"
	mkCase := func(init string, txns []*gtxn, tail ...string) []string {
		ops := []string{init}
		for k, t := range txns {
			if t.created == 0 {
				c := *t // dated one second apart
				c.created = -int64(k + 1)
				t = &c
			}
			ops = append(ops, t.line())
		}
		return append(ops, tail...)
	}
	unknown := tx("sc", 6, idScript, 0, 10000000000, 4, "nofn", "ok", maxInt)
	fc := tx("sc", 6, idFaucet, 0, 10000000000, 4, "nosuchfn", "chg", maxInt)
	fc.out = len(faucetUnknown)
	late := tx("send", 5, 6, 1, 100000000, 1, "", "", 10)
	late.created = -timeTol - 1000
	at := func(t *gtxn, created int64) *gtxn { c := *t; c.created = created; return &c }
	b2 := " @batch=2"
	return [][]string{
		// validation batch size 2 / 3 / 4 with blocks of exactly one, two batches, and one more / one less
		mkCase("init 0 10000 1638400 1 0 3 600 0 "+richAccts+" - "+costs+b2, []*gtxn{tx("send", 5, 6, 5, 0, 1, "", "", 10), tx("send", 5, 6, 5, 0, 2, "", "", 10)}, "gen 1", "verify"),
		mkCase("init 1 10000 1638400 1 0 3 600 0 "+richAccts+" p~100~ok~3 "+costs+b2, []*gtxn{tx("send", 5, 6, 5, 100000000, 1, "", "", 10), tx("send", 5, 6, 5, 100000000, 2, "", "", 10), tx("send", 7, 6, 5, 100000000, 1, "", "", 10)}, "gen 1", "verify"),
		mkCase("init 1 10000 1638400 1 0 3 600 0 "+richAccts+" p~100~ok~3 "+costs+b2, []*gtxn{tx("send", 5, 6, 5, 100000000, 1, "", "", 10), tx("send", 5, 6, 5, 100000000, 2, "", "", 10)}, "gen 1", "verify"),
		mkCase("init 1 10000 1638400 1 0 3 600 0 "+richAccts+" p~100~ok~3 "+costs+" @batch=3", []*gtxn{tx("send", 5, 6, 5, 100000000, 1, "", "", 10), tx("send", 5, 6, 5, 100000000, 2, "", "", 10)}, "gen 1", "verify"),
		mkCase("init 1 10000 1638400 1 0 3 600 0 "+richAccts+" p~100~ok~3 "+costs+" @batch=4", []*gtxn{tx("send", 5, 6, 5, 100000000, 1, "", "", 10), tx("send", 5, 6, 5, 100000000, 2, "", "", 10), tx("send", 7, 6, 5, 100000000, 1, "", "", 10)}, "gen 1", "verify"),
		mkCase("init 1 10000 1638400 1 0 3 600 0 "+richAccts+" p~100~ok~3 "+costs+" @batch=1", []*gtxn{tx("send", 5, 6, 5, 100000000, 1, "", "", 10)}, "gen 1", "verify"),
		// FINDING: a transaction addressed to its own sender — send of value 0 (fees off / fee 0 / fee > 0), data — is included
		// by the generator and refused by the verifier; a self-send of a positive value is refused by the engine
		mkCase("init 0 10000 1638400 1 0 3 600 0 "+richAccts+" - "+costs, []*gtxn{tx("send", 5, 5, 0, 0, 1, "", "", 10)}, "gen 1", "verify"),
		mkCase("init 1 10000 1638400 1 0 3 600 0 "+richAccts+" p~100~ok~3 "+costs, []*gtxn{tx("send", 5, 5, 0, 100000000, 1, "", "", 10), tx("send", 7, 6, 1, 100000000, 1, "", "", 10)}, "gen 1", "verify"),
		mkCase("init 0 10000 1638400 1 0 3 600 0 "+richAccts+" - "+costs, []*gtxn{tx("data", 5, 5, 0, 0, 1, "", "", 0)}, "gen 1", "verify"),
		mkCase("init 0 10000 1638400 1 0 3 600 0 "+richAccts+" - "+costs, []*gtxn{tx("send", 5, 5, 7, 0, 1, "", "", 10), tx("send", 7, 6, 1, 0, 1, "", "", 10)}, "gen 1", "verify"),
		// clock skew: the previous block is dated 300 s ahead of this node's clock, the new block is dated 300 and the window
		// is [-300, 900] — not [-600, 600]. Both edges to the second; -450 is fresh by the clock but stale for the block,
		// 700 is in the future by the clock but fine for the block
		mkCase("init 0 10000 1638400 1 0 3 600 300 "+richAccts+" - "+costs, []*gtxn{
			at(tx("send", 5, 6, 5, 0, 1, "", "", 10), -301), at(tx("send", 5, 6, 6, 0, 1, "", "", 10), -300), at(tx("send", 5, 6, 5, 0, 2, "", "", 10), -299),
			at(tx("send", 7, 6, 5, 0, 1, "", "", 10), 901), at(tx("send", 7, 6, 6, 0, 1, "", "", 10), 900), at(tx("send", 7, 6, 5, 0, 2, "", "", 10), 899),
			at(tx("send", 6, 5, 5, 0, 4, "", "", 10), -450), at(tx("send", 6, 5, 6, 0, 4, "", "", 10), 700), at(tx("send", 6, 5, 6, 0, 5, "", "", 10), -600)}, "gen 1", "verify"),
		// the previous block is behind the clock: the block is dated by the clock
		mkCase("init 0 10000 1638400 1 0 3 600 -300 "+richAccts+" - "+costs, []*gtxn{
			at(tx("send", 5, 6, 5, 0, 1, "", "", 10), -640), at(tx("send", 5, 6, 6, 0, 1, "", "", 10), -560), at(tx("send", 7, 6, 5, 0, 1, "", "", 10), 640), at(tx("send", 7, 6, 6, 0, 1, "", "", 10), 560)}, "gen 1", "verify"),
		// the probe: out-of-order nonces of one sender (3 is promoted once 2 is in), fee transaction last
		mkCase("init 1 10000 1638400 1 0 3 600 0 "+richAccts+" p~100~ok~3 "+costs, []*gtxn{
			tx("send", 5, 6, 5, 100000000, 1, "", "", 10), tx("send", 5, 6, 5, 100000000, 3, "", "", 10), tx("sc", 5, idScript, 0, 100000000, 2, "f2", "ok", 10)}, "gen 1", "verify"),
		// REPAIRED (3af329c): a client's pool transaction that merely carries the NAME payFees used to get into the block and
		// make it fail verification; the generator now skips it
		mkCase("init 1 10000 1638400 1 0 3 600 0 "+richAccts+" p~100~ok~3 "+costs, []*gtxn{
			tx("send", 5, 6, 5, 100000000, 1, "", "", 10), tx("sc", 6, idScript, 0, 10000000000, 4, "payFees", "ok", 100)}, "gen 1", "verify"),
		// FINDING: an unknown function has the estimate MaxInt; added to a non-zero running cost it wraps negative and the
		// cost limit is off for the rest of the block (5 x 6000 against a limit of 10000); the verifier wraps the same way
		mkCase("init 1 10000 1638400 1 0 3 600 0 "+richAccts+" p~100~ok~3 "+costs, []*gtxn{unknown,
			tx("sc", 6, idScript, 0, 10000000000, 5, "big", "ok", 6000), tx("sc", 6, idScript, 0, 10000000000, 6, "big", "ok", 6000),
			tx("sc", 6, idScript, 0, 10000000000, 7, "big", "ok", 6000), tx("sc", 6, idScript, 0, 10000000000, 8, "big", "ok", 6000),
			tx("sc", 6, idScript, 0, 10000000000, 9, "big", "ok", 6000)}, "gen 1", "verify"),
		// the same with the REAL faucet contract as the target of the unknown method
		mkCase("init 1 10000 1638400 1 0 3 600 0 "+richAccts+" p~100~ok~3 "+costs, []*gtxn{fc,
			tx("sc", 6, idScript, 0, 10000000000, 5, "big", "ok", 6000), tx("sc", 6, idScript, 0, 10000000000, 6, "big", "ok", 6000)}, "gen 1", "verify"),
		// without a running cost (no built-in transaction) the MaxInt estimate is simply over the limit: skipped
		mkCase("init 0 10000 1638400 1 0 3 600 0 "+richAccts+" - "+costs, []*gtxn{unknown,
			tx("sc", 6, idScript, 0, 0, 4, "big", "ok", 6000), tx("sc", 6, idScript, 0, 0, 5, "big", "ok", 6000)}, "gen 1", "verify"),
		// cost limit: 100 (built-in) + 10 + 10 … against 125
		mkCase("init 1 125 1638400 1 0 3 600 0 "+richAccts+" p~100~ok~3 "+costs, []*gtxn{
			tx("send", 5, 6, 5, 100000000, 1, "", "", 10), tx("send", 5, 6, 5, 100000000, 2, "", "", 10), tx("send", 5, 6, 5, 100000000, 3, "", "", 10),
			tx("sc", 7, idScript, 0, 100000000, 1, "f1", "ok", 1)}, "gen 1", "verify"),
		// InsufficientTxns is tested only inside the loop over built-in transactions
		mkCase("init 1 10000 1638400 3 0 3 600 0 "+richAccts+" p~100~ok~3 "+costs, []*gtxn{tx("send", 5, 6, 5, 100000000, 1, "", "", 10)}, "gen 0", "verify"),
		mkCase("init 0 10000 1638400 3 0 3 600 0 "+richAccts+" - "+costs, []*gtxn{tx("send", 5, 6, 5, 0, 1, "", "", 10)}, "gen 0", "verify"),
		// a value above the token supply aborts the iteration
		mkCase("init 0 10000 1638400 1 0 3 600 0 "+richAccts+" - "+costs, []*gtxn{tx("send", 5, 6, 5, 0, 1, "", "", 10), tx("send", 7, 6, 4000000000000000001, 0, 1, "", "", 10)}, "gen 1", "verify"),
		// stale transaction, duplicate nonce (higher fee first), failing built-in transaction, the miner's own pool transaction
		mkCase("init 1 10000 1638400 1 0 3 600 0 "+richAccts+" p~100~int~0/c~20~chg~5 "+costs, []*gtxn{late,
			tx("send", 7, 6, 5, 300000000, 1, "", "", 10), tx("send", 7, 5, 5, 100000000, 1, "", "", 10), tx("send", 3, 5, 7, 100000000, 1, "", "", 10)}, "gen 1", "verify"),
	}
}


func main() {
	setup()
	corr.Main(corr.Prop{
		ID: "C45", Model: "C45", Gen: gen, Impl: impl, Oracle: oracle, Serial: true,
		Cases: func(th bool) int {
			if th {
				return 1500
			}
			return 150
		},
		Fixed: fixedCases(),
		Nontrivial: func(ops, outs []string) bool {
			for _, o := range outs {
				if strings.HasPrefix(o, "gen-ok") {
					f := strings.Fields(o)
					if len(f) > 2 && strings.Count(f[2], ",") >= 2 {
						return true
					}
				}
			}
			return false
		},
		Extra: func() map[string]interface{} {
			m := map[string]interface{}{}
			for k, v := range stats {
				m["pool_txn_"+k] = v
			}
			return m
		},
	})
}
