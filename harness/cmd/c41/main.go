// C41 harness: the real LFB-ticket handler and worker (chaincore/chain/protocol_lfb_ticket.go) against Model/LFB.lean.
//
// Every case starts a fresh chain object, an empty node registry, real BLS key pairs (core/encryption) for the nodes
// and for node.Self, and the REAL StartLFBTicketWorker goroutine. Received tickets go through the REAL
// LFBTicketHandler (JSON body → verifyLFBTicket → AddReceivedLFBTicket); local finalizations through
// BroadcastLFBTicket; kicks through AddReceivedLFBTicket; the observation is GetLatestLFBTicket. After each line the
// harness waits until the worker has emptied its channels, so the answer does not depend on how the worker split
// the queued items into batches (Props/C41.adoptU_append).
package main

import (
	"bytes"
	"context"
	"encoding/json"
	"fmt"
	"math/rand"
	"net/http"
	"strconv"
	"strings"
	"sync"
	"time"

	"0chain.net/chaincore/block"
	"0chain.net/chaincore/chain"
	"0chain.net/chaincore/node"
	"0chain.net/core/datastore"
	"0chain.net/core/encryption"
	"verifharness/lib/corr"
	"verifharness/lib/engine"
)

const poolSize = 8 // key 0 is never registered ("junk"), keys 1..7 belong to node ids 1..7

var (
	setupOnce sync.Once
	keys      []encryption.SignatureScheme
	keyID     []string // hex node id of key k (hash of the public key)
	idOf      = map[string]int{}
)

func setup() {
	engine.Setup()
	// the network send of an own ticket is stubbed (the repo sets this variable in its handler setup; nothing is listening here)
	chain.LFBTicketSender = func(datastore.Entity) node.SendHandler {
		return func(context.Context, *node.Node) bool { return true }
	}
	for k := 0; k < poolSize; k++ {
		ss := encryption.NewBLS0ChainScheme()
		if err := ss.GenerateKeys(); err != nil {
			panic(err)
		}
		keys = append(keys, ss)
		n := node.Provider()
		if err := n.SetSignatureScheme(ss); err != nil {
			panic(err)
		}
		keyID = append(keyID, n.GetKey())
		idOf[n.GetKey()] = k
	}
}

func nodeIDString(id int) string {
	if id >= 1 && id < poolSize {
		return keyID[id]
	}
	return fmt.Sprintf("unknown-node-%d", id)
}

type tk struct {
	round         int64
	sharder, hash int
	sig           string
}

func parseTicket(w string) (tk, bool) {
	f := strings.Split(w, ",")
	if len(f) != 4 {
		return tk{}, false
	}
	r, e1 := strconv.ParseInt(f[0], 10, 64)
	s, e2 := strconv.ParseUint(f[1], 10, 31)
	h, e3 := strconv.ParseUint(f[2], 10, 31)
	if e1 != nil || e2 != nil || e3 != nil {
		return tk{}, false
	}
	switch {
	case f[3] == "good", f[3] == "msgr", f[3] == "msgh", f[3] == "msgs", f[3] == "blank", f[3] == "junk":
	case strings.HasPrefix(f[3], "key"):
		if _, err := strconv.ParseUint(f[3][3:], 10, 31); err != nil {
			return tk{}, false
		}
	default:
		return tk{}, false
	}
	return tk{r, int(s), int(h), f[3]}, true
}

func hashStr(h int) string { return fmt.Sprintf("h%d", h) }

// makeTicket builds the wire ticket with a real signature of the requested kind.
func makeTicket(t tk) *chain.LFBTicket {
	lt := &chain.LFBTicket{Round: t.round, SharderID: nodeIDString(t.sharder), LFBHash: hashStr(t.hash)}
	signer := t.sharder
	msg := *lt
	switch {
	case t.sig == "blank":
		return lt
	case t.sig == "junk":
		signer = 0
	case t.sig == "msgr":
		msg.Round++
	case t.sig == "msgh":
		msg.LFBHash = hashStr(t.hash + 1)
	case t.sig == "msgs":
		msg.SharderID = nodeIDString(t.sharder + 1)
	case strings.HasPrefix(t.sig, "key"):
		k, _ := strconv.Atoi(t.sig[3:])
		signer = k
	}
	if signer < 0 || signer >= poolSize {
		signer = 0 // a node outside the key pool cannot sign; any other key will do (the lookup fails first)
	}
	s, err := keys[signer].Sign(msg.Hash())
	if err != nil {
		panic(err)
	}
	lt.Sign = s
	return lt
}

type world struct {
	c      *chain.Chain
	cancel context.CancelFunc
	ctx    context.Context
}

func (w *world) sync() bool {
	deadline := time.Now().Add(20 * time.Second)
	for {
		a, b := w.c.VerifC41Pending()
		if a == 0 && b == 0 {
			break
		}
		if time.Now().After(deadline) {
			return false
		}
		time.Sleep(20 * time.Microsecond)
	}
	// the worker answers only from its select: once it does, everything it took out has been processed
	cctx, cancel := context.WithTimeout(w.ctx, 20*time.Second)
	defer cancel()
	return w.c.GetLatestLFBTicket(cctx) != nil
}

func showTicket(t *chain.LFBTicket) string {
	if t == nil {
		return "ticket-nil"
	}
	sh := "-"
	if t.SharderID != "" {
		if k, ok := idOf[t.SharderID]; ok {
			sh = strconv.Itoa(k)
		} else {
			sh = "?"
		}
	}
	h := "-"
	if t.LFBHash != "" {
		h = strings.TrimPrefix(t.LFBHash, "h")
	}
	sg := "blank"
	if t.Sign != "" {
		sg = "other"
		for k := range keys {
			if ok, err := keys[k].Verify(t.Sign, t.Hash()); err == nil && ok {
				sg = fmt.Sprintf("by%d", k)
				break
			}
		}
	}
	return fmt.Sprintf("ticket %d %s %s %s", t.Round, sh, h, sg)
}

func impl(ops []string) []string {
	setupOnce.Do(setup)
	var w *world
	defer func() {
		if w != nil {
			w.cancel()
		}
	}()
	outs := make([]string, len(ops))
	for i, op := range ops {
		f := strings.Fields(op)
		func() {
			defer func() {
				if r := recover(); r != nil {
					outs[i] = "panic"
				}
			}()
			outs[i] = "bad-op"
			if len(f) == 0 {
				return
			}
			switch f[0] {
			case "init":
				if len(f) < 5 || (len(f)-5)%4 != 0 {
					return
				}
				self, e1 := strconv.ParseUint(f[1], 10, 31)
				r, e2 := strconv.ParseInt(f[3], 10, 64)
				h, e3 := strconv.ParseUint(f[4], 10, 31)
				if e1 != nil || e2 != nil || e3 != nil || (f[2] != "m" && f[2] != "s") || self < 1 || self >= poolSize {
					return
				}
				type nd struct {
					id   int
					kind string
					mb   bool
				}
				var nds []nd
				for k := 5; k < len(f); k += 4 {
					id, e := strconv.ParseUint(f[k+1], 10, 31)
					if f[k] != "N" || e != nil || (f[k+2] != "m" && f[k+2] != "s") || (f[k+3] != "0" && f[k+3] != "1") || id < 1 || id >= poolSize {
						return
					}
					nds = append(nds, nd{int(id), f[k+2], f[k+3] == "1"})
				}
				if w != nil {
					w.cancel()
				}
				node.VerifC41ResetNodes()
				// the current magic block: its sharder pool holds exactly the sharders declared with inMB = 1, its miner
				// pool the miners; every declared node is in the global registry (as after earlier magic blocks)
				mb := block.NewMagicBlock()
				mb.Miners = node.NewPool(node.NodeTypeMiner)
				mb.Sharders = node.NewPool(node.NodeTypeSharder)
				seen := map[int]bool{}
				for _, x := range nds {
					if seen[x.id] {
						continue // first declaration wins (List.find?)
					}
					seen[x.id] = true
					n := node.Provider()
					if err := n.SetSignatureScheme(keys[x.id]); err != nil {
						panic(err)
					}
					n.Type = node.NodeTypeMiner
					if x.kind == "s" {
						n.Type = node.NodeTypeSharder
					}
					node.RegisterNode(n)
					switch {
					case x.kind == "s" && x.mb:
						if err := mb.Sharders.AddNode(n); err != nil {
							panic(err)
						}
					case x.kind == "m":
						if err := mb.Miners.AddNode(n); err != nil {
							panic(err)
						}
					}
				}
				if err := node.Self.SetSignatureScheme(keys[self]); err != nil {
					panic(err)
				}
				node.Self.Type = node.NodeTypeMiner
				if f[2] == "s" {
					node.Self.Type = node.NodeTypeSharder
				}
				c := chain.VerifC41NewChain()
				c.SetMagicBlock(mb)
				chain.SetServerChain(c)
				ctx, cancel := context.WithCancel(context.Background())
				w = &world{c: c, cancel: cancel, ctx: ctx}
				b := &block.Block{}
				b.Round = r
				b.Hash = hashStr(int(h))
				go c.StartLFBTicketWorker(ctx, b)
				if !w.sync() {
					outs[i] = "hang"
					return
				}
				outs[i] = "ok"
			case "recv", "recvs":
				if w == nil || len(f) < 2 || (f[0] == "recv" && len(f) != 2) {
					return
				}
				var ts []tk
				for _, x := range f[1:] {
					t, ok := parseTicket(x)
					if !ok {
						return
					}
					ts = append(ts, t)
				}
				var res []string
				for _, t := range ts {
					body, _ := json.Marshal(makeTicket(t))
					req, _ := http.NewRequest("POST", "/v1/block/get/latest_finalized_ticket", bytes.NewReader(body))
					if _, err := chain.LFBTicketHandler(w.ctx, req); err == nil {
						res = append(res, "accepted")
					} else {
						res = append(res, "rejected")
					}
				}
				if !w.sync() {
					outs[i] = "hang"
					return
				}
				outs[i] = strings.Join(res, ",")
			case "kick":
				if w == nil || len(f) != 2 {
					return
				}
				r, err := strconv.ParseInt(f[1], 10, 64)
				if err != nil {
					return
				}
				w.c.AddReceivedLFBTicket(w.ctx, &chain.LFBTicket{Round: r})
				if !w.sync() {
					outs[i] = "hang"
					return
				}
				outs[i] = "ok"
			case "bcast", "bcasts":
				if w == nil || len(f) < 2 {
					return
				}
				var bs []*block.Block
				if f[0] == "bcast" {
					if len(f) != 3 {
						return
					}
					f = []string{"bcasts", f[1] + "," + f[2]}
				}
				for _, x := range f[1:] {
					p := strings.Split(x, ",")
					if len(p) != 2 {
						return
					}
					r, e1 := strconv.ParseInt(p[0], 10, 64)
					h, e2 := strconv.ParseUint(p[1], 10, 31)
					if e1 != nil || e2 != nil {
						return
					}
					b := &block.Block{}
					b.Round = r
					b.Hash = hashStr(int(h))
					bs = append(bs, b)
				}
				for _, b := range bs {
					w.c.BroadcastLFBTicket(w.ctx, b)
				}
				if !w.sync() {
					outs[i] = "hang"
					return
				}
				outs[i] = "ok"
			case "get":
				if w == nil || len(f) != 1 {
					return
				}
				cctx, cancel := context.WithTimeout(w.ctx, 20*time.Second)
				defer cancel()
				outs[i] = showTicket(w.c.GetLatestLFBTicket(cctx))
			}
		}()
	}
	return outs
}

// ---------------------------------------------------------------------------------------------- generator

var bigRounds = []int64{1<<53 + 1, 1<<62 + 3, -1, -7}

const (
	minI64 = -1 << 63
	maxI64 = 1<<63 - 1
)

// wideRound draws a round from the WHOLE int64 range, biased to the values at which an int64 difference or sum of two
// rounds wraps: the ends of the range, the points exactly 2^63 away from the round reported now, and small values.
// `late` allows the top of the range (once MaxInt64 is adopted nothing newer exists).
func wideRound(r *rand.Rand, cur int64, late bool) int64 {
	lo := []int64{minI64, minI64 + 1, minI64 + 2, minI64 + cur - 1, minI64 + cur, minI64 + cur + 1, minI64 + 200,
		cur - maxI64, cur - maxI64 - 1, cur - maxI64 - 2, -maxI64, -1 << 62, -1, 0, 1, cur - 1, cur, cur + 1, cur + 2}
	hi := []int64{maxI64, maxI64 - 1, maxI64 - 5, 1 << 62, cur + maxI64, cur + maxI64 - 1, cur + maxI64 + 1}
	switch x := r.Intn(10); {
	case x < 6 || !late:
		if x == 5 {
			return int64(r.Uint64()) // anywhere
		}
		return lo[r.Intn(len(lo))]
	default:
		return hi[r.Intn(len(hi))]
	}
}

func gen(r *rand.Rand, thorough bool, i int) []string {
	self := 1 + r.Intn(2)
	kind := "s"
	if r.Intn(10) < 3 {
		kind = "m"
	}
	cur := int64(r.Intn(20))
	wide := r.Intn(3) == 0 // a third of the cases use rounds from the whole int64 range
	if wide {
		cur = []int64{0, 1, 50, 150, 200, -1, -5, minI64, minI64 + 1, 1 << 40}[r.Intn(10)]
	}
	init := fmt.Sprintf("init %d %s %d %d", self, kind, cur, 1+r.Intn(99))
	// ids 1,2: sharders of the current magic block; 3: a sharder that is registered but not in the current magic
	// block; 4,5: miners — each registered most of the time, sometimes with other roles
	for id := 1; id <= 5; id++ {
		if r.Intn(6) == 0 {
			continue
		}
		k, mb := "s", 1
		switch {
		case id == 3:
			mb = 0
		case id >= 4:
			k, mb = "m", 0
		}
		if r.Intn(12) == 0 {
			k = []string{"m", "s"}[r.Intn(2)]
			mb = r.Intn(2)
			if k == "m" {
				mb = 0
			}
		}
		init += fmt.Sprintf(" N %d %s %d", id, k, mb)
	}
	ops := []string{init, "get"}
	n := 5 + r.Intn(30)
	if thorough {
		n = 5 + r.Intn(120)
	}
	step := 0
	round := func() int64 {
		if wide && r.Intn(4) != 0 {
			v := wideRound(r, cur, step*3 > n*2)
			if v > cur && r.Intn(3) != 0 {
				cur = v
			}
			return v
		}
		d := int64(r.Intn(7)) - 2
		v := cur + d
		if r.Intn(25) == 0 {
			v = bigRounds[r.Intn(len(bigRounds))]
		}
		if v > cur && r.Intn(2) == 0 {
			cur = v // most newer rounds move the scene forward
		}
		return v
	}
	ticket := func() string {
		sig := "good"
		switch x := r.Intn(50); {
		case x < 4:
			sig = fmt.Sprintf("key%d", 1+r.Intn(6))
		case x < 6:
			sig = "msgr"
		case x < 8:
			sig = "msgh"
		case x < 10:
			sig = "msgs"
		case x < 13:
			sig = "blank"
		case x < 16:
			sig = "junk"
		}
		if wide && r.Intn(5) != 0 {
			// mostly valid tickets of the magic block's sharders, so that the extreme rounds reach the worker
			return fmt.Sprintf("%d,%d,%d,good", round(), 1+r.Intn(2), 1+r.Intn(99))
		}
		return fmt.Sprintf("%d,%d,%d,%s", round(), 1+r.Intn(6), 1+r.Intn(99), sig)
	}
	for k := 0; k < n; k++ {
		step = k
		switch x := r.Intn(100); {
		case x < 42:
			ops = append(ops, "recv "+ticket())
		case x < 52:
			s := "recvs"
			for j := 2 + r.Intn(4); j > 0; j-- {
				s += " " + ticket()
			}
			ops = append(ops, s)
		case x < 57:
			ops = append(ops, fmt.Sprintf("kick %d", round()))
		case x < 72:
			ops = append(ops, fmt.Sprintf("bcast %d %d", round(), 1+r.Intn(99)))
		case x < 77:
			s := "bcasts"
			for j := 2 + r.Intn(3); j > 0; j-- {
				s += fmt.Sprintf(" %d,%d", round(), 1+r.Intn(99))
			}
			ops = append(ops, s)
		default:
			ops = append(ops, "get")
		}
		if r.Intn(3) == 0 {
			ops = append(ops, "get")
		}
	}
	if r.Intn(30) == 0 {
		ops = append(ops, "recv 1,2,3", "recv 1,2,3,sig", "bcast x 1", "frob", "kick")
	}
	return append(ops, "get")
}

// ---------------------------------------------------------------------------------------------- oracle

var knownSigs = map[string]bool{
	"C41:miner-signed-ticket-adopted":         true,
	"C41:non-mb-sharder-signed-ticket-adopted": true,
}

// oracle: C41 on the real answers. `get` answers must never go back in round; a reported ticket that is neither the
// node's own nor an unsigned local kick must be signed, over its own fields, by its claimed sender, and that sender
// must be a sharder of the current magic block; a valid newer ticket of such a sharder must not be ignored.
func oracle(ops, outs []string) *corr.Violation {
	var vs []*corr.Violation
	mk := func(sig, msg string) {
		vs = append(vs, &corr.Violation{Signature: "C41:" + sig, Message: msg, Ops: ops, Impl: outs})
	}
	type nd struct {
		kind string
		mb   bool
	}
	var nodes map[int]nd
	self := 0
	selfSharder := false
	var last int64
	haveLast := false
	var need int64 // a round the node must have reached: the highest valid ticket of an MB sharder / own broadcast so far
	haveNeed := false
	for i, op := range ops {
		f := strings.Fields(op)
		if len(f) == 0 || outs[i] == "bad-op" {
			continue
		}
		if outs[i] == "panic" || outs[i] == "hang" {
			mk(outs[i], fmt.Sprintf("op %d %q: %s", i, op, outs[i]))
			break
		}
		switch f[0] {
		case "init":
			nodes = map[int]nd{}
			s, _ := strconv.Atoi(f[1])
			self = s
			selfSharder = f[2] == "s"
			for k := 5; k+3 < len(f); k += 4 {
				id, _ := strconv.Atoi(f[k+1])
				if _, dup := nodes[id]; !dup {
					nodes[id] = nd{f[k+2], f[k+3] == "1"}
				}
			}
			haveLast, haveNeed = false, false
			r, _ := strconv.ParseInt(f[3], 10, 64)
			need, haveNeed = r, true
		case "recv", "recvs":
			res := strings.Split(outs[i], ",")
			for k, x := range f[1:] {
				t, ok := parseTicket(x)
				if !ok || k >= len(res) {
					continue
				}
				n, reg := nodes[t.sharder]
				valid := reg && t.sig == "good" || reg && t.sig == fmt.Sprintf("key%d", t.sharder)
				if res[k] == "accepted" && !valid {
					mk("invalid-ticket-accepted", fmt.Sprintf("op %d: ticket %q passed verification (sender registered: %v)", i, x, reg))
				}
				if res[k] == "rejected" && valid && n.kind == "s" && n.mb {
					mk("valid-ticket-rejected", fmt.Sprintf("op %d: ticket %q of a sharder of the magic block was rejected", i, x))
				}
				if res[k] == "accepted" && valid && n.kind == "s" && n.mb && (!haveNeed || t.round > need) {
					need, haveNeed = t.round, true
				}
			}
		case "bcast", "bcasts":
			if !selfSharder {
				continue
			}
			args := f[1:]
			if f[0] == "bcast" && len(f) == 3 {
				args = []string{f[1] + "," + f[2]}
			}
			for _, x := range args {
				p := strings.Split(x, ",")
				if r, err := strconv.ParseInt(p[0], 10, 64); err == nil && (!haveNeed || r > need) {
					need, haveNeed = r, true
				}
			}
		case "kick":
			if r, err := strconv.ParseInt(f[1], 10, 64); err == nil && (!haveNeed || r > need) {
				need, haveNeed = r, true
			}
		case "get":
			g := strings.Fields(outs[i])
			if len(g) != 5 || g[0] != "ticket" {
				mk("unreadable-answer", fmt.Sprintf("op %d: %q", i, outs[i]))
				continue
			}
			r, _ := strconv.ParseInt(g[1], 10, 64)
			if haveLast && r < last {
				mk("reported-round-moved-backwards", fmt.Sprintf("op %d: reported round %d after round %d", i, r, last))
			}
			last, haveLast = r, true
			if haveNeed && r < need {
				mk("newer-ticket-ignored", fmt.Sprintf("op %d: reports round %d although a valid ticket / own finalization of round %d was processed", i, r, need))
			}
			if g[4] == "blank" {
				continue // unsigned local kick
			}
			sh, _ := strconv.Atoi(g[2])
			if g[4] == "other" || g[4] != fmt.Sprintf("by%d", sh) {
				mk("forged-ticket-adopted", fmt.Sprintf("op %d: reports %q: not signed by its sender over its own fields", i, outs[i]))
				continue
			}
			if sh == self {
				continue // own ticket (or one signed with the node's own key)
			}
			n, reg := nodes[sh]
			switch {
			case !reg:
				mk("unregistered-signer-adopted", fmt.Sprintf("op %d: reports %q, signer is not a registered node", i, outs[i]))
			case n.kind == "m":
				mk("miner-signed-ticket-adopted", fmt.Sprintf("op %d: reports %q: the adopted ticket is validly signed by node %d, a registered MINER — verifyLFBTicket looks the signer up among all nodes (node.GetNode), not among the sharders of the current magic block", i, outs[i], sh))
			case !n.mb:
				mk("non-mb-sharder-signed-ticket-adopted", fmt.Sprintf("op %d: reports %q: the adopted ticket is signed by sharder %d which is registered but not a sharder of the current magic block", i, outs[i], sh))
			}
		}
	}
	for _, v := range vs {
		if !knownSigs[v.Signature] {
			return v
		}
	}
	if len(vs) > 0 {
		return vs[0]
	}
	return nil
}

func main() {
	corr.Main(corr.Prop{
		ID: "C41", Model: "C41", Gen: gen, Impl: impl, Oracle: oracle, Serial: true,
		Cases: func(th bool) int {
			if th {
				return 4000
			}
			return 800
		},
		Fixed: [][]string{
			// negation witness of adopt_only_sharder_of_mb: node 4 is a registered miner
			{"init 1 s 5 50 N 1 s 1 N 2 s 1 N 3 s 0 N 4 m 0", "get", "recv 9,4,90,good", "get"},
			{"init 1 s 5 50 N 1 s 1 N 2 s 1 N 3 s 0 N 4 m 0", "recv 9,3,90,good", "get"},
			{"init 1 s 5 50 N 1 s 1 N 2 s 1 N 3 m 0", "get", "recv 7,2,70,good", "get", "recv 6,2,60,good", "get", "recv 12,2,1,key3", "recv 12,2,1,msgh", "recv 12,2,1,msgr",
				"recv 12,2,1,msgs", "recv 12,2,1,blank", "recv 12,2,1,junk", "recv 12,6,1,good", "get", "bcast 8 80", "get", "bcast 5 55", "get", "kick 20", "get",
				"recvs 30,2,1,good 31,2,2,good 31,2,3,good 4,2,4,blank", "get", "bcasts 40,1 41,2 41,3 2,4", "get"},
			{"init 2 m 0 1 N 1 s 1 N 2 s 1", "bcast 9 9", "get", "recv 3,1,3,good", "get", "kick 2", "get"},
			// rounds over the whole int64 range: differences of two rounds wrap beyond 2^63 (the code compares, it does not subtract)
			{"init 1 s 50 5 N 1 s 1 N 2 s 1", "recv 100,2,1,good", "get", "recv 70,2,2,good", "get", "recv 101,2,3,good", "get", "recv 0,2,4,good", "get",
				"recv -1,2,5,good", "get", "recv 150,2,6,good", "get", "recv -9223372036854775608,2,7,good", "get", "recv -9223372036854775808,2,8,good", "get",
				"recv 9223372036854775802,2,9,good", "get", "recv 151,2,10,good", "get", "recv -9223372036854775807,2,11,good", "get",
				"recv 9223372036854775807,2,12,good", "get", "recv 9223372036854775807,2,13,msgr", "get"},
			{"init 1 s 150 5 N 1 s 1 N 2 s 1", "kick -9223372036854775808", "get", "bcast -9223372036854775808 3", "get", "bcasts -9223372036854775700,1 -9223372036854775808,2", "get",
				"recvs -9223372036854775808,2,1,good -9223372036854775658,2,2,good 151,2,3,good", "get", "bcast 9223372036854775807 9", "get", "kick 9223372036854775807", "get"},
			{"init 1 s -9223372036854775808 5 N 1 s 1 N 2 s 1", "get", "recv 0,2,1,good", "get", "recv 9223372036854775807,2,2,good", "get", "recv -1,2,3,good", "get"},
		},
	})
}
