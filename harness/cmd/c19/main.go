// C19 harness: the real zcnsc Burn through the real Chain.UpdateState against Model/Zcn.lean (burn part).
package main

import (
	"fmt"
	"math/big"
	"math/rand"
	"strconv"
	"strings"

	"verifharness/cmd/c18/zcnw"
	"verifharness/lib/corr"
)

const pct07 = "3fe6666666666666" // 0.7

func initLine(fee int, minBurn, minMint uint64, otherValid int, accts, users []string) string {
	return fmt.Sprintf("init %d %d %d 100 %s 2 10000000000 10 %d | %s | %s | %s | | 0 |", fee, minBurn, minMint, pct07, otherValid,
		strings.Join(accts, " "), strings.Join(users, " "), zcnw.KeysSection())
}

var boundary = []uint64{0, 1, 2, 1 << 53, 1<<53 + 1, 4000000000000000000, 4000000000000000001, 1<<63 - 1, 1 << 63, 1<<64 - 1}

// gen: burn histories. Mostly valid burns (right nonce, enough balance, value ≥ min) to new and repeated addresses in
// any order by several burners; adversarial stream: values around MinBurnAmount, empty/malformed payloads, replayed or
// gapped txn nonces, burners that cannot pay, the bridge wallet or the miner contract as sender, burn nonces seeded at
// the int64 boundary.
func gen(r *rand.Rand, thorough bool, i int) []string {
	fee := 1
	if r.Intn(4) == 0 {
		fee = 0
	}
	minBurn := []uint64{1, 10, 100, 10000000000}[r.Intn(4)]
	if r.Intn(20) == 0 {
		minBurn = 0
	}
	var accts, users []string
	nonce := make([]int64, zcnw.NIDs+1)
	bal := make([]uint64, zcnw.NIDs+1)
	for k := 0; k < zcnw.NIDs; k++ {
		switch r.Intn(14) {
		case 0:
			bal[k] = 0
		case 1:
			bal[k] = boundary[r.Intn(len(boundary))]
		default:
			bal[k] = minBurn*uint64(1+r.Intn(40)) + uint64(r.Intn(1000))
		}
		if r.Intn(3) == 0 {
			nonce[k] = int64(r.Intn(4))
		}
		if bal[k] != 0 || nonce[k] != 0 || r.Intn(2) == 0 {
			accts = append(accts, fmt.Sprintf("%d:%d:%d", k, bal[k], nonce[k]))
		}
	}
	for a := 0; a < zcnw.NAddrs; a++ {
		switch r.Intn(12) {
		case 0:
			users = append(users, fmt.Sprintf("%d:%d", a, r.Intn(50)))
		case 1:
			users = append(users, fmt.Sprintf("%d:%d", a, int64(1<<63-1)-int64(r.Intn(3))))
		case 2:
			users = append(users, fmt.Sprintf("%d:%d", a, -int64(r.Intn(3))))
		}
	}
	// min_mint differs from min_burn (smaller or larger): a burn must be judged against min_burn only
	minMint := []uint64{1, 5, 1000, 20000000000, minBurn + 7}[r.Intn(5)]
	otherValid := 1
	if r.Intn(8) == 0 {
		otherValid = 0 // as shipped: every update-global-config is rejected by Validate
	}
	curMin := minBurn // the generator's guess of the saved minimum
	ops := []string{initLine(fee, minBurn, minMint, otherValid, accts, users)}
	n := 4 + r.Intn(16)
	if thorough {
		n = 4 + r.Intn(80)
	}
	cur := append([]int64(nil), nonce...)
	for k := 0; k < n; k++ {
		if r.Intn(7) == 0 { // update-global-config: accepted and rejected, by the owner (2) and by others
			us := 2
			if r.Intn(5) == 0 {
				us = 3 + r.Intn(zcnw.NIDs-3)
			}
			newMin := []uint64{1, 3, 10, 50, 100, 1000, 10000000000, curMin / 2, curMin * 2}[r.Intn(9)]
			arg := fmt.Sprintf("mb=%d", newMin)
			accepted := us == 2 && otherValid == 1 && newMin >= 1
			switch r.Intn(10) {
			case 0:
				arg += ",mf=0" // Validate rejects the whole request
				accepted = false
			case 1:
				arg += fmt.Sprintf(",bad=%d", r.Intn(4))
				accepted = false
			case 2:
				arg += fmt.Sprintf(",mm=%d", 1+r.Intn(2000))
			case 3:
				arg = fmt.Sprintf("mm=%d", 1+r.Intn(2000))
				accepted = false
			case 4:
				arg = "!"
				accepted = false
			case 5:
				arg = "mb=0"
				accepted = false
			}
			un := cur[us] + 1
			ops = append(ops, fmt.Sprintf("updcfg %d 0 %d %d %s", us, r.Intn(10), un, arg))
			if bal[us] > 20 {
				cur[us] = un
				if accepted {
					curMin = newMin
				}
			}
			minBurn = curMin
			continue
		}
		sender := 2 + r.Intn(zcnw.NIDs-2)
		if r.Intn(30) == 0 {
			sender = r.Intn(zcnw.NIDs + 1)
		}
		nn := cur[sender] + 1
		switch r.Intn(30) {
		case 0:
			nn = cur[sender]
		case 1:
			nn = cur[sender] + 2
		case 2:
			nn = int64(r.Intn(4)) - 1
		}
		var value uint64
		switch x := r.Intn(20); {
		case x < 11:
			value = minBurn + uint64(r.Intn(50))
		case x < 13:
			value = minBurn
		case x < 15:
			if minBurn > 0 {
				value = minBurn - 1
			}
		case x < 16:
			value = 0
		case x < 17:
			value = boundary[r.Intn(len(boundary))]
		default:
			value = uint64(r.Int63n(int64(minBurn)*3 + 5))
		}
		feeV := uint64(r.Intn(20))
		if r.Intn(25) == 0 {
			feeV = boundary[r.Intn(len(boundary))]
		}
		inp := fmt.Sprintf("a%d", r.Intn(zcnw.NAddrs))
		switch r.Intn(14) {
		case 0:
			inp = fmt.Sprintf("e%d", r.Intn(8))
		case 1:
			inp = fmt.Sprintf("m%d", r.Intn(8))
		}
		ops = append(ops, fmt.Sprintf("burn %d %d %d %d %s", sender, value, feeV, nn, inp))
		if nn == cur[sender]+1 && value <= bal[sender] && feeV < 1000 {
			cur[sender] = nn
		}
	}
	return ops
}

type acct struct {
	bal   *big.Int
	nonce int64
}

type st struct {
	cfg     string // the configuration stored in the state
	minBurn uint64
	accts   map[int]acct
	users  map[int]int64
	rest   string // count, registrations, pools, minted: must never change by a burn
	x      string
	status string
	cls    string
	extra  string
}

func parse(out string, isInit bool) (s st, ok bool) {
	f := strings.Fields(out)
	if isInit {
		if len(f) != 9 || f[0] != "ok" {
			return s, false
		}
		f = append([]string{"ok", "-", "-"}, f[1:]...)
	}
	if len(f) != 11 || !strings.HasPrefix(f[3], "g=") {
		return s, false
	}
	s.status, s.cls, s.extra = f[0], f[1], f[2]
	s.cfg = f[3]
	if g := strings.Split(strings.TrimPrefix(f[3], "g="), ","); len(g) == 8 {
		s.minBurn, _ = strconv.ParseUint(g[0], 10, 64)
	} else {
		return s, false
	}
	f = append(f[:3:3], f[4:]...)
	s.accts = map[int]acct{}
	s.users = map[int]int64{}
	if as := strings.TrimPrefix(f[3], "a="); as != "" {
		for _, p := range strings.Split(as, ",") {
			q := strings.Split(p, ":")
			id, _ := strconv.Atoi(q[0])
			b, _ := new(big.Int).SetString(q[1], 10)
			n, _ := strconv.ParseInt(q[2], 10, 64)
			s.accts[id] = acct{b, n}
		}
	}
	if us := strings.TrimPrefix(f[4], "u="); us != "" {
		for _, p := range strings.Split(us, ",") {
			q := strings.Split(p, ":")
			a, _ := strconv.Atoi(q[0])
			n, _ := strconv.ParseInt(q[1], 10, 64)
			s.users[a] = n
		}
	}
	s.rest = strings.Join(f[5:9], " ")
	s.x = strings.TrimPrefix(f[9], "x=")
	return s, true
}

func getA(m map[int]acct, i int) acct {
	if a, ok := m[i]; ok {
		return a
	}
	return acct{new(big.Int), 0}
}

// oracle: C19 on the implementation's answers alone.
func oracle(ops, outs []string) *corr.Violation {
	mk := func(sig, msg string, i int) *corr.Violation {
		return &corr.Violation{Signature: "C19:" + sig, Message: fmt.Sprintf("op %d %q: %s", i, ops[i], msg), Ops: ops[:i+1], Impl: outs[:i+1]}
	}
	var prev st
	feeOn := false
	for i, op := range ops {
		w := strings.Fields(op)
		if w[0] == "init" {
			s, ok := parse(outs[i], true)
			if !ok {
				if outs[i] == "bad-op" {
					return nil
				}
				return mk("unparsable-answer", outs[i], i)
			}
			feeOn = w[1] == "1"
			prev = s
			continue
		}
		if outs[i] == "bad-op" {
			continue
		}
		cur, ok := parse(outs[i], false)
		if !ok {
			return mk("unparsable-answer", outs[i], i)
		}
		if w[0] != "burn" {
			// a configuration update that is not successful leaves the stored configuration alone
			if cur.status != "success" && cur.cfg != prev.cfg {
				return mk("rejected-update-changed-config", fmt.Sprintf("%s -> %s", prev.cfg, cur.cfg), i)
			}
			prev = cur
			continue
		}
		minBurn := prev.minBurn // the minimum SAVED IN THE STATE before this burn
		if cur.cfg != prev.cfg {
			return mk("burn-changed-config", fmt.Sprintf("%s -> %s", prev.cfg, cur.cfg), i)
		}
		sender, _ := strconv.Atoi(w[1])
		value, _ := new(big.Int).SetString(w[2], 10)
		fee, _ := new(big.Int).SetString(w[3], 10)
		if !feeOn {
			fee = new(big.Int)
		}
		addr := -1
		if w[5][0] == 'a' {
			addr, _ = strconv.Atoi(w[5][1:])
		}
		below := value.IsUint64() && value.Uint64() < minBurn
		delta := func(id int) *big.Int { return new(big.Int).Sub(getA(cur.accts, id).bal, getA(prev.accts, id).bal) }
		if cur.rest != prev.rest {
			return mk("burn-changed-authorizer-or-mint-state", fmt.Sprintf("%q -> %q", prev.rest, cur.rest), i)
		}
		if cur.x != "0" {
			return mk("burn-changed-foreign-leaves", cur.x+" trie leaves outside the accounts and user nodes changed", i)
		}
		switch cur.status {
		case "success":
			if below {
				return mk("burn-below-minimum-succeeded", fmt.Sprintf("value %s < MinBurnAmount %d", value, minBurn), i)
			}
			if addr < 0 {
				return mk("burn-without-address-succeeded", "payload "+w[5], i)
			}
			// exactly the value moves from the burner to the bridge wallet (plus the fee to the miner contract)
			want := map[int]*big.Int{}
			add := func(id int, v *big.Int) {
				if want[id] == nil {
					want[id] = new(big.Int)
				}
				want[id].Add(want[id], v)
			}
			add(sender, new(big.Int).Neg(value))
			add(1, value)
			add(sender, new(big.Int).Neg(fee))
			add(0, fee)
			for id := 0; id <= zcnw.NIDs; id++ {
				wv := want[id]
				if wv == nil {
					wv = new(big.Int)
				}
				if delta(id).Cmp(wv) != 0 {
					return mk("burn-moved-wrong-amount", fmt.Sprintf("account %d changed by %s, expected %s", id, delta(id), wv), i)
				}
			}
			// the burn nonce of the target address goes up by exactly one; every other user node is unchanged
			for a := 0; a < zcnw.NAddrs; a++ {
				p, c := prev.users[a], cur.users[a]
				if a == addr {
					if c != p+1 { // int64 wrap at the boundary is also "not +1"
						if !(p == 1<<63-1 && c == -1<<63) {
							return mk("burn-nonce-not-plus-one", fmt.Sprintf("address %d: %d -> %d", a, p, c), i)
						}
					}
					if cur.extra != fmt.Sprintf("n%d", c) {
						return mk("burn-response-nonce", fmt.Sprintf("response %s, user node %d", cur.extra, c), i)
					}
				} else if c != p {
					return mk("burn-changed-other-user-node", fmt.Sprintf("address %d: %d -> %d", a, p, c), i)
				}
			}
			if getA(cur.accts, sender).nonce != getA(prev.accts, sender).nonce+1 {
				return mk("burn-txn-nonce", "sender nonce not advanced by one", i)
			}
		case "failed", "rejected":
			// a burn of at least the saved minimum to a named address is not refused by the contract
			if cur.status == "failed" && !below && addr >= 0 {
				return mk("valid-burn-refused", fmt.Sprintf("value %s >= saved MinBurnAmount %d, address %d, answer %s", value, minBurn, addr, cur.cls), i)
			}
			// nothing but fee and nonce (failed) / nothing at all (rejected)
			for a := 0; a < zcnw.NAddrs; a++ {
				if prev.users[a] != cur.users[a] {
					return mk("unsuccessful-burn-changed-user-node", fmt.Sprintf("address %d: %d -> %d", a, prev.users[a], cur.users[a]), i)
				}
			}
			for id := 0; id <= zcnw.NIDs; id++ {
				wv := new(big.Int)
				if cur.status == "failed" {
					if id == sender {
						wv.Sub(wv, fee)
					}
					if id == 0 {
						wv.Add(wv, fee)
					}
				}
				if delta(id).Cmp(wv) != 0 {
					return mk("unsuccessful-burn-moved-tokens", fmt.Sprintf("status %s: account %d changed by %s, expected %s", cur.status, id, delta(id), wv), i)
				}
				wantN := getA(prev.accts, id).nonce
				if cur.status == "failed" && id == sender {
					wantN++
				}
				if getA(cur.accts, id).nonce != wantN {
					return mk("unsuccessful-burn-nonce", fmt.Sprintf("status %s: account %d nonce %d -> %d", cur.status, id, getA(prev.accts, id).nonce, getA(cur.accts, id).nonce), i)
				}
			}
		default:
			return mk("unknown-status", cur.status, i)
		}
		prev = cur
	}
	return nil
}

func main() {
	zcnw.Setup()
	corr.Main(corr.Prop{
		ID: "C19", Model: "C19", Gen: gen, Impl: zcnw.Impl, Oracle: oracle, Serial: true,
		Cases: func(th bool) int {
			if th {
				return 6000
			}
			return 400
		},
		Fixed: [][]string{
			// warm-up burn, accepted update, REJECTED update that would lower the minimum, burns between the two minima
			{initLine(1, 100, 7, 1, []string{"2:100000:0", "3:5000:0"}, nil),
				"burn 3 100 1 1 a0", "updcfg 2 0 1 1 mb=300", "burn 3 200 1 2 a0", "burn 3 300 1 3 a0",
				"updcfg 2 0 1 2 mb=50,mf=0", "burn 3 60 1 4 a0", "burn 3 299 1 5 a1", "updcfg 3 0 1 6 mb=1", "burn 3 2 1 7 a0",
				"updcfg 2 0 1 3 mb=50,bad=1", "burn 3 60 1 8 a0", "updcfg 2 0 1 4 mb=50", "burn 3 60 1 9 a0", "burn 3 49 1 10 a0", "burn 3 7 1 11 a2"},
			{initLine(1, 100, 10000000000, 1, []string{"2:1000:0", "3:500:2", "1:0:0"}, []string{"1:7"}),
				"burn 2 100 5 1 a0", "burn 2 100 5 2 a0", "burn 3 150 5 3 a1", "burn 2 99 5 3 a0", "burn 2 100 5 4 e0", "burn 2 100 5 5 m1", "burn 2 100 5 6 a2", "burn 2 5000 5 7 a0", "burn 2 100 5 7 a0"},
			{initLine(0, 1, 5, 1, []string{"2:10:0"}, []string{"0:9223372036854775806"}), "burn 2 1 0 1 a0", "burn 2 1 0 2 a0", "burn 2 1 0 3 a0"},
			{initLine(1, 10, 3, 0, []string{"1:1000:0", "2:18446744073709551615:0", "0:5:0"}, nil), "burn 1 10 1 1 a0", "burn 2 10 18446744073709551615 1 a0", "burn 2 18446744073709551615 0 1 a0", "burn 0 0 0 1 a3"},
		},
		Extra: func() map[string]interface{} {
			m := map[string]interface{}{}
			for k, v := range zcnw.Stats {
				m[k] = v
			}
			return map[string]interface{}{"impl_outcomes": m}
		},
		Nontrivial: func(ops, outs []string) bool {
			k := map[string]bool{}
			for _, o := range outs {
				k[strings.Fields(o + " x")[0]] = true
			}
			return len(ops) >= 4 && len(k) >= 3
		},
	})
}
