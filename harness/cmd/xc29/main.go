// xc29: translator for property C29 (block hashes commit to block contents).
//
//	xc29 <gosrc> <out.lean>
//
// Type-checks chaincore/block, chaincore/transaction, core/common, core/encryption, core/datastore under <gosrc>
// and extracts, from the AST of the CURRENT source, into lean/ZChain/Generated/C29.lean:
//
//   - the ORDERED list of terms `Block.getHashData` writes into its builder, the separator between them, and the
//     terms appended under `if b.MagicBlock != nil` (with the fill-when-empty of `MagicBlock.Hash`);
//   - what a leaf of `GetMerkleTree` / `GetReceiptsMerkleTree` hashes (`GetHash()` of the leaf type, followed to
//     the transaction field it returns), and the key `ComputeTxnMap`/`ComputeProperties` put into `TxnsMap`;
//   - that `ComputeHash` is `encryption.Hash(getHashData())` and `encryption.Hash` is hex(SHA3-256);
//   - the ORDERED list of checks of `Block.Validate`;
//   - the exported fields of `block.Block` (embedded structs flattened) with the kind of their type.
//
// Fail closed: a statement or expression that matches none of the known shapes is an error (exit 1).
package main

import (
	"fmt"
	"go/ast"
	"go/token"
	"go/types"
	"os"
	"strings"

	"verifharness/hashx"
)

const (
	pBlock = "0chain.net/chaincore/block"
	pTxn   = "0chain.net/chaincore/transaction"
	pCom   = "0chain.net/core/common"
	pEnc   = "0chain.net/core/encryption"
	pDS    = "0chain.net/core/datastore"
	pCfg   = "0chain.net/core/config"
	pNode  = "0chain.net/chaincore/node"
	pUtil  = "github.com/0chain/common/core/util"
)

var w *hashx.World

func leanTerm(p hashx.Piece, recv types.Object) string {
	switch p.Kind {
	case "str":
		if len(p.Field) != 1 {
			w.Die(p.Pos, "string term on nested field %v", p.Field)
		}
		return ".str ." + hashx.LeanName(p.Field[0])
	case "dec":
		if len(p.Field) != 1 {
			w.Die(p.Pos, "decimal term on nested field %v", p.Field)
		}
		return ".dec ." + hashx.LeanName(p.Field[0])
	case "local":
		return localTerm(p, recv)
	}
	w.Die(p.Pos, "term kind %s is not part of the block-hash model", p.Kind)
	return ""
}

var locals = map[types.Object]ast.Expr{}

// a local defined as <tree>.GetRoot() with <tree> a local defined as b.<TreeBuilder>()
func localTerm(p hashx.Piece, recv types.Object) string {
	call, ok := p.Expr.(*ast.CallExpr)
	if !ok || len(call.Args) != 0 {
		w.Die(p.Pos, "local is not defined by a call: %s", w.Src(p.Expr))
	}
	fn := w.Callee(call)
	if fn == nil || fn.Name() != "GetRoot" || fn.Pkg() == nil || fn.Pkg().Path() != pUtil {
		w.Die(p.Pos, "local is not defined by util.MerkleTree.GetRoot(): %s", w.Src(p.Expr))
	}
	sel := call.Fun.(*ast.SelectorExpr)
	id, ok := sel.X.(*ast.Ident)
	if !ok {
		w.Die(p.Pos, "GetRoot receiver is not a local: %s", w.Src(sel.X))
	}
	info := w.Pkgs[pBlock].TypesInfo
	def, ok := locals[info.Uses[id]]
	if !ok {
		w.Die(p.Pos, "%s is not a single-assignment local", id.Name)
	}
	tc, ok := def.(*ast.CallExpr)
	if !ok || len(tc.Args) != 0 {
		w.Die(def.Pos(), "tree local is not defined by a method call: %s", w.Src(def))
	}
	if base, ok := w.FieldPath(tc.Fun.(*ast.SelectorExpr).X, recv); !ok || len(base) != 0 {
		w.Die(def.Pos(), "tree builder is not called on the receiver: %s", w.Src(def))
	}
	tfn := w.Callee(tc)
	if tfn == nil {
		w.Die(def.Pos(), "cannot resolve %s", w.Src(def))
	}
	leaf := treeLeaf(w.DeclOf(tfn))
	treeLeaves[tfn.Name()] = leaf
	switch tfn.Name() {
	case "GetMerkleTree":
		return ".txnRoot"
	case "GetReceiptsMerkleTree":
		return ".receiptRoot"
	}
	w.Die(def.Pos(), "unknown tree builder %s", tfn.Name())
	return ""
}

var treeLeaves = map[string]string{}

func leafOfPath(pos token.Pos, p []string) string {
	if len(p) == 1 && p[0] == "Hash" {
		return ".txnHash"
	}
	if len(p) == 1 && p[0] == "OutputHash" {
		return ".txnOutputHash"
	}
	w.Die(pos, "leaf hashes transaction field path %v, which the model does not know", p)
	return ""
}

// treeLeaf analyses GetMerkleTree / GetReceiptsMerkleTree and returns the Lean `Leaf`.
func treeLeaf(fd *ast.FuncDecl) string {
	recv := w.RecvObj(fd)
	info := w.Pkgs[pBlock].TypesInfo
	var hashables, tree, rangeVal types.Object
	var leafExpr ast.Expr
	stage := 0
	for _, s := range fd.Body.List {
		switch x := s.(type) {
		case *ast.DeclStmt:
			gd := x.Decl.(*ast.GenDecl)
			if gd.Tok != token.VAR || len(gd.Specs) != 1 {
				w.Die(x.Pos(), "unexpected declaration")
			}
			vs := gd.Specs[0].(*ast.ValueSpec)
			if len(vs.Names) != 1 {
				w.Die(x.Pos(), "unexpected declaration")
			}
			if len(vs.Values) == 1 && stage == 0 {
				mk, ok := vs.Values[0].(*ast.CallExpr)
				if !ok || len(mk.Args) != 2 {
					w.Die(x.Pos(), "expected make([]util.Hashable, len(b.Txns))")
				}
				if id, ok := mk.Fun.(*ast.Ident); !ok || id.Name != "make" {
					w.Die(x.Pos(), "expected make(...)")
				}
				ln, ok := mk.Args[1].(*ast.CallExpr)
				if !ok || len(ln.Args) != 1 {
					w.Die(x.Pos(), "expected len(b.Txns)")
				}
				if p, ok := w.FieldPath(ln.Args[0], recv); !ok || len(p) != 1 || p[0] != "Txns" {
					w.Die(x.Pos(), "leaf slice is not sized by len(b.Txns)")
				}
				hashables = info.Defs[vs.Names[0]]
				stage = 1
			} else if len(vs.Values) == 0 && stage == 2 {
				t := info.TypeOf(vs.Type)
				if n, ok := t.(*types.Named); !ok || n.Obj().Name() != "MerkleTree" || n.Obj().Pkg().Path() != pUtil {
					w.Die(x.Pos(), "tree variable is not a util.MerkleTree")
				}
				tree = info.Defs[vs.Names[0]]
				stage = 3
			} else {
				w.Die(x.Pos(), "unexpected declaration at this point")
			}
		case *ast.RangeStmt:
			if stage != 1 {
				w.Die(x.Pos(), "unexpected range statement")
			}
			if p, ok := w.FieldPath(x.X, recv); !ok || len(p) != 1 || p[0] != "Txns" {
				w.Die(x.Pos(), "leaves do not range over b.Txns")
			}
			kid, ok1 := x.Key.(*ast.Ident)
			vid, ok2 := x.Value.(*ast.Ident)
			if !ok1 || !ok2 || len(x.Body.List) != 1 {
				w.Die(x.Pos(), "unexpected range shape")
			}
			rangeVal = info.Defs[vid]
			as, ok := x.Body.List[0].(*ast.AssignStmt)
			if !ok || as.Tok != token.ASSIGN || len(as.Lhs) != 1 || len(as.Rhs) != 1 {
				w.Die(x.Pos(), "range body is not hashables[idx] = <leaf>")
			}
			ix, ok := as.Lhs[0].(*ast.IndexExpr)
			if !ok {
				w.Die(as.Pos(), "range body is not hashables[idx] = <leaf>")
			}
			if a, ok := ix.X.(*ast.Ident); !ok || info.Uses[a] != hashables {
				w.Die(as.Pos(), "assignment target is not the leaf slice")
			}
			if a, ok := ix.Index.(*ast.Ident); !ok || info.Uses[a] != info.Defs[kid] {
				w.Die(as.Pos(), "leaf index is not the range index")
			}
			leafExpr = as.Rhs[0]
			stage = 2
		case *ast.ExprStmt:
			c, ok := x.X.(*ast.CallExpr)
			if stage != 3 || !ok || len(c.Args) != 1 {
				w.Die(x.Pos(), "unexpected statement")
			}
			fn := w.Callee(c)
			if fn == nil || fn.Name() != "ComputeTree" || fn.Pkg().Path() != pUtil {
				w.Die(x.Pos(), "expected mt.ComputeTree(hashables)")
			}
			if a, ok := c.Fun.(*ast.SelectorExpr).X.(*ast.Ident); !ok || info.Uses[a] != tree {
				w.Die(x.Pos(), "ComputeTree not called on the tree variable")
			}
			if a, ok := c.Args[0].(*ast.Ident); !ok || info.Uses[a] != hashables {
				w.Die(x.Pos(), "ComputeTree not called with the leaf slice")
			}
			stage = 4
		case *ast.ReturnStmt:
			if stage != 4 || len(x.Results) != 1 {
				w.Die(x.Pos(), "unexpected return")
			}
			u, ok := x.Results[0].(*ast.UnaryExpr)
			if !ok || u.Op != token.AND {
				w.Die(x.Pos(), "expected return &mt")
			}
			if a, ok := u.X.(*ast.Ident); !ok || info.Uses[a] != tree {
				w.Die(x.Pos(), "expected return &mt")
			}
			stage = 5
		default:
			w.Die(s.Pos(), "unclassifiable statement in %s", fd.Name.Name)
		}
	}
	if stage != 5 {
		w.Die(fd.Pos(), "%s: incomplete tree construction", fd.Name.Name)
	}
	// the leaf expression: the transaction itself, or NewTransactionReceipt(txn)
	hashMethod := func(t types.Type) *ast.FuncDecl {
		ms := types.NewMethodSet(t)
		sel := ms.Lookup(nil, "GetHash")
		if sel == nil {
			w.Die(leafExpr.Pos(), "leaf type %s has no GetHash", t)
		}
		return w.DeclOf(sel.Obj().(*types.Func))
	}
	switch x := leafExpr.(type) {
	case *ast.Ident:
		if info.Uses[x] != rangeVal {
			w.Die(x.Pos(), "leaf is not the range value")
		}
		return leafOfPath(x.Pos(), w.GetterField(hashMethod(info.TypeOf(x))))
	case *ast.CallExpr:
		if !w.IsCallTo(x, pTxn, "NewTransactionReceipt") || len(x.Args) != 1 {
			w.Die(x.Pos(), "unclassifiable leaf constructor %s", w.Src(x))
		}
		if a, ok := x.Args[0].(*ast.Ident); !ok || info.Uses[a] != rangeVal {
			w.Die(x.Pos(), "receipt is not built from the range value")
		}
		// NewTransactionReceipt(t) = &TxnReceipt{Transaction: t}
		ctor := w.FuncDecl(pTxn, "", "NewTransactionReceipt")
		u, ok := w.SingleReturn(ctor).(*ast.UnaryExpr)
		if !ok || u.Op != token.AND {
			w.Die(ctor.Pos(), "NewTransactionReceipt is not `return &TxnReceipt{Transaction: t}`")
		}
		cl, ok := u.X.(*ast.CompositeLit)
		if !ok || len(cl.Elts) != 1 {
			w.Die(ctor.Pos(), "NewTransactionReceipt is not `return &TxnReceipt{Transaction: t}`")
		}
		kv, ok := cl.Elts[0].(*ast.KeyValueExpr)
		if !ok || kv.Key.(*ast.Ident).Name != "Transaction" {
			w.Die(ctor.Pos(), "NewTransactionReceipt does not set Transaction")
		}
		tinfo := w.Pkgs[pTxn].TypesInfo
		if a, ok := kv.Value.(*ast.Ident); !ok || tinfo.Uses[a] != tinfo.Defs[ctor.Type.Params.List[0].Names[0]] {
			w.Die(ctor.Pos(), "NewTransactionReceipt does not store its parameter")
		}
		p := w.GetterField(hashMethod(info.TypeOf(x)))
		if len(p) != 2 || p[0] != "Transaction" {
			w.Die(x.Pos(), "TxnReceipt.GetHash returns %v, expected a field of .Transaction", p)
		}
		return leafOfPath(x.Pos(), p[1:])
	}
	w.Die(leafExpr.Pos(), "unclassifiable leaf %s", w.Src(leafExpr))
	return ""
}

type hashData struct {
	sep    string
	terms  []string
	suffix []string
}

func isNilIdent(e ast.Expr) bool { id, ok := e.(*ast.Ident); return ok && id.Name == "nil" }
func isEmptyStr(e ast.Expr) bool {
	b, ok := e.(*ast.BasicLit)
	return ok && b.Kind == token.STRING && b.Value == `""`
}

func parseGetHashData(fd *ast.FuncDecl) hashData {
	recv := w.RecvObj(fd)
	info := w.Pkgs[pBlock].TypesInfo
	var builder types.Object
	var hd hashData
	var pieces []hashx.Piece
	writeArg := func(s ast.Stmt) (ast.Expr, bool) {
		es, ok := s.(*ast.ExprStmt)
		if !ok {
			return nil, false
		}
		c, ok := es.X.(*ast.CallExpr)
		if !ok || len(c.Args) != 1 {
			return nil, false
		}
		sel, ok := c.Fun.(*ast.SelectorExpr)
		if !ok || sel.Sel.Name != "WriteString" {
			return nil, false
		}
		id, ok := sel.X.(*ast.Ident)
		if !ok || builder == nil || info.Uses[id] != builder {
			return nil, false
		}
		return c.Args[0], true
	}
	// alternate term, sep, term, …; returns Lean terms
	layout := func(ps []hashx.Piece, leadingSep bool, where token.Pos) []string {
		var out []string
		expectSep := leadingSep
		for _, p := range ps {
			if expectSep {
				if p.Kind != "sep" {
					w.Die(p.Pos, "expected the separator literal before this term (two terms are written back to back)")
				}
				if hd.sep == "" {
					hd.sep = p.Lit
				} else if hd.sep != p.Lit {
					w.Die(p.Pos, "separator %q differs from %q", p.Lit, hd.sep)
				}
				expectSep = false
				continue
			}
			if p.Kind == "sep" {
				w.Die(p.Pos, "unexpected string literal %q where a term is expected", p.Lit)
			}
			out = append(out, termOf(p, recv))
			expectSep = true
		}
		if !expectSep {
			w.Die(where, "hash data ends with a separator")
		}
		return out
	}
	done := false
	for i, s := range fd.Body.List {
		if done {
			w.Die(s.Pos(), "statement after return")
		}
		if arg, ok := writeArg(s); ok {
			if hd.suffix != nil {
				w.Die(s.Pos(), "unconditional write after the conditional suffix")
			}
			pieces = append(pieces, w.ClassifyString(arg, recv, locals))
			continue
		}
		switch x := s.(type) {
		case *ast.AssignStmt:
			if x.Tok != token.DEFINE || len(x.Lhs) != 1 || len(x.Rhs) != 1 {
				w.Die(x.Pos(), "unclassifiable assignment %s", w.Src(x))
			}
			obj := info.Defs[x.Lhs[0].(*ast.Ident)]
			if cl, ok := x.Rhs[0].(*ast.CompositeLit); ok {
				if n, ok := info.TypeOf(cl).(*types.Named); ok && n.Obj().Pkg().Path() == "strings" && n.Obj().Name() == "Builder" && len(cl.Elts) == 0 {
					if builder != nil {
						w.Die(x.Pos(), "second builder")
					}
					builder = obj
					continue
				}
				w.Die(x.Pos(), "unclassifiable composite literal")
			}
			if _, ok := x.Rhs[0].(*ast.CallExpr); !ok {
				w.Die(x.Pos(), "local %s is not defined by a call", obj.Name())
			}
			locals[obj] = x.Rhs[0]
		case *ast.IfStmt:
			// if b.MagicBlock != nil { [if b.MagicBlock.Hash == "" { b.MagicBlock.Hash = b.MagicBlock.GetHash() }] writes… }
			if x.Init != nil || x.Else != nil || hd.suffix != nil {
				w.Die(x.Pos(), "unclassifiable if statement")
			}
			be, ok := x.Cond.(*ast.BinaryExpr)
			if !ok || be.Op != token.NEQ || !isNilIdent(be.Y) {
				w.Die(x.Pos(), "condition is not `b.MagicBlock != nil`")
			}
			if p, ok := w.FieldPath(be.X, recv); !ok || len(p) != 1 || p[0] != "MagicBlock" {
				w.Die(x.Pos(), "condition is not `b.MagicBlock != nil`")
			}
			hd.terms = layout(pieces, false, x.Pos())
			var sp []hashx.Piece
			filled := false
			for _, bs := range x.Body.List {
				if arg, ok := writeArg(bs); ok {
					if se, ok := arg.(*ast.SelectorExpr); ok {
						if p, ok := w.FieldPath(se, recv); ok && len(p) == 2 && p[0] == "MagicBlock" && p[1] == "Hash" {
							if !filled {
								w.Die(bs.Pos(), "MagicBlock.Hash written without the fill-when-empty step (model knows only mbHashOrComputed)")
							}
							sp = append(sp, hashx.Piece{Kind: "mbhash", Pos: arg.Pos()})
							continue
						}
					}
					sp = append(sp, w.ClassifyString(arg, recv, locals))
					continue
				}
				inner, ok := bs.(*ast.IfStmt)
				if !ok || inner.Init != nil || inner.Else != nil || len(sp) != 0 || filled {
					w.Die(bs.Pos(), "unclassifiable statement in the magic-block branch")
				}
				ie, ok := inner.Cond.(*ast.BinaryExpr)
				if !ok || ie.Op != token.EQL || !isEmptyStr(ie.Y) {
					w.Die(inner.Pos(), "expected `b.MagicBlock.Hash == \"\"`")
				}
				if p, ok := w.FieldPath(ie.X, recv); !ok || len(p) != 2 || p[0] != "MagicBlock" || p[1] != "Hash" {
					w.Die(inner.Pos(), "expected `b.MagicBlock.Hash == \"\"`")
				}
				if len(inner.Body.List) != 1 {
					w.Die(inner.Pos(), "expected one assignment")
				}
				as, ok := inner.Body.List[0].(*ast.AssignStmt)
				if !ok || as.Tok != token.ASSIGN || len(as.Lhs) != 1 || len(as.Rhs) != 1 {
					w.Die(inner.Pos(), "expected `b.MagicBlock.Hash = b.MagicBlock.GetHash()`")
				}
				if p, ok := w.FieldPath(as.Lhs[0], recv); !ok || len(p) != 2 || p[0] != "MagicBlock" || p[1] != "Hash" {
					w.Die(as.Pos(), "expected assignment to b.MagicBlock.Hash")
				}
				gc, ok := as.Rhs[0].(*ast.CallExpr)
				if !ok || len(gc.Args) != 0 {
					w.Die(as.Pos(), "expected b.MagicBlock.GetHash()")
				}
				gfn := w.Callee(gc)
				if gfn == nil || gfn.Name() != "GetHash" || gfn.Pkg().Path() != pBlock {
					w.Die(as.Pos(), "expected b.MagicBlock.GetHash()")
				}
				if p, ok := w.FieldPath(gc.Fun.(*ast.SelectorExpr).X, recv); !ok || len(p) != 1 || p[0] != "MagicBlock" {
					w.Die(as.Pos(), "GetHash not called on b.MagicBlock")
				}
				filled = true
			}
			hd.suffix = layout(sp, true, x.Pos())
			if len(hd.suffix) == 0 {
				w.Die(x.Pos(), "empty conditional suffix")
			}
		case *ast.ReturnStmt:
			if len(x.Results) != 1 {
				w.Die(x.Pos(), "unexpected return")
			}
			c, ok := x.Results[0].(*ast.CallExpr)
			if !ok || len(c.Args) != 0 {
				w.Die(x.Pos(), "expected return builder.String()")
			}
			sel, ok := c.Fun.(*ast.SelectorExpr)
			if !ok || sel.Sel.Name != "String" {
				w.Die(x.Pos(), "expected return builder.String()")
			}
			if id, ok := sel.X.(*ast.Ident); !ok || info.Uses[id] != builder {
				w.Die(x.Pos(), "expected return builder.String()")
			}
			if hd.suffix == nil {
				hd.terms = layout(pieces, false, x.Pos())
				hd.suffix = []string{}
			}
			done = true
			_ = i
		default:
			w.Die(s.Pos(), "unclassifiable statement in getHashData: %s", w.Src(s))
		}
	}
	if !done {
		w.Die(fd.Pos(), "getHashData does not end in return builder.String()")
	}
	if len(hd.sep) != 1 {
		w.Die(fd.Pos(), "separator %q is not a single byte", hd.sep)
	}
	return hd
}

func termOf(p hashx.Piece, recv types.Object) string {
	if p.Kind == "mbhash" {
		return ".mbHashOrComputed"
	}
	return leanTerm(p, recv)
}

// ComputeHash: `hashData := b.getHashData(); hash := encryption.Hash(hashData); return hash`
func checkComputeHash() {
	fd := w.FuncDecl(pBlock, "Block", "ComputeHash")
	recv := w.RecvObj(fd)
	info := w.Pkgs[pBlock].TypesInfo
	loc := map[types.Object]ast.Expr{}
	var ret ast.Expr
	for _, s := range fd.Body.List {
		switch x := s.(type) {
		case *ast.AssignStmt:
			if x.Tok != token.DEFINE || len(x.Lhs) != 1 || len(x.Rhs) != 1 || ret != nil {
				w.Die(x.Pos(), "ComputeHash: unclassifiable assignment")
			}
			loc[info.Defs[x.Lhs[0].(*ast.Ident)]] = x.Rhs[0]
		case *ast.ReturnStmt:
			if len(x.Results) != 1 || ret != nil {
				w.Die(x.Pos(), "ComputeHash: unexpected return")
			}
			ret = x.Results[0]
		default:
			w.Die(s.Pos(), "ComputeHash: unclassifiable statement")
		}
	}
	resolve := func(e ast.Expr) ast.Expr {
		for {
			id, ok := e.(*ast.Ident)
			if !ok {
				return e
			}
			d, ok := loc[info.Uses[id]]
			if !ok {
				return e
			}
			e = d
		}
	}
	if ret == nil {
		w.Die(fd.Pos(), "ComputeHash: no return")
	}
	hc, ok := resolve(ret).(*ast.CallExpr)
	if !ok || !w.IsCallTo(hc, pEnc, "Hash") || len(hc.Args) != 1 {
		w.Die(fd.Pos(), "ComputeHash does not return encryption.Hash(...)")
	}
	dc, ok := resolve(hc.Args[0]).(*ast.CallExpr)
	if !ok || len(dc.Args) != 0 {
		w.Die(fd.Pos(), "ComputeHash does not hash b.getHashData()")
	}
	fn := w.Callee(dc)
	if fn == nil || fn.Name() != "getHashData" || fn.Pkg().Path() != pBlock {
		w.Die(fd.Pos(), "ComputeHash does not hash b.getHashData()")
	}
	if p, ok := w.FieldPath(dc.Fun.(*ast.SelectorExpr).X, recv); !ok || len(p) != 0 {
		w.Die(fd.Pos(), "getHashData not called on the receiver")
	}
}

// the key stored in TxnsMap by ComputeTxnMap and by ComputeProperties
func mapKey(method string) string {
	fd := w.FuncDecl(pBlock, "Block", method)
	recv := w.RecvObj(fd)
	info := w.Pkgs[pBlock].TypesInfo
	var key string
	ast.Inspect(fd.Body, func(n ast.Node) bool {
		rs, ok := n.(*ast.RangeStmt)
		if !ok {
			return true
		}
		if p, ok := w.FieldPath(rs.X, recv); !ok || len(p) != 1 || p[0] != "Txns" {
			return true
		}
		vid, ok := rs.Value.(*ast.Ident)
		if !ok {
			w.Die(rs.Pos(), "%s: range without value", method)
		}
		for _, s := range rs.Body.List {
			as, ok := s.(*ast.AssignStmt)
			if !ok || len(as.Lhs) != 1 {
				continue
			}
			ix, ok := as.Lhs[0].(*ast.IndexExpr)
			if !ok {
				continue
			}
			if p, ok := w.FieldPath(ix.X, recv); !ok || len(p) != 1 || p[0] != "TxnsMap" {
				continue
			}
			kp, ok := w.FieldPath(ix.Index, info.Defs[vid])
			if !ok {
				w.Die(as.Pos(), "%s: TxnsMap key is not a field of the transaction", method)
			}
			if key != "" {
				w.Die(as.Pos(), "%s: two TxnsMap assignments", method)
			}
			key = leafOfPath(as.Pos(), kp)
		}
		return true
	})
	if key == "" {
		w.Die(fd.Pos(), "%s: no `b.TxnsMap[txn.<field>] = …` in a range over b.Txns", method)
	}
	return key
}

func parseValidate() []string {
	fd := w.FuncDecl(pBlock, "Block", "Validate")
	recv := w.RecvObj(fd)
	info := w.Pkgs[pBlock].TypesInfo
	var checks []string
	var miner, hashVar types.Object
	pending := "" // an `err :=`/`ok, err =` whose test must follow
	isField := func(e ast.Expr, name string) bool {
		p, ok := w.FieldPath(e, recv)
		return ok && len(p) == 1 && p[0] == name
	}
	isErrNotNil := func(e ast.Expr) bool {
		be, ok := e.(*ast.BinaryExpr)
		if !ok || be.Op != token.NEQ || !isNilIdent(be.Y) {
			return false
		}
		id, ok := be.X.(*ast.Ident)
		return ok && id.Name == "err"
	}
	stmts := fd.Body.List
	for i := 0; i < len(stmts); i++ {
		s := stmts[i]
		if w.IsMutexCall(s) {
			continue
		}
		switch x := s.(type) {
		case *ast.DeclStmt:
			gd := x.Decl.(*ast.GenDecl)
			for _, sp := range gd.Specs {
				if vs, ok := sp.(*ast.ValueSpec); !ok || len(vs.Values) != 0 {
					w.Die(x.Pos(), "Validate: declaration with a value")
				}
			}
		case *ast.AssignStmt:
			if pending != "" {
				w.Die(x.Pos(), "Validate: result of %s is not tested", pending)
			}
			if len(x.Rhs) != 1 {
				w.Die(x.Pos(), "Validate: unclassifiable assignment")
			}
			call, ok := x.Rhs[0].(*ast.CallExpr)
			if !ok {
				w.Die(x.Pos(), "Validate: unclassifiable assignment %s", w.Src(x))
			}
			switch {
			case w.IsCallTo(call, pCfg, "ValidChain") && len(call.Args) == 1 && len(x.Lhs) == 1:
				arg := call.Args[0]
				if c, ok := arg.(*ast.CallExpr); ok && w.IsCallTo(c, pDS, "ToString") && len(c.Args) == 1 {
					w.CheckIdentityString(pDS, "ToString")
					arg = c.Args[0]
				}
				if !isField(arg, "ChainID") {
					w.Die(x.Pos(), "ValidChain is not applied to b.ChainID")
				}
				pending = "chainValid"
			case w.IsCallTo(call, pNode, "GetNode") && len(call.Args) == 1 && len(x.Lhs) == 1 && x.Tok == token.DEFINE:
				if !isField(call.Args[0], "MinerID") {
					w.Die(x.Pos(), "GetNode is not applied to b.MinerID")
				}
				miner = info.Defs[x.Lhs[0].(*ast.Ident)]
				pending = "minerKnown"
			case len(x.Lhs) == 1 && x.Tok == token.DEFINE && len(call.Args) == 0:
				fn := w.Callee(call)
				if fn == nil || fn.Name() != "ComputeHash" || fn.Pkg().Path() != pBlock {
					w.Die(x.Pos(), "Validate: unclassifiable call %s", w.Src(call))
				}
				if p, ok := w.FieldPath(call.Fun.(*ast.SelectorExpr).X, recv); !ok || len(p) != 0 {
					w.Die(x.Pos(), "ComputeHash not called on the receiver")
				}
				hashVar = info.Defs[x.Lhs[0].(*ast.Ident)]
				pending = "hashMatches"
			case len(x.Lhs) == 2 && len(call.Args) == 2:
				fn := w.Callee(call)
				if fn == nil || fn.Name() != "Verify" {
					w.Die(x.Pos(), "Validate: unclassifiable call %s", w.Src(call))
				}
				if id, ok := call.Fun.(*ast.SelectorExpr).X.(*ast.Ident); !ok || miner == nil || info.Uses[id] != miner {
					w.Die(x.Pos(), "Verify is not called on the node returned by GetNode(b.MinerID)")
				}
				if !isField(call.Args[0], "Signature") || !isField(call.Args[1], "Hash") {
					w.Die(x.Pos(), "Verify is not called with (b.Signature, b.Hash)")
				}
				pending = "sigVerifies"
			default:
				w.Die(x.Pos(), "Validate: unclassifiable assignment %s", w.Src(x))
			}
		case *ast.IfStmt:
			if x.Init != nil {
				w.Die(x.Pos(), "Validate: if with init")
			}
			switch pending {
			case "chainValid":
				if !isErrNotNil(x.Cond) || x.Else != nil || !w.ReturnsError(x.Body) {
					w.Die(x.Pos(), "expected `if err != nil { return err }` after ValidChain")
				}
				checks = append(checks, ".chainValid")
				pending = ""
				continue
			case "minerKnown":
				be, ok := x.Cond.(*ast.BinaryExpr)
				if !ok || be.Op != token.EQL || !isNilIdent(be.Y) || x.Else != nil || !w.ReturnsError(x.Body) {
					w.Die(x.Pos(), "expected `if miner == nil { return error }`")
				}
				if id, ok := be.X.(*ast.Ident); !ok || info.Uses[id] != miner {
					w.Die(x.Pos(), "expected `if miner == nil`")
				}
				checks = append(checks, ".minerKnown")
				pending = ""
				continue
			case "hashMatches":
				be, ok := x.Cond.(*ast.BinaryExpr)
				if !ok || be.Op != token.NEQ || x.Else != nil || !w.ReturnsError(x.Body) {
					w.Die(x.Pos(), "expected `if b.Hash != hash { return error }`")
				}
				l, r := be.X, be.Y
				if isField(r, "Hash") {
					l, r = r, l
				}
				id, ok := r.(*ast.Ident)
				if !isField(l, "Hash") || !ok || info.Uses[id] != hashVar {
					w.Die(x.Pos(), "expected `if b.Hash != hash`")
				}
				checks = append(checks, ".hashMatches")
				pending = ""
				continue
			case "sigVerifies":
				// if err != nil { return err } else if !ok { return error }
				if !isErrNotNil(x.Cond) || !w.ReturnsError(x.Body) {
					w.Die(x.Pos(), "expected `if err != nil { return err } else if !ok { return error }`")
				}
				el, ok := x.Else.(*ast.IfStmt)
				if !ok || el.Else != nil || el.Init != nil || !w.ReturnsError(el.Body) {
					w.Die(x.Pos(), "expected `else if !ok { return error }`")
				}
				u, ok := el.Cond.(*ast.UnaryExpr)
				if !ok || u.Op != token.NOT {
					w.Die(el.Pos(), "expected `!ok`")
				}
				if id, ok := u.X.(*ast.Ident); !ok || id.Name != "ok" {
					w.Die(el.Pos(), "expected `!ok`")
				}
				checks = append(checks, ".sigVerifies")
				pending = ""
				continue
			}
			if x.Else != nil {
				w.Die(x.Pos(), "Validate: unclassifiable if/else")
			}
			switch c := x.Cond.(type) {
			case *ast.BinaryExpr:
				switch {
				case c.Op == token.EQL && isField(c.X, "Hash") && isEmptyStr(c.Y) && w.ReturnsError(x.Body):
					checks = append(checks, ".hashNonEmpty")
				case c.Op == token.NEQ && isField(c.X, "TxnsMap") && isNilIdent(c.Y):
					// { if len(b.Txns) != len(b.TxnsMap) { return error } }
					if len(x.Body.List) != 1 {
						w.Die(x.Pos(), "unclassifiable TxnsMap branch")
					}
					in, ok := x.Body.List[0].(*ast.IfStmt)
					if !ok || in.Init != nil || in.Else != nil || !w.ReturnsError(in.Body) {
						w.Die(x.Pos(), "unclassifiable TxnsMap branch")
					}
					ic, ok := in.Cond.(*ast.BinaryExpr)
					if !ok || ic.Op != token.NEQ {
						w.Die(in.Pos(), "expected len(b.Txns) != len(b.TxnsMap)")
					}
					lenOf := func(e ast.Expr) string {
						c, ok := e.(*ast.CallExpr)
						if !ok || len(c.Args) != 1 {
							return ""
						}
						if id, ok := c.Fun.(*ast.Ident); !ok || id.Name != "len" {
							return ""
						}
						p, ok := w.FieldPath(c.Args[0], recv)
						if !ok || len(p) != 1 {
							return ""
						}
						return p[0]
					}
					a, b := lenOf(ic.X), lenOf(ic.Y)
					if !((a == "Txns" && b == "TxnsMap") || (a == "TxnsMap" && b == "Txns")) {
						w.Die(in.Pos(), "expected len(b.Txns) != len(b.TxnsMap)")
					}
					checks = append(checks, ".noDupTxnsIfMap")
				default:
					w.Die(x.Pos(), "Validate: unclassifiable condition %s", w.Src(x.Cond))
				}
			case *ast.CallExpr:
				if w.IsCallTo(c, pDS, "IsEmpty") && len(c.Args) == 1 && isField(c.Args[0], "MinerID") && w.ReturnsError(x.Body) {
					checks = append(checks, ".minerNonEmpty")
				} else {
					w.Die(x.Pos(), "Validate: unclassifiable condition %s", w.Src(x.Cond))
				}
			default:
				w.Die(x.Pos(), "Validate: unclassifiable condition %s", w.Src(x.Cond))
			}
		case *ast.ReturnStmt:
			if pending != "" {
				w.Die(x.Pos(), "Validate: result of %s is not tested", pending)
			}
			if i != len(stmts)-1 || len(x.Results) != 1 || !isNilIdent(x.Results[0]) {
				w.Die(x.Pos(), "Validate: unexpected return")
			}
		default:
			w.Die(s.Pos(), "Validate: unclassifiable statement %s", w.Src(s))
		}
	}
	if pending != "" {
		w.Die(fd.Pos(), "Validate: result of %s is not tested", pending)
	}
	return checks
}

func main() {
	if len(os.Args) != 3 {
		fmt.Fprintln(os.Stderr, "usage: xc29 <gosrc> <out.lean>")
		os.Exit(2)
	}
	w = hashx.Load("xc29", os.Args[1], pBlock, pTxn, pCom, pEnc, pDS)
	hfd := w.FuncDecl(pBlock, "Block", "getHashData")
	hd := parseGetHashData(hfd)
	checkComputeHash()
	hashName := w.CheckEncryptionHash()
	for _, t := range []string{"GetMerkleTree", "GetReceiptsMerkleTree"} {
		if treeLeaves[t] == "" {
			// the tree is not part of the hash data any more: still record what it would hash
			treeLeaves[t] = treeLeaf(w.FuncDecl(pBlock, "Block", t))
		}
	}
	k1, k2 := mapKey("ComputeTxnMap"), mapKey("ComputeProperties")
	if k1 != k2 {
		w.Die(token.NoPos, "ComputeTxnMap keys TxnsMap by %s, ComputeProperties by %s", k1, k2)
	}
	checks := parseValidate()
	fields := w.StructFields(pBlock, "Block", map[string]bool{"UnverifiedBlockBody": true, "HashIDField": true, "VersionField": true, "CreationDateField": true})
	var fl []string
	for _, f := range fields {
		fl = append(fl, fmt.Sprintf("(.%s, .%s)", hashx.LeanName(f[0]), f[1]))
	}
	pos := w.Fset.Position(hfd.Pos())
	rel := strings.TrimPrefix(pos.Filename, strings.TrimSuffix(os.Args[1], "/")+"/")
	var b strings.Builder
	fmt.Fprintf(&b, "import ZChain.Model.BlockHash\n/-!\nGENERATED by harness/cmd/xc29 from %s (getHashData at line %d) — do not edit.\nRegenerated by `./check C29` on every run; the theorems of `Props/C29.lean` are stated over this table.\n-/\n", rel, pos.Line)
	fmt.Fprintf(&b, "namespace ZChain.Generated.C29\nopen ZChain.HashBind ZChain.BlockHash\n\n")
	fmt.Fprintf(&b, "def table : Table where\n  sep := %d\n  terms := [%s]\n  mbSuffix := [%s]\n  txnLeaf := %s\n  receiptLeaf := %s\n  mapKey := %s\n  checks := [%s]\n  fields := [%s]\n\n",
		hd.sep[0], strings.Join(hd.terms, ", "), strings.Join(hd.suffix, ", "), treeLeaves["GetMerkleTree"], treeLeaves["GetReceiptsMerkleTree"], k1,
		strings.Join(checks, ", "), strings.Join(fl, ", "))
	fmt.Fprintf(&b, "/-- `ComputeHash = encryption.Hash(getHashData())`, `encryption.Hash` = -/\ndef hashFunction : String := %q\n\nend ZChain.Generated.C29\n", hashName)
	if err := hashx.WriteLean(os.Args[2], b.String()); err != nil {
		w.Die(token.NoPos, "%v", err)
	}
	fmt.Printf("xc29: %d hash terms (sep %q), %d conditional, leaves %s/%s, %d Validate checks, %d struct fields, hash %s\n",
		len(hd.terms), hd.sep, len(hd.suffix), treeLeaves["GetMerkleTree"], treeLeaves["GetReceiptsMerkleTree"], len(checks), len(fields), hashName)
	fmt.Printf("terms: %s | suffix: %s\n", strings.Join(hd.terms, " "), strings.Join(hd.suffix, " "))
	fmt.Printf("checks: %s\n", strings.Join(checks, " "))
}
