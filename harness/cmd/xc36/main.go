// xc36: translator obligation of C36. `xc36 <gosrc> <out.lean>` writes lean/ZChain/Generated/C36.lean: the guards and
// the arithmetic of Chain.ComputeFinalizedBlock (protocol_round.go) and Chain.commonAncestor (protocol_block.go) as they
// are in the CURRENT source. Props/C36.lean states they are the ones Model/Finalize.lean was transcribed from.
// Fail closed: a missing function or unprintable guard is an error (exit 1).
package main

import (
	"fmt"
	"os"
	"path/filepath"

	"verifharness/guardx"
)

func main() {
	if len(os.Args) != 3 {
		fmt.Fprintln(os.Stderr, "usage: xc36 <gosrc> <out.lean>")
		os.Exit(2)
	}
	var facts []*guardx.Facts
	for _, x := range [][2]string{{"chaincore/chain/protocol_round.go", "ComputeFinalizedBlock"}, {"chaincore/chain/protocol_block.go", "commonAncestor"}} {
		f, err := guardx.Extract(filepath.Join(os.Args[1], x[0]), "Chain", x[1])
		if err != nil {
			fmt.Fprintln(os.Stderr, "xc36:", err)
			os.Exit(1)
		}
		facts = append(facts, f)
		fmt.Printf("%s: %d guards, %d arithmetic expressions\n", x[1], len(f.Guards), len(f.Arith))
	}
	if err := guardx.WriteLean(os.Args[2], "C36", "xc36", facts); err != nil {
		fmt.Fprintln(os.Stderr, "xc36:", err)
		os.Exit(1)
	}
}
