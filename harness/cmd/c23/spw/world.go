// Package spw ("stake-pool world") is the real-code side shared by the C23 and C11 harnesses: one in-process chain
// state (lib/engine: the real Chain.UpdateState, the real contracts, a real MPT) with providers of every kind
// registered through the contracts' own entry points, helpers to send contract transactions, to read the raw
// stake-pool records back (generic msgpack, no hook) and to name every MPT leaf that a transaction changed.
package spw

import (
	"encoding/hex"
	"fmt"
	"sort"
	"strings"
	"sync"

	"0chain.net/chaincore/block"
	"0chain.net/chaincore/chain"
	cstate "0chain.net/chaincore/chain/state"
	"0chain.net/chaincore/node"
	"0chain.net/chaincore/transaction"
	"0chain.net/core/encryption"
	"0chain.net/smartcontract/minersc"
	"0chain.net/smartcontract/storagesc"
	"0chain.net/smartcontract/zcnsc"
	"github.com/0chain/common/core/currency"
	"github.com/0chain/common/core/statecache"
	"github.com/0chain/common/core/util"
	"github.com/tinylib/msgp/msgp"
	"verifharness/lib/engine"
)

// OwnerID is owner_id of every contract in the repo's sc.yaml.
const OwnerID = "1746b06bb09f55ee01b33b5e2e055d6cc7a900cb57c0a3a5eaabb8a0e7745802"

// Owner is the contract owner as a client (UpdateState does not check signatures; only the id matters).
var Owner = engine.Client{ID: OwnerID, PublicKey: encryption.Hash("verif-owner-pk")}

// Kinds of provider, named as spenum.Provider.String() names them.
var Kinds = []string{"miner", "sharder", "blobber", "validator", "authorizer"}

func KindNum(k string) int {
	for i, n := range Kinds {
		if n == k {
			return i + 1
		}
	}
	return 0
}

func SCOf(kind string) string {
	switch kind {
	case "miner", "sharder":
		return minersc.ADDRESS
	case "blobber", "validator":
		return storagesc.ADDRESS
	case "authorizer":
		return zcnsc.ADDRESS
	}
	return ""
}

// Cl maps a client tag to its deterministic identity ("owner" is the contract owner of sc.yaml).
func Cl(tag string) engine.Client {
	if tag == "owner" {
		return Owner
	}
	return engine.NewClient(tag)
}

type Result struct {
	Status int    // transaction.TxnSuccess / TxnError; 0 when the engine rejected the transaction
	Err    error  // engine-level rejection
	Out    string // transaction output
}

func (r Result) OK() bool { return r.Err == nil && r.Status == transaction.TxnSuccess }

type World struct {
	W     *engine.World
	Nonce map[string]int64
	Names map[string]string // MPT path (hex of hashed key, or client id) -> readable key name
}

var setupOnce sync.Once

// MinerTags / SharderTags that the chain's magic block lists (add_miner/add_sharder demand membership).
var MinerTags = []string{"miner0", "m2", "m3"}
var SharderTags = []string{"s1", "s2", "s3"}

func setup() {
	setupOnce.Do(func() {
		c := engine.Setup()
		mb := block.NewMagicBlock()
		mb.Miners = node.NewPool(node.NodeTypeMiner)
		mb.Sharders = node.NewPool(node.NodeTypeSharder)
		for _, t := range MinerTags {
			n := node.Provider()
			n.ID = Cl(t).ID
			n.Type = node.NodeTypeMiner
			mb.Miners.NodesMap[n.ID] = n
			mb.Miners.Nodes = append(mb.Miners.Nodes, n)
		}
		for _, t := range SharderTags {
			n := node.Provider()
			n.ID = Cl(t).ID
			n.Type = node.NodeTypeSharder
			mb.Sharders.NodesMap[n.ID] = n
			mb.Sharders.Nodes = append(mb.Sharders.Nodes, n)
		}
		mb.StartingRound = 0
		c.SetMagicBlock(mb)
	})
}

// Name registers a readable name for a raw path (client ids are stored under the id itself).
func (w *World) Name(path, name string) { w.Names[path] = name }

// NameKey registers a readable name for a contract storage key (stored under the hash of the key).
func (w *World) NameKey(key, name string) { w.Names[encryption.Hash(key)] = name }

// Call sends one contract transaction from c (next nonce of c) through the real Chain.UpdateState.
func (w *World) Call(c engine.Client, sc, fn, input string, value currency.Coin) Result {
	n := w.Nonce[c.ID] + 1
	t := w.W.Txn(c, sc, value, 0, n, transaction.TxnTypeSmartContract, fn, input)
	_, err := w.W.Exec(t)
	if err != nil {
		return Result{Err: err}
	}
	w.Nonce[c.ID] = n
	return Result{Status: t.Status, Out: t.TransactionOutput}
}

// Direct runs f on a transaction-level state context built exactly as updateState builds its own and merges its
// writes into the block state (used for reward payments whose real triggers need a whole storage protocol run).
func (w *World) Direct(f func(sctx *cstate.StateContext) error) error {
	tc := statecache.NewTransactionCache(w.W.BC)
	mpt := chain.CreateTxnMPT(w.W.State, tc)
	t := &transaction.Transaction{}
	t.Hash = encryption.Hash(fmt.Sprintf("verif-direct-%d", len(w.Nonce)))
	t.CreationDate = w.W.Now
	sctx := w.W.C.NewStateContext(w.W.B, mpt, t, nil)
	if err := f(sctx); err != nil {
		return err
	}
	if err := w.W.State.MergeMPTChanges(mpt); err != nil {
		return err
	}
	tc.Commit()
	return nil
}

type rawNode struct{ b []byte }

func (r *rawNode) MarshalMsg(o []byte) ([]byte, error) { return append(o, r.b...), nil }
func (r *rawNode) UnmarshalMsg(b []byte) ([]byte, error) {
	r.b = append([]byte(nil), b...)
	return nil, nil
}

// Raw returns the stored bytes of a contract storage key (nil when absent).
func (w *World) Raw(key string) []byte {
	var r rawNode
	if err := w.W.State.GetNodeValue(util.Path(encryption.Hash(key)), &r); err != nil {
		return nil
	}
	return r.b
}

// Node decodes the stored value of a key as a generic msgpack tree (nil when absent or not a map).
func (w *World) Node(key string) map[string]interface{} {
	b := w.Raw(key)
	if b == nil {
		return nil
	}
	return DecodeMap(b)
}

func DecodeMap(b []byte) map[string]interface{} {
	v, _, err := msgp.ReadIntfBytes(b)
	if err != nil {
		return nil
	}
	m, _ := v.(map[string]interface{})
	return m
}

// Snapshot of all leaves: path -> bytes.
func (w *World) Snapshot() map[string][]byte {
	lv, err := w.W.Leaves()
	if err != nil {
		panic(err)
	}
	return lv
}

// Diff names every leaf that differs between two snapshots: "+name" created, "-name" deleted, "~name" changed. Sorted.
func (w *World) Diff(a, b map[string][]byte) []string {
	var res []string
	nm := func(p string) string {
		hp := p
		if !isHex(p) {
			hp = hex.EncodeToString([]byte(p))
		}
		if n, ok := w.Names[hp]; ok {
			return n
		}
		return "?" + hp
	}
	for p, v := range b {
		if ov, ok := a[p]; !ok {
			res = append(res, "+"+nm(p))
		} else if string(ov) != string(v) {
			res = append(res, "~"+nm(p))
		}
	}
	for p := range a {
		if _, ok := b[p]; !ok {
			res = append(res, "-"+nm(p))
		}
	}
	sort.Strings(res)
	return res
}

func isHex(s string) bool {
	if len(s) == 0 {
		return false
	}
	for _, c := range s {
		if !strings.ContainsRune("0123456789abcdef", c) {
			return false
		}
	}
	return true
}

func U64(v interface{}) uint64 {
	switch x := v.(type) {
	case uint64:
		return x
	case int64:
		return uint64(x)
	case int:
		return uint64(x)
	case uint32:
		return uint64(x)
	case int32:
		return uint64(x)
	case uint16:
		return uint64(x)
	case int16:
		return uint64(x)
	case uint8:
		return uint64(x)
	case int8:
		return uint64(x)
	case uint:
		return uint64(x)
	}
	return 0
}

// DecodeAny decodes msgpack bytes into a generic tree (nil on error).
func DecodeAny(b []byte) interface{} {
	v, _, err := msgp.ReadIntfBytes(b)
	if err != nil {
		return nil
	}
	return v
}
