package spw

// Interpreter of the C23/C11 operation lines on the REAL code (see lean/ZChain/Drv/C23.lean for the protocol).

import (
	"bufio"
	"bytes"
	"encoding/json"
	"fmt"
	"math"
	"os"
	"os/exec"
	"sort"
	"strconv"
	"strings"
	"sync"

	"0chain.net/chaincore/chain"
	cstate "0chain.net/chaincore/chain/state"
	"0chain.net/chaincore/smartcontract"
	"0chain.net/chaincore/state"
	"0chain.net/chaincore/transaction"
	"0chain.net/core/common"
	"0chain.net/core/config"
	"0chain.net/core/encryption"
	"0chain.net/smartcontract/minersc"
	"0chain.net/smartcontract/provider"
	"0chain.net/smartcontract/stakepool"
	"0chain.net/smartcontract/stakepool/spenum"
	"0chain.net/smartcontract/storagesc"
	"0chain.net/smartcontract/zcnsc"
	"github.com/0chain/common/core/currency"
	"github.com/0chain/common/core/statecache"
	"github.com/0chain/common/core/util"
	"verifharness/lib/engine"
)

// MaxID bounds the numeric ids of a case (0 minersc, 1 storagesc, 2 zcnsc, 3 owner, others clients "id<n>").
const MaxID = 64

// MinLockSeconds is the stakepool.min_lock_period the harness configures (node-local YAML setting, not chain state).
const MinLockSeconds = 3600

var (
	idOnce sync.Once
	idTab  [MaxID]engine.Client
)

func idTable() *[MaxID]engine.Client {
	idOnce.Do(func() {
		for n := 0; n < MaxID; n++ {
			switch n {
			case 0:
				idTab[n] = engine.Client{ID: minersc.ADDRESS, PublicKey: encryption.Hash("verif-sc-pk-0")}
			case 1:
				idTab[n] = engine.Client{ID: storagesc.ADDRESS, PublicKey: encryption.Hash("verif-sc-pk-1")}
			case 2:
				idTab[n] = engine.Client{ID: zcnsc.ADDRESS, PublicKey: encryption.Hash("verif-sc-pk-2")}
			case 3:
				idTab[n] = Owner
			default:
				idTab[n] = engine.NewClient(fmt.Sprintf("id%d", n))
			}
		}
	})
	return &idTab
}

func IDOf(n int) string { return idTable()[n].ID }

func ClientOf(n int) engine.Client { return idTable()[n] }

// Order lists 0..MaxID-1 in ascending order of the hex ids (OrderedPoolIds order).
func Order() []int {
	ids := make([]int, MaxID)
	for i := range ids {
		ids[i] = i
	}
	sort.Slice(ids, func(a, b int) bool { return IDOf(ids[a]) < IDOf(ids[b]) })
	return ids
}

func OrderString() string {
	var p []string
	for _, i := range Order() {
		p = append(p, strconv.Itoa(i))
	}
	return strings.Join(p, ",")
}

var (
	numOnce sync.Once
	numOf   map[string]int
)

func NumOf(id string) (int, bool) {
	numOnce.Do(func() {
		numOf = map[string]int{}
		for i := 0; i < MaxID; i++ {
			numOf[IDOf(i)] = i
		}
	})
	n, ok := numOf[id]
	return n, ok
}

func init() {
	MinerTags = nil
	SharderTags = nil
	for i := 10; i < 15; i++ {
		MinerTags = append(MinerTags, fmt.Sprintf("id%d", i))
	}
	for i := 20; i < 25; i++ {
		SharderTags = append(SharderTags, fmt.Sprintf("id%d", i))
	}
}

var cfgOnce sync.Once

type runner struct {
	snap  map[string][]byte // all leaves after the last state change (one MPT iteration per transaction)
	w     *World
	kinds map[int]string // ids registered in this case -> kind (bookkeeping for the child-process rule only)
	child bool
}

func f64hex(s string) (float64, bool) {
	v, err := strconv.ParseUint(s, 16, 64)
	if err != nil || len(s) != 16 {
		return 0, false
	}
	return math.Float64frombits(v), true
}

func (r *runner) init(ws []string) string {
	if len(ws) != 7 {
		return "bad-op"
	}
	slash, ok := f64hex(ws[2])
	spMin, ok2 := u64(ws[6])
	if !ok || !ok2 {
		return "bad-op"
	}
	setup()
	cfgOnce.Do(func() {
		config.SmartContractConfig.Set("stakepool.min_lock_period", fmt.Sprintf("%ds", MinLockSeconds))
	})
	bal := map[string]currency.Coin{}
	for _, kv := range strings.Split(ws[5], ",") {
		p := strings.Split(kv, "=")
		if len(p) != 2 {
			return "bad-op"
		}
		n, e1 := strconv.Atoi(p[0])
		b, e2 := strconv.ParseUint(p[1], 10, 64)
		if e1 != nil || e2 != nil || n < 0 || n >= MaxID {
			return "bad-op"
		}
		bal[IDOf(n)] = currency.Coin(b)
	}
	w, err := newWorld(bal, ws[1] == "1", slash, spMin)
	if err != nil {
		panic(err)
	}
	r.w = w
	r.kinds = map[int]string{}
	r.snap = w.Snapshot()
	return "ok"
}

func newWorld(bal map[string]currency.Coin, forks bool, slash float64, spMin uint64) (*World, error) {
	w, err := engine.NewWorld(bal, func(sctx *cstate.StateContext) error {
		for _, f := range []func() error{
			func() error { return storagesc.InitPartitions(sctx) },
			func() error { return minersc.InitConfig(sctx) },
			func() error { return storagesc.InitConfig(sctx) },
			func() error { return zcnsc.InitConfig(sctx) },
		} {
			if err := f(); err != nil {
				return err
			}
		}
		if forks {
			for _, n := range []string{"demeter", "electra"} {
				if _, err := sctx.InsertTrieNode(cstate.NewHardFork(n, 0).GetKey(), cstate.NewHardFork(n, 0)); err != nil {
					return err
				}
			}
		}
		// stakepool.kill_slash of the storage contract (an owner-governed setting; C48 covers the setter)
		key := storagesc.ADDRESS + encryption.Hash("storagesc_config")
		conf := &storagesc.Config{}
		if err := sctx.GetTrieNode(key, conf); err != nil {
			return err
		}
		conf.StakePool.KillSlash = slash
		conf.MinStakePerDelegate = currency.Coin(spMin) // min_stake_per_delegate (copied into a new pool's Settings.MinStake)
		if _, err := sctx.InsertTrieNode(key, conf); err != nil {
			return err
		}
		// one-time creation of the blobber-weights partition record (otherwise the first stake_pool_lock creates it)
		return storagesc.PartitionsChallengeReadyBlobberUpdate(sctx, "nobody", 0, 0)
	})
	if err != nil {
		return nil, err
	}
	sw := &World{W: w, Nonce: map[string]int64{}, Names: map[string]string{}}
	for i := 0; i < MaxID; i++ {
		id := IDOf(i)
		sw.Name(id, fmt.Sprintf("acct:%d", i))
		for _, k := range Kinds {
			sw.NameKey(k+":stakepool:"+id, fmt.Sprintf("sp:%s:%d", k, i))
		}
		sw.NameKey("provider:"+id, fmt.Sprintf("prov:%d", i))
		sw.NameKey(encryption.Hash(storagesc.ALL_VALIDATORS_KEY+":"+id), fmt.Sprintf("part:validators:loc:%d", i))
	}
	sw.NameKey(storagesc.ALL_VALIDATORS_KEY, "part:validators")
	sw.NameKey(storagesc.ALL_CHALLENGE_READY_BLOBBERS_KEY, "part:crb")
	for i := 0; i < 4; i++ {
		sw.NameKey(storagesc.ALL_VALIDATORS_KEY+encryption.Hash(":partition:"+strconv.Itoa(i)), fmt.Sprintf("part:validators:%d", i))
	}
	sw.NameKey(minersc.GlobalNodeKey, "minersc:global")
	sw.NameKey(storagesc.AUTHORIZERS_COUNT_KEY, "zcn:auth-count")
	w.B.MinerID = IDOf(10)
	return sw, nil
}

func kindProvider(k string) spenum.Provider { return spenum.Provider(KindNum(k)) }

func classify(out string) string {
	has := func(s string) bool { return strings.Contains(out, s) }
	switch {
	case has("unauthorized access"):
		return "unauthorized"
	case has("already killed or shutdown"), has("is already killed"):
		return "already"
	case has("no smart contract method"), has("no miner smart contract method"), has("invalid storage function"), has("is not a valid"):
		return "no-function"
	case has("no such delegate pool"), has("can't find pool of"):
		return "no-pool"
	case has("no stake to lock"):
		return "lock-zero"
	case has("too small stake to lock"):
		return "lock-small"
	case has("too large stake to lock"):
		return "lock-large"
	case has("could not stake pool in"):
		return "lock-deleted"
	case has("max_delegates reached"):
		return "max-delegates"
	case has("no tokens to lock"):
		return "no-tokens"
	case has("lock amount is greater than balance"):
		return "low-balance"
	case has("token can only be unstaked till"):
		return "too-early"
	case has("insufficent stake to cover offers"):
		return "offers"
	case has("cannot find rewards"):
		return "no-rewards"
	case has("should be in the interval"):
		return "bad-slash"
	case has("should be"):
		return "wrong-kind"
	case has("value not present"), has("can't get stake pool"), has("can't get related stake pool"), has("not found"), has("can't get the blobber"):
		return "not-found"
	}
	return "other:" + strings.ReplaceAll(strings.TrimSpace(out), " ", "_")
}

func (r *runner) call(sender int, sc, fn, input string, value uint64, now int64) (string, []string) {
	a := r.snap
	r.w.W.Now = common.Timestamp(now)
	res := r.w.Call(ClientOf(sender), sc, fn, input, currency.Coin(value))
	b := r.w.Snapshot()
	r.snap = b
	d := r.w.Diff(a, b)
	st := "ok"
	switch {
	case res.Err != nil:
		st = "reject"
	case res.Status != transaction.TxnSuccess:
		st = "fail:" + classify(res.Out)
	}
	return st, d
}

func join(st string, d []string) string { return strings.TrimSpace(st + " " + strings.Join(d, " ")) }

func atoi(s string) (int, bool) {
	n, err := strconv.Atoi(s)
	return n, err == nil && n >= 0 && n < MaxID && len(s) <= 20
}

func u64(s string) (uint64, bool) {
	if len(s) > 20 {
		return 0, false
	}
	n, err := strconv.ParseUint(s, 10, 64)
	return n, err == nil
}

func fmtF(f float64) string { return strconv.FormatFloat(f, 'g', -1, 64) }

func (r *runner) reg(ws []string) string {
	if len(ws) != 6 || KindNum(ws[1]) == 0 {
		return "bad-op"
	}
	pid, ok1 := atoi(ws[2])
	wal, ok2 := atoi(ws[3])
	md, ok3 := u64(ws[4])
	ratio, ok4 := f64hex(ws[5])
	if !ok1 || !ok2 || !ok3 || !ok4 {
		return "bad-op"
	}
	c := ClientOf(pid)
	sps := fmt.Sprintf(`{"delegate_wallet":%q,"num_delegates":%d,"service_charge":%s}`, IDOf(wal), md, fmtF(ratio))
	var st string
	switch ws[1] {
	case "blobber":
		st, _ = r.call(pid, storagesc.ADDRESS, "add_blobber", fmt.Sprintf(`{"url":"http://b%d.example:5051","capacity":107374182400,"terms":{"read_price":100000000,"write_price":1000000000},"stake_pool_settings":%s}`, pid, sps), 0, 1700000000)
	case "validator":
		st, _ = r.call(pid, storagesc.ADDRESS, "add_validator", fmt.Sprintf(`{"url":"http://v%d.example:5061","stake_pool_settings":%s}`, pid, sps), 0, 1700000000)
	case "miner", "sharder":
		fn := "add_" + ws[1]
		in := fmt.Sprintf(`{"simple_miner":{"id":%q,"n2n_host":"n%d.example","host":"n%d.example","port":%d,"path":"p","public_key":%q,"short_name":"n%d"},"stake_pool":{"settings":%s}}`,
			c.ID, pid, pid, 7000+pid, c.PublicKey, pid, sps)
		st, _ = r.call(pid, minersc.ADDRESS, fn, in, 0, 1700000000)
	case "authorizer":
		st, _ = r.call(3, zcnsc.ADDRESS, "add-authorizer", fmt.Sprintf(`{"public_key":%q,"url":"http://a%d.example","stake_pool_settings":%s}`, c.PublicKey, pid, sps), 0, 1700000000)
	}
	if st == "ok" {
		r.kinds[pid] = ws[1]
		return "ok"
	}
	if strings.HasPrefix(st, "fail:") {
		return "fail:exists"
	}
	return st
}

var lockFn = map[string]string{"miner": "addToDelegatePool", "sharder": "addToDelegatePool", "blobber": "stake_pool_lock", "validator": "stake_pool_lock", "authorizer": "add-to-delegate-pool"}
var unlockFn = map[string]string{"miner": "deleteFromDelegatePool", "sharder": "deleteFromDelegatePool", "blobber": "stake_pool_unlock", "validator": "stake_pool_unlock", "authorizer": "delete-from-delegate-pool"}
var collectFn = map[string]string{"miner": "collect_reward", "sharder": "collect_reward", "blobber": "collect_reward", "validator": "collect_reward", "authorizer": "collect-rewards"}

// risky: a storagesc kill / shut-down aimed at an id that this case registered as another kind may kill the process
// (unrecovered panic in the contract goroutine); such an op is first tried in a child process.
func (r *runner) risky(kind string, target int) bool {
	if kind != "blobber" && kind != "validator" {
		return false
	}
	k, ok := r.kinds[target]
	return ok && k != kind
}

func childCrashes(prefix []string) bool {
	exe, err := os.Executable()
	if err != nil {
		panic(err)
	}
	cmd := exec.Command(exe)
	cmd.Env = append(os.Environ(), "VERIF_SPW_CHILD=1")
	cmd.Stdin = strings.NewReader(strings.Join(prefix, "\n") + "\n")
	var out, errb bytes.Buffer
	cmd.Stdout = &out
	cmd.Stderr = &errb
	err = cmd.Run()
	if err == nil {
		return false
	}
	if strings.Contains(errb.String(), "panic:") {
		return true
	}
	panic(fmt.Sprintf("child failed without a Go panic: %v: %.300s", err, errb.String()))
}

// ChildMain: replay the op lines from stdin (used by childCrashes). Returns after printing one answer per line.
func ChildMain() {
	var ops []string
	sc := bufio.NewScanner(os.Stdin)
	sc.Buffer(make([]byte, 1<<20), 1<<26)
	for sc.Scan() {
		ops = append(ops, sc.Text())
	}
	for _, o := range run(ops, true) {
		fmt.Println(o)
	}
}

// Run executes one case on the real code.
func Run(ops []string) []string { return run(ops, false) }

func run(ops []string, child bool) []string {
	r := &runner{child: child}
	outs := make([]string, len(ops))
	for i, op := range ops {
		ws := strings.Fields(op)
		if len(ws) == 0 {
			outs[i] = "bad-op"
			continue
		}
		if ws[0] != "init" && r.w == nil {
			outs[i] = "bad-op"
			continue
		}
		func() {
			defer func() {
				if e := recover(); e != nil {
					outs[i] = fmt.Sprintf("harness-panic:%v", e)
				}
			}()
			outs[i] = r.step(ws, ops[:i+1])
		}()
	}
	return outs
}

func (r *runner) step(ws []string, prefix []string) string {
	switch ws[0] {
	case "init":
		return r.init(ws)
	case "reg":
		return r.reg(ws)
	case "lock":
		if len(ws) != 6 || KindNum(ws[1]) == 0 {
			return "bad-op"
		}
		pid, ok1 := atoi(ws[2])
		c, ok2 := atoi(ws[3])
		v, ok3 := u64(ws[4])
		now, ok4 := u64(ws[5])
		if !ok1 || !ok2 || !ok3 || !ok4 {
			return "bad-op"
		}
		return join(r.call(c, SCOf(ws[1]), lockFn[ws[1]], fmt.Sprintf(`{"provider_type":%d,"provider_id":%q}`, KindNum(ws[1]), IDOf(pid)), v, int64(now)))
	case "unlock":
		if len(ws) != 5 || KindNum(ws[1]) == 0 {
			return "bad-op"
		}
		pid, ok1 := atoi(ws[2])
		c, ok2 := atoi(ws[3])
		_, ok3 := u64(ws[4]) // the wall-clock value is an input of the model only: the real code reads time.Now()
		if !ok1 || !ok2 || !ok3 {
			return "bad-op"
		}
		return join(r.call(c, SCOf(ws[1]), unlockFn[ws[1]], fmt.Sprintf(`{"provider_type":%d,"provider_id":%q}`, KindNum(ws[1]), IDOf(pid)), 0, 1700000000))
	case "collect":
		if len(ws) != 4 || KindNum(ws[1]) == 0 {
			return "bad-op"
		}
		pid, ok1 := atoi(ws[2])
		c, ok2 := atoi(ws[3])
		if !ok1 || !ok2 {
			return "bad-op"
		}
		return join(r.call(c, SCOf(ws[1]), collectFn[ws[1]], fmt.Sprintf(`{"provider_type":%d,"provider_id":%q}`, KindNum(ws[1]), IDOf(pid)), 0, 1700000000))
	case "kill", "shutdown":
		if len(ws) != 4 || KindNum(ws[1]) == 0 {
			return "bad-op"
		}
		rid, ok1 := atoi(ws[2])
		c, ok2 := atoi(ws[3])
		if !ok1 || !ok2 {
			return "bad-op"
		}
		if !r.child && r.risky(ws[1], rid) && childCrashes(prefix) {
			return "panic"
		}
		return join(r.call(c, SCOf(ws[1]), ws[0]+"_"+ws[1], fmt.Sprintf(`{"provider_id":%q}`, IDOf(rid)), 0, 1700000000))
	case "delauth":
		if len(ws) != 3 {
			return "bad-op"
		}
		rid, ok1 := atoi(ws[1])
		c, ok2 := atoi(ws[2])
		if !ok1 || !ok2 {
			return "bad-op"
		}
		return join(r.call(c, zcnsc.ADDRESS, "delete-authorizer", fmt.Sprintf(`{"id":%q}`, IDOf(rid)), 0, 1700000000))
	case "reward":
		if len(ws) != 4 || KindNum(ws[1]) == 0 {
			return "bad-op"
		}
		pid, ok1 := atoi(ws[2])
		v, ok2 := u64(ws[3])
		if !ok1 || !ok2 {
			return "bad-op"
		}
		return r.reward(ws[1], pid, v)
	case "setdata":
		if len(ws) != 3 {
			return "bad-op"
		}
		pid, ok1 := atoi(ws[1])
		if !ok1 || (ws[2] != "0" && ws[2] != "1") {
			return "bad-op"
		}
		return r.setdata(pid, ws[2] == "1")
	case "alloc":
		if len(ws) != 5 {
			return "bad-op"
		}
		c, ok1 := atoi(ws[1])
		b1, ok2 := atoi(ws[2])
		b2, ok3 := atoi(ws[3])
		_, ok4 := u64(ws[4])
		if !ok1 || !ok2 || !ok3 || !ok4 {
			return "bad-op"
		}
		cl := ClientOf(c)
		in := fmt.Sprintf(`{"data_shards":1,"parity_shards":1,"size":1073741824,"owner_id":%q,"owner_public_key":%q,"blobbers":[%q,%q],"blobber_auth_tickets":["",""],"read_price_range":{"min":0,"max":100000000000},"write_price_range":{"min":0,"max":100000000000}}`,
			cl.ID, cl.PublicKey, IDOf(b1), IDOf(b2))
		st, _ := r.call(c, storagesc.ADDRESS, "new_allocation_request", in, 100000000000, 1700000000)
		if st == "ok" {
			return "ok"
		}
		if os.Getenv("VERIF_SPW_DEBUG") != "" {
			return "fail " + st
		}
		return "fail"
	case "payfees":
		if len(ws) != 1 {
			return "bad-op"
		}
		return r.payfees()
	case "dump":
		if len(ws) != 1 {
			return "bad-op"
		}
		return r.dump()
	}
	return "bad-op"
}

func rewardClass(err error) string {
	if err == nil {
		return ""
	}
	s := err.Error()
	switch {
	case s == "no stake":
		return "reward:no-stake"
	case strings.Contains(s, "value not present"):
		return "not-found"
	case strings.Contains(s, "should be"):
		return "wrong-kind"
	}
	return "other:" + strings.ReplaceAll(s, " ", "_")
}

// reward: what a reward-paying contract path does with the provider's pool — load it under the provider's id,
// DistributeRewards, save it back under the same key.
func (r *runner) reward(kind string, pid int, value uint64) (res string) {
	a := r.snap
	id := IDOf(pid)
	defer func() {
		if e := recover(); e != nil {
			res = "fail:reward:panic-assert"
		}
	}()
	err := r.w.Direct(func(sctx *cstate.StateContext) error {
		switch kind {
		case "blobber", "validator":
			return storagesc.VerifC23Reward(sctx, kindProvider(kind), id, currency.Coin(value))
		case "miner", "sharder":
			mn := minersc.NewMinerNode()
			mn.ID = id
			if err := sctx.GetTrieNode(mn.GetKey(), mn); err != nil {
				return err
			}
			if mn.ProviderType != kindProvider(kind) {
				return fmt.Errorf("provider is %s should be %s", mn.ProviderType, kind)
			}
			rt := spenum.BlockRewardMiner
			if kind == "sharder" {
				rt = spenum.BlockRewardSharder
			}
			if err := mn.StakePool.DistributeRewards(currency.Coin(value), id, kindProvider(kind), rt, sctx); err != nil {
				return err
			}
			_, err := sctx.InsertTrieNode(mn.GetKey(), mn)
			return err
		case "authorizer":
			sp := zcnsc.NewStakePool()
			key := stakepool.StakePoolKey(spenum.Authorizer, id)
			if err := sctx.GetTrieNode(key, sp); err != nil {
				return err
			}
			if err := sp.DistributeRewards(currency.Coin(value), id, spenum.Authorizer, spenum.FeeRewardAuthorizer, sctx); err != nil {
				return err
			}
			_, err := sctx.InsertTrieNode(key, sp)
			return err
		}
		return fmt.Errorf("unknown kind")
	})
	if err != nil {
		return "fail:" + rewardClass(err)
	}
	b := r.w.Snapshot()
	r.snap = b
	return join("ok", r.w.Diff(a, b))
}

// setdata: the blobber stores data (SavedData > 0) or none; the real trigger is commit_connection (hook, see there).
func (r *runner) setdata(pid int, has bool) string {
	a := r.snap
	n := int64(0)
	if has {
		n = 1 << 20
	}
	err := r.w.Direct(func(sctx *cstate.StateContext) error {
		return storagesc.VerifC23SetSavedData(sctx, IDOf(pid), n)
	})
	if err != nil {
		return "fail:" + rewardClass(err)
	}
	b := r.w.Snapshot()
	r.snap = b
	return join("ok", r.w.Diff(a, b))
}

// payfees: dry run of the real minersc payFees on a throw-away transaction state; lists the dead miners / sharders
// whose record it would change.
func (r *runner) payfees() (res string) {
	defer func() {
		if e := recover(); e != nil {
			res = fmt.Sprintf("rewarded-dead=panic:%v", e)
		}
	}()
	w := r.w.W
	tc := statecache.NewTransactionCache(w.BC)
	mpt := chain.CreateTxnMPT(w.State, tc)
	gen := ClientOf(10)
	t := w.Txn(gen, minersc.ADDRESS, 0, 0, r.w.Nonce[gen.ID]+1, transaction.TxnTypeSmartContract, "payFees", fmt.Sprintf(`{"round":%d}`, w.Round))
	sctx := w.C.NewStateContext(w.B, mpt, t, nil)
	_, _ = smartcontract.ExecuteSmartContract(t, sctx)
	var dead []string
	for i := 0; i < MaxID; i++ {
		key := "provider:" + IDOf(i)
		before := r.raw(key)
		if before == nil {
			continue
		}
		m := DecodeMap(before)
		spm, _ := m["StakePool"].(map[string]interface{})
		if spm == nil {
			continue
		}
		if k, _ := spm["HasBeenKilled"].(bool); !k {
			continue
		}
		var after rawNode
		if err := mpt.GetNodeValue(util.Path(encryption.Hash(key)), &after); err != nil || !bytes.Equal(after.b, before) {
			dead = append(dead, strconv.Itoa(i))
		}
	}
	return "rewarded-dead=" + strings.Join(dead, ",")
}

func findProvFlags(v interface{}) (kind int, sd, killed, ok bool) {
	switch x := v.(type) {
	case map[string]interface{}:
		_, a := x["HasBeenShutDown"]
		_, b := x["HasBeenKilled"]
		_, c := x["ProviderType"]
		if a && b && c {
			s, _ := x["HasBeenShutDown"].(bool)
			k, _ := x["HasBeenKilled"].(bool)
			return int(U64(x["ProviderType"])), s, k, true
		}
		keys := make([]string, 0, len(x))
		for k := range x {
			keys = append(keys, k)
		}
		sort.Strings(keys)
		for _, k := range keys {
			if k == "StakePool" {
				continue
			}
			if kd, s, kl, ok := findProvFlags(x[k]); ok {
				return kd, s, kl, true
			}
		}
	case []interface{}:
		for _, e := range x {
			if kd, s, kl, ok := findProvFlags(e); ok {
				return kd, s, kl, true
			}
		}
	}
	return 0, false, false, false
}

// savedData finds the SavedData field of a decoded blobber record (0 for every other record).
func savedData(v interface{}) int64 {
	switch x := v.(type) {
	case map[string]interface{}:
		if sd, ok := x["SavedData"]; ok {
			return int64(U64(sd))
		}
		for _, e := range x {
			if n := savedData(e); n != 0 {
				return n
			}
		}
	case []interface{}:
		for _, e := range x {
			if n := savedData(e); n != 0 {
				return n
			}
		}
	}
	return 0
}

func b01(b bool) string {
	if b {
		return "1"
	}
	return "0"
}

func showSP(kind string, i int, sp map[string]interface{}, offers uint64, inner bool) string {
	set, _ := sp["Settings"].(map[string]interface{})
	wal := "-"
	if s, _ := set["DelegateWallet"].(string); s != "" {
		if n, ok := NumOf(s); ok {
			wal = strconv.Itoa(n)
		} else {
			wal = "?"
		}
	}
	ratio, _ := set["ServiceChargeRatio"].(float64)
	pools, _ := sp["Pools"].(map[string]interface{})
	type pe struct {
		n int
		s string
	}
	var ps []pe
	for pid, v := range pools {
		d, _ := v.(map[string]interface{})
		n, ok := NumOf(pid)
		if !ok {
			n = 1 << 30
		}
		ps = append(ps, pe{n, fmt.Sprintf("%d=%d/%d/%d/d%s", n, U64(d["Balance"]), U64(d["Reward"]), U64(d["StakedAt"]), b01(U64(d["Status"]) == 2))})
	}
	sort.Slice(ps, func(a, b int) bool { return ps[a].n < ps[b].n })
	var pss []string
	for _, p := range ps {
		pss = append(pss, p.s)
	}
	dead, _ := sp["HasBeenKilled"].(bool)
	return fmt.Sprintf("%s:%d:d%s:o%d:r%d:w%s:m%d:s%d:c%016x:i%s{%s}", kind, i, b01(dead), offers, U64(sp["Reward"]), wal,
		U64(set["MaxNumDelegates"]), U64(set["MinStake"]), math.Float64bits(ratio), b01(inner), strings.Join(pss, ";"))
}

// raw returns the stored bytes of a contract storage key from the last snapshot (nil when absent).
func (r *runner) raw(key string) []byte { return r.snap[hashedKey(key)] }

func (r *runner) node(key string) map[string]interface{} {
	b := r.raw(key)
	if b == nil {
		return nil
	}
	return DecodeMap(b)
}

var (
	hkMu sync.Mutex
	hk   = map[string]string{}
)

func hashedKey(key string) string {
	hkMu.Lock()
	defer hkMu.Unlock()
	if h, ok := hk[key]; ok {
		return h
	}
	h := encryption.Hash(key)
	hk[key] = h
	return h
}

func (r *runner) dump() string {
	var provs, sps, accts []string
	spsBy := map[string][]string{}
	for i := 0; i < MaxID; i++ {
		id := IDOf(i)
		if raw := r.raw(provider.GetKey(id)); raw != nil {
			var tree interface{}
			tree = DecodeAny(raw)
			kd, sd, kl, ok := findProvFlags(tree)
			kn := "?"
			if ok && kd >= 1 && kd <= 5 {
				kn = Kinds[kd-1]
			}
			provs = append(provs, fmt.Sprintf("%d:%s:%s:%s:h%s", i, kn, b01(sd), b01(kl), b01(savedData(tree) > 0)))
			if m, _ := tree.(map[string]interface{}); m != nil {
				if sp, _ := m["StakePool"].(map[string]interface{}); sp != nil && (kn == "miner" || kn == "sharder") {
					spsBy[kn] = append(spsBy[kn], showSP(kn, i, sp, 0, false))
				}
			}
		}
		for _, k := range []string{"blobber", "validator", "authorizer", "miner", "sharder"} {
			m := r.node(k + ":stakepool:" + id)
			if m == nil {
				continue
			}
			if inner, ok := m["StakePool"].(map[string]interface{}); ok {
				spsBy[k] = append(spsBy[k], showSP(k, i, inner, U64(m["TotalOffers"]), false))
			} else {
				spsBy[k] = append(spsBy[k], showSP(k, i, m, 0, true))
			}
		}
		if raw := r.snap[id]; raw != nil {
			st := &state.State{}
			if _, err := st.UnmarshalMsg(raw); err != nil {
				panic(err)
			}
			accts = append(accts, fmt.Sprintf("%d=%d/%d", i, uint64(st.Balance), st.Nonce))
		}
	}
	for _, k := range Kinds {
		sps = append(sps, spsBy[k]...)
	}
	var vp []int
	if m := r.node(storagesc.ALL_VALIDATORS_KEY); m != nil {
		vp = partitionMembers(m)
	}
	sort.Ints(vp)
	var vps []string
	for _, n := range vp {
		vps = append(vps, strconv.Itoa(n))
	}
	return "dump provs=[" + strings.Join(provs, ",") + "] sps=[" + strings.Join(sps, ",") + "] vpart=[" + strings.Join(vps, ",") + "] accts=[" + strings.Join(accts, ",") + "]"
}

// partitionMembers lists the ids held in the partition's last (in-root) part; the cases never fill a part.
func partitionMembers(m map[string]interface{}) []int {
	var res []int
	var walk func(v interface{})
	walk = func(v interface{}) {
		switch x := v.(type) {
		case map[string]interface{}:
			if id, ok := x["ID"].(string); ok {
				if n, ok := NumOf(id); ok {
					res = append(res, n)
				} else {
					res = append(res, 1<<30)
				}
			}
			for _, e := range x {
				walk(e)
			}
		case []interface{}:
			for _, e := range x {
				walk(e)
			}
		}
	}
	walk(m)
	return res
}

var _ = json.Marshal
