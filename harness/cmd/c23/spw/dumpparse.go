package spw

// Parsing of the canonical `dump` lines (used by the oracles of C23 and C11).

import (
	"strconv"
	"strings"
)

// DPool is one delegate pool of a dumped stake-pool record.
type DPool struct {
	Bal, Rew, At uint64
	Deleted      bool // Status == Deleted
}

type SPRec struct {
	Dead   bool
	Offers uint64
	Reward uint64
	Wallet string
	MaxDel uint64
	Inner  bool
	Pools  map[int]DPool
	Raw    string
}

type ProvRec struct {
	Kind       string
	SD, Killed bool
	HasData    bool // blobber: SavedData > 0
}

type Acct struct {
	Bal   uint64
	Nonce int64
}

type DumpRec struct {
	Provs map[int]ProvRec
	SPs   map[string]SPRec // "kind:id"
	Accts map[int]Acct
}

func splitList(s, key string) []string {
	i := strings.Index(s, key+"=[")
	if i < 0 {
		return nil
	}
	rest := s[i+len(key)+2:]
	j := strings.Index(rest, "]")
	if j <= 0 {
		return nil
	}
	return strings.Split(rest[:j], ",")
}

// ParseDump parses a `dump` answer line (nil when it is not one).
func ParseDump(s string) *DumpRec {
	if !strings.HasPrefix(s, "dump ") {
		return nil
	}
	d := &DumpRec{Provs: map[int]ProvRec{}, SPs: map[string]SPRec{}, Accts: map[int]Acct{}}
	for _, e := range splitList(s, "provs") {
		f := strings.Split(e, ":")
		if len(f) != 5 {
			continue
		}
		id, _ := strconv.Atoi(f[0])
		d.Provs[id] = ProvRec{f[1], f[2] == "1", f[3] == "1", f[4] == "h1"}
	}
	for _, e := range splitList(s, "sps") {
		b := strings.Index(e, "{")
		if b < 0 {
			continue
		}
		f := strings.Split(e[:b], ":")
		if len(f) < 6 {
			continue
		}
		r := SPRec{Pools: map[int]DPool{}, Raw: e}
		r.Dead = f[2] == "d1"
		r.Offers, _ = strconv.ParseUint(strings.TrimPrefix(f[3], "o"), 10, 64)
		r.Reward, _ = strconv.ParseUint(strings.TrimPrefix(f[4], "r"), 10, 64)
		r.Wallet = strings.TrimPrefix(f[5], "w")
		if len(f) >= 10 {
			r.MaxDel, _ = strconv.ParseUint(strings.TrimPrefix(f[6], "m"), 10, 64)
			r.Inner = f[9] == "i1"
		}
		body := strings.TrimSuffix(e[b+1:], "}")
		if body != "" {
			for _, p := range strings.Split(body, ";") {
				kv := strings.Split(p, "=")
				if len(kv) != 2 {
					continue
				}
				id, _ := strconv.Atoi(kv[0])
				v := strings.Split(kv[1], "/")
				if len(v) != 4 {
					continue
				}
				var dp DPool
				dp.Bal, _ = strconv.ParseUint(v[0], 10, 64)
				dp.Rew, _ = strconv.ParseUint(v[1], 10, 64)
				dp.At, _ = strconv.ParseUint(v[2], 10, 64)
				dp.Deleted = v[3] == "d1"
				r.Pools[id] = dp
			}
		}
		d.SPs[f[0]+":"+f[1]] = r
	}
	for _, e := range splitList(s, "accts") {
		kv := strings.Split(e, "=")
		if len(kv) != 2 {
			continue
		}
		id, _ := strconv.Atoi(kv[0])
		v := strings.Split(kv[1], "/")
		if len(v) != 2 {
			continue
		}
		var a Acct
		a.Bal, _ = strconv.ParseUint(v[0], 10, 64)
		a.Nonce, _ = strconv.ParseInt(v[1], 10, 64)
		d.Accts[id] = a
	}
	return d
}
