package main

// The C23 oracle: the property itself, stated on what the REAL code answered (status, leaf diff, dumps) — it does not
// use the Lean model. "Authorised" follows the property text: kill by the contract owner, shut-down by the owner or the
// provider's delegate wallet.

import (
	"fmt"
	"math"
	"sort"
	"strconv"
	"strings"
	"verifharness/cmd/c23/spw"

	"verifharness/lib/corr"
)

type dpool = spw.DPool
type spRec = spw.SPRec
type provRec = spw.ProvRec
type dumpRec = spw.DumpRec

func parseDump(s string) *dumpRec { return spw.ParseDump(s) }

// known: signatures already recorded in known_findings.jsonl — used ONLY to choose which violation of a case to report
// first (an unrecorded one wins), never to suppress one.
var known = map[string]bool{
	// all four recorded C23 findings are repaired in /repo (d221d33 save key, 40a4a9f authorisation first, e59baf9 no
	// panic on a cached record of another type): nothing is listed, every signature is reported as a VIOLATION if it returns
}

func slashed(b uint64, slash float64) uint64 {
	if slash == 0 {
		return b
	}
	red := 1 - slash
	if red < 0 {
		red = 0
	}
	if red > 1 {
		red = 1
	}
	return uint64(float64(b) * red)
}

func oracle(ops, outs []string) *corr.Violation {
	var all []*corr.Violation
	mk := func(sig, msg string) {
		all = append(all, &corr.Violation{Signature: "C23:" + sig, Message: msg, Ops: ops, Impl: outs})
	}
	if len(ops) == 0 {
		return nil
	}
	w0 := strings.Fields(ops[0])
	if len(w0) != 7 || w0[0] != "init" {
		return nil
	}
	sb, err := strconv.ParseUint(w0[2], 16, 64)
	if err != nil {
		return nil
	}
	slash := math.Float64frombits(sb)
	dumps := make([]*dumpRec, len(ops))
	for i, o := range outs {
		if ops[i] == "dump" {
			dumps[i] = parseDump(o)
		}
	}
	prevDump := func(i int) *dumpRec {
		for j := i - 1; j >= 0; j-- {
			if dumps[j] != nil {
				return dumps[j]
			}
		}
		return nil
	}
	nextDump := func(i int) *dumpRec {
		for j := i + 1; j < len(ops); j++ {
			if dumps[j] != nil {
				return dumps[j]
			}
			if ops[j] != "dump" {
				return nil
			}
		}
		return nil
	}
	disabledBy := map[string]string{} // "kind:id" -> "kill" | "shutdown"
	for i, op := range ops {
		w := strings.Fields(op)
		out := strings.Fields(outs[i])
		if len(w) == 0 || len(out) == 0 || strings.HasPrefix(outs[i], "harness-panic") {
			continue
		}
		switch w[0] {
		case "payfees":
			if outs[i] != "rewarded-dead=" {
				mk("payfees-rewards-dead", fmt.Sprintf("op %d: minersc payFees changes the record of a dead miner/sharder: %s", i, outs[i]))
			}
		case "reward":
			if len(w) != 4 {
				continue
			}
			key := w[1] + ":" + w[2]
			how, dis := disabledBy[key]
			p, n := prevDump(i), nextDump(i)
			if !dis || p == nil || n == nil {
				continue
			}
			a, okA := p.SPs[key]
			b, okB := n.SPs[key]
			if !okA || !okB {
				continue
			}
			changed := a.Reward != b.Reward
			for id, dp := range a.Pools {
				if b.Pools[id].Rew != dp.Rew {
					changed = true
				}
			}
			if changed {
				mk("rewarded-after-"+how, fmt.Sprintf("op %d %q: provider %s was disabled by an authorised %s earlier, yet the reward payment is credited: %s -> %s", i, op, key, how, a.Raw, b.Raw))
			}
		case "kill", "shutdown":
			if len(w) != 4 {
				continue
			}
			kind := w[1]
			T, _ := strconv.Atoi(w[2])
			C, _ := strconv.Atoi(w[3])
			key := kind + ":" + w[2]
			status := out[0]
			diff := out[1:]
			if status == "panic" {
				mk("storagesc-kill-on-miner-id-panics", fmt.Sprintf("op %d %q: the contract call panics in the engine's contract goroutine (process crash)", i, op))
				continue
			}
			p, n := prevDump(i), nextDump(i)
			if p == nil || n == nil {
				continue
			}
			pr, exists := p.Provs[T]
			applicable := exists && pr.Kind == kind && kind != "authorizer" && (w[0] == "kill" || kind == "blobber" || kind == "validator")
			before, hasSP := p.SPs[key]
			authorised := C == 3
			if w[0] == "shutdown" && hasSP && before.Wallet == w[3] {
				authorised = true
			}
			own := map[string]bool{"~acct:" + w[3]: true, "+acct:" + w[3]: true}
			extra := func(allowed map[string]bool) []string {
				var ex []string
				for _, d := range diff {
					if !allowed[d] {
						ex = append(ex, d)
					}
				}
				sort.Strings(ex)
				return ex
			}
			if !authorised || !applicable {
				if ex := extra(own); len(ex) > 0 {
					if w[0] == "shutdown" && kind == "blobber" && applicable && (pr.SD || pr.Killed) && len(ex) == 1 && ex[0] == "~sp:blobber:"+w[2] {
						mk("shutdown-refresh-before-authorisation", fmt.Sprintf("op %d %q: caller %d is neither the owner nor the delegate wallet, yet the call succeeds (%s) and rewrites the stake pool of the already shut-down blobber: %s -> %s", i, op, C, status, before.Raw, n.SPs[key].Raw))
					} else {
						mk("unauthorised-change", fmt.Sprintf("op %d %q: unauthorised or inapplicable call changed %v", i, op, ex))
					}
				}
				continue
			}
			allowed := map[string]bool{"~acct:" + w[3]: true, "~prov:" + w[2]: true, "-prov:" + w[2]: true, "~sp:" + key: true, "-sp:" + key: true}
			if kind == "validator" {
				allowed["~part:validators"] = true
			}
			if status != "ok" {
				if ex := extra(own); len(ex) > 0 {
					mk("failed-call-changed-state", fmt.Sprintf("op %d %q answered %s but changed %v", i, op, status, ex))
				}
				continue
			}
			after, stillSP := n.SPs[key]
			if pr.SD || pr.Killed {
				// a further attempt: the stake must not be slashed again
				if stillSP {
					for id, dp := range before.Pools {
						if after.Pools[id].Bal != dp.Bal {
							mk("slashed-twice", fmt.Sprintf("op %d %q: provider already disabled, delegate %d balance %d -> %d", i, op, id, dp.Bal, after.Pools[id].Bal))
							break
						}
					}
				}
				if ex := extra(allowed); len(ex) > 0 {
					mk("frame", fmt.Sprintf("op %d %q (repeated attempt) changed records outside the provider: %v", i, op, ex))
				}
				continue
			}
			// first authorised, successful attempt on a live provider
			s := slash
			if w[0] == "shutdown" {
				s = slash / 2
			}
			if kind == "miner" || kind == "sharder" {
				s = 0 // minersc configures no slash
			}
			okEffect := true
			why := ""
			np, provStill := n.Provs[T]
			if len(before.Pools) == 0 && kind != "miner" && kind != "sharder" && !(kind == "blobber" && pr.HasData) {
				// nothing staked (and, for a blobber, nothing stored): the provider and its pool are removed altogether
				if provStill || stillSP {
					okEffect, why = false, "empty provider not removed"
				}
			} else {
				if !provStill || (w[0] == "kill" && !np.Killed) || (w[0] == "shutdown" && !np.SD) {
					okEffect, why = false, "provider record not flagged"
				}
				if !stillSP || !after.Dead {
					okEffect, why = false, "stake pool of the provider not marked dead"
				} else {
					for id, dp := range before.Pools {
						if after.Pools[id].Bal != slashed(dp.Bal, s) {
							okEffect, why = false, fmt.Sprintf("delegate %d balance %d, expected trunc(%d*(1-%v)) = %d", id, after.Pools[id].Bal, dp.Bal, s, slashed(dp.Bal, s))
						}
					}
				}
			}
			ex := extra(allowed)
			ckey := kind + ":" + w[3]
			if !okEffect {
				cafter, cok := n.SPs[ckey]
				if w[0] == "shutdown" && C != T && stillSP && after.Raw == before.Raw && cok && cafter.Dead {
					mk("shutdown-saves-under-caller-id", fmt.Sprintf("op %d %q by the %s: %s is unchanged (not dead, not slashed) and the dead, slashed copy was written to %s:stakepool:<caller %d>: %s (was %q)", i, op, who(C, before), key, kind, C, cafter.Raw, p.SPs[ckey].Raw))
				} else {
					mk("disable-effect", fmt.Sprintf("op %d %q: %s (before %s, after %s)", i, op, why, before.Raw, after.Raw))
				}
			} else {
				disabledBy[key] = w[0]
			}
			if len(ex) > 0 {
				onlyCaller := C != T
				for _, e := range ex {
					if e != "+sp:"+ckey && e != "~sp:"+ckey {
						onlyCaller = false
					}
				}
				if w[0] == "shutdown" && onlyCaller {
					if okEffect { // (an empty provider was removed, yet a record appeared under the caller's id)
						mk("shutdown-saves-under-caller-id", fmt.Sprintf("op %d %q by the %s: a dead stake-pool record was written to %s:stakepool:<caller %d>: %s", i, op, who(C, before), kind, C, n.SPs[ckey].Raw))
					}
				} else {
					mk("frame", fmt.Sprintf("op %d %q changed records outside the provider: %v", i, op, ex))
				}
			}
			if !okEffect {
				disabledBy[key] = w[0] // the call was authorised and answered success: the property's premise holds
			}
		}
	}
	if len(all) == 0 {
		return nil
	}
	// an unrecorded violation first; otherwise the LAST one of the case, so that every recorded signature gets its
	// turn across the cases (the later ones are consequences of the earlier ones and would otherwise never surface)
	for _, v := range all {
		if !known[v.Signature] {
			return v
		}
	}
	return all[len(all)-1]
}

func who(c int, sp spRec) string {
	if c == 3 {
		return "contract owner"
	}
	if sp.Wallet == strconv.Itoa(c) {
		return "delegate wallet"
	}
	return "caller"
}

func fixed() [][]string {
	hdrMin := func(slash float64, spMin uint64) string {
		var accts []string
		accts = append(accts, "0=1000000000000000", "1=1000000000000000", "2=1000000000000000", fmt.Sprintf("3=%d", 1000*coin))
		for id := 10; id < 62; id++ {
			accts = append(accts, fmt.Sprintf("%d=%d", id, 100000*coin))
		}
		return fmt.Sprintf("init 1 %s 3600 %s %s %d", hexF(slash), spw.OrderString(), strings.Join(accts, ","), spMin)
	}
	hdr := func(slash float64) string { return hdrMin(slash, coin) }
	r := hexF(0.1)
	return [][]string{
		// the design-phase probe: shut-down by the delegate wallet (before d221d33 the dead pool went to the caller's key)
		{hdr(0.5), "reg blobber 30 50 10 " + r, "lock blobber 30 41 10000000000000 1700000000", "lock blobber 30 42 3330000000007 1700000000", "dump",
			"shutdown blobber 30 50", "dump", "reward blobber 30 1000000", "dump", "shutdown blobber 30 50", "dump"},
		// shut-down of a validator by the contract owner
		{hdr(0.5), "reg validator 35 53 10 " + r, "lock validator 35 41 100000000001 1700000000", "dump", "shutdown validator 35 3", "dump", "kill validator 35 3", "dump"},
		// the delegate wallet of blobber 30 is itself blobber 31 (before d221d33 shutting 30 down overwrote 31's pool)
		{hdr(0.5), "reg blobber 30 31 10 " + r, "reg blobber 31 51 10 " + r, "lock blobber 30 41 10000000000000 1700000000", "lock blobber 31 42 5000000000000 1700000000", "dump",
			"shutdown blobber 30 31", "dump", "unlock blobber 31 42 2000000000", "dump"},
		// a stranger "shuts down" an already shut-down blobber (before 40a4a9f the refresh ran before any authorisation)
		{hdr(0.5), "reg blobber 30 50 10 " + r, "reg blobber 31 51 10 " + r, "lock blobber 30 46 10000000000000 1700000000", "lock blobber 31 46 10000000000000 1700000000",
			"alloc 47 30 31 1000000000", "dump", "shutdown blobber 30 3", "dump", "shutdown blobber 30 45", "dump"},
		// storage-contract kill / shut-down aimed at a miner's and a sharder's id, by a stranger and by the owner (before e59baf9: panic)
		{hdr(0.5), "reg miner 10 56 10 " + r, "reg sharder 20 58 10 " + r, "reg validator 35 53 10 " + r, "lock miner 10 41 500000000000 1700000000", "dump",
			"kill validator 10 45", "dump", "kill validator 10 3", "dump", "shutdown validator 20 3", "dump", "kill blobber 10 3", "dump",
			"shutdown blobber 20 58", "dump", "shutdown blobber 10 45", "dump", "kill miner 10 3", "dump"},
		// kill by the owner, twice (refresh), rewards afterwards
		{hdr(0.3), "reg blobber 30 50 10 " + r, "lock blobber 30 41 3330000000007 1700000000", "dump", "kill blobber 30 45", "dump", "kill blobber 30 3", "dump", "kill blobber 30 3", "dump",
			"reward blobber 30 5000", "dump", "unlock blobber 30 41 2000000000", "dump"},
		// no delegates at all, but the blobber stores data: the record stays and must be dead although there is nothing to
		// slash; a reward paid afterwards must not be credited (kill by the owner, shut-down by the delegate wallet)
		{hdrMin(0.5, 0), "reg blobber 30 50 10 " + r, "reg blobber 31 51 10 " + r, "setdata 30 1", "setdata 31 1", "dump",
			"kill blobber 30 3", "dump", "reward blobber 30 100", "dump", "kill blobber 30 3", "dump", "reward blobber 30 100", "dump",
			"shutdown blobber 31 51", "dump", "reward blobber 31 100", "dump", "shutdown blobber 31 51", "dump", "collect blobber 31 51", "dump"},
		// all delegates left before the kill
		{hdrMin(0.5, 0), "reg blobber 30 50 10 " + r, "lock blobber 30 41 50000000000 1700000000", "setdata 30 1", "unlock blobber 30 41 2000000000", "dump",
			"shutdown blobber 30 3", "dump", "reward blobber 30 12345", "dump", "setdata 30 0", "dump"},
		// miners and sharders
		{hdr(0.5), "reg miner 10 56 10 " + r, "reg sharder 20 58 10 " + r, "lock miner 10 41 500000000000 1700000000", "lock sharder 20 42 500000000000 1700000000", "dump",
			"payfees", "reward miner 10 1000000", "dump", "kill miner 10 56", "dump", "kill miner 10 3", "dump", "kill miner 10 3", "dump", "reward miner 10 1000000", "dump", "payfees",
			"kill sharder 20 3", "dump", "payfees", "shutdown miner 10 3", "dump"},
		// empty providers are removed
		{hdr(0.5), "reg blobber 30 50 10 " + r, "reg validator 35 53 10 " + r, "dump", "kill blobber 30 3", "dump", "shutdown validator 35 53", "dump"},
	}
}
