// C23 harness: provider kill / shut-down on the REAL contracts (storagesc, minersc, zcnsc through the real
// Chain.UpdateState, lib/engine) against Model/Provider.lean: per transaction the status class, the full MPT leaf
// diff (which keys were created / deleted / changed) and a canonical dump of every provider and stake-pool record.
package main

import (
	"fmt"
	"math"
	"math/rand"
	"os"
	"runtime/pprof"
	"strconv"
	"strings"

	"verifharness/cmd/c23/spw"
	"verifharness/lib/corr"
)

const coin = 10000000000

func hexF(f float64) string { return fmt.Sprintf("%016x", math.Float64bits(f)) }

type prov struct {
	kind   string
	id     int
	wallet int
}

// gen: a world with providers of several kinds, stakes, then kill / shut-down attempts by every kind of caller,
// repeated attempts, reward payments and unlocks; a dump after every operation.
func gen(r *rand.Rand, thorough bool, i int) []string {
	slashes := []float64{0.5, 0.5, 0.5, 0.1, 0.25, 0.3, 1, 0, 0.9999999999999999, 1e-17}
	slash := slashes[r.Intn(len(slashes))]
	demeter := "1"
	if r.Intn(8) == 0 {
		demeter = "0"
	}
	var accts []string
	accts = append(accts, "0=1000000000000000", "1=1000000000000000", "2=1000000000000000", fmt.Sprintf("3=%d", 1000*coin))
	for id := 10; id < 63; id++ {
		switch {
		case id == 62: // never funded
		case id == 61:
			accts = append(accts, fmt.Sprintf("%d=%d", id, 5))
		default:
			accts = append(accts, fmt.Sprintf("%d=%d", id, 100000*coin))
		}
	}
	spMin := uint64(coin) // the repo's min_stake_per_delegate; 0 lets an unstaked provider earn (provider reward)
	if r.Intn(3) == 0 {
		spMin = 0
	}
	ops := []string{fmt.Sprintf("init %s %s %d %s %s %d", demeter, hexF(slash), spw.MinLockSeconds, spw.OrderString(), strings.Join(accts, ","), spMin)}

	// providers
	var ps []prov
	ratios := []float64{0.1, 0, 0.25, 0.5}
	add := func(kind string, id, wallet int) {
		md := 1 + r.Intn(4)
		if r.Intn(3) == 0 {
			md = 10
		}
		ops = append(ops, fmt.Sprintf("reg %s %d %d %d %s", kind, id, wallet, md, hexF(ratios[r.Intn(len(ratios))])))
		ps = append(ps, prov{kind, id, wallet})
	}
	collide := r.Intn(3) == 0 // the delegate wallet of blobber 30 is itself a blobber (31)
	if collide {
		add("blobber", 30, 31)
		add("blobber", 31, 51)
	} else {
		add("blobber", 30, 50)
		if r.Intn(2) == 0 {
			add("blobber", 31, 51)
		}
	}
	if r.Intn(3) == 0 {
		add("blobber", 32, 52)
	}
	vcollide := r.Intn(4) == 0
	if vcollide {
		add("validator", 35, 36)
		add("validator", 36, 53)
	} else {
		add("validator", 35, 53)
		if r.Intn(2) == 0 {
			add("validator", 36, 54)
		}
	}
	if r.Intn(5) == 0 {
		add("validator", 3, 55) // the contract owner runs a validator
	}
	if r.Intn(2) == 0 {
		add("miner", 10, 56)
		if r.Intn(2) == 0 {
			add("miner", 11, 57)
		}
	}
	if r.Intn(2) == 0 {
		add("sharder", 20, 58)
		if r.Intn(2) == 0 {
			add("sharder", 21, 59)
		}
	}
	if r.Intn(3) == 0 {
		add("authorizer", 40, 60)
	}
	// some blobbers store data (their record then survives a kill / shut-down even without delegates)
	for _, p := range ps {
		if p.kind == "blobber" && r.Intn(3) == 0 {
			ops = append(ops, fmt.Sprintf("setdata %d 1", p.id))
		}
	}
	ops = append(ops, "dump")

	stakers := []int{41, 42, 43, 44, 50, 51, 53, 30, 61, 62}
	values := []uint64{1000 * coin, 333*coin + 7, 10 * coin, 1, 100000000, 99999999, 20000 * coin, 20000*coin + 1, 0, 12345678901, 3 * coin}
	nows := []uint64{1700000000, 1700000000, 1700000000, 0, 4102444800}
	step := func(op string) { ops = append(ops, op, "dump") }
	pick := func() prov { return ps[r.Intn(len(ps))] }
	caller := func(p prov) int {
		switch r.Intn(10) {
		case 0, 1, 2:
			return 3 // contract owner
		case 3, 4, 5:
			return p.wallet
		case 6:
			return p.id
		case 7:
			return 45 // stranger
		case 8:
			return pick().wallet // somebody else's delegate wallet
		}
		return stakers[r.Intn(len(stakers))]
	}
	// opening stakes so that most pools are non-empty (one case in four starts with no delegates anywhere: providers
	// disabled while nobody has staked)
	noStake := r.Intn(4) == 0
	for _, p := range ps {
		if noStake {
			break
		}
		for k := r.Intn(3); k > 0; k-- {
			step(fmt.Sprintf("lock %s %d %d %d %d", p.kind, p.id, stakers[r.Intn(5)], values[r.Intn(3)], nows[0]))
		}
	}
	nblob := 0
	for _, p := range ps {
		if p.kind == "blobber" {
			nblob++
		}
	}
	if nblob >= 2 && r.Intn(2) == 0 {
		// both blobbers need stake to cover the offer
		step(fmt.Sprintf("lock blobber 30 46 %d %d", 1000*coin, nows[0]))
		step(fmt.Sprintf("lock blobber 31 46 %d %d", 1000*coin, nows[0]))
		step("alloc 47 30 31 1000000000")
	}
	n := 6 + r.Intn(14)
	if thorough {
		n = 10 + r.Intn(40)
	}
	crossed := false
	for k := 0; k < n; k++ {
		p := pick()
		switch x := r.Intn(100); {
		case x < 22:
			step(fmt.Sprintf("kill %s %d %d", p.kind, p.id, caller(p)))
		case x < 47:
			step(fmt.Sprintf("shutdown %s %d %d", p.kind, p.id, caller(p)))
		case x < 60:
			step(fmt.Sprintf("reward %s %d %d", p.kind, p.id, []uint64{1000, 7, 123456789, 1, 0, 5 * coin}[r.Intn(6)]))
		case x < 70:
			step(fmt.Sprintf("lock %s %d %d %d %d", p.kind, p.id, stakers[r.Intn(len(stakers))], values[r.Intn(len(values))], nows[r.Intn(len(nows))]))
		case x < 80:
			step(fmt.Sprintf("unlock %s %d %d 2000000000", p.kind, p.id, stakers[r.Intn(len(stakers))]))
		case x < 85:
			c := stakers[r.Intn(len(stakers))]
			if r.Intn(2) == 0 {
				c = p.wallet
			}
			step(fmt.Sprintf("collect %s %d %d", p.kind, p.id, c))
		case x < 89:
			step("payfees")
		case x < 90:
			step(fmt.Sprintf("setdata %d %d", []int{30, 31, 32}[r.Intn(3)], r.Intn(2)))
		case x < 94 && !crossed:
			// a request that names a provider of another kind, or nobody (by a stranger or the owner for kill)
			q := pick()
			kinds := []string{"blobber", "validator", "miner", "sharder", "authorizer"}
			kd := kinds[r.Intn(len(kinds))]
			fn := []string{"kill", "shutdown"}[r.Intn(2)]
			c := 45
			if (q.kind == "miner" || q.kind == "sharder" || kd == "miner" || kd == "sharder" || r.Intn(2) == 0) && r.Intn(2) == 0 {
				c = 3
			}
			if q.kind != kd && (kd == "validator") && (q.kind == "blobber" || q.kind == "authorizer") && c == 3 {
				c = 45 // authorised validator calls on another kind's record are outside the model (Err.crossKind)
			}
			if q.kind == "authorizer" && (kd == "blobber" || kd == "validator") {
				break // reading an authorizer record as a storage record: not driven
			}
			crossed = true
			step(fmt.Sprintf("%s %s %d %d", fn, kd, q.id, c))
		case x < 97:
			step(fmt.Sprintf("kill %s %d %d", p.kind, 48, caller(p))) // unknown provider
		default:
			step(fmt.Sprintf("shutdown %s %d %d", p.kind, 48, 3))
		}
	}
	return ops
}

func main() {
	if os.Getenv("VERIF_SPW_CHILD") != "" {
		spw.ChildMain()
		return
	}
	if pf := os.Getenv("VERIF_PROF"); pf != "" {
		f, _ := os.Create(pf)
		pprof.StartCPUProfile(f)
		defer pprof.StopCPUProfile()
	}
	corr.Main(corr.Prop{
		ID: "C23", Model: "C23", Gen: gen, Impl: spw.Run, Oracle: oracle,
		Cases: func(th bool) int {
			if th {
				return 2500
			}
			return 80
		},
		Fixed: fixed(),
	})
}

var _ = strconv.Itoa
