// C16 harness: the real vesting contract (smartcontract/vestingsc) driven through the real Chain.UpdateState against
// Model/Vesting.lean. One world per case; every op is one transaction; answers are the balance movements it caused.
package main

import (
	"encoding/json"
	"fmt"
	"math"
	"math/big"
	"math/rand"
	"sort"
	"strconv"
	"strings"
	"sync"
	"time"

	cstate "0chain.net/chaincore/chain/state"
	"0chain.net/chaincore/smartcontract"
	"0chain.net/chaincore/transaction"
	"0chain.net/core/common"
	"0chain.net/core/config"
	"0chain.net/core/encryption"
	"0chain.net/smartcontract/vestingsc"
	"github.com/0chain/common/core/currency"
	"github.com/0chain/common/core/util"
	"github.com/tinylib/msgp/msgp"

	"verifharness/cmd/f64/f64ops"
	"verifharness/lib/corr"
	"verifharness/lib/engine"
)

const (
	minLock  = 100000000 // 0.01 ZCN
	minDur   = 120       // seconds
	maxDur   = 360000000 // 100000 h
	maxDests = 5
	nClients = 8 // ids 0..7; 0 is the usual owner
)

var setupOnce sync.Once

func setup() {
	setupOnce.Do(func() {
		engine.Setup()
		pfx := "smart_contracts.vestingsc."
		config.SmartContractConfig.Set(pfx+"min_lock", 0.01)
		config.SmartContractConfig.Set(pfx+"min_duration", "2m")
		config.SmartContractConfig.Set(pfx+"max_duration", "100000h")
		config.SmartContractConfig.Set(pfx+"max_destinations", maxDests)
		vsc := vestingsc.NewVestingSmartContract()
		smartcontract.ContractMap[vsc.GetAddress()] = vsc
	})
}

type raw struct{ b []byte }

func (r *raw) MarshalMsg(o []byte) ([]byte, error) { return append(o, r.b...), nil }
func (r *raw) UnmarshalMsg(b []byte) ([]byte, error) {
	r.b = append([]byte(nil), b...)
	return nil, nil
}

type world struct {
	w      *engine.World
	cl     []engine.Client
	nonce  map[int]int64
	poolID string
}

func client(i int) engine.Client { return engine.NewClient(fmt.Sprintf("vest-c%d", i)) }

var idOf = func() map[string]int {
	m := map[string]int{}
	for i := 0; i < nClients; i++ {
		m[client(i).ID] = i
	}
	return m
}()

func errClass(out string) string {
	for _, p := range []struct{ sub, class string }{
		{"uint64 minus overflow", "minus-overflow"}, {"uint64 addition overflow", "add-overflow"},
		{"negative coin value", "negative-value"}, {"float64 underflows uint64", "f64-underflows-u64"},
		{"value exceeds balance", "exceeds-balance"}, {"empty pool", "empty-pool"},
		{"only owner can trigger", "not-owner"}, {"only owner can stop", "not-owner"}, {"only pool owner can delete", "not-owner"},
		{"only owner can unlock the excess", "not-owner"},
		{"no destinations in the pool", "no-destinations"}, {"zero vesting for this destination", "zero-vesting"},
		{"not found in the pool", "dest-not-found"}, {"no excess tokens to unlock", "no-excess"}, {"expired pool", "expired"},
		{"can't get pool", "no-pool"}, {"can't get vesting pool", "no-pool"},
		{"vesting starts before now", "starts-before-now"}, {"duration is too short", "too-short"}, {"duration is too long", "too-long"},
		{"no destinations", "no-dests"}, {"too many destinations", "too-many-dests"},
		{"not enough tokens to create pool", "not-enough-tokens"}, {"insufficient amount to lock", "below-min-lock"},
		{"no tokens to lock", "no-tokens"}, {"lock amount is greater than balance", "lock-gt-balance"}, {"insufficient funds", "fill-zero"},
	} {
		if strings.Contains(out, p.sub) {
			return p.class
		}
	}
	return "other:" + out
}

func (x *world) balances() []uint64 {
	b := make([]uint64, nClients+1)
	for i := 0; i < nClients; i++ {
		v, _, _ := x.w.Account(x.cl[i].ID)
		b[i] = uint64(v)
	}
	v, _, _ := x.w.Account(vestingsc.ADDRESS)
	b[nClients] = uint64(v)
	return b
}

// exec runs one vesting transaction and answers with the per-client balance increases (ascending client id).
func (x *world) exec(c int, value uint64, now int64, fn, input string, wantDeltas bool) string {
	x.w.Now = common.Timestamp(now)
	before := x.balances()
	x.nonce[c]++
	t := x.w.Txn(x.cl[c], vestingsc.ADDRESS, currency.Coin(value), 0, x.nonce[c], transaction.TxnTypeSmartContract, fn, input)
	_, err := x.w.Exec(t)
	if err != nil {
		x.nonce[c]--
		return "err rejected:" + firstWords(err.Error())
	}
	if t.Status != transaction.TxnSuccess {
		return "err " + errClass(t.TransactionOutput)
	}
	if fn == "add" {
		x.poolID = vestingsc.ADDRESS + ":vestingpool:" + t.Hash
	}
	if !wantDeltas {
		return "ok"
	}
	after := x.balances()
	var parts []string
	for i := 0; i < nClients; i++ {
		if after[i] > before[i] {
			parts = append(parts, fmt.Sprintf("%d:%d", i, after[i]-before[i]))
		} else if after[i] < before[i] {
			parts = append(parts, fmt.Sprintf("%d:-%d", i, before[i]-after[i]))
		}
	}
	if len(parts) == 0 {
		return "ok"
	}
	return "ok " + strings.Join(parts, " ")
}

func firstWords(s string) string {
	f := strings.Fields(s)
	if len(f) > 4 {
		f = f[:4]
	}
	return strings.Join(f, "-")
}

func (x *world) dump() string {
	if x.poolID == "" {
		return "nopool"
	}
	var r raw
	if err := x.w.State.GetNodeValue(util.Path(encryption.Hash(x.poolID)), &r); err != nil {
		return "nopool"
	}
	var sb strings.Builder
	if _, err := msgp.UnmarshalAsJSON(&sb, r.b); err != nil {
		return "undecodable " + err.Error()
	}
	var p struct {
		ZcnPool struct {
			TokenPool struct {
				Balance uint64
			}
		}
		StartTime, ExpireAt int64
		ClientID            string
		Destinations        []struct {
			ID             string
			Amount, Vested uint64
			Last, Move     int64
		}
	}
	dec := json.NewDecoder(strings.NewReader(sb.String()))
	dec.UseNumber()
	if err := dec.Decode(&p); err != nil {
		return "undecodable " + err.Error() + " " + sb.String()
	}
	s := fmt.Sprintf("pool %d %d %d %d d", p.ZcnPool.TokenPool.Balance, p.StartTime, p.ExpireAt, idOf[p.ClientID])
	for _, d := range p.Destinations {
		s += fmt.Sprintf(" %d:%d:%d:%d:%d", idOf[d.ID], d.Amount, d.Vested, d.Last, d.Move)
	}
	return s
}

func impl(ops []string) []string {
	setup()
	outs := make([]string, len(ops))
	var x *world
	for i, op := range ops {
		f := strings.Fields(op)
		outs[i] = "bad-op"
		if len(f) == 0 {
			continue
		}
		pi := func(s string) (int64, bool) { v, err := strconv.ParseInt(s, 10, 64); return v, err == nil }
		pc := func(s string) (int, bool) {
			v, err := strconv.Atoi(s)
			return v, err == nil && v >= 0 && v < nClients
		}
		switch {
		case f[0] == "conf" && len(f) == 5:
			x = nil
			if f[1] != strconv.Itoa(minLock) || f[2] != strconv.Itoa(minDur) || f[3] != strconv.Itoa(maxDur) || f[4] != strconv.Itoa(maxDests) {
				continue // the harness runs the contract under exactly this configuration
			}
			x = &world{nonce: map[int]int64{}}
			for k := 0; k < nClients; k++ {
				x.cl = append(x.cl, client(k))
			}
			outs[i] = "ok"
		case x == nil:
			continue
		case f[0] == "add" && len(f) >= 7:
			c, ok0 := pc(f[1])
			value, e2 := strconv.ParseUint(f[3], 10, 64)
			now, ok3 := pi(f[4])
			start, ok4 := pi(f[5])
			dur, ok5 := pi(f[6])
			if !ok0 || e2 != nil || !ok3 || !ok4 || !ok5 || x.w != nil || value > 4e18 {
				continue
			}
			bal := map[string]currency.Coin{}
			if f[2] != "-" {
				b, err := strconv.ParseUint(f[2], 10, 64)
				if err != nil {
					continue
				}
				bal[x.cl[c].ID] = currency.Coin(b)
			}
			type dst struct {
				ID     string `json:"id"`
				Amount uint64 `json:"amount"`
			}
			var ds []dst
			good := true
			for _, p := range f[7:] {
				ia := strings.Split(p, ":")
				if len(ia) != 2 {
					good = false
					break
				}
				id, ok := pc(ia[0])
				a, err := strconv.ParseUint(ia[1], 10, 64)
				if !ok || err != nil {
					good = false
					break
				}
				ds = append(ds, dst{x.cl[id].ID, a})
			}
			if !good || dur > math.MaxInt64/int64(time.Second) || dur < 0 {
				continue
			}
			w, err := engine.NewWorld(bal, func(sctx *cstate.StateContext) error { return vestingsc.InitConfig(sctx) })
			if err != nil {
				outs[i] = "harness-error " + err.Error()
				continue
			}
			x.w = w
			x.nonce = map[int]int64{}
			in, _ := json.Marshal(map[string]interface{}{"description": "v", "start_time": start, "duration": dur * int64(time.Second), "destinations": ds})
			if len(ds) == 0 {
				in, _ = json.Marshal(map[string]interface{}{"description": "v", "start_time": start, "duration": dur * int64(time.Second)})
			}
			outs[i] = x.exec(c, value, now, "add", string(in), false)
			if outs[i] != "ok" {
				x.w = nil // a failed add leaves no pool; a later add starts a fresh world
			}
		case f[0] == "dump" && len(f) == 1:
			if x.w == nil {
				outs[i] = "nopool"
			} else {
				outs[i] = x.dump()
			}
		case (f[0] == "trigger" || f[0] == "unlock" || f[0] == "delete") && len(f) == 3, f[0] == "stop" && len(f) == 4:
			c, ok0 := pc(f[1])
			now, ok1 := pi(f[len(f)-1])
			if !ok0 || !ok1 {
				continue
			}
			if x.w == nil {
				outs[i] = "err no-pool"
				continue
			}
			in := fmt.Sprintf(`{"pool_id":%q}`, x.poolID)
			if f[0] == "stop" {
				d, ok := pc(f[2])
				if !ok {
					outs[i] = "bad-op"
					continue
				}
				in = fmt.Sprintf(`{"pool_id":%q,"destination":%q}`, x.poolID, x.cl[d].ID)
			}
			outs[i] = x.exec(c, 0, now, f[0], in, true)
			if f[0] == "delete" && strings.HasPrefix(outs[i], "ok") {
				x.w = nil
				x.poolID = ""
			}
		}
	}
	return outs
}

// ---------------------------------------------------------------------------------------------------------
// generator

func genAmount(r *rand.Rand) uint64 {
	switch r.Intn(10) {
	case 0:
		return 0
	case 1:
		return uint64(1 + r.Intn(1000))
	case 2:
		return 1<<53 + uint64(r.Intn(9)) - 4
	case 3:
		return uint64(r.Int63n(1e18))
	case 4:
		return ((1<<53 + uint64(r.Int63n(1<<53))) | 1) << uint(r.Intn(6)) // float64(amount) is an exact tie
	case 5, 6:
		return uint64(1+r.Intn(1000000)) * 1e10
	default:
		return uint64(r.Int63n(1 << 53))
	}
}

// genSchedule: small destinations (1, 2, 3, 10, ... units) over long durations, next to a big one, with SEVERAL
// triggers / unlocks / stops at close times: a destination's share then rounds down to zero (Last advances, Move does
// not) and a later call pays from the older Move. Time moves forward; every op is followed by a dump.
func genSchedule(r *rand.Rand) []string {
	ops := []string{fmt.Sprintf("conf %d %d %d %d", minLock, minDur, maxDur, maxDests)}
	now := int64(1700000000 + r.Intn(1000000))
	start := int64(0)
	if r.Intn(3) == 0 {
		start = now + int64(r.Intn(200))
	}
	dur := []int64{1000, 1000, 3600, 10000, 86400, int64(minDur + r.Intn(100000))}[r.Intn(6)]
	small := []uint64{1, 1, 2, 3, 10, 10, 5, 7, 100, 1000}
	nd := 1 + r.Intn(3)
	var dests []string
	var ids []int
	want := uint64(0)
	for k := 0; k < nd; k++ {
		id := 1 + r.Intn(5)
		a := small[r.Intn(len(small))]
		if k == nd-1 && r.Intn(2) == 0 {
			a = uint64(1+r.Intn(5000)) * 1000 // a big neighbour that moves tokens at every trigger
		}
		ids = append(ids, id)
		want += a
		dests = append(dests, fmt.Sprintf("%d:%d", id, a))
	}
	value := want
	if value < minLock {
		value = minLock + uint64(r.Intn(3)) // the rest is the owner's excess
	}
	ops = append(ops, fmt.Sprintf("add 0 %d %d %d %d %d %s", value, value, now, start, dur, strings.Join(dests, " ")), "dump")
	st := start
	if st == 0 {
		st = now
	}
	end := st + dur
	now = st
	n := 3 + r.Intn(10)
	for k := 0; k < n; k++ {
		switch r.Intn(12) {
		case 0:
			now = end - int64(1+r.Intn(2)) // just before expiry
		case 1:
			now = end + int64(r.Intn(3))
		case 2, 3, 4:
			now += int64(1 + r.Intn(3)) // close calls: shares round down to zero
		case 5:
			// stay at the same time: a second call in the same second
		default:
			now += 1 + r.Int63n(dur/8+2)
		}
		switch x := r.Intn(100); {
		case x < 62:
			ops = append(ops, fmt.Sprintf("trigger 0 %d", now))
		case x < 85:
			ops = append(ops, fmt.Sprintf("unlock %d %d", ids[r.Intn(len(ids))], now))
		case x < 93:
			ops = append(ops, fmt.Sprintf("stop 0 %d %d", ids[r.Intn(len(ids))], now))
		case x < 96:
			ops = append(ops, fmt.Sprintf("unlock 0 %d", now))
		default:
			ops = append(ops, fmt.Sprintf("delete 0 %d", now))
		}
		ops = append(ops, "dump")
	}
	ops = append(ops, fmt.Sprintf("trigger 0 %d", end), "dump")
	return ops
}

func gen(r *rand.Rand, thorough bool, i int) []string {
	if i%3 == 1 {
		return genSchedule(r)
	}
	ops := []string{fmt.Sprintf("conf %d %d %d %d", minLock, minDur, maxDur, maxDests)}
	base := int64(1700000000 + r.Intn(1000000))
	now := base
	start := int64(0)
	switch r.Intn(5) {
	case 0:
		start = now + int64(r.Intn(1000))
	case 1:
		start = now - int64(1+r.Intn(10)) // starts before now (malformed)
	}
	dur := int64(minDur + r.Intn(5000))
	switch r.Intn(12) {
	case 0:
		dur = int64(r.Intn(minDur)) // too short
	case 1:
		dur = minDur
	case 2:
		dur = int64(r.Intn(maxDur))
	case 3:
		dur = maxDur + int64(r.Intn(3)) - 1
	}
	nd := 1 + r.Intn(3)
	switch r.Intn(15) {
	case 0:
		nd = 0
	case 1:
		nd = maxDests + r.Intn(2)
	}
	var dests []string
	want := new(big.Int)
	ids := []int{}
	for k := 0; k < nd; k++ {
		id := 1 + r.Intn(5)
		if r.Intn(12) == 0 {
			id = 0 // the owner as a destination
		}
		a := genAmount(r)
		ids = append(ids, id)
		want.Add(want, new(big.Int).SetUint64(a))
		dests = append(dests, fmt.Sprintf("%d:%d", id, a))
	}
	value := uint64(0)
	if want.IsUint64() {
		value = want.Uint64()
		switch r.Intn(6) {
		case 0:
			if value < math.MaxUint64-1000 {
				value += uint64(1 + r.Intn(1000)) // excess
			}
		case 1:
			if value > 0 {
				value -= uint64(1 + r.Int63n(int64(value%1000+1))) // not enough
			}
		case 2:
			if value < 1<<62 {
				value += uint64(r.Int63n(1 << 54))
			}
		}
	} else {
		value = math.MaxUint64 - uint64(r.Intn(5))
	}
	if value > 4e18 {
		value = 4e18 // the engine rejects transaction values above the token supply (C01's business)
	}
	bal := fmt.Sprintf("%d", value)
	switch r.Intn(15) {
	case 0:
		bal = "-"
	case 1:
		if value > 0 {
			bal = fmt.Sprintf("%d", value-1)
		}
	case 2:
		if value < 1<<62 {
			bal = fmt.Sprintf("%d", value+uint64(r.Intn(1000)))
		}
	}
	owner := 0
	ops = append(ops, fmt.Sprintf("add %d %s %d %d %d %d %s", owner, bal, value, now, start, dur, strings.Join(dests, " ")), "dump")
	st := start
	if st == 0 {
		st = now
	}
	end := st + dur
	n := 2 + r.Intn(10)
	for k := 0; k < n; k++ {
		// time mostly moves forward, sometimes jumps to/around the end, rarely goes back
		switch r.Intn(10) {
		case 0:
			now = end
		case 1:
			now = end + int64(r.Intn(100))
		case 2:
			now = end - int64(r.Intn(3))
		case 3:
			now -= int64(r.Intn(50))
		case 4:
			now = st + int64(r.Intn(3))
		default:
			now += int64(r.Int63n(dur/3 + 2))
		}
		who := owner
		if r.Intn(8) == 0 {
			who = 1 + r.Intn(nClients-1)
		}
		switch x := r.Intn(100); {
		case x < 40:
			ops = append(ops, fmt.Sprintf("trigger %d %d", who, now))
		case x < 65:
			c := who
			if r.Intn(3) > 0 && len(ids) > 0 {
				c = ids[r.Intn(len(ids))]
			}
			ops = append(ops, fmt.Sprintf("unlock %d %d", c, now))
		case x < 78:
			d := 1 + r.Intn(5)
			if len(ids) > 0 && r.Intn(4) > 0 {
				d = ids[r.Intn(len(ids))]
			}
			ops = append(ops, fmt.Sprintf("stop %d %d %d", who, d, now))
		case x < 86:
			ops = append(ops, fmt.Sprintf("delete %d %d", who, now))
		default:
			ops = append(ops, "dump")
		}
		if ops[len(ops)-1] != "dump" {
			ops = append(ops, "dump") // the oracle judges every destination after every op
		}
	}
	ops = append(ops, "dump")
	return ops
}

// ---------------------------------------------------------------------------------------------------------
// oracle: the property on the implementation's answers

type odest struct {
	id             int
	amount, vested uint64
	last, move     int64
}
type opool struct {
	balance            uint64
	start, expire      int64
	owner              int
	dests              []odest
}

func parseDump(s string) (*opool, bool) {
	f := strings.Fields(s)
	if len(f) < 6 || f[0] != "pool" || f[5] != "d" {
		return nil, false
	}
	p := &opool{}
	p.balance, _ = strconv.ParseUint(f[1], 10, 64)
	p.start, _ = strconv.ParseInt(f[2], 10, 64)
	p.expire, _ = strconv.ParseInt(f[3], 10, 64)
	p.owner, _ = strconv.Atoi(f[4])
	for _, x := range f[6:] {
		q := strings.Split(x, ":")
		if len(q) != 5 {
			return nil, false
		}
		var d odest
		d.id, _ = strconv.Atoi(q[0])
		d.amount, _ = strconv.ParseUint(q[1], 10, 64)
		d.vested, _ = strconv.ParseUint(q[2], 10, 64)
		d.last, _ = strconv.ParseInt(q[3], 10, 64)
		d.move, _ = strconv.ParseInt(q[4], 10, 64)
		p.dests = append(p.dests, d)
	}
	return p, true
}

// The oracle follows every pool through its dumps (the generator dumps after add and at the end, and often in
// between) and judges: Vested <= Amount, Vested never decreases, Vested never ahead of the linear schedule by more than
// 3 units, pool balance >= outstanding; per-destination receipts (from the transfer answers) never exceed the amount;
// an owner's delete at a time not earlier than every earlier transaction succeeds; after expiry one trigger completes
// every destination.
func oracle(ops, outs []string) *corr.Violation {
	// Amounts >= 2^53 are not exactly representable as float64: `MultFloat64(left, ratio)` (vesting.go:113) may then exceed
	// `left`. Violations on pools holding such an amount carry the prefix `large-amount:` (one root cause, several symptoms).
	large := false
	mk := func(sig, msg string) *corr.Violation {
		if large {
			sig = "large-amount:" + sig
		}
		return &corr.Violation{Signature: "C16:" + sig, Message: msg, Ops: ops, Impl: outs}
	}
	var prev *opool
	var amounts map[int]*big.Int // assigned per destination id (sum over duplicates)
	received := map[int]*big.Int{}
	maxNow := int64(math.MinInt64)
	okNow := int64(math.MinInt64) // the latest time of a transaction that succeeded (the state is as of that time)
	lastNow := int64(0)
	for i, op := range ops {
		f := strings.Fields(op)
		if len(f) == 0 {
			continue
		}
		out := outs[i]
		switch f[0] {
		case "conf":
			prev, amounts, received = nil, nil, map[int]*big.Int{}
			maxNow = math.MinInt64
		case "add":
			if out == "ok" {
				now, _ := strconv.ParseInt(f[4], 10, 64)
				maxNow, lastNow = now, now
				okNow = now
				large = false
				for _, d := range f[7:] {
					q := strings.Split(d, ":")
					if a, _ := strconv.ParseUint(q[1], 10, 64); a >= 1<<53 {
						large = true
					}
				}
			}
		case "trigger", "unlock", "stop", "delete":
			now, _ := strconv.ParseInt(f[len(f)-1], 10, 64)
			lastNow = now
			c, _ := strconv.Atoi(f[1])
			ok := strings.HasPrefix(out, "ok")
			if ok && prev != nil {
				for _, tr := range strings.Fields(out)[1:] {
					q := strings.Split(tr, ":")
					id, _ := strconv.Atoi(q[0])
					if strings.HasPrefix(q[1], "-") {
						return mk("client-debited", fmt.Sprintf("op %d %q: client %d lost tokens: %s", i, op, id, out))
					}
					a, _ := new(big.Int).SetString(q[1], 10)
					if id == prev.owner {
						continue // the owner also receives excess / the drained rest
					}
					if received[id] == nil {
						received[id] = new(big.Int)
					}
					received[id].Add(received[id], a)
					if amounts != nil && (amounts[id] == nil || received[id].Cmp(amounts[id]) > 0) {
						return mk("destination-received-more-than-amount", fmt.Sprintf("op %d %q: destination %d has now received %s, assigned %v", i, op, id, received[id], amounts[id]))
					}
				}
			}
			if prev != nil && !ok && !strings.HasPrefix(out, "err rejected") && now >= maxNow {
				class := strings.TrimPrefix(out, "err ")
				// the owner can always delete / withdraw: legitimate refusals are only these
				if f[0] == "delete" && c == prev.owner {
					return mk("owner-cannot-delete", fmt.Sprintf("op %d %q by the owner at a time not before any earlier transaction fails: %s", i, op, class))
				}
				if f[0] == "unlock" && c == prev.owner && class != "no-excess" {
					return mk("owner-cannot-withdraw-excess", fmt.Sprintf("op %d %q by the owner fails: %s", i, op, class))
				}
				// ("empty pool" is the legitimate answer once everything has been paid out)
				if f[0] == "trigger" && c == prev.owner && now >= prev.expire && len(prev.dests) > 0 && class != "empty-pool" && class != "no-destinations" {
					return mk("cannot-complete-at-expiry", fmt.Sprintf("op %d %q: the owner's trigger at/after expiry fails (%s): destinations cannot receive their amounts", i, op, class))
				}
			}
			if now > maxNow {
				maxNow = now
			}
			if ok && now > okNow {
				okNow = now
			}
			if f[0] == "delete" && ok {
				prev = nil
			}
		case "dump":
			p, okp := parseDump(out)
			if !okp {
				continue
			}
			if amounts == nil {
				amounts = map[int]*big.Int{}
				for _, d := range p.dests {
					if amounts[d.id] == nil {
						amounts[d.id] = new(big.Int)
					}
					amounts[d.id].Add(amounts[d.id], new(big.Int).SetUint64(d.amount))
				}
			}
			need := new(big.Int)
			for k, d := range p.dests {
				if d.vested > d.amount {
					return mk("vested-exceeds-amount", fmt.Sprintf("op %d: destination %d (#%d) vested %d of %d", i, d.id, k, d.vested, d.amount))
				}
				need.Add(need, new(big.Int).SetUint64(d.amount-d.vested))
				// the linear schedule, exactly in integers: at the latest time t of a successful transaction so far (clipped to the vesting span)
				// vested*(end-start) <= amount*(t-start). The contract computes each step with float64; that is exact (floor of
				// left*period/full) as long as amount*(end-start) < 2^51 (Props/C16.paid_on_schedule); above that one float
				// rounding may cross an integer, which gets its own signature, bounded by 3 units.
				t := okNow
				if t > p.expire {
					t = p.expire
				}
				if t < p.start {
					t = p.start
				}
				D := big.NewInt(p.expire - p.start)
				lhs := new(big.Int).Mul(new(big.Int).SetUint64(d.vested), D)
				rhs := new(big.Int).Mul(new(big.Int).SetUint64(d.amount), big.NewInt(t-p.start))
				if lhs.Cmp(rhs) > 0 {
					msg := fmt.Sprintf("op %d: destination %d has vested %d of %d after %d of %d seconds: ahead of the linear schedule (%d*%d > %d*%d)",
						i, d.id, d.vested, d.amount, t-p.start, p.expire-p.start, d.vested, p.expire-p.start, d.amount, t-p.start)
					exactDomain := new(big.Int).Mul(new(big.Int).SetUint64(d.amount), D).BitLen() <= 51
					// float rounding can put a step at most a few ulps of float64(amount) above the exact floor (1 unit below 2^53)
					ulp := int64(1)
					if bl := new(big.Int).SetUint64(d.amount).BitLen(); bl > 53 {
						ulp = 1 << uint(bl-53)
					}
					far := lhs.Cmp(new(big.Int).Add(rhs, new(big.Int).Mul(big.NewInt(3*ulp), D))) > 0
					sig := "C16:paid-ahead-of-schedule:float-rounding"
					if exactDomain || far {
						sig = "C16:paid-ahead-of-schedule"
					}
					return &corr.Violation{Signature: sig, Message: msg, Ops: ops, Impl: outs}
				}
			}
			if need.Cmp(new(big.Int).SetUint64(p.balance)) > 0 {
				return mk("pool-below-outstanding", fmt.Sprintf("op %d: pool balance %d, outstanding %s", i, p.balance, need))
			}
			if prev != nil && len(prev.dests) == len(p.dests) {
				for k := range p.dests {
					if p.dests[k].id == prev.dests[k].id && p.dests[k].vested < prev.dests[k].vested {
						return mk("vested-decreased", fmt.Sprintf("op %d: destination %d vested %d -> %d", i, p.dests[k].id, prev.dests[k].vested, p.dests[k].vested))
					}
				}
			}
			// after a successful trigger at/after expiry everything is vested
			// (for amounts >= 2^53 float64(left) may round DOWN; the rest then needs a further trigger, which the property allows)
			if !large && i > 0 && strings.HasPrefix(ops[i-1], "trigger ") && strings.HasPrefix(outs[i-1], "ok") && lastNow >= p.expire {
				for _, d := range p.dests {
					if d.vested != d.amount {
						return mk("not-complete-after-expiry-trigger", fmt.Sprintf("op %d: destination %d vested %d of %d after a trigger at %d >= expiry %d", i, d.id, d.vested, d.amount, lastNow, p.expire))
					}
				}
			}
			prev = p
		}
	}
	return nil
}

func main() {
	_ = sort.Ints
	_ = f64ops.Hex
	c := fmt.Sprintf("conf %d %d %d %d", minLock, minDur, maxDur, maxDests)
	corr.Main(corr.Prop{
		ID: "C16", Model: "C16", Gen: gen, Impl: impl, Oracle: oracle,
		Cases: func(th bool) int {
			if th {
				return 12000
			}
			return 1500
		},
		Fixed: [][]string{
			{c, "add 0 30000000000 30000000000 1700000000 0 1000 1:10000000000 2:20000000000", "dump", "trigger 0 1700000250", "dump", "unlock 1 1700000500", "unlock 0 1700000500",
				"stop 0 2 1700000600", "dump", "trigger 0 1700001000", "dump", "delete 0 1700001001", "dump"},
			// DESIGN §7 #5 (repaired by 9976375): amount 2^53+3, no excess: at expiry MultFloat64(left, 1.0) = 2^53+4, capped to what is left
			{c, "add 0 9007199254740995 9007199254740995 1700000000 0 1000 1:9007199254740995", "dump", "trigger 0 1700001000", "dump", "delete 0 1700001001", "dump", "unlock 1 1700002000"},
			// the same with one token of excess (before the repair the destination received more than its amount and the pool got stuck)
			{c, "add 0 9007199254740996 9007199254740996 1700000000 0 1000 1:9007199254740995", "dump", "trigger 0 1700001000", "dump", "unlock 0 1700001001", "delete 0 1700001002", "dump"},
			// a small destination next to a big one: zero-moving triggers, then later ones (seeded change C16-r2-1)
			{c, "add 0 100000000 100000000 1700000000 0 1000 1:10 2:5000000", "dump", "trigger 0 1700000050", "dump", "trigger 0 1700000099", "dump", "unlock 1 1700000150", "dump",
				"trigger 0 1700000500", "dump", "trigger 0 1700001000", "dump"},
			{c, "add 0 100000000 100000000 1700000000 0 1000 1:1 2:1000000", "dump", "trigger 0 1700000999", "dump", "trigger 0 1700000999", "dump", "trigger 0 1700001000", "dump"},
			{c, "dump", "trigger 0 5", "add 0 - 100000000 1700000000 0 1000 1:5", "add 0 5 100000000 1700000000 0 1000 1:5", "add 9 5 5 5 5 5", "frob"},
		},
		Nontrivial: func(ops, outs []string) bool {
			for _, o := range outs {
				if strings.HasPrefix(o, "ok ") {
					return true
				}
			}
			return false
		},
	})
}
