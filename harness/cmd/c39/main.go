// C39 harness: the real minersc SimpleNodes.reduce (through hooks/minersc_c39.go) against Model/Reduce.lean.
//
// One op = one reduce call:
//
//	reduce <limit> <xPercent bits, 16 hex> pool:<0|1> seed:<int64> c:<id>:<stake>:<prev 0|1>... p:<Perm(0)> ... p:<Perm(n)>
//
// The p: tokens are rand.New(rand.NewSource(seed)).Perm(k) for k = 0..n (n candidates): the model takes Go's
// permutation as an argument; the implementation side re-derives the table from the seed and refuses a line whose
// table differs (so a replay cannot feed the model a permutation the real generator would not produce).
package main

import (
	"fmt"
	"math"
	"math/rand"
	"sort"
	"strconv"
	"strings"
	"sync/atomic"

	"0chain.net/smartcontract/minersc"
	"verifharness/lib/corr"
)

type cand struct {
	id    uint64
	stake uint64
	prev  bool
}

type call struct {
	limit   int
	xbits   uint64
	hasPool bool
	seed    int64
	cs      []cand
	perms   [][]int
}

func permStr(p []int) string {
	s := make([]string, len(p))
	for i, v := range p {
		s[i] = strconv.Itoa(v)
	}
	return "p:" + strings.Join(s, ",")
}

func (c *call) line() string {
	var b strings.Builder
	pool := 0
	if c.hasPool {
		pool = 1
	}
	fmt.Fprintf(&b, "reduce %d %016x pool:%d seed:%d", c.limit, c.xbits, pool, c.seed)
	for _, x := range c.cs {
		p := 0
		if x.prev {
			p = 1
		}
		fmt.Fprintf(&b, " c:%d:%d:%d", x.id, x.stake, p)
	}
	for k := 0; k <= len(c.cs); k++ {
		b.WriteString(" " + permStr(rand.New(rand.NewSource(c.seed)).Perm(k)))
	}
	return b.String()
}

func parse(op string) (*call, bool) {
	w := strings.Fields(op)
	if len(w) < 5 || w[0] != "reduce" {
		return nil, false
	}
	c := &call{}
	var err error
	if c.limit, err = strconv.Atoi(w[1]); err != nil || c.limit < 0 {
		return nil, false
	}
	if len(w[2]) != 16 {
		return nil, false
	}
	if c.xbits, err = strconv.ParseUint(w[2], 16, 64); err != nil {
		return nil, false
	}
	switch w[3] {
	case "pool:1":
		c.hasPool = true
	case "pool:0":
	default:
		return nil, false
	}
	if !strings.HasPrefix(w[4], "seed:") {
		return nil, false
	}
	if c.seed, err = strconv.ParseInt(w[4][5:], 10, 64); err != nil {
		return nil, false
	}
	seen := map[uint64]bool{}
	for _, t := range w[5:] {
		switch {
		case strings.HasPrefix(t, "c:"):
			f := strings.Split(t, ":")
			if len(f) != 4 {
				return nil, false
			}
			id, e1 := strconv.ParseUint(f[1], 10, 64)
			st, e2 := strconv.ParseUint(f[2], 10, 64)
			if e1 != nil || e2 != nil || (f[3] != "0" && f[3] != "1") || seen[id] {
				return nil, false
			}
			seen[id] = true
			c.cs = append(c.cs, cand{id, st, f[3] == "1"})
		case strings.HasPrefix(t, "p:"):
			var p []int
			if t != "p:" {
				for _, s := range strings.Split(t[2:], ",") {
					v, e := strconv.Atoi(s)
					if e != nil {
						return nil, false
					}
					p = append(p, v)
				}
			}
			c.perms = append(c.perms, p)
		default:
			return nil, false
		}
	}
	if len(c.perms) != len(c.cs)+1 {
		return nil, false
	}
	return c, true
}

// ids are fixed-width (as client ids are), so Go's string order is the numeric order of the model.
func idStr(id uint64) string { return fmt.Sprintf("%016x", id) }

func runReal(c *call) string {
	ids := make([]string, len(c.cs))
	stakes := make([]uint64, len(c.cs))
	var prev []string
	for i, x := range c.cs {
		ids[i] = idStr(x.id)
		stakes[i] = x.stake
		if x.prev {
			prev = append(prev, ids[i])
		}
	}
	mx, sel := minersc.VerifReduceC39(ids, stakes, prev, !c.hasPool, c.limit, math.Float64frombits(c.xbits), c.seed)
	out := []string{"ok", strconv.Itoa(mx)}
	for _, s := range sel { // sorted fixed-width hex = ascending numeric
		v, _ := strconv.ParseUint(s, 16, 64)
		out = append(out, strconv.FormatUint(v, 10))
	}
	return strings.Join(out, " ")
}

func impl(ops []string) []string {
	outs := make([]string, len(ops))
	for i, op := range ops {
		func() {
			defer func() {
				if r := recover(); r != nil {
					outs[i] = "panic"
				}
			}()
			c, ok := parse(op)
			if !ok {
				outs[i] = "bad-op"
				return
			}
			xp := math.Float64frombits(c.xbits)
			if math.IsNaN(xp) || math.IsInf(xp, 0) {
				outs[i] = "bad-op" // outside the modelled float domain
				return
			}
			for k := range c.perms {
				want := rand.New(rand.NewSource(c.seed)).Perm(k)
				if len(want) != len(c.perms[k]) {
					outs[i] = "bad-op"
					return
				}
				for j := range want {
					if want[j] != c.perms[k][j] {
						outs[i] = "bad-op"
						return
					}
				}
			}
			a := runReal(c)
			// the receiver is a map: run again (fresh map, fresh iteration order); the answer must not move
			for rep := 0; rep < 2; rep++ {
				if b := runReal(c); b != a {
					outs[i] = "nondeterministic " + a + " / " + b
					return
				}
			}
			outs[i] = a
		}()
	}
	return outs
}

var xPercents = []float64{0, 0.7, 0.7, 0.35, 0.5, 0.25, 1.0 / 3, 2.0 / 3, 1, 0.1, 0.9, 0.6, 0.55, 0.07, 0.29, 0.57, 0.58, 0.28, 0.14, 1e-300, 5e-324, 0.9999999999999999, 0.30000000000000004}

func genLayout(r *rand.Rand, thorough bool) []cand {
	n := r.Intn(13)
	switch r.Intn(12) {
	case 0:
		n = r.Intn(3)
	case 1:
		n = 13 + r.Intn(28)
	}
	// stake palette: few distinct values so that ties (also at the cut-off) are the norm
	pal := make([]uint64, 1+r.Intn(4))
	for i := range pal {
		switch r.Intn(10) {
		case 0:
			pal[i] = 0
		case 1:
			pal[i] = math.MaxUint64
		case 2:
			pal[i] = 1<<53 + uint64(r.Intn(3))
		case 3:
			pal[i] = 1<<63 - 1 + uint64(r.Intn(3))
		default:
			pal[i] = uint64(r.Intn(50)) * 1e10
		}
	}
	allDistinct := r.Intn(6) == 0
	pprev := []float64{0, 0.3, 0.5, 0.7, 1}[r.Intn(5)]
	base := uint64(r.Int63n(1 << 40))
	consecutive := r.Intn(2) == 0
	seen := map[uint64]bool{}
	var cs []cand
	for len(cs) < n {
		id := base + uint64(len(cs))
		if !consecutive {
			id = uint64(r.Int63n(1 << 50))
		}
		if seen[id] {
			continue
		}
		seen[id] = true
		st := pal[r.Intn(len(pal))]
		if allDistinct {
			st = uint64(r.Int63n(1000)) + uint64(len(cs))*1000
		}
		cs = append(cs, cand{id, st, r.Float64() < pprev})
	}
	return cs
}

func gen(r *rand.Rand, thorough bool, i int) []string {
	cs := genLayout(r, thorough)
	var ops []string
	for k := 0; k < 10; k++ {
		if k > 0 && r.Intn(4) == 0 {
			cs = genLayout(r, thorough)
		}
		c := &call{cs: append([]cand(nil), cs...)}
		r.Shuffle(len(c.cs), func(a, b int) { c.cs[a], c.cs[b] = c.cs[b], c.cs[a] })
		n := len(cs)
		switch r.Intn(6) {
		case 0:
			c.limit = n + r.Intn(3)
		case 1:
			c.limit = r.Intn(3)
		default:
			c.limit = r.Intn(n + 1)
		}
		xp := xPercents[r.Intn(len(xPercents))]
		switch r.Intn(12) {
		case 0:
			xp = r.Float64()
		case 1:
			xp = []float64{1.5, 2, -0.1, -1e-300, 1.0000000000000002, 3.7}[r.Intn(6)] // not a percentage: model still follows
		}
		c.xbits = math.Float64bits(xp)
		c.hasPool = r.Intn(10) != 0
		switch r.Intn(8) {
		case 0:
			c.seed = 0
		case 1:
			c.seed = -r.Int63()
		case 2:
			c.seed = int64(r.Intn(5))
		default:
			c.seed = r.Int63()
		}
		ops = append(ops, c.line())
	}
	return ops
}

var stat struct{ judged, allFit, tie, noRoom, tieAtZero, quirkSeen, outOfDomain int64 }

func sortCands(l []cand) {
	sort.SliceStable(l, func(i, j int) bool {
		if l[i].stake == l[j].stake {
			return l[i].id < l[j].id
		}
		return l[i].stake > l[j].stake
	})
}

// oracle: C39 stated on the implementation's answers (independent of the Lean model).
func oracle(ops, outs []string) *corr.Violation {
	mk := func(i int, sig, msg string) *corr.Violation {
		return &corr.Violation{Signature: "C39:" + sig, Message: fmt.Sprintf("op %d: %s", i, msg), Ops: ops, Impl: outs}
	}
	var first *corr.Violation
	note := func(v *corr.Violation) {
		// an unlisted kind of failure takes precedence over the listed one
		if first == nil || (first.Signature == "C39:"+knownSig && v.Signature != first.Signature) {
			first = v
		}
	}
	for i, op := range ops {
		c, ok := parse(op)
		if !ok {
			continue
		}
		xp := math.Float64frombits(c.xbits)
		if !(xp >= 0 && xp <= 1) {
			atomic.AddInt64(&stat.outOfDomain, 1)
			continue // not a percentage: outside the property's domain
		}
		atomic.AddInt64(&stat.judged, 1)
		if strings.HasPrefix(outs[i], "nondeterministic") {
			note(mk(i, "nondeterministic", "identical inputs gave different selections: "+outs[i]))
			continue
		}
		f := strings.Fields(outs[i])
		if len(f) < 2 || f[0] != "ok" {
			note(mk(i, "no-answer", "reduce did not return a selection: "+outs[i]))
			continue
		}
		n := len(c.cs)
		want := c.limit
		if n < want {
			want = n
		}
		byID := map[uint64]cand{}
		for _, x := range c.cs {
			byID[x.id] = x
		}
		sel := map[uint64]bool{}
		bad := false
		for _, s := range f[2:] {
			id, _ := strconv.ParseUint(s, 10, 64)
			if _, ok := byID[id]; !ok || sel[id] {
				bad = true
			}
			sel[id] = true
		}
		if bad {
			note(mk(i, "not-a-subset", "selection is not a duplicate-free subset of the candidates: "+outs[i]))
			continue
		}
		if f[1] != strconv.Itoa(want) || len(sel) != want {
			note(mk(i, "size", fmt.Sprintf("selected %d nodes (returned %s), want min(limit %d, candidates %d) = %d", len(sel), f[1], c.limit, n, want)))
			continue
		}
		// quota of previous-set members
		var prev, rest []cand
		for _, x := range c.cs {
			if c.hasPool && x.prev {
				prev = append(prev, x)
			} else {
				rest = append(rest, x)
			}
		}
		sortCands(prev)
		q := int(math.Ceil(xp * float64(want)))
		x := len(prev)
		if q < x {
			x = q
		}
		nprevSel := 0
		for _, p := range prev {
			if sel[p.id] {
				nprevSel++
			}
		}
		if nprevSel < x {
			note(mk(i, "prev-quota", fmt.Sprintf("only %d previous-set members selected, %d required", nprevSel, x)))
			continue
		}
		if x > 0 {
			th := prev[x-1].stake
			for _, p := range prev {
				if p.stake > th && !sel[p.id] {
					note(mk(i, "prev-quota", fmt.Sprintf("previous-set member %d (stake %d) is among the %d highest staked but not selected", p.id, p.stake, x)))
					bad = true
					break
				}
			}
			if bad {
				continue
			}
		}
		quota := map[uint64]bool{}
		for _, p := range prev[:x] {
			quota[p.id] = true
		}
		rest = append(rest, prev[x:]...)
		sortCands(rest)
		// higher stake preferred outside the quota
		var minIn uint64 = math.MaxUint64
		haveIn := false
		var maxOut uint64
		haveOut := false
		for _, r := range rest {
			if sel[r.id] {
				if !haveIn || r.stake < minIn {
					minIn, haveIn = r.stake, true
				}
			} else if !haveOut || r.stake > maxOut {
				maxOut, haveOut = r.stake, true
			}
		}
		for _, p := range prev[:x] {
			if !sel[p.id] { // the coded tie-break (id ascending) inside the quota: excluded quota member counts as excluded
				if !haveOut || p.stake > maxOut {
					maxOut, haveOut = p.stake, true
				}
			}
		}
		if haveIn && haveOut && maxOut > minIn {
			note(mk(i, "stake-order", fmt.Sprintf("an excluded candidate has stake %d, an included non-quota one only %d", maxOut, minIn)))
			continue
		}
		// ties at the cut-off: the choice is the seeded permutation over ALL tied candidates
		y := want - x
		switch {
		case len(rest) <= y:
			atomic.AddInt64(&stat.allFit, 1)
		case y <= 0:
			atomic.AddInt64(&stat.noRoom, 1)
		default:
			atomic.AddInt64(&stat.tie, 1)
			cut := rest[y-1].stake
			higher := 0
			var ties []cand
			for _, r := range rest {
				if r.stake > cut {
					higher++
				} else if r.stake == cut {
					ties = append(ties, r)
				}
			}
			k := y - higher
			perm := rand.New(rand.NewSource(c.seed)).Perm(len(ties))
			exp := map[uint64]bool{}
			for _, j := range perm[:k] {
				exp[ties[j].id] = true
			}
			if higher == 0 && len(ties) >= 2 {
				atomic.AddInt64(&stat.tieAtZero, 1)
			}
			diff := false
			for _, t := range ties {
				if sel[t.id] != exp[t.id] {
					diff = true
				}
			}
			if diff {
				if higher == 0 && len(ties) >= 2 && sel[ties[0].id] {
					atomic.AddInt64(&stat.quirkSeen, 1)
					note(mk(i, knownSig, fmt.Sprintf("%d candidates tied at the cut-off stake %d, %d to choose: the seeded permutation of all of them picks %v, the code always keeps the smallest id %d and permutes only the others (selected %v)", len(ties), cut, k, keys(exp), ties[0].id, f[2:])))
				} else {
					note(mk(i, "tie-choice-not-seed-permutation", fmt.Sprintf("%d candidates tied at the cut-off stake %d, %d to choose: seeded permutation picks %v, selected %v", len(ties), cut, k, keys(exp), f[2:])))
				}
			}
		}
	}
	return first
}

const knownSig = "tie-range-at-index-0-keeps-smallest-id"

func keys(m map[uint64]bool) []uint64 {
	var k []uint64
	for x := range m {
		k = append(k, x)
	}
	sort.Slice(k, func(i, j int) bool { return k[i] < k[j] })
	return k
}

func fixedCase(limit int, xp float64, hasPool bool, seeds []int64, cs []cand) []string {
	var ops []string
	for _, s := range seeds {
		c := &call{limit: limit, xbits: math.Float64bits(xp), hasPool: hasPool, seed: s, cs: cs}
		ops = append(ops, c.line())
	}
	return ops
}

func main() {
	eq6 := []cand{{0, 10, false}, {1, 10, false}, {2, 10, false}, {3, 10, false}, {4, 10, false}, {5, 10, false}}
	corr.Main(corr.Prop{
		ID: "C39", Model: "C39", Gen: gen, Impl: impl, Oracle: oracle,
		Cases: func(th bool) int {
			if th {
				return 30000
			}
			return 2000
		},
		Fixed: [][]string{
			// six equal stakes, limit 3 (Props/C39.tie_range_at_index_0; before /repo commit 51a7e0c the smallest id was always kept)
			fixedCase(3, 0.35, false, []int64{0, 1, 2, 3, 4, 5, 6, 7, 8, 9, 10, 11}, eq6),
			// same with a higher-staked candidate in front: the tie range does not start at 0
			fixedCase(3, 0.35, false, []int64{0, 1, 2, 3, 4, 5}, append([]cand{{9, 20, false}}, eq6...)),
			// previous-set quota with ties inside the previous set
			fixedCase(4, 0.7, true, []int64{3, 4, 5}, []cand{{1, 5, true}, {2, 5, true}, {3, 5, true}, {4, 7, false}, {5, 5, false}, {6, 5, false}, {7, 1, true}}),
			// y = 1 with ties at the top: the smallest id wins whatever the seed
			fixedCase(1, 0, true, []int64{1, 2, 3, 4, 5, 6, 7, 8}, []cand{{11, 3, false}, {12, 3, true}, {13, 3, false}}),
			// percentages whose product with maxNodes is not exact in binary64 (0.28*25 = 7.000000000000001 -> quota 8;
			// 0.14*50 likewise; 0.57*30, 0.29*30 round below the real product)
			fixedCase(25, 0.28, true, []int64{1}, mk(30)),
			fixedCase(50, 0.14, true, []int64{1}, mk(60)),
			fixedCase(30, 0.57, true, []int64{1}, mk(40)),
			fixedCase(20, 0.35, true, []int64{1}, mk(30)),
		},
		Extra: func() map[string]interface{} {
			return map[string]interface{}{"oracle_judged_calls": stat.judged, "branch_all_fit": stat.allFit, "branch_tie_search": stat.tie,
				"branch_no_room": stat.noRoom, "tie_range_at_index_0": stat.tieAtZero, "known_quirk_observed": stat.quirkSeen, "not_a_percentage_skipped": stat.outOfDomain}
		},
	})
}

func mk(n int) []cand {
	var cs []cand
	for i := 0; i < n; i++ {
		cs = append(cs, cand{uint64(100 + i), uint64(1000 - 7*i), i%3 != 2})
	}
	return cs
}
