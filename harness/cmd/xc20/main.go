// xc20: translator for property C20.
//
//	xc20 <gosrc> <out.lean>
//
// Reads smartcontract/dbs/event (enums.go type-checked for the tag numbers; every other file parsed) and
// smartcontract/zcnsc/{burn,mint}.go under <gosrc> and writes lean/ZChain/Generated/C20.lean:
//
//   - the tag and type constants (go/types constant values of enums.go);
//   - the merger TABLE in list order: tag ↦ middlewares (none = append | overwrite | mergeBy f), with f classified
//     from the body of the function literal handed to withEventMerge;
//   - the routing constants used by the loop of mergeEvents (TypeChain, TypeStats, TagUniqueAddress);
//   - the shape of the TagAddBurnTicket handler, the field of state.Mint the TagAddBridgeMint handler sets and the
//     field updateAuthorizersTotalMint reads;
//   - the emit sites of the bridge tags in zcnsc (payload type, pointer or value, index expression).
//
// Fail closed: anything that does not match a known shape exits non-zero with the position.
package main

import (
	"bytes"
	"fmt"
	"go/ast"
	"go/constant"
	"go/importer"
	"go/parser"
	"go/printer"
	"go/token"
	"go/types"
	"os"
	"path/filepath"
	"reflect"
	"sort"
	"strings"
)

var fset = token.NewFileSet()

func die(pos token.Pos, format string, a ...interface{}) {
	p := ""
	if pos.IsValid() {
		p = fset.Position(pos).String() + ": "
	}
	fmt.Fprintf(os.Stderr, "xc20: %s%s\n", p, fmt.Sprintf(format, a...))
	os.Exit(1)
}

func src(n ast.Node) string {
	var b bytes.Buffer
	printer.Fprint(&b, fset, n)
	return b.String()
}

type middleware struct {
	kind    string // overwrite | fields | sliceOverwriteBy
	sums    []string
	mapSums []string
	key     string
	name    string // Go function that built it
}

type merger struct {
	tag   string
	typ   string // T as written
	mws   []middleware
	where string
}

type pkg struct {
	files map[string]*ast.File
	funcs map[string]*ast.FuncDecl // top-level functions (no receiver) by name
	meths map[string]*ast.FuncDecl // methods by name (receiver ignored; names are unique enough here and checked)
}

func loadPkg(dir string) *pkg {
	p := &pkg{files: map[string]*ast.File{}, funcs: map[string]*ast.FuncDecl{}, meths: map[string]*ast.FuncDecl{}}
	ents, err := os.ReadDir(dir)
	if err != nil {
		die(token.NoPos, "%v", err)
	}
	for _, e := range ents {
		n := e.Name()
		if !strings.HasSuffix(n, ".go") || strings.HasSuffix(n, "_test.go") {
			continue
		}
		b, err := os.ReadFile(filepath.Join(dir, n))
		if err != nil {
			die(token.NoPos, "%v", err)
		}
		// skip files excluded by a build constraint other than the default build (e.g. //go:build dev)
		head := string(b)
		if i := strings.Index(head, "package "); i >= 0 {
			head = head[:i]
		}
		if strings.Contains(head, "//go:build") && !strings.Contains(head, "//go:build !") {
			continue
		}
		f, err := parser.ParseFile(fset, filepath.Join(dir, n), b, parser.ParseComments)
		if err != nil {
			die(token.NoPos, "%v", err)
		}
		p.files[n] = f
		for _, d := range f.Decls {
			if fd, ok := d.(*ast.FuncDecl); ok {
				if fd.Recv == nil {
					if _, dup := p.funcs[fd.Name.Name]; dup {
						die(fd.Pos(), "duplicate function %s", fd.Name.Name)
					}
					p.funcs[fd.Name.Name] = fd
				} else {
					p.meths[fd.Name.Name] = fd
				}
			}
		}
	}
	return p
}

// ---- enums.go: constant values --------------------------------------------------------------------------------

func constants(path string) (tags []string, tagVal map[string]int64, typVal map[string]int64) {
	f, err := parser.ParseFile(fset, path, nil, 0)
	if err != nil {
		die(token.NoPos, "%v", err)
	}
	conf := types.Config{Importer: importer.Default(), Error: func(error) {}}
	info := &types.Info{Defs: map[*ast.Ident]types.Object{}}
	pk, _ := conf.Check("event", fset, []*ast.File{f}, info)
	if pk == nil {
		die(token.NoPos, "cannot type-check %s", path)
	}
	tagVal, typVal = map[string]int64{}, map[string]int64{}
	sc := pk.Scope()
	for _, n := range sc.Names() {
		c, ok := sc.Lookup(n).(*types.Const)
		if !ok {
			continue
		}
		named, ok := c.Type().(*types.Named)
		if !ok {
			continue
		}
		if c.Val().Kind() != constant.Int {
			continue
		}
		v, exact := constant.Int64Val(c.Val())
		if !exact {
			continue
		}
		switch named.Obj().Name() {
		case "EventTag":
			tagVal[n] = v
			tags = append(tags, n)
		case "EventType":
			typVal[n] = v
		}
	}
	sort.Slice(tags, func(i, j int) bool { return tagVal[tags[i]] < tagVal[tags[j]] })
	seen := map[int64]string{}
	for _, t := range tags {
		if o, dup := seen[tagVal[t]]; dup {
			die(token.NoPos, "tags %s and %s share the value %d", o, t, tagVal[t])
		}
		seen[tagVal[t]] = t
	}
	if len(tags) < 10 {
		die(token.NoPos, "only %d EventTag constants found in %s", len(tags), path)
	}
	return
}

// ---- merger list ----------------------------------------------------------------------------------------------

// callee name and explicit type argument of f(...) / f[T](...)
func calleeOf(c *ast.CallExpr) (name string, targ ast.Expr) {
	switch f := c.Fun.(type) {
	case *ast.Ident:
		return f.Name, nil
	case *ast.IndexExpr:
		if id, ok := f.X.(*ast.Ident); ok {
			return id.Name, f.Index
		}
	}
	return "", nil
}

// the single `return <expr>` of a one-statement function
func soleReturn(fd *ast.FuncDecl) ast.Expr {
	if fd.Body == nil || len(fd.Body.List) != 1 {
		die(fd.Pos(), "%s: expected a body of the form `return <call>`", fd.Name.Name)
	}
	r, ok := fd.Body.List[0].(*ast.ReturnStmt)
	if !ok || len(r.Results) != 1 {
		die(fd.Pos(), "%s: expected a body of the form `return <call>`", fd.Name.Name)
	}
	return r.Results[0]
}

func (p *pkg) resolveMerger(e ast.Expr, depth int) merger {
	c, ok := e.(*ast.CallExpr)
	if !ok {
		die(e.Pos(), "merger list element is not a call: %s", src(e))
	}
	name, targ := calleeOf(c)
	switch name {
	case "newEventsMerger", "mergeAddProviderEvents":
		if name == "mergeAddProviderEvents" {
			// must itself be `return newEventsMerger[T](tag, middlewares...)`
			fd := p.funcs[name]
			if fd == nil {
				die(e.Pos(), "%s not found", name)
			}
			rc, ok := soleReturn(fd).(*ast.CallExpr)
			n2, _ := calleeOf(rc)
			if !ok || n2 != "newEventsMerger" || len(rc.Args) != 2 || !rc.Ellipsis.IsValid() {
				die(fd.Pos(), "%s is no longer a plain wrapper of newEventsMerger", name)
			}
		}
		if targ == nil {
			die(e.Pos(), "%s without explicit type argument", name)
		}
		if len(c.Args) < 1 {
			die(e.Pos(), "%s without tag", name)
		}
		tag, ok := c.Args[0].(*ast.Ident)
		if !ok {
			die(c.Args[0].Pos(), "tag is not an identifier: %s", src(c.Args[0]))
		}
		m := merger{tag: tag.Name, typ: src(targ), where: fset.Position(e.Pos()).String()}
		for _, a := range c.Args[1:] {
			m.mws = append(m.mws, p.resolveMiddleware(a, 0))
		}
		return m
	default:
		fd := p.funcs[name]
		if fd == nil || depth > 3 || len(c.Args) != 0 {
			die(e.Pos(), "cannot resolve merger constructor %s", src(e))
		}
		return p.resolveMerger(soleReturn(fd), depth+1)
	}
}

func (p *pkg) resolveMiddleware(e ast.Expr, depth int) middleware {
	c, ok := e.(*ast.CallExpr)
	if !ok {
		die(e.Pos(), "middleware is not a call: %s", src(e))
	}
	name, _ := calleeOf(c)
	switch name {
	case "withUniqueEventOverwrite":
		if len(c.Args) != 0 {
			die(e.Pos(), "withUniqueEventOverwrite with arguments")
		}
		return middleware{kind: "overwrite", name: name}
	case "withEventMerge":
		if len(c.Args) != 1 {
			die(e.Pos(), "withEventMerge: expected one argument")
		}
		fl, ok := c.Args[0].(*ast.FuncLit)
		if !ok {
			die(c.Args[0].Pos(), "withEventMerge argument is not a function literal")
		}
		return classifyMergeFunc(fl)
	default:
		fd := p.funcs[name]
		if fd == nil || depth > 3 || len(c.Args) != 0 {
			die(e.Pos(), "cannot resolve middleware %s", src(e))
		}
		mw := p.resolveMiddleware(soleReturn(fd), depth+1)
		mw.name = name
		return mw
	}
}

func sel(e ast.Expr) (x, f string, ok bool) {
	s, ok := e.(*ast.SelectorExpr)
	if !ok {
		return "", "", false
	}
	id, ok := s.X.(*ast.Ident)
	if !ok {
		return "", "", false
	}
	return id.Name, s.Sel.Name, true
}

// classifyMergeFunc recognises the bodies in use:
//
//	(1) any number of `a.F += b.F`, any number of map merges
//	      for k, v := range b.M { _, ok := a.M[k]; if !ok { a.M[k] = v; continue }; a.M[k] += v }
//	    then `return a, nil`                                                   → fields sums mapSums
//	(2) the by-key overwrite of two slices through a map (withAllocBlobberTermsMerged) → sliceOverwriteBy K
func classifyMergeFunc(fl *ast.FuncLit) middleware {
	ps := fl.Type.Params.List
	var names []string
	for _, f := range ps {
		for _, n := range f.Names {
			names = append(names, n.Name)
		}
	}
	if len(names) != 2 {
		die(fl.Pos(), "merge function: expected two parameters")
	}
	a, b := names[0], names[1]
	body := fl.Body.List
	if len(body) == 0 {
		die(fl.Pos(), "merge function: empty body")
	}
	// shape (2)?
	if star, ok := ps[0].Type.(*ast.StarExpr); ok {
		if _, isArr := star.X.(*ast.ArrayType); isArr {
			return classifySliceOverwrite(fl, a, b)
		}
	}
	mw := middleware{kind: "fields"}
	last, ok := body[len(body)-1].(*ast.ReturnStmt)
	if !ok || len(last.Results) != 2 || src(last.Results[0]) != a || src(last.Results[1]) != "nil" {
		die(fl.Pos(), "merge function: does not end in `return %s, nil`", a)
	}
	for _, st := range body[:len(body)-1] {
		switch s := st.(type) {
		case *ast.AssignStmt:
			if s.Tok != token.ADD_ASSIGN || len(s.Lhs) != 1 || len(s.Rhs) != 1 {
				die(s.Pos(), "merge function: unrecognised statement %s", src(s))
			}
			lx, lf, ok1 := sel(s.Lhs[0])
			rx, rf, ok2 := sel(s.Rhs[0])
			if !ok1 || !ok2 || lx != a || rx != b || lf != rf {
				die(s.Pos(), "merge function: unrecognised statement %s", src(s))
			}
			mw.sums = append(mw.sums, lf)
		case *ast.RangeStmt:
			mw.mapSums = append(mw.mapSums, classifyMapMerge(s, a, b))
		default:
			die(st.Pos(), "merge function: unrecognised statement %s", src(st))
		}
	}
	return mw
}

func classifyMapMerge(s *ast.RangeStmt, a, b string) string {
	bx, m, ok := sel(s.X)
	if !ok || bx != b || s.Key == nil || s.Value == nil {
		die(s.Pos(), "merge function: unrecognised range %s", src(s.X))
	}
	k, v := src(s.Key), src(s.Value)
	want := []string{
		fmt.Sprintf("_, ok := %s.%s[%s]", a, m, k),
		fmt.Sprintf("if !ok {\n\t%s.%s[%s] = %s\n\tcontinue\n}", a, m, k, v),
		fmt.Sprintf("%s.%s[%s] += %s", a, m, k, v),
	}
	if len(s.Body.List) != len(want) {
		die(s.Pos(), "merge function: map merge over %s.%s has an unrecognised body", b, m)
	}
	for i, st := range s.Body.List {
		got := strings.Join(strings.Fields(src(st)), " ")
		if got != strings.Join(strings.Fields(want[i]), " ") {
			die(st.Pos(), "merge function: map merge over %s.%s: statement %q, expected %q", b, m, got, want[i])
		}
	}
	return m
}

func classifySliceOverwrite(fl *ast.FuncLit, a, b string) middleware {
	// normalised text comparison against the one shape in use, with the key field as the only free part
	text := strings.Join(strings.Fields(src(fl.Body)), " ")
	// find `aMap[ai.<K>] = pa[i]`
	const pre = "aMap[ai."
	i := strings.Index(text, pre)
	if i < 0 {
		die(fl.Pos(), "merge function over slices: unrecognised body")
	}
	j := strings.Index(text[i:], "]")
	key := text[i+len(pre) : i+j]
	want := fmt.Sprintf(`{ var ( aMap = make(map[string]AllocationBlobberTerm, len(*%[1]s)) pa = *%[1]s pb = *%[2]s ) `+
		`for i, ai := range pa { aMap[ai.%[3]s] = pa[i] } for _, bi := range pb { aMap[bi.%[3]s] = bi } `+
		`ret := make([]AllocationBlobberTerm, 0, len(aMap)) for _, v := range aMap { ret = append(ret, v) } return &ret, nil }`, a, b, key)
	if text != want {
		die(fl.Pos(), "merge function over slices: body differs from the recognised by-key overwrite:\n got  %s\n want %s", text, want)
	}
	return middleware{kind: "sliceOverwriteBy", key: key}
}

// ---- mergeEvents: merger list and routing loop -------------------------------------------------------------------

type routing struct{ typeChain, typeStats, tagUnique string }

func (p *pkg) mergeEventsFacts() ([]merger, routing) {
	fd := p.funcs["mergeEvents"]
	if fd == nil {
		die(token.NoPos, "func mergeEvents not found in dbs/event")
	}
	var list *ast.CompositeLit
	ast.Inspect(fd.Body, func(n ast.Node) bool {
		if cl, ok := n.(*ast.CompositeLit); ok {
			if at, ok := cl.Type.(*ast.ArrayType); ok && src(at.Elt) == "eventsMerger" {
				if list != nil {
					die(cl.Pos(), "second []eventsMerger literal in mergeEvents")
				}
				list = cl
			}
		}
		return true
	})
	if list == nil {
		die(fd.Pos(), "no []eventsMerger{...} literal in mergeEvents")
	}
	var ms []merger
	for _, e := range list.Elts {
		ms = append(ms, p.resolveMerger(e, 0))
	}
	// routing loop: the first `for _, e := range events` of the function
	var loop *ast.RangeStmt
	for _, st := range fd.Body.List {
		if r, ok := st.(*ast.RangeStmt); ok && src(r.X) == "events" {
			loop = r
			break
		}
	}
	if loop == nil || len(loop.Body.List) < 2 {
		die(fd.Pos(), "routing loop of mergeEvents not found")
	}
	ev := src(loop.Value)
	var rt routing
	// if e.Type == <C> || e.Tag == <U> { others = append(others, e); continue }
	if1, ok := loop.Body.List[0].(*ast.IfStmt)
	if !ok {
		die(loop.Pos(), "routing loop: first statement is not the bypass test")
	}
	or, ok := if1.Cond.(*ast.BinaryExpr)
	if !ok || or.Op != token.LOR {
		die(if1.Pos(), "routing loop: bypass condition is not `a || b`: %s", src(if1.Cond))
	}
	l, ok1 := or.X.(*ast.BinaryExpr)
	r, ok2 := or.Y.(*ast.BinaryExpr)
	if !ok1 || !ok2 || l.Op != token.EQL || r.Op != token.EQL || src(l.X) != ev+".Type" || src(r.X) != ev+".Tag" {
		die(if1.Pos(), "routing loop: bypass condition has an unrecognised form: %s", src(if1.Cond))
	}
	rt.typeChain, rt.tagUnique = src(l.Y), src(r.Y)
	b1 := strings.Join(strings.Fields(src(if1.Body)), " ")
	if b1 != fmt.Sprintf("{ others = append(others, %s) continue }", ev) || if1.Else != nil {
		die(if1.Pos(), "routing loop: bypass body changed: %s", b1)
	}
	if2, ok := loop.Body.List[1].(*ast.IfStmt)
	if !ok {
		die(loop.Pos(), "routing loop: second statement is not the type test")
	}
	ne, ok := if2.Cond.(*ast.BinaryExpr)
	if !ok || ne.Op != token.NEQ || src(ne.X) != ev+".Type" {
		die(if2.Pos(), "routing loop: type test has an unrecognised form: %s", src(if2.Cond))
	}
	rt.typeStats = src(ne.Y)
	if strings.Join(strings.Fields(src(if2.Body)), " ") != "{ continue }" || if2.Else != nil {
		die(if2.Pos(), "routing loop: type test body changed")
	}
	rest := strings.Join(strings.Fields(src(&ast.BlockStmt{List: loop.Body.List[2:]})), " ")
	wantRest := fmt.Sprintf("{ var matched bool for _, em := range mergers { if em.filter(%[1]s) { matched = true break } } if matched { continue } others = append(others, %[1]s) }", ev)
	if rest != wantRest {
		die(loop.Pos(), "routing loop: first-match dispatch changed:\n got  %s\n want %s", rest, wantRest)
	}
	return ms, rt
}

// ---- handlers ---------------------------------------------------------------------------------------------------

func (p *pkg) caseClause(tag string) *ast.CaseClause {
	fd := p.meths["addStat"]
	if fd == nil {
		die(token.NoPos, "method addStat not found")
	}
	var found *ast.CaseClause
	ast.Inspect(fd.Body, func(n ast.Node) bool {
		if cc, ok := n.(*ast.CaseClause); ok {
			for _, e := range cc.List {
				if src(e) == tag {
					if found != nil {
						die(cc.Pos(), "two case clauses for %s", tag)
					}
					found = cc
				}
			}
		}
		return true
	})
	if found == nil {
		die(fd.Pos(), "addStat has no case %s", tag)
	}
	return found
}

// ticketShape: how many of the merged burn tickets are handed to addBurnTicket.
func (p *pkg) ticketShape() string {
	cc := p.caseClause("TagAddBurnTicket")
	var calls []*ast.CallExpr
	var inLoop []bool
	var walk func(n ast.Node, loop bool)
	walk = func(n ast.Node, loop bool) {
		ast.Inspect(n, func(m ast.Node) bool {
			switch x := m.(type) {
			case *ast.RangeStmt:
				if m != n {
					walk(x.Body, true)
					return false
				}
			case *ast.ForStmt:
				if m != n {
					walk(x.Body, true)
					return false
				}
			case *ast.CallExpr:
				if s, ok := x.Fun.(*ast.SelectorExpr); ok && s.Sel.Name == "addBurnTicket" {
					calls = append(calls, x)
					inLoop = append(inLoop, loop)
				}
			}
			return true
		})
	}
	for _, st := range cc.Body {
		walk(st, false)
	}
	if len(calls) != 1 || len(calls[0].Args) != 1 {
		// a batch insert `edb.addBurnTickets(*bt)` would be the other acceptable shape
		for _, st := range cc.Body {
			if r, ok := st.(*ast.ReturnStmt); ok && len(r.Results) == 1 {
				if c, ok := r.Results[0].(*ast.CallExpr); ok && len(c.Args) == 1 && src(c.Args[0]) == "*bt" {
					return "all"
				}
			}
		}
		die(cc.Pos(), "case TagAddBurnTicket: cannot tell which tickets are stored")
	}
	arg := strings.Join(strings.Fields(src(calls[0].Args[0])), "")
	switch {
	case !inLoop[0] && arg == "(*bt)[0]":
		return "firstOnly"
	case inLoop[0]:
		return "all"
	}
	die(calls[0].Pos(), "case TagAddBurnTicket: unrecognised argument %s", arg)
	return ""
}

// mintFields: (field of state.Mint set from the authorizer id in the handler, field read as id by updateAuthorizersTotalMint)
func (p *pkg) mintFields() (set, id string) {
	cc := p.caseClause("TagAddBridgeMint")
	for _, st := range cc.Body {
		ast.Inspect(st, func(n ast.Node) bool {
			r, ok := n.(*ast.RangeStmt)
			if !ok || src(r.X) != "authMint" || r.Key == nil {
				return true
			}
			key := src(r.Key)
			ast.Inspect(r.Body, func(m ast.Node) bool {
				cl, ok := m.(*ast.CompositeLit)
				if !ok || src(cl.Type) != "state.Mint" {
					return true
				}
				for _, el := range cl.Elts {
					kv, ok := el.(*ast.KeyValueExpr)
					if ok && src(kv.Value) == key {
						if set != "" {
							die(kv.Pos(), "state.Mint literal sets two fields from the authorizer id")
						}
						set = src(kv.Key)
					}
				}
				return true
			})
			return true
		})
	}
	if set == "" {
		die(cc.Pos(), "case TagAddBridgeMint: no state.Mint{<F>: <authorizer id>} found")
	}
	id = p.appendedIdField("updateAuthorizersTotalMint")
	return
}

// appendedIdField: in method `name`, the statement `ids = append(ids, m.<F>)` inside the range over its parameter.
func (p *pkg) appendedIdField(name string) string {
	fd := p.meths[name]
	if fd == nil {
		die(token.NoPos, "method %s not found", name)
	}
	f := ""
	ast.Inspect(fd.Body, func(n ast.Node) bool {
		as, ok := n.(*ast.AssignStmt)
		if !ok || len(as.Lhs) != 1 || src(as.Lhs[0]) != "ids" || len(as.Rhs) != 1 {
			return true
		}
		c, ok := as.Rhs[0].(*ast.CallExpr)
		if !ok || src(c.Fun) != "append" || len(c.Args) != 2 || src(c.Args[0]) != "ids" {
			return true
		}
		_, fld, ok := sel(c.Args[1])
		if !ok {
			die(as.Pos(), "%s: ids appended from %s", name, src(c.Args[1]))
		}
		if f != "" {
			die(as.Pos(), "%s: ids appended twice", name)
		}
		f = fld
		return true
	})
	if f == "" {
		die(fd.Pos(), "%s: no `ids = append(ids, m.<F>)`", name)
	}
	// the id list must be what CreateBuilder("authorizers", "id", ids) receives
	text := strings.Join(strings.Fields(src(fd.Body)), " ")
	if !strings.Contains(text, `CreateBuilder("authorizers", "id", ids)`) {
		die(fd.Pos(), "%s: update is no longer keyed by CreateBuilder(\"authorizers\", \"id\", ids)", name)
	}
	return f
}


// ---- error flow on the commit path --------------------------------------------------------------------------------
//
// For every call of a handler on the stats path, how does the error it returns reach the error result of the
// enclosing function: "propagated" (returned directly, or assigned and then checked by an `if v != nil { … return …, v }`,
// or assigned to the function-level error variable that the function's trailing check returns), "swallowed" (assigned —
// typically to a variable that shadows the function-level one — and never returned) or "dropped" (result unused).

type flowFact struct{ site, callee, flow string }

func isNilIdent(e ast.Expr) bool {
	id, ok := e.(*ast.Ident)
	return ok && id.Name == "nil"
}

// condIsErrNotNil: `v != nil`
func condIsErrNotNil(e ast.Expr, v string) bool {
	b, ok := e.(*ast.BinaryExpr)
	if !ok || b.Op != token.NEQ {
		return false
	}
	id, ok := b.X.(*ast.Ident)
	return ok && id.Name == v && isNilIdent(b.Y)
}

// returnsError: the block contains (outside function literals) a return whose last result is not the literal nil
func returnsError(n ast.Node) bool {
	found := false
	ast.Inspect(n, func(m ast.Node) bool {
		switch x := m.(type) {
		case *ast.FuncLit:
			return false
		case *ast.ReturnStmt:
			if len(x.Results) > 0 && !isNilIdent(x.Results[len(x.Results)-1]) {
				found = true
			}
		}
		return true
	})
	return found
}

func definesVar(st ast.Stmt, v string) bool {
	switch x := st.(type) {
	case *ast.AssignStmt:
		if x.Tok == token.DEFINE {
			for _, l := range x.Lhs {
				if id, ok := l.(*ast.Ident); ok && id.Name == v {
					return true
				}
			}
		}
	case *ast.DeclStmt:
		if gd, ok := x.Decl.(*ast.GenDecl); ok && gd.Tok == token.VAR {
			for _, sp := range gd.Specs {
				for _, n := range sp.(*ast.ValueSpec).Names {
					if n.Name == v {
						return true
					}
				}
			}
		}
	}
	return false
}

func stmtList(n ast.Node) []ast.Stmt {
	switch x := n.(type) {
	case *ast.BlockStmt:
		return x.List
	case *ast.CaseClause:
		return x.Body
	case *ast.CommClause:
		return x.Body
	}
	return nil
}

// followingCheck: among the statements after index i, an `if v != nil { … return …, err }` before v is assigned again
func followingCheck(list []ast.Stmt, i int, v string) bool {
	for _, st := range list[i+1:] {
		if is, ok := st.(*ast.IfStmt); ok && is.Init == nil && condIsErrNotNil(is.Cond, v) {
			return returnsError(is.Body)
		}
		if as, ok := st.(*ast.AssignStmt); ok {
			for _, l := range as.Lhs {
				if id, ok := l.(*ast.Ident); ok && id.Name == v {
					return false
				}
			}
		}
	}
	return false
}

func calleeName(c *ast.CallExpr) string {
	switch f := c.Fun.(type) {
	case *ast.Ident:
		return f.Name
	case *ast.SelectorExpr:
		return f.Sel.Name
	}
	return ""
}

// errorFlows classifies every call to one of `callees` inside `scope` (a node of fd's body).
func errorFlows(fd *ast.FuncDecl, scope ast.Node, site string, callees map[string]bool) []flowFact {
	var out []flowFact
	var stack []ast.Node
	// is v declared at the top level of the function body (or a named result)?
	funcLevel := func(v string) bool {
		if fd.Type.Results != nil {
			for _, f := range fd.Type.Results.List {
				for _, n := range f.Names {
					if n.Name == v {
						return true
					}
				}
			}
		}
		for _, st := range fd.Body.List {
			if definesVar(st, v) {
				return true
			}
		}
		return false
	}
	classify := func(c *ast.CallExpr) string {
		// nearest enclosing statement
		si := len(stack) - 1
		for si >= 0 {
			if _, ok := stack[si].(ast.Stmt); ok {
				break
			}
			si--
		}
		if si < 0 {
			die(c.Pos(), "%s: call of %s outside a statement", site, calleeName(c))
		}
		switch st := stack[si].(type) {
		case *ast.ReturnStmt:
			for _, r := range st.Results {
				if r == ast.Expr(c) {
					return "propagated"
				}
			}
			die(c.Pos(), "%s: %s nested in a return expression", site, calleeName(c))
		case *ast.ExprStmt:
			return "dropped"
		case *ast.AssignStmt:
			if len(st.Rhs) != 1 || st.Rhs[0] != ast.Expr(c) {
				die(c.Pos(), "%s: %s nested in an assignment", site, calleeName(c))
			}
			id, ok := st.Lhs[len(st.Lhs)-1].(*ast.Ident)
			if !ok {
				die(c.Pos(), "%s: error of %s assigned to a non-identifier", site, calleeName(c))
			}
			v := id.Name
			if v == "_" {
				return "dropped"
			}
			define := st.Tok == token.DEFINE
			parent := stack[si-1]
			var after ast.Node // the node whose following siblings may check v
			if is, ok := parent.(*ast.IfStmt); ok && is.Init == ast.Stmt(st) {
				if condIsErrNotNil(is.Cond, v) && returnsError(is.Body) {
					return "propagated"
				}
				if define {
					return "swallowed" // v lives only in this if statement
				}
				after = is
				si--
			} else {
				after = st
			}
			// an explicit check among the following siblings
			if list := stmtList(stack[si-1]); list != nil {
				for i, s2 := range list {
					if ast.Node(s2) == after {
						if followingCheck(list, i, v) {
							return "propagated"
						}
					}
				}
			}
			if define {
				return "swallowed"
			}
			// assignment to an existing variable: it must be the function-level one (no shadow on the way) and the
			// function must check and return it after the top-level statement we are in
			if !funcLevel(v) {
				return "swallowed"
			}
			for k := 1; k < si; k++ { // enclosing nodes below the function body
				switch e := stack[k].(type) {
				case *ast.IfStmt:
					if e.Init != nil && definesVar(e.Init, v) {
						return "swallowed"
					}
				case *ast.BlockStmt, *ast.CaseClause, *ast.CommClause:
					if k == 0 {
						continue
					}
					for _, s2 := range stmtList(e) {
						if k+1 < len(stack) && ast.Node(s2) == stack[k+1] {
							break
						}
						if definesVar(s2, v) {
							return "swallowed"
						}
					}
				}
			}
			for i, top := range fd.Body.List {
				if len(stack) > 1 && ast.Node(top) == stack[1] {
					if followingCheck(fd.Body.List, i, v) {
						return "propagated"
					}
				}
			}
			return "swallowed"
		}
		die(c.Pos(), "%s: unrecognised use of %s", site, calleeName(c))
		return ""
	}
	var walk func(n ast.Node)
	walk = func(n ast.Node) {
		if n == nil || reflect.ValueOf(n).IsNil() {
			return
		}
		stack = append(stack, n)
		if c, ok := n.(*ast.CallExpr); ok && callees[calleeName(c)] {
			out = append(out, flowFact{site, calleeName(c), classify(c)})
		}
		ast.Inspect(n, func(m ast.Node) bool {
			if m == nil || m == n {
				return m != nil
			}
			walk(m)
			return false
		})
		stack = stack[:len(stack)-1]
	}
	// the stack must start at the function body so that stack[1] is the top-level statement
	pathTo(fd.Body, scope, &stack)
	if len(stack) == 0 {
		die(scope.Pos(), "%s: scope not inside %s", site, fd.Name.Name)
	}
	stack = stack[:len(stack)-1]
	walk(scope)
	return out
}

// pathTo fills stack with the chain of nodes from root down to target (inclusive).
func pathTo(root, target ast.Node, stack *[]ast.Node) bool {
	found := false
	var cur []ast.Node
	ast.Inspect(root, func(n ast.Node) bool {
		if found {
			return false
		}
		if n == nil {
			cur = cur[:len(cur)-1]
			return true
		}
		cur = append(cur, n)
		if n == target {
			found = true
			*stack = append([]ast.Node(nil), cur...)
			return false
		}
		return true
	})
	return found
}

func (p *pkg) commitPathFlows() []flowFact {
	var out []flowFact
	need := func(name string, m map[string]*ast.FuncDecl) *ast.FuncDecl {
		fd := m[name]
		if fd == nil || fd.Body == nil {
			die(token.NoPos, "function %s not found in dbs/event", name)
		}
		return fd
	}
	// processEvent: one entry per case of `switch event.Type`
	pe := need("processEvent", p.meths)
	nCases := 0
	ast.Inspect(pe.Body, func(n ast.Node) bool {
		sw, ok := n.(*ast.SwitchStmt)
		if !ok || !strings.HasSuffix(src(sw.Tag), ".Type") {
			return true
		}
		for _, cl := range sw.Body.List {
			cc := cl.(*ast.CaseClause)
			for _, e := range cc.List {
				fs := errorFlows(pe, cc, "processEvent/"+src(e), map[string]bool{"addStat": true, "addError": true})
				out = append(out, fs...)
				nCases++
			}
		}
		return false
	})
	if nCases == 0 {
		die(pe.Pos(), "processEvent: no `switch event.Type`")
	}
	we := need("WorkEvents", p.meths)
	out = append(out, errorFlows(we, we.Body, "WorkEvents", map[string]bool{"addEvents": true, "processEvent": true})...)
	wk := need("Work", p.funcs)
	out = append(out, errorFlows(wk, wk.Body, "Work", map[string]bool{"WorkEvents": true})...)
	// the three bridge handlers inside addStat
	as := need("addStat", p.meths)
	for tag, cs := range map[string][]string{
		"TagAddBurnTicket":  {"addBurnTicket"},
		"TagAuthorizerBurn": {"updateAuthorizersTotalBurn"},
		"TagAddBridgeMint":  {"updateUserMintNonce", "updateAuthorizersTotalMint"},
	} {
		cc := p.caseClause(tag)
		m := map[string]bool{}
		for _, c := range cs {
			m[c] = true
		}
		fs := errorFlows(as, cc, "addStat/"+tag, m)
		if len(fs) != len(cs) {
			die(cc.Pos(), "addStat case %s: expected calls of %v, found %d", tag, cs, len(fs))
		}
		out = append(out, fs...)
	}
	// the worker: `err := Work(...)`; `if err != nil { …; commit = false; return }`; `commit = true` only afterwards
	aw := need("addEventsWorker", p.meths)
	flow := "swallowed"
	ast.Inspect(aw.Body, func(n ast.Node) bool {
		bl, ok := n.(*ast.BlockStmt)
		if !ok {
			return true
		}
		for i, st := range bl.List {
			a, ok := st.(*ast.AssignStmt)
			if !ok || len(a.Rhs) != 1 {
				continue
			}
			c, ok := a.Rhs[0].(*ast.CallExpr)
			if !ok || calleeName(c) != "Work" {
				continue
			}
			v := src(a.Lhs[len(a.Lhs)-1])
			if i+1 >= len(bl.List) {
				continue
			}
			is, ok := bl.List[i+1].(*ast.IfStmt)
			if !ok || !condIsErrNotNil(is.Cond, v) {
				continue
			}
			body := strings.Join(strings.Fields(src(is.Body)), " ")
			hasReturn := false
			ast.Inspect(is.Body, func(m ast.Node) bool {
				if _, ok := m.(*ast.ReturnStmt); ok {
					hasReturn = true
				}
				return true
			})
			rest := ""
			for _, s2 := range bl.List[i+2:] {
				rest += strings.Join(strings.Fields(src(s2)), " ") + ";"
			}
			before := ""
			for _, s2 := range bl.List[:i] {
				before += strings.Join(strings.Fields(src(s2)), " ") + ";"
			}
			if hasReturn && !strings.Contains(body, "commit = true") && strings.Contains(rest, "commit = true") &&
				!strings.Contains(before, "commit = true") && strings.Contains(before, ".done <- commit") {
				flow = "propagated"
			}
		}
		return true
	})
	out = append(out, flowFact{"addEventsWorker", "Work", flow})
	// ProcessEvents: in the clause `case commit := <-event.done:` the first statement that mentions commit is
	// `if !commit { … return …, err }`, and Commit() is called only after it
	pr := need("ProcessEvents", p.meths)
	flow = "swallowed"
	ast.Inspect(pr.Body, func(n ast.Node) bool {
		cc, ok := n.(*ast.CommClause)
		if !ok || cc.Comm == nil || !strings.Contains(src(cc.Comm), ".done") {
			return true
		}
		a, ok := cc.Comm.(*ast.AssignStmt)
		if !ok || len(a.Lhs) != 1 {
			return true
		}
		v := src(a.Lhs[0])
		guarded := false
		for _, st := range cc.Body {
			text := strings.Join(strings.Fields(src(st)), " ")
			if is, ok := st.(*ast.IfStmt); ok && strings.Join(strings.Fields(src(is.Cond)), "") == "!"+v {
				if returnsError(is.Body) && !strings.Contains(strings.Join(strings.Fields(src(is.Body)), " "), "Commit(") {
					guarded = true
				}
				continue
			}
			if strings.Contains(text, "Commit(") && !guarded {
				return true
			}
		}
		if guarded {
			flow = "propagated"
		}
		return true
	})
	out = append(out, flowFact{"ProcessEvents", "commit", flow})
	return out
}

// ---- tags nobody emits ---------------------------------------------------------------------------------------------

// unemitted: merger tags that are referenced nowhere outside enums.go, their merger constructor and their addStat
// case — no contract, no chain code and no event constructor can emit them.
func unemitted(gosrc string, ms []merger) []string {
	count := map[string]int{}
	for _, m := range ms {
		count[m.tag] = 0
	}
	evdir := filepath.Join(gosrc, "smartcontract/dbs/event")
	err := filepath.Walk(gosrc, func(path string, info os.FileInfo, err error) error {
		if err != nil {
			return err
		}
		if info.IsDir() {
			return nil
		}
		if !strings.HasSuffix(path, ".go") || strings.HasSuffix(path, "_test.go") {
			return nil
		}
		inEv := filepath.Dir(path) == evdir
		if inEv && filepath.Base(path) == "enums.go" {
			return nil
		}
		b, err := os.ReadFile(path)
		if err != nil {
			return err
		}
		for _, line := range strings.Split(string(b), "\n") {
			if !strings.Contains(line, "Tag") {
				continue
			}
			t := strings.TrimSpace(line)
			if strings.HasPrefix(t, "//") {
				continue
			}
			if inEv && (strings.Contains(line, "newEventsMerger[") || strings.Contains(line, "mergeAddProviderEvents[") || strings.HasPrefix(t, "case Tag")) {
				continue
			}
			for tag := range count {
				if i := strings.Index(line, tag); i >= 0 {
					end := i + len(tag)
					if end < len(line) && (line[end] == '_' || (line[end] >= 'a' && line[end] <= 'z') || (line[end] >= 'A' && line[end] <= 'Z') || (line[end] >= '0' && line[end] <= '9')) {
						continue
					}
					count[tag]++
				}
			}
		}
		return nil
	})
	if err != nil {
		die(token.NoPos, "%v", err)
	}
	var out []string
	for _, m := range ms {
		if count[m.tag] == 0 {
			out = append(out, m.tag)
		}
	}
	return out
}

// ---- emit sites -------------------------------------------------------------------------------------------------

type emit struct {
	tag, typ, index, where string
	ptr                    bool
	idxField               string // payload field initialised with the same expression as the event index ("" if none)
}

func emitSites(dir string, tags map[string]bool) []emit {
	var out []emit
	for _, n := range []string{"burn.go", "mint.go"} {
		f, err := parser.ParseFile(fset, filepath.Join(dir, n), nil, 0)
		if err != nil {
			die(token.NoPos, "%v", err)
		}
		ast.Inspect(f, func(nd ast.Node) bool {
			c, ok := nd.(*ast.CallExpr)
			if !ok {
				return true
			}
			s, ok := c.Fun.(*ast.SelectorExpr)
			if !ok || s.Sel.Name != "EmitEvent" || len(c.Args) != 4 {
				return true
			}
			tag := strings.TrimPrefix(src(c.Args[1]), "event.")
			if !tags[tag] {
				return true
			}
			if src(c.Args[0]) != "event.TypeStats" {
				die(c.Pos(), "%s emitted with type %s", tag, src(c.Args[0]))
			}
			e := emit{tag: tag, index: src(c.Args[2]), where: fset.Position(c.Pos()).String()}
			d := c.Args[3]
			if u, ok := d.(*ast.UnaryExpr); ok && u.Op == token.AND {
				e.ptr = true
				d = u.X
			}
			cl, ok := d.(*ast.CompositeLit)
			if !ok {
				die(c.Pos(), "%s: payload is not a composite literal: %s", tag, src(d))
			}
			e.typ = strings.TrimPrefix(src(cl.Type), "event.")
			for _, el := range cl.Elts {
				if kv, ok := el.(*ast.KeyValueExpr); ok && src(kv.Value) == e.index {
					e.idxField = src(kv.Key)
				}
			}
			out = append(out, e)
			return true
		})
	}
	return out
}

// ---- output -----------------------------------------------------------------------------------------------------

func leanStrList(xs []string) string {
	q := make([]string, len(xs))
	for i, x := range xs {
		q[i] = fmt.Sprintf("%q", x)
	}
	return "[" + strings.Join(q, ", ") + "]"
}

func main() {
	if len(os.Args) != 3 {
		fmt.Fprintln(os.Stderr, "usage: xc20 <gosrc> <out.lean>")
		os.Exit(2)
	}
	gosrc, out := os.Args[1], os.Args[2]
	evdir := filepath.Join(gosrc, "smartcontract/dbs/event")
	tags, tagVal, typVal := constants(filepath.Join(evdir, "enums.go"))
	p := loadPkg(evdir)
	ms, rt := p.mergeEventsFacts()
	for _, need := range []string{rt.typeChain, rt.typeStats} {
		if _, ok := typVal[need]; !ok {
			die(token.NoPos, "routing constant %s is not an EventType constant", need)
		}
	}
	if _, ok := tagVal[rt.tagUnique]; !ok {
		die(token.NoPos, "routing constant %s is not an EventTag constant", rt.tagUnique)
	}
	seenTag := map[string]string{}
	for _, m := range ms {
		if _, ok := tagVal[m.tag]; !ok {
			die(token.NoPos, "%s: merger for unknown tag %s", m.where, m.tag)
		}
		if o, dup := seenTag[m.tag]; dup {
			die(token.NoPos, "%s: second merger for %s (first at %s): it would never receive an event", m.where, m.tag, o)
		}
		seenTag[m.tag] = m.where
	}
	shape := p.ticketShape()
	mset, mid := p.mintFields()
	if bf := p.appendedIdField("updateAuthorizersTotalBurn"); bf != "Burner" {
		die(token.NoPos, "updateAuthorizersTotalBurn keys its rows by %s, the model assumes Burner", bf)
	}
	flows := p.commitPathFlows()
	sort.SliceStable(flows, func(i, j int) bool { return flows[i].site+"/"+flows[i].callee < flows[j].site+"/"+flows[j].callee })
	bridge := map[string]bool{"TagAddBurnTicket": true, "TagAuthorizerBurn": true, "TagAddBridgeMint": true}
	emits := emitSites(filepath.Join(gosrc, "smartcontract/zcnsc"), bridge)
	mergerType := map[string]string{}
	for _, m := range ms {
		mergerType[m.tag] = m.typ
	}
	for t := range bridge {
		n := 0
		for _, e := range emits {
			if e.tag == t {
				n++
				if mergerType[t] == "" {
					die(token.NoPos, "%s: %s is emitted but has no merger", e.where, t)
				}
				if e.typ != mergerType[t] {
					die(token.NoPos, "%s: %s emitted with payload %s but merged as %s: every block carrying it would fail to merge", e.where, t, e.typ, mergerType[t])
				}
			}
		}
		if n == 0 {
			die(token.NoPos, "no emit site of %s found in zcnsc/burn.go, mint.go", t)
		}
	}

	var b strings.Builder
	b.WriteString("import ZChain.Model.Events\n")
	b.WriteString("/-! GENERATED by harness/cmd/xc20 from smartcontract/dbs/event and smartcontract/zcnsc — do not edit.\n")
	b.WriteString("Regenerated on every `./check C20`. -/\n")
	b.WriteString("namespace ZChain.Events.Gen\nopen ZChain.Events\n\n")
	var tn []string
	for n := range typVal {
		tn = append(tn, n)
	}
	sort.Slice(tn, func(i, j int) bool { return typVal[tn[i]] < typVal[tn[j]] })
	for _, n := range tn {
		fmt.Fprintf(&b, "def %s : Nat := %d\n", n, typVal[n])
	}
	b.WriteString("\n")
	for _, t := range tags {
		fmt.Fprintf(&b, "def %s : Nat := %d\n", t, tagVal[t])
	}
	b.WriteString("\ndef tagNames : List (Nat × String) := [\n")
	for i, t := range tags {
		sep := ","
		if i == len(tags)-1 {
			sep = ""
		}
		fmt.Fprintf(&b, "  (%d, %q)%s\n", tagVal[t], t, sep)
	}
	b.WriteString("]\n\n/-- the merger list of `mergeEvents`, in list order -/\ndef mergers : List Merger := [\n")
	for i, m := range ms {
		var mw []string
		for _, w := range m.mws {
			switch w.kind {
			case "overwrite":
				mw = append(mw, ".overwrite")
			case "fields":
				mw = append(mw, fmt.Sprintf(".mergeBy (.fields %s %s)", leanStrList(w.sums), leanStrList(w.mapSums)))
			case "sliceOverwriteBy":
				mw = append(mw, fmt.Sprintf(".mergeBy (.sliceOverwriteBy %q)", w.key))
			}
		}
		sep := ","
		if i == len(ms)-1 {
			sep = ""
		}
		fmt.Fprintf(&b, "  ⟨%s, [%s]⟩%s  -- [%s]\n", m.tag, strings.Join(mw, ", "), sep, m.typ)
	}
	b.WriteString("]\n\n/-- Go type parameter of each merger (by tag) -/\ndef mergerTypes : List (Nat × String) := [\n")
	for i, m := range ms {
		sep := ","
		if i == len(ms)-1 {
			sep = ""
		}
		fmt.Fprintf(&b, "  (%s, %q)%s\n", m.tag, m.typ, sep)
	}
	b.WriteString("]\n\n")
	fmt.Fprintf(&b, "def table : Table := {\n  mergers := mergers\n  typeChain := %s\n  typeStats := %s\n  tagUniqueAddress := %s\n", rt.typeChain, rt.typeStats, rt.tagUnique)
	fmt.Fprintf(&b, "  ticketShape := .%s\n  mintSetField := %q\n  mintIdField := %q\n}\n\n", shape, mset, mid)
	b.WriteString("/-- emit sites of the bridge tags in zcnsc: (tag, payload type, pointer?, index expression, payload field equal to the index) -/\n")
	b.WriteString("def emitSites : List (Nat × String × Bool × String × String) := [\n")
	for i, e := range emits {
		sep := ","
		if i == len(emits)-1 {
			sep = ""
		}
		fmt.Fprintf(&b, "  (%s, %q, %v, %q, %q)%s\n", e.tag, e.typ, e.ptr, e.index, e.idxField, sep)
	}
	b.WriteString("]\n\n")
	b.WriteString("/-- merger tags that nothing in the repository emits (no reference outside enums.go, the merger constructor and the addStat case) -/\n")
	fmt.Fprintf(&b, "def unemittedTags : List Nat := [%s]\n\n", strings.Join(unemitted(gosrc, ms), ", "))
	b.WriteString("/-- the commit path: (site, callee, how the callee's error reaches the caller's error result) -/\n")
	b.WriteString("def errorFlow : List (String × String × ErrFlow) := [\n")
	for i, f := range flows {
		sep := ","
		if i == len(flows)-1 {
			sep = ""
		}
		fmt.Fprintf(&b, "  (%q, %q, .%s)%s\n", f.site, f.callee, f.flow, sep)
	}
	b.WriteString("]\n\nend ZChain.Events.Gen\n")
	if err := os.MkdirAll(filepath.Dir(out), 0o755); err != nil {
		die(token.NoPos, "%v", err)
	}
	if err := os.WriteFile(out, []byte(b.String()), 0o644); err != nil {
		die(token.NoPos, "%v", err)
	}
	nOv, nMerge, nApp := 0, 0, 0
	for _, m := range ms {
		switch {
		case len(m.mws) == 0:
			nApp++
		case m.mws[0].kind == "overwrite":
			nOv++
		default:
			nMerge++
		}
	}
	fmt.Printf("tags=%d mergers=%d (append=%d overwrite=%d mergeBy=%d)\n", len(tags), len(ms), nApp, nOv, nMerge)
	fmt.Printf("routing: chain=%s stats=%s unique=%s\n", rt.typeChain, rt.typeStats, rt.tagUnique)
	fmt.Printf("burn-ticket handler=%s mint set=%s id=%s\n", shape, mset, mid)
	fmt.Printf("emit sites=%d\n", len(emits))
	nprop := 0
	for _, f := range flows {
		if f.flow == "propagated" {
			nprop++
		}
	}
	fmt.Printf("commit-path error flows=%d propagated=%d\n", len(flows), nprop)
}
