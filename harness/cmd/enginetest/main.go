// enginetest: smoke test of lib/engine (real UpdateState, faucet pour, send, failing call).
package main

import (
	"fmt"

	cstate "0chain.net/chaincore/chain/state"
	"0chain.net/chaincore/transaction"
	"0chain.net/smartcontract/faucetsc"
	"0chain.net/smartcontract/minersc"
	"github.com/0chain/common/core/currency"
	"verifharness/lib/engine"
)

func main() {
	a, b := engine.NewClient("a"), engine.NewClient("b")
	w, err := engine.NewWorld(map[string]currency.Coin{a.ID: 1000e10, faucetsc.ADDRESS: 100000e10}, func(sctx *cstate.StateContext) error {
		return faucetsc.InitConfig(sctx)
	})
	if err != nil {
		panic(err)
	}
	show := func(tag string) {
		ba, na, _ := w.Account(a.ID)
		bb, nb, _ := w.Account(b.ID)
		bm, _, _ := w.Account(minersc.ADDRESS)
		bf, _, _ := w.Account(faucetsc.ADDRESS)
		fmt.Printf("%-28s a=%d/%d b=%d/%d minersc=%d faucet=%d root=%s\n", tag, ba, na, bb, nb, bm, bf, w.Root()[:12])
	}
	show("genesis")
	t := w.Txn(a, b.ID, 5e10, 1e8, 1, transaction.TxnTypeSend, "", "")
	_, err = w.Exec(t)
	show(fmt.Sprintf("send: err=%v status=%d", err, t.Status))
	t = w.Txn(a, b.ID, 5e10, 1e8, 1, transaction.TxnTypeSend, "", "")
	_, err = w.Exec(t)
	show(fmt.Sprintf("replay: err=%v", err))
	t = w.Txn(b, faucetsc.ADDRESS, 0, 1e8, 1, transaction.TxnTypeSmartContract, "pour", "")
	ev, err := w.Exec(t)
	show(fmt.Sprintf("pour: err=%v status=%d ev=%d out=%.40s", err, t.Status, len(ev), t.TransactionOutput))
	t = w.Txn(b, faucetsc.ADDRESS, 0, 1e8, 2, transaction.TxnTypeSmartContract, "nosuchfunc", "")
	ev, err = w.Exec(t)
	show(fmt.Sprintf("bad: err=%v status=%d ev=%d out=%.60s", err, t.Status, len(ev), t.TransactionOutput))
	w.NextBlock()
	t = w.Txn(b, faucetsc.ADDRESS, 3e10, 1e8, 3, transaction.TxnTypeSmartContract, "pour", "")
	ev, err = w.Exec(t)
	show(fmt.Sprintf("pour2: err=%v status=%d", err, t.Status))
	lv, err := w.Leaves()
	fmt.Println("leaves", len(lv), err)
}
