// C42 harness: the real node.Pool / HashPoolScorer / XORHashScorer behind a real chain.Chain
// (IsBlockSharder, IsBlockSharderFromHash, CanShardBlockWithReplicators) against Model/Replicators.lean.
package main

import (
	"encoding/hex"
	"fmt"
	"math"
	"math/big"
	"math/bits"
	"math/rand"
	"sort"
	"strconv"
	"strings"
	"sync"

	"0chain.net/chaincore/block"
	"0chain.net/chaincore/chain"
	"0chain.net/chaincore/client"
	"0chain.net/chaincore/node"
	"0chain.net/chaincore/round"
	"0chain.net/core/encryption"
	"github.com/0chain/common/core/logging"
	"go.uber.org/zap"
	"verifharness/lib/corr"
)

var provMu sync.Mutex

var statTies, statOrderCmp, statSets, statBig, statShared int // evidence counters (oracle runs single-threaded)

func init() {
	logging.Logger = zap.NewNop()
	logging.N2n = zap.NewNop()
	client.SetClientSignatureScheme("ed25519") // any 32 bytes are a public key; the node id is Hash(pk) either way
}

type world struct {
	c     *chain.Chain
	pool  *node.Pool           // pool 0: the magic block's sharders
	pools map[int64]*node.Pool // side pools 1..7 (other sharder pools that may hold the same node objects)
	objs  map[int64]*node.Node // node objects made by `obj`
	round int64                // block round of the chain-level questions
}

func (w *world) poolN(p int64) *node.Pool {
	if p == 0 {
		return w.pool
	}
	if w.pools[p] == nil {
		w.pools[p] = node.NewPool(node.NodeTypeSharder)
	}
	return w.pools[p]
}

var chainPool = sync.Pool{New: func() interface{} {
	provMu.Lock() // chain.Provider writes the global configuration object
	defer provMu.Unlock()
	return chain.Provider().(*chain.Chain)
}}

// newWorld: a chain object (constructing one is expensive, so they are recycled between cases; everything the
// operations read — the configuration and the magic block with its pools — is replaced here).
func newWorld(nrepl int) *world {
	c := chainPool.Get().(*chain.Chain)
	c.MagicBlockStorage = round.NewRoundStartingStorage() // a recycled chain must not keep the magic blocks of another case
	c.ChainConfig = chain.NewConfigImpl(&chain.ConfigData{NumReplicators: nrepl})
	mb := block.NewMagicBlock()
	mb.Miners = node.NewPool(node.NodeTypeMiner)
	mb.Sharders = node.NewPool(node.NodeTypeSharder)
	c.SetMagicBlock(mb)
	return &world{c: c, pool: mb.Sharders, pools: map[int64]*node.Pool{}, objs: map[int64]*node.Node{}, round: 1}
}

func isID(s string) bool {
	if len(s) != 64 {
		return false
	}
	for _, ch := range s {
		if !((ch >= '0' && ch <= '9') || (ch >= 'a' && ch <= 'f')) {
			return false
		}
	}
	return true
}

func mkNode(id, pk string) *node.Node {
	nd := node.Provider()
	nd.Type = node.NodeTypeSharder
	nd.PublicKey = pk
	_ = nd.SetID(id)
	return nd
}

func dec(id string) string {
	v, _ := new(big.Int).SetString(id, 16)
	return v.String()
}

func parseInt(s string) (int64, bool) {
	v, err := strconv.ParseInt(s, 10, 64)
	if err != nil || strings.HasPrefix(s, "+") {
		return 0, false
	}
	return v, true
}

// id32: the top 32 bits of a node id (how the answers name a node).
func id32(id string) string {
	v, _ := strconv.ParseUint(id[:8], 16, 64)
	return strconv.FormatUint(v, 10)
}

func showNodes(ok bool, nodes []*node.Node) string {
	parts := []string{strconv.FormatBool(ok)}
	for _, n := range nodes {
		parts = append(parts, fmt.Sprintf("%s:%d", id32(n.GetKey()), n.SetIndex))
	}
	return strings.Join(parts, " ")
}

func showPos(p *node.Pool) string {
	parts := []string{"pos"}
	for _, nd := range p.CopyNodes() {
		parts = append(parts, fmt.Sprintf("%s:%d", dec(nd.GetKey()), nd.SetIndex))
	}
	return strings.Join(parts, " ")
}

func impl(ops []string) []string {
	w := newWorld(0)
	defer func() { chainPool.Put(w.c) }()
	scorer := node.NewHashPoolScorer(encryption.NewXORHashScorer())
	outs := make([]string, len(ops))
	poisoned, inAdd := false, false
	sharder := func(id string) *node.Node {
		if nd := w.pool.GetNode(id); nd != nil {
			return nd // the pool's own object (identity is by pointer in IsInTop)
		}
		return mkNode(id, "")
	}
	// the node object to ask the chain about: the one held by the sharder pool in force for the round
	chainSharder := func(id string) *node.Node {
		if nd := w.c.GetMagicBlock(w.round).Sharders.GetNode(id); nd != nil {
			return nd
		}
		return mkNode(id, "")
	}
	for i, op := range ops {
		f := strings.Fields(op)
		func() {
			defer func() {
				if r := recover(); r != nil {
					outs[i] = "panic"
					if inAdd {
						// Pool.AddNode holds the pool's mutex without defer: after a panic inside it every later call on
						// that pool would block for ever. The rest of the segment is answered without touching it.
						poisoned = true
					}
				}
			}()
			outs[i] = "bad-op"
			if len(f) == 0 {
				return
			}
			inAdd = f[0] == "add" || f[0] == "addm" || f[0] == "padd"
			if f[0] == "new" {
				poisoned = false
			}
			if poisoned {
				outs[i] = "pool-left-locked-by-panic"
				return
			}
			switch {
			case f[0] == "new" && len(f) == 2:
				n, ok := parseInt(f[1])
				if !ok || n != int64(int(n)) {
					return
				}
				chainPool.Put(w.c)
				w = newWorld(int(n))
				outs[i] = "ok"
			case f[0] == "add" && len(f) == 3:
				if !isID(f[1]) {
					return
				}
				pkb, err := hex.DecodeString(f[2])
				if err != nil || encryption.Hash(pkb) != f[1] {
					outs[i] = "harness-bad-pk" // the generator never produces this
					return
				}
				if err := w.pool.AddNode(mkNode(f[1], f[2])); err != nil {
					outs[i] = "error"
					return
				}
				outs[i] = "ok"
			case f[0] == "obj" && len(f) == 4:
				o, ok := parseInt(f[1])
				if !ok || o < 0 || o >= 1000000 || strings.HasPrefix(f[1], "-") || !isID(f[2]) || w.objs[o] != nil {
					return
				}
				pkb, err := hex.DecodeString(f[3])
				if err != nil || encryption.Hash(pkb) != f[2] {
					outs[i] = "harness-bad-pk"
					return
				}
				w.objs[o] = mkNode(f[2], f[3])
				outs[i] = "ok"
			case f[0] == "padd" && len(f) == 3:
				p, ok1 := parseInt(f[1])
				o, ok2 := parseInt(f[2])
				if !ok1 || !ok2 || p < 0 || p >= 8 || strings.HasPrefix(f[1], "-") || strings.HasPrefix(f[2], "-") || w.objs[o] == nil {
					return
				}
				if err := w.poolN(p).AddNode(w.objs[o]); err != nil {
					outs[i] = "error"
					return
				}
				outs[i] = "ok"
			case f[0] == "mb" && len(f) == 3:
				p, ok1 := parseInt(f[1])
				st, ok2 := parseInt(f[2])
				if !ok1 || !ok2 || p < 0 || p >= 8 || st < 0 || strings.HasPrefix(f[1], "-") || strings.HasPrefix(f[2], "-") {
					return
				}
				mb := block.NewMagicBlock()
				mb.StartingRound = st
				mb.Miners = node.NewPool(node.NodeTypeMiner)
				mb.Sharders = w.poolN(p)
				w.c.SetMagicBlock(mb)
				outs[i] = "ok"
			case f[0] == "round" && len(f) == 2:
				r, ok := parseInt(f[1])
				if !ok {
					return
				}
				w.round = r
				outs[i] = "ok"
			case f[0] == "pos" && len(f) == 1:
				outs[i] = showPos(w.pool)
			case f[0] == "ppos" && len(f) == 2:
				p, ok := parseInt(f[1])
				if !ok || p < 0 || p >= 8 || strings.HasPrefix(f[1], "-") {
					return
				}
				outs[i] = showPos(w.poolN(p))
			case f[0] == "scores" && len(f) == 2:
				parts := []string{"scores"}
				for _, s := range scorer.ScoreHashString(w.pool, f[1]) {
					parts = append(parts, fmt.Sprintf("%s:%d:%d", id32(s.Node.GetKey()), s.Node.SetIndex, s.Score))
				}
				outs[i] = strings.Join(parts, " ")
			case f[0] == "isbs" && len(f) == 3:
				if !isID(f[2]) {
					return
				}
				// the three entry points of the chain, asked about the same (round, hash, sharder)
				sh := chainSharder(f[2])
				a := w.c.IsBlockSharderFromHash(w.round, f[1], sh)
				blk := &block.Block{}
				blk.Hash = f[1]
				blk.Round = w.round
				b := w.c.IsBlockSharder(blk, sh)
				c3, _ := w.c.CanShardBlockWithReplicators(w.round, f[1], sh)
				if a != b || a != c3 {
					outs[i] = fmt.Sprintf("entry-points-disagree IsBlockSharderFromHash=%v IsBlockSharder=%v CanShardBlockWithReplicators=%v", a, b, c3)
					return
				}
				outs[i] = strconv.FormatBool(a)
			case f[0] == "repl" && len(f) == 3:
				if !isID(f[2]) {
					return
				}
				ok, nodes := w.c.CanShardBlockWithReplicators(w.round, f[1], chainSharder(f[2]))
				outs[i] = showNodes(ok, nodes)
			case (f[0] == "intop" || f[0] == "intopn") && len(f) == 4:
				n, ok := parseInt(f[3])
				if !isID(f[2]) || !ok {
					return
				}
				if n != int64(int(n)) {
					return
				}
				sc := scorer.ScoreHashString(w.pool, f[1])
				if f[0] == "intop" {
					outs[i] = strconv.FormatBool(sharder(f[2]).IsInTop(sc, int(n)))
				} else {
					outs[i] = showNodes(sharder(f[2]).IsInTopWithNodes(sc, int(n)))
				}
			}
		}()
	}
	return outs
}

// ---- generator -------------------------------------------------------------------------------------------------------

type ident struct{ id, pk string }

func mkIdent(r *rand.Rand) ident {
	pk := make([]byte, 32)
	r.Read(pk)
	return ident{encryption.Hash(pk), hex.EncodeToString(pk)}
}

// tieHash: a hash that gives nodes a and b the same score (where they differ, take a's bits on one half of the
// differing positions and b's on the other half; elsewhere random).
func tieHash(r *rand.Rand, a, b string) string {
	ab, _ := hex.DecodeString(a)
	bb, _ := hex.DecodeString(b)
	h := make([]byte, 32)
	r.Read(h)
	flip := false
	for i := 0; i < 32; i++ {
		for k := uint(0); k < 8; k++ {
			x, y := (ab[i]>>k)&1, (bb[i]>>k)&1
			if x != y {
				v := x
				if flip {
					v = y
				}
				flip = !flip
				h[i] = h[i]&^(1<<k) | v<<k
			}
		}
	}
	return hex.EncodeToString(h)
}

// queriesFor: the same queries for every segment of a case.
func queriesFor(r *rand.Rand, ids []ident, outsider ident, hashes []string, few bool) []string {
	size := len(ids)
	queries := []string{"pos"}
	for _, h := range hashes {
		queries = append(queries, "scores "+h)
		for _, id := range ids {
			if few {
				if r.Intn(size) < 4 {
					queries = append(queries, fmt.Sprintf("isbs %s %s", h, id.id))
				}
			} else if r.Intn(3) != 0 || size <= 4 {
				queries = append(queries, fmt.Sprintf("isbs %s %s", h, id.id))
			}
		}
		queries = append(queries, fmt.Sprintf("isbs %s %s", h, outsider.id))
		who := outsider
		if size > 0 && r.Intn(3) != 0 {
			who = ids[r.Intn(size)]
		}
		queries = append(queries, fmt.Sprintf("repl %s %s", h, who.id))
		if r.Intn(3) == 0 {
			n := int64(r.Intn(size+3) - 1)
			if r.Intn(6) == 0 {
				n = []int64{math.MinInt64, math.MinInt64 + 1, -1, 0, 1, math.MaxInt64 - 1, math.MaxInt64}[r.Intn(7)]
			}
			queries = append(queries, fmt.Sprintf("intop %s %s %d", h, who.id, n), fmt.Sprintf("intopn %s %s %d", h, who.id, n))
		}
	}
	return queries
}

func genHashes(r *rand.Rand, ids []ident, nh int, wellFormedOnly bool) []string {
	size := len(ids)
	var hashes []string
	for k := 0; k < nh; k++ {
		x := r.Intn(12)
		if wellFormedOnly && (x == 5 || x == 7) {
			x = 11
		}
		switch {
		case x < 5 && size >= 2:
			a, b := r.Intn(size), r.Intn(size)
			hashes = append(hashes, tieHash(r, ids[a].id, ids[b].id))
		case x == 5:
			b := make([]byte, r.Intn(32))
			r.Read(b)
			if len(b) == 0 {
				b = []byte{7}
			}
			hashes = append(hashes, hex.EncodeToString(b)) // shorter than an id
		case x == 6:
			b := make([]byte, 33+r.Intn(8))
			r.Read(b)
			hashes = append(hashes, hex.EncodeToString(b))
		case x == 7:
			hashes = append(hashes, []string{"zz", "abc", "0g"}[r.Intn(3)])
		case x == 8 && size >= 1:
			hashes = append(hashes, ids[r.Intn(size)].id) // a node id as hash: score 0 for that node
		default:
			b := make([]byte, 32)
			r.Read(b)
			hashes = append(hashes, hex.EncodeToString(b))
		}
	}
	return hashes
}

// gen: three kinds of cases.
//   - small: one sharder set added in two different orders (two `new` segments, the same queries in each), queries for
//     every node and an outsider; replicator counts around 0, the pool size, beyond, and int64 extremes; hashes:
//     random, tie-forcing, too short (panic), too long, not hex.
//   - shared: node OBJECTS shared between pools — sharders put into pool 0 as objects, some of the same objects put into
//     side pools of another composition (which renumbers their SetIndex), then re-added to pool 0 as NEW objects with the
//     same key (the documented replace path); compared with a freshly built pool of the same members.
//   - big: pools beyond 256 members (257, 300, 513, ~1000): an index packed into 8 (or 9) bits overflows.
func gen(r *rand.Rand, thorough bool, i int) []string {
	kind := "small"
	switch {
	case i%5 == 3:
		return genTwoMB(r, thorough)
	case i%5 == 1:
		kind = "shared"
	case (!thorough && i%40 == 7) || (thorough && i%60 == 7):
		kind = "big"
	}
	maxN := 9
	if thorough {
		maxN = 24
	}
	size := r.Intn(maxN)
	if kind == "shared" {
		size = 2 + r.Intn(maxN)
	}
	if kind == "big" {
		size = []int{257, 258, 300, 513}[r.Intn(4)]
		if thorough && r.Intn(3) == 0 {
			size = 1000 + r.Intn(50)
		}
	}
	ids := make([]ident, size)
	for k := range ids {
		ids[k] = mkIdent(r)
	}
	outsider := mkIdent(r)
	var nrepl int64
	switch r.Intn(9) {
	case 0:
		nrepl = int64(-r.Intn(3))
	case 1:
		nrepl = int64(size)
	case 2:
		nrepl = int64(size + 1 + r.Intn(2))
	case 3:
		nrepl = 1
	case 4:
		if r.Intn(2) == 0 {
			nrepl = []int64{math.MinInt64, math.MinInt64 + 1, math.MaxInt64 - 1, math.MaxInt64}[r.Intn(4)]
		} else {
			nrepl = int64(1 + r.Intn(size+1))
		}
	default:
		nrepl = int64(1 + r.Intn(size+1))
	}
	if kind == "big" {
		nrepl = int64(1 + r.Intn(40))
	}
	nh := 1 + r.Intn(3)
	if kind == "big" {
		nh = 3
	}
	hashes := genHashes(r, ids, nh, kind == "big")
	queries := queriesFor(r, ids, outsider, hashes, kind == "big")
	if r.Intn(15) == 0 {
		queries = append(queries, []string{"add zz 00", "isbs 00", "new", "new x", "repl 00 1234", "frob", "intop 00 " + outsider.id + " x", "padd 9 1", "obj 1", "padd 0 999", "ppos 8"}[r.Intn(11)])
	}
	var ops []string
	if kind == "shared" {
		// segment 1: objects 1..size into pool 0; a subset into side pools; re-adds as new objects
		ops = append(ops, fmt.Sprintf("new %d", nrepl))
		for k, id := range ids {
			ops = append(ops, fmt.Sprintf("obj %d %s %s", k+1, id.id, id.pk))
		}
		for _, k := range r.Perm(size) {
			ops = append(ops, fmt.Sprintf("padd 0 %d", k+1))
		}
		next := size + 1
		rounds := 1 + r.Intn(3)
		for t := 0; t < rounds; t++ {
			p := 1 + r.Intn(3)
			sub := r.Perm(size)[:1+r.Intn(size)]
			for _, k := range sub {
				ops = append(ops, fmt.Sprintf("padd %d %d", p, k+1))
			}
			if r.Intn(2) == 0 {
				ops = append(ops, fmt.Sprintf("ppos %d", p), "pos", "scores "+hashes[0])
			}
			// re-register some of them in pool 0 as new objects with the same key
			for _, k := range sub[:1+r.Intn(len(sub))] {
				ops = append(ops, fmt.Sprintf("obj %d %s %s", next, ids[k].id, ids[k].pk), fmt.Sprintf("padd 0 %d", next))
				next++
				if r.Intn(3) == 0 {
					ops = append(ops, "pos")
				}
			}
		}
		ops = append(ops, queries...)
		// segment 2: the same members, built freshly
		ops = append(ops, fmt.Sprintf("new %d", nrepl))
		for _, k := range r.Perm(size) {
			ops = append(ops, fmt.Sprintf("add %s %s", ids[k].id, ids[k].pk))
		}
		ops = append(ops, queries...)
		return ops
	}
	segments := 2
	if kind == "big" {
		segments = 1
	}
	for s := 0; s < segments; s++ {
		ops = append(ops, fmt.Sprintf("new %d", nrepl))
		perm := r.Perm(size)
		for _, k := range perm {
			ops = append(ops, fmt.Sprintf("add %s %s", ids[k].id, ids[k].pk))
			if r.Intn(6) == 0 && kind != "big" { // re-adding a node (replaces the object, same position)
				ops = append(ops, fmt.Sprintf("add %s %s", ids[k].id, ids[k].pk))
			}
			if s == 0 && r.Intn(8) == 0 && kind != "big" {
				ops = append(ops, "pos")
			}
		}
		ops = append(ops, queries...)
	}
	return ops
}

// genTwoMB: a view change that changes the sharder set — a second magic block (starting round S) whose sharder pool is
// disjoint from / overlaps with / equals the first one's; block rounds around S-1 … S+5 (a magic block is in force from
// S+4 on) and far away; every question goes through all three entry points of the chain.
func genTwoMB(r *rand.Rand, thorough bool) []string {
	n1, n2 := 2+r.Intn(5), 2+r.Intn(5)
	first := make([]ident, n1)
	for k := range first {
		first[k] = mkIdent(r)
	}
	var second []ident
	switch r.Intn(3) {
	case 0: // disjoint
	case 1: // overlapping
		second = append(second, first[:1+r.Intn(n1)]...)
	default: // a superset
		second = append(second, first...)
	}
	for len(second) < n2 {
		second = append(second, mkIdent(r))
	}
	nrepl := 1 + r.Intn(3)
	if r.Intn(8) == 0 {
		nrepl = 0
	}
	S := int64(1 + r.Intn(200))
	if r.Intn(4) == 0 {
		S = int64(1 + r.Intn(6)) // around the round-5 kink of the offset
	}
	if r.Intn(12) == 0 {
		S = []int64{1<<62 + 3, 1<<63 - 6}[r.Intn(2)]
	}
	ops := []string{fmt.Sprintf("new %d", nrepl)}
	for _, k := range r.Perm(n1) {
		ops = append(ops, fmt.Sprintf("add %s %s", first[k].id, first[k].pk))
	}
	for k, id := range second {
		ops = append(ops, fmt.Sprintf("obj %d %s %s", k+1, id.id, id.pk), fmt.Sprintf("padd 1 %d", k+1))
	}
	ops = append(ops, fmt.Sprintf("mb 1 %d", S))
	if r.Intn(5) == 0 { // a third magic block going back to the first set
		ops = append(ops, fmt.Sprintf("mb 0 %d", S+int64(1+r.Intn(8))))
	}
	all := append(append([]ident{}, first...), second...)
	rounds := []int64{S - 1, S, S + 1, S + 2, S + 3, S + 4, S + 5}
	if S < 1<<62 {
		rounds = append(rounds, 0, 1, 4, 5, S+100, 1<<63-1, -1<<63)
	}
	nh := 1 + r.Intn(2)
	for q := 0; q < nh; q++ {
		b := make([]byte, 32)
		r.Read(b)
		h := hex.EncodeToString(b)
		for _, rd := range rounds {
			if r.Intn(4) == 0 {
				continue
			}
			ops = append(ops, fmt.Sprintf("round %d", rd))
			for _, id := range all {
				if r.Intn(2) == 0 {
					ops = append(ops, fmt.Sprintf("isbs %s %s", h, id.id))
				}
			}
			ops = append(ops, fmt.Sprintf("repl %s %s", h, all[r.Intn(len(all))].id))
		}
	}
	return ops
}

// ---- oracle ----------------------------------------------------------------------------------------------------------

func popScore(id, h []byte) int {
	s := 0
	for i := range id {
		s += bits.OnesCount8(id[i] ^ h[i])
	}
	return s
}

// setOf: an answer without what legitimately depends on the history of OTHER pools (the SetIndex of shared node objects
// and, through it, the order among equal scores): the flag and the sorted node ids.
func setOf(ans string) string {
	g := strings.Fields(ans)
	if len(g) == 0 || (g[0] != "true" && g[0] != "false") {
		return ans
	}
	var ids []string
	for _, x := range g[1:] {
		ids = append(ids, strings.SplitN(x, ":", 2)[0])
	}
	sort.Strings(ids)
	return strings.TrimSpace(g[0] + " " + strings.Join(ids, " "))
}

// oracle: the property on the implementation's answers. The members of pool 0 are the ids added to it (by `add` or
// `padd 0`), whatever the history — other pools, shared objects, re-adds.
//
//	(determinism / order and history independence) two segments of a case with the same members and replicator count give
//	   the same yes/no answers and the same replicator SETS for identical queries;
//	(positions) `pos` lists the ids ascending; right after an AddNode to pool 0 every SetIndex is the position;
//	(scores) the output of ScoreHash is ordered by score descending, equal scores by SetIndex descending, one entry per member,
//	   each with the XOR-popcount score;
//	(the set) for a well-formed hash (>= 32 bytes) and 0 < n <= #sharders: the nodes of `repl` are exactly the sharders x
//	   with fewer than n sharders scoring strictly higher than x — hence at least n distinct ones, ties at the cut-off
//	   included; `isbs` of a sharder is membership in that set, of an outsider false;
//	(disabled) n <= 0: every `isbs` is true and `repl` lists all sharders.
func oracle(ops, outs []string) *corr.Violation {
	mk := func(sig, msg string) *corr.Violation {
		return &corr.Violation{Signature: "C42:" + sig, Message: msg, Ops: ops, Impl: outs}
	}
	type seg struct {
		nrepl    int64
		ids      map[string]bool
		answers  map[string]string
		side     bool // node objects were (also) put into other pools: SetIndex may be another pool's
		posFresh bool // the last AddNode was to pool 0
		pids     map[string]map[string]bool // members of the side pools
		mbS      []int64                    // further magic blocks: starting rounds …
		mbP      []string                   // … and their sharder pools
		round    int64
	}
	// the sharder pool in force for a block round: the magic block with the greatest starting round <= the offset round
	// (round itself below 5, round-4 from 5 on), the latest one when none starts earlier; pool "0" starts at round 0
	inForce := func(g *seg) map[string]bool {
		q := g.round
		if q >= 5 {
			q -= 4
		}
		bestS, bestP, lastS, lastP := int64(-1), "", int64(0), "0"
		if q >= 0 {
			bestS, bestP = 0, "0"
		}
		for k, st := range g.mbS {
			if st <= q && st >= bestS {
				bestS, bestP = st, g.mbP[k]
			}
			if st >= lastS {
				lastS, lastP = st, g.mbP[k]
			}
		}
		if bestP == "" {
			bestP = lastP
		}
		if bestP == "0" {
			return g.ids
		}
		if g.pids[bestP] == nil {
			return map[string]bool{}
		}
		return g.pids[bestP]
	}
	var segs []*seg
	var cur *seg
	objID := map[string]string{}
	for i, op := range ops {
		f := strings.Fields(op)
		if len(f) == 0 || outs[i] == "bad-op" {
			continue
		}
		if f[0] == "new" {
			n, _ := strconv.ParseInt(f[1], 10, 64)
			cur = &seg{nrepl: n, ids: map[string]bool{}, answers: map[string]string{}, pids: map[string]map[string]bool{}, round: 1}
			segs = append(segs, cur)
			objID = map[string]string{}
			continue
		}
		if cur == nil {
			continue
		}
		switch f[0] {
		case "add":
			if outs[i] != "ok" {
				return mk("add-rejected", fmt.Sprintf("op %d %q answered %q", i, op, outs[i]))
			}
			cur.ids[f[1]] = true
			cur.posFresh = true
			cur.answers = map[string]string{} // answers are recorded for the final member set only
			continue
		case "obj":
			objID[f[1]] = f[2]
			continue
		case "padd":
			if outs[i] != "ok" {
				return mk("add-rejected", fmt.Sprintf("op %d %q answered %q", i, op, outs[i]))
			}
			if f[1] == "0" {
				cur.ids[objID[f[2]]] = true
				cur.posFresh = true
				cur.answers = map[string]string{}
			} else {
				cur.side = true
				cur.posFresh = false
				if cur.pids[f[1]] == nil {
					cur.pids[f[1]] = map[string]bool{}
				}
				cur.pids[f[1]][objID[f[2]]] = true
			}
			continue
		case "mb":
			st, _ := strconv.ParseInt(f[2], 10, 64)
			if st == 0 && f[1] != "0" {
				return nil // replacing the magic block of round 0: outside what the reference tracks
			}
			cur.mbS, cur.mbP = append(cur.mbS, st), append(cur.mbP, f[1])
			continue
		case "round":
			cur.round, _ = strconv.ParseInt(f[1], 10, 64)
			continue
		case "ppos":
			continue
		}
		if strings.HasPrefix(outs[i], "entry-points-disagree") {
			return mk("entry-points-disagree-on-replicators", fmt.Sprintf("op %d %.110q at block round %d: %s — the three entry points must name the same replicating sharders for the same (round, hash)", i, op, cur.round, outs[i]))
		}
		cur.answers[op+"@"+strconv.FormatInt(cur.round, 10)] = outs[i]
		members := cur.ids
		if f[0] == "isbs" || f[0] == "repl" {
			members = inForce(cur) // the chain asks the magic block in force for the round
		}
		sorted := make([]string, 0, len(members))
		for id := range members {
			sorted = append(sorted, id)
		}
		sort.Strings(sorted)
		idx := map[string]int{}
		by32 := map[string]int{}
		for k, id := range sorted {
			idx[id] = k
			by32[id32(id)] = k
		}
		switch f[0] {
		case "pos":
			g := strings.Fields(outs[i])
			okp := len(g) == len(sorted)+1
			for k := 0; okp && k < len(sorted); k++ {
				p := strings.SplitN(g[k+1], ":", 2)
				okp = len(p) == 2 && p[0] == dec(sorted[k]) && (!cur.posFresh || p[1] == strconv.Itoa(k))
			}
			if !okp {
				return mk("positions", fmt.Sprintf("op %d: positions %.300q: the %d member ids ascending (SetIndex = position after an AddNode to this pool: %v) are expected", i, outs[i], len(sorted), cur.posFresh))
			}
		case "scores":
			hb, err := hex.DecodeString(f[1])
			if err != nil || len(hb) < 32 {
				continue
			}
			g := strings.Fields(outs[i])
			if len(g) == 0 || g[0] != "scores" {
				return mk("scores-answer", fmt.Sprintf("op %d %.80q answered %.200q", i, op, outs[i]))
			}
			if len(g)-1 != len(sorted) {
				return mk("scores-not-one-per-member", fmt.Sprintf("op %d: %d scored entries for %d members", i, len(g)-1, len(sorted)))
			}
			seen := map[int]bool{}
			ps, pi := 0, 0
			for k, e := range g[1:] {
				p := strings.Split(e, ":")
				if len(p) != 3 {
					return mk("scores-answer", fmt.Sprintf("op %d entry %q", i, e))
				}
				m, member := by32[p[0]]
				si, _ := strconv.Atoi(p[1])
				sc, _ := strconv.Atoi(p[2])
				if !member || seen[m] {
					return mk("scores-not-one-per-member", fmt.Sprintf("op %d: entry %q is not a member or appears twice", i, e))
				}
				seen[m] = true
				b, _ := hex.DecodeString(sorted[m])
				if sc != popScore(b, hb) {
					return mk("score-value", fmt.Sprintf("op %d: entry %q, XOR popcount is %d", i, e, popScore(b, hb)))
				}
				if k > 0 && (sc > ps || (sc == ps && si > pi)) {
					return mk("scores-not-sorted", fmt.Sprintf("op %d: ScoreHash output is not ordered by (score desc, SetIndex desc): entry %d %q follows (score %d, index %d)", i, k, e, ps, pi))
				}
				ps, pi = sc, si
			}
		case "isbs", "repl":
			hb, err := hex.DecodeString(f[1])
			n := cur.nrepl
			if n <= 0 {
				if f[0] == "isbs" && outs[i] != "true" {
					return mk("disabled-not-all", fmt.Sprintf("op %d %q answered %q with replication disabled (n=%d)", i, op, outs[i], n))
				}
				if f[0] == "repl" {
					var want []string
					for _, id := range sorted {
						want = append(want, id32(id))
					}
					sort.Strings(want)
					if w := strings.TrimSpace("true " + strings.Join(want, " ")); setOf(outs[i]) != w {
						return mk("disabled-not-all", fmt.Sprintf("op %d %.80q answered %.200q, replication disabled (n=%d): all %d sharders expected", i, op, outs[i], n, len(sorted)))
					}
				}
				continue
			}
			if err != nil || len(hb) < 32 || n > int64(len(sorted)) {
				continue // not a block hash / not enough sharders: the property does not speak
			}
			score := make([]int, len(sorted))
			for k, id := range sorted {
				b, _ := hex.DecodeString(id)
				score[k] = popScore(b, hb)
			}
			byScore := append([]int(nil), score...)
			sort.Sort(sort.Reverse(sort.IntSlice(byScore)))
			cut := byScore[n-1] // x is in the top iff fewer than n score strictly higher iff score(x) >= n-th highest score
			inTop := map[int]bool{}
			for k := range sorted {
				if score[k] >= cut {
					inTop[k] = true
				}
			}
			k, member := idx[f[2]]
			want := member && inTop[k]
			if f[0] == "isbs" {
				if outs[i] != strconv.FormatBool(want) {
					return mk("set-not-top", fmt.Sprintf("op %d %.100q answered %q; %d members, n=%d, cut-off score %d: node index %d (member=%v, score %d) in top: %v", i, op, outs[i], len(sorted), n, cut, k, member, score[k], want))
				}
				continue
			}
			g := strings.Fields(outs[i])
			if len(g) == 0 || (g[0] != "true" && g[0] != "false") {
				return mk("repl-answer", fmt.Sprintf("op %d %.100q answered %.100q", i, op, outs[i]))
			}
			got := map[int]bool{}
			for _, x := range g[1:] {
				m, ok := by32[strings.SplitN(x, ":", 2)[0]]
				if !ok {
					return mk("repl-not-a-member", fmt.Sprintf("op %d %.100q lists %q, which is not a member", i, op, x))
				}
				if got[m] {
					return mk("repl-duplicate", fmt.Sprintf("op %d %.100q lists member %d twice", i, op, m))
				}
				got[m] = true
			}
			statSets++
			if len(got) > int(n) {
				statTies++
			}
			if len(sorted) > 256 {
				statBig++
			}
			if len(got) < int(n) {
				return mk("fewer-than-n", fmt.Sprintf("op %d %.100q: %d distinct replicators, configured %d, %d sharders", i, op, len(got), n, len(sorted)))
			}
			for k := range sorted {
				if got[k] != inTop[k] {
					return mk("set-not-top", fmt.Sprintf("op %d %.100q: %d members, n=%d, cut-off score %d: member %d (score %d) listed=%v, in top=%v", i, op, len(sorted), n, cut, k, score[k], got[k], inTop[k]))
				}
			}
			if (g[0] == "true") != want {
				return mk("isbs-vs-set", fmt.Sprintf("op %d %.100q answered %q but membership of the asked node is %v", i, op, g[0], want))
			}
		}
	}
	// order / history independence across segments
	for a := 0; a < len(segs); a++ {
		for b := a + 1; b < len(segs); b++ {
			x, y := segs[a], segs[b]
			if x.nrepl != y.nrepl || len(x.ids) != len(y.ids) {
				continue
			}
			same := true
			for id := range x.ids {
				if !y.ids[id] {
					same = false
				}
			}
			if !same {
				continue
			}
			if x.side || y.side {
				statShared++
			}
			for q, ans := range x.answers {
				ans2, ok := y.answers[q]
				if !ok {
					continue
				}
				k := strings.Fields(q)[0]
				if (k == "pos" || k == "scores") && (x.side || y.side) {
					continue // SetIndex of shared objects (and the order of equal scores) may be another pool's
				}
				if k == "repl" || k == "intopn" {
					ans, ans2 = setOf(ans), setOf(ans2)
				}
				statOrderCmp++
				if ans != ans2 {
					return mk("order-dependent", fmt.Sprintf("the same sharder set built by another AddNode history answers %.100q with %.200q instead of %.200q", q, ans2, ans))
				}
			}
		}
	}
	return nil
}

func main() {
	a := "0000000000000000000000000000000000000000000000000000000000000000"
	corr.Main(corr.Prop{
		ID: "C42", Model: "C42", Gen: gen, Impl: impl, Oracle: oracle,
		Cases: func(th bool) int {
			if th {
				return 9000
			}
			return 1200
		},
		Extra: func() map[string]interface{} {
			return map[string]interface{}{"replicator_sets_checked": statSets, "sets_with_tie_at_cutoff": statTies,
				"sets_checked_in_pools_over_256": statBig, "segment_pairs_with_shared_node_objects": statShared,
				"answers_compared_across_insertion_orders": statOrderCmp}
		},
		Fixed: [][]string{
			{"new 2", "pos", "scores 00", "isbs 00 " + a, "repl 00 " + a, "intop 00 " + a + " 0", "intopn 00 " + a + " 0", "intop 00 " + a + " -1"},
			{"new 0", "isbs zz " + a, "repl zz " + a},
			{"new 1", "mb 1 100", "round 99", "isbs 00 " + a, "round 100", "isbs " + a + " " + a, "repl " + a + " " + a, "round 104", "isbs " + a + " " + a, "repl " + a + " " + a, "mb 9 1", "mb 1 -1", "round x"},
			{"new 9223372036854775807", "isbs 00 " + a, "new -9223372036854775808", "isbs 00 " + a, "repl 00 " + a, "intop 00 " + a + " 9223372036854775807", "intopn 00 " + a + " -9223372036854775808"},
		},
	})
}
