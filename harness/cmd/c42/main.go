// C42 harness: the real node.Pool / HashPoolScorer / XORHashScorer behind a real chain.Chain
// (IsBlockSharder, IsBlockSharderFromHash, CanShardBlockWithReplicators) against Model/Replicators.lean.
package main

import (
	"encoding/hex"
	"fmt"
	"math/big"
	"math/bits"
	"math/rand"
	"sort"
	"strconv"
	"strings"
	"sync"

	"0chain.net/chaincore/block"
	"0chain.net/chaincore/chain"
	"0chain.net/chaincore/client"
	"0chain.net/chaincore/node"
	"0chain.net/core/encryption"
	"github.com/0chain/common/core/logging"
	"go.uber.org/zap"
	"verifharness/lib/corr"
)

var provMu sync.Mutex

var statTies, statOrderCmp, statSets int // evidence counters (oracle runs single-threaded)

func init() {
	logging.Logger = zap.NewNop()
	logging.N2n = zap.NewNop()
	client.SetClientSignatureScheme("ed25519") // any 32 bytes are a public key; the node id is Hash(pk) either way
}

type world struct {
	c    *chain.Chain
	pool *node.Pool
}

var chainPool = sync.Pool{New: func() interface{} {
	provMu.Lock() // chain.Provider writes the global configuration object
	defer provMu.Unlock()
	return chain.Provider().(*chain.Chain)
}}

// newWorld: a chain object (constructing one is expensive, so they are recycled between cases; everything the
// operations read — the configuration and the magic block with its pools — is replaced here).
func newWorld(nrepl int) *world {
	c := chainPool.Get().(*chain.Chain)
	c.ChainConfig = chain.NewConfigImpl(&chain.ConfigData{NumReplicators: nrepl})
	mb := block.NewMagicBlock()
	mb.Miners = node.NewPool(node.NodeTypeMiner)
	mb.Sharders = node.NewPool(node.NodeTypeSharder)
	c.SetMagicBlock(mb)
	return &world{c: c, pool: mb.Sharders}
}

func isID(s string) bool {
	if len(s) != 64 {
		return false
	}
	for _, ch := range s {
		if !((ch >= '0' && ch <= '9') || (ch >= 'a' && ch <= 'f')) {
			return false
		}
	}
	return true
}

func mkNode(id, pk string) *node.Node {
	nd := node.Provider()
	nd.Type = node.NodeTypeSharder
	nd.PublicKey = pk
	_ = nd.SetID(id)
	return nd
}

func dec(id string) string {
	v, _ := new(big.Int).SetString(id, 16)
	return v.String()
}

func parseInt(s string) (int64, bool) {
	v, err := strconv.ParseInt(s, 10, 64)
	if err != nil || strings.HasPrefix(s, "+") {
		return 0, false
	}
	return v, true
}

func showNodes(ok bool, nodes []*node.Node) string {
	parts := []string{strconv.FormatBool(ok)}
	for _, n := range nodes {
		parts = append(parts, strconv.Itoa(n.SetIndex))
	}
	return strings.Join(parts, " ")
}

func impl(ops []string) []string {
	w := newWorld(0)
	defer func() { chainPool.Put(w.c) }()
	scorer := node.NewHashPoolScorer(encryption.NewXORHashScorer())
	outs := make([]string, len(ops))
	sharder := func(id string) *node.Node {
		if nd := w.pool.GetNode(id); nd != nil {
			return nd // the pool's own object (identity is by pointer in IsInTop)
		}
		return mkNode(id, "")
	}
	for i, op := range ops {
		f := strings.Fields(op)
		func() {
			defer func() {
				if r := recover(); r != nil {
					outs[i] = "panic"
				}
			}()
			outs[i] = "bad-op"
			if len(f) == 0 {
				return
			}
			switch {
			case f[0] == "new" && len(f) == 2:
				n, ok := parseInt(f[1])
				if !ok || n != int64(int32(n)) {
					return
				}
				chainPool.Put(w.c)
				w = newWorld(int(n))
				outs[i] = "ok"
			case f[0] == "add" && len(f) == 3:
				if !isID(f[1]) {
					return
				}
				pkb, err := hex.DecodeString(f[2])
				if err != nil || encryption.Hash(pkb) != f[1] {
					outs[i] = "harness-bad-pk" // the generator never produces this
					return
				}
				if err := w.pool.AddNode(mkNode(f[1], f[2])); err != nil {
					outs[i] = "error"
					return
				}
				outs[i] = "ok"
			case f[0] == "pos" && len(f) == 1:
				parts := []string{"pos"}
				for _, nd := range w.pool.CopyNodes() {
					parts = append(parts, fmt.Sprintf("%s:%d", dec(nd.GetKey()), nd.SetIndex))
				}
				outs[i] = strings.Join(parts, " ")
			case f[0] == "scores" && len(f) == 2:
				parts := []string{"scores"}
				for _, s := range scorer.ScoreHashString(w.pool, f[1]) {
					parts = append(parts, fmt.Sprintf("%d:%d", s.Node.SetIndex, s.Score))
				}
				outs[i] = strings.Join(parts, " ")
			case f[0] == "isbs" && len(f) == 3:
				if !isID(f[2]) {
					return
				}
				sh := sharder(f[2])
				a := w.c.IsBlockSharderFromHash(1, f[1], sh)
				blk := &block.Block{}
				blk.Hash = f[1]
				blk.Round = 1
				b := w.c.IsBlockSharder(blk, sh)
				if a != b {
					outs[i] = "mismatch-IsBlockSharder-vs-FromHash"
					return
				}
				outs[i] = strconv.FormatBool(a)
			case f[0] == "repl" && len(f) == 3:
				if !isID(f[2]) {
					return
				}
				ok, nodes := w.c.CanShardBlockWithReplicators(1, f[1], sharder(f[2]))
				outs[i] = showNodes(ok, nodes)
			case (f[0] == "intop" || f[0] == "intopn") && len(f) == 4:
				n, ok := parseInt(f[3])
				if !isID(f[2]) || !ok {
					return
				}
				if n != int64(int(n)) {
					return
				}
				sc := scorer.ScoreHashString(w.pool, f[1])
				if f[0] == "intop" {
					outs[i] = strconv.FormatBool(sharder(f[2]).IsInTop(sc, int(n)))
				} else {
					outs[i] = showNodes(sharder(f[2]).IsInTopWithNodes(sc, int(n)))
				}
			}
		}()
	}
	return outs
}

// ---- generator -------------------------------------------------------------------------------------------------------

type ident struct{ id, pk string }

func mkIdent(r *rand.Rand) ident {
	pk := make([]byte, 32)
	r.Read(pk)
	return ident{encryption.Hash(pk), hex.EncodeToString(pk)}
}

// tieHash: a hash that gives nodes a and b the same score (where they differ, take a's bits on one half of the
// differing positions and b's on the other half; elsewhere random).
func tieHash(r *rand.Rand, a, b string) string {
	ab, _ := hex.DecodeString(a)
	bb, _ := hex.DecodeString(b)
	h := make([]byte, 32)
	r.Read(h)
	flip := false
	for i := 0; i < 32; i++ {
		for k := uint(0); k < 8; k++ {
			x, y := (ab[i]>>k)&1, (bb[i]>>k)&1
			if x != y {
				v := x
				if flip {
					v = y
				}
				flip = !flip
				h[i] = h[i]&^(1<<k) | v<<k
			}
		}
	}
	return hex.EncodeToString(h)
}

// gen: one sharder set, added in two different orders (two `new` segments, the same queries in each), queries for
// every node and for an outsider; replicator counts around 0, the pool size and beyond; hashes: random, tie-forcing,
// too short (panic), too long, not hex.
func gen(r *rand.Rand, thorough bool, i int) []string {
	maxN := 9
	if thorough {
		maxN = 24
	}
	size := r.Intn(maxN)
	ids := make([]ident, size)
	for k := range ids {
		ids[k] = mkIdent(r)
	}
	outsider := mkIdent(r)
	var nrepl int
	switch r.Intn(8) {
	case 0:
		nrepl = -r.Intn(3)
	case 1:
		nrepl = size
	case 2:
		nrepl = size + 1 + r.Intn(2)
	case 3:
		nrepl = 1
	default:
		nrepl = 1 + r.Intn(size+1)
	}
	var hashes []string
	nh := 1 + r.Intn(3)
	for k := 0; k < nh; k++ {
		switch x := r.Intn(12); {
		case x < 5 && size >= 2:
			a, b := r.Intn(size), r.Intn(size)
			hashes = append(hashes, tieHash(r, ids[a].id, ids[b].id))
		case x == 5:
			b := make([]byte, r.Intn(32))
			r.Read(b)
			if len(b) == 0 {
				b = []byte{7}
			}
			hashes = append(hashes, hex.EncodeToString(b)) // shorter than an id
		case x == 6:
			b := make([]byte, 33+r.Intn(8))
			r.Read(b)
			hashes = append(hashes, hex.EncodeToString(b))
		case x == 7:
			hashes = append(hashes, []string{"zz", "abc", "0g"}[r.Intn(3)])
		case x == 8 && size >= 1:
			hashes = append(hashes, ids[r.Intn(size)].id) // a node id as hash: score 0 for that node
		default:
			b := make([]byte, 32)
			r.Read(b)
			hashes = append(hashes, hex.EncodeToString(b))
		}
	}
	var queries []string
	queries = append(queries, "pos")
	for _, h := range hashes {
		queries = append(queries, "scores "+h)
		for _, id := range ids {
			if r.Intn(3) != 0 || size <= 4 {
				queries = append(queries, fmt.Sprintf("isbs %s %s", h, id.id))
			}
		}
		queries = append(queries, fmt.Sprintf("isbs %s %s", h, outsider.id))
		who := outsider
		if size > 0 && r.Intn(3) != 0 {
			who = ids[r.Intn(size)]
		}
		queries = append(queries, fmt.Sprintf("repl %s %s", h, who.id))
		if r.Intn(3) == 0 {
			n := r.Intn(size+3) - 1
			queries = append(queries, fmt.Sprintf("intop %s %s %d", h, who.id, n), fmt.Sprintf("intopn %s %s %d", h, who.id, n))
		}
	}
	if r.Intn(15) == 0 {
		queries = append(queries, []string{"add zz 00", "isbs 00", "new", "new x", "repl 00 1234", "frob", "intop 00 " + outsider.id + " x"}[r.Intn(7)])
	}
	var ops []string
	segments := 2
	for s := 0; s < segments; s++ {
		ops = append(ops, fmt.Sprintf("new %d", nrepl))
		perm := r.Perm(size)
		for _, k := range perm {
			ops = append(ops, fmt.Sprintf("add %s %s", ids[k].id, ids[k].pk))
			if r.Intn(6) == 0 { // re-adding a node (replaces the object, same position)
				j := perm[r.Intn(len(perm))]
				_ = j
				ops = append(ops, fmt.Sprintf("add %s %s", ids[k].id, ids[k].pk))
			}
			if s == 0 && r.Intn(8) == 0 {
				ops = append(ops, "pos")
			}
		}
		ops = append(ops, queries...)
	}
	return ops
}

// ---- oracle ----------------------------------------------------------------------------------------------------------

func popScore(id, h []byte) int {
	s := 0
	for i := range id {
		s += bits.OnesCount8(id[i] ^ h[i])
	}
	return s
}

// oracle: the property on the implementation's answers.
//
//	(determinism / order independence) two segments of a case with the same sharder set and replicator count answer
//	   every identical query identically;
//	(positions) `pos` lists the ids ascending with SetIndex = position;
//	(the set) for a well-formed hash (>= 32 bytes) and n > 0, n <= #sharders: the nodes of `repl` are exactly the sharders x
//	   with fewer than n sharders scoring strictly higher than x — hence at least n of them, ties at the cut-off included;
//	   `isbs` of a sharder is membership in that set, of an outsider false;
//	(disabled) n <= 0: every `isbs` is true and `repl` lists all sharders.
func oracle(ops, outs []string) *corr.Violation {
	mk := func(sig, msg string) *corr.Violation {
		return &corr.Violation{Signature: "C42:" + sig, Message: msg, Ops: ops, Impl: outs}
	}
	type seg struct {
		nrepl   int64
		ids     map[string]bool
		answers map[string]string
		frozen  bool
	}
	var segs []*seg
	var cur *seg
	for i, op := range ops {
		f := strings.Fields(op)
		if len(f) == 0 || outs[i] == "bad-op" {
			continue
		}
		if f[0] == "new" {
			n, _ := strconv.ParseInt(f[1], 10, 64)
			cur = &seg{nrepl: n, ids: map[string]bool{}, answers: map[string]string{}}
			segs = append(segs, cur)
			continue
		}
		if cur == nil {
			continue
		}
		if f[0] == "add" {
			if outs[i] != "ok" {
				return mk("add-rejected", fmt.Sprintf("op %d %q answered %q", i, op, outs[i]))
			}
			cur.ids[f[1]] = true
			cur.answers = map[string]string{} // answers are recorded for the final set only
			continue
		}
		cur.answers[op] = outs[i]
		sorted := make([]string, 0, len(cur.ids))
		for id := range cur.ids {
			sorted = append(sorted, id)
		}
		sort.Strings(sorted)
		idx := map[string]int{}
		for k, id := range sorted {
			idx[id] = k
		}
		switch f[0] {
		case "pos":
			parts := []string{"pos"}
			for k, id := range sorted {
				parts = append(parts, fmt.Sprintf("%s:%d", dec(id), k))
			}
			if want := strings.Join(parts, " "); outs[i] != want {
				return mk("positions", fmt.Sprintf("op %d: positions %q, ids ascending with SetIndex=position are %q", i, outs[i], want))
			}
		case "isbs", "repl":
			hb, err := hex.DecodeString(f[1])
			n := cur.nrepl
			if n <= 0 {
				if f[0] == "isbs" && outs[i] != "true" {
					return mk("disabled-not-all", fmt.Sprintf("op %d %q answered %q with replication disabled (n=%d)", i, op, outs[i], n))
				}
				if f[0] == "repl" {
					parts := []string{"true"}
					for k := range sorted {
						parts = append(parts, strconv.Itoa(k))
					}
					if want := strings.Join(parts, " "); outs[i] != want {
						return mk("disabled-not-all", fmt.Sprintf("op %d %q answered %q, replication disabled (n=%d): want %q", i, op, outs[i], n, want))
					}
				}
				continue
			}
			if err != nil || len(hb) < 32 || int(n) > len(sorted) {
				continue // not a block hash / not enough sharders: the property does not speak
			}
			score := make([]int, len(sorted))
			for k, id := range sorted {
				b, _ := hex.DecodeString(id)
				score[k] = popScore(b, hb)
			}
			inTop := map[int]bool{}
			for k := range sorted {
				higher := 0
				for j := range sorted {
					if score[j] > score[k] {
						higher++
					}
				}
				if higher < int(n) {
					inTop[k] = true
				}
			}
			k, member := idx[f[2]]
			want := member && inTop[k]
			if f[0] == "isbs" {
				if outs[i] != strconv.FormatBool(want) {
					return mk("set-not-top", fmt.Sprintf("op %d %q answered %q; scores %v, n=%d: node index %d (member=%v) in top: %v", i, op, outs[i], score, n, k, member, want))
				}
				continue
			}
			g := strings.Fields(outs[i])
			if len(g) == 0 || (g[0] != "true" && g[0] != "false") {
				return mk("repl-answer", fmt.Sprintf("op %d %q answered %q", i, op, outs[i]))
			}
			got := map[int]bool{}
			for _, x := range g[1:] {
				v, _ := strconv.Atoi(x)
				if got[v] {
					return mk("repl-duplicate", fmt.Sprintf("op %d %q lists node %d twice: %q", i, op, v, outs[i]))
				}
				got[v] = true
			}
			statSets++
			if len(got) > int(n) {
				statTies++
			}
			if len(got) < int(n) {
				return mk("fewer-than-n", fmt.Sprintf("op %d %q: %d replicators, configured %d, %d sharders", i, op, len(got), n, len(sorted)))
			}
			for k := range sorted {
				if got[k] != inTop[k] {
					return mk("set-not-top", fmt.Sprintf("op %d %q answered %q; scores %v, n=%d: node %d listed=%v, in top=%v", i, op, outs[i], score, n, k, got[k], inTop[k]))
				}
			}
			if (g[0] == "true") != want {
				return mk("isbs-vs-set", fmt.Sprintf("op %d %q answered %q but membership of the asked node is %v", i, op, outs[i], want))
			}
		}
	}
	// order independence across segments
	for a := 0; a < len(segs); a++ {
		for b := a + 1; b < len(segs); b++ {
			x, y := segs[a], segs[b]
			if x.nrepl != y.nrepl || len(x.ids) != len(y.ids) {
				continue
			}
			same := true
			for id := range x.ids {
				if !y.ids[id] {
					same = false
				}
			}
			if !same {
				continue
			}
			for q, ans := range x.answers {
				if _, ok := y.answers[q]; ok {
					statOrderCmp++
				}
				if ans2, ok := y.answers[q]; ok && ans != ans2 {
					return mk("order-dependent", fmt.Sprintf("the same sharder set added in another order answers %q with %q instead of %q", q, ans2, ans))
				}
			}
		}
	}
	return nil
}

func main() {
	a := "0000000000000000000000000000000000000000000000000000000000000000"
	_ = a
	corr.Main(corr.Prop{
		ID: "C42", Model: "C42", Gen: gen, Impl: impl, Oracle: oracle,
		Cases: func(th bool) int {
			if th {
				return 12000
			}
			return 1200
		},
		Extra: func() map[string]interface{} {
			return map[string]interface{}{"replicator_sets_checked": statSets, "sets_with_tie_at_cutoff": statTies, "answers_compared_across_insertion_orders": statOrderCmp}
		},
		Fixed: [][]string{
			{"new 2", "pos", "scores 00", "isbs 00 " + a, "repl 00 " + a, "intop 00 " + a + " 0", "intopn 00 " + a + " 0", "intop 00 " + a + " -1"},
			{"new 0", "isbs zz " + a, "repl zz " + a},
		},
	})
}
