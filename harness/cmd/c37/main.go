// C37 harness: the real chaincore/round.Round against Model/Round.lean.
//
// Every operation of a case runs in its own goroutine on the REAL round; the caller decides "returned" vs "blocked"
// from the goroutine's scheduler state (a goroutine parked in sync.(RW)Mutex.Lock/RLock while no other goroutine
// of the case can ever unlock is blocked for ever) — no timing guess, so a loaded machine cannot produce a false
// `blocked`. A blocked operation leaves its goroutine stuck, therefore cases run in child processes (this binary
// re-executed with `-worker`) that are recycled after a bounded number of cases.
package main

import (
	"bufio"
	"bytes"
	"encoding/json"
	"fmt"
	"io"
	"math/rand"
	"os"
	"os/exec"
	"runtime"
	"sort"
	"strconv"
	"strings"
	"sync"
	"sync/atomic"
	"time"

	"0chain.net/chaincore/block"
	"0chain.net/chaincore/node"
	"0chain.net/chaincore/round"
	"0chain.net/core/viper"
	"github.com/0chain/common/core/logging"
	"go.uber.org/zap"
	"verifharness/lib/corr"
)

// ---------------------------------------------------------------------------------------------- worker side

func goid() string {
	var b [64]byte
	n := runtime.Stack(b[:], false)
	f := strings.Fields(string(b[:n]))
	if len(f) >= 2 {
		return f[1]
	}
	return "?"
}

var stackBuf = make([]byte, 4<<20)

// waitState returns the scheduler's wait reason of goroutine id ("" = not found).
func waitState(id string) string {
	n := runtime.Stack(stackBuf, true)
	key := []byte("goroutine " + id + " [")
	i := bytes.Index(stackBuf[:n], key)
	if i < 0 {
		return ""
	}
	rest := stackBuf[i+len(key) : n]
	j := bytes.IndexByte(rest, ']')
	if j < 0 {
		return ""
	}
	return string(rest[:j])
}

func isMutexWait(st string) bool {
	return strings.HasPrefix(st, "sync.Mutex.Lock") || strings.HasPrefix(st, "sync.RWMutex.RLock") ||
		strings.HasPrefix(st, "sync.RWMutex.Lock") || strings.HasPrefix(st, "semacquire")
}

var leaked int

func debugf(format string, a ...interface{}) {
	if p := os.Getenv("VERIF_C37_DEBUG"); p != "" {
		if f, err := os.OpenFile(p, os.O_APPEND|os.O_CREATE|os.O_WRONLY, 0o644); err == nil {
			fmt.Fprintf(f, format+"\n", a...)
			f.Close()
		}
	}
}

// call runs f in a goroutine. It answers "blocked" when the goroutine is parked on a mutex WHILE r.mutex is
// unavailable (checked with TryLock through the hook) in three successive samples — nothing in a sequential case can
// release r.mutex, so that state is permanent; a goroutine parked for a moment on some other lock is simply waited
// for. "hang" after 60 s otherwise.
func call(locked func() bool, f func() string) string {
	done := make(chan string, 1)
	gid := make(chan string, 1)
	go func() {
		gid <- goid()
		defer func() {
			if r := recover(); r != nil {
				done <- "panic"
			}
		}()
		done <- f()
	}()
	id := <-gid
	start := time.Now()
	confirmed := 0
	for spin := 0; ; spin++ {
		select {
		case s := <-done:
			return s
		default:
		}
		if spin < 200 {
			runtime.Gosched()
			continue
		}
		st := waitState(id)
		if isMutexWait(st) {
			if locked() {
				confirmed++
				if confirmed >= 3 {
					select {
					case s := <-done:
						return s
					default:
					}
					leaked++
					return "blocked"
				}
			} else {
				debugf("goroutine %s in state %q while r.mutex is free (transient wait on another lock)", id, st)
				confirmed = 0
			}
		} else {
			confirmed = 0
		}
		if time.Since(start) > 60*time.Second {
			debugf("goroutine %s: no answer after 60 s, state %q", id, st)
			leaked++
			return "hang"
		}
		time.Sleep(50 * time.Microsecond)
	}
}

func mid(i int) string { return fmt.Sprintf("m%03d", i) }
func unmid(s string) string {
	n, err := strconv.Atoi(strings.TrimPrefix(s, "m"))
	if err != nil {
		return "?" + s
	}
	return strconv.Itoa(n)
}
func hid(s string) string   { return "h" + s }
func unhid(s string) string { return strings.TrimPrefix(s, "h") }

func mkBlock(h, rk string) *block.Block {
	b := &block.Block{}
	b.Hash = hid(h)
	r, _ := strconv.Atoi(rk)
	b.RoundRank = r
	return b
}

func showBlk(b *block.Block) string {
	if b == nil {
		return "nil"
	}
	return fmt.Sprintf("%s:%d", unhid(b.Hash), b.RoundRank)
}
func showBlks(bs []*block.Block) string {
	var p []string
	for _, b := range bs {
		p = append(p, showBlk(b))
	}
	return strings.Join(p, ",")
}
func showVB(bs []round.VerifBlk) string {
	var p []string
	for _, b := range bs {
		p = append(p, fmt.Sprintf("%s:%d", unhid(b.Hash), b.Rank))
	}
	return strings.Join(p, ",")
}

func sortedKeys(ks []string) string {
	var ns []int
	for _, k := range ks {
		n, _ := strconv.Atoi(unmid(k))
		ns = append(ns, n)
	}
	sort.Ints(ns)
	var p []string
	for _, n := range ns {
		p = append(p, strconv.Itoa(n))
	}
	return strings.Join(p, ",")
}

func dump(r *round.Round) string {
	st := r.VerifState()
	perm := "nil"
	if st.PermLen >= 0 {
		perm = strconv.Itoa(st.PermLen)
	}
	vrf := "0"
	if st.VRF != "" {
		vrf = st.VRF
	}
	blk := "nil"
	if st.Blk != nil {
		blk = fmt.Sprintf("%s:%d", unhid(st.Blk.Hash), st.Blk.Rank)
	}
	bh := "nil"
	if st.BlockHash != "" {
		bh = unhid(st.BlockHash)
	}
	var vk []string
	for k := range st.Votes {
		vk = append(vk, k)
	}
	sort.Strings(vk)
	var vs []string
	for _, k := range vk {
		vs = append(vs, fmt.Sprintf("%s:%d", unmid(k), st.Votes[k]))
	}
	var tp []string
	for _, k := range st.TPerm {
		tp = append(tp, unmid(k))
	}
	lk := 0
	if st.Locked {
		lk = 1
	}
	return fmt.Sprintf("phase %d fin %d tc %d soft %d seed %d perm %s vrf %s shares [%s] nbs [%s] pbs [%s] blk %s bh %s votes [%s] tperm [%s] locked %d",
		st.Phase, st.Fin, st.TC, st.Soft, st.Seed, perm, vrf, sortedKeys(st.Shares), showVB(st.NBs), showVB(st.PBs), blk, bh,
		strings.Join(vs, ","), strings.Join(tp, ","), lk)
}

func obs(r *round.Round) string {
	st := r.VerifState()
	lk := 0
	if st.Locked {
		lk = 1
	}
	return fmt.Sprintf(" ; ph %d tc %d fin %d ns %d lk %d", st.Phase, st.TC, st.Fin, len(st.Shares), lk)
}

func b2s(b bool) string { return strconv.FormatBool(b) }

// runCase executes one case on a fresh real round.
func runCase(ops []string) []string {
	var r *round.Round
	outs := make([]string, len(ops))
	for i, op := range ops {
		w := strings.Fields(op)
		if len(w) == 0 {
			outs[i] = "bad-op"
			continue
		}
		bad := false
		atoi := func(s string) int {
			n, err := strconv.ParseInt(s, 10, 64)
			if err != nil {
				bad = true
			}
			return int(n)
		}
		for _, a := range w[1:] { // every argument of every operation is a decimal integer
			atoi(a)
		}
		if bad {
			outs[i] = "bad-op"
			continue
		}
		if w[0] == "new" {
			if len(w) != 4 {
				outs[i] = "bad-op"
				continue
			}
			r = round.NewRound(int64(atoi(w[1])))
			viper.Set("server_chain.round_timeouts.timeout_cap", atoi(w[2]))
			node.Self.Node.ID = mid(atoi(w[3]))
			outs[i] = "ok"
			continue
		}
		if w[0] == "stress" {
			outs[i] = stressImpl(w[1:])
			continue
		}
		if r == nil {
			outs[i] = "bad-op"
			continue
		}
		if w[0] == "dump" {
			outs[i] = dump(r)
			continue
		}
		var f func() string
		switch {
		case w[0] == "getphase" && len(w) == 1:
			f = func() string { return fmt.Sprintf("int %d", r.GetPhase()) }
		case w[0] == "setphase" && len(w) == 2:
			f = func() string { r.SetPhase(round.Phase(atoi(w[1]))); return "ok" }
		case w[0] == "resetphase" && len(w) == 2:
			f = func() string { r.ResetPhase(round.Phase(atoi(w[1]))); return "ok" }
		case w[0] == "addshare" && len(w) == 3:
			f = func() string {
				s := &round.VRFShare{}
				n := &node.Node{}
				n.ID = mid(atoi(w[1]))
				s.SetParty(n)
				return b2s(r.AddVRFShare(s, atoi(w[2])))
			}
		case w[0] == "shareexist" && len(w) == 2:
			f = func() string {
				s := &round.VRFShare{}
				n := &node.Node{}
				n.ID = mid(atoi(w[1]))
				s.SetParty(n)
				return b2s(r.VRFShareExist(s))
			}
		case w[0] == "getshares" && len(w) == 1:
			f = func() string {
				var ks []string
				for k := range r.GetVRFShares() {
					ks = append(ks, k)
				}
				return "keys " + sortedKeys(ks)
			}
		case w[0] == "addnb" && len(w) == 3:
			f = func() string { r.AddNotarizedBlock(mkBlock(w[1], w[2])); return "ok" }
		case w[0] == "addpb" && len(w) == 3:
			f = func() string { r.AddProposedBlock(mkBlock(w[1], w[2])); return "ok" }
		case w[0] == "updnb" && len(w) == 3:
			f = func() string { r.UpdateNotarizedBlock(mkBlock(w[1], w[2])); return "ok" }
		case w[0] == "getnbs" && len(w) == 1:
			f = func() string { return "blks " + showBlks(r.GetNotarizedBlocks()) }
		case w[0] == "getpbs" && len(w) == 1:
			f = func() string { return "blks " + showBlks(r.GetProposedBlocks()) }
		case w[0] == "heaviest" && len(w) == 1:
			f = func() string { return "blk " + showBlk(r.GetHeaviestNotarizedBlock()) }
		case w[0] == "bestnb" && len(w) == 1:
			f = func() string { return "blk " + showBlk(r.GetBestRankedNotarizedBlock()) }
		case w[0] == "bestpb" && len(w) == 1:
			f = func() string { return "blk " + showBlk(r.GetBestRankedProposedBlock()) }
		case w[0] == "restart" && len(w) == 1:
			f = func() string {
				err := r.Restart()
				if err == nil {
					return "ok"
				}
				if err == round.CompleteRoundRestartError {
					return "err-complete"
				}
				return "err-other"
			}
		case w[0] == "finalize" && len(w) == 3:
			f = func() string { r.Finalize(mkBlock(w[1], w[2])); return "ok" }
		case w[0] == "setfinalizing" && len(w) == 1:
			f = func() string { return b2s(r.SetFinalizing()) }
		case w[0] == "setfinalized" && len(w) == 1:
			f = func() string { r.SetFinalized(); return "ok" }
		case w[0] == "resetfinifnot" && len(w) == 1:
			f = func() string { r.ResetFinalizingStateIfNotFinalized(); return "ok" }
		case w[0] == "resetfin" && len(w) == 1:
			f = func() string { r.ResetFinalizingState(); return "ok" }
		case w[0] == "isfinalizing" && len(w) == 1:
			f = func() string { return b2s(r.IsFinalizing()) }
		case w[0] == "isfinalized" && len(w) == 1:
			f = func() string { return b2s(r.IsFinalized()) }
		case w[0] == "finstate" && len(w) == 1:
			f = func() string { return fmt.Sprintf("int %d", r.FinalizeState()) }
		case w[0] == "blockhash" && len(w) == 1:
			f = func() string {
				h := r.GetBlockHash()
				if h == "" {
					return "hash nil"
				}
				return "hash " + unhid(h)
			}
		case w[0] == "settimeout" && len(w) == 2:
			f = func() string { return b2s(r.SetTimeoutCount(atoi(w[1]))) }
		case w[0] == "gettimeout" && len(w) == 1:
			f = func() string { return fmt.Sprintf("int %d", r.GetTimeoutCount()) }
		case w[0] == "inctimeout" && len(w) >= 2:
			f = func() string {
				// the pool has as many miners as the ranked list of the op; the real code ranks them itself
				p := node.NewPool(node.NodeTypeMiner)
				for k := 0; k < len(w)-2; k++ {
					n := &node.Node{}
					n.ID = mid(k)
					n.Type = node.NodeTypeMiner
					p.Nodes = append(p.Nodes, n)
					p.NodesMap[n.ID] = n
				}
				prrs, _ := strconv.ParseInt(w[1], 10, 64)
				r.IncrementTimeoutCount(prrs, p)
				return "ok"
			}
		case w[0] == "addvote" && len(w) == 3:
			f = func() string { r.AddTimeoutVote(atoi(w[1]), mid(atoi(w[2]))); return "ok" }
		case w[0] == "setseed" && len(w) == 3:
			f = func() string { r.SetRandomSeed(int64(atoi(w[1])), atoi(w[2])); return "ok" }
		case w[0] == "setseednb" && len(w) == 3:
			f = func() string { r.SetRandomSeedForNotarizedBlock(int64(atoi(w[1])), atoi(w[2])); return "ok" }
		case w[0] == "getseed" && len(w) == 1:
			f = func() string { return fmt.Sprintf("int %d", r.GetRandomSeed()) }
		case w[0] == "hasseed" && len(w) == 1:
			f = func() string { return b2s(r.HasRandomSeed()) }
		case w[0] == "ranksdone" && len(w) == 1:
			f = func() string { return b2s(r.IsRanksComputed()) }
		case w[0] == "setvrfout" && len(w) == 2:
			f = func() string { r.SetVRFOutput(w[1]); return "ok" }
		case w[0] == "getvrfout" && len(w) == 1:
			f = func() string {
				v := r.GetVRFOutput()
				if v == "" {
					v = "0"
				}
				return "int " + v
			}
		case w[0] == "incsoft" && len(w) == 1:
			f = func() string { r.IncSoftTimeoutCount(); return "ok" }
		case w[0] == "getsoft" && len(w) == 1:
			f = func() string { return fmt.Sprintf("int %d", r.GetSoftTimeoutCount()) }
		}
		if f == nil {
			outs[i] = "bad-op"
			continue
		}
		outs[i] = call(func() bool { return r.VerifState().Locked }, f) + obs(r)
	}
	return outs
}

// stressImpl: `stress <trials>`: real goroutines race SetPhase(Verify) against AddNotarizedBlock (setPhase(Share) under
// the mutex) on fresh real rounds; answers how many trials ended below Share (a lost update).
func stressImpl(w []string) string {
	if len(w) != 1 {
		return "bad-op"
	}
	trials, err := strconv.Atoi(w[0])
	if err != nil || trials < 0 {
		return "bad-op"
	}
	lost := 0
	// bounded in time as well: on a loaded machine the spinning pairs get slow, and the case must answer
	deadline := time.Now().Add(25 * time.Second)
	for t := 0; t < trials; t++ {
		if t%1000 == 0 && time.Now().After(deadline) {
			break
		}
		r := round.NewRound(5)
		b := mkBlock("1", "0")
		var wg sync.WaitGroup
		var gate int32
		wg.Add(2)
		go func() {
			defer wg.Done()
			for atomic.LoadInt32(&gate) == 0 {
			}
			r.SetPhase(round.Verify)
		}()
		go func() {
			defer wg.Done()
			for atomic.LoadInt32(&gate) == 0 {
			}
			r.AddNotarizedBlock(b)
		}()
		if t%2 == 0 {
			runtime.Gosched()
		}
		atomic.StoreInt32(&gate, 1)
		wg.Wait()
		if r.GetPhase() < round.Share {
			lost++
		}
	}
	return fmt.Sprintf("stress lost %d", lost)
}

func workerMain() {
	logging.Logger = zap.NewNop()
	logging.N2n = zap.NewNop()
	round.SetupEntity(nil)
	in := bufio.NewReaderSize(os.Stdin, 1<<20)
	out := bufio.NewWriter(os.Stdout)
	for {
		line, err := in.ReadBytes('\n')
		if len(line) > 0 {
			var ops []string
			if json.Unmarshal(line, &ops) != nil {
				return
			}
			res := runCase(ops)
			b, _ := json.Marshal(map[string]interface{}{"outs": res, "leaked": leaked})
			out.Write(b)
			out.WriteByte('\n')
			out.Flush()
		}
		if err != nil {
			return
		}
	}
}

// ---------------------------------------------------------------------------------------------- parent side

type worker struct {
	cmd    *exec.Cmd
	in     io.WriteCloser
	out    *bufio.Reader
	served int
	leaked int
}

var (
	poolMu     sync.Mutex
	idle       []*worker
	stressMu   sync.Mutex
	stressLost = map[string]int{}
)

func spawn() (*worker, error) {
	cmd := exec.Command(os.Args[0], "-worker")
	cmd.Stderr = io.Discard
	in, err := cmd.StdinPipe()
	if err != nil {
		return nil, err
	}
	out, err := cmd.StdoutPipe()
	if err != nil {
		return nil, err
	}
	if err := cmd.Start(); err != nil {
		return nil, err
	}
	return &worker{cmd: cmd, in: in, out: bufio.NewReaderSize(out, 1<<20)}, nil
}

func (w *worker) kill() {
	w.in.Close()
	w.cmd.Process.Kill()
	w.cmd.Wait()
}

func impl(ops []string) []string {
	fail := func(tok string) []string {
		outs := make([]string, len(ops))
		for i := range outs {
			outs[i] = tok
		}
		return outs
	}
	poolMu.Lock()
	var w *worker
	if n := len(idle); n > 0 {
		w = idle[n-1]
		idle = idle[:n-1]
	}
	poolMu.Unlock()
	if w == nil {
		var err error
		if w, err = spawn(); err != nil {
			return fail("worker-spawn-failed")
		}
	}
	b, _ := json.Marshal(ops)
	type resp struct {
		Outs   []string `json:"outs"`
		Leaked int      `json:"leaked"`
	}
	ch := make(chan *resp, 1)
	go func() {
		if _, err := w.in.Write(append(b, '\n')); err != nil {
			ch <- nil
			return
		}
		line, err := w.out.ReadBytes('\n')
		if err != nil {
			ch <- nil
			return
		}
		var r resp
		if json.Unmarshal(line, &r) != nil {
			ch <- nil
			return
		}
		ch <- &r
	}()
	select {
	case r := <-ch:
		if r == nil || len(r.Outs) != len(ops) {
			w.kill()
			debugf("worker died on case %q", ops[0])
			return fail("worker-died")
		}
		w.served++
		if w.served >= 200 || r.Leaked >= 100 {
			w.kill() // stuck goroutines never accumulate beyond this
		} else {
			poolMu.Lock()
			idle = append(idle, w)
			poolMu.Unlock()
		}
		for i, op := range ops {
			if strings.HasPrefix(r.Outs[i], "hang") || strings.HasPrefix(r.Outs[i], "panic") {
				debugf("case %q op %d %q answered %q", ops[0], i, op, r.Outs[i])
			}
			if strings.HasPrefix(op, "stress ") && strings.HasPrefix(r.Outs[i], "stress lost ") {
				// the count of a real concurrent run is not reproducible: it goes to the oracle on the side
				n, _ := strconv.Atoi(strings.TrimPrefix(r.Outs[i], "stress lost "))
				stressMu.Lock()
				stressLost[strings.Join(ops, "\n")] += n
				stressMu.Unlock()
				r.Outs[i] = "stress done"
			}
		}
		return r.Outs
	case <-time.After(300 * time.Second):
		w.kill()
		debugf("case timeout on %q (%d ops)", ops[0], len(ops))
		return fail("hang")
	}
}

// ---------------------------------------------------------------------------------------------- generator

var bigs = []int64{1 << 31, 1<<53 + 1, 1 << 62}

// the ends of the Go int range: timeout counts reach the round from blocks (SetTimeoutCount(b.RoundTimeoutCount)) and from
// timeout votes of other miners, i.e. from messages
var ends = []int64{1<<63 - 1, 1<<63 - 2, -1 << 63, -1<<63 + 1, -1 << 62, 1<<62 + 1}

func gen(r *rand.Rand, thorough bool, i int) []string {
	number := int64(1 + r.Intn(1000))
	if r.Intn(10) == 0 {
		number = 0
	}
	cap := 0
	switch x := r.Intn(20); {
	case x < 7:
		cap = 0
	case x < 14:
		cap = 1 // the value in docker.local/config/0chain.yaml
	default:
		cap = 2 + r.Intn(4)
	}
	self := r.Intn(4)
	ops := []string{fmt.Sprintf("new %d %d %d", number, cap, self)}
	n := 5 + r.Intn(36)
	if thorough {
		n = 5 + r.Intn(150)
	}
	restartW := []int{0, 0, 2, 8}[r.Intn(4)]
	thr := r.Intn(6)
	blk := func() string {
		h := r.Intn(8)
		rk := h % 5 // a block's hash fixes its rank …
		if r.Intn(6) == 0 {
			rk = r.Intn(6) // … except for a few ill-formed ones
		}
		if r.Intn(40) == 0 {
			rk = 60
		}
		return fmt.Sprintf("%d %d", h, rk)
	}
	type wop struct {
		w int
		f func() string
	}
	tbl := []wop{
		{10, func() string {
			p := r.Intn(5)
			if r.Intn(12) == 0 {
				p = []int{-1, 5, 7, 1 << 30}[r.Intn(4)]
			}
			return fmt.Sprintf("setphase %d", p)
		}},
		{3, func() string { return fmt.Sprintf("resetphase %d", r.Intn(6)-1) }},
		{4, func() string { return "getphase" }},
		{12, func() string {
			t := thr
			if r.Intn(8) == 0 {
				t = r.Intn(8) - 1
			}
			return fmt.Sprintf("addshare %d %d", r.Intn(6), t)
		}},
		{3, func() string { return fmt.Sprintf("shareexist %d", r.Intn(6)) }},
		{4, func() string { return "getshares" }},
		{8, func() string { return "addnb " + blk() }},
		{6, func() string { return "addpb " + blk() }},
		{2, func() string { return "updnb " + blk() }},
		{2, func() string { return "getnbs" }},
		{2, func() string { return "getpbs" }},
		{2, func() string { return "heaviest" }},
		{2, func() string { return "bestnb" }},
		{2, func() string { return "bestpb" }},
		{restartW, func() string { return "restart" }},
		{3, func() string { return "finalize " + blk() }},
		{4, func() string { return "setfinalizing" }},
		{2, func() string { return "setfinalized" }},
		{5, func() string { return "resetfinifnot" }},
		{2, func() string { return "resetfin" }},
		{2, func() string { return "isfinalizing" }},
		{2, func() string { return "isfinalized" }},
		{2, func() string { return "finstate" }},
		{1, func() string { return "blockhash" }},
		{6, func() string {
			v := int64(r.Intn(8))
			if r.Intn(15) == 0 {
				v = bigs[r.Intn(len(bigs))] + int64(r.Intn(3)) - 1
			}
			if r.Intn(15) == 0 {
				v = -int64(r.Intn(3))
			}
			if r.Intn(14) == 0 {
				v = ends[r.Intn(len(ends))]
			}
			return fmt.Sprintf("settimeout %d", v)
		}},
		{3, func() string { return "gettimeout" }},
		{8, func() string {
			prrs := r.Int63()
			if r.Intn(10) == 0 {
				prrs = 0
			}
			if r.Intn(10) == 0 {
				prrs = -r.Int63()
			}
			nm := 1 + r.Intn(5)
			perm := rand.New(rand.NewSource(prrs)).Perm(nm) // what rankTimeoutCounters computes for the sorted pool
			s := fmt.Sprintf("inctimeout %d", prrs)
			for _, p := range perm {
				s += fmt.Sprintf(" %d", p)
			}
			return s
		}},
		{6, func() string {
			v := int64(r.Intn(9))
			if r.Intn(20) == 0 {
				v = bigs[r.Intn(len(bigs))]
			}
			if r.Intn(14) == 0 {
				v = ends[r.Intn(len(ends))]
			}
			return fmt.Sprintf("addvote %d %d", v, r.Intn(5))
		}},
		{2, func() string { return fmt.Sprintf("setseed %d %d", r.Int63n(5), r.Intn(5)) }},
		{2, func() string { return fmt.Sprintf("setseednb %d %d", r.Int63n(5)-1, r.Intn(5)) }},
		{1, func() string { return "getseed" }},
		{1, func() string { return "hasseed" }},
		{1, func() string { return "ranksdone" }},
		{1, func() string { return fmt.Sprintf("setvrfout %d", 1+r.Intn(9)) }},
		{1, func() string { return "getvrfout" }},
		{1, func() string { return "incsoft" }},
		{1, func() string { return "getsoft" }},
		{6, func() string { return "dump" }},
	}
	total := 0
	for _, t := range tbl {
		total += t.w
	}
	for k := 0; k < n; k++ {
		x := r.Intn(total)
		for _, t := range tbl {
			if x < t.w {
				ops = append(ops, t.f())
				break
			}
			x -= t.w
		}
	}
	if r.Intn(40) == 0 {
		ops = append(ops, "frobnicate 1", "setphase x", "addshare 1") // malformed stream
	}
	ops = append(ops, "dump")
	return ops
}

// ---------------------------------------------------------------------------------------------- oracle

type ob struct {
	ans            string
	ph, tc         int64
	fin, ns, lk    int
	ok             bool
	blocked, hangs bool
}

func parseOut(s string) ob {
	var o ob
	parts := strings.SplitN(s, " ; ", 2)
	o.ans = parts[0]
	o.blocked = o.ans == "blocked"
	o.hangs = o.ans == "hang"
	if len(parts) == 2 {
		f := strings.Fields(parts[1])
		if len(f) == 10 {
			o.ph, _ = strconv.ParseInt(f[1], 10, 64)
			o.tc, _ = strconv.ParseInt(f[3], 10, 64)
			o.fin, _ = strconv.Atoi(f[5])
			o.ns, _ = strconv.Atoi(f[7])
			o.lk, _ = strconv.Atoi(f[9])
			o.ok = true
		}
	}
	return o
}

// known (recorded) signatures are reported only when nothing else is wrong in the run
var knownSigs = map[string]bool{
	"C37:timeout-count-decreases-at-cap": true,
	"C37:timeout-count-wraps-at-max-int": true,
}

// oracle: C37 itself on the answers of the real code, with its own reference for the share set.
func oracle(ops, outs []string) *corr.Violation {
	var vs []*corr.Violation
	mk := func(sig, msg string) {
		vs = append(vs, &corr.Violation{Signature: "C37:" + sig, Message: msg, Ops: ops, Impl: outs})
	}
	var prev ob
	have := false
	var number, cap int64
	shares := map[string]bool{}
	leakedBy := -1 // index of the rejected restart that left the mutex locked
	for i, op := range ops {
		w := strings.Fields(op)
		if len(w) == 0 {
			continue
		}
		switch w[0] {
		case "new":
			if len(w) == 4 {
				number, _ = strconv.ParseInt(w[1], 10, 64)
				cap, _ = strconv.ParseInt(w[2], 10, 64)
			}
			prev, have = ob{}, true
			shares = map[string]bool{}
			leakedBy = -1
			continue
		case "dump":
			continue
		case "stress":
			stressMu.Lock()
			lost := stressLost[strings.Join(ops, "\n")]
			stressMu.Unlock()
			if lost > 0 {
				mk("setphase-lost-update", fmt.Sprintf("op %d: %d concurrent runs (of %s per execution) of SetPhase(Verify) ‖ AddNotarizedBlock ended with phase < Share: a concurrent setPhase overwrote Share with Verify (setPhase must raise the phase with a compare-and-swap, repo commit 8870ba0)", i, lost, w[1]))
			}
			continue
		}
		if outs[i] == "bad-op" || !have {
			continue
		}
		o := parseOut(outs[i])
		if !o.ok {
			mk("unreadable-answer", fmt.Sprintf("op %d %q answered %q", i, op, outs[i]))
			break
		}
		// every operation returns
		if o.hangs {
			mk("op-hangs", fmt.Sprintf("op %d %q did not return within the watchdog and is not parked on a mutex", i, op))
		}
		if o.ans == "panic" {
			mk("op-panics", fmt.Sprintf("op %d %q panicked", i, op))
		}
		if o.blocked && leakedBy < 0 {
			mk("op-blocks", fmt.Sprintf("op %d %q blocks for ever although no earlier operation was rejected", i, op))
		}
		if w[0] == "restart" && !o.blocked {
			if prev.ph >= 3 && o.ans != "err-complete" {
				mk("restart-after-sharing", fmt.Sprintf("op %d: restart in phase %d answered %q", i, prev.ph, o.ans))
			}
			if prev.ph < 3 && o.ans != "ok" {
				mk("restart-rejected-before-sharing", fmt.Sprintf("op %d: restart in phase %d answered %q", i, prev.ph, o.ans))
			}
			if o.ans == "err-complete" && o.lk == 1 && leakedBy < 0 {
				leakedBy = i
				mk("rejected-restart-leaves-mutex-locked", fmt.Sprintf("op %d: Restart() in phase %d returned CompleteRoundRestartError with r.mutex still locked; every later locking operation of the round blocks for ever", i, prev.ph))
			}
		}
		if o.lk == 1 && leakedBy < 0 {
			mk("mutex-left-locked", fmt.Sprintf("op %d %q returned with r.mutex locked", i, op))
			leakedBy = i
		}
		// phase only moves forward except through ResetPhase or an accepted restart (which happens before sharing)
		if o.ph < prev.ph && !(w[0] == "resetphase") && !(w[0] == "restart" && o.ans == "ok" && prev.ph < 3) {
			mk("phase-decreases", fmt.Sprintf("op %d %q: phase %d -> %d", i, op, prev.ph, o.ph))
		}
		// timeout count never decreases
		if o.tc < prev.tc {
			if w[0] == "inctimeout" && cap > 0 && prev.tc > cap && o.tc == cap {
				mk("timeout-count-decreases-at-cap", fmt.Sprintf("op %d %q: timeout count %d -> %d (timeout_cap %d applied to a count that SetTimeoutCount had put above the cap)", i, op, prev.tc, o.tc, cap))
			} else if w[0] == "inctimeout" && prev.tc == 1<<63-1 && o.tc == -1<<63 {
				mk("timeout-count-wraps-at-max-int", fmt.Sprintf("op %d %q: timeout count %d -> %d (tc.count++ on a count that SetTimeoutCount / a timeout vote had put at the largest int)", i, op, prev.tc, o.tc))
			} else {
				mk("timeout-count-decreases", fmt.Sprintf("op %d %q: timeout count %d -> %d", i, op, prev.tc, o.tc))
			}
		}
		// shares: at most threshold many, one per miner (reference set)
		if !o.blocked {
			switch w[0] {
			case "addshare":
				t, _ := strconv.ParseInt(w[2], 10, 64)
				if o.ans == "true" {
					if int64(len(shares)) >= t {
						mk("share-over-threshold", fmt.Sprintf("op %d %q accepted a share while %d are held", i, op, len(shares)))
					}
					if shares[w[1]] {
						mk("share-duplicate", fmt.Sprintf("op %d %q accepted a second share of the same miner", i, op))
					}
					shares[w[1]] = true
				} else if int64(len(shares)) < t && !shares[w[1]] {
					mk("share-refused", fmt.Sprintf("op %d %q refused a new share below the threshold", i, op))
				}
			case "restart":
				if o.ans == "ok" {
					shares = map[string]bool{}
				}
			case "getshares":
				var ks []string
				for k := range shares {
					ks = append(ks, mid(func() int { n, _ := strconv.Atoi(k); return n }()))
				}
				if want := "keys " + sortedKeys(ks); o.ans != want {
					mk("share-set", fmt.Sprintf("op %d: shares %q, reference %q", i, o.ans, want))
				}
			case "shareexist":
				if o.ans != b2s(shares[w[1]]) {
					mk("share-set", fmt.Sprintf("op %d %q answered %s", i, op, o.ans))
				}
			}
		}
		if o.ns != len(shares) {
			mk("share-count", fmt.Sprintf("op %d %q: %d shares held, reference %d", i, op, o.ns, len(shares)))
		}
		// finalized stays finalized except through the unconditional reset
		if prev.fin == 2 && o.fin != 2 && w[0] != "resetfin" {
			mk("finalized-undone", fmt.Sprintf("op %d %q: finalizing state 2 -> %d", i, op, o.fin))
		}
		if w[0] == "resetfinifnot" && number == 0 && o.fin != prev.fin {
			mk("finalized-undone", fmt.Sprintf("op %d: round 0 counts as finalized but the conditional reset changed state %d -> %d", i, prev.fin, o.fin))
		}
		if w[0] == "resetfinifnot" && !o.blocked && number != 0 && prev.fin != 2 && o.fin != 0 {
			mk("conditional-reset-ineffective", fmt.Sprintf("op %d: state %d -> %d", i, prev.fin, o.fin))
		}
		prev = o
	}
	for _, v := range vs {
		if !knownSigs[v.Signature] {
			return v
		}
	}
	if len(vs) > 0 {
		return vs[0]
	}
	return nil
}

// ---------------------------------------------------------------------------------------------- concurrent search

// stressFinalize searches the real code for the interleaving in which a finalized round becomes un-finalized through
// the conditional reset: the round is Finalizing (as in chain.FinalizeRoundImpl), then the timeout / ctx-done path
// (ResetFinalizingStateIfNotFinalized) races the finalize-block worker (Finalize). Whatever the order, once both have
// returned the round must be finalized (Props/C37.finalized_stays_conc: test and store are in one critical section).
// A search, bounded in time; it proves nothing when it finds nothing.
func stressFinalize(thorough bool, seed int64) []corr.Violation {
	logging.Logger = zap.NewNop()
	logging.N2n = zap.NewNop()
	budget := 5 * time.Second
	if thorough {
		budget = 25 * time.Second
	}
	deadline := time.Now().Add(budget)
	workers := 8
	var (
		lost, trials int64
		mu           sync.Mutex
		first        string
		wg           sync.WaitGroup
	)
	for w := 0; w < workers; w++ {
		wg.Add(1)
		go func(w int) {
			defer wg.Done()
			b := mkBlock(strconv.Itoa(w), "0")
			for i := 0; atomic.LoadInt64(&lost) == 0; i++ {
				if i%256 == 0 && time.Now().After(deadline) {
					return
				}
				r := round.Provider().(*round.Round)
				r.Number = int64(100 + i)
				r.SetFinalizing()
				var done sync.WaitGroup
				done.Add(2)
				if (i+w)%2 == 0 {
					// start both on a spinning gate
					var gate int32
					go func() {
						defer done.Done()
						for atomic.LoadInt32(&gate) == 0 {
						}
						r.ResetFinalizingStateIfNotFinalized()
					}()
					go func() {
						defer done.Done()
						for atomic.LoadInt32(&gate) == 0 {
						}
						r.Finalize(b)
					}()
					if i%4 == 0 {
						runtime.Gosched()
					}
					atomic.StoreInt32(&gate, 1)
				} else {
					// start both on a closed channel, with staggered yields
					start := make(chan struct{})
					go func() {
						defer done.Done()
						<-start
						if i%4 == 1 {
							runtime.Gosched()
						}
						r.ResetFinalizingStateIfNotFinalized()
					}()
					go func() {
						defer done.Done()
						<-start
						if i%3 == 0 {
							runtime.Gosched()
						}
						r.Finalize(b)
					}()
					close(start)
				}
				done.Wait()
				atomic.AddInt64(&trials, 1)
				if !r.IsFinalized() {
					if atomic.AddInt64(&lost, 1) == 1 {
						mu.Lock()
						first = fmt.Sprintf("trial %d of worker %d: Finalize(b) returned, yet FinalizeState()=%d IsFinalized()=false after a concurrent ResetFinalizingStateIfNotFinalized()", i, w, r.FinalizeState())
						mu.Unlock()
					}
					return
				}
			}
		}(w)
	}
	wg.Wait()
	stressTrials = atomic.LoadInt64(&trials)
	if lost == 0 {
		return nil
	}
	ops := []string{"new 100 0 0", "setfinalizing", "concurrently: resetfinifnot || finalize <b>", "isfinalized"}
	return []corr.Violation{{
		Signature: "C37:finalized-lost-under-concurrent-reset",
		Message: fmt.Sprintf("a finalized round became un-finalized through the conditional reset (%s; %d concurrent trials): the isFinalized test and the NotFinalized store of ResetFinalizingStateIfNotFinalized are not inside one critical section of r.mutex", first, stressTrials),
		Ops:     ops, Impl: []string{"ok", "true", "both returned", "false"},
	}}
}

var stressTrials int64

func main() {
	if len(os.Args) > 1 && os.Args[1] == "-worker" {
		workerMain()
		return
	}
	stress := "stress 20000"
	for i, a := range os.Args {
		if a == "-tier" && i+1 < len(os.Args) && os.Args[i+1] == "thorough" {
			stress = "stress 200000"
		}
	}
	corr.Main(corr.Prop{
		ID: "C37", Model: "C37", Gen: gen, Impl: impl, Oracle: oracle, Stress: stressFinalize,
		Extra: func() map[string]interface{} {
			return map[string]interface{}{"finalize_vs_conditional_reset_trials": stressTrials}
		},
		Cases: func(th bool) int {
			if th {
				return 10000
			}
			return 3000
		},
		Fixed: [][]string{
			// regression guard for repo commit 4a40ef6: a rejected Restart must leave r.mutex free (it used to leave it locked)
			{"new 5 1 0", "addnb 7 2", "restart", "getshares", "setphase 4", "gettimeout", "addshare 1 3", "dump"},
			// the negation witness of timeout_monotone: the cap is applied to a count set above it
			{"new 5 1 0", "settimeout 5", "inctimeout 77 0", "gettimeout", "dump"},
			{"new 0 0 0", "setfinalizing", "resetfinifnot", "finstate", "isfinalized", "dump"},
			// the ends of the int range for counts that come from messages
			{"new 5 0 0", "settimeout 9223372036854775807", "inctimeout 77 0", "gettimeout", "inctimeout 78 0", "dump"},
			{"new 5 3 1", "addvote 9223372036854775807 0", "addvote -9223372036854775808 2", "inctimeout 9 1 2 0", "gettimeout", "settimeout -9223372036854775808", "settimeout 9223372036854775806", "inctimeout 9 1 2 0", "dump"},
			{"new 9223372036854775807 0 0", "setfinalizing", "resetfinifnot", "isfinalized", "new -9223372036854775808 0 0", "isfinalized", "setseed 9223372036854775807 3", "setseednb -9223372036854775808 2", "getseed", "dump"},
			{"new 9 0 1", "addshare 1 2", "addshare 1 2", "addshare 2 2", "addshare 3 2", "restart", "getshares", "dump"},
			// regression guard for repo commit 8870ba0 (setPhase is a CAS loop): the old lost update searched on the real code
			{"new 5 0 0", stress},
		},
	})
	poolMu.Lock()
	for _, w := range idle {
		w.kill()
	}
	poolMu.Unlock()
}
