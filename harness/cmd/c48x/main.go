// scratch exploration (to be deleted)
package main

import (
	"encoding/json"
	"fmt"
	"os"
	"sort"
	"strings"

	cstate "0chain.net/chaincore/chain/state"
	"0chain.net/chaincore/transaction"
	"0chain.net/chaincore/smartcontract"
	"0chain.net/core/encryption"
	"0chain.net/smartcontract/faucetsc"
	"0chain.net/smartcontract/minersc"
	"0chain.net/smartcontract/storagesc"
	"0chain.net/smartcontract/vestingsc"
	"0chain.net/smartcontract/zcnsc"
	"github.com/0chain/common/core/currency"
	"github.com/0chain/common/core/util"
	"github.com/tinylib/msgp/msgp"
	"verifharness/lib/engine"
)

const ownerID = "1746b06bb09f55ee01b33b5e2e055d6cc7a900cb57c0a3a5eaabb8a0e7745802"

type raw struct{ b []byte }

func (r *raw) MarshalMsg(o []byte) ([]byte, error) { return append(o, r.b...), nil }
func (r *raw) UnmarshalMsg(b []byte) ([]byte, error) {
	r.b = append([]byte(nil), b...)
	return nil, nil
}

func node(w *engine.World, key string) string {
	var r raw
	err := w.State.GetNodeValue(util.Path(encryption.Hash(key)), &r)
	if err != nil {
		return "ERR " + err.Error()
	}
	var sb strings.Builder
	_, err = msgp.UnmarshalAsJSON(&sb, r.b)
	if err != nil {
		return "ERRJSON " + err.Error()
	}
	return sb.String()
}

func main() {
	engine.Setup()
	vsc := vestingsc.NewVestingSmartContract()
	smartcontract.ContractMap[vsc.GetAddress()] = vsc
	owner := engine.Client{ID: ownerID, PublicKey: ""}
	other := engine.NewClient("other")
	fork := len(os.Args) > 1 && os.Args[1] == "fork"
	w, err := engine.NewWorld(map[string]currency.Coin{owner.ID: 1000e10, other.ID: 1000e10, faucetsc.ADDRESS: 1e15}, func(sctx *cstate.StateContext) error {
		for _, f := range []func() error{
			func() error { return storagesc.InitPartitions(sctx) },
			func() error { return faucetsc.InitConfig(sctx) },
			func() error { return minersc.InitConfig(sctx) },
			func() error { return storagesc.InitConfig(sctx) },
			func() error { return vestingsc.InitConfig(sctx) },
			func() error { return zcnsc.InitConfig(sctx) },
		} {
			if err := f(); err != nil {
				return err
			}
		}
		if fork {
			for _, n := range []string{"demeter", "electra"} {
				if _, err := sctx.InsertTrieNode(cstate.NewHardFork(n, 0).GetKey(), cstate.NewHardFork(n, 0)); err != nil {
					return err
				}
			}
		}
		return nil
	})
	if err != nil {
		panic(err)
	}
	nonce := map[string]int64{}
	call := func(c engine.Client, to, fn string, fields map[string]string) {
		in, _ := json.Marshal(map[string]interface{}{"fields": fields})
		nonce[c.ID]++
		t := w.Txn(c, to, 0, 0, nonce[c.ID], transaction.TxnTypeSmartContract, fn, string(in))
		_, err := w.Exec(t)
		if err != nil {
			nonce[c.ID]--
		}
		fmt.Printf("%s %s %v -> err=%v status=%d out=%q\n", to[:6], fn, fields, err, t.Status, t.TransactionOutput)
	}
	_ = sort.Strings
	storCfg := storagesc.ADDRESS + encryption.Hash("storagesc_config")
	vestCfg := vestingsc.ADDRESS + encryption.Hash("vestingsc_config")
	faucetCfg := faucetsc.ADDRESS + encryption.Hash("faucetsc_config")
	switch os.Args[len(os.Args)-1] {
	case "twobad":
		call(owner, minersc.ADDRESS, "update_settings", map[string]string{"nope1": "1", "max_n": "x", "zzz": "3", "min_n": "q"})
		call(owner, minersc.ADDRESS, "update_globals", map[string]string{"nope1": "1", "server_chain.owner": "x", "server_chain.block.max_block_size": "q"})
		call(owner, storagesc.ADDRESS, "update_settings", map[string]string{"nope1": "1", "max_delegates": "x", "zzz": "3"})
	case "vest":
		fmt.Println(node(w, vestCfg))
		call(owner, vestingsc.ADDRESS, "vestingsc-update-settings", map[string]string{"min_duration": "0s", "max_destinations": "-5"})
		fmt.Println(node(w, vestCfg))
		call(other, vestingsc.ADDRESS, "vestingsc-update-settings", map[string]string{"min_duration": "1s"})
	case "stor":
		fmt.Println(node(w, storCfg))
		call(owner, storagesc.ADDRESS, "update_settings", map[string]string{"max_delegates": "0", "cost.bogus": "7"})
		fmt.Println(node(w, storCfg))
		fmt.Println(node(w, storagesc.ADDRESS+encryption.Hash("setting_changes")))
		call(other, storagesc.ADDRESS, "commit_settings_changes", map[string]string{})
		fmt.Println(node(w, storCfg))
	case "alias":
		call(owner, storagesc.ADDRESS, "update_settings", map[string]string{"max_delegates": "11", " max_delegates": "22", "max_delegates ": "33"})
		fmt.Println(node(w, storCfg))
		fmt.Println("root", w.Root())
		call(owner, faucetsc.ADDRESS, "update-settings", map[string]string{"cost.pour": "11", "cost.POUR": "22", "cost.Pour": "33", "cost.pOUR": "44"})
		fmt.Println(node(w, faucetCfg))
		fmt.Println("root", w.Root())
	case "miner":
		fmt.Println(node(w, minersc.GlobalNodeKey))
		call(owner, minersc.ADDRESS, "update_settings", map[string]string{"cost.bogus": "7", "max_n": "8"})
		fmt.Println(node(w, minersc.GlobalNodeKey))
		fmt.Println(node(w, minersc.GLOBALS_KEY))
		call(owner, minersc.ADDRESS, "update_globals", map[string]string{"server_chain.block.max_block_size": "77"})
		fmt.Println(node(w, minersc.GLOBALS_KEY))
	case "zcn":
		gn, _ := zcnsc.GetGlobalNode(w.SCtx())
		fmt.Println(node(w, gn.GetKey()))
		call(owner, zcnsc.ADDRESS, "update-global-config", map[string]string{"max_fee": "-1"})
		fmt.Println(node(w, gn.GetKey()))
		call(owner, zcnsc.ADDRESS, "update-global-config", map[string]string{"cost.mint": "5"})
		call(owner, zcnsc.ADDRESS, "update-global-config", map[string]string{"percent_authorizers": "NaN"})
		fmt.Println(node(w, gn.GetKey()))
	}
}
