// C17 harness: the real faucet contract (smartcontract/faucetsc) through the real Chain.UpdateState against
// Model/Faucet.lean. One world per case with the faucet configuration of the `conf` line written into the state.
package main

import (
	"encoding/json"
	"fmt"
	"math/big"
	"math/rand"
	"strconv"
	"strings"
	"time"

	cstate "0chain.net/chaincore/chain/state"
	"0chain.net/chaincore/transaction"
	"0chain.net/core/common"
	"0chain.net/smartcontract/faucetsc"
	"github.com/0chain/common/core/currency"

	"verifharness/lib/corr"
	"verifharness/lib/engine"
)

const nClients = 8

func client(i int) engine.Client { return engine.NewClient(fmt.Sprintf("faucet-c%d", i)) }

type world struct {
	w     *engine.World
	nonce map[int]int64
}

func errClass(out string) string {
	for _, p := range []struct{ sub, class string }{
		{"faucet has no tokens and needs to be refilled", "no-faucet-state"}, {"exceeds contract's wallet ballance", "pour-gt-balance"},
		{"is not a valid currency", "add-overflow"}, {"exceeds allowed periodic limit", "periodic-limit"}, {"exceeds allowed global limit", "global-limit"},
		{"resulted in an error: uint64 addition overflow", "add-overflow"},
		{"it seems you're broke", "broke"}, {"value not present", "no-client-state"},
		{"unauthorized access", "not-owner"}, {"cannot validate changes", "invalid-config"},
	} {
		if strings.Contains(out, p.sub) {
			return p.class
		}
	}
	return "other:" + out
}

func (x *world) exec(c int, value uint64, now int64, fn string, input ...string) string {
	x.w.Now = common.Timestamp(now)
	cl := client(c)
	before, _, _ := x.w.Account(cl.ID)
	fb, _, _ := x.w.Account(faucetsc.ADDRESS)
	x.nonce[c]++
	in := ""
	if len(input) > 0 {
		in = input[0]
	}
	t := x.w.Txn(cl, faucetsc.ADDRESS, currency.Coin(value), 0, x.nonce[c], transaction.TxnTypeSmartContract, fn, in)
	_, err := x.w.Exec(t)
	if err != nil {
		x.nonce[c]--
		return "rejected"
	}
	if t.Status != transaction.TxnSuccess {
		return "err " + errClass(t.TransactionOutput)
	}
	after, _, _ := x.w.Account(cl.ID)
	fa, _, _ := x.w.Account(faucetsc.ADDRESS)
	var moved uint64
	if fn == "update-settings" {
		if after != before || fa != fb {
			return "harness-inconsistent update-settings moved tokens"
		}
		return "ok 0"
	}
	if fn == "pour" {
		moved = uint64(after - before)
		if uint64(fb-fa) != moved {
			return fmt.Sprintf("harness-inconsistent client+%d faucet-%d", moved, uint64(fb-fa))
		}
	} else {
		moved = uint64(before - after)
		if uint64(fa-fb) != moved {
			return fmt.Sprintf("harness-inconsistent client-%d faucet+%d", moved, uint64(fa-fb))
		}
	}
	return fmt.Sprintf("ok %d", moved)
}

func (x *world) dump() string {
	sctx := x.w.SCtx()
	gn := &faucetsc.GlobalNode{ID: faucetsc.ADDRESS}
	if err := sctx.GetTrieNode(gn.GetKey(), gn); err != nil {
		return "no-global-node " + err.Error()
	}
	gs := "-"
	if !gn.StartTime.IsZero() {
		gs = strconv.FormatInt(gn.StartTime.Unix(), 10)
	}
	f := "-"
	if b, _, ok := x.w.Account(faucetsc.ADDRESS); ok {
		f = strconv.FormatUint(uint64(b), 10)
	}
	s := fmt.Sprintf("g %d %s f %s u", uint64(gn.Used), gs, f)
	for i := 0; i < nClients; i++ {
		un := &faucetsc.UserNode{ID: client(i).ID}
		if err := sctx.GetTrieNode(un.GetKey(gn.ID), un); err == nil {
			s += fmt.Sprintf(" %d:%d:%d", i, uint64(un.Used), un.StartTime.Unix())
		}
	}
	s += " a"
	for i := 0; i < nClients; i++ {
		if b, _, ok := x.w.Account(client(i).ID); ok {
			s += fmt.Sprintf(" %d:%d", i, uint64(b))
		}
	}
	return s
}

func impl(ops []string) []string {
	engine.Setup()
	outs := make([]string, len(ops))
	var x *world
	for i, op := range ops {
		f := strings.Fields(op)
		outs[i] = "bad-op"
		if len(f) == 0 {
			continue
		}
		switch {
		case f[0] == "conf":
			x = nil
			if len(f) < 8 {
				continue
			}
			var u [4]uint64
			good := true
			for k := 0; k < 4; k++ {
				v, err := strconv.ParseUint(f[1+k], 10, 64)
				u[k] = v
				good = good && err == nil
			}
			ir, e1 := strconv.ParseInt(f[5], 10, 64)
			gr, e2 := strconv.ParseInt(f[6], 10, 64)
			good = good && e1 == nil && e2 == nil
			bal := map[string]currency.Coin{}
			if f[7] != "-" {
				b, err := strconv.ParseUint(f[7], 10, 64)
				good = good && err == nil
				bal[faucetsc.ADDRESS] = currency.Coin(b)
			}
			seen := map[int]bool{}
			for _, a := range f[8:] {
				q := strings.Split(a, ":")
				if len(q) != 2 {
					good = false
					break
				}
				c, e1 := strconv.Atoi(q[0])
				b, e2 := strconv.ParseUint(q[1], 10, 64)
				if e1 != nil || e2 != nil || c < 0 || c >= nClients || seen[c] {
					good = false
					break
				}
				seen[c] = true
				bal[client(c).ID] = currency.Coin(b)
			}
			if !good {
				continue
			}
			w, err := engine.NewWorld(bal, func(sctx *cstate.StateContext) error {
				gn := &faucetsc.GlobalNode{ID: faucetsc.ADDRESS, FaucetConfig: &faucetsc.FaucetConfig{
					PourAmount: currency.Coin(u[0]), MaxPourAmount: currency.Coin(u[1]), PeriodicLimit: currency.Coin(u[2]), GlobalLimit: currency.Coin(u[3]),
					IndividualReset: time.Duration(ir), GlobalReset: time.Duration(gr), OwnerId: client(7).ID, // the faucet owner of this harness
					Cost: map[string]int{"pour": 100, "refill": 100, "update-settings": 100}}}
				_, err := sctx.InsertTrieNode(gn.GetKey(), gn)
				return err
			})
			if err != nil {
				outs[i] = "harness-error " + err.Error()
				continue
			}
			x = &world{w: w, nonce: map[int]int64{}}
			outs[i] = "ok"
		case x == nil:
			continue
		case (f[0] == "pour" || f[0] == "refill") && len(f) == 4:
			c, e1 := strconv.Atoi(f[1])
			v, e2 := strconv.ParseUint(f[2], 10, 64)
			now, e3 := strconv.ParseInt(f[3], 10, 64)
			if e1 != nil || e2 != nil || e3 != nil || c < 0 || c >= nClients || v > 4e18 {
				continue
			}
			outs[i] = x.exec(c, v, now, f[0])
		case f[0] == "settings" && len(f) == 9:
			c, e0 := strconv.Atoi(f[1])
			var u [4]uint64
			good := e0 == nil && c >= 0 && c < nClients
			for k := 0; k < 4; k++ {
				v, err := strconv.ParseUint(f[2+k], 10, 64)
				u[k] = v
				good = good && err == nil && v < 1e15
			}
			ir, e1 := strconv.ParseInt(f[6], 10, 64)
			gr, e2 := strconv.ParseInt(f[7], 10, 64)
			now, e3 := strconv.ParseInt(f[8], 10, 64)
			if !good || e1 != nil || e2 != nil || e3 != nil || ir < 0 || gr < 0 {
				continue
			}
			zcn := func(v uint64) string { return fmt.Sprintf("%d.%010d", v/1e10, v%1e10) }
			in, _ := json.Marshal(map[string]map[string]string{"fields": {
				"pour_amount": zcn(u[0]), "max_pour_amount": zcn(u[1]), "periodic_limit": zcn(u[2]), "global_limit": zcn(u[3]),
				"individual_reset": fmt.Sprintf("%dns", ir), "global_rest": fmt.Sprintf("%dns", gr)}})
			outs[i] = x.exec(c, 0, now, "update-settings", string(in))
		case f[0] == "dump" && len(f) == 1:
			outs[i] = x.dump()
		}
	}
	return outs
}

// ---------------------------------------------------------------------------------------------------------
// generator

type conf struct {
	pour, maxPour, periodic, global uint64
	ir, gr                          int64
}

func (c conf) valid() bool {
	return c.pour >= 1 && c.pour <= c.maxPour && c.maxPour <= c.periodic && c.periodic <= c.global && c.ir >= 1e9 && c.gr >= c.ir
}

func genConf(r *rand.Rand) conf {
	var c conf
	switch r.Intn(6) {
	case 0: // the shipped sc.yaml
		c = conf{1e10, 100e10, 1000e10, 100000e10, int64(3 * time.Hour), int64(48 * time.Hour)}
	case 1: // tiny numbers
		c.pour = uint64(1 + r.Intn(3))
		c.maxPour = c.pour + uint64(r.Intn(6))
		c.periodic = c.maxPour + uint64(r.Intn(20))
		c.global = c.periodic + uint64(r.Intn(40))
	case 2: // equal bounds
		c.pour = uint64(1 + r.Intn(100))
		c.maxPour, c.periodic = c.pour, c.pour*uint64(1+r.Intn(3))
		c.global = c.periodic * uint64(1+r.Intn(3))
	default:
		c.pour = uint64(1 + r.Int63n(1e6))
		c.maxPour = c.pour + uint64(r.Int63n(1e7))
		c.periodic = c.maxPour + uint64(r.Int63n(1e8))
		c.global = c.periodic + uint64(r.Int63n(1e9))
	}
	if c.ir == 0 {
		c.ir = int64(1+r.Intn(100)) * int64(time.Second)
		if r.Intn(4) == 0 {
			c.ir += int64(r.Intn(1e9)) // not a whole number of seconds
		}
		c.gr = c.ir * int64(1+r.Intn(5))
		if r.Intn(5) == 0 {
			c.gr = c.ir
		}
	}
	if r.Intn(12) == 0 { // near-overflow limits
		c.global = ^uint64(0) - uint64(r.Intn(3))
		if r.Intn(2) == 0 {
			c.periodic = c.global
		}
	}
	if r.Intn(15) == 0 { // invalid configurations (not judged by the oracle, still compared with the model)
		switch r.Intn(4) {
		case 0:
			c.pour = 0
		case 1:
			c.maxPour = c.pour - 1
		case 2:
			c.periodic = c.maxPour / 2
		case 3:
			c.gr = c.ir / 2
		}
	}
	return c
}

func gen(r *rand.Rand, thorough bool, i int) []string {
	c := genConf(r)
	fbv := c.global%(1<<61) + uint64(r.Int63n(1e12))
	fb := fmt.Sprintf("%d", fbv)
	switch r.Intn(8) {
	case 0:
		fb = "-"
	case 1:
		fb = fmt.Sprintf("%d", uint64(r.Int63n(int64(c.maxPour%(1<<61)+2))))
	case 2:
		fb = fmt.Sprintf("%d", c.pour)
	}
	line := fmt.Sprintf("conf %d %d %d %d %d %d %s", c.pour, c.maxPour, c.periodic, c.global, c.ir, c.gr, fb)
	for k := 0; k < nClients; k++ {
		if r.Intn(3) == 0 {
			line += fmt.Sprintf(" %d:%d", k, uint64(r.Int63n(int64(c.maxPour%(1<<40)+5))))
		}
	}
	ops := []string{line}
	now := int64(1700000000 + r.Intn(1e6))
	irs := c.ir/1e9 + 1
	n := 3 + r.Intn(30)
	if thorough {
		n = 3 + r.Intn(80)
	}
	nc := 1 + r.Intn(4)
	lowerAt := -1
	if r.Intn(2) == 0 {
		lowerAt = 2 + r.Intn(n)
	}
	for k := 0; k < n; k++ {
		switch r.Intn(12) {
		case 0:
			now += irs // crosses the individual window
		case 1:
			now += c.gr/1e9 + int64(r.Intn(2))
		case 2:
			now -= int64(r.Intn(5))
		case 3:
			now += irs - 1
		default:
			now += int64(r.Intn(int(irs/4 + 2)))
		}
		cl := r.Intn(nc)
		var v uint64
		switch r.Intn(8) {
		case 0:
			v = 0
		case 1:
			v = c.pour
		case 2:
			v = c.maxPour
		case 3, 4:
			if c.maxPour > 0 {
				v = c.maxPour - 1 // the largest honoured request
			}
		case 5:
			v = c.maxPour + uint64(r.Intn(5))
		default:
			v = uint64(r.Int63n(int64(c.maxPour%(1<<62) + 2)))
		}
		if v > 4e18 {
			v = 4e18
		}
		if lowerAt == k && c.valid() && c.global < 1e15 {
			// the owner lowers the limits in the middle of the windows, typically below what has already gone out
			// (update-settings keeps Used); further pours by the same and by other clients follow
			nc2 := c
			switch r.Intn(4) {
			case 0:
				nc2.periodic, nc2.global = c.maxPour, c.maxPour
			case 1:
				nc2.periodic = c.maxPour
			case 2:
				nc2.global = c.periodic
			default:
				nc2.periodic = c.maxPour + uint64(r.Int63n(int64(c.periodic-c.maxPour)+1))
				nc2.global = nc2.periodic + uint64(r.Int63n(int64(c.global-nc2.periodic)+1))
			}
			who := 7
			if r.Intn(6) == 0 {
				who = r.Intn(7) // not the owner
			}
			if r.Intn(10) == 0 {
				nc2.periodic = nc2.maxPour - 1 // invalid: refused
			}
			ops = append(ops, fmt.Sprintf("settings %d %d %d %d %d %d %d %d", who, nc2.pour, nc2.maxPour, nc2.periodic, nc2.global, nc2.ir, nc2.gr, now), "dump")
			if who == 7 && nc2.valid() {
				c = nc2
			}
			continue
		}
		if r.Intn(9) == 0 {
			ops = append(ops, fmt.Sprintf("refill %d %d %d", cl, uint64(r.Int63n(int64(c.maxPour%(1<<40)+5))), now))
		} else {
			ops = append(ops, fmt.Sprintf("pour %d %d %d", cl, v, now))
		}
		if r.Intn(4) == 0 {
			ops = append(ops, "dump")
		}
	}
	ops = append(ops, "dump")
	return ops
}

// ---------------------------------------------------------------------------------------------------------
// oracle: per client and globally, the tokens poured inside one reset window never exceed the limit; a pour never
// exceeds the faucet's balance. The oracle keeps its own windows: a client's window of length `individual_reset` starts at
// the client's first successful pour after its previous window ended; the global window of length `global_reset` starts at
// the first successful faucet transaction (pour or refill) after the previous one ended.
func oracle(ops, outs []string) *corr.Violation {
	mk := func(sig, msg string) *corr.Violation {
		return &corr.Violation{Signature: "C17:" + sig, Message: msg, Ops: ops, Impl: outs}
	}
	type win struct {
		start int64
		used  *big.Int
		open  bool
	}
	var c conf
	ok := false
	users := map[int]*win{}
	var g win
	var faucet *big.Int
	for i, op := range ops {
		f := strings.Fields(op)
		if len(f) == 0 {
			continue
		}
		switch f[0] {
		case "conf":
			ok = false
			if outs[i] != "ok" {
				continue
			}
			c.pour, _ = strconv.ParseUint(f[1], 10, 64)
			c.maxPour, _ = strconv.ParseUint(f[2], 10, 64)
			c.periodic, _ = strconv.ParseUint(f[3], 10, 64)
			c.global, _ = strconv.ParseUint(f[4], 10, 64)
			c.ir, _ = strconv.ParseInt(f[5], 10, 64)
			c.gr, _ = strconv.ParseInt(f[6], 10, 64)
			ok = c.valid() // "under any valid faucet configuration"
			users = map[int]*win{}
			g = win{}
			faucet = nil
			if f[7] != "-" {
				faucet, _ = new(big.Int).SetString(f[7], 10)
			}
		case "settings":
			if strings.HasPrefix(outs[i], "ok") {
				// the limits in force change; what has gone out in the running windows stays counted. The saved global node can
				// also open / restart the global window (as a refill does), judged with the reset period in force before the change
				now, _ := strconv.ParseInt(f[8], 10, 64)
				d := new(big.Int).Mul(big.NewInt(now-g.start), big.NewInt(1e9))
				if !g.open || d.Cmp(big.NewInt(c.gr)) >= 0 {
					g = win{start: now, used: new(big.Int), open: true}
				}
				c.pour, _ = strconv.ParseUint(f[2], 10, 64)
				c.maxPour, _ = strconv.ParseUint(f[3], 10, 64)
				c.periodic, _ = strconv.ParseUint(f[4], 10, 64)
				c.global, _ = strconv.ParseUint(f[5], 10, 64)
				c.ir, _ = strconv.ParseInt(f[6], 10, 64)
				c.gr, _ = strconv.ParseInt(f[7], 10, 64)
				ok = c.valid()
			}
		case "refill":
			if strings.HasPrefix(outs[i], "ok ") && ok {
				// the global reset window is anchored at the first faucet transaction that is saved after the previous window
				// elapsed — a successful refill saves the global node, too, so it can open (or restart) the global window
				now, _ := strconv.ParseInt(f[3], 10, 64)
				d := new(big.Int).Mul(big.NewInt(now-g.start), big.NewInt(1e9))
				if !g.open || d.Cmp(big.NewInt(c.gr)) >= 0 {
					g = win{start: now, used: new(big.Int), open: true}
				}
			}
			if strings.HasPrefix(outs[i], "ok ") {
				a, _ := new(big.Int).SetString(strings.Fields(outs[i])[1], 10)
				if faucet == nil {
					faucet = new(big.Int)
				}
				faucet.Add(faucet, a)
			}
		case "pour":
			if !ok || !strings.HasPrefix(outs[i], "ok ") {
				continue
			}
			cl, _ := strconv.Atoi(f[1])
			now, _ := strconv.ParseInt(f[3], 10, 64)
			a, _ := new(big.Int).SetString(strings.Fields(outs[i])[1], 10)
			if faucet == nil || a.Cmp(faucet) > 0 {
				return mk("pour-exceeds-faucet-balance", fmt.Sprintf("op %d %q poured %s, faucet held %v", i, op, a, faucet))
			}
			faucet.Sub(faucet, a)
			elapsed := func(start int64, reset int64) bool {
				d := new(big.Int).Mul(big.NewInt(now-start), big.NewInt(1e9))
				return d.Cmp(big.NewInt(reset)) >= 0
			}
			u := users[cl]
			if u == nil || !u.open || elapsed(u.start, c.ir) {
				u = &win{start: now, used: new(big.Int), open: true}
				users[cl] = u
			}
			if !g.open || elapsed(g.start, c.gr) {
				g = win{start: now, used: new(big.Int), open: true}
			}
			u.used.Add(u.used, a)
			g.used.Add(g.used, a)
			// how far the former defect (limits checked with PourAmount, t.Value poured; repaired by 4b549c9) could overshoot — kept as a separate signature
			over := c.pour
			if c.maxPour-1 > over {
				over = c.maxPour - 1
			}
			slack := new(big.Int).SetUint64(over - c.pour)
			if u.used.Cmp(new(big.Int).Add(new(big.Int).SetUint64(c.periodic), slack)) > 0 {
				return mk("periodic-limit-exceeded-beyond-one-request", fmt.Sprintf("op %d %q: client %d has been poured %s since %d, periodic limit %d", i, op, cl, u.used, u.start, c.periodic))
			}
			if g.used.Cmp(new(big.Int).Add(new(big.Int).SetUint64(c.global), slack)) > 0 {
				return mk("global-limit-exceeded-beyond-one-request", fmt.Sprintf("op %d %q: %s poured to all clients since %d, global limit %d", i, op, g.used, g.start, c.global))
			}
			if u.used.Cmp(new(big.Int).SetUint64(c.periodic)) > 0 {
				return mk("periodic-limit-exceeded", fmt.Sprintf("op %d %q: client %d has been poured %s since %d (window %v), periodic limit %d", i, op, cl, u.used, u.start, time.Duration(c.ir), c.periodic))
			}
			if g.used.Cmp(new(big.Int).SetUint64(c.global)) > 0 {
				return mk("global-limit-exceeded", fmt.Sprintf("op %d %q: %s poured to all clients since %d (window %v), global limit %d", i, op, g.used, g.start, time.Duration(c.gr), c.global))
			}
		}
	}
	return nil
}

func main() {
	h3, h48 := int64(3*time.Hour), int64(48*time.Hour)
	shipped := fmt.Sprintf("conf 10000000000 1000000000000 10000000000000 1000000000000000 %d %d 100000000000000000", h3, h48)
	var eleven []string
	eleven = append(eleven, shipped)
	for k := 0; k < 12; k++ {
		eleven = append(eleven, fmt.Sprintf("pour 1 990000000000 %d", 1700000000+k))
	}
	eleven = append(eleven, "dump")
	corr.Main(corr.Prop{
		ID: "C17", Model: "C17", Gen: gen, Impl: impl, Oracle: oracle,
		Cases: func(th bool) int {
			if th {
				return 8000
			}
			return 400
		},
		Fixed: [][]string{
			eleven, // DESIGN §7 #6 (repaired by 4b549c9): shipped configuration, twelve pours of 99 ZCN in one window: ten succeed
			{shipped, "pour 0 0 1700000000", "pour 0 5 1700000001", "pour 0 1000000000000 1700000002", "refill 0 7 1700000003", "refill 1 7 1700000003", "dump",
				fmt.Sprintf("pour 0 0 %d", 1700000000+3*3600), "dump", fmt.Sprintf("pour 0 0 %d", 1700000000+48*3600), "dump"},
			{"conf 1 3 5 9 1000000000 2000000000 100", "pour 0 2 100", "pour 0 2 100", "pour 0 2 100", "pour 0 2 100", "pour 1 2 100", "pour 1 2 100", "pour 2 2 100", "dump", "pour 0 2 101", "pour 0 2 102", "dump"},
			// the owner lowers both limits below what client 1 has received; nobody can pour until the windows elapse
			{shipped, "pour 1 990000000000 1700000000", "pour 1 990000000000 1700000001", "settings 3 10000000000 1000000000000 1000000000000 1000000000000 10800000000000 172800000000000 1700000002",
				"settings 7 10000000000 1000000000000 1000000000000 1000000000000 10800000000000 172800000000000 1700000002", "dump", "pour 1 5 1700000003", "pour 2 5 1700000003",
				"settings 7 10000000000 5 1000000000000 1000000000000 10800000000000 172800000000000 1700000004", fmt.Sprintf("pour 1 5 %d", 1700000000+3*3600), fmt.Sprintf("pour 2 5 %d", 1700000000+48*3600), "dump"},
			{"conf 1 3 5 9 1000000000 2000000000 -", "pour 0 2 100", "refill 0 0 100", "dump", "conf x", "pour 0 0 0", "frob"},
		},
		Nontrivial: func(ops, outs []string) bool {
			n := 0
			for _, o := range outs {
				if strings.HasPrefix(o, "ok ") {
					n++
				}
			}
			return n >= 2
		},
	})
}
