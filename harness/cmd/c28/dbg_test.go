package main

import (
	"context"
	"github.com/0chain/common/core/util"
	"encoding/hex"
	"encoding/json"
	"fmt"
	"os"
	"strings"
	"testing"
)

func TestDbg(t *testing.T) {
	setup()
	b, _ := os.ReadFile("/tmp/store/r28.json")
	var r struct{ Ops []string }
	json.Unmarshal(b, &r)
	rc := &receiver{}
	for _, op := range r.Ops {
		w := strings.Fields(op)
		fmt.Println(w[0], rc.do(w))
	}
	ndb := rc.b.ClientState.GetNodeDB()
	for _, op := range r.Ops {
		w := strings.Fields(op)
		if w[0] == "p" || w[0] == "n" {
			k, _ := hex.DecodeString(w[2])
			_, err := ndb.GetNode(k)
			fmt.Println(w[0], w[2][:8], err)
		}
	}
	fmt.Printf("%T\n", ndb)
	l := ndb.(*util.LevelNodeDB)
	fmt.Println("cur size", l.GetCurrent().Size(context.Background()), "prev size", l.GetPrev().Size(context.Background()))
	fmt.Println("bsc db size", rc.bsc.GetNodeDB().Size(context.Background()))
	fmt.Printf("%T %T\n", l.GetCurrent(), l.GetPrev())
}
