// C28 harness: real blocks executed by the real engine (harness/lib/engine), their change sets produced by the
// real block.NewBlockStateChange, every single tampering of them, decoded by the real StateChange.UnmarshalJSON,
// validated by the real PartialState.ComputeProperties and applied by the real Block.ApplyBlockStateChange on a
// receiver that holds the previous state in its own node DB — against Model/StateChange.lean.
//
// The generator runs the engine; everything the receiver needs travels in the operation lines (encoded nodes in
// hex, annotated with hash / kind / child hashes computed by the real code), so a case replays from its lines.
//
//	world                                     reset the receiver (first op of a case)
//	p  <enc> <hash> <L|F|E> <rehash> <child>* a node of the receiver's previous state (its node DB)
//	blk <hash> <statehash> <count> <prevstatehash|-|@> <prevcomputed 0|1> <status 0..5> <round>   the block to be synced
//	                                          (@ = its previous block is the block handled just before, as it stands: unsaved)
//	cs <block> <root> [honest]                start a change set (bsc.Block, bsc.Hash)
//	n  <enc> <hash> <L|F|E> <rehash> <child>* a node of the change set, in order
//	decode                                    UnmarshalJSON + ComputeProperties          -> ok | decode-err
//	apply                                     ApplyBlockStateChange                      -> applied | noop | apply-err:<class>
//	rawapply                                  the same without ComputeProperties having run (root nil)
//	state                                     the receiver block's state afterwards      -> nostate <status> | state <root> <status> complete|missing
//	db                                        size of the receiver's persistent node DB  -> db <n>
package main

import (
	"bytes"
	"context"
	"encoding/base64"
	"encoding/hex"
	"encoding/json"
	"fmt"
	"math/rand"
	"os"
	"sort"
	"strconv"
	"strings"
	"sync"

	"0chain.net/chaincore/block"
	"0chain.net/chaincore/state"
	"0chain.net/chaincore/transaction"
	"0chain.net/core/memorystore"
	"0chain.net/smartcontract/dbs/event"
	"github.com/0chain/common/core/currency"
	"github.com/0chain/common/core/statecache"
	"github.com/0chain/common/core/util"
	"verifharness/lib/corr"
	"verifharness/lib/engine"
)

// ---------------------------------------------------------------------------------------------- node annotation

func kindOf(n util.Node) string {
	switch n.(type) {
	case *util.LeafNode:
		return "L"
	case *util.FullNode:
		return "F"
	case *util.ExtensionNode:
		return "E"
	}
	return "?"
}

func childrenOf(n util.Node) []string {
	var cs []string
	switch x := n.(type) {
	case *util.FullNode:
		for _, c := range x.Children {
			if c != nil {
				cs = append(cs, hex.EncodeToString(c))
			}
		}
	case *util.ExtensionNode:
		cs = append(cs, hex.EncodeToString(x.NodeKey))
	}
	return cs
}

// annot: <tag> <enc> <hash> <kind> <rehash> <child>*. Every node hash covers the node's origin (the round that
// created it); MergeDB re-stamps each inserted node with the round of the block being synced (insertNode:
// SetOrigin(mpt.Version)) and stores it under the hash it has THEN: <rehash>, computed here by the real code.
func annot(tag string, enc []byte, round int64) (string, bool) {
	n, err := util.CreateNode(bytes.NewReader(enc))
	if err != nil || n == nil || kindOf(n) == "?" {
		return "", false
	}
	parts := []string{tag, hex.EncodeToString(enc), n.GetHash(), kindOf(n)}
	c := n.CloneNode()
	c.SetOrigin(util.Sequence(round))
	parts = append(parts, c.GetHash())
	parts = append(parts, childrenOf(n)...)
	return strings.Join(parts, " "), true
}

// ---------------------------------------------------------------------------------------------- receiver (Impl)

type chainer struct{ db util.NodeDB }

func (c chainer) GetPreviousBlock(ctx context.Context, b *block.Block) *block.Block { return nil }
func (c chainer) GetBlockStateChange(b *block.Block) error                         { return nil }
func (c chainer) ComputeState(ctx context.Context, pb *block.Block, waitC ...chan struct{}) error {
	return nil
}
func (c chainer) GetStateDB() util.NodeDB { return c.db }
func (c chainer) UpdateState(ctx context.Context, b *block.Block, bState util.MerklePatriciaTrieI, txn *transaction.Transaction, blockStateCache *statecache.BlockCache, waitC ...chan struct{}) ([]event.Event, error) {
	return nil, nil
}
func (c chainer) GetEventDb() *event.EventDb             { return nil }
func (c chainer) GetStateCache() *statecache.StateCache { return nil }

type receiver struct {
	db      *util.MemoryNodeDB
	b       *block.Block
	csBlock string
	csRoot  string
	encs    [][]byte
	bsc     *block.StateChange
	decoded bool
}

func errClass(err error) string {
	switch {
	case err == block.ErrBlockHashMismatch:
		return "block-hash"
	case err == block.ErrBlockStateHashMismatch:
		return "state-hash"
	case err == state.ErrMalformedPartialState:
		return "count"
	}
	s := err.Error()
	switch {
	case strings.HasPrefix(s, "state_root_error"):
		return "root-nil"
	case strings.HasPrefix(s, "state_mismatch"):
		return "state-mismatch"
	}
	return "other"
}

// checkAnnot: the annotation the model works from must be what the real code computes from the bytes.
func checkAnnot(w []string, round int64) ([]byte, bool) {
	if len(w) < 5 {
		return nil, false
	}
	enc, err := hex.DecodeString(w[1])
	if err != nil {
		return nil, false
	}
	want, ok := annot(w[0], enc, round)
	if !ok || want != strings.Join(w, " ") {
		return nil, false
	}
	return enc, true
}

func (rc *receiver) do(w []string) (out string) {
	defer func() {
		if r := recover(); r != nil {
			out = "panic"
		}
	}()
	switch w[0] {
	case "honestfail":
		return "honestfail"
	case "world":
		if len(w) != 1 {
			return "bad-op"
		}
		*rc = receiver{db: util.NewMemoryNodeDB()}
		return "ok"
	case "p":
		enc, ok := checkAnnot(w, 0)
		if !ok || rc.db == nil {
			return "bad-op"
		}
		n, _ := util.CreateNode(bytes.NewReader(enc))
		if err := rc.db.PutNode(n.GetHashBytes(), n); err != nil {
			return "err"
		}
		return "ok"
	case "blk":
		if len(w) != 8 || rc.db == nil {
			return "bad-op"
		}
		round, err0 := strconv.ParseInt(w[7], 10, 64)
		if err0 != nil || round < 1 || round > 1<<40 {
			return "bad-op"
		}
		count, err1 := strconv.Atoi(w[3])
		status, err2 := strconv.Atoi(w[6])
		sh, err3 := hex.DecodeString(w[2])
		if err1 != nil || err2 != nil || err3 != nil || status < 0 || status > 5 || (w[5] != "0" && w[5] != "1") || count < 0 {
			return "bad-op"
		}
		b := block.NewBlock("", round)
		b.Hash = w[1]
		b.ClientStateHash = sh
		b.StateChangesCount = count
		b.SetStateStatus(int8(status))
		if w[4] == "@" {
			// the previous block is the block this receiver handled last, exactly as it stands (synced in memory,
			// rejected, …): nothing of it has been saved to the node DB
			if rc.b == nil {
				return "bad-op"
			}
			b.PrevBlock = rc.b
			b.PrevHash = rc.b.Hash
		} else if w[4] != "-" {
			ph, err := hex.DecodeString(w[4])
			if err != nil {
				return "bad-op"
			}
			pb := block.NewBlock("", round-1)
			pb.Hash = "prev-of-" + w[1]
			pb.ClientStateHash = ph
			pb.ClientState = util.NewMerklePatriciaTrie(rc.db, util.Sequence(round-1), ph, statecache.NewEmpty())
			if w[5] == "1" {
				pb.SetStateStatus(block.StateSuccessful)
			}
			b.PrevBlock = pb
			b.PrevHash = pb.Hash
		}
		rc.b, rc.bsc, rc.decoded, rc.encs = b, nil, false, nil
		return "ok"
	case "cs":
		if (len(w) != 3 && !(len(w) == 4 && w[3] == "honest")) || rc.b == nil {
			return "bad-op"
		}
		if _, err := hex.DecodeString(w[2]); err != nil {
			return "bad-op"
		}
		rc.csBlock, rc.csRoot, rc.encs, rc.bsc, rc.decoded = w[1], w[2], nil, nil, false
		return "ok"
	case "n":
		if rc.b == nil || rc.csRoot == "" {
			return "bad-op"
		}
		enc, ok := checkAnnot(w, rc.b.Round)
		if !ok {
			return "bad-op"
		}
		rc.encs = append(rc.encs, enc)
		return "ok"
	case "decode", "rawapply":
		if len(w) != 1 || rc.b == nil || rc.csRoot == "" || rc.bsc != nil {
			return "bad-op"
		}
		// the wire form of a change set, as StateChange.MarshalJSON produces it
		nodes := make([]string, len(rc.encs))
		for i, e := range rc.encs {
			nodes[i] = base64.StdEncoding.EncodeToString(e)
		}
		j, _ := json.Marshal(map[string]interface{}{"block": rc.csBlock, "root": rc.csRoot, "version": "1.0", "nodes": nodes, "dead_nodes": []string{}})
		bsc := block.StateChangeProvider().(*block.StateChange)
		if err := bsc.UnmarshalJSON(j); err != nil {
			return "decode-err"
		}
		if w[0] == "rawapply" {
			rc.bsc = bsc
			return rc.apply()
		}
		if err := bsc.ComputeProperties(); err != nil {
			return "decode-err"
		}
		rc.bsc, rc.decoded = bsc, true
		return "ok"
	case "apply":
		if len(w) != 1 || rc.b == nil || !rc.decoded {
			return "bad-op"
		}
		rc.decoded = false
		return rc.apply()
	case "state":
		if len(w) != 1 || rc.b == nil {
			return "bad-op"
		}
		st := rc.b.GetStateStatus()
		if rc.b.ClientState == nil {
			return fmt.Sprintf("nostate %d", st)
		}
		complete := "complete"
		err := rc.b.ClientState.Iterate(context.Background(), func(ctx context.Context, path util.Path, key util.Key, node util.Node) error {
			return nil
		}, util.NodeTypeLeafNode|util.NodeTypeFullNode|util.NodeTypeExtensionNode)
		if err != nil {
			complete = "missing"
			if os.Getenv("C28_DEBUG") != "" {
				fmt.Fprintln(os.Stderr, "iterate:", err)
			}
		}
		return fmt.Sprintf("state %s %d %s", hex.EncodeToString(rc.b.ClientState.GetRoot()), st, complete)
	case "db":
		if len(w) != 1 || rc.db == nil {
			return "bad-op"
		}
		return fmt.Sprintf("db %d", rc.db.Size(context.Background()))
	}
	return "bad-op"
}

func (rc *receiver) apply() string {
	before := rc.b.GetStateStatus()
	err := rc.b.ApplyBlockStateChange(rc.bsc, chainer{rc.db})
	if err != nil {
		return "apply-err:" + errClass(err)
	}
	if rc.b.GetStateStatus() == before && rc.b.ClientState == nil {
		return "noop"
	}
	return "applied"
}

var (
	statMu sync.Mutex
	stats  = map[string]int{}
)

func impl(ops []string) []string {
	setup()
	outs := make([]string, len(ops))
	rc := &receiver{}
	honest := false
	for i, op := range ops {
		w := strings.Fields(op)
		if len(w) == 0 {
			outs[i] = "bad-op"
			continue
		}
		outs[i] = rc.do(w)
		if w[0] == "cs" {
			honest = len(w) == 4
		}
		if w[0] == "state" || w[0] == "apply" || w[0] == "rawapply" || w[0] == "decode" {
			k := "tampered:"
			if honest {
				k = "honest:"
			}
			f := strings.Fields(outs[i])
			k += w[0] + ":" + f[0]
			if w[0] == "state" && len(f) == 4 {
				k += ":" + f[3]
			}
			statMu.Lock()
			stats[k]++
			statMu.Unlock()
		}
	}
	return outs
}

// ---------------------------------------------------------------------------------------------- generator (runs the engine)

var genMu sync.Mutex // the engine's chain object and state cache are process-wide

var setupOnce sync.Once

// setup: the engine plus the two entity registrations the change-set code needs (StateChangeProvider is looked
// up by name in NewBlockStateChange).
func setup() {
	setupOnce.Do(func() {
		engine.Setup()
		block.SetupStateChange(memorystore.GetStorageProvider())
		state.SetupPartialState(memorystore.GetStorageProvider())
	})
}

func allNodes(mpt util.MerklePatriciaTrieI) ([][]byte, error) {
	var encs [][]byte
	err := mpt.Iterate(context.Background(), func(ctx context.Context, path util.Path, key util.Key, node util.Node) error {
		encs = append(encs, node.Encode())
		return nil
	}, util.NodeTypeLeafNode|util.NodeTypeFullNode|util.NodeTypeExtensionNode)
	return encs, err
}

type world struct {
	prevNodes [][]byte
	prevRoot  string
	blockHash string
	stateHash string
	count     int
	round     int64
	nodes     [][]byte // the honest change set, in the order NewBlockStateChange gives
	wireBlock string
	wireRoot  string
	next      []*world // the following blocks, each executed on top of the one before
}

func buildWorld(r *rand.Rand, thorough bool) (*world, error) {
	setup()
	genMu.Lock()
	defer genMu.Unlock()
	nc := 2 + r.Intn(6)
	if thorough {
		nc = 2 + r.Intn(24)
	}
	var cls []engine.Client
	bal := map[string]currency.Coin{}
	tag := fmt.Sprintf("c28-%d-", r.Int63())
	for i := 0; i < nc; i++ {
		c := engine.NewClient(tag + strconv.Itoa(i))
		cls = append(cls, c)
		if r.Intn(5) > 0 {
			bal[c.ID] = currency.Coin(1e10 + r.Int63n(1e10))
		}
	}
	w, err := engine.NewWorld(bal, nil)
	if err != nil {
		return nil, err
	}
	nonce := map[string]int64{}
	send := func() {
		from := cls[r.Intn(nc)]
		to := cls[r.Intn(nc)]
		v := currency.Coin(r.Int63n(1e9))
		if r.Intn(6) == 0 {
			v = currency.Coin(3e10) // more than anyone has: rejected
		}
		t := w.Txn(from, to.ID, v, 0, nonce[from.ID]+1, transaction.TxnTypeSend, "", "")
		if _, err := w.Exec(t); err == nil {
			nonce[from.ID]++
		}
	}
	// some history first, so that the previous state is not just the genesis
	for k := r.Intn(3); k > 0; k-- {
		for j := r.Intn(4); j > 0; j-- {
			send()
		}
		w.NextBlock()
	}
	ntx := r.Intn(6)
	if r.Intn(10) == 0 {
		ntx = 0 // a block that changes nothing
	}
	for j := 0; j < ntx; j++ {
		send()
	}
	// snap: seal the current block as its generator would and take the change set it publishes
	snap := func() (*world, error) {
		b := w.B
		b.ClientStateHash = w.State.GetRoot()
		b.SetStateChangesCount(w.State)
		b.SetStateStatus(block.StateSuccessful)
		wd := &world{round: b.Round, blockHash: b.Hash, stateHash: hex.EncodeToString(b.ClientStateHash), count: b.StateChangesCount,
			prevRoot: hex.EncodeToString(w.Prev.ClientStateHash)}
		bsc, err := block.NewBlockStateChange(b)
		if err != nil {
			if err == state.ErrPartialStateNilNodes {
				return wd, nil // nothing changed: there is no change set to publish
			}
			return nil, err
		}
		j, err := bsc.MarshalJSON()
		if err != nil {
			return nil, err
		}
		var wire struct {
			Block string   `json:"block"`
			Root  string   `json:"root"`
			Nodes [][]byte `json:"nodes"`
		}
		if err := json.Unmarshal(j, &wire); err != nil {
			return nil, err
		}
		wd.nodes, wd.wireBlock, wd.wireRoot = wire.Nodes, wire.Block, wire.Root
		return wd, nil
	}
	prevNodes, err := allNodes(w.Prev.ClientState)
	if err != nil {
		return nil, err
	}
	wd, err := snap()
	if err != nil {
		return nil, err
	}
	wd.prevNodes = prevNodes
	// the blocks that follow: a receiver syncs them one on top of the other without saving in between
	last := wd
	for k := 0; k < 3 && len(last.nodes) > 0 && r.Intn(4) > 0; k++ {
		w.NextBlock()
		for j := 1 + r.Intn(4); j > 0; j-- {
			send()
		}
		nx, err := snap()
		if err != nil {
			return nil, err
		}
		if len(nx.nodes) == 0 {
			break
		}
		wd.next = append(wd.next, nx)
		last = nx
	}
	return wd, nil
}

func flipHex(r *rand.Rand, s string) string {
	b, _ := hex.DecodeString(s)
	if len(b) == 0 {
		return "00"
	}
	b[r.Intn(len(b))] ^= byte(1 << uint(r.Intn(8)))
	return hex.EncodeToString(b)
}

func gen(r *rand.Rand, thorough bool, i int) []string {
	wd, err := buildWorld(r, thorough)
	if err != nil {
		// the engine executed a block but its change set could not be produced (NewBlockStateChange validates what it
		// built with ComputeProperties): the published state changes do not reproduce the computed state
		return []string{"world", "honestfail " + strings.ReplaceAll(err.Error(), " ", "_")}
	}
	ops := []string{"world"}
	for _, e := range wd.prevNodes {
		if l, ok := annot("p", e, 0); ok {
			ops = append(ops, l)
		}
	}
	type variant struct {
		blkHash, stateHash string
		count              int
		prevRoot           string
		prevComputed, st   int
		round              int64
		csBlock, csRoot    string
		nodes              [][]byte
		honest, raw        bool
	}
	base := variant{round: wd.round, blkHash: wd.blockHash, stateHash: wd.stateHash, count: wd.count, prevRoot: wd.prevRoot, prevComputed: 1,
		csBlock: wd.wireBlock, csRoot: wd.wireRoot, nodes: wd.nodes, honest: true}
	emit := func(v variant) {
		ops = append(ops, fmt.Sprintf("blk %s %s %d %s %d %d %d", v.blkHash, v.stateHash, v.count, v.prevRoot, v.prevComputed, v.st, v.round))
		h := ""
		if v.honest {
			h = " honest"
		}
		ops = append(ops, fmt.Sprintf("cs %s %s%s", v.csBlock, v.csRoot, h))
		for _, e := range v.nodes {
			if l, ok := annot("n", e, v.round); ok {
				ops = append(ops, l)
			} else {
				ops = append(ops, "n "+hex.EncodeToString(e)+" undecodable ? -")
			}
		}
		if v.raw {
			ops = append(ops, "rawapply")
		} else {
			ops = append(ops, "decode", "apply")
		}
		ops = append(ops, "state", "db")
	}
	if len(wd.nodes) == 0 {
		// unchanged state: no change set exists; what a receiver is sent then is somebody's invention
		v := base
		v.honest = false
		v.csBlock, v.csRoot = wd.blockHash, wd.stateHash
		if len(wd.prevNodes) > 0 {
			v.nodes = [][]byte{wd.prevNodes[r.Intn(len(wd.prevNodes))]}
		}
		emit(v)
		v.raw = true
		emit(v)
		return ops
	}
	emit(base)
	cp := func(ns [][]byte) [][]byte { return append([][]byte(nil), ns...) }
	n := len(wd.nodes)
	inSet := map[string]bool{}
	for _, e := range wd.nodes {
		inSet[string(e)] = true
	}
	// nodes of the previous state that are still part of the new tree (unchanged subtrees) / that are not
	newTree := map[string]bool{}
	{
		byHash := map[string][]string{}
		for _, e := range append(cp(wd.nodes), wd.prevNodes...) {
			if nd, err := util.CreateNode(bytes.NewReader(e)); err == nil {
				byHash[nd.GetHash()] = childrenOf(nd)
			}
		}
		var walk func(h string)
		walk = func(h string) {
			if newTree[h] {
				return
			}
			newTree[h] = true
			for _, c := range byHash[h] {
				walk(c)
			}
		}
		walk(wd.stateHash)
	}
	var unchangedInTree, outsideTree [][]byte
	for _, e := range wd.prevNodes {
		if inSet[string(e)] {
			continue
		}
		nd, err := util.CreateNode(bytes.NewReader(e))
		if err != nil {
			continue
		}
		if newTree[nd.GetHash()] {
			unchangedInTree = append(unchangedInTree, e)
		} else {
			outsideTree = append(outsideTree, e)
		}
	}
	kinds := []int{1, 2, 3, 4, 5, 6, 7, 8, 9, 10, 11, 12, 13, 14, 15, 16}
	r.Shuffle(len(kinds), func(a, b int) { kinds[a], kinds[b] = kinds[b], kinds[a] })
	limit := 9
	if thorough {
		limit = len(kinds)
	}
	for _, k := range kinds[:limit] {
		v := base
		v.honest = false
		v.nodes = cp(wd.nodes)
		switch k {
		case 1: // order of the nodes is irrelevant
			r.Shuffle(n, func(a, b int) { v.nodes[a], v.nodes[b] = v.nodes[b], v.nodes[a] })
			v.honest = true
		case 2: // a node dropped
			d := r.Intn(n)
			v.nodes = append(v.nodes[:d], v.nodes[d+1:]...)
		case 3: // a node twice
			v.nodes = append(v.nodes, v.nodes[r.Intn(n)])
		case 4: // a node altered
			d := r.Intn(n)
			e := append([]byte(nil), v.nodes[d]...)
			e[len(e)-1-r.Intn(minInt(8, len(e)))] ^= byte(1 << uint(r.Intn(8)))
			v.nodes[d] = e
		case 5: // an extra node that does not belong to the new tree
			if len(outsideTree) == 0 {
				continue
			}
			v.nodes = append(v.nodes, outsideTree[r.Intn(len(outsideTree))])
		case 6: // an extra node that does (an unchanged one): count no longer matches
			if len(unchangedInTree) == 0 {
				continue
			}
			v.nodes = append(v.nodes, unchangedInTree[r.Intn(len(unchangedInTree))])
		case 7: // a changed node swapped for an unchanged node of the new tree: right count, right root
			if len(unchangedInTree) == 0 {
				continue
			}
			v.nodes[r.Intn(n)] = unchangedInTree[r.Intn(len(unchangedInTree))]
		case 8: // wrong block
			v.csBlock = flipHex(r, v.csBlock)
		case 9: // wrong root declared by the change set
			v.csRoot = flipHex(r, v.csRoot)
		case 10: // the block expects another number of changes
			v.count += []int{-1, 1, 5}[r.Intn(3)]
			if v.count < 0 {
				v.count = 0
			}
		case 11: // the block declares another state
			v.stateHash = flipHex(r, v.stateHash)
		case 12: // already computed or synced locally: nothing is applied
			v.st = 4 + r.Intn(2)
			if r.Intn(2) == 0 {
				v.csBlock = flipHex(r, v.csBlock)
			}
		case 13: // ComputeProperties never ran (root nil)
			v.raw = true
			if r.Intn(2) == 0 {
				v.stateHash = v.prevRoot
				v.csRoot = v.prevRoot
			}
		case 14: // the receiver has not computed the previous block
			v.prevComputed = 0
			v.honest = true
		case 16: // the receiver believes the block belongs to another round: the nodes are re-stamped with it
			v.round += int64(1 + r.Intn(3))
		case 15: // the previous block is unknown
			v.prevRoot = "-"
			v.honest = true
		}
		emit(v)
	}
	if len(wd.next) > 0 {
		// sync the blocks one after the other: each new state must sit on the previous block's in-memory state
		first := base
		if r.Intn(6) == 0 {
			first.count++ // the first block is rejected: the second then has no computed previous block
			first.honest = false
		}
		emit(first)
		for _, nx := range wd.next {
			v := variant{round: nx.round, blkHash: nx.blockHash, stateHash: nx.stateHash, count: nx.count, prevRoot: "@", prevComputed: 1,
				csBlock: nx.wireBlock, csRoot: nx.wireRoot, nodes: nx.nodes, honest: true}
			if r.Intn(8) == 0 {
				r.Shuffle(len(v.nodes), func(a, b int) { v.nodes[a], v.nodes[b] = v.nodes[b], v.nodes[a] })
			}
			emit(v)
		}
	}
	return ops
}

func minInt(a, b int) int {
	if a < b {
		return a
	}
	return b
}

// ---------------------------------------------------------------------------------------------- oracle

func oracle(ops, outs []string) *corr.Violation {
	mk := func(sig, msg string) *corr.Violation {
		return &corr.Violation{Signature: "C28:" + sig, Message: msg, Ops: ops, Impl: outs}
	}
	var (
		blkHash, stateHash, csBlock, csRoot string
		count, nodes, status                int
		honest, rejected, applied, judged   bool
		dbSize                              = -1
		prevSize                            int
		graph                               = map[string][]string{} // hash -> children, of the receiver's DB and the change set
		csHashes, chainHashes               []string
	)
	closed := func(root string) bool {
		seen := map[string]bool{}
		var walk func(h string) bool
		walk = func(h string) bool {
			if seen[h] {
				return true
			}
			seen[h] = true
			cs, ok := graph[h]
			if !ok {
				return false
			}
			for _, c := range cs {
				if !walk(c) {
					return false
				}
			}
			return true
		}
		return walk(root)
	}
	for i, op := range ops {
		w := strings.Fields(op)
		o := outs[i]
		if o == "bad-op" {
			if w[0] == "p" || w[0] == "n" || w[0] == "blk" || w[0] == "cs" {
				judged = false
			}
			continue
		}
		switch w[0] {
		case "honestfail":
			return mk("honest-changeset-not-produced", fmt.Sprintf("op %d: NewBlockStateChange of an executed block failed: %s", i, strings.Join(w[1:], " ")))
		case "world":
			prevSize, dbSize = 0, -1
			graph = map[string][]string{}
		case "p":
			prevSize++
			graph[w[2]] = w[5:]
		case "blk":
			if len(w) > 4 && w[4] != "@" {
				// a fresh previous block over the node DB: what earlier blocks merged in memory is gone
				for _, h := range chainHashes {
					delete(graph, h)
				}
				chainHashes = nil
			}
			blkHash, stateHash = w[1], w[2]
			count, _ = strconv.Atoi(w[3])
			status, _ = strconv.Atoi(w[6])
			if len(w) < 8 {
				judged = false
				continue
			}
			judged, rejected, applied = true, false, false
		case "cs":
			csBlock, csRoot, nodes = w[1], w[2], 0
			honest = len(w) == 4
			for _, h := range csHashes {
				delete(graph, h)
			}
			csHashes = nil
		case "n":
			nodes++
			if _, have := graph[w[4]]; !have && len(w) > 4 { // stored under the re-stamped hash
				graph[w[4]] = w[5:]
				csHashes = append(csHashes, w[4])
			}
		case "decode":
			if o != "ok" {
				rejected = true
				if honest && judged {
					return mk("honest-changeset-rejected", fmt.Sprintf("op %d: the change set NewBlockStateChange produced fails ComputeProperties", i))
				}
			}
		case "apply", "rawapply":
			if !judged {
				continue
			}
			mismatch := csBlock != blkHash || csRoot != stateHash || nodes != count
			switch {
			case o == "applied":
				applied = true
				chainHashes = append(chainHashes, csHashes...) // stay readable for the blocks synced on top
				csHashes = nil
				if mismatch && status < 4 {
					return mk("mismatched-changeset-accepted", fmt.Sprintf("op %d: accepted although block %v root %v count %d/%d", i, csBlock == blkHash, csRoot == stateHash, nodes, count))
				}
			case o == "noop":
			default:
				rejected = true
				if honest && w[0] == "apply" {
					return mk("honest-changeset-rejected", fmt.Sprintf("op %d: the change set NewBlockStateChange produced answered %q", i, o))
				}
			}
		case "state":
			if !judged {
				continue
			}
			f := strings.Fields(o)
			if rejected && f[0] != "nostate" {
				return mk("rejected-changeset-mutates-state", fmt.Sprintf("op %d: change set rejected, yet the block has state %q", i, o))
			}
			if rejected && len(f) > 1 && f[1] != strconv.Itoa(status) {
				return mk("rejected-changeset-mutates-state", fmt.Sprintf("op %d: change set rejected, yet the block's state status went %d -> %s", i, status, f[1]))
			}
			if applied {
				if f[0] != "state" || f[1] != stateHash {
					return mk("applied-root-differs", fmt.Sprintf("op %d: applied, state is %q, block declares %s", i, o, stateHash))
				}
				// an honest change set on top of a receiver that holds what the new tree still shares with the old one
				if honest && closed(stateHash) && f[3] != "complete" {
					return mk("honest-state-incomplete", fmt.Sprintf("op %d: honest change set applied but the state cannot be read completely: %q", i, o))
				}
			}
		case "db":
			n, _ := strconv.Atoi(strings.TrimPrefix(o, "db "))
			if dbSize < 0 {
				dbSize = n
				if n != prevSize {
					return mk("receiver-db-setup", fmt.Sprintf("op %d: %d nodes loaded, db holds %d", i, prevSize, n))
				}
			} else if n != dbSize {
				return mk("apply-writes-persistent-db", fmt.Sprintf("op %d: the receiver's node DB changed size %d -> %d", i, dbSize, n))
			}
		}
	}
	return nil
}

func main() {
	corr.Main(corr.Prop{
		ID: "C28", Model: "C28", Gen: gen, Impl: impl, Oracle: oracle,
		Cases: func(th bool) int {
			if th {
				return 4000
			}
			return 250
		},
		Extra: func() map[string]interface{} {
			statMu.Lock()
			defer statMu.Unlock()
			m := map[string]interface{}{"node_db": "receiver: util.MemoryNodeDB (previous state) under a LevelNodeDB; generator: real engine over util.MemoryNodeDB"}
			for k, v := range stats {
				m[k] = v
			}
			return m
		},
		Nontrivial: func(ops, outs []string) bool {
			for _, o := range outs {
				if o == "applied" {
					return true
				}
			}
			return false
		},
	})
	_ = os.Stdout
	_ = sort.Strings
}
