// C07 harness: the real statecache (StateCache / BlockCache / TransactionCache / QueryBlockCache) and the real
// StateContext.GetTrieNode / InsertTrieNode / DeleteTrieNode over real MPTs against Model/StateCache.lean.
//
// Part 1 (line protocol, compared with the model): a tree of blocks over one node DB; a block execution with its
// block cache, transactions with their transaction cache + transaction MPT (committed with MergeMPTChanges +
// TransactionCache.Commit, or dropped), BlockCache.Commit when the block state is computed, reads through
// QueryBlockCache at computed blocks. Every read answers what came through the caches AND a fresh uncached read
// (cloned MPT with an empty cache, new state context) of the same trie.
// Part 2 (`typecheck <type> <seed>`, validated on the real code only — the model has no memory aliasing): for
// every type of /repo that implements statecache.Value, Clone/CopyFrom round trips and aliasing through the real
// cache layers, with instances filled by reflection. A static scan of the sources fails the run when a cacheable
// type exists that part 2 does not cover.
package main

import (
	"encoding/json"
	"errors"
	"fmt"
	"go/ast"
	"go/parser"
	"go/token"
	"math/rand"
	"os"
	"path/filepath"
	"reflect"
	"sort"
	"strconv"
	"strings"
	"sync/atomic"
	"unsafe"

	"0chain.net/chaincore/block"
	"0chain.net/chaincore/chain"
	cstate "0chain.net/chaincore/chain/state"
	"0chain.net/chaincore/smartcontract"
	sci "0chain.net/chaincore/smartcontractinterface"
	"0chain.net/chaincore/transaction"
	"0chain.net/core/encryption"
	"0chain.net/smartcontract/dbs/event"
	"0chain.net/smartcontract/minersc"
	"0chain.net/smartcontract/partitions"
	"0chain.net/smartcontract/stakepool"
	"0chain.net/smartcontract/storagesc"
	"context"
	"net/url"

	"github.com/0chain/common/core/currency"
	"github.com/0chain/common/core/statecache"
	"github.com/0chain/common/core/util"
	"verifharness/lib/corr"
	"verifharness/lib/engine"
)

// ---- the value stored in the trie in part 1 ---------------------------------------------------------

// cval: "v<N>" followed by Pad filler bytes (a value above util.MPTMaxAllowableNodeSize is refused by the trie)
type cval struct {
	N   int
	Pad int
}

const oversize = 1<<20 + 1

func encodeVal(b []byte, n, pad int) []byte {
	b = append(b, []byte("v"+strconv.Itoa(n))...)
	if pad > 0 {
		b = append(b, make([]byte, pad)...)
	}
	return b
}

func decodeVal(b []byte) (int, int, error) {
	i := 0
	for i < len(b) && b[i] != 0 {
		i++
	}
	s := string(b[:i])
	if !strings.HasPrefix(s, "v") {
		return 0, 0, fmt.Errorf("cval: bad bytes %q", s)
	}
	n, err := strconv.Atoi(s[1:])
	return n, len(b) - i, err
}

func (c *cval) MarshalMsg(b []byte) ([]byte, error) { return encodeVal(b, c.N, c.Pad), nil }
func (c *cval) UnmarshalMsg(b []byte) ([]byte, error) {
	var err error
	c.N, c.Pad, err = decodeVal(b)
	return nil, err
}
func (c *cval) Clone() statecache.Value { return &cval{N: c.N, Pad: c.Pad} }
func (c *cval) CopyFrom(v interface{}) bool {
	o, ok := v.(*cval)
	if ok {
		c.N, c.Pad = o.N, o.Pad
	}
	return ok
}

// cvalX: a read target that is neither cacheable nor copyable (GetTrieNode cannot use a cache hit and caches nothing)
type cvalX struct{ N int }

func (c *cvalX) MarshalMsg(b []byte) ([]byte, error) { return encodeVal(b, c.N, 0), nil }
func (c *cvalX) UnmarshalMsg(b []byte) ([]byte, error) {
	var err error
	c.N, _, err = decodeVal(b)
	return nil, err
}

// cvalY: a read target whose CopyFrom refuses what the cache holds; what GetTrieNode then decodes from the trie is
// cached as a plain cval (Clone), so the caches only ever hold *cval
type cvalY struct{ N int }

func (c *cvalY) MarshalMsg(b []byte) ([]byte, error) { return encodeVal(b, c.N, 0), nil }
func (c *cvalY) UnmarshalMsg(b []byte) ([]byte, error) {
	var err error
	c.N, _, err = decodeVal(b)
	return nil, err
}
func (c *cvalY) Clone() statecache.Value     { return &cval{N: c.N} }
func (c *cvalY) CopyFrom(v interface{}) bool { return false }

func keyName(k int) string { return "c07key" + strconv.Itoa(k) }
func blkName(h int) string { return "c07blk" + strconv.Itoa(h) }

// ---- part 1: the world ------------------------------------------------------------------------------

type blk struct {
	b     *block.Block
	state util.MerklePatriciaTrieI
}

type txn struct {
	tc   *statecache.TransactionCache
	mpt  util.MerklePatriciaTrieI
	sctx *cstate.StateContext
}

type exec struct {
	h, p  int
	b     *block.Block
	state util.MerklePatriciaTrieI
	bc    *statecache.BlockCache
	t     *txn
}

type world struct {
	c      *chain.Chain
	sc     *statecache.StateCache
	ndb    util.NodeDB
	blocks map[int]*blk
	cur    *exec
	// blocks whose ComputeState was interrupted (cblock), waiting for cretry
	pending map[int]*block.Block
}

func newWorld() *world {
	w := &world{c: engine.Setup(), sc: statecache.NewStateCache(), ndb: util.NewMemoryNodeDB(), blocks: map[int]*blk{}, pending: map[int]*block.Block{}}
	gb := block.NewBlock("", 0)
	gb.Hash = blkName(0)
	mpt := util.NewMerklePatriciaTrie(w.ndb, 0, nil, statecache.NewEmpty())
	gb.ClientState = mpt
	gb.ClientStateHash = mpt.GetRoot()
	gb.SetStateStatus(block.StateSuccessful)
	w.blocks[0] = &blk{b: gb, state: mpt}
	return w
}

func (w *world) sctxOn(b *block.Block, mpt util.MerklePatriciaTrieI) *cstate.StateContext {
	t := &transaction.Transaction{}
	t.Hash = "c07txn"
	return w.c.NewStateContext(b, mpt, t, nil)
}

func readVal(sctx *cstate.StateContext, k int) string {
	var v cval
	switch err := sctx.GetTrieNode(keyName(k), &v); err {
	case nil:
		if v.Pad > 0 {
			return strconv.Itoa(v.N) + "-oversized"
		}
		return strconv.Itoa(v.N)
	case util.ErrValueNotPresent:
		return "absent"
	default:
		return "error:" + err.Error()
	}
}

func readValAs(sctx *cstate.StateContext, k int, how string) string {
	var err error
	n := 0
	switch how {
	case "x":
		var v cvalX
		err = sctx.GetTrieNode(keyName(k), &v)
		n = v.N
	default:
		var v cvalY
		err = sctx.GetTrieNode(keyName(k), &v)
		n = v.N
	}
	switch err {
	case nil:
		return strconv.Itoa(n)
	case util.ErrValueNotPresent:
		return "absent"
	default:
		return "error:" + err.Error()
	}
}

// fresh uncached read: a clone of the trie with an empty, isolated cache and a new state context
func (w *world) refRead(b *block.Block, mpt util.MerklePatriciaTrieI, k int) string {
	return readVal(w.sctxOn(b, util.CloneMPT(mpt)), k)
}

func showRead(got, ref string) string {
	if got == "absent" {
		return "absent ref " + ref
	}
	return "val " + got + " ref " + ref
}

func num(s string) (int, bool) {
	if s == "" || len(s) > 9 {
		return 0, false
	}
	for _, c := range s {
		if c < '0' || c > '9' {
			return 0, false
		}
	}
	n, err := strconv.Atoi(s)
	return n, err == nil
}

func (w *world) exec(f []string) string {
	args := make([]int, 0, 2)
	for _, a := range f[1:] {
		n, ok := num(a)
		if !ok {
			return "bad-op"
		}
		args = append(args, n)
	}
	need := map[string]int{"begin": 2, "tx": 0, "get": 1, "probe": 1, "ins": 2, "del": 1, "commit": 0, "discard": 0, "bcommit": 0, "babort": 0, "query": 2,
		"insbig": 2, "getx": 1, "gety": 1}
	if n, ok := need[f[0]]; !ok || n != len(args) {
		return "bad-op"
	}
	switch f[0] {
	case "begin":
		pb := w.blocks[args[1]]
		if w.cur != nil || pb == nil {
			return "bad"
		}
		b := block.NewBlock("", pb.b.Round+1)
		b.Hash = blkName(args[0])
		b.PrevHash = pb.b.Hash
		b.PrevBlock = pb.b
		st := block.CreateStateWithPreviousBlock(pb.b, w.ndb, b.Round)
		b.ClientState = st
		bc := statecache.NewBlockCache(w.sc, statecache.Block{Round: b.Round, Hash: b.Hash, PrevHash: b.PrevHash})
		w.cur = &exec{h: args[0], p: args[1], b: b, state: st, bc: bc}
		return "ok"
	case "query":
		qb := w.blocks[args[0]]
		if qb == nil {
			return "bad"
		}
		qbc := statecache.NewQueryBlockCache(w.sc, qb.b.Hash)
		tbc := statecache.NewTransactionCache(qbc)
		got := readVal(w.sctxOn(qb.b, chain.CreateTxnMPT(qb.state, tbc)), args[1])
		return showRead(got, w.refRead(qb.b, qb.state, args[1]))
	}
	e := w.cur
	if e == nil {
		return "bad"
	}
	switch f[0] {
	case "tx":
		if e.t != nil {
			return "bad"
		}
		tc := statecache.NewTransactionCache(e.bc)
		mpt := chain.CreateTxnMPT(e.state, tc)
		e.t = &txn{tc: tc, mpt: mpt, sctx: w.sctxOn(e.b, mpt)}
		return "ok"
	case "bcommit":
		if e.t != nil {
			return "bad"
		}
		e.bc.Commit()
		if w.blocks[e.h] == nil {
			e.b.ClientStateHash = e.state.GetRoot()
			e.b.SetStateStatus(block.StateSuccessful)
			w.blocks[e.h] = &blk{b: e.b, state: e.state}
		}
		w.cur = nil
		return "ok"
	case "babort":
		w.cur = nil
		return "ok"
	}
	t := e.t
	if t == nil {
		return "bad"
	}
	switch f[0] {
	case "get":
		got := readVal(t.sctx, args[0])
		return showRead(got, w.refRead(e.b, t.mpt, args[0]))
	case "probe":
		cv, ok := t.sctx.Cache().Get(keyName(args[0]))
		if !ok {
			return "miss"
		}
		c, isC := cv.(*cval)
		if !isC {
			return "hit-other"
		}
		if c.Pad > 0 {
			return "hit " + strconv.Itoa(c.N) + " oversized"
		}
		return "hit " + strconv.Itoa(c.N)
	case "getx", "gety":
		got := readValAs(t.sctx, args[0], f[0][3:])
		return showRead(got, w.refRead(e.b, t.mpt, args[0]))
	case "insbig":
		_, err := t.sctx.InsertTrieNode(keyName(args[0]), &cval{N: args[1], Pad: oversize})
		if err == nil {
			return "error: the trie stored an oversized value"
		}
		if strings.Contains(err.Error(), "exceeds maximum permissible size") {
			return "toobig"
		}
		return "error:" + err.Error()
	case "ins":
		if _, err := t.sctx.InsertTrieNode(keyName(args[0]), &cval{N: args[1]}); err != nil {
			return "error:" + err.Error()
		}
		return "ok"
	case "del":
		switch _, err := t.sctx.DeleteTrieNode(keyName(args[0])); err {
		case nil:
			return "ok"
		case util.ErrValueNotPresent:
			return "absent"
		default:
			return "error:" + err.Error()
		}
	case "commit":
		if err := e.state.MergeMPTChanges(t.mpt); err != nil {
			return "error:" + err.Error()
		}
		t.tc.Commit()
		e.t = nil
		return "ok"
	case "discard":
		e.t = nil
		return "ok"
	}
	return "bad-op"
}



// ---- part 1c: whole blocks through the real (*Block).ComputeState ------------------------------------------
//
// `cblock <h> <p> <-|c<i>|f<i>> <script>` builds block h on p whose transactions are scripts
// (`i:k:v` insert, `d:k` delete, `g:k` / `x:k` / `y:k` reads, `b:k:v` an oversized insert whose error the
// "contract" tolerates; `,` between primitives, `;` between transactions) and runs block.ComputeState with a
// block.Chainer whose UpdateState does what chain.updateState does around the caches. `c<i>` / `f<i>` make
// UpdateState return context.Canceled / an error at transaction i (the block stays uncomputed); `cretry <h>` runs
// ComputeState again on the same block object.

type scriptChainer struct {
	w       *world
	sc      *statecache.StateCache
	stopAt  string
	stopErr error
}

func (c *scriptChainer) GetPreviousBlock(ctx context.Context, b *block.Block) *block.Block { return b.PrevBlock }
func (c *scriptChainer) GetBlockStateChange(b *block.Block) error                           { return nil }
func (c *scriptChainer) ComputeState(ctx context.Context, pb *block.Block, waitC ...chan struct{}) error {
	return pb.ComputeState(ctx, c, waitC...)
}
func (c *scriptChainer) GetStateDB() util.NodeDB                { return c.w.ndb }
func (c *scriptChainer) GetEventDb() *event.EventDb             { return nil }
func (c *scriptChainer) GetStateCache() *statecache.StateCache { return c.sc }

func (c *scriptChainer) UpdateState(ctx context.Context, b *block.Block, bState util.MerklePatriciaTrieI,
	txn *transaction.Transaction, bsc *statecache.BlockCache, waitC ...chan struct{}) ([]event.Event, error) {
	if txn.Hash == c.stopAt {
		return nil, c.stopErr
	}
	tc := statecache.NewTransactionCache(bsc)
	tmpt := chain.CreateTxnMPT(bState, tc)
	sctx := c.w.sctxOn(b, tmpt)
	for _, prim := range strings.Split(txn.TransactionData, ",") {
		x := strings.Split(prim, ":")
		k, _ := strconv.Atoi(x[1])
		switch x[0] {
		case "i":
			v, _ := strconv.Atoi(x[2])
			if _, err := sctx.InsertTrieNode(keyName(k), &cval{N: v}); err != nil {
				return nil, err
			}
		case "b":
			v, _ := strconv.Atoi(x[2])
			_, _ = sctx.InsertTrieNode(keyName(k), &cval{N: v, Pad: oversize}) // the error is tolerated
		case "d":
			_, _ = sctx.DeleteTrieNode(keyName(k))
		case "g":
			readVal(sctx, k)
		case "x", "y":
			readValAs(sctx, k, x[0])
		}
	}
	if err := bState.MergeMPTChanges(tmpt); err != nil {
		return nil, err
	}
	tc.Commit()
	return nil, nil
}

func validScript(s string) bool {
	for _, t := range strings.Split(s, ";") {
		for _, p := range strings.Split(t, ",") {
			x := strings.Split(p, ":")
			want := map[string]int{"i": 3, "b": 3, "d": 2, "g": 2, "x": 2, "y": 2}[x[0]]
			if want == 0 || len(x) != want {
				return false
			}
			for _, a := range x[1:] {
				if _, ok := num(a); !ok {
					return false
				}
			}
		}
	}
	return true
}

func (w *world) computeBlock(b *block.Block, stopAt int, stopErr error) string {
	c := &scriptChainer{w: w, sc: w.sc}
	if stopAt >= 0 && stopAt < len(b.Txns) {
		c.stopAt, c.stopErr = b.Txns[stopAt].Hash, stopErr
	}
	h, _ := strconv.Atoi(strings.TrimPrefix(b.Hash, "c07blk"))
	switch err := b.ComputeState(context.Background(), c); {
	case err == nil:
		if !b.IsStateComputed() {
			return "error: ComputeState returned nil, state not computed"
		}
		delete(w.pending, h)
		w.blocks[h] = &blk{b: b, state: b.ClientState}
		return "ok"
	case err == context.Canceled:
		w.pending[h] = b
		return "cancelled"
	default:
		w.pending[h] = b
		return "failed"
	}
}

func (w *world) cblock(f []string) string {
	if len(f) != 5 {
		return "bad-op"
	}
	h, ok1 := num(f[1])
	p, ok2 := num(f[2])
	stopAt, stopErr := -1, error(nil)
	okS := f[3] == "-"
	if len(f[3]) > 1 && (f[3][0] == 'c' || f[3][0] == 'f') {
		if n, ok := num(f[3][1:]); ok {
			stopAt, okS = n, true
			stopErr = context.Canceled
			if f[3][0] == 'f' {
				stopErr = errors.New("c07: injected transaction failure")
			}
		}
	}
	if !ok1 || !ok2 || !okS || !validScript(f[4]) {
		return "bad-op"
	}
	pb := w.blocks[p]
	if w.cur != nil || pb == nil || w.blocks[h] != nil || w.pending[h] != nil {
		return "bad"
	}
	b := block.NewBlock("", pb.b.Round+1)
	b.Hash = blkName(h)
	b.PrevHash = pb.b.Hash
	b.PrevBlock = pb.b
	for i, script := range strings.Split(f[4], ";") {
		t := &transaction.Transaction{}
		t.Hash = encryption.Hash(fmt.Sprintf("c07-txn-%d-%d", h, i))
		t.ClientID = encryption.Hash("c07-client")
		t.TransactionData = script
		b.Txns = append(b.Txns, t)
	}
	// the state hash an honest generator announces: the transactions on a scratch state with a scratch cache
	scratch := &scriptChainer{w: w, sc: statecache.NewStateCache()}
	st := block.CreateStateWithPreviousBlock(pb.b, w.ndb, b.Round)
	bsc := statecache.NewBlockCache(scratch.sc, statecache.Block{Round: b.Round, Hash: b.Hash, PrevHash: b.PrevHash})
	for _, t := range b.Txns {
		if _, err := scratch.UpdateState(context.Background(), b, st, t, bsc); err != nil {
			return "error:" + err.Error()
		}
	}
	b.ClientStateHash = st.GetRoot()
	return w.computeBlock(b, stopAt, stopErr)
}

func (w *world) cretry(f []string) string {
	if len(f) != 2 {
		return "bad-op"
	}
	h, ok := num(f[1])
	if !ok {
		return "bad-op"
	}
	b := w.pending[h]
	if b == nil || w.cur != nil {
		return "bad"
	}
	return w.computeBlock(b, -1, nil)
}

// scenario "partitions-oversize": a real Partitions whose head grows over the node size limit — Save fails — then
// the head read through the transaction cache, and by the next transaction through the block cache, against the trie
func scenarioPartitionsOversize(seed int64) string {
	w := newWorld()
	w.exec([]string{"begin", "1", "0"})
	w.exec([]string{"tx"})
	e := w.cur
	name := "c07parts" + strconv.FormatInt(seed%7, 10)
	count := func(sctx *cstate.StateContext) int {
		p, err := partitions.GetPartitions(sctx, name)
		if err != nil {
			return -1
		}
		n, _ := p.Size(sctx)
		return n
	}
	p, err := partitions.CreateIfNotExists(e.t.sctx, name, 10)
	if err != nil {
		return "fail create " + err.Error()
	}
	if err := p.Add(e.t.sctx, &pitem{ID: "small", Pad: int(seed % 50)}); err != nil {
		return "fail add " + err.Error()
	}
	if err := p.Save(e.t.sctx); err != nil {
		return "fail save " + err.Error()
	}
	if err := p.Add(e.t.sctx, &pitem{ID: "huge", Pad: oversize}); err != nil {
		return "fail add-huge " + err.Error()
	}
	if err := p.Save(e.t.sctx); err == nil {
		return "fail oversized-save-accepted"
	}
	cold := func() int { return count(w.sctxOn(w.cur.b, util.CloneMPT(w.cur.t.mpt))) }
	if warm, c := count(e.t.sctx), cold(); warm != c {
		return fmt.Sprintf("fail same-txn warm %d cold %d", warm, c)
	}
	w.exec([]string{"commit"}) // the caller tolerated the error
	w.exec([]string{"tx"})
	if warm, c := count(w.cur.t.sctx), cold(); warm != c {
		return fmt.Sprintf("fail next-txn warm %d cold %d", warm, c)
	}
	w.exec([]string{"commit"})
	w.exec([]string{"bcommit"})
	w.exec([]string{"begin", "2", "1"})
	w.exec([]string{"tx"})
	if warm, c := count(w.cur.t.sctx), cold(); warm != c {
		return fmt.Sprintf("fail next-block warm %d cold %d", warm, c)
	}
	return "ok"
}

type pitem struct {
	ID  string
	Pad int
}

func (p *pitem) GetID() string { return p.ID }
func (p *pitem) MarshalMsg(o []byte) ([]byte, error) {
	return append(append(o, []byte(p.ID+"|")...), make([]byte, p.Pad)...), nil
}
func (p *pitem) UnmarshalMsg(b []byte) ([]byte, error) {
	i := strings.IndexByte(string(b), '|')
	if i < 0 {
		return nil, errors.New("pitem: bad bytes")
	}
	p.ID, p.Pad = string(b[:i]), len(b)-i-1
	return nil, nil
}
func (p *pitem) Msgsize() int { return len(p.ID) + 1 + p.Pad }

// ---- part 1b: the same caches driven by the real Chain.UpdateState ----------------------------------------
//
// A test contract registered in smartcontract.ContractMap writes / deletes / reads one cacheable node per call and
// may fail after writing; transactions go through engine.World.Exec = Chain.UpdateState (transaction cache created,
// committed only when the transaction is applied, re-created after a chargeable contract error), blocks through
// BlockCache.Commit. Every world uses its own key prefix and its own block hashes (the chain's StateCache is global).

const c07Address = "c07c07c07c07c07c07c07c07c07c07c07c07c07c07c07c07c07c07c07c07c07c0"

type c07Contract struct{}

type c07Input struct {
	Key string `json:"key"`
	V   int    `json:"v"`
}

func (c07Contract) Execute(t *transaction.Transaction, fn string, input []byte, b cstate.StateContextI) (string, error) {
	var in c07Input
	if err := json.Unmarshal(input, &in); err != nil {
		return "", err
	}
	switch fn {
	case "writebig":
		// an insert the trie refuses; this contract tolerates the error and reports success
		if _, err := b.InsertTrieNode(in.Key, &cval{N: in.V, Pad: oversize}); err == nil {
			return "", errors.New("c07: oversized value stored")
		}
		return "tolerated", nil
	case "write", "writefail":
		if _, err := b.InsertTrieNode(in.Key, &cval{N: in.V}); err != nil {
			return "", err
		}
		if fn == "writefail" {
			return "", errors.New("c07: deliberate failure after the write")
		}
		return "written", nil
	case "del":
		if _, err := b.DeleteTrieNode(in.Key); err != nil {
			return "", errors.New("c07: delete failed: " + err.Error())
		}
		return "deleted", nil
	case "read":
		var v cval
		switch err := b.GetTrieNode(in.Key, &v); err {
		case nil:
			if v.Pad > 0 {
				return strconv.Itoa(v.N) + "-oversized", nil
			}
			return strconv.Itoa(v.N), nil
		case util.ErrValueNotPresent:
			return "absent", nil
		default:
			return "", err
		}
	}
	return "", errors.New("c07: unknown function")
}
func (c07Contract) GetHandlerStats(ctx context.Context, params url.Values) (interface{}, error) {
	return nil, nil
}
func (c07Contract) GetExecutionStats() map[string]interface{} { return map[string]interface{}{} }
func (c07Contract) GetName() string                           { return "c07verif" }
func (c07Contract) GetAddress() string                        { return c07Address }
func (c07Contract) GetCostTable(cstate.StateContextI) (map[string]int, error) {
	return map[string]int{"write": 1, "writebig": 1, "writefail": 1, "del": 1, "read": 1}, nil
}

var _ sci.SmartContractInterface = c07Contract{}

var worldSeq int64

type eworld struct {
	w      *engine.World
	id     int64
	client engine.Client
	nonce  int64
}

func (e *eworld) key(k int) string { return fmt.Sprintf("c07w%dk%d", e.id, k) }

// nextBlock is engine.World.NextBlock with a block hash that is unique in this process
func (e *eworld) nextBlock() {
	w := e.w
	if w.B != nil {
		w.B.ClientStateHash = w.State.GetRoot()
		w.B.SetStateStatus(block.StateSuccessful)
		w.BC.Commit()
		w.Prev = w.B
	}
	w.Round++
	b := block.NewBlock("", w.Round)
	b.Hash = encryption.Hash(fmt.Sprintf("c07-world-%d-block-%d", e.id, w.Round))
	b.PrevHash = w.Prev.Hash
	b.PrevBlock = w.Prev
	b.CreationDate = w.Now
	b.MinerID = engine.NewClient("miner0").ID
	st := block.CreateStateWithPreviousBlock(w.Prev, w.NDB, w.Round)
	b.ClientState = st
	w.B = b
	w.State = st
	w.BC = statecache.NewBlockCache(w.C.GetStateCache(), statecache.Block{Round: b.Round, Hash: b.Hash, PrevHash: b.PrevHash})
}

func newEWorld() *eworld {
	cl := engine.NewClient("c07client")
	w, err := engine.NewWorld(map[string]currency.Coin{cl.ID: 1000e10}, nil)
	if err != nil {
		panic(err)
	}
	e := &eworld{w: w, id: atomic.AddInt64(&worldSeq, 1), client: cl}
	// drop the block NewWorld opened (its hash is derived from a pointer) and open ours
	w.B, w.Round = nil, 0
	w.Prev.Hash = encryption.Hash(fmt.Sprintf("c07-world-%d-genesis", e.id))
	e.nextBlock()
	return e
}

func (e *eworld) call(fn string, k, v int) (*transaction.Transaction, error) {
	in, _ := json.Marshal(c07Input{Key: e.key(k), V: v})
	e.nonce++
	t := e.w.Txn(e.client, c07Address, 0, 0, e.nonce, transaction.TxnTypeSmartContract, fn, string(in))
	_, err := e.w.Exec(t)
	if err != nil {
		e.nonce--
	}
	return t, err
}

func (e *eworld) exec(f []string) string {
	args := make([]int, 0, 2)
	for _, a := range f[1:] {
		n, ok := num(a)
		if !ok {
			return "bad-op"
		}
		args = append(args, n)
	}
	need := map[string]int{"eblock": 0, "ewrite": 2, "ewritebig": 2, "ewritefail": 2, "edel": 1, "eread": 1}
	if n, ok := need[f[0]]; !ok || n != len(args) {
		return "bad-op"
	}
	status := func(t *transaction.Transaction, err error) string {
		switch {
		case err != nil:
			return "error:" + err.Error()
		case t.Status == transaction.TxnSuccess:
			return "ok"
		default:
			return "failed"
		}
	}
	switch f[0] {
	case "eblock":
		e.nextBlock()
		return "ok"
	case "ewrite":
		return status(e.call("write", args[0], args[1]))
	case "ewritebig":
		return status(e.call("writebig", args[0], args[1]))
	case "ewritefail":
		return status(e.call("writefail", args[0], args[1]))
	case "edel":
		return status(e.call("del", args[0], 0))
	case "eread":
		t, err := e.call("read", args[0], 0)
		if s := status(t, err); s != "ok" {
			return s
		}
		var v cval
		ref := "absent"
		switch err := e.w.State.GetNodeValue(util.Path(encryption.Hash(e.key(args[0]))), &v); err {
		case nil:
			ref = strconv.Itoa(v.N)
		case util.ErrValueNotPresent:
		default:
			ref = "error:" + err.Error()
		}
		return showRead(t.TransactionOutput, ref)
	}
	return "bad-op"
}

func impl(ops []string) []string {
	outs := make([]string, len(ops))
	var w *world
	var ew *eworld
	for i, op := range ops {
		f := strings.Fields(op)
		func() {
			defer func() {
				if r := recover(); r != nil {
					outs[i] = fmt.Sprintf("panic %v", r)
				}
			}()
			switch {
			case len(f) == 0:
				outs[i] = "bad-op"
			case len(f) == 1 && f[0] == "reset":
				w = newWorld()
				ew = nil
				outs[i] = "ok"
			case len(f) == 1 && f[0] == "ereset":
				ew = newEWorld()
				outs[i] = "ok"
			case f[0] == "eblock" || f[0] == "ewritebig" || f[0] == "ewrite" || f[0] == "ewritefail" || f[0] == "edel" || f[0] == "eread":
				if ew == nil {
					outs[i] = "bad"
					return
				}
				outs[i] = ew.exec(f)
			case f[0] == "scenario" && len(f) == 3:
				seed, ok := num(f[2])
				if !ok || f[1] != "partitions-oversize" {
					outs[i] = "bad-op"
					return
				}
				outs[i] = scenarioPartitionsOversize(int64(seed))
			case f[0] == "cblock" || f[0] == "cretry":
				if w == nil {
					w = newWorld()
				}
				if f[0] == "cblock" {
					outs[i] = w.cblock(f)
				} else {
					outs[i] = w.cretry(f)
				}
			case f[0] == "typecheck" && len(f) == 3:
				seed, ok := num(f[2])
				if !ok {
					outs[i] = "bad-op"
					return
				}
				outs[i] = typecheck(f[1], int64(seed))
			default:
				if w == nil {
					w = newWorld()
				}
				outs[i] = w.exec(f)
			}
		}()
	}
	return outs
}

// ---- part 2: every cacheable type ---------------------------------------------------------------------

type cacheable interface {
	statecache.Value
	util.MPTSerializable
}

type typeCase struct {
	make  func(r *rand.Rand) cacheable // a populated instance
	empty func() cacheable             // a decode / CopyFrom target
}

var typeCases = map[string]typeCase{
	"partitions.Partitions": {
		make: func(r *rand.Rand) cacheable {
			return partitions.VerifNewPartitionsValue("c07p"+strconv.Itoa(r.Intn(9)), 1+r.Intn(5), []string{"a", "b" + strconv.Itoa(r.Intn(9))})
		},
		empty: func() cacheable { return partitions.VerifEmptyPartitionsValue() },
	},
	"partitions.partition": {
		make:  func(r *rand.Rand) cacheable { return partitions.VerifNewPartitionValue(r.Intn(5), []string{"a", "b", "c"}[:1+r.Intn(3)]) },
		empty: func() cacheable { return partitions.VerifEmptyPartitionValue() },
	},
	"partitions.location": {
		make:  func(r *rand.Rand) cacheable { return partitions.VerifNewLocationValue(r.Intn(100)) },
		empty: func() cacheable { return partitions.VerifEmptyLocationValue() },
	},
	"minersc.GlobalNode": {
		make: func(r *rand.Rand) cacheable {
			gn := &minersc.GlobalNode{}
			fill(reflect.ValueOf(gn).Elem(), r, 0)
			gn.PrevMagicBlock = nil // a magic block only encodes with real node public keys; not populated here
			return gn
		},
		empty: func() cacheable { return &minersc.GlobalNode{} },
	},
	"minersc.MinerNode": {
		make: func(r *rand.Rand) cacheable {
			mn := minersc.NewMinerNode()
			fill(reflect.ValueOf(mn).Elem(), r, 0)
			if mn.StakePool != nil && len(mn.StakePool.Pools) == 0 {
				mn.StakePool.Pools = map[string]*stakepool.DelegatePool{"d1": {Balance: 5, DelegateID: "d1"}}
			}
			return mn
		},
		empty: func() cacheable { return minersc.NewMinerNode() },
	},
	"storagesc.StorageAllocation": {
		make: func(r *rand.Rand) cacheable {
			sa := &storagesc.StorageAllocation{}
			ver := []string{"", `"version":"v2",`}[r.Intn(2)]
			js := fmt.Sprintf(`{%s"id":"alloc%d","tx":"t","data_shards":2,"parity_shards":1,"size":%d,"owner_id":"o","preferred_blobbers":["p1","p2"],
 "stats":{"used_size":%d,"num_of_writes":3},"blobber_details":[{"blobber_id":"b1","size":10,"allocation_id":"alloc","stats":{"used_size":1},
 "terms":{"read_price":1,"write_price":2},"last_write_marker":{"allocation_root":"r","size":5}},{"blobber_id":"b2","size":20}],"write_pool":%d}`,
				ver, r.Intn(9), 1000+r.Intn(1000), r.Intn(500), r.Intn(50))
			if err := sa.Decode([]byte(js)); err != nil {
				panic("allocation sample: " + err.Error())
			}
			return sa
		},
		empty: func() cacheable { return &storagesc.StorageAllocation{} },
	},
	"storagesc.Config": {
		make: func(r *rand.Rand) cacheable {
			c := &storagesc.Config{}
			fill(reflect.ValueOf(c).Elem(), r, 0)
			return c
		},
		empty: func() cacheable { return &storagesc.Config{} },
	},
}

func settable(v reflect.Value) reflect.Value {
	if v.CanSet() {
		return v
	}
	if v.CanAddr() {
		return reflect.NewAt(v.Type(), unsafe.Pointer(v.UnsafeAddr())).Elem()
	}
	return v
}

// fill populates every field reachable without interfaces: numbers, strings, bools, 1-2 elements per slice and
// map, allocated pointers (depth-bounded).
func fill(v reflect.Value, r *rand.Rand, depth int) {
	v = settable(v)
	if !v.CanSet() || depth > 6 {
		return
	}
	switch v.Kind() {
	case reflect.Bool:
		v.SetBool(r.Intn(2) == 0)
	case reflect.Int, reflect.Int8, reflect.Int16, reflect.Int32, reflect.Int64:
		v.SetInt(int64(1 + r.Intn(100)))
	case reflect.Uint, reflect.Uint8, reflect.Uint16, reflect.Uint32, reflect.Uint64:
		v.SetUint(uint64(1 + r.Intn(100)))
	case reflect.Float32, reflect.Float64:
		v.SetFloat(float64(1+r.Intn(100)) / 4)
	case reflect.String:
		v.SetString("s" + strconv.Itoa(r.Intn(1000)))
	case reflect.Ptr:
		if v.IsNil() {
			v.Set(reflect.New(v.Type().Elem()))
		}
		fill(v.Elem(), r, depth+1)
	case reflect.Struct:
		for i := 0; i < v.NumField(); i++ {
			fill(v.Field(i), r, depth+1)
		}
	case reflect.Slice:
		n := 1 + r.Intn(2)
		s := reflect.MakeSlice(v.Type(), n, n)
		for i := 0; i < n; i++ {
			fill(s.Index(i), r, depth+1)
		}
		v.Set(s)
	case reflect.Map:
		m := reflect.MakeMap(v.Type())
		for i := 0; i < 1+r.Intn(2); i++ {
			k := reflect.New(v.Type().Key()).Elem()
			fill(k, r, depth+1)
			e := reflect.New(v.Type().Elem()).Elem()
			fill(e, r, depth+1)
			m.SetMapIndex(k, e)
		}
		v.Set(m)
	}
}

// mutate changes, in place, everything reachable from v (through pointers, slices, maps, interfaces): the writes a
// contract may do on an object it was handed.
func mutate(v reflect.Value, depth int, seen map[uintptr]bool) {
	if depth > 8 {
		return
	}
	switch v.Kind() {
	case reflect.Interface:
		if !v.IsNil() {
			mutate(v.Elem(), depth+1, seen)
		}
		return
	case reflect.Ptr:
		if v.IsNil() || seen[v.Pointer()] {
			return
		}
		seen[v.Pointer()] = true
		mutate(v.Elem(), depth+1, seen)
		return
	}
	v = settable(v)
	switch v.Kind() {
	case reflect.Bool:
		if v.CanSet() {
			v.SetBool(!v.Bool())
		}
	case reflect.Int, reflect.Int8, reflect.Int16, reflect.Int32, reflect.Int64:
		if v.CanSet() {
			v.SetInt(v.Int() + 7)
		}
	case reflect.Uint, reflect.Uint8, reflect.Uint16, reflect.Uint32, reflect.Uint64:
		if v.CanSet() {
			v.SetUint(v.Uint() + 7)
		}
	case reflect.Float32, reflect.Float64:
		if v.CanSet() {
			v.SetFloat(v.Float() + 1.5)
		}
	case reflect.String:
		if v.CanSet() {
			v.SetString(v.String() + "~")
		}
	case reflect.Struct:
		for i := 0; i < v.NumField(); i++ {
			mutate(v.Field(i), depth+1, seen)
		}
	case reflect.Slice, reflect.Array:
		for i := 0; i < v.Len(); i++ {
			mutate(v.Index(i), depth+1, seen)
		}
	case reflect.Map:
		for _, k := range v.MapKeys() {
			e := v.MapIndex(k)
			if e.Kind() == reflect.Ptr || e.Kind() == reflect.Interface {
				mutate(e, depth+1, seen)
			} else {
				ne := reflect.New(e.Type()).Elem()
				ne.Set(e)
				mutate(ne, depth+1, seen)
				v.SetMapIndex(k, ne)
			}
		}
	}
}

// what a fresh trie read of the object yields: decode(encode(x))
func trieImage(tc typeCase, x cacheable) (cacheable, error) {
	b, err := x.MarshalMsg(nil)
	if err != nil {
		return nil, err
	}
	y := tc.empty()
	if _, err := y.UnmarshalMsg(b); err != nil {
		return nil, err
	}
	return y, nil
}

func sameImage(tc typeCase, a, b cacheable) bool {
	ia, e1 := trieImage(tc, a)
	ib, e2 := trieImage(tc, b)
	return e1 == nil && e2 == nil && reflect.DeepEqual(ia, ib)
}

// typecheck: the object inserted, mutated afterwards; every object handed out by the cache, mutated afterwards;
// through the transaction cache, the block cache and the state cache.
func typecheck(name string, seed int64) string {
	tc, ok := typeCases[name]
	if !ok {
		return "bad-op"
	}
	r := rand.New(rand.NewSource(seed))
	x := tc.make(r)
	x0, err := trieImage(tc, x)
	if err != nil {
		return "fail encode " + err.Error()
	}
	if !sameImage(tc, x0, x) {
		return "fail encode-not-idempotent"
	}
	sc := statecache.NewStateCache()
	bc := statecache.NewBlockCache(sc, statecache.Block{Round: 1, Hash: "tb1", PrevHash: "tb0"})
	txc := statecache.NewTransactionCache(bc)
	const key = "typecheck"
	txc.Set(key, x) // InsertTrieNode's cache.Set
	mutate(reflect.ValueOf(x), 0, map[uintptr]bool{})
	read := func(stage string, c *statecache.TransactionCache) string {
		for round := 0; round < 2; round++ {
			cv, ok := c.Get(key)
			if !ok {
				return "fail " + stage + "-miss"
			}
			z := tc.empty()
			if !z.CopyFrom(cv) { // GetTrieNode's CopyFrom
				return "fail " + stage + "-copyfrom-refused"
			}
			if !sameImage(tc, z, x0) {
				if round == 0 {
					return "fail " + stage + "-lossy"
				}
				return "fail " + stage + "-aliased"
			}
			// the caller now mutates what it was handed; so does whoever still holds the cached clone
			mutate(reflect.ValueOf(z), 0, map[uintptr]bool{})
			mutate(reflect.ValueOf(cv), 0, map[uintptr]bool{})
		}
		return ""
	}
	if s := read("txn", txc); s != "" {
		return s
	}
	txc.Commit()
	if s := read("block", statecache.NewTransactionCache(bc)); s != "" {
		return s
	}
	bc.Commit()
	bc2 := statecache.NewBlockCache(sc, statecache.Block{Round: 2, Hash: "tb2", PrevHash: "tb1"})
	if s := read("state", statecache.NewTransactionCache(bc2)); s != "" {
		return s
	}
	bc2.Commit()
	bc3 := statecache.NewBlockCache(sc, statecache.Block{Round: 3, Hash: "tb3", PrevHash: "tb2"})
	if s := read("state-ancestor", statecache.NewTransactionCache(bc3)); s != "" {
		return s
	}
	return "ok"
}

// every `func (x *T) Clone() statecache.Value` of the repository sources
func scanCacheableTypes() ([]string, error) {
	root := filepath.Join(engine.RepoRoot(), "code/go/0chain.net")
	var found []string
	fset := token.NewFileSet()
	err := filepath.Walk(root, func(path string, info os.FileInfo, err error) error {
		if err != nil {
			return err
		}
		if info.IsDir() || !strings.HasSuffix(path, ".go") || strings.HasSuffix(path, "_test.go") {
			return nil
		}
		src, err := os.ReadFile(path)
		if err != nil {
			return err
		}
		if !strings.Contains(string(src), "statecache.Value") {
			return nil
		}
		f, err := parser.ParseFile(fset, path, src, 0)
		if err != nil {
			return err
		}
		for _, d := range f.Decls {
			fd, ok := d.(*ast.FuncDecl)
			if !ok || fd.Name.Name != "Clone" || fd.Recv == nil || fd.Type.Results == nil || len(fd.Type.Results.List) != 1 {
				continue
			}
			sel, ok := fd.Type.Results.List[0].Type.(*ast.SelectorExpr)
			if !ok || sel.Sel.Name != "Value" {
				continue
			}
			if id, ok := sel.X.(*ast.Ident); !ok || id.Name != "statecache" {
				continue
			}
			t := fd.Recv.List[0].Type
			if st, ok := t.(*ast.StarExpr); ok {
				t = st.X
			}
			if id, ok := t.(*ast.Ident); ok {
				found = append(found, f.Name.Name+"."+id.Name)
			}
		}
		return nil
	})
	sort.Strings(found)
	return found, err
}

// ---- generator ---------------------------------------------------------------------------------------

func genEngine(r *rand.Rand, thorough bool) []string {
	ops := []string{"reset", "ereset"}
	n := 20 + r.Intn(40)
	if thorough {
		n = 20 + r.Intn(150)
	}
	nk := 2 + r.Intn(4)
	for len(ops) < n {
		switch x := r.Intn(20); {
		case x < 1:
			ops = append(ops, fmt.Sprintf("ewritebig %d %d", r.Intn(nk), r.Intn(1000)))
		case x < 6:
			ops = append(ops, fmt.Sprintf("ewrite %d %d", r.Intn(nk), r.Intn(1000)))
		case x < 10:
			ops = append(ops, fmt.Sprintf("ewritefail %d %d", r.Intn(nk), r.Intn(1000)))
		case x < 12:
			ops = append(ops, fmt.Sprintf("edel %d", r.Intn(nk)))
		case x < 18:
			ops = append(ops, fmt.Sprintf("eread %d", r.Intn(nk)))
		default:
			ops = append(ops, "eblock")
		}
	}
	return ops
}

func gen(r *rand.Rand, thorough bool, i int) []string {
	if i%5 == 4 {
		return genEngine(r, thorough)
	}
	ops := []string{"reset"}
	n := 40 + r.Intn(80)
	if thorough {
		n = 40 + r.Intn(400)
	}
	nk := 2 + r.Intn(5)
	linear := r.Intn(3) == 0 // a third of the cases: one chain, reads only at its tip
	committed := []int{0}
	next := 1
	open, intx := false, false
	curH := 0
	var pendingH []int
	pendingP := map[int]int{}
	tip := 0
	key := func() int { return r.Intn(nk) }
	for len(ops) < n {
		switch {
		case !open:
			if !linear && len(committed) > 1 && r.Intn(4) == 0 {
				h := committed[r.Intn(len(committed))]
				if r.Intn(2) == 0 && len(committed) > 2 {
					h = committed[len(committed)-2-r.Intn(min(3, len(committed)-1))]
				}
				ops = append(ops, fmt.Sprintf("query %d %d", h, key()))
				continue
			}
			if linear && r.Intn(5) == 0 {
				ops = append(ops, fmt.Sprintf("query %d %d", tip, key()))
				continue
			}
			if len(pendingH) > 0 && r.Intn(2) == 0 {
				h := pendingH[len(pendingH)-1]
				pendingH = pendingH[:len(pendingH)-1]
				ops = append(ops, fmt.Sprintf("cretry %d", h))
				committed = append(committed, h)
				if pendingP[h] == tip {
					tip = h
				}
				continue
			}
			if r.Intn(5) == 0 && (!linear || len(pendingH) == 0) {
				p := tip
				if !linear && r.Intn(3) == 0 {
					p = committed[r.Intn(len(committed))]
				}
				h := next
				next++
				nt := 1 + r.Intn(4)
				var txns []string
				for a := 0; a < nt; a++ {
					var prims []string
					for b := 0; b < 1+r.Intn(3); b++ {
						switch y := r.Intn(12); {
						case y < 5:
							prims = append(prims, fmt.Sprintf("i:%d:%d", key(), r.Intn(1000)))
						case y < 6:
							prims = append(prims, fmt.Sprintf("d:%d", key()))
						case y < 9:
							prims = append(prims, fmt.Sprintf("g:%d", key()))
						case y < 10:
							prims = append(prims, fmt.Sprintf("x:%d", key()))
						case y < 11:
							prims = append(prims, fmt.Sprintf("y:%d", key()))
						default:
							prims = append(prims, fmt.Sprintf("b:%d:%d", key(), r.Intn(1000)))
						}
					}
					txns = append(txns, strings.Join(prims, ","))
				}
				stop := "-"
				if r.Intn(2) == 0 {
					stop = fmt.Sprintf("%s%d", []string{"c", "f"}[r.Intn(2)], r.Intn(nt+1))
				}
				ops = append(ops, fmt.Sprintf("cblock %d %d %s %s", h, p, stop, strings.Join(txns, ";")))
				if stop != "-" && atoiOr(stop[1:], 0) < nt {
					pendingH = append(pendingH, h)
					pendingP[h] = p
				} else {
					committed = append(committed, h)
					if p == tip {
						tip = h
					}
				}
				continue
			}
			p := tip
			if !linear && r.Intn(3) == 0 {
				p = committed[r.Intn(len(committed))]
				if r.Intn(2) == 0 && len(committed) > 1 {
					p = committed[len(committed)-1-r.Intn(min(3, len(committed)))]
				}
			}
			h := next
			next++
			if !linear && r.Intn(40) == 0 && len(committed) > 1 {
				h = committed[1+r.Intn(len(committed)-1)] // the same block hash computed again
			}
			ops = append(ops, fmt.Sprintf("begin %d %d", h, p))
			open = true
			curH = h
		case !intx:
			switch x := r.Intn(10); {
			case x < 7:
				ops = append(ops, "tx")
				intx = true
			case x < 9:
				ops = append(ops, "bcommit")
				open = false
				if !contains(committed, curH) {
					committed = append(committed, curH)
				}
				tip = curH
			default:
				if linear {
					continue
				}
				ops = append(ops, "babort")
				open = false
			}
		default:
			switch x := r.Intn(20); {
			case x < 6 && r.Intn(4) == 0:
				ops = append(ops, fmt.Sprintf("get%s %d", []string{"x", "y"}[r.Intn(2)], key()))
			case x < 6:
				ops = append(ops, fmt.Sprintf("get %d", key()))
			case x < 8:
				ops = append(ops, fmt.Sprintf("probe %d", key()))
			case x < 13:
				if r.Intn(12) == 0 {
					ops = append(ops, fmt.Sprintf("insbig %d %d", key(), r.Intn(1000)))
				} else {
					ops = append(ops, fmt.Sprintf("ins %d %d", key(), r.Intn(1000)))
				}
			case x < 15:
				ops = append(ops, fmt.Sprintf("del %d", key()))
			case x < 18:
				ops = append(ops, "commit")
				intx = false
			default:
				ops = append(ops, "discard")
				intx = false
			}
		}
	}
	if r.Intn(4) == 0 {
		names := make([]string, 0, len(typeCases))
		for k := range typeCases {
			names = append(names, k)
		}
		sort.Strings(names)
		ops = append(ops, fmt.Sprintf("typecheck %s %d", names[r.Intn(len(names))], r.Intn(100000)))
	}
	if r.Intn(25) == 0 {
		ops = append(ops, fmt.Sprintf("scenario partitions-oversize %d", r.Intn(100000)))
	}
	if r.Intn(30) == 0 {
		bad := []string{"cblock 90 0 - i:1", "cblock 91 0 q1 i:1:1", "cretry 77", "insbig 1", "getx", "scenario nosuch 1", "get", "ins 1", "begin 1", "frob 1", "query 1", "get x", "ins 1 99999999999", "typecheck nosuch.Type 1"}
		ops = append(ops, bad[r.Intn(len(bad))])
	}
	return ops
}

func contains(xs []int, x int) bool {
	for _, y := range xs {
		if y == x {
			return true
		}
	}
	return false
}

// ---- oracle: cached read = fresh uncached read; independent reference tries ------------------------------

type refTrie map[int]int

func cp(t refTrie) refTrie {
	n := refTrie{}
	for k, v := range t {
		n[k] = v
	}
	return n
}

func oracle(ops, outs []string) *corr.Violation {
	mk := func(i int, sig, msg string) *corr.Violation {
		return &corr.Violation{Signature: "C07:" + sig, Message: fmt.Sprintf("op %d %q answered %q: %s", i, ops[i], outs[i], msg), Ops: ops, Impl: outs}
	}
	tries := map[int]refTrie{0: {}}
	parent := map[int]int{}
	children := map[int]int{}
	type ex struct {
		h, p      int
		trie, txn refTrie
		intx      bool
	}
	var cur *ex
	// wiped[k]: key k was looked up at a block that already had a computed child (the trigger of the recorded finding)
	wiped := map[int]bool{}
	refused := map[int]map[int]bool{} // values of inserts the trie refused, per key
	type pend struct {
		p      int
		script string
	}
	pending := map[int]pend{}
	discarded := map[int]map[int]bool{}
	etrie, efailed, ebig := refTrie{}, map[int]map[int]bool{}, map[int]map[int]bool{}
	show := func(t refTrie, k int) string {
		if v, ok := t[k]; ok {
			return strconv.Itoa(v)
		}
		return "absent"
	}
	ancestorServes := func(h, k int, val string) bool {
		for a, ok := parent[h]; ok; a, ok = parent[a] {
			if show(tries[a], k) == val {
				return true
			}
		}
		return false
	}
	for i, op := range ops {
		f := strings.Fields(op)
		out := outs[i]
		if len(f) == 0 || out == "bad-op" || out == "bad" {
			continue
		}
		if strings.HasPrefix(out, "panic") || strings.HasPrefix(out, "error:") {
			return mk(i, "unexpected-error", "the operation must not fail")
		}
		arg := func(k int) int { v, _ := strconv.Atoi(f[k]); return v }
		checkRead := func(readAt int, t refTrie, k int) *corr.Violation {
			w := strings.Fields(out)
			// "val X ref Y" | "absent ref Y"
			got, ref := "", ""
			switch {
			case len(w) == 4 && w[0] == "val" && w[2] == "ref":
				got, ref = w[1], w[3]
			case len(w) == 3 && w[0] == "absent" && w[1] == "ref":
				got, ref = "absent", w[2]
			default:
				return mk(i, "unparsable-read", "read answers must be 'val X ref Y' or 'absent ref Y'")
			}
			if want := show(t, k); ref != want {
				return mk(i, "trie-read-differs-from-reference", fmt.Sprintf("the uncached trie read gives %s, the reference map %s", ref, want))
			}
			if got != ref {
				switch {
				case refused[k][atoiOr(strings.TrimSuffix(got, "-oversized"), -1)] && !ancestorServes(readAt, k, got):
					return mk(i, "refused-insert-value-served", fmt.Sprintf("cached read %s, trie %s: the value comes from an insert the trie refused", got, ref))
				case discarded[k][atoiOr(got, -1)] && !ancestorServes(readAt, k, got):
					return mk(i, "discarded-txn-value-served", fmt.Sprintf("cached read %s, trie %s: the value was only written by a discarded transaction", got, ref))
				case wiped[k] && ancestorServes(readAt, k, got):
					return mk(i, "stale-ancestor-value-after-read-at-older-block", fmt.Sprintf("cached read %s, trie %s: the state cache served the value of an ancestor block although a nearer block changed the key (its entry was dropped when the key was read at a block that already had a computed child)", got, ref))
				default:
					return mk(i, "cached-read-differs-from-trie", fmt.Sprintf("cached read %s, trie %s", got, ref))
				}
			}
			return nil
		}
		switch f[0] {
		case "reset":
			tries, parent, children, cur = map[int]refTrie{0: {}}, map[int]int{}, map[int]int{}, nil
			discarded, wiped, refused, pending = map[int]map[int]bool{}, map[int]bool{}, map[int]map[int]bool{}, map[int]pend{}
		case "begin":
			if out != "ok" {
				return mk(i, "unexpected-answer", "begin must succeed")
			}
			cur = &ex{h: arg(1), p: arg(2), trie: cp(tries[arg(2)])}
		case "tx":
			cur.txn, cur.intx = cp(cur.trie), true
		case "ins":
			cur.txn[arg(1)] = arg(2)
			if discarded[arg(1)] == nil {
				discarded[arg(1)] = map[int]bool{}
			}
		case "del":
			_, in := cur.txn[arg(1)]
			if (out == "ok") != in {
				return mk(i, "delete-answer", fmt.Sprintf("key present in the reference trie: %v", in))
			}
			delete(cur.txn, arg(1))
		case "commit":
			cur.trie, cur.intx = cur.txn, false
		case "discard":
			for k, v := range cur.txn {
				if ov, ok := cur.trie[k]; !ok || ov != v {
					if discarded[k] == nil {
						discarded[k] = map[int]bool{}
					}
					discarded[k][v] = true
				}
			}
			cur.intx = false
		case "bcommit":
			if _, done := tries[cur.h]; !done {
				tries[cur.h] = cur.trie
				parent[cur.h] = cur.p
				children[cur.p]++
			}
			cur = nil
		case "babort":
			cur = nil
		case "insbig":
			if out != "toobig" {
				return mk(i, "oversized-insert-answer", "the trie must refuse a value above its node size limit")
			}
			if refused[arg(1)] == nil {
				refused[arg(1)] = map[int]bool{}
			}
			if v, ok := cur.txn[arg(1)]; !ok || v != arg(2) {
				refused[arg(1)][arg(2)] = true
			}
		case "get", "getx", "gety":
			if children[cur.p] > 0 {
				wiped[arg(1)] = true
			}
			if v := checkRead(cur.p, cur.txn, arg(1)); v != nil {
				// the read block is cur (not yet computed): ancestors start at its parent
				return v
			}
		case "probe":
			if children[cur.p] > 0 {
				wiped[arg(1)] = true
			}
			if strings.HasPrefix(out, "hit ") {
				got := strings.Join(strings.Fields(out)[1:], "-")
				if want := show(cur.txn, arg(1)); got != want {
					if refused[arg(1)][atoiOr(strings.TrimSuffix(got, "-oversized"), -1)] {
						return mk(i, "refused-insert-value-served", fmt.Sprintf("cache hit %s, trie %s: the value comes from an insert the trie refused", got, want))
					}
					if wiped[arg(1)] && (ancestorServes(cur.p, arg(1), got) || show(tries[cur.p], arg(1)) == got) {
						return mk(i, "stale-ancestor-value-after-read-at-older-block", fmt.Sprintf("cache hit %s, trie %s", got, want))
					}
					return mk(i, "cached-read-differs-from-trie", fmt.Sprintf("cache hit %s, trie %s", got, want))
				}
			}
		case "query":
			if children[arg(1)] > 0 {
				wiped[arg(2)] = true
			}
			if v := checkRead(arg(1), tries[arg(1)], arg(2)); v != nil {
				return v
			}
		case "cblock", "cretry":
			var h, p int
			var script string
			stop := -1
			want := "ok"
			if f[0] == "cblock" {
				h, p, script = arg(1), arg(2), f[4]
				if f[3] != "-" {
					stop, _ = strconv.Atoi(f[3][1:])
					if stop < len(strings.Split(script, ";")) {
						want = map[byte]string{'c': "cancelled", 'f': "failed"}[f[3][0]]
					} else {
						stop = -1
					}
				}
			} else {
				h = arg(1)
				p, script = pending[h].p, pending[h].script
			}
			if out != want {
				return mk(i, "compute-state-answer", "ComputeState must answer "+want)
			}
			t := cp(tries[p])
			for ti, txn := range strings.Split(script, ";") {
				if stop >= 0 && ti >= stop {
					break
				}
				for _, prim := range strings.Split(txn, ",") {
					x := strings.Split(prim, ":")
					k, _ := strconv.Atoi(x[1])
					switch x[0] {
					case "i":
						t[k], _ = strconv.Atoi(x[2])
					case "d":
						delete(t, k)
					case "b":
						v, _ := strconv.Atoi(x[2])
						if refused[k] == nil {
							refused[k] = map[int]bool{}
						}
						if ov, ok := t[k]; !ok || ov != v {
							refused[k][v] = true
						}
					default:
						if children[p] > 0 {
							wiped[k] = true
						}
					}
				}
			}
			if want == "ok" {
				tries[h], parent[h] = t, p
				children[p]++
				delete(pending, h)
			} else {
				pending[h] = pend{p, script}
			}
		case "scenario":
			if out != "ok" {
				return mk(i, "scenario-"+f[1]+"-"+strings.Join(strings.Fields(strings.TrimPrefix(out, "fail "))[:1], ""), "a real Partitions whose Save the trie refused is read differently through the caches and from the trie: "+out)
			}
		case "ewritebig":
			if out != "ok" {
				return mk(i, "engine-write-failed", "a contract call that tolerates a refused insert is applied")
			}
			if efailed[arg(1)] == nil {
				efailed[arg(1)] = map[int]bool{}
			}
			if v, ok := etrie[arg(1)]; !ok || v != arg(2) {
				efailed[arg(1)][arg(2)] = true
			}
		case "ereset":
			etrie, efailed, ebig = refTrie{}, map[int]map[int]bool{}, map[int]map[int]bool{}
		case "eblock":
		case "ewrite":
			if out != "ok" {
				return mk(i, "engine-write-failed", "a contract call that only inserts a node must be applied")
			}
			etrie[arg(1)] = arg(2)
		case "ewritefail":
			if out != "failed" {
				return mk(i, "engine-failure-not-charged", "a contract error after a write is a chargeable error: status TxnError")
			}
			if efailed[arg(1)] == nil {
				efailed[arg(1)] = map[int]bool{}
			}
			if v, ok := etrie[arg(1)]; !ok || v != arg(2) {
				efailed[arg(1)][arg(2)] = true
			}
		case "edel":
			_, in := etrie[arg(1)]
			if (out == "ok") != in {
				return mk(i, "engine-delete-answer", fmt.Sprintf("key present in the reference trie: %v", in))
			}
			delete(etrie, arg(1))
		case "eread":
			w := strings.Fields(out)
			got, ref := "", ""
			switch {
			case len(w) == 4 && w[0] == "val" && w[2] == "ref":
				got, ref = w[1], w[3]
			case len(w) == 3 && w[0] == "absent" && w[1] == "ref":
				got, ref = "absent", w[2]
			default:
				return mk(i, "unparsable-read", "read answers must be 'val X ref Y' or 'absent ref Y'")
			}
			if want := show(etrie, arg(1)); ref != want {
				return mk(i, "trie-read-differs-from-reference", fmt.Sprintf("the trie holds %s, the reference map %s", ref, want))
			}
			if got != ref {
				if ebig[arg(1)][atoiOr(strings.TrimSuffix(got, "-oversized"), -1)] {
					return mk(i, "refused-insert-value-served", fmt.Sprintf("a contract read %s through the caches, the trie holds %s: the value comes from an insert the trie refused", got, ref))
				}
				if efailed[arg(1)][atoiOr(got, -1)] {
					return mk(i, "failed-txn-left-trace", fmt.Sprintf("a contract read %s through the caches, the trie holds %s: the value was written by a transaction that failed", got, ref))
				}
				return mk(i, "cached-read-differs-from-trie", fmt.Sprintf("a contract read %s through the caches, the trie holds %s", got, ref))
			}
		case "typecheck":
			if out != "ok" {
				return mk(i, "type-"+f[1]+"-"+strings.ReplaceAll(strings.TrimPrefix(out, "fail "), " ", "-"), "Clone/CopyFrom of this cacheable type loses data or shares memory with the cached object")
			}
		}
	}
	return nil
}

func atoiOr(s string, d int) int {
	n, err := strconv.Atoi(s)
	if err != nil {
		return d
	}
	return n
}

func main() {
	engine.Setup()
	smartcontract.ContractMap[c07Address] = c07Contract{}
	found, err := scanCacheableTypes()
	if err != nil {
		fmt.Fprintln(os.Stderr, "scan of cacheable types failed:", err)
		os.Exit(3)
	}
	for _, t := range found {
		if _, ok := typeCases[t]; !ok {
			fmt.Fprintf(os.Stderr, "cacheable type %s (implements statecache.Value) is not covered by the C07 round-trip/aliasing checks\n", t)
			os.Exit(3)
		}
	}
	if len(found) == 0 {
		fmt.Fprintln(os.Stderr, "scan of cacheable types found nothing: scanner broken")
		os.Exit(3)
	}
	var fixed [][]string
	var tnames []string
	for k := range typeCases {
		tnames = append(tnames, k)
	}
	sort.Strings(tnames)
	tc := []string{"reset"}
	for _, k := range tnames {
		for s := 1; s <= 3; s++ {
			tc = append(tc, fmt.Sprintf("typecheck %s %d", k, s))
		}
	}
	fixed = append(fixed, tc,
		// linear: insert, overwrite, delete, failed transaction, read at the tip
		[]string{"reset", "begin 1 0", "tx", "ins 1 10", "get 1", "commit", "tx", "ins 1 11", "probe 1", "discard", "tx", "get 1", "probe 1", "commit", "bcommit",
			"begin 2 1", "tx", "get 1", "del 1", "get 1", "commit", "bcommit", "query 2 1", "begin 3 2", "tx", "get 1", "ins 1 5", "commit", "bcommit", "query 3 1"},
		// the recorded finding: a read at block 2 (which has the computed child 3) drops block 3's entry
		[]string{"reset", "begin 1 0", "tx", "ins 7 10", "commit", "bcommit", "begin 2 1", "bcommit", "begin 3 2", "tx", "ins 7 11", "commit", "bcommit",
			"query 2 7", "begin 5 3", "tx", "get 7"},
		// same through a sibling block instead of a query
		[]string{"reset", "begin 1 0", "tx", "ins 7 10", "commit", "bcommit", "begin 2 1", "bcommit", "begin 3 2", "tx", "ins 7 11", "commit", "bcommit",
			"begin 4 2", "tx", "get 7", "commit", "bcommit", "begin 5 3", "tx", "get 7", "probe 7"},
	)
	fixed = append(fixed,
		// through the real Chain.UpdateState: a failing contract call writes first; the next read must not see it
		[]string{"reset", "ereset", "ewrite 1 10", "eread 1", "ewritefail 1 11", "eread 1", "eblock", "eread 1", "ewritefail 2 5", "eread 2",
			"edel 1", "eread 1", "edel 1", "eblock", "eread 1", "ewrite 1 7", "eblock", "eblock", "eread 1"})
	fixed = append(fixed,
		// an insert the trie refuses (oversized value): same transaction, after a tolerated commit, next transaction, next block
		[]string{"reset", "begin 1 0", "tx", "ins 1 10", "commit", "tx", "insbig 1 77", "get 1", "probe 1", "getx 1", "gety 1", "commit", "tx", "get 1", "probe 1", "commit",
			"tx", "insbig 2 5", "get 2", "commit", "bcommit", "begin 2 1", "tx", "get 1", "get 2", "commit", "bcommit", "query 2 1", "query 2 2"},
		// … through the real Chain.UpdateState with a contract that tolerates the error, and a real Partitions head over the limit
		[]string{"reset", "ereset", "ewrite 1 10", "ewritebig 1 77", "eread 1", "eblock", "eread 1", "ewritebig 2 5", "eread 2", "eblock", "eread 2",
			"scenario partitions-oversize 1", "scenario partitions-oversize 2"},
		// a block whose ComputeState is interrupted after 1 of 2 transactions (cancelled, then failed), then computed again;
		// reads at it and at its child, for the key written before and the key written after the interruption
		[]string{"reset", "cblock 1 0 - i:1:10;i:2:20", "cblock 2 1 c1 g:1,i:1:11;g:2,i:2:21", "cretry 2", "query 2 1", "query 2 2",
			"cblock 3 2 - g:1,g:2,i:3:1", "query 3 2", "begin 4 3", "tx", "get 2", "probe 2", "getx 2", "commit", "bcommit",
			"cblock 5 4 f0 i:2:22", "cblock 6 4 f1 i:1:12;b:2:9,i:2:23;d:1", "cretry 6", "query 6 1", "query 6 2", "cretry 5", "query 5 2"})
	corr.Main(corr.Prop{
		ID: "C07", Model: "C07", Gen: gen, Impl: impl, Oracle: oracle, Serial: false,
		Cases: func(th bool) int {
			if th {
				return 5000
			}
			return 500
		},
		Fixed: fixed,
		Extra: func() map[string]interface{} {
			return map[string]interface{}{"cacheable_types_in_sources": found, "cacheable_types_covered": tnames}
		},
	})
}
