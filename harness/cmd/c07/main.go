// C07 harness: the real statecache (StateCache / BlockCache / TransactionCache / QueryBlockCache) and the real
// StateContext.GetTrieNode / InsertTrieNode / DeleteTrieNode over real MPTs against Model/StateCache.lean.
//
// Part 1 (line protocol, compared with the model): a tree of blocks over one node DB; a block execution with its
// block cache, transactions with their transaction cache + transaction MPT (committed with MergeMPTChanges +
// TransactionCache.Commit, or dropped), BlockCache.Commit when the block state is computed, reads through
// QueryBlockCache at computed blocks. Every read answers what came through the caches AND a fresh uncached read
// (cloned MPT with an empty cache, new state context) of the same trie.
// Part 2 (`typecheck <type> <seed>`, validated on the real code only — the model has no memory aliasing): for
// every type of /repo that implements statecache.Value, Clone/CopyFrom round trips and aliasing through the real
// cache layers, with instances filled by reflection. A static scan of the sources fails the run when a cacheable
// type exists that part 2 does not cover.
package main

import (
	"encoding/json"
	"errors"
	"fmt"
	"go/ast"
	"go/parser"
	"go/token"
	"math/rand"
	"os"
	"path/filepath"
	"reflect"
	"sort"
	"strconv"
	"strings"
	"sync/atomic"
	"unsafe"

	"0chain.net/chaincore/block"
	"0chain.net/chaincore/chain"
	cstate "0chain.net/chaincore/chain/state"
	"0chain.net/chaincore/smartcontract"
	sci "0chain.net/chaincore/smartcontractinterface"
	"0chain.net/chaincore/transaction"
	"0chain.net/core/encryption"
	"0chain.net/smartcontract/minersc"
	"0chain.net/smartcontract/partitions"
	"0chain.net/smartcontract/stakepool"
	"0chain.net/smartcontract/storagesc"
	"context"
	"net/url"

	"github.com/0chain/common/core/currency"
	"github.com/0chain/common/core/statecache"
	"github.com/0chain/common/core/util"
	"verifharness/lib/corr"
	"verifharness/lib/engine"
)

// ---- the value stored in the trie in part 1 ---------------------------------------------------------

type cval struct{ N int }

func (c *cval) MarshalMsg(b []byte) ([]byte, error) { return append(b, []byte("v"+strconv.Itoa(c.N))...), nil }
func (c *cval) UnmarshalMsg(b []byte) ([]byte, error) {
	s := string(b)
	if !strings.HasPrefix(s, "v") {
		return nil, fmt.Errorf("cval: bad bytes %q", s)
	}
	n, err := strconv.Atoi(s[1:])
	c.N = n
	return nil, err
}
func (c *cval) Clone() statecache.Value { return &cval{N: c.N} }
func (c *cval) CopyFrom(v interface{}) bool {
	o, ok := v.(*cval)
	if ok {
		c.N = o.N
	}
	return ok
}

func keyName(k int) string { return "c07key" + strconv.Itoa(k) }
func blkName(h int) string { return "c07blk" + strconv.Itoa(h) }

// ---- part 1: the world ------------------------------------------------------------------------------

type blk struct {
	b     *block.Block
	state util.MerklePatriciaTrieI
}

type txn struct {
	tc   *statecache.TransactionCache
	mpt  util.MerklePatriciaTrieI
	sctx *cstate.StateContext
}

type exec struct {
	h, p  int
	b     *block.Block
	state util.MerklePatriciaTrieI
	bc    *statecache.BlockCache
	t     *txn
}

type world struct {
	c      *chain.Chain
	sc     *statecache.StateCache
	ndb    util.NodeDB
	blocks map[int]*blk
	cur    *exec
}

func newWorld() *world {
	w := &world{c: engine.Setup(), sc: statecache.NewStateCache(), ndb: util.NewMemoryNodeDB(), blocks: map[int]*blk{}}
	gb := block.NewBlock("", 0)
	gb.Hash = blkName(0)
	mpt := util.NewMerklePatriciaTrie(w.ndb, 0, nil, statecache.NewEmpty())
	gb.ClientState = mpt
	gb.ClientStateHash = mpt.GetRoot()
	gb.SetStateStatus(block.StateSuccessful)
	w.blocks[0] = &blk{b: gb, state: mpt}
	return w
}

func (w *world) sctxOn(b *block.Block, mpt util.MerklePatriciaTrieI) *cstate.StateContext {
	t := &transaction.Transaction{}
	t.Hash = "c07txn"
	return w.c.NewStateContext(b, mpt, t, nil)
}

func readVal(sctx *cstate.StateContext, k int) string {
	var v cval
	switch err := sctx.GetTrieNode(keyName(k), &v); err {
	case nil:
		return strconv.Itoa(v.N)
	case util.ErrValueNotPresent:
		return "absent"
	default:
		return "error:" + err.Error()
	}
}

// fresh uncached read: a clone of the trie with an empty, isolated cache and a new state context
func (w *world) refRead(b *block.Block, mpt util.MerklePatriciaTrieI, k int) string {
	return readVal(w.sctxOn(b, util.CloneMPT(mpt)), k)
}

func showRead(got, ref string) string {
	if got == "absent" {
		return "absent ref " + ref
	}
	return "val " + got + " ref " + ref
}

func num(s string) (int, bool) {
	if s == "" || len(s) > 9 {
		return 0, false
	}
	for _, c := range s {
		if c < '0' || c > '9' {
			return 0, false
		}
	}
	n, err := strconv.Atoi(s)
	return n, err == nil
}

func (w *world) exec(f []string) string {
	args := make([]int, 0, 2)
	for _, a := range f[1:] {
		n, ok := num(a)
		if !ok {
			return "bad-op"
		}
		args = append(args, n)
	}
	need := map[string]int{"begin": 2, "tx": 0, "get": 1, "probe": 1, "ins": 2, "del": 1, "commit": 0, "discard": 0, "bcommit": 0, "babort": 0, "query": 2}
	if n, ok := need[f[0]]; !ok || n != len(args) {
		return "bad-op"
	}
	switch f[0] {
	case "begin":
		pb := w.blocks[args[1]]
		if w.cur != nil || pb == nil {
			return "bad"
		}
		b := block.NewBlock("", pb.b.Round+1)
		b.Hash = blkName(args[0])
		b.PrevHash = pb.b.Hash
		b.PrevBlock = pb.b
		st := block.CreateStateWithPreviousBlock(pb.b, w.ndb, b.Round)
		b.ClientState = st
		bc := statecache.NewBlockCache(w.sc, statecache.Block{Round: b.Round, Hash: b.Hash, PrevHash: b.PrevHash})
		w.cur = &exec{h: args[0], p: args[1], b: b, state: st, bc: bc}
		return "ok"
	case "query":
		qb := w.blocks[args[0]]
		if qb == nil {
			return "bad"
		}
		qbc := statecache.NewQueryBlockCache(w.sc, qb.b.Hash)
		tbc := statecache.NewTransactionCache(qbc)
		got := readVal(w.sctxOn(qb.b, chain.CreateTxnMPT(qb.state, tbc)), args[1])
		return showRead(got, w.refRead(qb.b, qb.state, args[1]))
	}
	e := w.cur
	if e == nil {
		return "bad"
	}
	switch f[0] {
	case "tx":
		if e.t != nil {
			return "bad"
		}
		tc := statecache.NewTransactionCache(e.bc)
		mpt := chain.CreateTxnMPT(e.state, tc)
		e.t = &txn{tc: tc, mpt: mpt, sctx: w.sctxOn(e.b, mpt)}
		return "ok"
	case "bcommit":
		if e.t != nil {
			return "bad"
		}
		e.bc.Commit()
		if w.blocks[e.h] == nil {
			e.b.ClientStateHash = e.state.GetRoot()
			e.b.SetStateStatus(block.StateSuccessful)
			w.blocks[e.h] = &blk{b: e.b, state: e.state}
		}
		w.cur = nil
		return "ok"
	case "babort":
		w.cur = nil
		return "ok"
	}
	t := e.t
	if t == nil {
		return "bad"
	}
	switch f[0] {
	case "get":
		got := readVal(t.sctx, args[0])
		return showRead(got, w.refRead(e.b, t.mpt, args[0]))
	case "probe":
		cv, ok := t.sctx.Cache().Get(keyName(args[0]))
		if !ok {
			return "miss"
		}
		c, isC := cv.(*cval)
		if !isC {
			return "hit-other"
		}
		return "hit " + strconv.Itoa(c.N)
	case "ins":
		if _, err := t.sctx.InsertTrieNode(keyName(args[0]), &cval{N: args[1]}); err != nil {
			return "error:" + err.Error()
		}
		return "ok"
	case "del":
		switch _, err := t.sctx.DeleteTrieNode(keyName(args[0])); err {
		case nil:
			return "ok"
		case util.ErrValueNotPresent:
			return "absent"
		default:
			return "error:" + err.Error()
		}
	case "commit":
		if err := e.state.MergeMPTChanges(t.mpt); err != nil {
			return "error:" + err.Error()
		}
		t.tc.Commit()
		e.t = nil
		return "ok"
	case "discard":
		e.t = nil
		return "ok"
	}
	return "bad-op"
}


// ---- part 1b: the same caches driven by the real Chain.UpdateState ----------------------------------------
//
// A test contract registered in smartcontract.ContractMap writes / deletes / reads one cacheable node per call and
// may fail after writing; transactions go through engine.World.Exec = Chain.UpdateState (transaction cache created,
// committed only when the transaction is applied, re-created after a chargeable contract error), blocks through
// BlockCache.Commit. Every world uses its own key prefix and its own block hashes (the chain's StateCache is global).

const c07Address = "c07c07c07c07c07c07c07c07c07c07c07c07c07c07c07c07c07c07c07c07c07c0"

type c07Contract struct{}

type c07Input struct {
	Key string `json:"key"`
	V   int    `json:"v"`
}

func (c07Contract) Execute(t *transaction.Transaction, fn string, input []byte, b cstate.StateContextI) (string, error) {
	var in c07Input
	if err := json.Unmarshal(input, &in); err != nil {
		return "", err
	}
	switch fn {
	case "write", "writefail":
		if _, err := b.InsertTrieNode(in.Key, &cval{N: in.V}); err != nil {
			return "", err
		}
		if fn == "writefail" {
			return "", errors.New("c07: deliberate failure after the write")
		}
		return "written", nil
	case "del":
		if _, err := b.DeleteTrieNode(in.Key); err != nil {
			return "", errors.New("c07: delete failed: " + err.Error())
		}
		return "deleted", nil
	case "read":
		var v cval
		switch err := b.GetTrieNode(in.Key, &v); err {
		case nil:
			return strconv.Itoa(v.N), nil
		case util.ErrValueNotPresent:
			return "absent", nil
		default:
			return "", err
		}
	}
	return "", errors.New("c07: unknown function")
}
func (c07Contract) GetHandlerStats(ctx context.Context, params url.Values) (interface{}, error) {
	return nil, nil
}
func (c07Contract) GetExecutionStats() map[string]interface{} { return map[string]interface{}{} }
func (c07Contract) GetName() string                           { return "c07verif" }
func (c07Contract) GetAddress() string                        { return c07Address }
func (c07Contract) GetCostTable(cstate.StateContextI) (map[string]int, error) {
	return map[string]int{"write": 1, "writefail": 1, "del": 1, "read": 1}, nil
}

var _ sci.SmartContractInterface = c07Contract{}

var worldSeq int64

type eworld struct {
	w      *engine.World
	id     int64
	client engine.Client
	nonce  int64
}

func (e *eworld) key(k int) string { return fmt.Sprintf("c07w%dk%d", e.id, k) }

// nextBlock is engine.World.NextBlock with a block hash that is unique in this process
func (e *eworld) nextBlock() {
	w := e.w
	if w.B != nil {
		w.B.ClientStateHash = w.State.GetRoot()
		w.B.SetStateStatus(block.StateSuccessful)
		w.BC.Commit()
		w.Prev = w.B
	}
	w.Round++
	b := block.NewBlock("", w.Round)
	b.Hash = encryption.Hash(fmt.Sprintf("c07-world-%d-block-%d", e.id, w.Round))
	b.PrevHash = w.Prev.Hash
	b.PrevBlock = w.Prev
	b.CreationDate = w.Now
	b.MinerID = engine.NewClient("miner0").ID
	st := block.CreateStateWithPreviousBlock(w.Prev, w.NDB, w.Round)
	b.ClientState = st
	w.B = b
	w.State = st
	w.BC = statecache.NewBlockCache(w.C.GetStateCache(), statecache.Block{Round: b.Round, Hash: b.Hash, PrevHash: b.PrevHash})
}

func newEWorld() *eworld {
	cl := engine.NewClient("c07client")
	w, err := engine.NewWorld(map[string]currency.Coin{cl.ID: 1000e10}, nil)
	if err != nil {
		panic(err)
	}
	e := &eworld{w: w, id: atomic.AddInt64(&worldSeq, 1), client: cl}
	// drop the block NewWorld opened (its hash is derived from a pointer) and open ours
	w.B, w.Round = nil, 0
	w.Prev.Hash = encryption.Hash(fmt.Sprintf("c07-world-%d-genesis", e.id))
	e.nextBlock()
	return e
}

func (e *eworld) call(fn string, k, v int) (*transaction.Transaction, error) {
	in, _ := json.Marshal(c07Input{Key: e.key(k), V: v})
	e.nonce++
	t := e.w.Txn(e.client, c07Address, 0, 0, e.nonce, transaction.TxnTypeSmartContract, fn, string(in))
	_, err := e.w.Exec(t)
	if err != nil {
		e.nonce--
	}
	return t, err
}

func (e *eworld) exec(f []string) string {
	args := make([]int, 0, 2)
	for _, a := range f[1:] {
		n, ok := num(a)
		if !ok {
			return "bad-op"
		}
		args = append(args, n)
	}
	need := map[string]int{"eblock": 0, "ewrite": 2, "ewritefail": 2, "edel": 1, "eread": 1}
	if n, ok := need[f[0]]; !ok || n != len(args) {
		return "bad-op"
	}
	status := func(t *transaction.Transaction, err error) string {
		switch {
		case err != nil:
			return "error:" + err.Error()
		case t.Status == transaction.TxnSuccess:
			return "ok"
		default:
			return "failed"
		}
	}
	switch f[0] {
	case "eblock":
		e.nextBlock()
		return "ok"
	case "ewrite":
		return status(e.call("write", args[0], args[1]))
	case "ewritefail":
		return status(e.call("writefail", args[0], args[1]))
	case "edel":
		return status(e.call("del", args[0], 0))
	case "eread":
		t, err := e.call("read", args[0], 0)
		if s := status(t, err); s != "ok" {
			return s
		}
		var v cval
		ref := "absent"
		switch err := e.w.State.GetNodeValue(util.Path(encryption.Hash(e.key(args[0]))), &v); err {
		case nil:
			ref = strconv.Itoa(v.N)
		case util.ErrValueNotPresent:
		default:
			ref = "error:" + err.Error()
		}
		return showRead(t.TransactionOutput, ref)
	}
	return "bad-op"
}

func impl(ops []string) []string {
	outs := make([]string, len(ops))
	var w *world
	var ew *eworld
	for i, op := range ops {
		f := strings.Fields(op)
		func() {
			defer func() {
				if r := recover(); r != nil {
					outs[i] = fmt.Sprintf("panic %v", r)
				}
			}()
			switch {
			case len(f) == 0:
				outs[i] = "bad-op"
			case len(f) == 1 && f[0] == "reset":
				w = newWorld()
				ew = nil
				outs[i] = "ok"
			case len(f) == 1 && f[0] == "ereset":
				ew = newEWorld()
				outs[i] = "ok"
			case f[0] == "eblock" || f[0] == "ewrite" || f[0] == "ewritefail" || f[0] == "edel" || f[0] == "eread":
				if ew == nil {
					outs[i] = "bad"
					return
				}
				outs[i] = ew.exec(f)
			case f[0] == "typecheck" && len(f) == 3:
				seed, ok := num(f[2])
				if !ok {
					outs[i] = "bad-op"
					return
				}
				outs[i] = typecheck(f[1], int64(seed))
			default:
				if w == nil {
					w = newWorld()
				}
				outs[i] = w.exec(f)
			}
		}()
	}
	return outs
}

// ---- part 2: every cacheable type ---------------------------------------------------------------------

type cacheable interface {
	statecache.Value
	util.MPTSerializable
}

type typeCase struct {
	make  func(r *rand.Rand) cacheable // a populated instance
	empty func() cacheable             // a decode / CopyFrom target
}

var typeCases = map[string]typeCase{
	"partitions.Partitions": {
		make: func(r *rand.Rand) cacheable {
			return partitions.VerifNewPartitionsValue("c07p"+strconv.Itoa(r.Intn(9)), 1+r.Intn(5), []string{"a", "b" + strconv.Itoa(r.Intn(9))})
		},
		empty: func() cacheable { return partitions.VerifEmptyPartitionsValue() },
	},
	"partitions.partition": {
		make:  func(r *rand.Rand) cacheable { return partitions.VerifNewPartitionValue(r.Intn(5), []string{"a", "b", "c"}[:1+r.Intn(3)]) },
		empty: func() cacheable { return partitions.VerifEmptyPartitionValue() },
	},
	"partitions.location": {
		make:  func(r *rand.Rand) cacheable { return partitions.VerifNewLocationValue(r.Intn(100)) },
		empty: func() cacheable { return partitions.VerifEmptyLocationValue() },
	},
	"minersc.GlobalNode": {
		make: func(r *rand.Rand) cacheable {
			gn := &minersc.GlobalNode{}
			fill(reflect.ValueOf(gn).Elem(), r, 0)
			gn.PrevMagicBlock = nil // a magic block only encodes with real node public keys; not populated here
			return gn
		},
		empty: func() cacheable { return &minersc.GlobalNode{} },
	},
	"minersc.MinerNode": {
		make: func(r *rand.Rand) cacheable {
			mn := minersc.NewMinerNode()
			fill(reflect.ValueOf(mn).Elem(), r, 0)
			if mn.StakePool != nil && len(mn.StakePool.Pools) == 0 {
				mn.StakePool.Pools = map[string]*stakepool.DelegatePool{"d1": {Balance: 5, DelegateID: "d1"}}
			}
			return mn
		},
		empty: func() cacheable { return minersc.NewMinerNode() },
	},
	"storagesc.StorageAllocation": {
		make: func(r *rand.Rand) cacheable {
			sa := &storagesc.StorageAllocation{}
			ver := []string{"", `"version":"v2",`}[r.Intn(2)]
			js := fmt.Sprintf(`{%s"id":"alloc%d","tx":"t","data_shards":2,"parity_shards":1,"size":%d,"owner_id":"o","preferred_blobbers":["p1","p2"],
 "stats":{"used_size":%d,"num_of_writes":3},"blobber_details":[{"blobber_id":"b1","size":10,"allocation_id":"alloc","stats":{"used_size":1},
 "terms":{"read_price":1,"write_price":2},"last_write_marker":{"allocation_root":"r","size":5}},{"blobber_id":"b2","size":20}],"write_pool":%d}`,
				ver, r.Intn(9), 1000+r.Intn(1000), r.Intn(500), r.Intn(50))
			if err := sa.Decode([]byte(js)); err != nil {
				panic("allocation sample: " + err.Error())
			}
			return sa
		},
		empty: func() cacheable { return &storagesc.StorageAllocation{} },
	},
	"storagesc.Config": {
		make: func(r *rand.Rand) cacheable {
			c := &storagesc.Config{}
			fill(reflect.ValueOf(c).Elem(), r, 0)
			return c
		},
		empty: func() cacheable { return &storagesc.Config{} },
	},
}

func settable(v reflect.Value) reflect.Value {
	if v.CanSet() {
		return v
	}
	if v.CanAddr() {
		return reflect.NewAt(v.Type(), unsafe.Pointer(v.UnsafeAddr())).Elem()
	}
	return v
}

// fill populates every field reachable without interfaces: numbers, strings, bools, 1-2 elements per slice and
// map, allocated pointers (depth-bounded).
func fill(v reflect.Value, r *rand.Rand, depth int) {
	v = settable(v)
	if !v.CanSet() || depth > 6 {
		return
	}
	switch v.Kind() {
	case reflect.Bool:
		v.SetBool(r.Intn(2) == 0)
	case reflect.Int, reflect.Int8, reflect.Int16, reflect.Int32, reflect.Int64:
		v.SetInt(int64(1 + r.Intn(100)))
	case reflect.Uint, reflect.Uint8, reflect.Uint16, reflect.Uint32, reflect.Uint64:
		v.SetUint(uint64(1 + r.Intn(100)))
	case reflect.Float32, reflect.Float64:
		v.SetFloat(float64(1+r.Intn(100)) / 4)
	case reflect.String:
		v.SetString("s" + strconv.Itoa(r.Intn(1000)))
	case reflect.Ptr:
		if v.IsNil() {
			v.Set(reflect.New(v.Type().Elem()))
		}
		fill(v.Elem(), r, depth+1)
	case reflect.Struct:
		for i := 0; i < v.NumField(); i++ {
			fill(v.Field(i), r, depth+1)
		}
	case reflect.Slice:
		n := 1 + r.Intn(2)
		s := reflect.MakeSlice(v.Type(), n, n)
		for i := 0; i < n; i++ {
			fill(s.Index(i), r, depth+1)
		}
		v.Set(s)
	case reflect.Map:
		m := reflect.MakeMap(v.Type())
		for i := 0; i < 1+r.Intn(2); i++ {
			k := reflect.New(v.Type().Key()).Elem()
			fill(k, r, depth+1)
			e := reflect.New(v.Type().Elem()).Elem()
			fill(e, r, depth+1)
			m.SetMapIndex(k, e)
		}
		v.Set(m)
	}
}

// mutate changes, in place, everything reachable from v (through pointers, slices, maps, interfaces): the writes a
// contract may do on an object it was handed.
func mutate(v reflect.Value, depth int, seen map[uintptr]bool) {
	if depth > 8 {
		return
	}
	switch v.Kind() {
	case reflect.Interface:
		if !v.IsNil() {
			mutate(v.Elem(), depth+1, seen)
		}
		return
	case reflect.Ptr:
		if v.IsNil() || seen[v.Pointer()] {
			return
		}
		seen[v.Pointer()] = true
		mutate(v.Elem(), depth+1, seen)
		return
	}
	v = settable(v)
	switch v.Kind() {
	case reflect.Bool:
		if v.CanSet() {
			v.SetBool(!v.Bool())
		}
	case reflect.Int, reflect.Int8, reflect.Int16, reflect.Int32, reflect.Int64:
		if v.CanSet() {
			v.SetInt(v.Int() + 7)
		}
	case reflect.Uint, reflect.Uint8, reflect.Uint16, reflect.Uint32, reflect.Uint64:
		if v.CanSet() {
			v.SetUint(v.Uint() + 7)
		}
	case reflect.Float32, reflect.Float64:
		if v.CanSet() {
			v.SetFloat(v.Float() + 1.5)
		}
	case reflect.String:
		if v.CanSet() {
			v.SetString(v.String() + "~")
		}
	case reflect.Struct:
		for i := 0; i < v.NumField(); i++ {
			mutate(v.Field(i), depth+1, seen)
		}
	case reflect.Slice, reflect.Array:
		for i := 0; i < v.Len(); i++ {
			mutate(v.Index(i), depth+1, seen)
		}
	case reflect.Map:
		for _, k := range v.MapKeys() {
			e := v.MapIndex(k)
			if e.Kind() == reflect.Ptr || e.Kind() == reflect.Interface {
				mutate(e, depth+1, seen)
			} else {
				ne := reflect.New(e.Type()).Elem()
				ne.Set(e)
				mutate(ne, depth+1, seen)
				v.SetMapIndex(k, ne)
			}
		}
	}
}

// what a fresh trie read of the object yields: decode(encode(x))
func trieImage(tc typeCase, x cacheable) (cacheable, error) {
	b, err := x.MarshalMsg(nil)
	if err != nil {
		return nil, err
	}
	y := tc.empty()
	if _, err := y.UnmarshalMsg(b); err != nil {
		return nil, err
	}
	return y, nil
}

func sameImage(tc typeCase, a, b cacheable) bool {
	ia, e1 := trieImage(tc, a)
	ib, e2 := trieImage(tc, b)
	return e1 == nil && e2 == nil && reflect.DeepEqual(ia, ib)
}

// typecheck: the object inserted, mutated afterwards; every object handed out by the cache, mutated afterwards;
// through the transaction cache, the block cache and the state cache.
func typecheck(name string, seed int64) string {
	tc, ok := typeCases[name]
	if !ok {
		return "bad-op"
	}
	r := rand.New(rand.NewSource(seed))
	x := tc.make(r)
	x0, err := trieImage(tc, x)
	if err != nil {
		return "fail encode " + err.Error()
	}
	if !sameImage(tc, x0, x) {
		return "fail encode-not-idempotent"
	}
	sc := statecache.NewStateCache()
	bc := statecache.NewBlockCache(sc, statecache.Block{Round: 1, Hash: "tb1", PrevHash: "tb0"})
	txc := statecache.NewTransactionCache(bc)
	const key = "typecheck"
	txc.Set(key, x) // InsertTrieNode's cache.Set
	mutate(reflect.ValueOf(x), 0, map[uintptr]bool{})
	read := func(stage string, c *statecache.TransactionCache) string {
		for round := 0; round < 2; round++ {
			cv, ok := c.Get(key)
			if !ok {
				return "fail " + stage + "-miss"
			}
			z := tc.empty()
			if !z.CopyFrom(cv) { // GetTrieNode's CopyFrom
				return "fail " + stage + "-copyfrom-refused"
			}
			if !sameImage(tc, z, x0) {
				if round == 0 {
					return "fail " + stage + "-lossy"
				}
				return "fail " + stage + "-aliased"
			}
			// the caller now mutates what it was handed; so does whoever still holds the cached clone
			mutate(reflect.ValueOf(z), 0, map[uintptr]bool{})
			mutate(reflect.ValueOf(cv), 0, map[uintptr]bool{})
		}
		return ""
	}
	if s := read("txn", txc); s != "" {
		return s
	}
	txc.Commit()
	if s := read("block", statecache.NewTransactionCache(bc)); s != "" {
		return s
	}
	bc.Commit()
	bc2 := statecache.NewBlockCache(sc, statecache.Block{Round: 2, Hash: "tb2", PrevHash: "tb1"})
	if s := read("state", statecache.NewTransactionCache(bc2)); s != "" {
		return s
	}
	bc2.Commit()
	bc3 := statecache.NewBlockCache(sc, statecache.Block{Round: 3, Hash: "tb3", PrevHash: "tb2"})
	if s := read("state-ancestor", statecache.NewTransactionCache(bc3)); s != "" {
		return s
	}
	return "ok"
}

// every `func (x *T) Clone() statecache.Value` of the repository sources
func scanCacheableTypes() ([]string, error) {
	root := filepath.Join(engine.RepoRoot(), "code/go/0chain.net")
	var found []string
	fset := token.NewFileSet()
	err := filepath.Walk(root, func(path string, info os.FileInfo, err error) error {
		if err != nil {
			return err
		}
		if info.IsDir() || !strings.HasSuffix(path, ".go") || strings.HasSuffix(path, "_test.go") {
			return nil
		}
		src, err := os.ReadFile(path)
		if err != nil {
			return err
		}
		if !strings.Contains(string(src), "statecache.Value") {
			return nil
		}
		f, err := parser.ParseFile(fset, path, src, 0)
		if err != nil {
			return err
		}
		for _, d := range f.Decls {
			fd, ok := d.(*ast.FuncDecl)
			if !ok || fd.Name.Name != "Clone" || fd.Recv == nil || fd.Type.Results == nil || len(fd.Type.Results.List) != 1 {
				continue
			}
			sel, ok := fd.Type.Results.List[0].Type.(*ast.SelectorExpr)
			if !ok || sel.Sel.Name != "Value" {
				continue
			}
			if id, ok := sel.X.(*ast.Ident); !ok || id.Name != "statecache" {
				continue
			}
			t := fd.Recv.List[0].Type
			if st, ok := t.(*ast.StarExpr); ok {
				t = st.X
			}
			if id, ok := t.(*ast.Ident); ok {
				found = append(found, f.Name.Name+"."+id.Name)
			}
		}
		return nil
	})
	sort.Strings(found)
	return found, err
}

// ---- generator ---------------------------------------------------------------------------------------

func genEngine(r *rand.Rand, thorough bool) []string {
	ops := []string{"reset", "ereset"}
	n := 20 + r.Intn(40)
	if thorough {
		n = 20 + r.Intn(150)
	}
	nk := 2 + r.Intn(4)
	for len(ops) < n {
		switch x := r.Intn(20); {
		case x < 6:
			ops = append(ops, fmt.Sprintf("ewrite %d %d", r.Intn(nk), r.Intn(1000)))
		case x < 10:
			ops = append(ops, fmt.Sprintf("ewritefail %d %d", r.Intn(nk), r.Intn(1000)))
		case x < 12:
			ops = append(ops, fmt.Sprintf("edel %d", r.Intn(nk)))
		case x < 18:
			ops = append(ops, fmt.Sprintf("eread %d", r.Intn(nk)))
		default:
			ops = append(ops, "eblock")
		}
	}
	return ops
}

func gen(r *rand.Rand, thorough bool, i int) []string {
	if i%5 == 4 {
		return genEngine(r, thorough)
	}
	ops := []string{"reset"}
	n := 40 + r.Intn(80)
	if thorough {
		n = 40 + r.Intn(400)
	}
	nk := 2 + r.Intn(5)
	linear := r.Intn(3) == 0 // a third of the cases: one chain, reads only at its tip
	committed := []int{0}
	next := 1
	open, intx := false, false
	curH := 0
	tip := 0
	key := func() int { return r.Intn(nk) }
	for len(ops) < n {
		switch {
		case !open:
			if !linear && len(committed) > 1 && r.Intn(4) == 0 {
				h := committed[r.Intn(len(committed))]
				if r.Intn(2) == 0 && len(committed) > 2 {
					h = committed[len(committed)-2-r.Intn(min(3, len(committed)-1))]
				}
				ops = append(ops, fmt.Sprintf("query %d %d", h, key()))
				continue
			}
			if linear && r.Intn(5) == 0 {
				ops = append(ops, fmt.Sprintf("query %d %d", tip, key()))
				continue
			}
			p := tip
			if !linear && r.Intn(3) == 0 {
				p = committed[r.Intn(len(committed))]
				if r.Intn(2) == 0 && len(committed) > 1 {
					p = committed[len(committed)-1-r.Intn(min(3, len(committed)))]
				}
			}
			h := next
			next++
			if !linear && r.Intn(40) == 0 && len(committed) > 1 {
				h = committed[1+r.Intn(len(committed)-1)] // the same block hash computed again
			}
			ops = append(ops, fmt.Sprintf("begin %d %d", h, p))
			open = true
			curH = h
		case !intx:
			switch x := r.Intn(10); {
			case x < 7:
				ops = append(ops, "tx")
				intx = true
			case x < 9:
				ops = append(ops, "bcommit")
				open = false
				if !contains(committed, curH) {
					committed = append(committed, curH)
				}
				tip = curH
			default:
				if linear {
					continue
				}
				ops = append(ops, "babort")
				open = false
			}
		default:
			switch x := r.Intn(20); {
			case x < 6:
				ops = append(ops, fmt.Sprintf("get %d", key()))
			case x < 8:
				ops = append(ops, fmt.Sprintf("probe %d", key()))
			case x < 13:
				ops = append(ops, fmt.Sprintf("ins %d %d", key(), r.Intn(1000)))
			case x < 15:
				ops = append(ops, fmt.Sprintf("del %d", key()))
			case x < 18:
				ops = append(ops, "commit")
				intx = false
			default:
				ops = append(ops, "discard")
				intx = false
			}
		}
	}
	if r.Intn(4) == 0 {
		names := make([]string, 0, len(typeCases))
		for k := range typeCases {
			names = append(names, k)
		}
		sort.Strings(names)
		ops = append(ops, fmt.Sprintf("typecheck %s %d", names[r.Intn(len(names))], r.Intn(100000)))
	}
	if r.Intn(30) == 0 {
		bad := []string{"get", "ins 1", "begin 1", "frob 1", "query 1", "get x", "ins 1 99999999999", "typecheck nosuch.Type 1"}
		ops = append(ops, bad[r.Intn(len(bad))])
	}
	return ops
}

func contains(xs []int, x int) bool {
	for _, y := range xs {
		if y == x {
			return true
		}
	}
	return false
}

// ---- oracle: cached read = fresh uncached read; independent reference tries ------------------------------

type refTrie map[int]int

func cp(t refTrie) refTrie {
	n := refTrie{}
	for k, v := range t {
		n[k] = v
	}
	return n
}

func oracle(ops, outs []string) *corr.Violation {
	mk := func(i int, sig, msg string) *corr.Violation {
		return &corr.Violation{Signature: "C07:" + sig, Message: fmt.Sprintf("op %d %q answered %q: %s", i, ops[i], outs[i], msg), Ops: ops, Impl: outs}
	}
	tries := map[int]refTrie{0: {}}
	parent := map[int]int{}
	children := map[int]int{}
	type ex struct {
		h, p      int
		trie, txn refTrie
		intx      bool
	}
	var cur *ex
	nonlinear := false // a block was begun on, or a read was made at, a block that already has a computed child
	discarded := map[int]map[int]bool{}
	etrie, efailed := refTrie{}, map[int]map[int]bool{}
	show := func(t refTrie, k int) string {
		if v, ok := t[k]; ok {
			return strconv.Itoa(v)
		}
		return "absent"
	}
	ancestorServes := func(h, k int, val string) bool {
		for a, ok := parent[h]; ok; a, ok = parent[a] {
			if show(tries[a], k) == val {
				return true
			}
		}
		return false
	}
	for i, op := range ops {
		f := strings.Fields(op)
		out := outs[i]
		if len(f) == 0 || out == "bad-op" || out == "bad" {
			continue
		}
		if strings.HasPrefix(out, "panic") || strings.HasPrefix(out, "error:") {
			return mk(i, "unexpected-error", "the operation must not fail")
		}
		arg := func(k int) int { v, _ := strconv.Atoi(f[k]); return v }
		checkRead := func(readAt int, t refTrie, k int) *corr.Violation {
			w := strings.Fields(out)
			// "val X ref Y" | "absent ref Y"
			got, ref := "", ""
			switch {
			case len(w) == 4 && w[0] == "val" && w[2] == "ref":
				got, ref = w[1], w[3]
			case len(w) == 3 && w[0] == "absent" && w[1] == "ref":
				got, ref = "absent", w[2]
			default:
				return mk(i, "unparsable-read", "read answers must be 'val X ref Y' or 'absent ref Y'")
			}
			if want := show(t, k); ref != want {
				return mk(i, "trie-read-differs-from-reference", fmt.Sprintf("the uncached trie read gives %s, the reference map %s", ref, want))
			}
			if got != ref {
				switch {
				case discarded[k][atoiOr(got, -1)] && !ancestorServes(readAt, k, got):
					return mk(i, "discarded-txn-value-served", fmt.Sprintf("cached read %s, trie %s: the value was only written by a discarded transaction", got, ref))
				case nonlinear && ancestorServes(readAt, k, got):
					return mk(i, "stale-ancestor-value-after-read-at-older-block", fmt.Sprintf("cached read %s, trie %s: the state cache served the value of an ancestor block although a nearer block changed the key (its entry was dropped when the key was read at a block that already had a computed child)", got, ref))
				default:
					return mk(i, "cached-read-differs-from-trie", fmt.Sprintf("cached read %s, trie %s", got, ref))
				}
			}
			return nil
		}
		switch f[0] {
		case "reset":
			tries, parent, children, cur, nonlinear = map[int]refTrie{0: {}}, map[int]int{}, map[int]int{}, nil, false
			discarded = map[int]map[int]bool{}
		case "begin":
			if out != "ok" {
				return mk(i, "unexpected-answer", "begin must succeed")
			}
			if children[arg(2)] > 0 {
				nonlinear = true
			}
			cur = &ex{h: arg(1), p: arg(2), trie: cp(tries[arg(2)])}
		case "tx":
			cur.txn, cur.intx = cp(cur.trie), true
		case "ins":
			cur.txn[arg(1)] = arg(2)
			if discarded[arg(1)] == nil {
				discarded[arg(1)] = map[int]bool{}
			}
		case "del":
			_, in := cur.txn[arg(1)]
			if (out == "ok") != in {
				return mk(i, "delete-answer", fmt.Sprintf("key present in the reference trie: %v", in))
			}
			delete(cur.txn, arg(1))
		case "commit":
			cur.trie, cur.intx = cur.txn, false
		case "discard":
			for k, v := range cur.txn {
				if ov, ok := cur.trie[k]; !ok || ov != v {
					if discarded[k] == nil {
						discarded[k] = map[int]bool{}
					}
					discarded[k][v] = true
				}
			}
			cur.intx = false
		case "bcommit":
			if _, done := tries[cur.h]; !done {
				tries[cur.h] = cur.trie
				parent[cur.h] = cur.p
				children[cur.p]++
			}
			cur = nil
		case "babort":
			cur = nil
		case "get":
			if v := checkRead(cur.p, cur.txn, arg(1)); v != nil {
				// the read block is cur (not yet computed): ancestors start at its parent
				return v
			}
		case "probe":
			if strings.HasPrefix(out, "hit ") {
				got := strings.Fields(out)[1]
				if want := show(cur.txn, arg(1)); got != want {
					if nonlinear && (ancestorServes(cur.p, arg(1), got) || show(tries[cur.p], arg(1)) == got) {
						return mk(i, "stale-ancestor-value-after-read-at-older-block", fmt.Sprintf("cache hit %s, trie %s", got, want))
					}
					return mk(i, "cached-read-differs-from-trie", fmt.Sprintf("cache hit %s, trie %s", got, want))
				}
			}
		case "query":
			if children[arg(1)] > 0 {
				nonlinear = true
			}
			if v := checkRead(arg(1), tries[arg(1)], arg(2)); v != nil {
				return v
			}
		case "ereset":
			etrie, efailed = refTrie{}, map[int]map[int]bool{}
		case "eblock":
		case "ewrite":
			if out != "ok" {
				return mk(i, "engine-write-failed", "a contract call that only inserts a node must be applied")
			}
			etrie[arg(1)] = arg(2)
		case "ewritefail":
			if out != "failed" {
				return mk(i, "engine-failure-not-charged", "a contract error after a write is a chargeable error: status TxnError")
			}
			if efailed[arg(1)] == nil {
				efailed[arg(1)] = map[int]bool{}
			}
			if v, ok := etrie[arg(1)]; !ok || v != arg(2) {
				efailed[arg(1)][arg(2)] = true
			}
		case "edel":
			_, in := etrie[arg(1)]
			if (out == "ok") != in {
				return mk(i, "engine-delete-answer", fmt.Sprintf("key present in the reference trie: %v", in))
			}
			delete(etrie, arg(1))
		case "eread":
			w := strings.Fields(out)
			got, ref := "", ""
			switch {
			case len(w) == 4 && w[0] == "val" && w[2] == "ref":
				got, ref = w[1], w[3]
			case len(w) == 3 && w[0] == "absent" && w[1] == "ref":
				got, ref = "absent", w[2]
			default:
				return mk(i, "unparsable-read", "read answers must be 'val X ref Y' or 'absent ref Y'")
			}
			if want := show(etrie, arg(1)); ref != want {
				return mk(i, "trie-read-differs-from-reference", fmt.Sprintf("the trie holds %s, the reference map %s", ref, want))
			}
			if got != ref {
				if efailed[arg(1)][atoiOr(got, -1)] {
					return mk(i, "failed-txn-left-trace", fmt.Sprintf("a contract read %s through the caches, the trie holds %s: the value was written by a transaction that failed", got, ref))
				}
				return mk(i, "cached-read-differs-from-trie", fmt.Sprintf("a contract read %s through the caches, the trie holds %s", got, ref))
			}
		case "typecheck":
			if out != "ok" {
				return mk(i, "type-"+f[1]+"-"+strings.ReplaceAll(strings.TrimPrefix(out, "fail "), " ", "-"), "Clone/CopyFrom of this cacheable type loses data or shares memory with the cached object")
			}
		}
	}
	return nil
}

func atoiOr(s string, d int) int {
	n, err := strconv.Atoi(s)
	if err != nil {
		return d
	}
	return n
}

func main() {
	engine.Setup()
	smartcontract.ContractMap[c07Address] = c07Contract{}
	found, err := scanCacheableTypes()
	if err != nil {
		fmt.Fprintln(os.Stderr, "scan of cacheable types failed:", err)
		os.Exit(3)
	}
	for _, t := range found {
		if _, ok := typeCases[t]; !ok {
			fmt.Fprintf(os.Stderr, "cacheable type %s (implements statecache.Value) is not covered by the C07 round-trip/aliasing checks\n", t)
			os.Exit(3)
		}
	}
	if len(found) == 0 {
		fmt.Fprintln(os.Stderr, "scan of cacheable types found nothing: scanner broken")
		os.Exit(3)
	}
	var fixed [][]string
	var tnames []string
	for k := range typeCases {
		tnames = append(tnames, k)
	}
	sort.Strings(tnames)
	tc := []string{"reset"}
	for _, k := range tnames {
		for s := 1; s <= 3; s++ {
			tc = append(tc, fmt.Sprintf("typecheck %s %d", k, s))
		}
	}
	fixed = append(fixed, tc,
		// linear: insert, overwrite, delete, failed transaction, read at the tip
		[]string{"reset", "begin 1 0", "tx", "ins 1 10", "get 1", "commit", "tx", "ins 1 11", "probe 1", "discard", "tx", "get 1", "probe 1", "commit", "bcommit",
			"begin 2 1", "tx", "get 1", "del 1", "get 1", "commit", "bcommit", "query 2 1", "begin 3 2", "tx", "get 1", "ins 1 5", "commit", "bcommit", "query 3 1"},
		// the recorded finding: a read at block 2 (which has the computed child 3) drops block 3's entry
		[]string{"reset", "begin 1 0", "tx", "ins 7 10", "commit", "bcommit", "begin 2 1", "bcommit", "begin 3 2", "tx", "ins 7 11", "commit", "bcommit",
			"query 2 7", "begin 5 3", "tx", "get 7"},
		// same through a sibling block instead of a query
		[]string{"reset", "begin 1 0", "tx", "ins 7 10", "commit", "bcommit", "begin 2 1", "bcommit", "begin 3 2", "tx", "ins 7 11", "commit", "bcommit",
			"begin 4 2", "tx", "get 7", "commit", "bcommit", "begin 5 3", "tx", "get 7", "probe 7"},
	)
	fixed = append(fixed,
		// through the real Chain.UpdateState: a failing contract call writes first; the next read must not see it
		[]string{"reset", "ereset", "ewrite 1 10", "eread 1", "ewritefail 1 11", "eread 1", "eblock", "eread 1", "ewritefail 2 5", "eread 2",
			"edel 1", "eread 1", "edel 1", "eblock", "eread 1", "ewrite 1 7", "eblock", "eblock", "eread 1"})
	corr.Main(corr.Prop{
		ID: "C07", Model: "C07", Gen: gen, Impl: impl, Oracle: oracle, Serial: false,
		Cases: func(th bool) int {
			if th {
				return 5000
			}
			return 500
		},
		Fixed: fixed,
		Extra: func() map[string]interface{} {
			return map[string]interface{}{"cacheable_types_in_sources": found, "cacheable_types_covered": tnames}
		},
	})
}
