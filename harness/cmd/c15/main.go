// C15 harness: read markers redeemed on the REAL storagesc (read_redeem = commitBlobberRead) through the real
// Chain.UpdateState, compared line by line with the Lean model driver zdrv-C15 (Model/ReadMarker.lean), and judged by
// an oracle that states the property on the implementation's answers alone.
package main

import (
	"bufio"
	"fmt"
	"math"
	"os"
	"strings"
	"sync"

	"0chain.net/smartcontract/storagesc"
	"verifharness/lib/corr"
)

func f64hex(f float64) string { return fmt.Sprintf("%016x", math.Float64bits(f)) }

var (
	statMu sync.Mutex
	stats  = map[string]int{}
)

func note(op []string, res string) {
	k := op[0]
	if op[0] == "rm" && len(op) == 12 {
		k = "rm-" + op[10]
	}
	st := strings.Fields(res + " x")[0]
	statMu.Lock()
	stats[k+":"+st]++
	statMu.Unlock()
}

// checkConfig: the constants of the init line must be the values the contract itself stores.
func (x *world) checkConfig(op []string) string {
	ms, ml, tu := storagesc.VerifC15Config(x.w.SCtx())
	got := fmt.Sprintf("%d %d %d", ms, ml, tu)
	if want := strings.Join(op[2:], " "); want != got {
		return "config-mismatch " + got
	}
	return "ok"
}

func impl(ops []string) []string {
	outs := make([]string, len(ops))
	var x *world
	for i, line := range ops {
		op := strings.Fields(line)
		func() {
			defer func() {
				if r := recover(); r != nil {
					outs[i] = fmt.Sprintf("panic %.80v", r)
				}
			}()
			if len(op) == 0 {
				outs[i] = "bad-op"
				return
			}
			if op[0] == "init" {
				if len(op) != 5 || !isNat(op[2]) || !isNat(op[3]) || !isNat(op[4]) {
					outs[i] = "bad-op"
					x = nil
					return
				}
				var err error
				x, err = newWorld(op[1])
				if err != nil {
					outs[i] = "init-error " + err.Error()
					x = nil
					return
				}
				outs[i] = x.checkConfig(op)
				return
			}
			if x == nil {
				outs[i] = "bad-op"
				return
			}
			x.hist += line + "\n"
			outs[i] = x.run(op)
			if outs[i] != "bad-op" {
				note(op, outs[i])
			}
		}()
	}
	return outs
}

func script(path string) {
	f, err := os.Open(path)
	if err != nil {
		panic(err)
	}
	var ops []string
	sc := bufio.NewScanner(f)
	for sc.Scan() {
		if l := strings.TrimSpace(sc.Text()); l != "" && !strings.HasPrefix(l, "#") {
			ops = append(ops, l)
		}
	}
	outs := impl(ops)
	for i := range ops {
		fmt.Printf("%-80s -> %s\n", ops[i], outs[i])
	}
	if v := oracle(ops, outs); v != nil {
		fmt.Println("ORACLE:", v.Signature, v.Message)
	}
}

func main() {
	if p := os.Getenv("C15_SCRIPT"); p != "" {
		script(p)
		return
	}
	corr.Main(corr.Prop{
		ID: "C15", Model: "C15", Gen: gen, Impl: impl, Oracle: oracle,
		Cases: func(th bool) int {
			if th {
				return 4000
			}
			return 80
		},
		Fixed: fixed(),
		Nontrivial: func(ops, outs []string) bool {
			n := 0
			for i, o := range ops {
				if strings.HasPrefix(o, "rm ") && strings.HasPrefix(outs[i], "ok") {
					n++
				}
			}
			return n >= 2
		},
		Extra: func() map[string]interface{} {
			statMu.Lock()
			defer statMu.Unlock()
			m := map[string]interface{}{}
			for k, v := range stats {
				m[k] = v
			}
			return map[string]interface{}{"impl_branch_hist": m}
		},
	})
}
