// C15 harness, ops.go: the operations of a history, executed as REAL transactions.
//
//   init <tag> <minStake> <minLock> <timeUnit>         fresh world; the three numbers are the configuration values the
//                                                      model computes with, checked against the contract's stored config
//   addb <i> <readPrice> <charge‰> <stake>             add_blobber by blobber i (+ stake_pool_lock of <stake> by client 0 if > 0)
//   newa <owner j> <i,i,..> <value>                    new_allocation_request on exactly these blobbers (index = order of success)
//   tick <seconds>                                     next block, later
//   lock <j> <target j'> <value>                       read_pool_lock
//   unlock <j>                                         read_pool_unlock
//   kill <i>                                           kill_blobber by the contract owner
//   rm <sub> <c> <pk> <b> <a> <own> <ctr> <ts> <signer> <tamper> <tval>
//        read_redeem sent by <sub> (c<j>|b<i>) of a marker {client c, public key of key <pk> (c<j>|b<i>|bad), blobber <b>
//        (index|none), allocation <a>, owner <own>, counter, timestamp}, signed by key <signer> over GetHashData of
//        those fields; afterwards the field <tamper> (none|ctr|ts|alloc|blobber|owner|client|sigbad|sigother|nosig)
//        is overwritten with <tval>
//   raw <kind>                                         malformed read_redeem inputs (array|nomarker|null|bigctr|strctr)
//
// Answer of every state-changing op: "<class> <observation>", see obs().
package main

import (
	"encoding/hex"
	"fmt"
	"strconv"
	"strings"

	"0chain.net/core/encryption"
	"0chain.net/smartcontract/storagesc"
)

func atoi(s string) int {
	n, err := strconv.Atoi(s)
	if err != nil {
		return -1
	}
	return n
}

func isNat(s string) bool {
	if s == "" || len(s) > 20 {
		return false
	}
	for _, c := range s {
		if c < '0' || c > '9' {
			return false
		}
	}
	_, err := strconv.ParseUint(s, 10, 64)
	return err == nil
}

func isInt(s string) bool {
	_, err := strconv.ParseInt(s, 10, 64)
	return err == nil && !strings.HasPrefix(s, "+") && s != "-0"
}

func isIdx(s string, n int) bool { return isNat(s) && len(s) <= 3 && atoi(s) < n }

// key names: c<j> | b<i>
func (x *world) key(s string) *actor {
	if len(s) < 2 {
		return nil
	}
	switch {
	case s[0] == 'c' && isIdx(s[1:], nClients):
		return x.cli[atoi(s[1:])]
	case s[0] == 'b' && isIdx(s[1:], nBlobbers):
		return x.blob[atoi(s[1:])]
	}
	return nil
}

func isKey(s string) bool {
	return len(s) >= 2 && ((s[0] == 'c' && isIdx(s[1:], nClients)) || (s[0] == 'b' && isIdx(s[1:], nBlobbers)))
}

var tampers = map[string]bool{"none": true, "ctr": true, "ts": true, "alloc": true, "blobber": true, "owner": true,
	"client": true, "sigbad": true, "sigother": true, "nosig": true}

func wellFormed(op []string) bool {
	a := op[1:]
	n := len(a)
	switch op[0] {
	case "addb":
		return n == 4 && isIdx(a[0], nBlobbers) && isNat(a[1]) && isNat(a[2]) && atoi(a[2]) <= 1000 && isNat(a[3])
	case "newa":
		if n != 3 || !isIdx(a[0], nClients) || !isNat(a[2]) {
			return false
		}
		for _, s := range strings.Split(a[1], ",") {
			if !isIdx(s, nBlobbers) {
				return false
			}
		}
		return true
	case "tick":
		return n == 1 && isNat(a[0]) && len(a[0]) <= 9
	case "lock":
		return n == 3 && isIdx(a[0], nClients) && isIdx(a[1], nClients) && isNat(a[2])
	case "unlock":
		return n == 1 && isIdx(a[0], nClients)
	case "kill":
		return n == 1 && isIdx(a[0], nBlobbers)
	case "rm":
		if n != 11 || !isKey(a[0]) || !isIdx(a[1], nClients) || !(isKey(a[2]) || a[2] == "bad") {
			return false
		}
		if !(a[3] == "none" || isIdx(a[3], nBlobbers)) || !isIdx(a[4], 100) || !isIdx(a[5], nClients) || !isInt(a[6]) || !isInt(a[7]) || !isKey(a[8]) || !tampers[a[9]] {
			return false
		}
		switch a[9] {
		case "ctr", "ts":
			return isInt(a[10])
		case "alloc":
			return isIdx(a[10], 100)
		case "blobber":
			return isIdx(a[10], nBlobbers)
		case "owner", "client":
			return isIdx(a[10], nClients)
		}
		return a[10] == "0"
	case "raw":
		return n == 1 && (a[0] == "array" || a[0] == "nomarker" || a[0] == "null" || a[0] == "bigctr" || a[0] == "strctr")
	}
	return false
}

// class maps the contract's error text to the model's error class.
func class(r txres) string {
	if r.status == "ok" {
		return "ok"
	}
	if r.status == "rejected" {
		return "rejected"
	}
	o := r.out
	for _, p := range [][2]string{
		{"decoding input", "malformed"}, {"missing read_marker", "malformed"},
		{"Client ID verification failed", "client-id"}, {"err blsPublicKeyDeserialize", "client-id"}, {"encoding/hex", "client-id"},
		{"length validations of fields failed", "fields"}, {"validations with previous marker failed", "prev"},
		{"Signature verification failed", "sig"}, {"can't get related allocation", "no-alloc"},
		{"early reading", "early"}, {"late reading", "late"}, {"blobber doesn't belong to allocation", "not-in-alloc"},
		{"read counter increment is out of range", "range"}, {"not enough tokens in read pool", "insufficient"}, {"can't move tokens to blobber", "distribute"},
		{"insufficient amount to lock", "min-lock"}, {"invalid amount to lock", "zero-lock"},
		{"no read pool found", "no-pool"}, {"lock amount is greater than balance", "balance"},
	} {
		if strings.Contains(o, p[0]) {
			return p[1]
		}
	}
	return "fail:" + strings.ReplaceAll(fmt.Sprintf("%.60s", o), " ", "_")
}

type marker struct {
	ClientID        string `json:"client_id"`
	ClientPublicKey string `json:"client_public_key"`
	BlobberID       string `json:"blobber_id"`
	AllocationID    string `json:"allocation_id"`
	OwnerID         string `json:"owner_id"`
	Timestamp       int64  `json:"timestamp"`
	ReadCounter     int64  `json:"counter"`
	Signature       string `json:"signature"`
}

// hashData: what a CLIENT signs. Written out here independently of the contract (the gosdk/blobber side of the
// protocol); the extractor xc15 checks that the contract's GetHashData is this very field list.
func (m *marker) hashData() string {
	return fmt.Sprintf("%v:%v:%v:%v:%v:%v:%v", m.AllocationID, m.BlobberID, m.ClientID, m.ClientPublicKey, m.OwnerID, m.ReadCounter, m.Timestamp)
}

func (x *world) blobberID(s string) string {
	if s == "none" {
		return ""
	}
	return x.blob[atoi(s)].ID
}

// run executes one operation and returns its answer line.
func (x *world) run(op []string) string {
	if len(op) == 0 || !wellFormed(op) {
		return "bad-op"
	}
	a := op[1:]
	switch op[0] {
	case "addb":
		i := atoi(a[0])
		price, _ := strconv.ParseUint(a[1], 10, 64)
		stake, _ := strconv.ParseUint(a[3], 10, 64)
		in := map[string]interface{}{
			"url": fmt.Sprintf("http://blobber%d.c15.verif:5051", i), "capacity": int64(100) << 30,
			"terms": map[string]uint64{"read_price": price, "write_price": 1e9},
			"stake_pool_settings": map[string]interface{}{"delegate_wallet": x.cli[0].ID, "num_delegates": 10, "service_charge": float64(atoi(a[2])) / 1000},
		}
		r := x.exec(x.blob[i], "add_blobber", 0, in)
		if r.status != "ok" {
			return "fail " + x.obsB(i)
		}
		if stake > 0 {
			r = x.exec(x.cli[0], "stake_pool_lock", stake, map[string]interface{}{"provider_type": 3, "provider_id": x.blob[i].ID})
			if r.status != "ok" {
				return "stake-fail " + x.obsB(i)
			}
		}
		return "ok " + x.obsB(i)
	case "newa":
		j := atoi(a[0])
		var ids, tickets []string
		for _, s := range strings.Split(a[1], ",") {
			ids = append(ids, x.blob[atoi(s)].ID)
			tickets = append(tickets, "")
		}
		in := map[string]interface{}{
			"data_shards": len(ids) - 1, "parity_shards": 1, "size": int64(1) << 30,
			"owner_id": x.cli[j].ID, "owner_public_key": x.cli[j].PublicKey,
			"blobbers": ids, "blobber_auth_tickets": tickets,
			"read_price_range":  map[string]uint64{"min": 0, "max": 100e10},
			"write_price_range": map[string]uint64{"min": 0, "max": 100e10},
		}
		if len(ids) == 1 {
			in["data_shards"], in["parity_shards"] = 1, 0
		}
		val, _ := strconv.ParseUint(a[2], 10, 64)
		r := x.exec(x.cli[j], "new_allocation_request", val, in)
		if r.status != "ok" {
			return "fail"
		}
		x.allocs = append(x.allocs, x.lastHash)
		return "ok " + x.obsA(len(x.allocs)-1)
	case "tick":
		d, _ := strconv.ParseInt(a[0], 10, 64)
		x.tick(d)
		return fmt.Sprintf("ok %d", x.now())
	case "lock":
		j, tj := atoi(a[0]), atoi(a[1])
		v, _ := strconv.ParseUint(a[2], 10, 64)
		in := map[string]string{}
		if tj != j {
			in["target_id"] = x.cli[tj].ID
		}
		r := x.exec(x.cli[j], "read_pool_lock", v, in)
		return class(r) + " " + x.obsP(tj) + " " + x.obsW(j)
	case "unlock":
		j := atoi(a[0])
		r := x.exec(x.cli[j], "read_pool_unlock", 0, map[string]string{})
		return class(r) + " " + x.obsP(j) + " " + x.obsW(j)
	case "kill":
		i := atoi(a[0])
		r := x.exec(x.owner, "kill_blobber", 0, map[string]string{"provider_id": x.blob[i].ID})
		c := "ok"
		if r.status != "ok" {
			c = "fail"
		}
		sp := storagesc.VerifC15GetSP(x.w.SCtx(), x.blob[i].ID)
		return fmt.Sprintf("%s killed=%v", c, sp.Present && sp.Killed)
	case "raw":
		var in string
		m := `"client_id":"` + x.cli[0].ID + `","client_public_key":"` + x.cli[0].PublicKey + `","blobber_id":"` + x.blob[0].ID + `","allocation_id":"` + x.allocID(0) + `","owner_id":"` + x.cli[0].ID + `","timestamp":1700000001`
		switch a[0] {
		case "array":
			in = `[1,2]`
		case "nomarker":
			in = `{}`
		case "null":
			in = `null`
		case "bigctr":
			in = `{"read_marker":{` + m + `,"counter":9223372036854775808,"signature":""}}`
		case "strctr":
			in = `{"read_marker":{` + m + `,"counter":"7","signature":""}}`
		}
		r := x.exec(x.blob[0], "read_redeem", 0, in)
		return class(r)
	case "rm":
		sub := x.key(a[0])
		c := atoi(a[1])
		m := &marker{ClientID: x.cli[c].ID, BlobberID: x.blobberID(a[3]), AllocationID: x.allocID(atoi(a[4])), OwnerID: x.cli[atoi(a[5])].ID}
		if a[2] == "bad" {
			m.ClientPublicKey = "zz-not-a-key"
		} else {
			m.ClientPublicKey = x.key(a[2]).PublicKey
		}
		m.ReadCounter, _ = strconv.ParseInt(a[6], 10, 64)
		m.Timestamp, _ = strconv.ParseInt(a[7], 10, 64)
		signer := x.key(a[8])
		m.Signature = signer.sign(encryption.Hash(m.hashData()))
		switch a[9] {
		case "ctr":
			m.ReadCounter, _ = strconv.ParseInt(a[10], 10, 64)
		case "ts":
			m.Timestamp, _ = strconv.ParseInt(a[10], 10, 64)
		case "alloc":
			m.AllocationID = x.allocID(atoi(a[10]))
		case "blobber":
			m.BlobberID = x.blob[atoi(a[10])].ID
		case "owner":
			m.OwnerID = x.cli[atoi(a[10])].ID
		case "client":
			m.ClientID, m.ClientPublicKey = x.cli[atoi(a[10])].ID, x.cli[atoi(a[10])].PublicKey
		case "sigbad":
			m.Signature = hex.EncodeToString([]byte("not a signature at all, just 32b"))
		case "sigother":
			m.Signature = signer.sign(encryption.Hash(m.hashData() + ":other"))
		case "nosig":
			m.Signature = ""
		}
		r := x.exec(sub, "read_redeem", 0, map[string]interface{}{"read_marker": m})
		// observation: the pool of the marker's (final) client, the stored counter under the (final) key, the
		// blobber's stake pool, the allocation's read statistics
		ci := c
		if a[9] == "client" {
			ci = atoi(a[10])
		}
		bi, ai := -1, atoi(a[4])
		if a[3] != "none" {
			bi = atoi(a[3])
		}
		if a[9] == "blobber" {
			bi = atoi(a[10])
		}
		if a[9] == "alloc" {
			ai = atoi(a[10])
		}
		return class(r) + " " + x.obsP(ci) + " " + x.obsK(bi, ci, ai) + " " + x.obsR(bi) + " " + x.obsS(ai, bi)
	}
	return "bad-op"
}

// ---------------------------------------------------------------- observations (read-only, through the hook)

func (x *world) obsP(j int) string {
	p, b := storagesc.VerifC15ReadPool(x.w.SCtx(), x.cli[j].ID)
	if !p {
		return "rp=-"
	}
	return fmt.Sprintf("rp=%d", b)
}

func (x *world) obsW(j int) string {
	b, _, _ := x.w.Account(x.cli[j].ID)
	return fmt.Sprintf("w=%d", uint64(b))
}

func (x *world) obsK(bi, ci, ai int) string {
	bid := ""
	if bi >= 0 {
		bid = x.blob[bi].ID
	}
	p, c := storagesc.VerifC15Last(x.w.SCtx(), bid, x.cli[ci].ID, x.allocID(ai))
	if !p {
		return "ctr=-"
	}
	return fmt.Sprintf("ctr=%d", c)
}

// obsR: the blobber's stake pool rewards (service charge part, delegates part).
func (x *world) obsR(bi int) string {
	if bi < 0 {
		return "spr=- dr=-"
	}
	sp := storagesc.VerifC15GetSP(x.w.SCtx(), x.blob[bi].ID)
	if !sp.Present {
		return "spr=- dr=-"
	}
	return fmt.Sprintf("spr=%d dr=%d", sp.Reward, sp.Delegates)
}

// obsS: read statistics of (allocation, blobber): ReadReward, blobber NumReads, allocation NumReads.
func (x *world) obsS(ai, bi int) string {
	al := storagesc.VerifC15GetAlloc(x.w.SCtx(), x.allocID(ai))
	if !al.Present {
		return "rr=- nr=- anr=-"
	}
	for _, d := range al.BAs {
		if bi >= 0 && d.BlobberID == x.blob[bi].ID {
			return fmt.Sprintf("rr=%d nr=%d anr=%d", d.ReadReward, d.NumReads, al.NumReads)
		}
	}
	return fmt.Sprintf("rr=- nr=- anr=%d", al.NumReads)
}

// obsB: blobber i's stake pool as the model needs it.
func (x *world) obsB(i int) string {
	sp := storagesc.VerifC15GetSP(x.w.SCtx(), x.blob[i].ID)
	if !sp.Present {
		return "sp=-"
	}
	k := 0
	if sp.Killed {
		k = 1
	}
	return fmt.Sprintf("sp=%d:%d:%d:%d:%s", k, sp.Stake, sp.MinStake, sp.NumPools, f64hex(sp.Charge))
}

// obsA: allocation k: owner, start, expiration, blobber:read price list.
func (x *world) obsA(k int) string {
	al := storagesc.VerifC15GetAlloc(x.w.SCtx(), x.allocID(k))
	if !al.Present {
		return "alloc=-"
	}
	var parts []string
	for _, d := range al.BAs {
		bi := -1
		for i, b := range x.blob {
			if b.ID == d.BlobberID {
				bi = i
			}
		}
		parts = append(parts, fmt.Sprintf("%d:%d", bi, d.ReadPrice))
	}
	oj := -1
	for j, c := range x.cli {
		if c.ID == al.Owner {
			oj = j
		}
	}
	return fmt.Sprintf("alloc=%d:%d:%d:%s", oj, al.Start, al.Expiration, strings.Join(parts, ","))
}
