// C15 harness, gen.go: history generator, fixed corpus, and the oracle (the property on the implementation's answers).
package main

import (
	"fmt"
	"math/big"
	"math/rand"
	"strconv"
	"strings"

	"verifharness/lib/corr"
)

const initTail = " 10000000000 0 2592000" // min_stake_per_delegate, readpool.min_lock, time_unit (s) of the repo's sc.yaml

var prices = []uint64{0, 1, 3, 16384, 16385, 100000000, 300000000, 123456789, 70000000000, 9999999999}

func pick[T any](r *rand.Rand, xs []T) T { return xs[r.Intn(len(xs))] }

// gen: a world (2-4 blobbers with boundary-biased read prices and service charges, 1-3 allocations, funded read pools),
// then redemptions: mostly well-formed markers whose counters move forward by boundary-biased deltas, mixed with
// equal/older counters, the same counter on another allocation or blobber, timestamps on and around the allocation's
// window, wrong signers, fields tampered with after signing, foreign/undecodable public keys, arbitrary senders,
// pool locks/unlocks, time jumps over the expiration, kills, allocations created mid-history, malformed inputs.
func gen(r *rand.Rand, thorough bool, i int) []string {
	ops := []string{fmt.Sprintf("init g%d-%d", i, r.Int63()) + initTail}
	nb := 2 + r.Intn(3)
	bprice := make([]uint64, nb)
	for b := 0; b < nb; b++ {
		p := pick(r, prices)
		if r.Intn(5) == 0 {
			p = uint64(r.Int63n(70000000001))
		}
		bprice[b] = p
		charge := pick(r, []int{0, 100, 250, 500, 1, 333})
		ops = append(ops, fmt.Sprintf("addb %d %d %d %d", b, p, charge, pick(r, []uint64{1000000000000, 500000000000, 20000000000})))
	}
	type al struct{ blobs []int }
	var allocs []al
	now := int64(startNow)
	type win struct{ start, exp int64 }
	var wins []win
	newAlloc := func() {
		k := 2 + r.Intn(nb-1)
		if k > nb {
			k = nb
		}
		perm := r.Perm(nb)[:k]
		var s []string
		for _, b := range perm {
			s = append(s, strconv.Itoa(b))
		}
		ops = append(ops, fmt.Sprintf("newa %d %s 100000000000", r.Intn(nClients), strings.Join(s, ",")))
		allocs = append(allocs, al{perm})
		wins = append(wins, win{now, now + 2592000})
	}
	for n := 1 + r.Intn(3); n > 0; n-- {
		newAlloc()
	}
	for c := 0; c < nClients; c++ {
		switch r.Intn(10) {
		case 0: // no pool
		case 1:
			ops = append(ops, fmt.Sprintf("lock %d %d %d", c, c, pick(r, []uint64{1, 6103, 50000, 0})))
		default:
			ops = append(ops, fmt.Sprintf("lock %d %d %d", c, c, pick(r, []uint64{5000000000, 1000000000000, 70000000000000, 5000000000000000})))
		}
	}
	last := map[string]int64{}
	n := 8 + r.Intn(25)
	if thorough {
		n = 10 + r.Intn(80)
	}
	huge := r.Intn(12) == 0 // a slice of the cases explores counters at and beyond the int64 product boundary
	for k := 0; k < n; k++ {
		switch x := r.Intn(100); {
		case x < 72:
			c := r.Intn(nClients)
			a := r.Intn(len(allocs))
			b := pick(r, allocs[a].blobs)
			if r.Intn(12) == 0 {
				b = r.Intn(nBlobbers) // possibly not in the allocation, possibly unregistered
			}
			aTok := a
			if r.Intn(25) == 0 {
				aTok = len(allocs) + r.Intn(2) // no such allocation
			}
			key := fmt.Sprintf("%d|%d|%d", b, c, aTok)
			var ctr int64
			y := r.Intn(100)
			if last[key] == 0 && y >= 55 && y < 82 && r.Intn(4) != 0 {
				y = 0 // nothing to replay yet
			}
			switch {
			case y < 55:
				ctr = last[key] + pick(r, []int64{1, 1, 2, 3, 5, 16, 16384, 16385, 100000, 1 << 20})
			case y < 70:
				ctr = last[key] // replay
			case y < 82:
				ctr = last[key] - pick(r, []int64{1, 2, 100}) // older (or ≤ 0)
			case y < 90:
				ctr = pick(r, []int64{0, -1, 1, 2, 1 << 31, 1 << 40})
			default:
				ctr = last[key] + r.Int63n(1<<22)
			}
			if huge && r.Intn(3) == 0 {
				ctr = last[key] + pick(r, []int64{1 << 46, 1<<47 - 1, 1 << 47, 1<<47 + 1, 1 << 48, 1<<48 + 1, 1<<48 + 3, 1 << 62, 1<<63 - 1 - last[key], 1104042983})
			}
			w := wins[a]
			ts := w.start + r.Int63n(w.exp-w.start+1)
			switch r.Intn(14) {
			case 0:
				ts = pick(r, []int64{w.start, w.exp, w.start - 1, w.exp + 1, 0, -5, 1})
			case 1:
				ts = now
			}
			signer, pk := fmt.Sprintf("c%d", c), fmt.Sprintf("c%d", c)
			switch r.Intn(16) {
			case 0:
				signer = pick(r, []string{"c0", "c1", "c2", "c3", "b0", "b1"})
			case 1:
				pk = pick(r, []string{"c0", "c1", "b0", "bad"})
			case 2: // another key signs and presents itself as the client's key (the charge would hit client c's pool)
				signer = pick(r, []string{"c0", "c1", "c2", "b0"})
				pk = signer
			}
			tk, tv := "none", "0"
			if r.Intn(8) == 0 {
				tk = pick(r, []string{"ctr", "ts", "alloc", "blobber", "owner", "client", "sigbad", "sigother", "nosig", "ctr"})
				switch tk {
				case "ctr":
					tv = strconv.FormatInt(ctr+pick(r, []int64{1, -1, 1000, 0}), 10)
				case "ts":
					tv = strconv.FormatInt(ts+pick(r, []int64{1, -1, 0}), 10)
				case "alloc":
					tv = strconv.Itoa(r.Intn(len(allocs) + 1))
				case "blobber":
					tv = strconv.Itoa(r.Intn(nb))
				case "owner", "client":
					tv = strconv.Itoa(r.Intn(nClients))
				}
			}
			bTok := strconv.Itoa(b)
			if r.Intn(40) == 0 {
				bTok = "none"
			}
			sub := pick(r, []string{fmt.Sprintf("b%d", b), fmt.Sprintf("c%d", c), "c3", "b1"})
			ops = append(ops, fmt.Sprintf("rm %s %d %s %s %d %d %d %d %s %s %s", sub, c, pk, bTok, aTok, r.Intn(nClients), ctr, ts, signer, tk, tv))
			if ctr > last[key] && tk == "none" && signer == pk && pk == fmt.Sprintf("c%d", c) && ts >= w.start && ts <= w.exp && bTok != "none" && aTok == a {
				last[key] = ctr // what an accepted redemption would store (the generator need not be right)
			}
		case x < 80:
			c := r.Intn(nClients)
			ops = append(ops, fmt.Sprintf("lock %d %d %d", c, pick(r, []int{c, c, r.Intn(nClients)}), pick(r, []uint64{0, 1, 6104, 5000000000, 1000000000000})))
		case x < 85:
			ops = append(ops, fmt.Sprintf("unlock %d", r.Intn(nClients)))
		case x < 90:
			d := pick(r, []int64{1, 60, 86400, 2591990, 2592000, 10})
			now += d
			ops = append(ops, fmt.Sprintf("tick %d", d))
		case x < 93:
			ops = append(ops, fmt.Sprintf("kill %d", r.Intn(nb)))
		case x < 96:
			if len(allocs) < 6 {
				live := true
				for _, o := range ops {
					if strings.HasPrefix(o, "kill ") {
						live = false // the model does not describe allocation requests on killed blobbers
					}
				}
				if live {
					newAlloc()
				}
			}
		case x < 98:
			ops = append(ops, "raw "+pick(r, []string{"array", "nomarker", "null", "bigctr", "strctr"}))
		default:
			ops = append(ops, pick(r, []string{"rm b0 0 c0 0 0 0 1", "lock 9 0 1", "unlock", "rm b0 0 c0 0 0 0 1 1700000001 c0 none 7", "rm b0 0 c0 0 0 0 +1 1700000001 c0 none 0", "tick -1", "frobnicate"}))
		}
	}
	return ops
}

func fixed() [][]string {
	w := []string{"init fx0" + initTail, "addb 0 100000000 100 1000000000000", "addb 1 300000000 0 1000000000000", "addb 2 0 500 1000000000000",
		"newa 0 0,1 100000000000", "newa 1 1,2 100000000000", "lock 0 0 5000000000"}
	with := func(tag string, more ...string) []string {
		c := append([]string{}, w...)
		c[0] = "init " + tag + initTail
		return append(c, more...)
	}
	return [][]string{
		// increments, an equal counter, an older counter, the same counter on another allocation and another blobber
		with("fx1", "rm b0 0 c0 0 0 0 1 1700000000 c0 none 0", "rm b0 0 c0 0 0 0 5 1700000001 c0 none 0", "rm b0 0 c0 0 0 0 5 1700000001 c0 none 0",
			"rm b0 0 c0 0 0 0 4 1700000001 c0 none 0", "rm b0 0 c0 0 1 0 5 1700000001 c0 none 0", "rm b0 0 c0 1 1 0 5 1700000001 c0 none 0", "rm b1 0 c0 1 0 0 5 1700000002 c0 none 0"),
		// the repaired finding C15:counter-delta-overflow (/repo 83c108b): counter delta 2^48 used to wrap the int64 byte count to 0; now refused
		with("fx2", "rm c2 0 c0 1 0 0 281474976710656 1700000001 c0 none 0"),
		// … and 2^48+1 used to be charged as one chunk
		with("fx3", "rm c2 0 c0 0 0 0 281474976710657 1700000001 c0 none 0"),
		// increments just inside and beyond MaxInt64/CHUNK_SIZE
		with("fx4", "rm c2 0 c0 0 0 0 5 1700000001 c0 none 0", "rm c2 0 c0 0 0 0 281474976710657 1700000001 c0 none 0", "rm c2 0 c0 0 0 0 9223372036854775807 1700000001 c0 none 0",
			"rm c2 0 c0 0 0 0 140737488355333 1700000001 c0 none 0", "rm c2 0 c0 2 1 0 140737488355327 1700000001 c0 none 0", "rm c2 0 c0 2 1 0 140737488355328 1700000001 c0 none 0",
			"lock 0 0 5000000000000000", "rm c2 0 c0 0 0 0 1104042988 1700000001 c0 none 0"),
		// signatures
		with("fx5", "rm c2 0 c0 0 0 0 7 1700000001 c1 none 0", "rm c2 0 c1 0 0 0 7 1700000001 c0 none 0", "rm c2 0 bad 0 0 0 7 1700000001 c0 none 0",
			"rm c2 0 c0 0 0 0 7 1700000001 c0 ctr 8", "rm c2 0 c0 0 0 0 7 1700000001 c0 ts 1700000002", "rm c2 0 c0 0 0 0 7 1700000001 c0 alloc 1",
			"rm c2 0 c0 0 0 0 7 1700000001 c0 blobber 1", "rm c2 0 c0 0 0 0 7 1700000001 c0 owner 1", "rm c2 0 c0 0 0 0 7 1700000001 c0 client 1",
			"rm c2 0 c0 0 0 0 7 1700000001 c0 sigbad 0", "rm c2 0 c0 0 0 0 7 1700000001 c0 sigother 0", "rm c2 0 c0 0 0 0 7 1700000001 c0 nosig 0",
			"rm c2 0 c1 0 0 0 7 1700000001 c1 none 0", "rm c2 0 b0 0 0 0 7 1700000001 b0 none 0",
			"rm c2 0 c0 0 0 0 7 1700000001 c0 ctr 7", "rm c2 0 c0 0 0 0 7 1700000001 c0 none 0"),
		// window, fields, unknown allocation, foreign blobber, pools
		with("fx6", "rm c2 0 c0 0 0 0 3 1699999999 c0 none 0", "rm c2 0 c0 0 0 0 3 1702592001 c0 none 0", "rm c2 0 c0 0 0 0 3 1702592000 c0 none 0",
			"rm c2 1 c1 0 0 0 3 1700000005 c1 none 0", "rm c2 1 c1 0 0 0 0 1700000005 c1 none 0", "rm c2 1 c1 none 0 0 3 1700000005 c1 none 0",
			"rm c2 1 c1 0 7 0 3 1700000005 c1 none 0", "rm c2 1 c1 2 0 0 3 1700000005 c1 none 0", "rm c2 0 c0 0 0 0 4 0 c0 none 0",
			"raw array", "raw nomarker", "raw null", "raw bigctr", "raw strctr", "kill 0", "rm b0 0 c0 0 0 0 9 1700000001 c0 none 0", "kill 0",
			"unlock 0", "unlock 3", "lock 3 1 0", "lock 3 1 77", "rm b1 1 c1 1 0 0 2 1700000001 c1 none 0", "tick 2592001", "rm b1 1 c1 1 0 0 3 1700000001 c1 none 0", "rm b1 1 c1 1 0 0 4 1702592001 c1 none 0"),
		{"init fx7" + initTail, "rm b0 0 c0 0 0 0 1 1700000001 c0 none 0", "unlock 0", "frobnicate", "rm b0", "lock 0 0 x", "init"},
	}
}

// ---------------------------------------------------------------- oracle

type kv map[string]string

func parseObs(out string) (cls string, m kv) {
	f := strings.Fields(out)
	m = kv{}
	if len(f) == 0 {
		return "", m
	}
	for _, p := range f[1:] {
		if i := strings.IndexByte(p, '='); i > 0 {
			m[p[:i]] = p[i+1:]
		}
	}
	return f[0], m
}

func u(s string) uint64 {
	if s == "-" || s == "" {
		return 0
	}
	v, _ := strconv.ParseUint(s, 10, 64)
	return v
}

// exactCharge: ⌊price · (delta · CHUNK) / GB⌋ over the integers — "the read price times the newly read size".
func exactCharge(price uint64, delta int64) *big.Int {
	n := new(big.Int).Mul(new(big.Int).SetUint64(price), big.NewInt(delta))
	n.Mul(n, big.NewInt(65536))
	return n.Div(n, big.NewInt(1<<30))
}

// oracle: C15 on the implementation's answers alone. It keeps its own books (locks, unlocks, accepted redemptions per
// key) and compares them with what the contract reports after every operation.
func oracle(ops, outs []string) *corr.Violation {
	mk := func(sig, msg string) *corr.Violation {
		return &corr.Violation{Signature: "C15:" + sig, Message: msg, Ops: ops, Impl: outs}
	}
	type alloc struct {
		start, exp int64
		price      map[int]uint64
	}
	var allocs []alloc
	pool := map[int]*big.Int{} // expected read-pool balance per client (absent = never created)
	lastCtr := map[string]int64{}
	charged := map[string]*big.Int{} // Σ debits per key
	steps := map[string]int{}
	for i, line := range ops {
		op := strings.Fields(line)
		if len(op) == 0 || outs[i] == "bad-op" {
			continue
		}
		cls, ob := parseObs(outs[i])
		if strings.HasPrefix(cls, "panic") || strings.HasPrefix(cls, "harness-panic") {
			return mk("panic", fmt.Sprintf("op %d %q: %s", i, line, outs[i]))
		}
		switch op[0] {
		case "init":
			allocs, pool, lastCtr, charged, steps = nil, map[int]*big.Int{}, map[string]int64{}, map[string]*big.Int{}, map[string]int{}
		case "newa":
			if cls != "ok" {
				continue
			}
			f := strings.Split(ob["alloc"], ":")
			if len(f) < 4 {
				continue
			}
			a := alloc{price: map[int]uint64{}}
			a.start, _ = strconv.ParseInt(f[1], 10, 64)
			a.exp, _ = strconv.ParseInt(f[2], 10, 64)
			rest := strings.Split(strings.Join(f[3:], ":"), ",")
			for _, bp := range rest {
				x := strings.Split(bp, ":")
				if len(x) == 2 {
					a.price[atoi(x[0])] = u(x[1])
				}
			}
			allocs = append(allocs, a)
		case "lock":
			t := atoi(op[2])
			if cls == "ok" {
				if pool[t] == nil {
					pool[t] = new(big.Int)
				}
				pool[t].Add(pool[t], new(big.Int).SetUint64(u(op[3])))
			}
			if e := pool[t]; (e == nil) != (ob["rp"] == "-") || (e != nil && e.String() != ob["rp"]) {
				return mk("pool-ledger", fmt.Sprintf("op %d %q: read pool of client %d is %s, locks - unlocks - charges say %v", i, line, t, ob["rp"], e))
			}
		case "unlock":
			j := atoi(op[1])
			if cls == "ok" && pool[j] != nil {
				pool[j] = new(big.Int)
			}
			if e := pool[j]; (e == nil) != (ob["rp"] == "-") || (e != nil && e.String() != ob["rp"]) {
				return mk("pool-ledger", fmt.Sprintf("op %d %q: read pool of client %d is %s, books say %v", i, line, j, ob["rp"], e))
			}
		case "rm":
			a := op[1:]
			c, pk, bTok, ai := atoi(a[1]), a[2], a[3], atoi(a[4])
			ctr, _ := strconv.ParseInt(a[6], 10, 64)
			ts, _ := strconv.ParseInt(a[7], 10, 64)
			signer, tk, tv := a[8], a[9], a[10]
			authentic := signer == fmt.Sprintf("c%d", c) && pk == signer // signed by the key whose hash is the client id
			bi := -1
			if bTok != "none" {
				bi = atoi(bTok)
			}
			switch tk { // a field changed after signing (to a different value) breaks the signature
			case "ctr":
				v, _ := strconv.ParseInt(tv, 10, 64)
				authentic = authentic && v == ctr
				ctr = v
			case "ts":
				v, _ := strconv.ParseInt(tv, 10, 64)
				authentic = authentic && v == ts
				ts = v
			case "alloc":
				authentic = authentic && atoi(tv) == ai
				ai = atoi(tv)
			case "blobber":
				authentic = authentic && atoi(tv) == bi
				bi = atoi(tv)
			case "owner":
				authentic = authentic && tv == a[5]
			case "client":
				authentic = authentic && atoi(tv) == c
				c = atoi(tv)
			case "sigbad", "sigother", "nosig":
				authentic = false
			}
			key := fmt.Sprintf("%d|%d|%d", bi, c, ai)
			before := new(big.Int)
			if pool[c] != nil {
				before.Set(pool[c])
			}
			after := new(big.Int).SetUint64(u(ob["rp"]))
			if cls != "ok" {
				// a refused redemption changes neither the pool nor the stored counter
				if (pool[c] == nil) != (ob["rp"] == "-") || after.Cmp(before) != 0 {
					return mk("refused-redeem-changed-pool", fmt.Sprintf("op %d %q answered %s but the read pool went %v -> %s", i, line, cls, pool[c], ob["rp"]))
				}
				if l, ok := lastCtr[key]; (ok && ob["ctr"] != strconv.FormatInt(l, 10)) || (!ok && ob["ctr"] != "-") {
					return mk("refused-redeem-changed-counter", fmt.Sprintf("op %d %q answered %s but the stored counter is %s (was %v)", i, line, cls, ob["ctr"], lastCtr[key]))
				}
				continue
			}
			if !authentic {
				return mk("unsigned-marker-accepted", fmt.Sprintf("op %d %q: accepted although the marker as submitted is not signed by the key whose hash is its client id", i, line))
			}
			if ai >= len(allocs) || bi < 0 {
				return mk("accepted-without-allocation", fmt.Sprintf("op %d %q", i, line))
			}
			al := allocs[ai]
			price, in := al.price[bi]
			if !in {
				return mk("accepted-foreign-blobber", fmt.Sprintf("op %d %q: blobber %d does not serve allocation %d", i, line, bi, ai))
			}
			if ts < al.start || ts > al.exp {
				return mk("accepted-outside-window", fmt.Sprintf("op %d %q: timestamp %d outside [%d,%d]", i, line, ts, al.start, al.exp))
			}
			l := lastCtr[key]
			if ctr < l || ctr <= 0 {
				return mk("counter-moved-backwards", fmt.Sprintf("op %d %q: counter %d accepted after %d", i, line, ctr, l))
			}
			debit := new(big.Int).Sub(before, after)
			if debit.Sign() < 0 {
				return mk("redeem-credited-pool", fmt.Sprintf("op %d %q: pool grew %v -> %v", i, line, before, after))
			}
			delta := ctr - l
			want := exactCharge(price, delta)
			// float64 evaluation of price·size: exact below 2^53, otherwise within one unit in the last place (+1 for the truncation)
			tol := new(big.Int)
			if new(big.Int).Mul(new(big.Int).SetUint64(price), new(big.Int).Mul(big.NewInt(delta), big.NewInt(65536))).BitLen() > 53 {
				tol.Rsh(want, 52)
				tol.Add(tol, big.NewInt(1))
			}
			if diff := new(big.Int).Abs(new(big.Int).Sub(debit, want)); diff.Cmp(tol) > 0 {
				if new(big.Int).Mul(big.NewInt(delta), big.NewInt(65536)).BitLen() > 63 {
					return mk("counter-delta-overflow", fmt.Sprintf("op %d %q: counter %d -> %d (%d chunks) at read price %d debited %v, read price x read size = %v (the int64 byte count numReads*CHUNK_SIZE wrapped)", i, line, l, ctr, delta, price, debit, want))
				}
				return mk("charge-mismatch", fmt.Sprintf("op %d %q: counter %d -> %d at read price %d debited %v, read price x newly read size = %v", i, line, l, ctr, price, debit, want))
			}
			if delta == 0 && debit.Sign() != 0 {
				return mk("replay-charged", fmt.Sprintf("op %d %q: an equal counter was charged %v", i, line, debit))
			}
			if ob["ctr"] != strconv.FormatInt(ctr, 10) {
				return mk("counter-not-stored", fmt.Sprintf("op %d %q: stored counter %s after accepting %d", i, line, ob["ctr"], ctr))
			}
			lastCtr[key] = ctr
			if pool[c] == nil {
				pool[c] = new(big.Int)
			}
			pool[c].Set(after)
			if charged[key] == nil {
				charged[key] = new(big.Int)
			}
			charged[key].Add(charged[key], debit)
			steps[key]++
			// telescoping: Σ debits of the key vs price × max counter (each step truncates once; no overflow, exact range)
			tot := exactCharge(price, ctr)
			if new(big.Int).Mul(new(big.Int).SetUint64(price), new(big.Int).Mul(big.NewInt(ctr), big.NewInt(65536))).BitLen() <= 53 {
				lo := new(big.Int).Sub(tot, big.NewInt(int64(steps[key])))
				if charged[key].Cmp(tot) > 0 || charged[key].Cmp(lo) <= 0 && steps[key] > 0 && charged[key].Cmp(tot) != 0 {
					return mk("total-not-telescoping", fmt.Sprintf("op %d %q: key %s charged %v in %d steps, read price x max counter = %v", i, line, key, charged[key], steps[key], tot))
				}
			}
		}
	}
	return nil
}
