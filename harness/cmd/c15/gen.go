package main

import (
	"math/rand"

	"verifharness/lib/corr"
)

func gen(r *rand.Rand, thorough bool, i int) []string { return nil }
func fixed() [][]string                               { return nil }
func oracle(ops, outs []string) *corr.Violation        { return nil }
