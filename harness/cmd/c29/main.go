// C29 harness: the real chaincore/block (getHashData via hook, ComputeHash, ComputeTxnMap, Validate with real
// node keys of both signature schemes) against Model/BlockHash.lean interpreted over Generated/C29.lean.
//
// A case: `init`, `miner`…, one `blk` (a block built, hashed and signed with the REAL code by the generator),
// `signed` (tells the model which signature the real Sign produced), then `data`/`hash`/`validate` and every
// single-field tampering of the block as a `tamper` op that answers the tampered block's hash and verdict.
// The model driver computes SHA3 itself, so hashes are compared bit for bit.
//
// Oracle = the property on the real code's answers: a tampering of a field the property names must change the hash;
// a tampered / wrongly signed / transaction-repeating received block must be rejected.
package main

import (
	"context"
	"encoding/hex"
	"fmt"
	"math/rand"
	"strconv"
	"strings"
	"sync"

	"0chain.net/chaincore/block"
	"0chain.net/chaincore/node"
	"0chain.net/chaincore/transaction"
	"0chain.net/core/common"
	"0chain.net/core/config"
	"0chain.net/core/encryption"
	"verifharness/hashkit"
	"verifharness/lib/corr"
)

var strFields = []string{"Version", "LatestFinalizedMagicBlockHash", "PrevHash", "MinerID", "ClientStateHash", "Hash", "Signature", "ChainID"}
var intFields = []string{"CreationDate", "LatestFinalizedMagicBlockRound", "Round", "RoundRandomSeed", "RoundTimeoutCount", "RoundRank", "RunningTxnCount", "StateChangesCount"}

func isStr(f string) bool {
	for _, x := range strFields {
		if x == f {
			return true
		}
	}
	return false
}
func isInt(f string) bool {
	for _, x := range intFields {
		if x == f {
			return true
		}
	}
	return false
}

type mbParams struct {
	num, start int64
	t, n       int
	prev       string
}

type spec struct {
	S     map[string]string
	I     map[string]int64
	Txns  [][2]string
	HasMB bool
	MBH   string // stored Hash field
	MBC   string // recorded GetHash() of the parameters (what the model takes as content)
	MBP   mbParams
	Map   bool
}

func (s *spec) clone() *spec {
	c := &spec{S: map[string]string{}, I: map[string]int64{}, HasMB: s.HasMB, MBH: s.MBH, MBC: s.MBC, MBP: s.MBP, Map: s.Map}
	for k, v := range s.S {
		c.S[k] = v
	}
	for k, v := range s.I {
		c.I[k] = v
	}
	c.Txns = append([][2]string(nil), s.Txns...)
	return c
}

func parsePair(v string) (string, string, bool) {
	p := strings.Split(v, "/")
	if len(p) != 2 {
		return "", "", false
	}
	a, ok1 := hashkit.U(p[0])
	b, ok2 := hashkit.U(p[1])
	return a, b, ok1 && ok2
}

func parseMBP(v string) (mbParams, bool) {
	p := strings.Split(v, ",")
	if len(p) != 5 {
		return mbParams{}, false
	}
	var m mbParams
	var err error
	if m.num, err = strconv.ParseInt(p[0], 10, 64); err != nil {
		return m, false
	}
	if m.start, err = strconv.ParseInt(p[1], 10, 64); err != nil {
		return m, false
	}
	t, e1 := strconv.Atoi(p[2])
	n, e2 := strconv.Atoi(p[3])
	prev, ok := hashkit.U(p[4])
	m.t, m.n, m.prev = t, n, prev
	return m, e1 == nil && e2 == nil && ok
}

func (m mbParams) wire() string {
	return fmt.Sprintf("%d,%d,%d,%d,%s", m.num, m.start, m.t, m.n, hashkit.W(m.prev))
}

func (m mbParams) build() *block.MagicBlock {
	mb := block.NewMagicBlock()
	mb.Miners = node.NewPool(node.NodeTypeMiner)
	mb.Sharders = node.NewPool(node.NodeTypeSharder)
	mb.MagicBlockNumber, mb.StartingRound, mb.T, mb.N, mb.PreviousMagicBlockHash = m.num, m.start, m.t, m.n, m.prev
	return mb
}

func parseBlk(toks []string) (*spec, bool) {
	s := &spec{S: map[string]string{}, I: map[string]int64{}}
	for _, tok := range toks {
		if tok == "map" {
			s.Map = true
			continue
		}
		kv := strings.Split(tok, "=")
		if len(kv) != 2 {
			return nil, false
		}
		k, v := kv[0], kv[1]
		switch {
		case k == "t":
			a, b, ok := parsePair(v)
			if !ok {
				return nil, false
			}
			s.Txns = append(s.Txns, [2]string{a, b})
		case k == "mb":
			a, b, ok := parsePair(v)
			if !ok {
				return nil, false
			}
			s.HasMB, s.MBH, s.MBC = true, a, b
		case k == "mbp":
			m, ok := parseMBP(v)
			if !ok {
				return nil, false
			}
			s.MBP = m
		case strings.HasPrefix(k, "s."):
			x, ok := hashkit.U(v)
			if !ok || !isStr(k[2:]) {
				return nil, false
			}
			s.S[k[2:]] = x
		case strings.HasPrefix(k, "i."):
			x, err := strconv.ParseInt(v, 10, 64)
			if err != nil || !isInt(k[2:]) {
				return nil, false
			}
			s.I[k[2:]] = x
		default:
			return nil, false
		}
	}
	return s, true
}

// build constructs the real block. mbOK=false when the recorded GetHash of the magic block parameters is not what
// the real code computes (a harness inconsistency, surfaced as an answer).
func (s *spec) build() (b *block.Block, mbOK bool) {
	b = &block.Block{}
	b.Version = s.S["Version"]
	b.CreationDate = common.Timestamp(s.I["CreationDate"])
	b.LatestFinalizedMagicBlockHash = s.S["LatestFinalizedMagicBlockHash"]
	b.LatestFinalizedMagicBlockRound = s.I["LatestFinalizedMagicBlockRound"]
	b.PrevHash = s.S["PrevHash"]
	b.MinerID = s.S["MinerID"]
	b.Round = s.I["Round"]
	b.SetRoundRandomSeed(s.I["RoundRandomSeed"])
	b.RoundTimeoutCount = int(s.I["RoundTimeoutCount"])
	if v := s.S["ClientStateHash"]; v != "" {
		b.ClientStateHash = []byte(v)
	}
	b.Hash = s.S["Hash"]
	b.Signature = s.S["Signature"]
	b.ChainID = s.S["ChainID"]
	b.RoundRank = int(s.I["RoundRank"])
	b.RunningTxnCount = s.I["RunningTxnCount"]
	b.StateChangesCount = int(s.I["StateChangesCount"])
	for _, t := range s.Txns {
		tx := &transaction.Transaction{}
		tx.Hash, tx.OutputHash = t[0], t[1]
		b.Txns = append(b.Txns, tx)
	}
	mbOK = true
	if s.HasMB {
		mb := s.MBP.build()
		if mb.GetHash() != s.MBC {
			mbOK = false
		}
		mb.Hash = s.MBH
		b.MagicBlock = mb
	}
	if s.Map {
		b.ComputeTxnMap()
	}
	return b, mbOK
}

func verdict(b *block.Block) string {
	err := b.Validate(context.Background())
	if err == nil {
		return "ok"
	}
	if err == config.ErrSupportedChain {
		return "reject chainValid"
	}
	if ce, ok := err.(*common.Error); ok {
		switch {
		case ce.Code == "invalid_request" && strings.Contains(ce.Msg, "hash required"):
			return "reject hashNonEmpty"
		case ce.Code == "invalid_request" && strings.Contains(ce.Msg, "miner id is required"):
			return "reject minerNonEmpty"
		case ce.Code == "unknown_miner":
			return "reject minerKnown"
		case ce.Code == "duplicate_transactions":
			return "reject noDupTxnsIfMap"
		case ce.Code == "incorrect_block_hash":
			return "reject hashMatches"
		case ce.Code == "signature invalid":
			return "reject sigVerifies"
		}
		return "reject other:" + ce.Code
	}
	// only miner.Verify returns plain errors (undecodable signature / hash)
	return "reject sigVerifies"
}

func (s *spec) tamper(w []string) (*spec, bool) {
	c := s.clone()
	idx := func(x string) (int, bool) {
		i, err := strconv.Atoi(x)
		return i, err == nil && i >= 0 && i < len(c.Txns)
	}
	switch {
	case len(w) == 3 && w[0] == "s":
		v, ok := hashkit.U(w[2])
		if !ok || !isStr(w[1]) {
			return nil, false
		}
		c.S[w[1]] = v
	case len(w) == 3 && w[0] == "i":
		v, err := strconv.ParseInt(w[2], 10, 64)
		if err != nil || !isInt(w[1]) {
			return nil, false
		}
		c.I[w[1]] = v
	case len(w) == 3 && (w[0] == "txnhash" || w[0] == "txnout"):
		i, ok := idx(w[1])
		v, ok2 := hashkit.U(w[2])
		if !ok || !ok2 {
			return nil, false
		}
		if w[0] == "txnhash" {
			c.Txns[i][0] = v
		} else {
			c.Txns[i][1] = v
		}
	case len(w) == 2 && w[0] == "txndup":
		i, ok := idx(w[1])
		if !ok {
			return nil, false
		}
		c.Txns = append(c.Txns, c.Txns[i])
	case len(w) == 2 && w[0] == "txndrop":
		i, ok := idx(w[1])
		if !ok {
			return nil, false
		}
		c.Txns = append(c.Txns[:i:i], c.Txns[i+1:]...)
	case len(w) == 3 && w[0] == "txnswap":
		i, ok := idx(w[1])
		j, ok2 := idx(w[2])
		if !ok || !ok2 {
			return nil, false
		}
		c.Txns[i], c.Txns[j] = c.Txns[j], c.Txns[i]
	case len(w) == 2 && w[0] == "mbhash":
		v, ok := hashkit.U(w[1])
		if !ok || !c.HasMB {
			return nil, false
		}
		c.MBH = v
	case len(w) == 3 && w[0] == "mbcontent":
		v, ok := hashkit.U(w[1])
		m, ok2 := parseMBP(w[2])
		if !ok || !ok2 || !c.HasMB {
			return nil, false
		}
		c.MBC, c.MBP = v, m
	case len(w) == 1 && w[0] == "mbdrop":
		if !c.HasMB {
			return nil, false
		}
		c.HasMB = false
	case len(w) == 3 && w[0] == "mbadd":
		a, b, ok := parsePair(w[1])
		m, ok2 := parseMBP(w[2])
		if !ok || !ok2 {
			return nil, false
		}
		c.HasMB, c.MBH, c.MBC, c.MBP = true, a, b, m
	case len(w) == 1 && w[0] == "nomap":
		c.Map = false
	default:
		return nil, false
	}
	return c, true
}

var (
	verdictMu   sync.Mutex
	verdictHist = map[string]int{}
)

// countVerdicts records the verdict classes of a run for the evidence file (which rejection classes were exercised).
func countVerdicts(outs []string) {
	verdictMu.Lock()
	defer verdictMu.Unlock()
	for _, o := range outs {
		f := strings.Fields(o)
		switch {
		case len(f) >= 3 && f[0] == "hash":
			verdictHist[strings.Join(f[2:], " ")]++
		case len(f) >= 1 && (f[0] == "ok" || f[0] == "reject"):
			verdictHist[o]++
		}
	}
}

func impl(ops []string) (outs []string) {
	defer func() { countVerdicts(outs) }()
	hashkit.Setup()
	outs = make([]string, len(ops))
	var cur *spec
	scheme := ""
	for i, op := range ops {
		w := strings.Fields(op)
		func() {
			defer func() {
				if r := recover(); r != nil {
					outs[i] = fmt.Sprintf("panic %v", r)
				}
			}()
			outs[i] = "bad-op"
			if len(w) == 0 {
				return
			}
			switch w[0] {
			case "init":
				if len(w) != 4 {
					return
				}
				sc, ok1 := hashkit.U(w[1])
				mc, ok2 := hashkit.U(w[2])
				if !ok1 || !ok2 || sc != hashkit.ServerChain || mc != config.MAIN_CHAIN || !encryption.IsValidSignatureScheme(w[3]) {
					return
				}
				scheme, cur = w[3], nil
				outs[i] = "ok"
			case "miner":
				if len(w) != 3 || scheme == "" {
					return
				}
				id, ok1 := hashkit.U(w[1])
				pk, ok2 := hashkit.U(w[2])
				if !ok1 || !ok2 {
					return
				}
				n := node.Provider()
				n.Type = node.NodeTypeMiner
				n.SetSignatureSchemeType(scheme)
				if err := n.SetPublicKey(pk); err != nil {
					outs[i] = "harness-bad-key"
					return
				}
				n.ID = id
				node.RegisterNode(n)
				outs[i] = "ok"
			case "signed":
				if len(w) == 4 {
					outs[i] = "ok"
				}
			case "blk":
				s, ok := parseBlk(w[1:])
				if !ok {
					return
				}
				b, mbOK := s.build()
				if !mbOK {
					outs[i] = "harness-mb-mismatch"
					return
				}
				cur = s
				outs[i] = "hash " + b.ComputeHash()
			case "data", "hash", "validate":
				if cur == nil || len(w) != 1 {
					return
				}
				b, _ := cur.build()
				switch w[0] {
				case "data":
					outs[i] = "data " + hashkit.W(b.VerifHashData())
				case "hash":
					outs[i] = "hash " + b.ComputeHash()
				case "validate":
					outs[i] = verdict(b)
				}
			case "tamper":
				if cur == nil {
					return
				}
				t, ok := cur.tamper(w[1:])
				if !ok {
					return
				}
				b, mbOK := t.build()
				if !mbOK {
					outs[i] = "harness-mb-mismatch"
					return
				}
				h := b.ComputeHash()
				b2, _ := t.build()
				outs[i] = "hash " + h + " " + verdict(b2)
			}
		}()
	}
	return outs
}

// ---- generator ---------------------------------------------------------------------------------------------

func otherStr(r *rand.Rand, old string) string {
	for {
		var v string
		switch r.Intn(8) {
		case 0:
			v = ""
		case 1:
			v = hashkit.RandHex(r, 32)
		case 2:
			v = "free:text " + strconv.Itoa(r.Intn(1000)) // contains the separator and a space
		case 3:
			v = old + "0"
		case 4:
			v = strings.ToUpper(old)
		default:
			v = hashkit.FlipHex(r, old)
		}
		if v != old {
			return v
		}
	}
}

func txnHashLike(r *rand.Rand) string {
	return encryption.Hash(fmt.Sprintf("%d:%d:%s:%s:%d:%s", r.Int63n(1<<40), r.Intn(100), hashkit.RandHex(r, 32), hashkit.RandHex(r, 32), r.Intn(1000), hashkit.RandHex(r, 32)))
}

func (s *spec) wire() string {
	var p []string
	for _, f := range strFields {
		if v, ok := s.S[f]; ok {
			p = append(p, "s."+f+"="+hashkit.W(v))
		}
	}
	for _, f := range intFields {
		if v, ok := s.I[f]; ok {
			p = append(p, "i."+f+"="+strconv.FormatInt(v, 10))
		}
	}
	for _, t := range s.Txns {
		p = append(p, "t="+hashkit.W(t[0])+"/"+hashkit.W(t[1]))
	}
	if s.HasMB {
		p = append(p, "mb="+hashkit.W(s.MBH)+"/"+hashkit.W(s.MBC), "mbp="+s.MBP.wire())
	}
	if s.Map {
		p = append(p, "map")
	}
	return "blk " + strings.Join(p, " ")
}

func randMBP(r *rand.Rand) mbParams {
	return mbParams{num: int64(r.Intn(50)), start: int64(r.Intn(100000)), t: r.Intn(10), n: r.Intn(20), prev: hashkit.RandHex(r, 32)}
}

func gen(r *rand.Rand, thorough bool, i int) []string {
	hashkit.Setup()
	scheme := encryption.SignatureSchemeBls0chain
	if r.Intn(2) == 0 {
		scheme = encryption.SignatureSchemeEd25519
	}
	ops := []string{fmt.Sprintf("init %s %s %s", hashkit.W(hashkit.ServerChain), hashkit.W(config.MAIN_CHAIN), scheme)}
	nm := 1 + r.Intn(3)
	var keys []*hashkit.Key
	for k := 0; k < nm; k++ {
		key := hashkit.NewKey(r, scheme)
		keys = append(keys, key)
		ops = append(ops, fmt.Sprintf("miner %s %s", hashkit.W(key.ID), hashkit.W(key.Pub)))
	}
	gk := keys[r.Intn(nm)]
	s := &spec{S: map[string]string{}, I: map[string]int64{}}
	s.S["Version"] = "1.0"
	s.S["MinerID"] = gk.ID
	s.S["PrevHash"] = hashkit.RandHex(r, 32)
	s.S["LatestFinalizedMagicBlockHash"] = hashkit.RandHex(r, 32)
	s.S["ClientStateHash"] = string([]byte{byte(1 + r.Intn(255)), byte(r.Intn(256)), byte(r.Intn(256)), byte(r.Intn(256))}) + hashkit.RandHex(r, 14)
	s.S["ChainID"] = hashkit.ServerChain
	if r.Intn(4) == 0 {
		s.S["ChainID"] = ""
	}
	for _, f := range intFields {
		s.I[f] = hashkit.BoundaryInt64(r)
	}
	s.I["Round"] = 1 + r.Int63n(1<<30)
	if r.Intn(6) == 0 {
		s.I["Round"] = hashkit.BoundaryInt64(r)
	}
	nt := r.Intn(7)
	if thorough && r.Intn(4) == 0 {
		nt = r.Intn(40)
	}
	for k := 0; k < nt; k++ {
		out := encryption.EmptyHash
		if r.Intn(3) > 0 {
			out = encryption.Hash("output " + strconv.Itoa(r.Intn(1 << 30)))
		}
		s.Txns = append(s.Txns, [2]string{txnHashLike(r), out})
	}
	if r.Intn(3) == 0 {
		s.HasMB = true
		s.MBP = randMBP(r)
		s.MBC = s.MBP.build().GetHash()
		if r.Intn(2) == 0 {
			s.MBH = s.MBC // as a decoded block carries it
		}
	}
	s.Map = r.Intn(8) != 0
	b, _ := s.build()
	s.S["Hash"] = b.ComputeHash()
	s.S["Signature"] = gk.Sign(s.S["Hash"])
	ops = append(ops, s.wire(), fmt.Sprintf("signed %s %s %s", hashkit.W(gk.ID), hashkit.W(s.S["Hash"]), hashkit.W(s.S["Signature"])))
	ops = append(ops, "data", "hash", "validate")
	// all single-field tamperings
	for _, f := range strFields {
		ops = append(ops, fmt.Sprintf("tamper s %s %s", f, hashkit.W(otherStr(r, s.S[f]))))
	}
	// a different registered miner, a signature by another key, a valid signature of another hash
	if nm > 1 {
		ops = append(ops, fmt.Sprintf("tamper s MinerID %s", hashkit.W(keys[(indexOf(keys, gk)+1)%nm].ID)))
	}
	ops = append(ops, fmt.Sprintf("tamper s Signature %s", hashkit.W(hashkit.NewKey(r, scheme).Sign(s.S["Hash"]))))
	ops = append(ops, fmt.Sprintf("tamper s Signature %s", hashkit.W(gk.Sign(encryption.Hash("x"+s.S["Hash"])))))
	for _, f := range intFields {
		v := hashkit.BoundaryInt64(r)
		for v == s.I[f] {
			v = r.Int63()
		}
		ops = append(ops, fmt.Sprintf("tamper i %s %d", f, v))
		if r.Intn(3) == 0 {
			ops = append(ops, fmt.Sprintf("tamper i %s %d", f, s.I[f]+1-2*int64(r.Intn(2))))
		}
	}
	for k := range s.Txns {
		if len(s.Txns) > 4 && r.Intn(3) > 0 {
			continue
		}
		ops = append(ops, fmt.Sprintf("tamper txnhash %d %s", k, hashkit.W(hashkit.FlipHex(r, s.Txns[k][0]))),
			fmt.Sprintf("tamper txnout %d %s", k, hashkit.W(hashkit.FlipHex(r, s.Txns[k][1]))),
			fmt.Sprintf("tamper txndup %d", k), fmt.Sprintf("tamper txndrop %d", k))
	}
	if len(s.Txns) > 0 {
		ops = append(ops, fmt.Sprintf("tamper txndup %d", len(s.Txns)-1)) // the Merkle-collision shape
	}
	if len(s.Txns) > 1 {
		a, c := r.Intn(len(s.Txns)), r.Intn(len(s.Txns))
		ops = append(ops, fmt.Sprintf("tamper txnswap %d %d", a, c), fmt.Sprintf("tamper txnswap 0 %d", len(s.Txns)-1))
	}
	ops = append(ops, "tamper nomap")
	if s.HasMB {
		m2 := randMBP(r)
		ops = append(ops, fmt.Sprintf("tamper mbhash %s", hashkit.W(otherStr(r, s.MBH))),
			fmt.Sprintf("tamper mbcontent %s %s", hashkit.W(m2.build().GetHash()), m2.wire()), "tamper mbdrop")
		m3 := s.MBP
		m3.t++
		ops = append(ops, fmt.Sprintf("tamper mbcontent %s %s", hashkit.W(m3.build().GetHash()), m3.wire()))
	} else {
		m2 := randMBP(r)
		h := ""
		if r.Intn(2) == 0 {
			h = otherStr(r, "")
		}
		ops = append(ops, fmt.Sprintf("tamper mbadd %s/%s %s", hashkit.W(h), hashkit.W(m2.build().GetHash()), m2.wire()))
	}
	// malformed stream
	if r.Intn(5) == 0 {
		ops = append(ops, "tamper s Round 00", "tamper i MinerID 3", "tamper s Nope 00", "tamper txnhash 99 00", "frobnicate", "tamper s MinerID zz")
	}
	ops = append(ops, "hash")
	return ops
}

func indexOf(ks []*hashkit.Key, k *hashkit.Key) int {
	for i, x := range ks {
		if x == k {
			return i
		}
	}
	return 0
}

// ---- oracle ------------------------------------------------------------------------------------------------

// named: tamperings of fields the property names as determining the block's effect.
// generator=MinerID, parent=PrevHash, round, random seed, transactions, their outputs, resulting state, magic block.
// A run can violate the property in several ways; the oracle reports ONE per run, preferring any signature other
// than the two recorded findings, then the rarer of the two, so that none of them hides another.
func oracle(ops, outs []string) *corr.Violation {
	all := oracleAll(ops, outs)
	rank := func(v *corr.Violation) int {
		switch v.Signature {
		case "C29:state-hash-not-bound":
			return 2
		case "C29:magic-block-content-not-bound":
			return 1
		}
		return 0
	}
	var best *corr.Violation
	for _, v := range all {
		if best == nil || rank(v) < rank(best) {
			best = v
		}
	}
	return best
}

func oracleAll(ops, outs []string) (all []*corr.Violation) {
	mk := func(sig, msg string) *corr.Violation {
		v := &corr.Violation{Signature: "C29:" + sig, Message: msg, Ops: ops, Impl: outs}
		all = append(all, v)
		return v
	}
	var cur *spec
	pristineHash, pristineVerdict := "", ""
	for i, op := range ops {
		w := strings.Fields(op)
		o := strings.Fields(outs[i])
		if len(w) == 0 || len(o) == 0 {
			continue
		}
		if strings.HasPrefix(outs[i], "panic") {
			mk("panic", fmt.Sprintf("op %d %q panicked: %s", i, op, outs[i]))
		}
		switch w[0] {
		case "init":
			cur, pristineHash, pristineVerdict = nil, "", ""
		case "blk":
			if o[0] != "hash" {
				continue
			}
			cur, _ = parseBlk(w[1:])
			pristineHash, pristineVerdict = o[1], ""
		case "hash":
			if o[0] == "hash" && pristineHash != "" && o[1] != pristineHash {
				mk("hash-not-deterministic", fmt.Sprintf("op %d: ComputeHash of the same block gave %s, before %s", i, o[1], pristineHash))
			}
		case "validate":
			pristineVerdict = outs[i]
		case "tamper":
			if cur == nil || o[0] != "hash" || len(o) < 3 {
				continue
			}
			t, ok := cur.tamper(w[1:])
			if !ok {
				continue
			}
			h, accepted := o[1], o[2] == "ok"
			changed, what, sig := false, "", ""
			switch w[1] {
			case "s":
				changed = t.S[w[2]] != cur.S[w[2]]
				switch w[2] {
				case "MinerID":
					what, sig = "generator (MinerID)", "generator-not-bound"
				case "PrevHash":
					what, sig = "parent (PrevHash)", "parent-not-bound"
				case "ClientStateHash":
					what, sig = "resulting state (ClientStateHash)", "state-hash-not-bound"
				case "Hash":
					if changed && accepted {
						mk("hash-mismatch-accepted", fmt.Sprintf("op %d %q: block with a hash field that is not the hash of its contents passes Validate", i, op))
					}
				case "Signature":
					// another spelling (hex letter case) of the same signature still "matches"
					if changed && accepted && !strings.EqualFold(t.S[w[2]], cur.S[w[2]]) {
						mk("bad-signature-accepted", fmt.Sprintf("op %d %q: block with a foreign signature passes Validate", i, op))
					}
				}
			case "i":
				changed = t.I[w[2]] != cur.I[w[2]]
				switch w[2] {
				case "Round":
					what, sig = "round", "round-not-bound"
				case "RoundRandomSeed":
					what, sig = "random seed", "seed-not-bound"
				}
			case "txnhash", "txndrop", "txnswap":
				changed = fmt.Sprint(t.Txns) != fmt.Sprint(cur.Txns)
				what, sig = "transactions", "transactions-not-bound"
			case "txnout":
				changed = fmt.Sprint(t.Txns) != fmt.Sprint(cur.Txns)
				what, sig = "transaction outputs", "outputs-not-bound"
			case "txndup":
				// a received block (TxnsMap built) that repeats a transaction is rejected
				if cur.Map && accepted {
					mk("duplicate-txn-accepted", fmt.Sprintf("op %d %q: block repeating a transaction passes Validate", i, op))
				}
			case "mbhash":
				// the stored hash field of the magic block: effective hash changes unless both are the computed one
				effOld, effNew := cur.MBH, t.MBH
				if effOld == "" {
					effOld = cur.MBC
				}
				if effNew == "" {
					effNew = t.MBC
				}
				changed = effOld != effNew
				what, sig = "magic block (hash)", "magic-block-hash-not-bound"
			case "mbcontent":
				changed = t.MBC != cur.MBC
				what, sig = "magic block (contents)", "magic-block-content-not-bound"
			case "mbdrop", "mbadd":
				changed = true
				what, sig = "magic block (presence)", "magic-block-presence-not-bound"
			}
			if what == "" || !changed {
				continue
			}
			if h == pristineHash {
				mk(sig, fmt.Sprintf("op %d %q: %s changed, ComputeHash unchanged (%s)", i, op, what, h))
				continue // that Validate then accepts too is the same defect, not a second one
			}
			if pristineVerdict == "ok" && accepted {
				mk("tampered-accepted:"+sig, fmt.Sprintf("op %d %q: %s changed in an accepted block, Validate still accepts", i, op, what))
			}
		}
	}
	return all
}

func fixed() [][]string {
	hashkit.Setup()
	initL := fmt.Sprintf("init %s %s %s", hashkit.W(hashkit.ServerChain), hashkit.W(config.MAIN_CHAIN), encryption.SignatureSchemeBls0chain)
	hx := func(s string) string { return hex.EncodeToString([]byte(s)) }
	mp := mbParams{num: 1, start: 5, t: 2, n: 3, prev: "ab"}
	mh := mp.build().GetHash()
	return [][]string{
		// Lean `hashdata_two_free_text_collision`: two different blocks, same hash data (PrevHash and MB hash both free text)
		{initL,
			"blk s.MinerID=" + hx("m") + " s.PrevHash=" + hx("p") + " i.CreationDate=1 i.Round=2 i.RoundRandomSeed=3 i.StateChangesCount=4 mb=" + hx("5:6:7:8:::z") + "/" + hashkit.W(mh) + " mbp=" + mp.wire(),
			"data",
			"blk s.MinerID=" + hx("m") + " s.PrevHash=" + hx("p:1:2:3:4::") + " i.CreationDate=5 i.Round=6 i.RoundRandomSeed=7 i.StateChangesCount=8 mb=" + hx("z") + "/" + hashkit.W(mh) + " mbp=" + mp.wire(),
			"data"},
		// Lean `txn_count_not_bound_without_dup_check` / `merkle_dup_collision`: [a,b,c] and [a,b,c,c]
		{initL, "blk s.MinerID=" + hx("m") + " t=aa/bb t=cc/dd t=ee/ff", "hash", "tamper txndup 2", "blk s.MinerID=" + hx("m") + " t=aa/bb t=cc/dd t=ee/ff map", "tamper txndup 2",
			"blk s.MinerID=" + hx("m") + " t=aa/bb", "tamper txndup 0"},
		// Lean `clientStateHash_not_bound`, `magicBlock_content_not_bound`
		{initL, "blk s.MinerID=" + hx("m") + " s.ClientStateHash=0102 mb=" + hx("storedhash") + "/" + hashkit.W(mh) + " mbp=" + mp.wire(), "hash",
			"tamper s ClientStateHash 0103", "tamper mbcontent " + hashkit.W(mbParams{num: 1, start: 5, t: 9, n: 3, prev: "ab"}.build().GetHash()) + " 1,5,9,3," + hashkit.W("ab")},
		// empty block, empty everything
		{initL, "blk", "data", "hash", "validate", "tamper i Round -9223372036854775808", "tamper i Round 9223372036854775807"},
	}
}

func main() {
	corr.Main(corr.Prop{
		ID: "C29", Model: "C29", Gen: gen, Impl: impl, Oracle: oracle,
		Cases: func(th bool) int {
			if th {
				return 2500
			}
			return 150
		},
		Fixed: fixed(),
		Extra: func() map[string]interface{} {
			verdictMu.Lock()
			defer verdictMu.Unlock()
			m := map[string]interface{}{}
			for k, v := range verdictHist {
				m[k] = v
			}
			return map[string]interface{}{"verdict_hist": m}
		},
	})
}
