// scratch probe (builder bridge) — deleted when done
package main

import (
	"encoding/hex"
	"encoding/json"
	"fmt"

	cstate "0chain.net/chaincore/chain/state"
	"0chain.net/chaincore/transaction"
	"0chain.net/core/encryption"
	"0chain.net/smartcontract/minersc"
	"0chain.net/smartcontract/zcnsc"
	"github.com/0chain/common/core/currency"
	"github.com/herumi/bls-go-binary/bls"
	"strings"
	"verifharness/lib/engine"
)

type auth struct {
	k  *encryption.BLS0ChainScheme
	id string
}

func main() {
	engine.Setup()
	owner := engine.Client{ID: "1746b06bb09f55ee01b33b5e2e055d6cc7a900cb57c0a3a5eaabb8a0e7745802", PublicKey: ""}
	a, b := engine.NewClient("a"), engine.NewClient("b")
	w, err := engine.NewWorld(map[string]currency.Coin{a.ID: 1000e10, b.ID: 1000e10, owner.ID: 1000e10, zcnsc.ADDRESS: 500e10}, func(sctx *cstate.StateContext) error {
		return zcnsc.InitConfig(sctx)
	})
	if err != nil {
		panic(err)
	}
	show := func(tag string) {
		ba, na, _ := w.Account(a.ID)
		bb, nb, _ := w.Account(b.ID)
		bm, _, _ := w.Account(minersc.ADDRESS)
		bz, _, _ := w.Account(zcnsc.ADDRESS)
		fmt.Printf("%-40s a=%d/%d b=%d/%d minersc=%d zcn=%d\n", tag, ba, na, bb, nb, bm, bz)
	}
	show("genesis")
	t := w.Txn(a, zcnsc.ADDRESS, 5e10, 1e8, 1, transaction.TxnTypeSmartContract, "burn", `{"ethereum_address":"0xabc"}`)
	_, err = w.Exec(t)
	show(fmt.Sprintf("burn: err=%v status=%d out=%s", err, t.Status, t.TransactionOutput))
	t = w.Txn(a, zcnsc.ADDRESS, 5, 1e8, 2, transaction.TxnTypeSmartContract, "burn", `{"ethereum_address":"0xabc"}`)
	_, err = w.Exec(t)
	show(fmt.Sprintf("burn small: err=%v status=%d out=%.80s", err, t.Status, t.TransactionOutput))

	// authorizers
	var auths []auth
	for i := 0; i < 3; i++ {
		var sk0 bls.SecretKey
		sk0.SetDecString(fmt.Sprint(1000 + i))
		k := encryption.NewBLS0ChainScheme()
		err := k.ReadKeys(strings.NewReader(sk0.GetPublicKey().SerializeToHexStr() + "\n" + hex.EncodeToString(sk0.GetLittleEndian()) + "\n"))
		if err != nil {
			panic(err)
		}
		pkb, _ := hex.DecodeString(k.GetPublicKey())
		id := encryption.Hash(pkb)
		auths = append(auths, auth{k, id})
		in := fmt.Sprintf(`{"public_key":%q,"url":"http://x%d","stake_pool_settings":{"delegate_wallet":%q,"num_delegates":5,"service_charge":0.1}}`, k.GetPublicKey(), i, b.ID)
		t = w.Txn(owner, zcnsc.ADDRESS, 0, 1e8, int64(i+1), transaction.TxnTypeSmartContract, "add-authorizer", in)
		_, err = w.Exec(t)
		show(fmt.Sprintf("add-auth %d: err=%v status=%d out=%.60s", i, err, t.Status, t.TransactionOutput))
	}
	// honest mint
	mk := func(amount int64, nonce int64, sigs [][2]string) string {
		type S struct {
			ID  string `json:"authorizer_id"`
			Sig string `json:"signature"`
		}
		var ss []S
		for _, s := range sigs {
			ss = append(ss, S{s[0], s[1]})
		}
		m := map[string]interface{}{"ethereum_txn_id": "0xeth1", "amount": amount, "nonce": nonce, "receiving_client_id": b.ID, "signatures": ss}
		bb, _ := json.Marshal(m)
		return string(bb)
	}
	mp := &zcnsc.MintPayload{EthereumTxnID: "0xeth1", Amount: 7e10, Nonce: 1, ReceivingClientID: b.ID}
	var good [][2]string
	for _, au := range auths {
		s, _ := au.k.Sign(mp.GetStringToSign())
		good = append(good, [2]string{au.id, s})
	}
	t = w.Txn(b, zcnsc.ADDRESS, 0, 1e8, 1, transaction.TxnTypeSmartContract, "mint", mk(7e10, 1, good))
	_, err = w.Exec(t)
	show(fmt.Sprintf("mint honest: err=%v status=%d out=%.60s", err, t.Status, t.TransactionOutput))
	// forged: well-formed G1 points that are not valid signatures (signed with unrelated secret keys)
	var forged [][2]string
	for i, au := range auths {
		var sk bls.SecretKey
		sk.SetHexString(fmt.Sprintf("%x", 777+i))
		s := sk.Sign("garbage").SerializeToHexStr()
		forged = append(forged, [2]string{au.id, s})
	}
	t = w.Txn(b, zcnsc.ADDRESS, 0, 1e8, 2, transaction.TxnTypeSmartContract, "mint", mk(9e10, 2, forged))
	_, err = w.Exec(t)
	show(fmt.Sprintf("mint FORGED: err=%v status=%d out=%.80s", err, t.Status, t.TransactionOutput))
}
