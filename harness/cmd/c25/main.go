// C25 harness: the real smartcontract/partitions over a real StateContext/MPT against Model/Partitions.lean.
//
// One case = one engine world (fresh MPT + state context). Partitions names are "n<k>", item ids "k<i>",
// item bytes "<id>=<value>". A handle is one in-memory *Partitions object; several handles may be bound to one
// name (stale-object misuse stream) and several names live on one state.
package main

import (
	"errors"
	"fmt"
	"math/rand"
	"sort"
	"strconv"
	"strings"
	"sync"

	cstate "0chain.net/chaincore/chain/state"
	"0chain.net/core/common"
	"0chain.net/smartcontract/partitions"
	"github.com/0chain/common/core/util"
	"verifharness/lib/corr"
	"verifharness/lib/engine"
)

const universe = 24 // item ids k0..k23

// ---- the item type stored in the partitions ---------------------------------------------------

type pitem struct {
	ID string
	V  int
}

func (p *pitem) GetID() string { return p.ID }
func (p *pitem) MarshalMsg(o []byte) ([]byte, error) {
	return append(o, []byte(p.ID+"="+strconv.Itoa(p.V))...), nil
}
func (p *pitem) UnmarshalMsg(b []byte) ([]byte, error) {
	s := string(b)
	i := strings.IndexByte(s, '=')
	if i < 0 {
		return nil, errors.New("pitem: bad bytes")
	}
	v, err := strconv.Atoi(s[i+1:])
	if err != nil {
		return nil, err
	}
	p.ID, p.V = s[:i], v
	return nil, nil
}
func (p *pitem) Msgsize() int { return len(p.ID) + 1 + 20 }

func idName(i int) string { return "k" + strconv.Itoa(i) }
func idNum(s string) string {
	if strings.HasPrefix(s, "k") {
		return s[1:]
	}
	return "?" + s
}
func dataNum(b []byte) string {
	var it pitem
	if _, err := it.UnmarshalMsg(b); err != nil {
		return fmt.Sprintf("x%x", b)
	}
	return strconv.Itoa(it.V)
}

// fixedSrc makes rand.Rand.Intn(n) return u mod n (u small): Int31() = Int63()>>32 = u.
type fixedSrc struct{ u int64 }

func (s fixedSrc) Int63() int64 { return s.u << 32 }
func (s fixedSrc) Seed(int64)   {}

// ---- error classes ------------------------------------------------------------------------------

func errClass(err error) string {
	if err == nil {
		return "ok"
	}
	if err == util.ErrValueNotPresent {
		return "err absent"
	}
	if ce, ok := err.(*common.Error); ok {
		switch ce.Code {
		case partitions.ErrItemNotFoundCode:
			return "err notfound"
		case "item already exist":
			return "err exists"
		}
	}
	m := err.Error()
	for _, c := range [][2]string{
		{"could not get previous partition", "prev"},
		{"remove item location failed", "locdel"},
		{"could not remove prev partition", "partdel"},
		{"overflow", "overflow"},
		{"load partition failed", "load"},
		{"item not present", "notpresent"},
		{"searching empty partition", "emptypart"},
		{"cannot findIndex", "noindex"},
		{"empty last partitions", "emptylast"},
		{"item already exists", "dup"},
		{"invalid index", "range"},
		{"empty list", "empty"},
		{"callback failed", "ferr"},
		{"item not found", "partnotfound"},
	} {
		if strings.Contains(m, c[0]) {
			return "err " + c[1]
		}
	}
	return "err other:" + m
}

// ---- canonical dump -----------------------------------------------------------------------------

func showItems(its []partitions.VerifItem) string {
	var b strings.Builder
	b.WriteByte('[')
	for i, it := range its {
		if i > 0 {
			b.WriteByte(',')
		}
		b.WriteString(idNum(it.ID) + ":" + dataNum(it.Data))
	}
	b.WriteByte(']')
	return b.String()
}

func bit(b bool) string {
	if b {
		return "1"
	}
	return "0"
}

func showLocs(m map[string]int) string {
	type kv struct{ k, v int }
	var xs []kv
	for id, v := range m {
		k, _ := strconv.Atoi(idNum(id))
		xs = append(xs, kv{k, v})
	}
	sort.Slice(xs, func(i, j int) bool { return xs[i].k < xs[j].k })
	var parts []string
	for _, x := range xs {
		parts = append(parts, fmt.Sprintf("%d>%d", x.k, x.v))
	}
	return "{" + strings.Join(parts, ",") + "}"
}

func showPart(p partitions.VerifPart) string {
	return fmt.Sprintf("%d/%d/%s%s", p.KeyIdx, p.Loc, bit(p.Changed), showItems(p.Items))
}

func sortedIdx(m map[int]partitions.VerifPart) []int {
	var ks []int
	for k := range m {
		ks = append(ks, k)
	}
	sort.Ints(ks)
	return ks
}

func dumpLine(d partitions.VerifDump) string {
	if d.LastNil || d.HdrLastNil || len(d.Errors) > 0 || d.LocsOther > 0 {
		return fmt.Sprintf("dump-anomaly lastnil=%v hdrlastnil=%v errors=%v locsother=%d", d.LastNil, d.HdrLastNil, d.Errors, d.LocsOther)
	}
	var mp []string
	for _, k := range sortedIdx(d.Parts) {
		mp = append(mp, fmt.Sprintf("%d=%s", k, showPart(d.Parts[k])))
	}
	mem := fmt.Sprintf("M sz=%d last=%s parts={%s} locs=%s", d.Size, showPart(d.Last), strings.Join(mp, ";"), showLocs(d.Locs))
	hdr := "-"
	if d.HdrPresent {
		hdr = fmt.Sprintf("%d/%d%s", d.HdrSize, d.HdrLast.Loc, showItems(d.HdrLast.Items))
	}
	var sp []string
	for _, k := range sortedIdx(d.StoreParts) {
		p := d.StoreParts[k]
		sp = append(sp, fmt.Sprintf("%d=%d%s", k, p.Loc, showItems(p.Items)))
	}
	st := fmt.Sprintf("S hdr=%s parts={%s} locs=%s", hdr, strings.Join(sp, ";"), showLocs(d.StoreLocs))
	return mem + " | " + st
}

// ---- statistics -----------------------------------------------------------------------------------

var (
	statMu sync.Mutex
	stats  = map[string]int{}
)

func stat(k string) {
	statMu.Lock()
	stats[k]++
	statMu.Unlock()
}

// ---- implementation runner --------------------------------------------------------------------------

type world struct {
	sctx    *cstate.StateContext
	handles map[int]*partitions.Partitions
	broken  map[int]bool // objects left with Last aliasing a map slot by a failed DeleteTrieNode: not modelled further
	allIDs  []string
	maxLoc  int
}

func atoi(s string) (int, bool) {
	if s == "" || len(s) > 9 {
		return 0, false
	}
	for _, c := range s {
		if c < '0' || c > '9' {
			return 0, false
		}
	}
	n, err := strconv.Atoi(s)
	return n, err == nil
}

func stopOf(s string) (string, bool) {
	if s == "-" {
		return "", true
	}
	n, ok := atoi(s)
	if !ok {
		return "", false
	}
	return idName(n), true
}

func showVisits(vs []string) string {
	return strings.TrimSpace("visits " + strings.Join(vs, " "))
}

func (w *world) exec(f []string) string {
	if len(f) == 0 {
		return "bad-op"
	}
	if f[0] == "create" && len(f) == 4 {
		h, ok1 := atoi(f[1])
		n, ok2 := atoi(f[2])
		sz, ok3 := atoi(f[3])
		if !ok1 || !ok2 || !ok3 {
			return "bad-op"
		}
		p, err := partitions.CreateIfNotExists(w.sctx, "n"+strconv.Itoa(n), sz)
		if err != nil {
			return errClass(err)
		}
		w.handles[h] = p
		delete(w.broken, h)
		if l, _ := p.VerifLastLoc(); l > w.maxLoc {
			w.maxLoc = l
		}
		return "ok"
	}
	if f[0] == "load" && len(f) == 3 {
		h, ok1 := atoi(f[1])
		n, ok2 := atoi(f[2])
		if !ok1 || !ok2 {
			return "bad-op"
		}
		p, err := partitions.GetPartitions(w.sctx, "n"+strconv.Itoa(n))
		if err != nil {
			return errClass(err)
		}
		w.handles[h] = p
		delete(w.broken, h)
		if l, _ := p.VerifLastLoc(); l > w.maxLoc {
			w.maxLoc = l
		}
		return "ok"
	}
	if len(f) < 2 {
		return "bad-op"
	}
	h, ok := atoi(f[1])
	if !ok {
		return "bad-op"
	}
	p := w.handles[h]
	if p == nil {
		return "bad-op"
	}
	if w.broken[h] {
		return "broken"
	}
	out := w.method(p, f)
	if l, _ := p.VerifLastLoc(); l > w.maxLoc {
		w.maxLoc = l // partition nodes are only ever written at an index <= the largest Last.Loc seen
	}
	if out == "err locdel" || out == "err partdel" {
		w.broken[h] = true
	}
	return out
}

func (w *world) method(p *partitions.Partitions, f []string) string {
	arg := func(i int) (int, bool) {
		if i >= len(f) {
			return 0, false
		}
		return atoi(f[i])
	}
	switch {
	case (f[0] == "add" || f[0] == "addx") && len(f) == 4:
		id, ok1 := arg(2)
		v, ok2 := arg(3)
		if !ok1 || !ok2 {
			return "bad-op"
		}
		if f[0] == "add" {
			return errClass(p.Add(w.sctx, &pitem{idName(id), v}))
		}
		loc, err := p.AddX(w.sctx, &pitem{idName(id), v})
		if err != nil {
			return errClass(err)
		}
		return fmt.Sprintf("ok %d", loc)
	case f[0] == "get" && len(f) == 3:
		id, ok1 := arg(2)
		if !ok1 {
			return "bad-op"
		}
		var it pitem
		loc, err := p.Get(w.sctx, idName(id), &it)
		if err != nil {
			return errClass(err)
		}
		if it.ID != idName(id) {
			return "get-wrong-id " + it.ID
		}
		return fmt.Sprintf("ok %d %d", loc, it.V)
	case f[0] == "upditem" && len(f) == 4:
		id, ok1 := arg(2)
		v, ok2 := arg(3)
		if !ok1 || !ok2 {
			return "bad-op"
		}
		return errClass(p.UpdateItem(w.sctx, &pitem{idName(id), v}))
	case (f[0] == "upd" && len(f) == 4) || (f[0] == "updfail" && len(f) == 3):
		id, ok1 := arg(2)
		k, ok2 := 0, true
		if f[0] == "upd" {
			k, ok2 = arg(3)
		}
		if !ok1 || !ok2 {
			return "bad-op"
		}
		loc, err := p.Update(w.sctx, idName(id), func(data []byte) ([]byte, error) {
			if f[0] == "updfail" {
				return nil, errors.New("callback failed")
			}
			var it pitem
			if _, err := it.UnmarshalMsg(data); err != nil {
				return nil, err
			}
			it.V += k
			return it.MarshalMsg(nil)
		})
		if err != nil {
			return errClass(err)
		}
		return fmt.Sprintf("ok %d", loc)
	case f[0] == "rm" && len(f) == 3:
		id, ok1 := arg(2)
		if !ok1 {
			return "bad-op"
		}
		l0, _ := p.VerifLastLoc()
		err := p.Remove(w.sctx, idName(id))
		if l1, _ := p.VerifLastLoc(); err == nil && l1 < l0 {
			stat("remove-empties-tail")
		}
		return errClass(err)
	case f[0] == "rmx" && len(f) == 3:
		id, ok1 := arg(2)
		if !ok1 {
			return "bad-op"
		}
		l0, _ := p.VerifLastLoc()
		rl, err := p.RemoveX(w.sctx, idName(id))
		if err != nil {
			return errClass(err)
		}
		if l1, _ := p.VerifLastLoc(); l1 < l0 {
			stat("remove-empties-tail")
		}
		switch {
		case rl.From == rl.Replace:
			stat("removex-from-last")
		case rl.From == 0:
			stat("removex-from-first")
		case rl.From == rl.Replace-1:
			stat("removex-from-before-last")
		default:
			stat("removex-from-middle")
		}
		return fmt.Sprintf("ok %d %d %s", rl.From, rl.Replace, dataNum(rl.ReplaceItem))
	case f[0] == "exist" && len(f) == 3:
		id, ok1 := arg(2)
		if !ok1 {
			return "bad-op"
		}
		b, err := p.Exist(w.sctx, idName(id))
		if err != nil {
			return errClass(err)
		}
		return strconv.FormatBool(b)
	case f[0] == "size" && len(f) == 2:
		n, err := p.Size(w.sctx)
		if err != nil {
			return errClass(err)
		}
		return strconv.Itoa(n)
	case (f[0] == "each" && len(f) == 3) || (f[0] == "eachpart" && len(f) == 4):
		stopArg, idx, okI := f[2], 0, true
		if f[0] == "eachpart" {
			idx, okI = arg(2)
			stopArg = f[3]
		}
		stop, okS := stopOf(stopArg)
		if !okI || !okS {
			return "bad-op"
		}
		var vs []string
		cb := func(pi int, id string, data []byte) bool {
			vs = append(vs, fmt.Sprintf("%d:%s:%s", pi, idNum(id), dataNum(data)))
			return stop != "" && id == stop
		}
		var err error
		if f[0] == "each" {
			err = p.ForEach(w.sctx, cb)
		} else {
			err = p.ForEachPart(w.sctx, idx, cb)
		}
		if err != nil {
			return errClass(err)
		}
		return showVisits(vs)
	case f[0] == "rand" && len(f) == 3:
		u, ok1 := arg(2)
		if !ok1 {
			return "bad-op"
		}
		var res []pitem
		err := p.GetRandomItems(w.sctx, rand.New(fixedSrc{int64(u)}), &res)
		if err != nil {
			return errClass(err)
		}
		var xs []string
		for _, it := range res {
			xs = append(xs, idNum(it.ID)+":"+strconv.Itoa(it.V))
		}
		return strings.TrimSpace("items " + strings.Join(xs, " "))
	case f[0] == "save" && len(f) == 2:
		return errClass(p.Save(w.sctx))
	case f[0] == "repair" && len(f) == 2:
		return errClass(p.RepairPartitionLoc(w.sctx))
	case f[0] == "dump" && len(f) == 2:
		return dumpLine(p.VerifDump(w.sctx, w.allIDs, w.maxLoc+2))
	}
	return "bad-op"
}

func impl(ops []string) []string {
	outs := make([]string, len(ops))
	var w *world
	newWorld := func() {
		ew, err := engine.NewWorld(nil, nil)
		if err != nil {
			panic(err)
		}
		w = &world{sctx: ew.SCtx(), handles: map[int]*partitions.Partitions{}, broken: map[int]bool{}}
		for i := 0; i < universe; i++ {
			w.allIDs = append(w.allIDs, idName(i))
		}
	}
	for i, op := range ops {
		f := strings.Fields(op)
		func() {
			defer func() {
				if r := recover(); r != nil {
					outs[i] = "panic"
				}
			}()
			if len(f) == 1 && f[0] == "reset" {
				newWorld()
				outs[i] = "ok"
				return
			}
			if w == nil {
				newWorld()
			}
			outs[i] = w.exec(f)
		}()
	}
	return outs
}

// ---- generator ----------------------------------------------------------------------------------

type genName struct {
	n    int
	size int
	ref  map[int]bool // the generator's guess of the content (biases id choice only)
	h    int          // live handle
}

func gen(r *rand.Rand, thorough bool, i int) []string {
	ops := []string{"reset"}
	misuse := r.Intn(10) == 0
	nNames := 1
	if r.Intn(4) == 0 {
		nNames = 2 + r.Intn(2)
	}
	var names []*genName
	nextH := 0
	for k := 0; k < nNames; k++ {
		sz := 1 + r.Intn(6)
		if r.Intn(3) == 0 {
			sz = 1 + r.Intn(3)
		}
		if misuse && r.Intn(12) == 0 {
			sz = 0
		}
		g := &genName{n: k + 1, size: sz, ref: map[int]bool{}, h: nextH}
		nextH++
		names = append(names, g)
		ops = append(ops, fmt.Sprintf("create %d %d %d", g.h, g.n, g.size))
	}
	n := 30 + r.Intn(60)
	if thorough {
		n = 30 + r.Intn(300)
	}
	u := 3 + r.Intn(universe-3)
	if r.Intn(3) == 0 {
		u = universe
	}
	pAdd := 50
	phaseLeft := 0
	dumpP := 30 + r.Intn(70)
	pick := func(g *genName, present bool) int {
		var c []int
		for id := 0; id < u; id++ {
			if g.ref[id] == present {
				c = append(c, id)
			}
		}
		if len(c) == 0 || r.Intn(8) == 0 {
			return r.Intn(u)
		}
		return c[r.Intn(len(c))]
	}
	val := func() int { return r.Intn(1000) }
	for k := 0; k < n; k++ {
		if phaseLeft == 0 {
			phaseLeft = 5 + r.Intn(30)
			pAdd = []int{85, 65, 50, 30, 10}[r.Intn(5)]
		}
		phaseLeft--
		g := names[r.Intn(len(names))]
		h := g.h
		mut := false
		switch x := r.Intn(100); {
		case x < 55:
			mut = true
			if r.Intn(100) < pAdd {
				id := pick(g, false)
				g.ref[id] = true
				if r.Intn(3) == 0 {
					ops = append(ops, fmt.Sprintf("addx %d %d %d", h, id, val()))
				} else {
					ops = append(ops, fmt.Sprintf("add %d %d %d", h, id, val()))
				}
			} else {
				id := pick(g, true)
				delete(g.ref, id)
				if r.Intn(2) == 0 {
					ops = append(ops, fmt.Sprintf("rmx %d %d", h, id))
				} else {
					ops = append(ops, fmt.Sprintf("rm %d %d", h, id))
				}
			}
		case x < 61:
			ops = append(ops, fmt.Sprintf("get %d %d", h, pick(g, true)))
		case x < 66:
			ops = append(ops, fmt.Sprintf("exist %d %d", h, pick(g, r.Intn(2) == 0)))
		case x < 70:
			mut = true
			ops = append(ops, fmt.Sprintf("upditem %d %d %d", h, pick(g, true), val()))
		case x < 74:
			mut = true
			ops = append(ops, fmt.Sprintf("upd %d %d %d", h, pick(g, true), r.Intn(50)))
		case x < 75:
			ops = append(ops, fmt.Sprintf("updfail %d %d", h, pick(g, true)))
		case x < 78:
			ops = append(ops, fmt.Sprintf("size %d", h))
		case x < 81:
			if r.Intn(4) == 0 {
				ops = append(ops, fmt.Sprintf("each %d %d", h, pick(g, true)))
			} else {
				ops = append(ops, fmt.Sprintf("each %d -", h))
			}
		case x < 82:
			stop := "-"
			if r.Intn(3) == 0 {
				stop = strconv.Itoa(pick(g, true))
			}
			ops = append(ops, fmt.Sprintf("eachpart %d %d %s", h, r.Intn(1+len(g.ref)/max(1, g.size)+1), stop))
		case x < 86:
			ops = append(ops, fmt.Sprintf("rand %d %d", h, r.Intn(1000)))
		case x < 90:
			ops = append(ops, fmt.Sprintf("save %d", h))
		case x < 96:
			// Save, then a fresh object from the state (the old object is dropped)
			ops = append(ops, fmt.Sprintf("save %d", h))
			if r.Intn(2) == 0 {
				ops = append(ops, fmt.Sprintf("load %d %d", h, g.n))
			} else {
				ops = append(ops, fmt.Sprintf("create %d %d %d", h, g.n, 1+r.Intn(6)))
			}
		case x < 97:
			ops = append(ops, fmt.Sprintf("repair %d", h))
		default:
			if misuse {
				switch r.Intn(4) {
				case 0: // reload without Save
					ops = append(ops, fmt.Sprintf("load %d %d", h, g.n))
				case 1: // a second object on the same name
					ops = append(ops, fmt.Sprintf("load %d %d", nextH%6+len(names), g.n))
					if r.Intn(2) == 0 {
						g.h = nextH%6 + len(names)
					}
					nextH++
				case 2:
					ops = append(ops, fmt.Sprintf("load %d %d", h, 9)) // a name that does not exist
				default:
					ops = append(ops, fmt.Sprintf("eachpart %d %d -", h, 1+r.Intn(20)))
				}
			} else {
				ops = append(ops, fmt.Sprintf("dump %d", h))
			}
		}
		if (mut && r.Intn(100) < dumpP) || r.Intn(10) == 0 {
			ops = append(ops, fmt.Sprintf("dump %d", h))
		}
	}
	// final sweep of every live object
	for _, g := range names {
		h := g.h
		ops = append(ops, fmt.Sprintf("dump %d", h), fmt.Sprintf("save %d", h), fmt.Sprintf("dump %d", h), fmt.Sprintf("size %d", h))
		if r.Intn(2) == 0 {
			ops = append(ops, fmt.Sprintf("load %d %d", h, g.n))
		}
		for id := 0; id < u; id++ {
			if r.Intn(2) == 0 {
				ops = append(ops, fmt.Sprintf("exist %d %d", h, id))
			} else {
				ops = append(ops, fmt.Sprintf("get %d %d", h, id))
			}
		}
		ops = append(ops, fmt.Sprintf("each %d -", h), fmt.Sprintf("rand %d %d", h, r.Intn(1000)), fmt.Sprintf("dump %d", h))
	}
	if r.Intn(25) == 0 {
		// malformed stream
		bad := []string{"add 0", "add x 1 2", "rm 0 -1", "frobnicate 0", "get 77 1", "each 0", "create 0 1", "rand 0 x", "add 0 1 99999999999"}
		ops = append(ops, bad[r.Intn(len(bad))])
	}
	return ops
}

// ---- oracle: the property on the implementation's answers, against reference Go maps --------------

type refName struct {
	ref      map[int]int
	size     int
	live     int
	dirty    bool
	inDomain bool
}

type parsedPart struct {
	key, loc int
	changed  bool
	ids      []int
	vals     []int
}

func parseItems(s string) (ids, vals []int, ok bool) {
	if len(s) < 2 || s[0] != '[' || s[len(s)-1] != ']' {
		return nil, nil, false
	}
	s = s[1 : len(s)-1]
	if s == "" {
		return nil, nil, true
	}
	for _, e := range strings.Split(s, ",") {
		kv := strings.Split(e, ":")
		if len(kv) != 2 {
			return nil, nil, false
		}
		a, e1 := strconv.Atoi(kv[0])
		b, e2 := strconv.Atoi(kv[1])
		if e1 != nil || e2 != nil {
			return nil, nil, false
		}
		ids = append(ids, a)
		vals = append(vals, b)
	}
	return ids, vals, true
}

// "<key>/<loc>/<c>[items]"
func parsePart(s string) (p parsedPart, ok bool) {
	i := strings.IndexByte(s, '[')
	if i < 0 {
		return p, false
	}
	h := strings.Split(s[:i], "/")
	if len(h) != 3 {
		return p, false
	}
	var e1, e2 error
	p.key, e1 = strconv.Atoi(h[0])
	p.loc, e2 = strconv.Atoi(h[1])
	p.changed = h[2] == "1"
	p.ids, p.vals, ok = parseItems(s[i:])
	return p, ok && e1 == nil && e2 == nil
}

type parsedDump struct {
	size       int
	last       parsedPart
	parts      map[int]parsedPart
	hdrPresent bool
	hdrSize    int
	hdrLoc     int
	hdrIDs     []int
	hdrVals    []int
	stParts    map[int]parsedPart
}

func field(s, name string) string {
	i := strings.Index(s, name+"=")
	if i < 0 {
		return ""
	}
	rest := s[i+len(name)+1:]
	if strings.HasPrefix(rest, "{") {
		j := strings.IndexByte(rest, '}')
		return rest[1:j]
	}
	if j := strings.IndexByte(rest, ' '); j >= 0 {
		return rest[:j]
	}
	return rest
}

func parseDump(line string) (d parsedDump, ok bool) {
	halves := strings.Split(line, " | ")
	if len(halves) != 2 || !strings.HasPrefix(halves[0], "M ") || !strings.HasPrefix(halves[1], "S ") {
		return d, false
	}
	var err error
	if d.size, err = strconv.Atoi(field(halves[0], "sz")); err != nil {
		return d, false
	}
	if d.last, ok = parsePart(field(halves[0], "last")); !ok {
		return d, false
	}
	d.parts = map[int]parsedPart{}
	if ps := field(halves[0], "parts"); ps != "" {
		for _, e := range strings.Split(ps, ";") {
			j := strings.IndexByte(e, '=')
			k, err := strconv.Atoi(e[:j])
			p, ok := parsePart(e[j+1:])
			if err != nil || !ok {
				return d, false
			}
			d.parts[k] = p
		}
	}
	hdr := field(halves[1], "hdr")
	if hdr != "-" {
		d.hdrPresent = true
		j := strings.IndexByte(hdr, '[')
		h := strings.Split(hdr[:j], "/")
		if len(h) != 2 {
			return d, false
		}
		d.hdrSize, _ = strconv.Atoi(h[0])
		d.hdrLoc, _ = strconv.Atoi(h[1])
		if d.hdrIDs, d.hdrVals, ok = parseItems(hdr[j:]); !ok {
			return d, false
		}
	}
	d.stParts = map[int]parsedPart{}
	if ps := field(halves[1], "parts"); ps != "" {
		for _, e := range strings.Split(ps, ";") {
			j := strings.IndexByte(e, '=')
			k, err := strconv.Atoi(e[:j])
			b := strings.IndexByte(e, '[')
			if err != nil || b < 0 {
				return d, false
			}
			var p parsedPart
			p.loc, _ = strconv.Atoi(e[j+1 : b])
			if p.ids, p.vals, ok = parseItems(e[b:]); !ok {
				return d, false
			}
			d.stParts[k] = p
		}
	}
	return d, true
}

func oracle(ops, outs []string) *corr.Violation {
	names := map[int]*refName{}
	handles := map[int]int{}
	mk := func(i int, sig, msg string) *corr.Violation {
		return &corr.Violation{Signature: "C25:" + sig, Message: fmt.Sprintf("op %d %q answered %q: %s", i, ops[i], outs[i], msg), Ops: ops, Impl: outs}
	}
	open := func(h, n int) {
		if g := names[n]; g != nil {
			if g.dirty {
				g.inDomain = false // unsaved changes dropped: outside the property's domain
			}
			g.live = h
		}
		handles[h] = n
	}
	for i, op := range ops {
		f := strings.Fields(op)
		out := outs[i]
		if out == "bad-op" || len(f) == 0 {
			continue
		}
		if f[0] == "reset" {
			names = map[int]*refName{}
			handles = map[int]int{}
			continue
		}
		if f[0] == "create" {
			h, _ := strconv.Atoi(f[1])
			n, _ := strconv.Atoi(f[2])
			sz, _ := strconv.Atoi(f[3])
			if names[n] == nil {
				names[n] = &refName{ref: map[int]int{}, size: sz, live: h, inDomain: sz >= 1}
			}
			open(h, n)
			if out != "ok" && names[n].inDomain {
				return mk(i, "unexpected-error", "CreateIfNotExists must succeed")
			}
			continue
		}
		if f[0] == "load" {
			h, _ := strconv.Atoi(f[1])
			n, _ := strconv.Atoi(f[2])
			if names[n] == nil {
				if out != "err absent" {
					return mk(i, "load-absent", "GetPartitions of a name never created must report value-not-present")
				}
				continue
			}
			open(h, n)
			if out != "ok" && names[n].inDomain {
				return mk(i, "unexpected-error", "GetPartitions of a saved name must succeed")
			}
			continue
		}
		h, _ := strconv.Atoi(f[1])
		n, okH := handles[h]
		if !okH {
			continue
		}
		g := names[n]
		if g.live != h {
			g.inDomain = false // a stale object is used: outside the property's domain
		}
		if !g.inDomain {
			continue
		}
		arg := func(k int) int { v, _ := strconv.Atoi(f[k]); return v }
		if strings.HasPrefix(out, "err ") || out == "panic" || strings.HasPrefix(out, "dump-anomaly") || strings.HasPrefix(out, "get-wrong-id") {
			switch out {
			case "err exists", "err notfound", "err empty", "err ferr":
			case "err overflow":
				if f[0] != "eachpart" {
					return mk(i, "unexpected-error", "internal error on a well-formed history")
				}
			default:
				return mk(i, "unexpected-error", "internal error on a well-formed history")
			}
		}
		switch f[0] {
		case "add", "addx":
			id := arg(2)
			if _, in := g.ref[id]; in {
				if out != "err exists" {
					return mk(i, "add-result", "the id is a member: Add must report 'item already exist'")
				}
			} else {
				if !(out == "ok" || strings.HasPrefix(out, "ok ")) {
					return mk(i, "add-result", "the id is not a member: Add must succeed")
				}
				g.ref[id] = arg(3)
				g.dirty = true
			}
		case "get":
			id := arg(2)
			if v, in := g.ref[id]; in {
				w := strings.Fields(out)
				if len(w) != 3 || w[0] != "ok" || w[2] != strconv.Itoa(v) {
					return mk(i, "get-result", fmt.Sprintf("member with value %d", v))
				}
			} else if out != "err notfound" {
				return mk(i, "get-result", "not a member: Get must report 'item not found'")
			}
		case "upditem", "upd", "updfail":
			id := arg(2)
			v, in := g.ref[id]
			switch {
			case !in:
				if out != "err notfound" {
					return mk(i, "update-result", "not a member: must report 'item not found'")
				}
			case f[0] == "updfail":
				if out != "err ferr" {
					return mk(i, "update-result", "the callback's error must be returned")
				}
			default:
				if !(out == "ok" || strings.HasPrefix(out, "ok ")) {
					return mk(i, "update-result", "member: update must succeed")
				}
				if f[0] == "upditem" {
					g.ref[id] = arg(3)
				} else {
					g.ref[id] = v + arg(3)
				}
				g.dirty = true
			}
		case "rm", "rmx":
			id := arg(2)
			if _, in := g.ref[id]; in {
				if !(out == "ok" || strings.HasPrefix(out, "ok ")) {
					return mk(i, "remove-result", "member: Remove must succeed")
				}
				delete(g.ref, id)
				g.dirty = true
			} else if out != "err notfound" {
				return mk(i, "remove-result", "not a member: Remove must report 'item not found'")
			}
		case "exist":
			_, in := g.ref[arg(2)]
			if out != strconv.FormatBool(in) {
				return mk(i, "exist", fmt.Sprintf("membership in the reference set is %v", in))
			}
		case "size":
			if out != strconv.Itoa(len(g.ref)) {
				return mk(i, "size", fmt.Sprintf("the reference set has %d members", len(g.ref)))
			}
		case "each", "eachpart":
			if !strings.HasPrefix(out, "visits") {
				break
			}
			seen := map[int]bool{}
			for _, e := range strings.Fields(out)[1:] {
				x := strings.Split(e, ":")
				id, _ := strconv.Atoi(x[1])
				v, _ := strconv.Atoi(x[2])
				if seen[id] {
					return mk(i, "foreach-duplicate", fmt.Sprintf("id %d visited twice", id))
				}
				seen[id] = true
				if rv, in := g.ref[id]; !in || rv != v {
					return mk(i, "foreach-content", fmt.Sprintf("visited %d:%d is not in the reference set", id, v))
				}
			}
			if f[0] == "each" && f[2] == "-" && len(seen) != len(g.ref) {
				return mk(i, "foreach-content", fmt.Sprintf("%d of %d members visited", len(seen), len(g.ref)))
			}
		case "rand":
			if len(g.ref) == 0 {
				if out != "err empty" {
					return mk(i, "random-items", "empty set: must report 'empty list'")
				}
				break
			}
			if !strings.HasPrefix(out, "items") {
				return mk(i, "random-items", "non-empty set: must return items")
			}
			seen := map[int]bool{}
			for _, e := range strings.Fields(out)[1:] {
				x := strings.Split(e, ":")
				id, _ := strconv.Atoi(x[0])
				v, _ := strconv.Atoi(x[1])
				if seen[id] {
					return mk(i, "random-items", fmt.Sprintf("id %d returned twice", id))
				}
				seen[id] = true
				if rv, in := g.ref[id]; !in || rv != v {
					return mk(i, "random-items", fmt.Sprintf("returned %d:%d is not a member", id, v))
				}
			}
			want := g.size
			if len(g.ref) < want {
				want = len(g.ref)
			}
			if len(seen) != want {
				return mk(i, "random-items", fmt.Sprintf("%d items returned, min(partition size, members) = %d", len(seen), want))
			}
		case "save":
			if out != "ok" {
				return mk(i, "unexpected-error", "Save must succeed")
			}
			g.dirty = false
		case "dump":
			d, ok := parseDump(out)
			if !ok {
				return mk(i, "dump-unparsable", "the dump of the object is not canonical")
			}
			content := map[int]int{}
			put := func(ids, vals []int) *corr.Violation {
				for k, id := range ids {
					if _, dup := content[id]; dup {
						return mk(i, "duplicate", fmt.Sprintf("id %d is held twice", id))
					}
					content[id] = vals[k]
				}
				return nil
			}
			for k := 0; k < d.last.loc; k++ {
				p, loaded := d.parts[k]
				if !loaded {
					p, loaded = d.stParts[k]
				}
				if !loaded {
					return mk(i, "partition-missing", fmt.Sprintf("partition %d is neither loaded nor persisted", k))
				}
				if len(p.ids) != g.size {
					return mk(i, "partition-not-full", fmt.Sprintf("partition %d (not the last) holds %d items, size %d", k, len(p.ids), g.size))
				}
				if v := put(p.ids, p.vals); v != nil {
					return v
				}
			}
			if len(d.last.ids) > g.size || (d.last.loc > 0 && len(d.last.ids) == 0) {
				return mk(i, "last-partition-size", fmt.Sprintf("last partition %d holds %d items, size %d", d.last.loc, len(d.last.ids), g.size))
			}
			if v := put(d.last.ids, d.last.vals); v != nil {
				return v
			}
			if !sameMap(content, g.ref) {
				return mk(i, "content", fmt.Sprintf("held items %v, reference set %v", content, g.ref))
			}
			if !g.dirty {
				// after Save: what a fresh object would read from the state must be the same set
				if !d.hdrPresent {
					return mk(i, "save-reload", "no header node after Save")
				}
				persisted := map[int]int{}
				add := func(ids, vals []int) {
					for k, id := range ids {
						persisted[id] = vals[k]
					}
				}
				for k := 0; k < d.hdrLoc; k++ {
					add(d.stParts[k].ids, d.stParts[k].vals)
				}
				add(d.hdrIDs, d.hdrVals)
				if !sameMap(persisted, g.ref) {
					return mk(i, "save-reload", fmt.Sprintf("persisted items %v, reference set %v", persisted, g.ref))
				}
			}
		}
	}
	return nil
}

func sameMap(a, b map[int]int) bool {
	if len(a) != len(b) {
		return false
	}
	for k, v := range a {
		if w, ok := b[k]; !ok || w != v {
			return false
		}
	}
	return true
}

func main() {
	// the recorded-parameter convention of `rand`: Intn(n) over fixedSrc{u} is u mod n
	for _, c := range [][2]int{{0, 1}, {5, 3}, {999, 7}, {123, 64}, {77, 1000}} {
		if got := rand.New(fixedSrc{int64(c[0])}).Intn(c[1]); got != c[0]%c[1] {
			panic(fmt.Sprintf("fixedSrc: Intn(%d) with u=%d gave %d", c[1], c[0], got))
		}
	}
	engine.Setup()
	corr.Main(corr.Prop{
		ID: "C25", Model: "C25", Gen: gen, Impl: impl, Oracle: oracle,
		Cases: func(th bool) int {
			if th {
				return 8000
			}
			return 600
		},
		Extra: func() map[string]interface{} {
			statMu.Lock()
			defer statMu.Unlock()
			m := map[string]interface{}{}
			for k, v := range stats {
				m[k] = v
			}
			return m
		},
		Fixed: [][]string{
			// size 1: every add packs, a middle removal empties the tail
			{"reset", "create 0 1 1", "add 0 1 10", "add 0 2 20", "add 0 3 30", "dump 0", "rm 0 1", "dump 0", "exist 0 3", "get 0 3", "size 0", "each 0 -", "save 0", "load 0 1", "dump 0", "get 0 3", "rm 0 3", "rm 0 2", "dump 0", "size 0", "rand 0 4"},
			// remove from the first partition so that the tail empties, then re-add the removed id
			{"reset", "create 0 1 2", "add 0 1 1", "add 0 2 2", "add 0 3 3", "add 0 4 4", "add 0 5 5", "save 0", "load 0 1", "rmx 0 1", "dump 0", "add 0 1 11", "dump 0", "get 0 5", "get 0 1", "each 0 -", "save 0", "dump 0"},
			// two names on one state, same ids
			{"reset", "create 0 1 2", "create 1 2 3", "add 0 1 1", "add 1 1 100", "add 0 2 2", "add 0 3 3", "add 1 2 200", "rm 0 1", "get 1 1", "get 0 1", "dump 0", "dump 1"},
			// stale object after another object saved (outside the domain: model/implementation agreement only)
			{"reset", "create 0 1 2", "add 0 1 1", "add 0 2 2", "add 0 3 3", "save 0", "load 1 1", "rm 1 1", "save 1", "get 0 3", "rm 0 2", "dump 0", "each 0 -", "rand 0 3"},
			// reload without Save
			{"reset", "create 0 1 2", "add 0 1 1", "add 0 2 2", "add 0 3 3", "load 0 1", "dump 0", "add 0 1 5", "each 0 -", "rmx 0 1", "dump 0"},
			// size 0 (a header the code accepts): never packs after the first add; GetRandomItems divides by zero
			{"reset", "create 0 1 0", "add 0 1 1", "add 0 2 2", "add 0 3 3", "dump 0", "size 0", "rand 0 1", "rm 0 1", "dump 0"},
			{"reset", "create 0 1 3", "load 1 7", "rand 0 1", "size 0", "each 0 -", "rm 0 1", "eachpart 0 3 -", "updfail 0 1", "repair 0"},
		},
	})
}
