// C36 harness: the real Chain.ComputeFinalizedBlock / commonAncestor on generated block trees against
// Model/Finalize.lean, and the property itself (deepest common proper ancestor; finalized blocks form one chain)
// checked by an independent reference on the real answers.
package main

import (
	"context"
	"fmt"
	"math/rand"
	"strconv"
	"strings"
	"sync"

	"0chain.net/chaincore/block"
	"0chain.net/chaincore/chain"
	"0chain.net/chaincore/round"
	"verifharness/lib/corr"
	"verifharness/lib/engine"
)

// ---------------------------------------------------------------------------------------------- tree syntax

type gblk struct {
	hash, round, prev int
}

type gtree struct {
	blocks []gblk
	rounds [][]int // [round number, notarized hashes…] for every existing round object
}

func (t *gtree) line() string {
	var sb strings.Builder
	sb.WriteString("tree")
	for _, b := range t.blocks {
		fmt.Fprintf(&sb, " B %d:%d:%d", b.hash, b.round, b.prev)
	}
	for _, r := range t.rounds {
		sb.WriteString(" R")
		for _, x := range r {
			fmt.Fprintf(&sb, " %d", x)
		}
	}
	return sb.String()
}

// parseTree mirrors the driver's parser (same rejections).
func parseTree(w []string) (*gtree, bool) {
	t := &gtree{}
	known := map[int]bool{}
	mode := 0
	for _, x := range w {
		switch {
		case mode == 1:
			f := strings.Split(x, ":")
			if len(f) != 3 {
				return nil, false
			}
			var v [3]int
			for i := range f {
				n, err := strconv.ParseUint(f[i], 10, 63)
				if err != nil {
					return nil, false
				}
				v[i] = int(n)
			}
			t.blocks = append(t.blocks, gblk{v[0], v[1], v[2]})
			known[v[0]] = true
			mode = 0
		case mode == 2:
			n, err := strconv.ParseUint(x, 10, 63)
			if err != nil {
				return nil, false
			}
			t.rounds = append(t.rounds, []int{int(n)})
			mode = 3
		case x == "B":
			mode = 1
		case x == "R":
			mode = 2
		case mode == 3:
			n, err := strconv.ParseUint(x, 10, 63)
			if err != nil || !known[int(n)] {
				return nil, false
			}
			t.rounds[len(t.rounds)-1] = append(t.rounds[len(t.rounds)-1], int(n))
		default:
			return nil, false
		}
	}
	return t, mode == 0 || mode == 3
}

// first declaration of a hash / of a round number wins (List.find?)
func (t *gtree) block(h int) *gblk {
	for i := range t.blocks {
		if t.blocks[i].hash == h {
			return &t.blocks[i]
		}
	}
	return nil
}
func (t *gtree) roundOf(n int) []int {
	for _, r := range t.rounds {
		if r[0] == n {
			return r
		}
	}
	return nil
}

// ---------------------------------------------------------------------------------------------- real code

var chains = sync.Pool{New: func() interface{} { return chain.VerifC36NewChain() }}
var setupOnce sync.Once

type world struct {
	t      *gtree
	c      *chain.Chain
	blocks map[int]*block.Block
}

func hs(h int) string { return fmt.Sprintf("h%d", h) }
func unhs(s string) string {
	return strings.TrimPrefix(s, "h")
}

func build(c *chain.Chain, t *gtree) *world {
	c.VerifC36Reset()
	w := &world{t: t, c: c, blocks: map[int]*block.Block{}}
	for _, g := range t.blocks {
		if _, dup := w.blocks[g.hash]; dup {
			continue
		}
		b := &block.Block{}
		b.Hash = hs(g.hash)
		b.Round = int64(g.round)
		b.PrevHash = hs(g.prev)
		b.SetStateStatus(block.StateSuccessful)
		w.blocks[g.hash] = b
	}
	for h, b := range w.blocks {
		g := t.block(h)
		if p, ok := w.blocks[g.prev]; ok && g.prev != g.hash {
			b.PrevBlock = p
		}
		c.SetBlock(b)
	}
	seen := map[int]bool{}
	for _, r := range t.rounds {
		if seen[r[0]] {
			continue
		}
		seen[r[0]] = true
		rd := round.NewRound(int64(r[0]))
		for i, h := range r[1:] {
			// the round keeps one notarized block per rank: each listed block gets its own rank (list order = rank order)
			nb := w.blocks[h]
			nb.RoundRank = i
			rd.AddNotarizedBlock(nb)
		}
		c.AddRound(rd)
	}
	return w
}

func showB(b *block.Block) string {
	if b == nil {
		return "nil"
	}
	return "blk " + unhs(b.Hash)
}

func impl(ops []string) []string {
	setupOnce.Do(func() {
		engine.Setup()
		round.SetupEntity(nil)
	})
	c := chains.Get().(*chain.Chain)
	defer chains.Put(c)
	// a cancelled context: a previous block that is not held locally is then not fetched from the (absent) network
	ctx, cancel := context.WithCancel(context.Background())
	cancel()
	var w *world
	outs := make([]string, len(ops))
	for i, op := range ops {
		f := strings.Fields(op)
		func() {
			defer func() {
				if r := recover(); r != nil {
					outs[i] = "panic"
				}
			}()
			atoi := func(s string) (int, bool) {
				n, err := strconv.ParseUint(s, 10, 63)
				return int(n), err == nil
			}
			switch {
			case len(f) >= 1 && f[0] == "tree":
				t, ok := parseTree(f[1:])
				if !ok {
					outs[i] = "bad-op"
					return
				}
				w = build(c, t)
				outs[i] = "ok"
			case len(f) == 3 && f[0] == "cfb":
				l, ok1 := atoi(f[1])
				r, ok2 := atoi(f[2])
				if !ok1 || !ok2 || w == nil {
					outs[i] = "bad-op"
					return
				}
				rd := c.GetRound(int64(r))
				if rd == nil {
					outs[i] = "no-round"
					return
				}
				outs[i] = showB(c.ComputeFinalizedBlock(ctx, int64(l), rd))
			case len(f) == 3 && f[0] == "anc":
				a, ok1 := atoi(f[1])
				b, ok2 := atoi(f[2])
				if !ok1 || !ok2 || w == nil {
					outs[i] = "bad-op"
					return
				}
				ba, bb := w.blocks[a], w.blocks[b]
				if ba == nil || bb == nil {
					outs[i] = "no-block"
					return
				}
				outs[i] = showB(c.VerifC36CommonAncestor(ctx, ba, bb))
			case len(f) == 3 && f[0] == "decide":
				p, ok1 := atoi(f[1])
				r, ok2 := atoi(f[2])
				if !ok1 || !ok2 || w == nil {
					outs[i] = "bad-op"
					return
				}
				plfb := w.blocks[p]
				rd := c.GetRound(int64(r))
				if plfb == nil || rd == nil {
					outs[i] = "no-block"
					return
				}
				// the branch conditions of finalizeRound (protocol_round.go:236-260, 434) around the two real functions
				if rd.GetRoundNumber() <= plfb.Round {
					outs[i] = "none"
					return
				}
				lfb := c.ComputeFinalizedBlock(ctx, plfb.Round, rd)
				switch {
				case lfb == nil, lfb.Hash == plfb.Hash:
					outs[i] = "none"
				case lfb.Round > plfb.Round:
					outs[i] = "forward " + unhs(lfb.Hash)
				default:
					outs[i] = "rollback " + showB(c.VerifC36CommonAncestor(ctx, plfb, lfb))
				}
			default:
				outs[i] = "bad-op"
			}
		}()
	}
	return outs
}

// ---------------------------------------------------------------------------------------------- generators

// small trees: round 0 holds the root (hash 1); rounds 1..3 hold 0..2 blocks each; each block's parent is one of the
// blocks of the round before or missing from the store; each block is notarized or not; each round object exists or not.
// `take(n)` supplies the choices: from a random index, or from the exhaustive enumeration (241 864 trees).
func smallTreeFrom(take func(n int) int) *gtree {
	t := &gtree{blocks: []gblk{{1, 0, 0}}}
	t.rounds = append(t.rounds, []int{0, 1})
	prev := []int{1}
	next := 2
	for rn := 1; rn <= 3; rn++ {
		nb := take(3)
		exists := take(2) == 1
		var cur []int
		rd := []int{rn}
		for k := 0; k < nb; k++ {
			p := take(len(prev) + 1)
			ph := 90 + rn // a parent that is not in the store
			if p < len(prev) {
				ph = prev[p]
			}
			t.blocks = append(t.blocks, gblk{next, rn, ph})
			if take(2) == 1 {
				rd = append(rd, next)
			}
			cur = append(cur, next)
			next++
		}
		if exists {
			t.rounds = append(t.rounds, rd)
		}
		prev = cur
	}
	return t
}

func smallTree(idx uint64) *gtree {
	return smallTreeFrom(func(n int) int {
		v := int(idx % uint64(n))
		idx /= uint64(n)
		return v
	})
}

var (
	allOnce  sync.Once
	allSmall [][]byte // every choice sequence of smallTreeFrom
)

// enumerateSmall lists every choice sequence by replaying smallTreeFrom with a growing prefix (odometer over the
// radices the function itself asks for).
func enumerateSmall() {
	var radices []int
	cur := []byte{}
	for {
		// run with the current prefix, padding with zeros, recording radices
		radices = radices[:0]
		pos := 0
		seq := []byte{}
		smallTreeFrom(func(n int) int {
			v := 0
			if pos < len(cur) {
				v = int(cur[pos])
			}
			pos++
			radices = append(radices, n)
			seq = append(seq, byte(v))
			return v
		})
		allSmall = append(allSmall, append([]byte(nil), seq...))
		// increment the odometer from the right
		i := len(seq) - 1
		for i >= 0 && int(seq[i])+1 >= radices[i] {
			i--
		}
		if i < 0 {
			return
		}
		seq[i]++
		cur = seq[:i+1]
	}
}

func nthSmallTree(i int) *gtree {
	allOnce.Do(enumerateSmall)
	seq := allSmall[i%len(allSmall)]
	pos := 0
	return smallTreeFrom(func(n int) int { v := int(seq[pos]); pos++; return v })
}

func queries(r *rand.Rand, t *gtree, all bool) []string {
	maxR := 0
	for _, b := range t.blocks {
		if b.round > maxR {
			maxR = b.round
		}
	}
	var ops []string
	for rn := 0; rn <= maxR+1; rn++ {
		for l := 0; l <= rn; l++ {
			if all || r.Intn(3) == 0 {
				ops = append(ops, fmt.Sprintf("cfb %d %d", l, rn))
			}
		}
	}
	n := len(t.blocks)
	for k := 0; k < 4 && n > 0; k++ {
		a, b := t.blocks[r.Intn(n)], t.blocks[r.Intn(n)]
		ops = append(ops, fmt.Sprintf("anc %d %d", a.hash, b.hash))
		ops = append(ops, fmt.Sprintf("decide %d %d", a.hash, r.Intn(maxR+2)))
	}
	return ops
}

// a history that follows the protocol: every round's new notarized blocks extend notarized blocks of the round
// before (parents exactly one round earlier), late notarizations only extend blocks that descend from the block
// finalized so far; after every growth step the finalized block is recomputed with lfbr = its own round.
// The `decide <lfb> <r>` lines carry the chain property: the oracle follows them.
func history(r *rand.Rand, thorough bool) []string {
	t := &gtree{blocks: []gblk{{1, 0, 0}}}
	notar := map[int][]int{0: {1}}
	byHash := map[int]gblk{1: {1, 0, 0}}
	next := 2
	lfb := 1
	top := 0
	steps := 4 + r.Intn(8)
	if thorough {
		steps = 4 + r.Intn(30)
	}
	descends := func(h, anc int) bool {
		for h != 0 {
			if h == anc {
				return true
			}
			h = byHash[h].prev
		}
		return false
	}
	honestParents := func(rn int) []int { // notarized blocks of round rn that descend from the finalized block
		var ps []int
		for _, p := range notar[rn] {
			if descends(p, lfb) {
				ps = append(ps, p)
			}
		}
		return ps
	}
	add := func(rn int, ps []int) {
		b := gblk{next, rn, ps[r.Intn(len(ps))]}
		next++
		t.blocks = append(t.blocks, b)
		byHash[b.hash] = b
		notar[rn] = append(notar[rn], b.hash)
	}
	var ops []string
	for s := 0; s < steps; s++ {
		if x := r.Intn(10); x < 7 || top == 0 {
			// the next round starts (its round object exists from now on); its blocks may arrive now or later
			top++
			if ps := honestParents(top - 1); len(ps) > 0 && r.Intn(6) != 0 {
				for k := 1 + r.Intn(3); k > 0; k-- {
					add(top, ps)
				}
			}
		} else {
			// a late notarization in an existing round
			rn := 1 + r.Intn(top)
			if ps := honestParents(rn - 1); len(ps) > 0 && len(notar[rn]) < 4 && rn > byHash[lfb].round {
				add(rn, ps)
			}
		}
		t.rounds = nil
		for rn := 0; rn <= top; rn++ {
			t.rounds = append(t.rounds, append([]int{rn}, notar[rn]...))
		}
		ops = append(ops, t.line(), fmt.Sprintf("decide %d %d", lfb, top), fmt.Sprintf("cfb %d %d", byHash[lfb].round, top))
		// the generator follows the reference decision to know the finalized block of the next step
		if nl, ok := refDecide(t, lfb, top); ok {
			lfb = nl
		}
	}
	return ops
}

// random larger trees, not necessarily following the protocol (forks that leave the finalized block, parents several
// rounds back, missing blocks, duplicate listings)
func wild(r *rand.Rand, thorough bool) []string {
	t := &gtree{blocks: []gblk{{1, 0, 0}}}
	t.rounds = append(t.rounds, []int{0, 1})
	rounds := 3 + r.Intn(6)
	if thorough {
		rounds = 3 + r.Intn(12)
	}
	level := r.Intn(3) != 0
	byRound := map[int][]int{0: {1}}
	next := 2
	for rn := 1; rn <= rounds; rn++ {
		nb := r.Intn(4)
		rd := []int{rn}
		for k := 0; k < nb; k++ {
			pr := rn - 1
			if !level && r.Intn(3) == 0 {
				pr = r.Intn(rn)
			}
			ph := 900 + rn
			if c := byRound[pr]; len(c) > 0 && r.Intn(12) != 0 {
				ph = c[r.Intn(len(c))]
			}
			t.blocks = append(t.blocks, gblk{next, rn, ph})
			byRound[rn] = append(byRound[rn], next)
			if r.Intn(4) != 0 {
				rd = append(rd, next)
			}
			next++
		}
		if r.Intn(10) != 0 {
			t.rounds = append(t.rounds, rd)
		}
	}
	return append([]string{t.line()}, queries(r, t, false)...)
}

const smallTreeCount = 241864 // = len(allSmall), checked at start-up of a thorough run

// shiftCase moves every round number of a case up by base (hashes untouched): the same trees at the top of the int64
// range, where a sum or an increment of a round number would wrap.
func shiftCase(ops []string, base int) []string {
	out := make([]string, len(ops))
	for i, op := range ops {
		f := strings.Fields(op)
		if len(f) == 0 {
			out[i] = op
			continue
		}
		switch f[0] {
		case "tree":
			t, ok := parseTree(f[1:])
			if !ok {
				out[i] = op
				continue
			}
			for k := range t.blocks {
				t.blocks[k].round += base
			}
			for k := range t.rounds {
				t.rounds[k][0] += base
			}
			out[i] = t.line()
		case "cfb":
			if len(f) == 3 {
				l, e1 := strconv.Atoi(f[1])
				rr, e2 := strconv.Atoi(f[2])
				if e1 == nil && e2 == nil {
					if l > 0 || i%3 == 0 { // lfbr 0 is also kept as it is: a walk over the whole distance
						l += base
					}
					out[i] = fmt.Sprintf("cfb %d %d", l, rr+base)
					continue
				}
			}
			out[i] = op
		case "decide":
			if len(f) == 3 {
				if rr, e := strconv.Atoi(f[2]); e == nil {
					out[i] = fmt.Sprintf("decide %s %d", f[1], rr+base)
					continue
				}
			}
			out[i] = op
		default:
			out[i] = op
		}
	}
	return out
}

func maxRoundOf(ops []string) int {
	m := 0
	for _, op := range ops {
		f := strings.Fields(op)
		if len(f) > 0 && f[0] == "tree" {
			if t, ok := parseTree(f[1:]); ok {
				for _, b := range t.blocks {
					if b.round > m {
						m = b.round
					}
				}
				for _, rd := range t.rounds {
					if rd[0] > m {
						m = rd[0]
					}
				}
			}
		}
	}
	return m
}

func gen(r *rand.Rand, thorough bool, i int) []string {
	ops := gen0(r, thorough, i)
	if r.Intn(4) == 0 && !(thorough && i < smallTreeCount) {
		// the same case with its rounds at the top of the int64 range (or at another large offset)
		top := 1<<63 - 1 - (maxRoundOf(ops) + 2) - r.Intn(3)
		base := []int{top, top, 1 << 53, 1<<62 + 1, 1 << 31}[r.Intn(5)]
		return shiftCase(ops, base)
	}
	return ops
}

func gen0(r *rand.Rand, thorough bool, i int) []string {
	if thorough && i < smallTreeCount {
		// EXHAUSTIVE: every small tree, every (lfbr, r) pair
		t := nthSmallTree(i)
		return append([]string{t.line()}, queries(r, t, true)...)
	}
	switch x := r.Intn(10); {
	case x < 4:
		t := smallTree(r.Uint64())
		return append([]string{t.line()}, queries(r, t, true)...)
	case x < 7:
		return history(r, thorough)
	case x < 9:
		return wild(r, thorough)
	default:
		return []string{"tree B 1:0:0 R 0 1", "cfb 0 0", "cfb x 1", "tree B 1:0 R", "tree R 1 5", "frob", "anc 1 9", "decide 9 0"}
	}
}

// ---------------------------------------------------------------------------------------------- reference / oracle

func (t *gtree) chainOf(h int) []int { // h, parent, grandparent … as far as the store goes
	var c []int
	seen := map[int]bool{}
	for {
		b := t.block(h)
		if b == nil || seen[h] {
			return c
		}
		seen[h] = true
		c = append(c, h)
		h = b.prev
	}
}

func (t *gtree) isLevel() bool {
	for _, b := range t.blocks {
		if p := t.block(b.prev); p != nil && p.round+1 != b.round {
			return false
		}
	}
	for _, r := range t.rounds {
		for _, h := range r[1:] {
			if t.block(h).round != r[0] {
				return false
			}
		}
	}
	// hashes and round numbers declared once
	hs := map[int]bool{}
	for _, b := range t.blocks {
		if hs[b.hash] {
			return false
		}
		hs[b.hash] = true
	}
	rs := map[int]bool{}
	for _, r := range t.rounds {
		if rs[r[0]] {
			return false
		}
		rs[r[0]] = true
	}
	return true
}

// refFound: the notarized blocks of the latest round in (lfbr, r] that has any, walking back over existing round objects
func refFound(t *gtree, lfbr, r int) []int {
	for rn := r; rn > lfbr; rn-- {
		rd := t.roundOf(rn)
		if rd == nil {
			return nil
		}
		if len(rd) > 1 {
			return rd[1:]
		}
	}
	return nil
}

// refCFB: the deepest common proper ancestor of the found blocks (0 = none), for level trees
func refCFB(t *gtree, lfbr, r int) int {
	found := refFound(t, lfbr, r)
	if len(found) == 0 {
		return 0
	}
	common := map[int]int{}
	for _, h := range found {
		for _, a := range t.chainOf(h)[1:] {
			common[a]++
		}
	}
	best, bestRound := 0, -1
	distinct := map[int]bool{}
	for _, h := range found {
		distinct[h] = true
	}
	for a, n := range common {
		cnt := 0
		for _, h := range found {
			for _, x := range t.chainOf(h)[1:] {
				if x == a {
					cnt++
					break
				}
			}
		}
		_ = n
		if cnt == len(found) && t.block(a).round > bestRound {
			best, bestRound = a, t.block(a).round
		}
	}
	if best != 0 && t.block(best).round == r {
		return 0
	}
	return best
}

func refDecide(t *gtree, plfb, r int) (int, bool) {
	p := t.block(plfb)
	if p == nil || r <= p.round {
		return 0, false
	}
	l := refCFB(t, p.round, r)
	if l == 0 || l == plfb {
		return 0, false
	}
	if t.block(l).round > p.round {
		return l, true
	}
	return 0, false
}

func oracle(ops, outs []string) *corr.Violation {
	mk := func(sig, msg string) *corr.Violation {
		return &corr.Violation{Signature: "C36:" + sig, Message: msg, Ops: ops, Impl: outs}
	}
	var t *gtree
	chainLFB := 0 // the finalized block followed through the `decide` lines of a history
	for i, op := range ops {
		f := strings.Fields(op)
		if len(f) == 0 {
			continue
		}
		if f[0] == "tree" {
			nt, ok := parseTree(f[1:])
			if ok {
				t = nt
			}
			continue
		}
		if t == nil || outs[i] == "bad-op" || outs[i] == "no-round" || outs[i] == "no-block" {
			continue
		}
		if outs[i] == "panic" {
			return mk("panic", fmt.Sprintf("op %d %q panicked", i, op))
		}
		switch f[0] {
		case "cfb":
			l, _ := strconv.Atoi(f[1])
			r, _ := strconv.Atoi(f[2])
			found := refFound(t, l, r)
			got := 0
			if strings.HasPrefix(outs[i], "blk ") {
				got, _ = strconv.Atoi(outs[i][4:])
			}
			if got != 0 {
				if len(found) == 0 {
					return mk("finalizes-without-notarized-blocks", fmt.Sprintf("op %d %q answered %s but no round in (%d,%d] has notarized blocks", i, op, outs[i], l, r))
				}
				// an ancestor of every notarized block of that round …
				for _, h := range found {
					ok := false
					for _, a := range t.chainOf(h)[1:] {
						if a == got {
							ok = true
						}
					}
					if !ok {
						return mk("not-common-ancestor", fmt.Sprintf("op %d %q answered block %d which is not a proper ancestor of notarized block %d", i, op, got, h))
					}
				}
				// … in an earlier round
				if t.isLevel() && t.block(got).round >= t.block(found[0]).round {
					return mk("not-earlier-round", fmt.Sprintf("op %d %q answered block %d of round %d", i, op, got, t.block(got).round))
				}
			}
			if t.isLevel() {
				if want := refCFB(t, l, r); want != got {
					sig := "not-deepest"
					if got == 0 {
						sig = "common-ancestor-missed"
					} else if want == 0 {
						sig = "unexpected-block"
					}
					return mk(sig, fmt.Sprintf("op %d %q answered %s, the deepest common proper ancestor is %d", i, op, outs[i], want))
				}
			}
		case "decide":
			p, _ := strconv.Atoi(f[1])
			r, _ := strconv.Atoi(f[2])
			if !t.isLevel() || t.block(p) == nil {
				continue
			}
			found := refFound(t, t.block(p).round, r)
			hyp := len(found) > 0
			for _, h := range found {
				d := false
				for _, a := range t.chainOf(h) {
					if a == p {
						d = true
					}
				}
				hyp = hyp && d
			}
			if hyp {
				// protocol hypothesis holds: every notarized block of the latest round descends from the finalized block
				if strings.HasPrefix(outs[i], "rollback") {
					return mk("rollback-on-honest-tree", fmt.Sprintf("op %d %q: %s although every notarized block descends from block %d", i, op, outs[i], p))
				}
				if strings.HasPrefix(outs[i], "forward ") {
					nl, _ := strconv.Atoi(outs[i][8:])
					d := false
					for _, a := range t.chainOf(nl) {
						if a == p {
							d = true
						}
					}
					if !d {
						return mk("finalized-chain-forks", fmt.Sprintf("op %d %q: newly finalized block %d does not descend from finalized block %d", i, op, nl, p))
					}
				}
			}
			if chainLFB == 0 {
				chainLFB = p
			}
			if strings.HasPrefix(outs[i], "forward ") && p == chainLFB {
				chainLFB, _ = strconv.Atoi(outs[i][8:])
			}
		}
	}
	return nil
}

func main() {
	corr.Main(corr.Prop{
		ID: "C36", Model: "C36", Gen: gen, Impl: impl, Oracle: oracle,
		Cases: func(th bool) int {
			if th {
				allOnce.Do(enumerateSmall)
				if len(allSmall) != smallTreeCount {
					panic(fmt.Sprintf("small-tree enumeration has %d trees", len(allSmall)))
				}
				return smallTreeCount + 15000
			}
			return 2500
		},
		Fixed: [][]string{
			{"tree B 1:0:0 B 2:1:1 B 3:1:1 B 4:2:2 B 5:2:3 R 0 1 R 1 2 3 R 2 4 5 R 3", "cfb 0 3", "cfb 0 2", "cfb 0 1", "cfb 1 2", "cfb 0 7", "anc 4 5", "decide 2 2", "decide 1 3"},
			// one notarized block: its parent; parent missing: nil
			{"tree B 1:0:0 B 2:1:1 B 3:2:2 R 1 2 R 2 3", "cfb 0 2", "cfb 1 2", "cfb 2 2", "cfb 0 1", "decide 1 2", "decide 2 2"},
			{"tree B 2:1:1 B 3:2:2 B 4:2:2 R 1 2 R 2 3 4", "cfb 0 2", "cfb 0 1"},
			// rounds at the top of the int64 range
			{"tree B 1:9223372036854775803:0 B 2:9223372036854775804:1 B 3:9223372036854775805:2 B 4:9223372036854775805:2 R 9223372036854775804 2 R 9223372036854775805 3 4 R 9223372036854775806 R 9223372036854775807",
				"cfb 0 9223372036854775807", "cfb 9223372036854775803 9223372036854775807", "cfb 9223372036854775805 9223372036854775807", "cfb 9223372036854775806 9223372036854775807", "cfb 0 9223372036854775805", "anc 3 4", "decide 2 9223372036854775807", "decide 1 9223372036854775806"},
			// not level: parents two rounds back
			{"tree B 1:0:0 B 2:1:1 B 3:2:1 B 4:3:2 B 5:3:3 R 3 4 5", "cfb 0 3", "anc 4 5", "anc 2 3"},
		},
	})
}
