// xc30: translator for property C30 (transaction signatures bind every field that affects execution).
//
//	xc30 <gosrc> <out.lean>
//
// Type-checks chaincore/transaction, chaincore/client, core/common, core/encryption, core/datastore, core/config under
// <gosrc> and extracts, from the AST of the CURRENT source, into lean/ZChain/Generated/C30.lean:
//
//   - the ORDERED list of terms `Transaction.HashData` writes (with the separator);
//   - that `ComputeHash` = `encryption.Hash(t.HashData())`, `VerifyHash` compares `t.Hash` with it, and which fields
//     `VerifySignature` passes to `Verify`;
//   - the ORDERED checks of `ValidateWrtTimeForBlock`, the steps of `ComputeProperties` and of `ComputeClientID`;
//   - the value of `TxnTypeSmartContract`, the exported fields of `transaction.Transaction` with their kinds.
//
// Small helpers the model is written against (`WithinTime`, `IsHash`, `ValidChain`, `VerifyPublicKeyClientID`,
// `GetIDFromPublicKey`, `ComputeOutputHash`) are compared textually. Fail closed.
package main

import (
	"fmt"
	"go/ast"
	"go/constant"
	"go/token"
	"go/types"
	"os"
	"strings"

	"verifharness/hashx"
)

const (
	pTxn = "0chain.net/chaincore/transaction"
	pCli = "0chain.net/chaincore/client"
	pCom = "0chain.net/core/common"
	pEnc = "0chain.net/core/encryption"
	pDS  = "0chain.net/core/datastore"
	pCfg = "0chain.net/core/config"
)

var w *hashx.World
var info *types.Info

func isNilIdent(e ast.Expr) bool { id, ok := e.(*ast.Ident); return ok && id.Name == "nil" }
func isEmptyStr(e ast.Expr) bool {
	b, ok := e.(*ast.BasicLit)
	return ok && b.Kind == token.STRING && b.Value == `""`
}

func parseHashData() (sep string, terms []string) {
	fd := w.FuncDecl(pTxn, "Transaction", "HashData")
	recv := w.RecvObj(fd)
	var builder types.Object
	var pieces []hashx.Piece
	done := false
	for _, s := range fd.Body.List {
		if done {
			w.Die(s.Pos(), "statement after return")
		}
		switch x := s.(type) {
		case *ast.AssignStmt:
			cl, ok := x.Rhs[0].(*ast.CompositeLit)
			if x.Tok != token.DEFINE || len(x.Lhs) != 1 || len(x.Rhs) != 1 || !ok || builder != nil {
				w.Die(x.Pos(), "HashData: unclassifiable assignment %s", w.Src(x))
			}
			n, ok := info.TypeOf(cl).(*types.Named)
			if !ok || n.Obj().Pkg().Path() != "strings" || n.Obj().Name() != "Builder" || len(cl.Elts) != 0 {
				w.Die(x.Pos(), "HashData: expected strings.Builder{}")
			}
			builder = info.Defs[x.Lhs[0].(*ast.Ident)]
		case *ast.ExprStmt:
			c, ok := x.X.(*ast.CallExpr)
			if !ok || len(c.Args) != 1 {
				w.Die(x.Pos(), "HashData: unclassifiable statement %s", w.Src(x))
			}
			sel, ok := c.Fun.(*ast.SelectorExpr)
			if !ok || sel.Sel.Name != "WriteString" {
				w.Die(x.Pos(), "HashData: unclassifiable statement %s", w.Src(x))
			}
			if id, ok := sel.X.(*ast.Ident); !ok || builder == nil || info.Uses[id] != builder {
				w.Die(x.Pos(), "HashData: WriteString on something else than the builder")
			}
			pieces = append(pieces, w.ClassifyString(c.Args[0], recv, nil))
		case *ast.ReturnStmt:
			if len(x.Results) != 1 {
				w.Die(x.Pos(), "HashData: unexpected return")
			}
			c, ok := x.Results[0].(*ast.CallExpr)
			if !ok || len(c.Args) != 0 {
				w.Die(x.Pos(), "HashData: expected return builder.String()")
			}
			sel, ok := c.Fun.(*ast.SelectorExpr)
			if !ok || sel.Sel.Name != "String" {
				w.Die(x.Pos(), "HashData: expected return builder.String()")
			}
			if id, ok := sel.X.(*ast.Ident); !ok || info.Uses[id] != builder {
				w.Die(x.Pos(), "HashData: expected return builder.String()")
			}
			done = true
		default:
			w.Die(s.Pos(), "HashData: unclassifiable statement %s", w.Src(s))
		}
	}
	if !done {
		w.Die(fd.Pos(), "HashData does not end in return builder.String()")
	}
	expectSep := false
	for _, p := range pieces {
		if expectSep {
			if p.Kind != "sep" {
				w.Die(p.Pos, "two terms are written back to back (no separator)")
			}
			if sep == "" {
				sep = p.Lit
			} else if sep != p.Lit {
				w.Die(p.Pos, "separator %q differs from %q", p.Lit, sep)
			}
			expectSep = false
			continue
		}
		if p.Kind == "sep" {
			w.Die(p.Pos, "string literal %q where a term is expected", p.Lit)
		}
		if len(p.Field) != 1 {
			w.Die(p.Pos, "term on nested field %v", p.Field)
		}
		switch p.Kind {
		case "str", "dec", "udec", "hashOf":
			terms = append(terms, "."+p.Kind+" ."+hashx.LeanName(p.Field[0]))
		default:
			w.Die(p.Pos, "term kind %s is not part of the transaction-hash model", p.Kind)
		}
		expectSep = true
	}
	if !expectSep {
		w.Die(fd.Pos(), "hash data ends with a separator")
	}
	if len(sep) != 1 {
		w.Die(fd.Pos(), "separator %q is not a single byte", sep)
	}
	return
}

func recvCall(e ast.Expr, recv types.Object, name string) (*ast.CallExpr, bool) {
	c, ok := e.(*ast.CallExpr)
	if !ok {
		return nil, false
	}
	sel, ok := c.Fun.(*ast.SelectorExpr)
	if !ok || sel.Sel.Name != name {
		return nil, false
	}
	p, ok := w.FieldPath(sel.X, recv)
	if !ok || len(p) != 0 {
		return nil, false
	}
	fn := w.Callee(c)
	return c, fn != nil && fn.Pkg().Path() == pTxn
}

func isField(e ast.Expr, recv types.Object, name string) bool {
	p, ok := w.FieldPath(e, recv)
	return ok && len(p) == 1 && p[0] == name
}

func checkComputeHash() {
	fd := w.FuncDecl(pTxn, "Transaction", "ComputeHash")
	recv := w.RecvObj(fd)
	hc, ok := w.SingleReturn(fd).(*ast.CallExpr)
	if !ok || !w.IsCallTo(hc, pEnc, "Hash") || len(hc.Args) != 1 {
		w.Die(fd.Pos(), "ComputeHash is not `return encryption.Hash(t.HashData())`")
	}
	if _, ok := recvCall(hc.Args[0], recv, "HashData"); !ok {
		w.Die(fd.Pos(), "ComputeHash is not `return encryption.Hash(t.HashData())`")
	}
}

// VerifyHash: `if t.Hash != t.ComputeHash() { log; return error }; return nil`
func checkVerifyHash() {
	fd := w.FuncDecl(pTxn, "Transaction", "VerifyHash")
	recv := w.RecvObj(fd)
	if len(fd.Body.List) != 2 {
		w.Die(fd.Pos(), "VerifyHash: expected two statements")
	}
	ifs, ok := fd.Body.List[0].(*ast.IfStmt)
	if !ok || ifs.Init != nil || ifs.Else != nil || !w.ReturnsError(ifs.Body) {
		w.Die(fd.Pos(), "VerifyHash: expected `if t.Hash != t.ComputeHash() { …; return error }`")
	}
	be, ok := ifs.Cond.(*ast.BinaryExpr)
	if !ok || be.Op != token.NEQ || !isField(be.X, recv, "Hash") {
		w.Die(ifs.Pos(), "VerifyHash: condition is not `t.Hash != t.ComputeHash()`")
	}
	if _, ok := recvCall(be.Y, recv, "ComputeHash"); !ok {
		w.Die(ifs.Pos(), "VerifyHash: condition is not `t.Hash != t.ComputeHash()`")
	}
	rs, ok := fd.Body.List[1].(*ast.ReturnStmt)
	if !ok || len(rs.Results) != 1 || !isNilIdent(rs.Results[0]) {
		w.Die(fd.Pos(), "VerifyHash: expected final `return nil`")
	}
}

// VerifySignature: scheme from t.GetSignatureScheme; Verify(t.<sig>, t.<msg>); error / false → error
func parseVerifySignature() (sigArg, msgArg string) {
	fd := w.FuncDecl(pTxn, "Transaction", "VerifySignature")
	recv := w.RecvObj(fd)
	var scheme, okVar types.Object
	st := fd.Body.List
	if len(st) != 6 {
		w.Die(fd.Pos(), "VerifySignature: expected 6 statements, got %d", len(st))
	}
	errCheck := func(s ast.Stmt) {
		ifs, ok := s.(*ast.IfStmt)
		if !ok || ifs.Init != nil || ifs.Else != nil || !w.ReturnsError(ifs.Body) {
			w.Die(s.Pos(), "VerifySignature: expected `if err != nil { return err }`")
		}
		be, ok := ifs.Cond.(*ast.BinaryExpr)
		if !ok || be.Op != token.NEQ || !isNilIdent(be.Y) {
			w.Die(s.Pos(), "VerifySignature: expected `if err != nil`")
		}
	}
	a0, ok := st[0].(*ast.AssignStmt)
	if !ok || len(a0.Lhs) != 2 || len(a0.Rhs) != 1 {
		w.Die(st[0].Pos(), "VerifySignature: expected `sigScheme, err := t.GetSignatureScheme(ctx)`")
	}
	if _, ok := recvCall(a0.Rhs[0], recv, "GetSignatureScheme"); !ok {
		w.Die(st[0].Pos(), "VerifySignature: scheme does not come from t.GetSignatureScheme")
	}
	scheme = info.Defs[a0.Lhs[0].(*ast.Ident)]
	errCheck(st[1])
	a2, ok := st[2].(*ast.AssignStmt)
	if !ok || len(a2.Lhs) != 2 || len(a2.Rhs) != 1 {
		w.Die(st[2].Pos(), "VerifySignature: expected `ok, err := sigScheme.Verify(t.Signature, t.Hash)`")
	}
	vc, ok := a2.Rhs[0].(*ast.CallExpr)
	if !ok || len(vc.Args) != 2 {
		w.Die(st[2].Pos(), "VerifySignature: expected a Verify call with two arguments")
	}
	sel, ok := vc.Fun.(*ast.SelectorExpr)
	if !ok || sel.Sel.Name != "Verify" {
		w.Die(st[2].Pos(), "VerifySignature: expected sigScheme.Verify")
	}
	if id, ok := sel.X.(*ast.Ident); !ok || info.Uses[id] != scheme {
		w.Die(st[2].Pos(), "VerifySignature: Verify is not called on the scheme of GetSignatureScheme")
	}
	if fn := w.Callee(vc); fn == nil || fn.Pkg().Path() != pEnc {
		w.Die(st[2].Pos(), "VerifySignature: Verify is not encryption.SignatureScheme.Verify")
	}
	p1, ok1 := w.FieldPath(vc.Args[0], recv)
	p2, ok2 := w.FieldPath(vc.Args[1], recv)
	if !ok1 || !ok2 || len(p1) != 1 || len(p2) != 1 {
		w.Die(st[2].Pos(), "VerifySignature: Verify arguments are not fields of the transaction")
	}
	okVar = info.Defs[a2.Lhs[0].(*ast.Ident)]
	errCheck(st[3])
	ifs, ok := st[4].(*ast.IfStmt)
	if !ok || ifs.Init != nil || ifs.Else != nil || !w.ReturnsError(ifs.Body) {
		w.Die(st[4].Pos(), "VerifySignature: expected `if !ok { return error }`")
	}
	u, ok := ifs.Cond.(*ast.UnaryExpr)
	if !ok || u.Op != token.NOT {
		w.Die(st[4].Pos(), "VerifySignature: expected `if !ok`")
	}
	if id, ok := u.X.(*ast.Ident); !ok || info.Uses[id] != okVar {
		w.Die(st[4].Pos(), "VerifySignature: expected `if !ok` on Verify's result")
	}
	rs, ok := st[5].(*ast.ReturnStmt)
	if !ok || len(rs.Results) != 1 || !isNilIdent(rs.Results[0]) {
		w.Die(st[5].Pos(), "VerifySignature: expected final `return nil`")
	}
	return "." + hashx.LeanName(p1[0]), "." + hashx.LeanName(p2[0])
}

// GetSignatureScheme: the facts the model's cache logic relies on (presence and arguments of the calls).
func checkGetSignatureScheme() {
	fd := w.FuncDecl(pTxn, "Transaction", "GetSignatureScheme")
	recv := w.RecvObj(fd)
	var cacheGet, setPK, putCache int
	ast.Inspect(fd.Body, func(n ast.Node) bool {
		c, ok := n.(*ast.CallExpr)
		if !ok {
			return true
		}
		switch {
		case w.IsCallTo(c, pCli, "GetClientFromCache") && len(c.Args) == 1:
			if !isField(c.Args[0], recv, "ClientID") {
				w.Die(c.Pos(), "GetClientFromCache is not looked up by t.ClientID")
			}
			cacheGet++
		case w.IsCallTo(c, pCli, "SetPublicKey") && len(c.Args) == 1:
			if !isField(c.Args[0], recv, "PublicKey") {
				w.Die(c.Pos(), "SetPublicKey is not given t.PublicKey")
			}
			setPK++
		case w.IsCallTo(c, pCli, "PutClientCache"):
			putCache++
		}
		return true
	})
	if cacheGet != 1 || setPK < 1 || putCache < 1 {
		w.Die(fd.Pos(), "GetSignatureScheme: expected one cache lookup by ClientID, SetPublicKey(t.PublicKey) and PutClientCache (found %d/%d/%d)", cacheGet, setPK, putCache)
	}
	// the cache key of a client is the hash of its key bytes
	w.BodyIs(pCli, "Client", "computePublicKeyBytes", `{ b, err := hex.DecodeString(c.PublicKey); if err != nil { return err }; c.PublicKeyBytes = b; c.ID = encryption.Hash(b); return nil }`)
	w.BodyIs(pCli, "", "PutClientCache", `{ return cacher.Add(co.GetKey(), co) }`)
}

func parseComputeClientID() []string {
	fd := w.FuncDecl(pTxn, "Transaction", "ComputeClientID")
	recv := w.RecvObj(fd)
	var steps []string
	st := fd.Body.List
	i := 0
	// if t.PublicKey == "" { log; return Err }
	if ifs, ok := st[i].(*ast.IfStmt); ok && ifs.Init == nil && ifs.Else == nil {
		if be, ok := ifs.Cond.(*ast.BinaryExpr); ok && be.Op == token.EQL && isField(be.X, recv, "PublicKey") && isEmptyStr(be.Y) && w.ReturnsError(ifs.Body) {
			steps = append(steps, ".pkNonEmpty")
			i++
		}
	}
	// if t.ClientID != "" { return encryption.VerifyPublicKeyClientID(t.PublicKey, t.ClientID) }
	if i < len(st) {
		if ifs, ok := st[i].(*ast.IfStmt); ok && ifs.Init == nil && ifs.Else == nil {
			be, ok := ifs.Cond.(*ast.BinaryExpr)
			if !ok || be.Op != token.NEQ || !isField(be.X, recv, "ClientID") || !isEmptyStr(be.Y) || len(ifs.Body.List) != 1 {
				w.Die(ifs.Pos(), "ComputeClientID: unclassifiable if statement")
			}
			rs, ok := ifs.Body.List[0].(*ast.ReturnStmt)
			if !ok || len(rs.Results) != 1 {
				w.Die(ifs.Pos(), "ComputeClientID: expected return VerifyPublicKeyClientID(...)")
			}
			c, ok := rs.Results[0].(*ast.CallExpr)
			if !ok || !w.IsCallTo(c, pEnc, "VerifyPublicKeyClientID") || len(c.Args) != 2 || !isField(c.Args[0], recv, "PublicKey") || !isField(c.Args[1], recv, "ClientID") {
				w.Die(ifs.Pos(), "ComputeClientID: expected return encryption.VerifyPublicKeyClientID(t.PublicKey, t.ClientID)")
			}
			w.BodyIs(pEnc, "", "VerifyPublicKeyClientID", `{ pubKeyBytes, err := hex.DecodeString(pubKey); if err != nil { return fmt.Errorf("invalid public key: %v", err) }; if Hash(pubKeyBytes) != clientID { return fmt.Errorf("mismatched public key and client ID") }; return nil }`)
			steps = append(steps, ".verifyIfSet")
			i++
		}
	}
	// id, err := client.GetIDFromPublicKey(t.PublicKey); if err != nil {…}; t.ClientID = id; return nil
	if i+4 != len(st) {
		w.Die(fd.Pos(), "ComputeClientID: unclassifiable tail (%d statements left)", len(st)-i)
	}
	as, ok := st[i].(*ast.AssignStmt)
	if !ok || len(as.Lhs) != 2 || len(as.Rhs) != 1 {
		w.Die(st[i].Pos(), "ComputeClientID: expected id, err := client.GetIDFromPublicKey(t.PublicKey)")
	}
	c, ok := as.Rhs[0].(*ast.CallExpr)
	if !ok || !w.IsCallTo(c, pCli, "GetIDFromPublicKey") || len(c.Args) != 1 || !isField(c.Args[0], recv, "PublicKey") {
		w.Die(st[i].Pos(), "ComputeClientID: expected client.GetIDFromPublicKey(t.PublicKey)")
	}
	idVar := info.Defs[as.Lhs[0].(*ast.Ident)]
	w.BodyIs(pCli, "", "GetIDFromPublicKey", `{ b, err := hex.DecodeString(pubkey); if err != nil { return "", err }; return encryption.Hash(b), nil }`)
	ifs, ok := st[i+1].(*ast.IfStmt)
	if !ok || ifs.Init != nil || ifs.Else != nil || !w.ReturnsError(ifs.Body) {
		w.Die(st[i+1].Pos(), "ComputeClientID: expected `if err != nil { …; return error }`")
	}
	set, ok := st[i+2].(*ast.AssignStmt)
	if !ok || set.Tok != token.ASSIGN || len(set.Lhs) != 1 || !isField(set.Lhs[0], recv, "ClientID") {
		w.Die(st[i+2].Pos(), "ComputeClientID: expected t.ClientID = id")
	}
	if id, ok := set.Rhs[0].(*ast.Ident); !ok || info.Uses[id] != idVar {
		w.Die(st[i+2].Pos(), "ComputeClientID: expected t.ClientID = id")
	}
	rs, ok := st[i+3].(*ast.ReturnStmt)
	if !ok || len(rs.Results) != 1 || !isNilIdent(rs.Results[0]) {
		w.Die(st[i+3].Pos(), "ComputeClientID: expected final return nil")
	}
	steps = append(steps, ".deriveIfEmpty")
	return steps
}

func parseComputeProperties() (steps []string, scType string) {
	fd := w.FuncDecl(pTxn, "Transaction", "ComputeProperties")
	recv := w.RecvObj(fd)
	derived := map[string]bool{"EntityCollection": true, "SmartContractData": true}
	for i, s := range fd.Body.List {
		switch x := s.(type) {
		case *ast.AssignStmt:
			// assignments to derived, non-serialised fields
			p, ok := w.FieldPath(x.Lhs[0], recv)
			if x.Tok != token.ASSIGN || len(x.Lhs) != 1 || !ok || len(p) != 1 || !derived[p[0]] {
				w.Die(x.Pos(), "ComputeProperties: unclassifiable assignment %s", w.Src(x))
			}
		case *ast.IfStmt:
			if x.Init != nil || x.Else != nil {
				w.Die(x.Pos(), "ComputeProperties: unclassifiable if")
			}
			be, ok := x.Cond.(*ast.BinaryExpr)
			if !ok || be.Op != token.EQL {
				w.Die(x.Pos(), "ComputeProperties: unclassifiable condition %s", w.Src(x.Cond))
			}
			switch {
			case isField(be.X, recv, "ChainID") && isEmptyStr(be.Y):
				if len(x.Body.List) != 1 {
					w.Die(x.Pos(), "ComputeProperties: unclassifiable chain default")
				}
				as, ok := x.Body.List[0].(*ast.AssignStmt)
				if !ok || len(as.Lhs) != 1 || !isField(as.Lhs[0], recv, "ChainID") {
					w.Die(x.Pos(), "ComputeProperties: expected t.ChainID = …")
				}
				c, ok := as.Rhs[0].(*ast.CallExpr)
				if !ok || !w.IsCallTo(c, pDS, "ToKey") || len(c.Args) != 1 {
					w.Die(x.Pos(), "ComputeProperties: expected datastore.ToKey(config.GetServerChainID())")
				}
				if in, ok := c.Args[0].(*ast.CallExpr); !ok || !w.IsCallTo(in, pCfg, "GetServerChainID") {
					w.Die(x.Pos(), "ComputeProperties: expected config.GetServerChainID()")
				}
				w.BodyIs(pCfg, "", "GetServerChainID", `{ if ServerChainID == "" { return MAIN_CHAIN }; return ServerChainID }`)
				steps = append(steps, ".chainDefault")
			case isField(be.X, recv, "TransactionType"):
				tv := info.Types[be.Y]
				if tv.Value == nil {
					w.Die(x.Pos(), "ComputeProperties: TransactionType is not compared with a constant")
				}
				v, _ := constant.Int64Val(tv.Value)
				scType = fmt.Sprint(v)
				if id, ok := be.Y.(*ast.Ident); !ok || id.Name != "TxnTypeSmartContract" {
					w.Die(x.Pos(), "ComputeProperties: expected TxnTypeSmartContract")
				}
				if len(x.Body.List) != 1 {
					w.Die(x.Pos(), "ComputeProperties: unclassifiable smart-contract branch")
				}
				in, ok := x.Body.List[0].(*ast.IfStmt)
				if !ok || in.Init == nil || in.Else != nil || !w.ReturnsError(in.Body) {
					w.Die(x.Pos(), "ComputeProperties: expected `if err := json.Unmarshal(...); err != nil { …; return error }`")
				}
				ia, ok := in.Init.(*ast.AssignStmt)
				if !ok || len(ia.Rhs) != 1 {
					w.Die(in.Pos(), "ComputeProperties: expected json.Unmarshal")
				}
				jc, ok := ia.Rhs[0].(*ast.CallExpr)
				if !ok || !w.IsCallTo(jc, "encoding/json", "Unmarshal") || len(jc.Args) != 2 {
					w.Die(in.Pos(), "ComputeProperties: expected json.Unmarshal")
				}
				conv, ok := jc.Args[0].(*ast.CallExpr)
				if !ok || len(conv.Args) != 1 || !isField(conv.Args[0], recv, "TransactionData") {
					w.Die(in.Pos(), "ComputeProperties: json.Unmarshal is not applied to t.TransactionData")
				}
				if !isField(jc.Args[1], recv, "SmartContractData") {
					w.Die(in.Pos(), "ComputeProperties: json.Unmarshal target is not t.SmartContractData")
				}
				steps = append(steps, ".scDataJson")
			default:
				w.Die(x.Pos(), "ComputeProperties: unclassifiable condition %s", w.Src(x.Cond))
			}
		case *ast.ReturnStmt:
			if i != len(fd.Body.List)-1 || len(x.Results) != 1 {
				w.Die(x.Pos(), "ComputeProperties: unexpected return")
			}
			if _, ok := recvCall(x.Results[0], recv, "ComputeClientID"); !ok {
				w.Die(x.Pos(), "ComputeProperties: expected return t.ComputeClientID()")
			}
			steps = append(steps, ".computeClientID")
		default:
			w.Die(s.Pos(), "ComputeProperties: unclassifiable statement %s", w.Src(s))
		}
	}
	if scType == "" {
		w.Die(fd.Pos(), "ComputeProperties: smart-contract type constant not found")
	}
	return
}

func parseValidate() []string {
	fd := w.FuncDecl(pTxn, "Transaction", "ValidateWrtTimeForBlock")
	recv := w.RecvObj(fd)
	tsParam := info.Defs[fd.Type.Params.List[1].Names[0]]
	vsParam := info.Defs[fd.Type.Params.List[2].Names[0]]
	if tsParam == nil || vsParam == nil || vsParam.Name() != "validateSignature" {
		w.Die(fd.Pos(), "ValidateWrtTimeForBlock: unexpected parameters")
	}
	var checks []string
	pending := ""
	isErrNotNil := func(e ast.Expr) bool {
		be, ok := e.(*ast.BinaryExpr)
		if !ok || be.Op != token.NEQ || !isNilIdent(be.Y) {
			return false
		}
		id, ok := be.X.(*ast.Ident)
		return ok && id.Name == "err"
	}
	// `err = t.<M>(ctx)` followed by `if err != nil { return err }` inside a block
	callThenCheck := func(list []ast.Stmt, method string) bool {
		if len(list) != 2 {
			return false
		}
		as, ok := list[0].(*ast.AssignStmt)
		if !ok || len(as.Lhs) != 1 || len(as.Rhs) != 1 {
			return false
		}
		if _, ok := recvCall(as.Rhs[0], recv, method); !ok {
			return false
		}
		ifs, ok := list[1].(*ast.IfStmt)
		return ok && ifs.Init == nil && ifs.Else == nil && isErrNotNil(ifs.Cond) && w.ReturnsError(ifs.Body)
	}
	st := fd.Body.List
	for i := 0; i < len(st); i++ {
		switch x := st[i].(type) {
		case *ast.AssignStmt:
			if pending != "" || len(x.Lhs) != 1 || len(x.Rhs) != 1 {
				w.Die(x.Pos(), "ValidateWrtTimeForBlock: unclassifiable assignment")
			}
			c, ok := x.Rhs[0].(*ast.CallExpr)
			if !ok {
				w.Die(x.Pos(), "ValidateWrtTimeForBlock: unclassifiable assignment")
			}
			switch {
			case w.IsCallTo(c, pCfg, "ValidChain") && len(c.Args) == 1 && isField(c.Args[0], recv, "ChainID"):
				w.BodyIs(pCfg, "", "ValidChain", `{ result := chain == ServerChainID || (chain == "" && ServerChainID == MAIN_CHAIN); if result { return nil }; return ErrSupportedChain }`)
				pending = ".chainValid"
			default:
				if _, ok := recvCall(c, recv, "VerifyHash"); ok {
					pending = ".hashMatches"
				} else {
					w.Die(x.Pos(), "ValidateWrtTimeForBlock: unclassifiable call %s", w.Src(c))
				}
			}
		case *ast.IfStmt:
			if x.Init != nil || x.Else != nil {
				w.Die(x.Pos(), "ValidateWrtTimeForBlock: unclassifiable if")
			}
			if pending != "" {
				if !isErrNotNil(x.Cond) || !w.ReturnsError(x.Body) {
					w.Die(x.Pos(), "ValidateWrtTimeForBlock: expected `if err != nil { return err }`")
				}
				checks = append(checks, pending)
				pending = ""
				continue
			}
			switch c := x.Cond.(type) {
			case *ast.Ident:
				if info.Uses[c] != vsParam || !callThenCheck(x.Body.List, "VerifySignature") {
					w.Die(x.Pos(), "ValidateWrtTimeForBlock: expected `if validateSignature { err = t.VerifySignature(ctx); if err != nil { return err } }`")
				}
				checks = append(checks, ".sigIfRequested")
			case *ast.UnaryExpr:
				// !common.WithinTime(int64(ts), int64(t.CreationDate), TXN_TIME_TOLERANCE)
				call, ok := c.X.(*ast.CallExpr)
				if c.Op != token.NOT || !ok || !w.IsCallTo(call, pCom, "WithinTime") || len(call.Args) != 3 || !w.ReturnsError(x.Body) {
					w.Die(x.Pos(), "ValidateWrtTimeForBlock: unclassifiable condition %s", w.Src(x.Cond))
				}
				a0 := call.Args[0].(*ast.CallExpr).Args[0]
				a1 := call.Args[1].(*ast.CallExpr).Args[0]
				if id, ok := a0.(*ast.Ident); !ok || info.Uses[id] != tsParam {
					w.Die(x.Pos(), "WithinTime: first argument is not the given time")
				}
				if !isField(a1, recv, "CreationDate") {
					w.Die(x.Pos(), "WithinTime: second argument is not t.CreationDate")
				}
				if id, ok := call.Args[2].(*ast.Ident); !ok || id.Name != "TXN_TIME_TOLERANCE" {
					w.Die(x.Pos(), "WithinTime: third argument is not TXN_TIME_TOLERANCE")
				}
				w.BodyIs(pCom, "", "WithinTime", `{ return ts >= o-seconds && ts <= o+seconds }`)
				checks = append(checks, ".withinTime")
			case *ast.BinaryExpr:
				switch {
				case c.Op == token.LAND:
					// !encryption.IsHash(t.ToClientID) && t.ToClientID != ""
					u, ok := c.X.(*ast.UnaryExpr)
					r, ok2 := c.Y.(*ast.BinaryExpr)
					if !ok || !ok2 || u.Op != token.NOT || r.Op != token.NEQ || !isField(r.X, recv, "ToClientID") || !isEmptyStr(r.Y) || !w.ReturnsError(x.Body) {
						w.Die(x.Pos(), "ValidateWrtTimeForBlock: unclassifiable condition %s", w.Src(x.Cond))
					}
					call, ok := u.X.(*ast.CallExpr)
					if !ok || !w.IsCallTo(call, pEnc, "IsHash") || len(call.Args) != 1 || !isField(call.Args[0], recv, "ToClientID") {
						w.Die(x.Pos(), "ValidateWrtTimeForBlock: unclassifiable condition %s", w.Src(x.Cond))
					}
					w.BodyIs(pEnc, "", "IsHash", `{ bytes, err := hex.DecodeString(str); return err == nil && len(bytes) == HASH_LENGTH }`)
					if v := w.Pkgs[pEnc].Types.Scope().Lookup("HASH_LENGTH").(*types.Const).Val().String(); v != "32" {
						w.Die(x.Pos(), "HASH_LENGTH = %s, model assumes 32", v)
					}
					checks = append(checks, ".toHashOrEmpty")
				case c.Op == token.EQL && isField(c.X, recv, "Hash") && isEmptyStr(c.Y) && w.ReturnsError(x.Body):
					checks = append(checks, ".hashNonEmpty")
				case c.Op == token.EQL && isField(c.X, recv, "ClientID") && isField(c.Y, recv, "ToClientID") && w.ReturnsError(x.Body):
					checks = append(checks, ".senderNotRecipient")
				case c.Op == token.NEQ && isField(c.X, recv, "OutputHash") && isEmptyStr(c.Y):
					if !callThenCheck(x.Body.List, "VerifyOutputHash") {
						w.Die(x.Pos(), "ValidateWrtTimeForBlock: expected `err = t.VerifyOutputHash(ctx); if err != nil { return err }`")
					}
					checkVerifyOutputHash()
					checks = append(checks, ".outputHashIfSet")
				default:
					w.Die(x.Pos(), "ValidateWrtTimeForBlock: unclassifiable condition %s", w.Src(x.Cond))
				}
			default:
				w.Die(x.Pos(), "ValidateWrtTimeForBlock: unclassifiable condition %s", w.Src(x.Cond))
			}
		case *ast.ReturnStmt:
			if pending != "" || i != len(st)-1 || len(x.Results) != 1 || !isNilIdent(x.Results[0]) {
				w.Die(x.Pos(), "ValidateWrtTimeForBlock: unexpected return")
			}
		default:
			w.Die(st[i].Pos(), "ValidateWrtTimeForBlock: unclassifiable statement %s", w.Src(st[i]))
		}
	}
	if pending != "" {
		w.Die(fd.Pos(), "ValidateWrtTimeForBlock: result of %s is not tested", pending)
	}
	return checks
}

func checkVerifyOutputHash() {
	fd := w.FuncDecl(pTxn, "Transaction", "VerifyOutputHash")
	recv := w.RecvObj(fd)
	if len(fd.Body.List) != 2 {
		w.Die(fd.Pos(), "VerifyOutputHash: expected two statements")
	}
	ifs, ok := fd.Body.List[0].(*ast.IfStmt)
	if !ok || ifs.Init != nil || ifs.Else != nil || !w.ReturnsError(ifs.Body) {
		w.Die(fd.Pos(), "VerifyOutputHash: expected `if t.OutputHash != t.ComputeOutputHash() { …; return error }`")
	}
	be, ok := ifs.Cond.(*ast.BinaryExpr)
	if !ok || be.Op != token.NEQ || !isField(be.X, recv, "OutputHash") {
		w.Die(ifs.Pos(), "VerifyOutputHash: unexpected condition")
	}
	if _, ok := recvCall(be.Y, recv, "ComputeOutputHash"); !ok {
		w.Die(ifs.Pos(), "VerifyOutputHash: unexpected condition")
	}
	w.BodyIs(pTxn, "Transaction", "ComputeOutputHash", `{ if t.TransactionOutput == "" { return encryption.EmptyHash }; return encryption.Hash(t.TransactionOutput) }`)
}

func main() {
	if len(os.Args) != 3 {
		fmt.Fprintln(os.Stderr, "usage: xc30 <gosrc> <out.lean>")
		os.Exit(2)
	}
	w = hashx.Load("xc30", os.Args[1], pTxn, pCli, pCom, pEnc, pDS, pCfg)
	info = w.Pkgs[pTxn].TypesInfo
	sep, terms := parseHashData()
	checkComputeHash()
	hashName := w.CheckEncryptionHash()
	checkVerifyHash()
	sigArg, msgArg := parseVerifySignature()
	checkGetSignatureScheme()
	idSteps := parseComputeClientID()
	propSteps, scType := parseComputeProperties()
	checks := parseValidate()
	// ValidateWrtTime delegates with validateSignature = true
	w.BodyIs(pTxn, "Transaction", "ValidateWrtTime", `{ return t.ValidateWrtTimeForBlock(ctx, ts, true) }`)
	fields := w.StructFields(pTxn, "Transaction", map[string]bool{"HashIDField": true, "VersionField": true})
	var fl []string
	for _, f := range fields {
		fl = append(fl, fmt.Sprintf("(.%s, .%s)", hashx.LeanName(f[0]), f[1]))
	}
	hfd := w.FuncDecl(pTxn, "Transaction", "HashData")
	pos := w.Fset.Position(hfd.Pos())
	rel := strings.TrimPrefix(pos.Filename, strings.TrimSuffix(os.Args[1], "/")+"/")
	var b strings.Builder
	fmt.Fprintf(&b, "import ZChain.Model.TxnHash\n/-!\nGENERATED by harness/cmd/xc30 from %s (HashData at line %d) — do not edit.\nRegenerated by `./check C30` on every run; the theorems of `Props/C30.lean` are stated over this table.\n-/\n", rel, pos.Line)
	fmt.Fprintf(&b, "namespace ZChain.Generated.C30\nopen ZChain.HashBind ZChain.TxnHash\n\n")
	fmt.Fprintf(&b, "def table : Table where\n  sep := %d\n  terms := [%s]\n  checks := [%s]\n  propSteps := [%s]\n  idSteps := [%s]\n  sigArg := %s\n  msgArg := %s\n  scType := %s\n  fields := [%s]\n\n",
		sep[0], strings.Join(terms, ", "), strings.Join(checks, ", "), strings.Join(propSteps, ", "), strings.Join(idSteps, ", "), sigArg, msgArg, scType, strings.Join(fl, ", "))
	fmt.Fprintf(&b, "/-- `ComputeHash = encryption.Hash(HashData())`, `encryption.Hash` = -/\ndef hashFunction : String := %q\n\nend ZChain.Generated.C30\n", hashName)
	if err := hashx.WriteLean(os.Args[2], b.String()); err != nil {
		w.Die(token.NoPos, "%v", err)
	}
	fmt.Printf("xc30: %d hash terms (sep %q), %d checks, %d+%d steps, Verify(%s,%s), scType %s, %d struct fields, hash %s\n",
		len(terms), sep, len(checks), len(propSteps), len(idSteps), sigArg, msgArg, scType, len(fields), hashName)
	fmt.Printf("terms: %s\n", strings.Join(terms, " "))
	fmt.Printf("checks: %s | props: %s | id: %s\n", strings.Join(checks, " "), strings.Join(propSteps, " "), strings.Join(idSteps, " "))
}
