// C11 harness: stake-pool lock / unlock / collect on the REAL contracts (minersc miners and sharders, storagesc blobbers
// and validators, zcnsc authorizers, through the real Chain.UpdateState) against Model/Provider.lean, with several
// clients interleaving, reward payments in between, and the occasional slashing kill / shut-down.
package main

import (
	"fmt"
	"math"
	"math/rand"
	"os"
	"strings"

	"verifharness/cmd/c23/spw"
	"verifharness/lib/corr"
)

const coin = 10000000000

func hexF(f float64) string { return fmt.Sprintf("%016x", math.Float64bits(f)) }

type prov struct {
	kind   string
	id     int
	wallet int
}

func header(r *rand.Rand, slash float64) string {
	var accts []string
	accts = append(accts, "0=1000000000000000", "1=1000000000000000", "2=1000000000000000", fmt.Sprintf("3=%d", 1000*coin))
	for id := 10; id < 63; id++ {
		switch {
		case id == 62: // never funded
		case id == 61:
			accts = append(accts, fmt.Sprintf("%d=%d", id, 5))
		case id == 49 && r != nil && r.Intn(2) == 0:
			accts = append(accts, fmt.Sprintf("%d=%d", id, 30*coin)) // runs out of tokens while staking
		default:
			accts = append(accts, fmt.Sprintf("%d=%d", id, 100000*coin))
		}
	}
	return fmt.Sprintf("init 1 %s %d %s %s %d", hexF(slash), spw.MinLockSeconds, spw.OrderString(), strings.Join(accts, ","), coin)
}

func gen(r *rand.Rand, thorough bool, i int) []string {
	ops := []string{header(r, []float64{0.5, 0.1, 0, 0.25}[r.Intn(4)])}
	var ps []prov
	ratios := []float64{0.1, 0, 0.25, 0.5}
	add := func(kind string, id, wallet int) {
		md := 1 + r.Intn(4)
		if r.Intn(3) == 0 {
			md = 10
		}
		ops = append(ops, fmt.Sprintf("reg %s %d %d %d %s", kind, id, wallet, md, hexF(ratios[r.Intn(len(ratios))])))
		ps = append(ps, prov{kind, id, wallet})
	}
	// at least one minersc and one storagesc provider in every case
	if r.Intn(2) == 0 {
		add("miner", 10, 56)
	} else {
		add("sharder", 20, 58)
	}
	if r.Intn(2) == 0 {
		add("blobber", 30, 50)
	} else {
		add("validator", 35, 53)
	}
	for _, c := range []struct {
		kind       string
		id, wallet int
	}{{"miner", 11, 41}, {"sharder", 21, 59}, {"blobber", 31, 51}, {"validator", 36, 42}, {"authorizer", 40, 60}, {"miner", 10, 56}, {"blobber", 30, 50}} {
		dup := false
		for _, p := range ps {
			if p.id == c.id {
				dup = true
			}
		}
		if !dup && (r.Intn(3) == 0 || (c.kind == "authorizer" && r.Intn(2) == 0)) {
			add(c.kind, c.id, c.wallet)
		}
	}
	ops = append(ops, "dump")
	stakers := []int{41, 42, 43, 44, 49}
	rare := []int{50, 56, 58, 61, 62, 30}
	values := []uint64{1000 * coin, 333*coin + 7, 10 * coin, 3 * coin, 12345678901, 1, 100000000, 99999999, 20000 * coin, 20000*coin + 1, 0, 19000 * coin}
	nows := []uint64{1700000000, 1700000000, 1700000000, 1700000000, 0, 4102444800}
	step := func(op string) { ops = append(ops, op, "dump") }
	pick := func() prov { return ps[r.Intn(len(ps))] }
	client := func(p prov) int {
		switch r.Intn(12) {
		case 0:
			return p.wallet
		case 1:
			return rare[r.Intn(len(rare))]
		}
		return stakers[r.Intn(len(stakers))]
	}
	nblob := 0
	for _, p := range ps {
		if p.kind == "blobber" {
			nblob++
		}
	}
	if nblob >= 2 && r.Intn(2) == 0 {
		step(fmt.Sprintf("lock blobber 30 46 %d %d", 1000*coin, nows[0]))
		step(fmt.Sprintf("lock blobber 31 46 %d %d", 1000*coin, nows[0]))
		step("alloc 47 30 31 1000000000")
	}
	hasAuth := false
	for _, p := range ps {
		if p.kind == "authorizer" {
			hasAuth = true
		}
	}
	n := 10 + r.Intn(20)
	if thorough {
		n = 15 + r.Intn(60)
	}
	for k := 0; k < n; k++ {
		p := pick()
		switch x := r.Intn(100); {
		case x < 40:
			v := values[r.Intn(len(values))]
			if r.Intn(2) == 0 {
				v = values[r.Intn(5)]
			}
			step(fmt.Sprintf("lock %s %d %d %d %d", p.kind, p.id, client(p), v, nows[r.Intn(len(nows))]))
		case x < 62:
			step(fmt.Sprintf("unlock %s %d %d 2000000000", p.kind, p.id, client(p)))
		case x < 72:
			step(fmt.Sprintf("collect %s %d %d", p.kind, p.id, client(p)))
		case x >= 87 && x < 92 && hasAuth:
			step(fmt.Sprintf("delauth 40 %d", []int{3, 3, 60, 45}[r.Intn(4)])) // zcnsc delete-authorizer: pools marked Deleted, nothing paid
		case x < 90:
			step(fmt.Sprintf("reward %s %d %d", p.kind, p.id, []uint64{1000, 7, 123456789, 1, 0, 5 * coin, 999999}[r.Intn(7)]))
		case x < 94:
			step(fmt.Sprintf("kill %s %d %d", p.kind, p.id, []int{3, 3, 45, p.wallet}[r.Intn(4)]))
		case x < 97:
			step(fmt.Sprintf("shutdown %s %d %d", p.kind, p.id, []int{3, p.wallet, 45}[r.Intn(3)]))
		default:
			step(fmt.Sprintf("lock %s %d %d %d %d", p.kind, 48, client(p), values[r.Intn(3)], nows[0])) // no such provider
		}
	}
	return ops
}

func main() {
	if os.Getenv("VERIF_SPW_CHILD") != "" {
		spw.ChildMain()
		return
	}
	corr.Main(corr.Prop{
		ID: "C11", Model: "C23" /* the stake-pool operations are part of Model/Provider.lean, driven by zdrv-C23 */, Gen: gen, Impl: spw.Run, Oracle: oracle,
		Cases: func(th bool) int {
			if th {
				return 2500
			}
			return 80
		},
		Fixed: fixed(),
	})
}
