package main

// The C11 oracle: the property on what the REAL code answered (status, dumps of all accounts and stake-pool records before
// and after every operation). It does not use the Lean model.

import (
	"fmt"
	"sort"
	"strconv"
	"strings"

	"verifharness/cmd/c23/spw"
	"verifharness/lib/corr"
)

// bounds of the three contracts in the repo's sc.yaml (stakepool min_stake / max_stake)
func minStake(kind string) uint64 {
	if kind == "blobber" || kind == "validator" {
		return 100000000
	}
	return 0
}

const maxStake = 20000 * coin

func scOf(kind string) int {
	switch kind {
	case "miner", "sharder":
		return 0
	case "blobber", "validator":
		return 1
	}
	return 2
}

// known: recorded signatures — only to choose which violation of a case is reported first (an unrecorded one wins).
var known = map[string]bool{
	// the three authorizer signatures (authorizer-lock-refused-after-first-lock, authorizer-unlock-refused-after-lock,
	// authorizer-stake-erased-by-reward) were fixed by repo commit fc9e9de: not listed, a regression is reported first
}

func oracle(ops, outs []string) *corr.Violation {
	var all []*corr.Violation
	mk := func(sig, msg string) {
		all = append(all, &corr.Violation{Signature: "C11:" + sig, Message: msg, Ops: ops, Impl: outs})
	}
	dumps := make([]*spw.DumpRec, len(ops))
	for i, o := range outs {
		if ops[i] == "dump" {
			dumps[i] = spw.ParseDump(o)
		}
	}
	prev := func(i int) *spw.DumpRec {
		for j := i - 1; j >= 0; j-- {
			if dumps[j] != nil {
				return dumps[j]
			}
		}
		return nil
	}
	next := func(i int) *spw.DumpRec {
		if i+1 < len(ops) && dumps[i+1] != nil {
			return dumps[i+1]
		}
		return nil
	}
	// everything except the listed accounts and the listed record must be identical
	sameExcept := func(p, n *spw.DumpRec, accts []int, rec string) []string {
		var diff []string
		skip := map[int]bool{}
		for _, a := range accts {
			skip[a] = true
		}
		for id, a := range p.Accts {
			if !skip[id] && n.Accts[id].Bal != a.Bal {
				diff = append(diff, fmt.Sprintf("acct:%d", id))
			}
		}
		for id, a := range n.Accts {
			if _, ok := p.Accts[id]; !ok && !skip[id] && a.Bal != 0 {
				diff = append(diff, fmt.Sprintf("acct:%d", id))
			}
		}
		for k, r := range p.SPs {
			if k != rec && n.SPs[k].Raw != r.Raw {
				diff = append(diff, "sp:"+k)
			}
		}
		for k := range n.SPs {
			if _, ok := p.SPs[k]; !ok && k != rec {
				diff = append(diff, "+sp:"+k)
			}
		}
		sort.Strings(diff)
		return diff
	}
	otherPools := func(a, b spw.SPRec, c int) bool {
		for id, dp := range a.Pools {
			if id != c && b.Pools[id] != dp {
				return false
			}
		}
		for id := range b.Pools {
			if _, ok := a.Pools[id]; !ok && id != c {
				return false
			}
		}
		return true
	}
	locked := map[string]uint64{}  // "kind:pid:client" -> sum locked since the pool was created
	untracked := map[string]bool{} // records touched by slashing (kill / shut-down): C23's subject
	for i, op := range ops {
		w := strings.Fields(op)
		out := strings.Fields(outs[i])
		if len(w) == 0 || len(out) == 0 || strings.HasPrefix(outs[i], "harness-panic") {
			continue
		}
		status := out[0]
		p, n := prev(i), next(i)
		switch w[0] {
		case "kill", "shutdown":
			if len(w) == 4 {
				untracked[w[1]+":"+w[2]] = true
				untracked[w[1]+":"+w[3]] = true // a regression of ShutDown to the caller-id save key (C23, fixed by d221d33) would touch this record too
			}
		case "lock":
			if len(w) != 6 || p == nil || n == nil {
				continue
			}
			kind := w[1]
			C, _ := strconv.Atoi(w[3])
			V, _ := strconv.ParseUint(w[4], 10, 64)
			rec := kind + ":" + w[2]
			sc := scOf(kind)
			before, had := p.SPs[rec]
			after := n.SPs[rec]
			if status == "ok" {
				if n.Accts[C].Bal+V != p.Accts[C].Bal || n.Accts[sc].Bal != p.Accts[sc].Bal+V {
					mk("lock-moves-wrong-amount", fmt.Sprintf("op %d %q: staker %d -> %d, contract wallet %d -> %d, value %d", i, op, p.Accts[C].Bal, n.Accts[C].Bal, p.Accts[sc].Bal, n.Accts[sc].Bal, V))
				}
				if after.Pools[C].Bal != before.Pools[C].Bal+V {
					mk("lock-pool-balance", fmt.Sprintf("op %d %q: delegate pool balance %d -> %d, value %d", i, op, before.Pools[C].Bal, after.Pools[C].Bal, V))
				}
				if !had || !otherPools(before, after, C) || after.Reward != before.Reward {
					mk("lock-touches-other-pools", fmt.Sprintf("op %d %q: %s -> %s", i, op, before.Raw, after.Raw))
				}
				if d := sameExcept(p, n, []int{C, sc}, rec); len(d) > 0 {
					mk("lock-touches-others", fmt.Sprintf("op %d %q changed %v", i, op, d))
				}
				if V == 0 || V < minStake(kind) || after.Pools[C].Bal > maxStake {
					mk("stake-bounds", fmt.Sprintf("op %d %q accepted outside [MinStake, MaxStake]: value %d, pool %d", i, op, V, after.Pools[C].Bal))
				}
				if uint64(len(after.Pools)) > before.MaxDel && uint64(len(before.Pools)) <= before.MaxDel {
					mk("delegate-limit", fmt.Sprintf("op %d %q: %d delegate pools, MaxNumDelegates %d", i, op, len(after.Pools), before.MaxDel))
				}
				key := rec + ":" + w[3]
				if _, was := before.Pools[C]; !was {
					locked[key] = 0
				}
				locked[key] += V
			} else {
				if d := sameExcept(p, n, nil, ""); len(d) > 0 {
					mk("failed-call-changed-state", fmt.Sprintf("op %d %q answered %s but changed %v", i, op, status, d))
				}
				_, has := before.Pools[C]
				if status == "fail:max-delegates" && had && (has || uint64(len(before.Pools)) < before.MaxDel) {
					if kind == "authorizer" {
						mk("authorizer-lock-refused-after-first-lock", fmt.Sprintf("op %d %q refused with max_delegates although the record holds %d of %d delegate pools: %s", i, op, len(before.Pools), before.MaxDel, before.Raw))
					} else {
						mk("lock-refused-below-delegate-limit", fmt.Sprintf("op %d %q: %s", i, op, before.Raw))
					}
				}
			}
		case "unlock":
			if len(w) != 5 || p == nil || n == nil {
				continue
			}
			kind := w[1]
			C, _ := strconv.Atoi(w[3])
			rec := kind + ":" + w[2]
			sc := scOf(kind)
			before := p.SPs[rec]
			after, still := n.SPs[rec]
			dp, has := before.Pools[C]
			if status == "ok" {
				if !has {
					mk("unlock-without-pool", fmt.Sprintf("op %d %q succeeded although %d owns no delegate pool in %s", i, op, C, before.Raw))
					continue
				}
				pay := dp.Bal + dp.Rew
				charge := uint64(0)
				if before.Wallet == w[3] {
					charge = before.Reward
				}
				pay += charge
				if _, there := after.Pools[C]; !there && n.Accts[C].Bal+dp.Bal == p.Accts[C].Bal+pay && dp.Bal > 0 {
					// the unlock succeeded, the pool is gone, the minted reward arrived — but not the locked balance
					mk("unlock-does-not-refund-stake", fmt.Sprintf("op %d %q: the delegate pool held %d (status deleted=%v) + reward %d + charge %d; the staker received %d, the stake stays in the contract wallet (%d -> %d) and the pool is gone: %s -> %s", i, op, dp.Bal, dp.Deleted, dp.Rew, charge, n.Accts[C].Bal-p.Accts[C].Bal, p.Accts[sc].Bal, n.Accts[sc].Bal, before.Raw, after.Raw))
				} else if n.Accts[C].Bal != p.Accts[C].Bal+pay || n.Accts[sc].Bal+pay != p.Accts[sc].Bal {
					mk("unlock-payout", fmt.Sprintf("op %d %q: pool %d + reward %d + charge %d = %d expected; staker %d -> %d, contract wallet %d -> %d", i, op, dp.Bal, dp.Rew, charge, pay, p.Accts[C].Bal, n.Accts[C].Bal, p.Accts[sc].Bal, n.Accts[sc].Bal))
				}
				if _, there := after.Pools[C]; there || !still {
					mk("unlock-pool-not-removed", fmt.Sprintf("op %d %q: %s", i, op, after.Raw))
				}
				if !otherPools(before, after, C) || after.Reward != before.Reward-charge {
					mk("unlock-touches-other-pools", fmt.Sprintf("op %d %q: %s -> %s", i, op, before.Raw, after.Raw))
				}
				if d := sameExcept(p, n, []int{C, sc}, rec); len(d) > 0 {
					mk("unlock-touches-others", fmt.Sprintf("op %d %q changed %v", i, op, d))
				}
				delete(locked, rec+":"+w[3])
			} else {
				if d := sameExcept(p, n, nil, ""); len(d) > 0 {
					mk("failed-call-changed-state", fmt.Sprintf("op %d %q answered %s but changed %v", i, op, status, d))
				}
				if has && status != "fail:too-early" && status != "fail:offers" && status != "reject" {
					if kind == "authorizer" {
						mk("authorizer-unlock-refused-after-lock", fmt.Sprintf("op %d %q answered %s although the record holds %d's delegate pool (%d tokens): %s", i, op, status, C, dp.Bal, before.Raw))
					} else {
						mk("unlock-refused", fmt.Sprintf("op %d %q answered %s although %d owns a delegate pool: %s", i, op, status, C, before.Raw))
					}
				}
			}
		case "delauth":
			// zcnsc delete-authorizer marks the delegate pools Deleted and pays nothing: no balance, no stake may move
			if len(w) != 3 || p == nil || n == nil {
				continue
			}
			rec := "authorizer:" + w[1]
			if d := sameExcept(p, n, nil, rec); len(d) > 0 {
				mk("delete-authorizer-touches-others", fmt.Sprintf("op %d %q changed %v", i, op, d))
			}
			before, after := p.SPs[rec], n.SPs[rec]
			for id, dp := range before.Pools {
				if a := after.Pools[id]; a.Bal != dp.Bal || a.Rew != dp.Rew {
					mk("delete-authorizer-changes-stake", fmt.Sprintf("op %d %q: delegate %d %d/%d -> %d/%d", i, op, id, dp.Bal, dp.Rew, a.Bal, a.Rew))
				}
			}
			if status != "ok" && after.Raw != before.Raw {
				mk("failed-call-changed-state", fmt.Sprintf("op %d %q answered %s but changed %s -> %s", i, op, status, before.Raw, after.Raw))
			}
		case "collect":
			if len(w) != 4 || p == nil || n == nil {
				continue
			}
			kind := w[1]
			C, _ := strconv.Atoi(w[3])
			rec := kind + ":" + w[2]
			sc := scOf(kind)
			before := p.SPs[rec]
			after := n.SPs[rec]
			if status == "ok" {
				dp := before.Pools[C]
				pay := dp.Rew
				charge := uint64(0)
				if before.Wallet == w[3] {
					charge = before.Reward
				}
				pay += charge
				if n.Accts[C].Bal != p.Accts[C].Bal+pay || n.Accts[sc].Bal+pay != p.Accts[sc].Bal {
					mk("collect-payout", fmt.Sprintf("op %d %q: reward %d + charge %d expected; collector %d -> %d", i, op, dp.Rew, charge, p.Accts[C].Bal, n.Accts[C].Bal))
				}
				if after.Pools[C].Rew != 0 || after.Reward != before.Reward-charge {
					mk("collect-reward-not-cleared", fmt.Sprintf("op %d %q: %s -> %s", i, op, before.Raw, after.Raw))
				}
				if after.Pools[C].Bal != dp.Bal || !otherPools(before, after, C) {
					mk("collect-changes-stake", fmt.Sprintf("op %d %q: %s -> %s", i, op, before.Raw, after.Raw))
				}
				if d := sameExcept(p, n, []int{C, sc}, rec); len(d) > 0 {
					mk("collect-touches-others", fmt.Sprintf("op %d %q changed %v", i, op, d))
				}
			} else if d := sameExcept(p, n, nil, ""); len(d) > 0 {
				mk("failed-call-changed-state", fmt.Sprintf("op %d %q answered %s but changed %v", i, op, status, d))
			}
		case "reward":
			if len(w) != 4 || p == nil || n == nil {
				continue
			}
			rec := w[1] + ":" + w[2]
			before, ok1 := p.SPs[rec]
			after, ok2 := n.SPs[rec]
			if ok1 && ok2 && !(w[1] == "authorizer" && before.Inner) {
				for id, dp := range before.Pools {
					if after.Pools[id].Bal != dp.Bal {
						mk("reward-changes-stake", fmt.Sprintf("op %d %q: delegate %d balance %d -> %d", i, op, id, dp.Bal, after.Pools[id].Bal))
					}
				}
			}
		case "dump":
			if dumps[i] == nil {
				continue
			}
			for key, sum := range locked {
				f := strings.Split(key, ":")
				rec := f[0] + ":" + f[1]
				if untracked[rec] {
					continue
				}
				c, _ := strconv.Atoi(f[2])
				r, ok := dumps[i].SPs[rec]
				if !ok {
					continue
				}
				if dp, ok := r.Pools[c]; (!ok || dp.Bal != sum) && f[0] == "authorizer" {
					mk("authorizer-stake-erased-by-reward", fmt.Sprintf("op %d: %d locked %d on authorizer %s; after a reward payment the record is %s (the reward path read the unreadable record as empty and saved that)", i, c, sum, f[1], r.Raw))
					delete(locked, key)
				} else if !ok || dp.Bal != sum {
					mk("balance-drift", fmt.Sprintf("op %d: %d locked %d in %s in total, the record shows %d (present %v): %s", i, c, sum, rec, dp.Bal, ok, r.Raw))
					delete(locked, key)
				}
			}
		}
	}
	if len(all) == 0 {
		return nil
	}
	for _, v := range all {
		if !known[v.Signature] {
			return v
		}
	}
	return all[len(all)-1]
}

func fixed() [][]string {
	r := hexF(0.1)
	h := header(nil, 0.5)
	return [][]string{
		// blobber: two stakers, reward, collect, unlocks; a third party cannot unlock
		{h, "reg blobber 30 50 10 " + r, "dump", "lock blobber 30 41 50000000000 1700000000", "dump", "lock blobber 30 42 70000000000 1700000000", "dump",
			"reward blobber 30 1000000", "dump", "collect blobber 30 42", "dump", "unlock blobber 30 43 2000000000", "dump", "unlock blobber 30 42 2000000000", "dump",
			"collect blobber 30 50", "dump", "unlock blobber 30 41 2000000000", "dump"},
		// authorizer (before fc9e9de the first lock made the record unreadable for zcnsc: second lock and unlock refused)
		{h, "reg authorizer 40 60 5 " + r, "dump", "lock authorizer 40 41 50000000000 1700000000", "dump", "lock authorizer 40 42 50000000000 1700000000", "dump",
			"unlock authorizer 40 41 2000000000", "dump", "reward authorizer 40 1000", "dump", "collect authorizer 40 41", "dump"},
		// authorizer removed while stake is locked: delete-authorizer marks the pools Deleted without paying; the stakers
		// unlock afterwards and must get the locked balance (+ reward) back; a Deleted pool takes no further stake
		{h, "reg authorizer 40 60 5 " + r, "dump", "lock authorizer 40 41 100000000000 1700000000", "dump", "lock authorizer 40 42 30000000000 1700000000", "dump",
			"reward authorizer 40 11111111", "dump", "delauth 40 45", "dump", "delauth 40 3", "dump", "lock authorizer 40 41 10000000000 1700000000", "dump",
			"lock authorizer 40 43 10000000000 1700000000", "dump", "unlock authorizer 40 41 2000000000", "dump", "collect authorizer 40 60", "dump",
			"unlock authorizer 40 42 2000000000", "dump", "unlock authorizer 40 43 2000000000", "dump", "delauth 40 3", "dump"},
		{h, "reg authorizer 40 60 5 " + r, "dump", "lock authorizer 40 60 50000000000 1700000000", "dump", "delauth 40 60", "dump", "unlock authorizer 40 60 2000000000", "dump"},
		// miner and sharder, min lock period, the delegate wallet's service charge on unlock
		{h, "reg miner 10 56 2 " + r, "reg sharder 20 58 10 " + r, "dump", "lock miner 10 41 50000000000 4102444800", "dump", "lock miner 10 56 30000000000 0", "dump",
			"lock miner 10 43 30000000000 1700000000", "dump", "reward miner 10 777777", "dump", "unlock miner 10 41 2000000000", "dump", "unlock miner 10 56 2000000000", "dump",
			"lock sharder 20 41 200000000000000 1700000000", "dump", "lock sharder 20 41 1 1700000000", "dump", "unlock sharder 20 41 2000000000", "dump"},
		// storagesc: offers must stay covered
		{h, "reg blobber 30 50 10 " + r, "reg blobber 31 51 10 " + r, "lock blobber 30 46 2000000000 1700000000", "lock blobber 31 46 10000000000000 1700000000", "dump",
			"alloc 47 30 31 1000000000", "dump", "lock blobber 30 41 500000000 1700000000", "dump", "unlock blobber 30 46 2000000000", "dump", "unlock blobber 30 41 2000000000", "dump"},
	}
}
