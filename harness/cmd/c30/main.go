// C30 harness: the real chaincore/transaction acceptance path (ComputeProperties → ComputeClientID,
// ValidateWrtTimeForBlock → VerifyHash / VerifySignature with the client cache / VerifyOutputHash) with real key
// pairs of BOTH signature schemes, against Model/TxnHash.lean interpreted over Generated/C30.lean.
//
// A case: `init` (scheme, tolerance; the client cache is emptied), one `txn` built, hashed and signed with the REAL
// code by the generator, `signed` (tells the model which signatures the real Sign produced), `json` (which data
// strings parse as smart-contract data), then `run` ops: the pristine transaction and every single-field tampering
// (hash and signature kept; hash recomputed; hash recomputed and re-signed by another key) through
// `accept` = ComputeProperties + ValidateWrtTimeForBlock, and some through ValidateWrtTimeForBlock alone.
// The model driver computes SHA3 itself: hashes are compared bit for bit, verdicts by rejection class.
//
// Oracle = the property on the real code's answers, with its own SHA3 / ed25519 / BLS verification.
package main

import (
	"context"
	"crypto/ed25519"
	"encoding/hex"
	"encoding/json"
	"fmt"
	"math/rand"
	"strconv"
	"strings"
	"sync"

	"0chain.net/chaincore/client"
	"0chain.net/chaincore/transaction"
	"0chain.net/core/common"
	"0chain.net/core/config"
	"0chain.net/core/datastore"
	"0chain.net/core/encryption"
	"github.com/0chain/common/core/currency"
	"github.com/herumi/bls-go-binary/bls"
	"golang.org/x/crypto/sha3"
	"verifharness/hashkit"
	"verifharness/lib/corr"
)

var strFields = []string{"Hash", "Version", "ClientID", "PublicKey", "ToClientID", "ChainID", "TransactionData", "Signature", "TransactionOutput", "OutputHash"}
var intFields = []string{"CreationDate", "Nonce", "TransactionType", "Status"}
var uintFields = []string{"Value", "Fee"}

func in(l []string, f string) bool {
	for _, x := range l {
		if x == f {
			return true
		}
	}
	return false
}

type spec struct {
	S map[string]string
	I map[string]int64
	U map[string]uint64
}

func newSpec() *spec {
	return &spec{S: map[string]string{}, I: map[string]int64{}, U: map[string]uint64{}}
}

func (s *spec) clone() *spec {
	c := newSpec()
	for k, v := range s.S {
		c.S[k] = v
	}
	for k, v := range s.I {
		c.I[k] = v
	}
	for k, v := range s.U {
		c.U[k] = v
	}
	return c
}

func (s *spec) apply(toks []string) bool {
	for _, tok := range toks {
		kv := strings.Split(tok, "=")
		if len(kv) != 2 || len(kv[0]) < 3 {
			return false
		}
		f := kv[0][2:]
		switch kv[0][:2] {
		case "s.":
			v, ok := hashkit.U(kv[1])
			if !ok || !in(strFields, f) {
				return false
			}
			s.S[f] = v
		case "i.":
			switch {
			case in(intFields, f):
				v, err := strconv.ParseInt(kv[1], 10, 64)
				if err != nil {
					return false
				}
				s.I[f] = v
			case in(uintFields, f):
				v, err := strconv.ParseUint(kv[1], 10, 64)
				if err != nil {
					return false
				}
				s.U[f] = v
			default:
				return false
			}
		default:
			return false
		}
	}
	return true
}

func (s *spec) build() *transaction.Transaction {
	t := &transaction.Transaction{}
	t.Hash = s.S["Hash"]
	t.Version = s.S["Version"]
	t.ClientID = s.S["ClientID"]
	t.PublicKey = s.S["PublicKey"]
	t.ToClientID = s.S["ToClientID"]
	t.ChainID = s.S["ChainID"]
	t.TransactionData = s.S["TransactionData"]
	t.Signature = s.S["Signature"]
	t.TransactionOutput = s.S["TransactionOutput"]
	t.OutputHash = s.S["OutputHash"]
	t.CreationDate = common.Timestamp(s.I["CreationDate"])
	t.Nonce = s.I["Nonce"]
	t.TransactionType = int(s.I["TransactionType"])
	t.Status = int(s.I["Status"])
	t.Value = currency.Coin(s.U["Value"])
	t.Fee = currency.Coin(s.U["Fee"])
	return t
}

func (s *spec) wire(fields ...string) string {
	var p []string
	all := len(fields) == 0
	for _, f := range strFields {
		if v, ok := s.S[f]; ok && (all || in(fields, f)) {
			p = append(p, "s."+f+"="+hashkit.W(v))
		}
	}
	for _, f := range intFields {
		if v, ok := s.I[f]; ok && (all || in(fields, f)) {
			p = append(p, "i."+f+"="+strconv.FormatInt(v, 10))
		}
	}
	for _, f := range uintFields {
		if v, ok := s.U[f]; ok && (all || in(fields, f)) {
			p = append(p, "i."+f+"="+strconv.FormatUint(v, 10))
		}
	}
	return strings.Join(p, " ")
}

func classifyProps(err error) string {
	switch {
	case err == transaction.ErrTxnMissingPublicKey:
		return "reject pkNonEmpty"
	case err == transaction.ErrTxnInvalidPublicKey:
		return "reject pkClientID"
	case strings.HasPrefix(err.Error(), "invalid smart contract data"):
		return "reject scDataJson"
	case strings.HasPrefix(err.Error(), "invalid public key") || strings.HasPrefix(err.Error(), "mismatched public key"):
		return "reject pkClientID"
	}
	return "reject other:" + err.Error()
}

func classifyValidate(err error) string {
	if err == config.ErrSupportedChain {
		return "reject chainValid"
	}
	if ce, ok := err.(*common.Error); ok {
		switch {
		case ce.Code == "invalid_request" && strings.Contains(ce.Msg, "to client id must be"):
			return "reject toHashOrEmpty"
		case ce.Code == "invalid_request" && strings.Contains(ce.Msg, "hash required"):
			return "reject hashNonEmpty"
		case ce.Code == "invalid_request" && strings.Contains(ce.Msg, "not within tolerance"):
			return "reject withinTime"
		case ce.Code == "invalid_request" && strings.Contains(ce.Msg, "from and to client"):
			return "reject senderNotRecipient"
		case ce.Code == "hash_mismatch" && strings.HasPrefix(ce.Msg, "The hash of the data"):
			return "reject hashMatches"
		case ce.Code == "hash_mismatch" && strings.HasPrefix(ce.Msg, "The hash of the output"):
			return "reject outputHashIfSet"
		case ce.Code == "invalid_signature":
			return "reject sigIfRequested"
		}
		return "reject other:" + ce.Code
	}
	// plain errors come only from GetSignatureScheme / Verify (undecodable key, signature or hash)
	return "reject sigIfRequested"
}

var setupOnce sync.Once

// the client entity metadata (client.NewClient needs it) without client.SetupEntity's store workers
func setup() {
	hashkit.Setup()
	setupOnce.Do(func() {
		md := datastore.MetadataProvider()
		md.Name = "client"
		md.Provider = client.Provider
		datastore.RegisterEntityMetadata("client", md)
	})
}

var (
	verdictMu   sync.Mutex
	verdictHist = map[string]int{}
)

// countVerdicts records the verdict classes of a run for the evidence file (which rejection classes were exercised).
func countVerdicts(outs []string) {
	verdictMu.Lock()
	defer verdictMu.Unlock()
	for _, o := range outs {
		f := strings.Fields(o)
		switch {
		case len(f) >= 3 && f[0] == "hash":
			verdictHist[strings.Join(f[2:], " ")]++
		case len(f) >= 1 && (f[0] == "ok" || f[0] == "reject"):
			verdictHist[o]++
		}
	}
}

func impl(ops []string) (outs []string) {
	defer func() { countVerdicts(outs) }()
	setup()
	outs = make([]string, len(ops))
	var cur *spec
	inited := false
	for i, op := range ops {
		w := strings.Fields(op)
		func() {
			defer func() {
				if r := recover(); r != nil {
					outs[i] = fmt.Sprintf("panic %v", r)
				}
			}()
			outs[i] = "bad-op"
			if len(w) == 0 {
				return
			}
			switch w[0] {
			case "init":
				if len(w) != 5 {
					return
				}
				sc, ok1 := hashkit.U(w[1])
				mc, ok2 := hashkit.U(w[2])
				tol, err := strconv.ParseInt(w[4], 10, 64)
				if !ok1 || !ok2 || err != nil || sc != hashkit.ServerChain || mc != config.MAIN_CHAIN || !encryption.IsValidSignatureScheme(w[3]) {
					return
				}
				client.SetClientSignatureScheme(w[3])
				client.VerifResetCache()
				transaction.TXN_TIME_TOLERANCE = tol
				cur, inited = nil, true
				outs[i] = "ok"
			case "signed":
				if len(w) == 4 && inited {
					outs[i] = "ok"
				}
			case "json":
				if len(w) == 2 && inited {
					if _, ok := hashkit.U(w[1]); ok {
						outs[i] = "ok"
					}
				}
			case "txn":
				s := newSpec()
				if !inited || !s.apply(w[1:]) {
					return
				}
				cur = s
				outs[i] = "hash " + s.build().ComputeHash()
			case "data":
				if cur == nil || len(w) != 1 {
					return
				}
				outs[i] = "data " + hashkit.W(cur.build().HashData())
			case "run":
				if cur == nil || len(w) < 4 || (w[1] != "accept" && w[1] != "validate") || (w[3] != "0" && w[3] != "1") {
					return
				}
				now, err := strconv.ParseInt(w[2], 10, 64)
				if err != nil {
					return
				}
				s := cur.clone()
				if !s.apply(w[4:]) {
					return
				}
				h := "hash " + s.build().ComputeHash() + " "
				t := s.build()
				if w[1] == "accept" {
					if err := t.ComputeProperties(); err != nil {
						outs[i] = h + classifyProps(err)
						return
					}
				}
				if err := t.ValidateWrtTimeForBlock(context.Background(), common.Timestamp(now), w[3] == "1"); err != nil {
					outs[i] = h + classifyValidate(err)
					return
				}
				outs[i] = h + "ok"
			}
		}()
	}
	return outs
}

// ---- generator ---------------------------------------------------------------------------------------------

func boundaryU64(r *rand.Rand) uint64 {
	switch r.Intn(10) {
	case 0:
		return 0
	case 1:
		return 1
	case 2:
		return 1<<64 - 1
	case 3:
		return 1<<63 + 1
	case 4:
		return 1<<53 + 1
	case 5:
		return 1 << 63
	default:
		return uint64(r.Int63n(1e12))
	}
}

func jsonOK(data string) bool {
	return json.Unmarshal([]byte(data), &transaction.SmartContractData{}) == nil
}

func randData(r *rand.Rand, typ int64) string {
	if typ == transaction.TxnTypeSmartContract {
		return fmt.Sprintf(`{"name":"fn%d","input":{"k":"v:%d"}}`, r.Intn(9), r.Intn(1000))
	}
	switch r.Intn(5) {
	case 0:
		return ""
	case 1:
		return "free text: with colons :: and spaces " + strconv.Itoa(r.Intn(1e6))
	case 2:
		return string([]byte{0, 1, 2, 255, 58, 10, byte(r.Intn(256))})
	case 3:
		return fmt.Sprintf(`{"name":"pay","input":%d}`, r.Intn(1000))
	}
	return hashkit.RandHex(r, 1+r.Intn(40))
}

func otherStr(r *rand.Rand, old string) string {
	for {
		var v string
		switch r.Intn(6) {
		case 0:
			v = ""
		case 1:
			v = hashkit.RandHex(r, 32)
		case 2:
			v = "x:" + old
		default:
			v = hashkit.FlipHex(r, old)
		}
		if v != old {
			return v
		}
	}
}

type genState struct {
	r      *rand.Rand
	ops    []string
	scheme string
	jsonOk map[string]bool
}

func (g *genState) noteData(d string) {
	if jsonOK(d) && !g.jsonOk[d] {
		g.jsonOk[d] = true
		g.ops = append(g.ops, "json "+hashkit.W(d))
	}
}

func (g *genState) signed(k *hashkit.Key, hash string) string {
	sig := k.Sign(hash)
	g.ops = append(g.ops, fmt.Sprintf("signed %s %s %s", hashkit.W(k.Pub), hashkit.W(hash), hashkit.W(sig)))
	return sig
}

func gen(r *rand.Rand, thorough bool, i int) []string {
	hashkit.Setup()
	g := &genState{r: r, jsonOk: map[string]bool{}}
	g.scheme = encryption.SignatureSchemeBls0chain
	if r.Intn(2) == 0 {
		g.scheme = encryption.SignatureSchemeEd25519
	}
	tol := []int64{0, 5, 600}[r.Intn(3)]
	g.ops = []string{fmt.Sprintf("init %s %s %s %d", hashkit.W(hashkit.ServerChain), hashkit.W(config.MAIN_CHAIN), g.scheme, tol)}
	key := hashkit.NewKey(r, g.scheme)
	other := hashkit.NewKey(r, g.scheme)
	now := int64(1_700_000_000) + r.Int63n(1e6)
	s := newSpec()
	s.S["Version"] = "1.0"
	s.S["PublicKey"] = key.Pub
	s.S["ClientID"] = key.ID
	deriveID := r.Intn(8) == 0
	if deriveID {
		s.S["ClientID"] = "" // ComputeClientID derives it from the key
	}
	s.S["ToClientID"] = hashkit.RandHex(r, 32)
	if r.Intn(6) == 0 {
		s.S["ToClientID"] = ""
	}
	s.S["ChainID"] = hashkit.ServerChain
	if r.Intn(4) == 0 {
		s.S["ChainID"] = ""
	}
	s.I["TransactionType"] = []int64{transaction.TxnTypeSend, transaction.TxnTypeData, transaction.TxnTypeSmartContract, transaction.TxnTypeSend}[r.Intn(4)]
	s.S["TransactionData"] = randData(r, s.I["TransactionType"])
	g.noteData(s.S["TransactionData"])
	s.I["CreationDate"] = now
	if tol > 0 {
		s.I["CreationDate"] = now - tol + r.Int63n(2*tol+1)
	}
	s.I["Nonce"] = 1 + r.Int63n(1000)
	if r.Intn(6) == 0 {
		s.I["Nonce"] = hashkit.BoundaryInt64(r)
	}
	s.I["Status"] = int64(r.Intn(3))
	s.U["Value"] = boundaryU64(r)
	s.U["Fee"] = boundaryU64(r)
	if r.Intn(2) == 0 {
		s.S["TransactionOutput"] = "out " + strconv.Itoa(r.Intn(1e6))
	}
	if r.Intn(3) > 0 {
		s.S["OutputHash"] = s.build().ComputeOutputHash()
	}
	// hash and signature with the real code (over the derived client id when it is left empty)
	hs := s.clone()
	hs.S["ClientID"] = key.ID
	s.S["Hash"] = hs.build().ComputeHash()
	s.S["Signature"] = g.signed(key, s.S["Hash"])
	g.ops = append(g.ops, "txn "+s.wire(), "data")
	nowS := strconv.FormatInt(now, 10)
	run := func(mode string, vs int, c *spec, fields ...string) {
		line := fmt.Sprintf("run %s %s %d", mode, nowS, vs)
		if len(fields) > 0 {
			line += " " + c.wire(fields...)
		}
		g.ops = append(g.ops, line)
	}
	validateFirst := r.Intn(4) == 0
	if validateFirst {
		// ValidateWrtTimeForBlock alone with a foreign public key BEFORE anything is cached
		c := s.clone()
		c.S["PublicKey"] = other.Pub
		run("validate", 1, c, "PublicKey")
	}
	run("accept", 1, s)
	run("validate", 1, s)
	// effective values (what the hash is computed over)
	eff := s.clone()
	eff.S["ClientID"] = key.ID

	// single-field tamperings; three variants each: (a) hash and signature kept, (b) hash recomputed,
	// (c) hash recomputed and signed by another key that also takes over PublicKey/ClientID (a different sender)
	tamper := func(field string, set func(c *spec)) {
		c := s.clone()
		set(c)
		if field == "TransactionData" {
			g.noteData(c.S["TransactionData"])
		}
		run("accept", 1, c, field)
		if r.Intn(3) == 0 {
			run("validate", 1, c, field)
		}
		if r.Intn(2) == 0 {
			h := c.clone()
			if h.S["ClientID"] == "" {
				if b, err := hex.DecodeString(h.S["PublicKey"]); err == nil {
					h.S["ClientID"] = encryption.Hash(b)
				}
			}
			c.S["Hash"] = h.build().ComputeHash()
			run("accept", 1, c, field, "Hash")
			if r.Intn(2) == 0 {
				run("accept", 0, c, field, "Hash") // signature not checked: accepted by design of the flag
			}
		}
	}
	for _, f := range []string{"ClientID", "ToClientID", "TransactionData", "ChainID", "Version", "TransactionOutput", "OutputHash", "Hash", "Signature"} {
		f := f
		tamper(f, func(c *spec) { c.S[f] = otherStr(r, c.S[f]) })
	}
	tamper("ToClientID", func(c *spec) { c.S["ToClientID"] = key.ID }) // sender = recipient
	tamper("ClientID", func(c *spec) { c.S["ClientID"] = other.ID })
	tamper("ClientID", func(c *spec) { c.S["ClientID"] = strings.ToUpper(eff.S["ClientID"]) })
	tamper("PublicKey", func(c *spec) { c.S["PublicKey"] = other.Pub })
	tamper("PublicKey", func(c *spec) { c.S["PublicKey"] = strings.ToUpper(c.S["PublicKey"]) })
	tamper("PublicKey", func(c *spec) { c.S["PublicKey"] = []string{"", "zz", "abc"}[r.Intn(3)] })
	tamper("Signature", func(c *spec) { c.S["Signature"] = strings.ToUpper(c.S["Signature"]) })
	tamper("Signature", func(c *spec) { c.S["Signature"] = other.Sign(s.S["Hash"]) })
	tamper("TransactionData", func(c *spec) { c.S["TransactionData"] = randData(r, []int64{0, 10, 1000}[r.Intn(3)]) })
	for _, f := range []string{"CreationDate", "Nonce", "Status"} {
		f := f
		tamper(f, func(c *spec) { c.I[f] = c.I[f] + 1 - 2*int64(r.Intn(2)) })
		tamper(f, func(c *spec) {
			v := hashkit.BoundaryInt64(r)
			for v == c.I[f] {
				v = r.Int63()
			}
			c.I[f] = v
		})
	}
	// the oracle reports one violation per run: a third of the cases leave out the type tamperings, another third
	// the fee tamperings, so that neither recorded finding hides the other
	skip := i % 3
	for _, ty := range []int64{transaction.TxnTypeSend, transaction.TxnTypeData, transaction.TxnTypeSmartContract, 2, 101, -1} {
		if ty != s.I["TransactionType"] && skip != 1 {
			ty := ty
			tamper("TransactionType", func(c *spec) { c.I["TransactionType"] = ty })
		}
	}
	for _, f := range uintFields {
		f := f
		if f == "Fee" && skip == 2 {
			continue
		}
		tamper(f, func(c *spec) { c.U[f] = c.U[f] + 1 })
		tamper(f, func(c *spec) {
			v := boundaryU64(r)
			for v == c.U[f] {
				v = r.Uint64()
			}
			c.U[f] = v
		})
	}
	// time window edges
	for _, d := range []int64{-tol - 1, -tol, tol, tol + 1} {
		g.ops = append(g.ops, fmt.Sprintf("run accept %d 1", s.I["CreationDate"]-d))
	}
	// a different, honest sender re-signs the same content: a different transaction (accepted under ITS key)
	{
		c := s.clone()
		c.S["PublicKey"], c.S["ClientID"] = other.Pub, other.ID
		c.S["Hash"] = c.build().ComputeHash()
		c.S["Signature"] = g.signed(other, c.S["Hash"])
		run("accept", 1, c, "PublicKey", "ClientID", "Hash", "Signature")
		// the victim's id with the attacker's key and signature: only ComputeProperties stops it
		c2 := c.clone()
		c2.S["ClientID"] = eff.S["ClientID"]
		c2.S["Hash"] = c2.build().ComputeHash()
		c2.S["Signature"] = g.signed(other, c2.S["Hash"])
		run("accept", 1, c2, "PublicKey", "ClientID", "Hash", "Signature")
		run("validate", 1, c2, "PublicKey", "ClientID", "Hash", "Signature")
	}
	if r.Intn(5) == 0 {
		g.ops = append(g.ops, "run accept x 1", "run accept "+nowS+" 2", "run maybe "+nowS+" 1", "run accept "+nowS+" 1 s.Fee=00", "run accept "+nowS+" 1 i.Value=-1",
			"run accept "+nowS+" 1 i.Value=18446744073709551616", "run accept "+nowS+" 1 i.Nonce=9223372036854775808", "txn s.Nope=00", "frobnicate")
	}
	return g.ops
}

// ---- oracle ------------------------------------------------------------------------------------------------

func sha3hex(b []byte) string {
	h := sha3.New256()
	h.Write(b)
	return hex.EncodeToString(h.Sum(nil))
}

// verifyIndependently checks a signature with the underlying libraries directly (not through the repo's code).
func verifyIndependently(scheme, pk, sig, hash string) bool {
	pkb, err1 := hex.DecodeString(pk)
	sb, err2 := hex.DecodeString(sig)
	hb, err3 := hex.DecodeString(hash)
	if err1 != nil || err2 != nil || err3 != nil {
		return false
	}
	switch scheme {
	case encryption.SignatureSchemeEd25519:
		return len(pkb) == ed25519.PublicKeySize && ed25519.Verify(pkb, hb, sb)
	case encryption.SignatureSchemeBls0chain:
		var p bls.PublicKey
		var s bls.Sign
		if p.Deserialize(pkb) != nil || s.Deserialize(sb) != nil {
			return false
		}
		return s.Verify(&p, string(hb))
	}
	return false
}

var named = map[string][2]string{
	"CreationDate": {"time", "time-not-bound"}, "Nonce": {"nonce", "nonce-not-bound"},
	"ClientID": {"sender (ClientID)", "sender-not-bound"}, "PublicKey": {"sender (PublicKey)", "public-key-not-bound"},
	"ToClientID": {"recipient", "recipient-not-bound"}, "Value": {"value", "value-not-bound"},
	"TransactionData": {"data", "data-not-bound"}, "Fee": {"fee", "fee-not-bound"}, "TransactionType": {"type", "type-not-bound"},
}

func oracle(ops, outs []string) *corr.Violation {
	all := oracleAll(ops, outs)
	rank := func(v *corr.Violation) int {
		switch v.Signature {
		case "C30:fee-not-bound":
			return 2
		case "C30:type-not-bound":
			return 1
		}
		return 0
	}
	var best *corr.Violation
	for _, v := range all {
		if best == nil || rank(v) < rank(best) {
			best = v
		}
	}
	return best
}

func oracleAll(ops, outs []string) (all []*corr.Violation) {
	mk := func(sig, msg string) {
		all = append(all, &corr.Violation{Signature: "C30:" + sig, Message: msg, Ops: ops, Impl: outs})
	}
	var cur *spec
	scheme := ""
	pristineAccepted := false
	var pristineNow int64
	for i, op := range ops {
		w := strings.Fields(op)
		o := strings.Fields(outs[i])
		if len(w) == 0 || len(o) == 0 {
			continue
		}
		if strings.HasPrefix(outs[i], "panic") {
			mk("panic", fmt.Sprintf("op %d %q panicked: %s", i, op, outs[i]))
			continue
		}
		switch w[0] {
		case "init":
			if o[0] == "ok" {
				scheme, cur, pristineAccepted = w[3], nil, false
			}
		case "txn":
			if o[0] == "hash" {
				cur = newSpec()
				cur.apply(w[1:])
				pristineAccepted = false
			}
		case "run":
			if cur == nil || o[0] != "hash" || len(o) < 3 || w[1] != "accept" {
				continue
			}
			accepted := o[2] == "ok"
			c := cur.clone()
			if !c.apply(w[4:]) {
				continue
			}
			now, _ := strconv.ParseInt(w[2], 10, 64)
			if len(w) == 4 && w[3] == "1" && accepted && !pristineAccepted {
				pristineAccepted, pristineNow = true, now
			}
			if !accepted {
				continue
			}
			// (1) accepted ONLY IF hash = hash of contents and the signature verifies under the key whose hash is the
			// client id — checked with the oracle's own SHA3 and the signature libraries directly
			id := c.S["ClientID"]
			pkb, err := hex.DecodeString(c.S["PublicKey"])
			if err != nil {
				mk("accepted-with-undecodable-key", fmt.Sprintf("op %d %q accepted with a public key that is not hex", i, op))
				continue
			}
			if id == "" {
				id = sha3hex(pkb)
			}
			if sha3hex(pkb) != id {
				mk("accepted-with-foreign-key", fmt.Sprintf("op %d %q accepted although SHA3(public key) != client id", i, op))
			}
			want := sha3hex([]byte(fmt.Sprintf("%d:%d:%s:%s:%d:%s", c.I["CreationDate"], c.I["Nonce"], id, c.S["ToClientID"], c.U["Value"], sha3hex([]byte(c.S["TransactionData"])))))
			if c.S["Hash"] != want {
				mk("accepted-with-wrong-hash", fmt.Sprintf("op %d %q accepted although its hash field %s is not the hash of its contents %s", i, op, c.S["Hash"], want))
			}
			if w[3] == "1" && !verifyIndependently(scheme, c.S["PublicKey"], c.S["Signature"], c.S["Hash"]) {
				mk("accepted-with-bad-signature", fmt.Sprintf("op %d %q accepted although the signature does not verify under the public key", i, op))
			}
			// (2) altering a named field of an accepted transaction invalidates it (single-field tampering; everything
			// else — hash and signature included — as it was, same verification time)
			if pristineAccepted && len(w) == 5 && w[3] == "1" && now == pristineNow {
				f := strings.SplitN(w[4], "=", 2)[0][2:]
				nm, isNamed := named[f]
				changed := c.S[f] != cur.S[f] || c.I[f] != cur.I[f] || c.U[f] != cur.U[f]
				// another spelling of the same key (hex letter case) is the same key
				if f == "PublicKey" && strings.EqualFold(c.S[f], cur.S[f]) {
					changed = false
				}
				// an empty client id is filled in from the public key: the sender is the same
				if f == "ClientID" {
					effOld := cur.S[f]
					if effOld == "" {
						effOld = sha3hex(pkb)
					}
					changed = id != effOld
				}
				if isNamed && changed {
					mk(nm[1], fmt.Sprintf("op %d %q: %s altered in an accepted transaction, still accepted (hash %s)", i, op, nm[0], o[1]))
				}
			}
		}
	}
	return all
}

func fixed() [][]string {
	return nil
}

func main() {
	corr.Main(corr.Prop{
		ID: "C30", Model: "C30", Gen: gen, Impl: impl, Oracle: oracle, Serial: true,
		Cases: func(th bool) int {
			if th {
				return 2000
			}
			return 120
		},
		Fixed: fixed(),
		Extra: func() map[string]interface{} {
			verdictMu.Lock()
			defer verdictMu.Unlock()
			m := map[string]interface{}{}
			for k, v := range verdictHist {
				m[k] = v
			}
			return map[string]interface{}{"verdict_hist": m}
		},
	})
}
