// C10 harness: the real smartcontract/stakepool reward distribution (DistributeRewards, DistributeRewardsRandN,
// equallyDistributeRewards) against Model/StakePool.lean, plus — in the same run — the bit-exact F64/Coin tie
// (cmd/f64/f64ops) against Base/F64.lean and Base/Coin.lean.
package main

import (
	"fmt"
	"math"
	"math/big"
	"math/rand"
	"sort"
	"strconv"
	"strings"
	"sync/atomic"

	"0chain.net/chaincore/block"
	cstate "0chain.net/chaincore/chain/state"
	"0chain.net/core/datastore"
	"0chain.net/smartcontract/dbs"
	"0chain.net/smartcontract/dbs/event"
	"0chain.net/smartcontract/stakepool"
	"0chain.net/smartcontract/stakepool/spenum"
	"github.com/0chain/common/core/currency"
	"github.com/0chain/common/core/logging"
	"github.com/0chain/common/core/util"
	"go.uber.org/zap"

	"verifharness/cmd/f64/f64ops"
	"verifharness/lib/corr"
)

// ctx: the three StateContextI methods the reward code uses (hard-fork lookup, block round, event sink).
type ctx struct {
	cstate.StateContextI
	demeter bool // hard fork "demeter" recorded at round 0 (current rules) or absent (old rules)
	blk     *block.Block
	last    *dbs.StakePoolReward
}

func (c *ctx) GetTrieNode(key datastore.Key, v util.MPTSerializable) error {
	if key == cstate.NewHardFork("demeter", 0).GetKey() && c.demeter {
		b, err := cstate.NewHardFork("demeter", 0).MarshalMsg(nil)
		if err != nil {
			return err
		}
		_, err = v.UnmarshalMsg(b)
		return err
	}
	return util.ErrValueNotPresent
}
func (c *ctx) GetBlock() *block.Block { return c.blk }
func (c *ctx) EmitEvent(t event.EventType, tag event.EventTag, index string, data interface{}, _ ...cstate.Appender) {
	if r, ok := data.(*dbs.StakePoolReward); ok && tag == event.TagStakePoolReward {
		c.last = r
	}
}

func poolID(i int) string { return fmt.Sprintf("d%04d", i) }

type world struct {
	sp  *stakepool.StakePool
	n   int
	ctx *ctx
}

func clone(sp *stakepool.StakePool) *stakepool.StakePool {
	c := *sp
	c.Pools = map[string]*stakepool.DelegatePool{}
	for k, v := range sp.Pools {
		d := *v
		c.Pools[k] = &d
	}
	return &c
}

func errClass(err error) string {
	if t := f64ops.ErrTag(err); !strings.HasPrefix(t, "other:") {
		return t
	}
	if err.Error() == "no stake" {
		return "no-stake"
	}
	return "other:" + err.Error()
}

func (w *world) rewards() string {
	var parts []string
	for i := 0; i < w.n; i++ {
		parts = append(parts, strconv.FormatUint(uint64(w.sp.Pools[poolID(i)].Reward), 10))
	}
	return strings.Join(parts, " ")
}

func (w *world) call(f func() error) (res string) {
	snap := clone(w.sp)
	w.ctx.last = nil
	var err error
	func() {
		defer func() {
			if r := recover(); r != nil {
				if strings.Contains(fmt.Sprint(r), "distribute rewards error") {
					res = "err panic-assert"
				} else {
					res = fmt.Sprintf("err panic:%v", r)
				}
			}
		}()
		err = f()
	}()
	if res == "" && err != nil {
		res = "err " + errClass(err)
	}
	if res != "" {
		w.sp = snap // the failing transaction's in-memory pool is discarded
		return res
	}
	if w.ctx.last == nil {
		return "nothing"
	}
	var ds []string
	for i := 0; i < w.n; i++ {
		ds = append(ds, strconv.FormatUint(uint64(w.ctx.last.DelegateRewards[poolID(i)]), 10))
	}
	return fmt.Sprintf("moved %d p %s u %d d %s", uint64(w.sp.Reward), w.rewards(), uint64(w.ctx.last.Reward), strings.Join(ds, " "))
}

func impl(ops []string) []string {
	outs := make([]string, len(ops))
	var w *world
	for i, op := range ops {
		if f64ops.IsOp(op) {
			outs[i] = f64ops.Answer(op)
			continue
		}
		f := strings.Fields(op)
		outs[i] = "bad-op"
		if len(f) == 0 {
			continue
		}
		if f[0] == "sp" {
			w = nil // (re)initialisation; a malformed `sp` line leaves no state
		}
		switch {
		case f[0] == "sp" && len(f) >= 5:
			// sp <minStake> <ratio> <killed> <spReward> <bal:reward>*   (the harness-only suffix "@old" selects pre-demeter rules)
			ms, e1 := strconv.ParseUint(f[1], 10, 64)
			ratio, ok := f64ops.FromHex(f[2])
			r, e2 := strconv.ParseUint(f[4], 10, 64)
			if e1 != nil || !ok || e2 != nil || (f[3] != "0" && f[3] != "1") {
				continue
			}
			sp := stakepool.NewStakePool()
			sp.Settings.MinStake = currency.Coin(ms)
			sp.Settings.ServiceChargeRatio = ratio
			sp.Settings.DelegateWallet = "wallet"
			sp.HasBeenKilled = f[3] == "1"
			sp.Reward = currency.Coin(r)
			good := true
			for k, p := range f[5:] {
				br := strings.Split(p, ":")
				if len(br) != 2 {
					good = false
					break
				}
				b, e1 := strconv.ParseUint(br[0], 10, 64)
				rw, e2 := strconv.ParseUint(br[1], 10, 64)
				if e1 != nil || e2 != nil {
					good = false
					break
				}
				sp.Pools[poolID(k)] = &stakepool.DelegatePool{Balance: currency.Coin(b), Reward: currency.Coin(rw), DelegateID: poolID(k), Status: spenum.Active}
			}
			if !good {
				continue
			}
			w = &world{sp: sp, n: len(f) - 5, ctx: &ctx{demeter: true, blk: &block.Block{}}}
			w.ctx.blk.Round = 100
			outs[i] = "ok"
		case w == nil:
			continue
		case f[0] == "dist" && len(f) == 2:
			v, err := strconv.ParseUint(f[1], 10, 64)
			if err != nil {
				continue
			}
			outs[i] = w.call(func() error {
				return w.sp.DistributeRewards(currency.Coin(v), "prov", spenum.Blobber, spenum.BlockRewardBlobber, w.ctx)
			})
		case f[0] == "randn" && len(f) == 6:
			// randn <value> <n> <idxs> <seed> <old|new>: idxs (for the model) is what the real rand.Perm yields for the seed
			v, e1 := strconv.ParseUint(f[1], 10, 64)
			n, e2 := strconv.Atoi(f[2])
			seed, e3 := strconv.ParseInt(f[4], 10, 64)
			if e1 != nil || e2 != nil || e3 != nil || n < 0 || (f[5] != "old" && f[5] != "new") {
				continue
			}
			if permFor(seed, f[5] == "old", w.n, n) != f[3] {
				continue // inconsistent line (hand-written): not what the seeded generator selects
			}
			w.ctx.demeter = f[5] == "new"
			outs[i] = w.call(func() error {
				return w.sp.DistributeRewardsRandN(currency.Coin(v), "prov", spenum.Miner, seed, n, spenum.BlockRewardMiner, w.ctx)
			})
			w.ctx.demeter = true
		case f[0] == "dump" && len(f) == 1:
			outs[i] = fmt.Sprintf("state %d p %s", uint64(w.sp.Reward), w.rewards())
		}
	}
	return outs
}

// permFor: the index list the real getRandPools derives from the seed (pre-demeter: Perm(n); else Perm(len)[:n]).
func permFor(seed int64, old bool, npools, n int) string {
	if n >= npools {
		return "-"
	}
	var idx []int
	if old {
		idx = rand.New(rand.NewSource(seed)).Perm(n)
	} else {
		idx = rand.New(rand.NewSource(seed)).Perm(npools)[:n]
	}
	if len(idx) == 0 {
		return "-"
	}
	s := make([]string, len(idx))
	for i, x := range idx {
		s[i] = strconv.Itoa(x)
	}
	return strings.Join(s, ",")
}

// ---------------------------------------------------------------------------------------------------------
// generator

var nDist, nRandN, nSkippedUndef, nOld int64

func genBalance(r *rand.Rand) uint64 {
	switch r.Intn(12) {
	case 0:
		return 0
	case 1:
		return 1
	case 2:
		return 1<<53 + uint64(r.Intn(3)) - 1
	case 3:
		return 1<<62 - uint64(r.Intn(3))
	case 4:
		return uint64(r.Int63n(4e18))
	case 5, 6:
		return uint64(1+r.Intn(1000)) * 1e10
	case 7:
		return uint64(r.Intn(100))
	default:
		return uint64(r.Int63n(1e15))
	}
}

func genRatio(r *rand.Rand, valid bool) float64 {
	if !valid {
		return []float64{1.5, 2, -0.5, math.NaN(), math.Inf(1), 1 + 1.0/(1<<52), 1e300, -0.0}[r.Intn(8)]
	}
	switch r.Intn(10) {
	case 0:
		return 0
	case 1, 2:
		return 1
	case 3:
		return 1 - 1.0/(1<<53)
	case 4:
		return 0.5
	case 5:
		return float64(r.Intn(101)) / 100
	case 6:
		return math.Float64frombits(uint64(r.Int63n(int64(math.Float64bits(1)) + 1))) // any pattern in [0,1]
	default:
		return r.Float64()
	}
}

func genValue(r *rand.Rand) uint64 {
	switch r.Intn(12) {
	case 0:
		return 0
	case 1:
		return uint64(1 + r.Intn(50))
	case 2:
		return 1<<53 + uint64(r.Intn(9)) - 4
	case 3:
		return f64ops.BoundaryCoin(r)
	case 4:
		return uint64(r.Int63n(4e18))
	case 5:
		return ((1<<53 + uint64(r.Int63n(1<<53))) | 1) << uint(r.Intn(9)) // float64(value) is an exact tie
	case 6:
		return uint64(r.Int63n(1 << 53))
	default:
		return uint64(r.Int63n(1e13))
	}
}

// undefDomain: does the call pass a value to uint64(float) for which Go leaves the result implementation-defined?
// Such calls are outside the compared domain (the model answers `err undef`); decided with Go's own float ops.
func undefDomain(bal []uint64, ratio float64, value uint64, sel []int) bool {
	p := ratio * float64(value)
	if p < 0 {
		return false
	}
	if f64ops.UndefU64(p) {
		return true
	}
	sc := uint64(p)
	if sc > value {
		sc = value // the cap of stakepool.go:436/621
	}
	vl := value - sc
	if vl < math.MaxUint64-1023 {
		return false
	}
	var stake uint64
	for _, i := range sel {
		stake += bal[i]
	}
	for _, i := range sel {
		if float64(bal[i])/float64(stake) >= 1 {
			return true
		}
	}
	return false
}

func gen(r *rand.Rand, thorough bool, i int) []string {
	if i%4 == 3 { // a quarter of the cases are the F64/Coin tie
		return f64ops.Case(r, 400)
	}
	np := r.Intn(9)
	switch r.Intn(10) {
	case 0:
		np = 0
	case 1:
		np = 1
	case 2:
		np = 9 + r.Intn(32)
	}
	valid := r.Intn(12) != 0
	ratio := genRatio(r, valid)
	bal := make([]uint64, np)
	var total big.Int
	for k := range bal {
		bal[k] = genBalance(r)
		total.Add(&total, new(big.Int).SetUint64(bal[k]))
	}
	if r.Intn(6) == 0 { // equal stakes
		for k := range bal {
			bal[k] = bal[0]
		}
	}
	minStake := uint64(0)
	if r.Intn(5) == 0 {
		minStake = genBalance(r)
	}
	if np == 0 {
		// a provider with no delegate pools at all: MinStake 0 (it is paid), 1 or big (under-staked: nothing), charges 0 / 0.2 / 1
		minStake = []uint64{0, 0, 0, 1, 1 << 40}[r.Intn(5)]
		if valid {
			ratio = []float64{0, 0.2, 1, 0.5, ratio}[r.Intn(5)]
		}
	}
	killed := r.Intn(15) == 0
	spReward := uint64(0)
	if r.Intn(8) == 0 {
		spReward = math.MaxUint64 - uint64(r.Int63n(1e13))
	}
	line := fmt.Sprintf("sp %d %s %d %d", minStake, f64ops.Hex(ratio), map[bool]int{false: 0, true: 1}[killed], spReward)
	for k := range bal {
		rw := uint64(0)
		switch r.Intn(16) {
		case 0:
			rw = math.MaxUint64 - uint64(r.Intn(3))
		case 1:
			rw = uint64(r.Int63n(1e12))
		}
		line += fmt.Sprintf(" %d:%d", bal[k], rw)
	}
	ops := []string{line}
	nops := 1 + r.Intn(6)
	all := make([]int, np)
	for k := range all {
		all[k] = k
	}
	for k := 0; k < nops; k++ {
		v := genValue(r)
		if r.Intn(3) == 0 || (np == 0 && r.Intn(2) == 0) {
			// (also for a provider WITHOUT delegate pools: the early 'everything to the provider' branch of RandN)
			n := r.Intn(np + 2)
			if r.Intn(6) == 0 {
				n = 5 + r.Intn(20) // N far above the number of pools
			}
			old := r.Intn(4) == 0
			seed := r.Int63()
			if r.Intn(3) == 0 {
				seed = int64(r.Intn(8))
			}
			idxs := permFor(seed, old, np, n)
			sel := all
			if n < np {
				sel = nil
				if idxs != "-" {
					for _, s := range strings.Split(idxs, ",") {
						x, _ := strconv.Atoi(s)
						sel = append(sel, x)
					}
				}
			}
			if undefDomain(bal, ratio, v, sel) {
				atomic.AddInt64(&nSkippedUndef, 1)
				continue
			}
			if old {
				atomic.AddInt64(&nOld, 1)
			}
			atomic.AddInt64(&nRandN, 1)
			ops = append(ops, fmt.Sprintf("randn %d %d %s %d %s", v, n, idxs, seed, map[bool]string{true: "old", false: "new"}[old]))
		} else {
			if undefDomain(bal, ratio, v, all) {
				atomic.AddInt64(&nSkippedUndef, 1)
				continue
			}
			atomic.AddInt64(&nDist, 1)
			ops = append(ops, fmt.Sprintf("dist %d", v))
		}
		if r.Intn(4) == 0 {
			ops = append(ops, "dump")
		}
	}
	ops = append(ops, "dump")
	return ops
}

// ---------------------------------------------------------------------------------------------------------
// oracle: the property on the implementation's answers (no reference to the model)

type st struct {
	spReward uint64
	bal, rew []uint64
	ratio    float64
	minStake uint64
	killed   bool
}

func parseMoved(s string) (sp uint64, p []uint64, u uint64, d []uint64, ok bool) {
	f := strings.Fields(s)
	if len(f) < 5 || f[0] != "moved" || f[2] != "p" {
		return
	}
	sp, _ = strconv.ParseUint(f[1], 10, 64)
	i := 3
	for ; i < len(f) && f[i] != "u"; i++ {
		x, _ := strconv.ParseUint(f[i], 10, 64)
		p = append(p, x)
	}
	if i+2 > len(f) || f[i] != "u" {
		return
	}
	u, _ = strconv.ParseUint(f[i+1], 10, 64)
	if i+2 >= len(f) || f[i+2] != "d" {
		return
	}
	for i += 3; i < len(f); i++ {
		x, _ := strconv.ParseUint(f[i], 10, 64)
		d = append(d, x)
	}
	ok = true
	return
}

func bi(x uint64) *big.Int { return new(big.Int).SetUint64(x) }

func oracle(ops, outs []string) *corr.Violation {
	mk := func(sig, msg string) *corr.Violation {
		return &corr.Violation{Signature: "C10:" + sig, Message: msg, Ops: ops, Impl: outs}
	}
	var s *st
	for i, op := range ops {
		f := strings.Fields(op)
		if len(f) == 0 || f64ops.IsOp(op) {
			continue
		}
		switch f[0] {
		case "sp":
			if outs[i] != "ok" {
				s = nil
				continue
			}
			s = &st{}
			s.minStake, _ = strconv.ParseUint(f[1], 10, 64)
			s.ratio, _ = f64ops.FromHex(f[2])
			s.killed = f[3] == "1"
			s.spReward, _ = strconv.ParseUint(f[4], 10, 64)
			for _, p := range f[5:] {
				br := strings.Split(p, ":")
				b, _ := strconv.ParseUint(br[0], 10, 64)
				r, _ := strconv.ParseUint(br[1], 10, 64)
				s.bal = append(s.bal, b)
				s.rew = append(s.rew, r)
			}
		case "dist", "randn":
			if s == nil {
				continue
			}
			// the property's domain: ratio in [0,1]
			if !(s.ratio >= 0 && s.ratio <= 1) {
				continue
			}
			value, _ := strconv.ParseUint(f[1], 10, 64)
			total := new(big.Int)
			for _, b := range s.bal {
				total.Add(total, bi(b))
			}
			dead := s.killed || total.Cmp(bi(s.minStake)) < 0
			out := outs[i]
			if out == "bad-op" {
				continue
			}
			// accumulated rewards beyond the token supply (4·10^18 < 2^62) are unreachable; such states only exercise the
			// correspondence (checked AddCoin overflow errors, the unchecked `Reward++`), the property is not judged on them
			unreachable := s.spReward >= 1<<62
			for _, x := range s.rew {
				unreachable = unreachable || x >= 1<<62
			}
			if unreachable {
				s = nil
				continue
			}
			if strings.HasPrefix(out, "err ") {
				continue // a failing call moves nothing (the transaction is rejected)
			}
			if dead && total.BitLen() <= 64 {
				if out != "nothing" {
					return mk("dead-or-understaked-credited", fmt.Sprintf("op %d %q: killed=%v total=%s min=%d but answered %q", i, op, s.killed, total, s.minStake, out))
				}
				continue
			}
			if out == "nothing" {
				if value != 0 {
					return mk("live-provider-got-nothing", fmt.Sprintf("op %d %q answered nothing for a live, sufficiently staked provider", i, op))
				}
				continue
			}
			sp, p, u, d, ok := parseMoved(out)
			if !ok || len(p) != len(s.rew) || len(d) != len(s.rew) {
				return mk("unparsable", fmt.Sprintf("op %d: %q", i, out))
			}
			// increments
			if sp < s.spReward {
				return mk("provider-reward-decreased", fmt.Sprintf("op %d %q: provider reward %d -> %d", i, op, s.spReward, sp))
			}
			dsp := sp - s.spReward
			sum := bi(dsp)
			credited := 0
			evMismatch := "" // reported after the exactness clause
			inc := make([]uint64, len(p))
			for k := range p {
				if p[k] < s.rew[k] {
					return mk("delegate-reward-decreased", fmt.Sprintf("op %d %q: delegate %d reward %d -> %d", i, op, k, s.rew[k], p[k]))
				}
				inc[k] = p[k] - s.rew[k]
				if inc[k] > 0 {
					credited++
				}
				sum.Add(sum, bi(inc[k]))
				if d[k] != inc[k] && evMismatch == "" {
					evMismatch = fmt.Sprintf("op %d %q: delegate %d credited %d, event says %d", i, op, k, inc[k], d[k])
				}
			}
			if u != dsp && evMismatch == "" {
				evMismatch = fmt.Sprintf("op %d %q: provider credited %d, event says %d", i, op, dsp, u)
			}
			if dsp > value && dsp-value > 1024 {
				// float64(value) is at most half an ulp (<= 1024 below 2^64) above value: anything more is not the rounding defect
				return mk("service-charge-far-exceeds-value", fmt.Sprintf("op %d %q (ratio %v): provider credited %d, value %d", i, op, s.ratio, dsp, value))
			}
			if dsp > value {
				return mk("service-charge-exceeds-value", fmt.Sprintf("op %d %q (ratio %v): the provider alone is credited %d > value %d; total credited %s", i, op, s.ratio, dsp, value, sum))
			}
			// selected pools and their stake
			sel := make([]int, 0, len(p))
			if f[0] == "randn" {
				n, _ := strconv.Atoi(f[2])
				if n >= len(p) {
					for k := range p {
						sel = append(sel, k)
					}
				} else if f[3] != "-" {
					for _, x := range strings.Split(f[3], ",") {
						k, _ := strconv.Atoi(x)
						sel = append(sel, k)
					}
				}
				lim := n
				if len(p) < lim {
					lim = len(p)
				}
				if credited > lim {
					return mk("randn-more-than-n-credited", fmt.Sprintf("op %d %q: %d delegates credited, N=%d", i, op, credited, n))
				}
				isSel := map[int]bool{}
				for _, k := range sel {
					isSel[k] = true
				}
				for k := range inc {
					if inc[k] > 0 && !isSel[k] {
						return mk("randn-credited-unselected", fmt.Sprintf("op %d %q: delegate %d credited but not selected", i, op, k))
					}
				}
			} else {
				for k := range p {
					sel = append(sel, k)
				}
			}
			if sum.Cmp(bi(value)) != 0 {
				selStake := new(big.Int)
				for _, k := range sel {
					selStake.Add(selStake, bi(s.bal[k]))
				}
				if f[0] == "randn" && selStake.Sign() == 0 && len(p) > 0 {
					return mk("randn-zero-stake-selection-drops-remainder", fmt.Sprintf("op %d %q: credited %s of %d: the selected delegates hold no stake, the delegates' part is silently dropped", i, op, sum, value))
				}
				return mk("sum-not-exact", fmt.Sprintf("op %d %q: credited %s, value %d", i, op, sum, value))
			}
			if evMismatch != "" {
				return mk("event-differs-from-state", evMismatch)
			}
			// proportionality (amounts below 2^52): |inc_k*S - valueLeft*b_k| <= (2n+6)*S
			vl := value - dsp
			if vl < 1<<52 && len(sel) > 0 {
				S := new(big.Int)
				for _, k := range sel {
					S.Add(S, bi(s.bal[k]))
				}
				K := new(big.Int).Mul(big.NewInt(int64(2*len(sel)+6)), S)
				for _, k := range sel {
					lhs := new(big.Int).Mul(bi(inc[k]), S)
					lhs.Sub(lhs, new(big.Int).Mul(bi(vl), bi(s.bal[k])))
					lhs.Abs(lhs)
					if S.Sign() > 0 && lhs.Cmp(K) > 0 {
						return mk("not-proportional", fmt.Sprintf("op %d %q: delegate %d (stake %d of %s) credited %d of %d", i, op, k, s.bal[k], S, inc[k], vl))
					}
				}
			}
			s.spReward = sp
			s.rew = p
		}
	}
	return nil
}

func extra() map[string]interface{} {
	m := f64ops.Extra()
	m["dist_calls"] = atomic.LoadInt64(&nDist)
	m["randn_calls"] = atomic.LoadInt64(&nRandN)
	m["randn_pre_demeter"] = atomic.LoadInt64(&nOld)
	m["ops_skipped_undef_domain"] = atomic.LoadInt64(&nSkippedUndef)
	return m
}

func main() {
	logging.Logger = zap.NewNop()
	_ = sort.Strings
	one := f64ops.Hex(1.0)
	fixed := f64ops.Fixed()
	fixed = append(fixed,
		// DESIGN §7 #4 (repaired by 20328ad): value 2^53+3 at ratio 1.0 — float64(value) rounds up; the charge is capped at the value
		[]string{"sp 0 " + one + " 0 0 1000:0 1000:0", "dist 9007199254740995", "dump"},
		[]string{"sp 0 " + one + " 0 0 1000:0 1000:0", "randn 9007199254740995 2 - 1 new", "dump"},
		// exact cases
		[]string{"sp 0 " + f64ops.Hex(0.1) + " 0 0 10:0 20:0 30:0", "dist 1000", "dist 7", "dist 1", "dump"},
		[]string{"sp 0 " + f64ops.Hex(0.25) + " 0 0", "dist 1000", "dump"},
		[]string{"sp 100 " + f64ops.Hex(0.25) + " 0 0 10:0 20:0", "dist 1000", "dump"},
		[]string{"sp 0 " + f64ops.Hex(0.25) + " 1 0 10:0 20:0", "dist 1000", "dump"},
		[]string{"sp 0 " + f64ops.Hex(0.25) + " 0 0 0:0 0:0", "dist 1000", "randn 1000 1 " + permFor(3, false, 2, 1) + " 3 new", "dump"},
		[]string{"sp 0 " + f64ops.Hex(0.25) + " 0 0 0:0 5:0 0:0", "randn 1000 1 " + permFor(0, false, 3, 1) + " 0 new", "randn 1000 1 " + permFor(1, false, 3, 1) + " 1 new", "randn 1000 1 " + permFor(2, false, 3, 1) + " 2 new", "randn 1000 0 - 5 new", "randn 1000 2 " + permFor(5, true, 3, 2) + " 5 old", "dump"},
		// a provider without delegate pools (seeded change C09-r3-2): everything goes to the provider, once
		[]string{"sp 0 " + f64ops.Hex(0.2) + " 0 0", "randn 1000 1 - 7 new", "randn 1000 0 - 7 new", "randn 1000 10 - 7 old", "dist 1000", "dump"},
		[]string{"sp 0 " + one + " 0 5", "randn 1000 3 - 1 new", "dump"},
		[]string{"sp 1 " + f64ops.Hex(0.2) + " 0 0", "randn 1000 1 - 7 new", "dist 1000", "dump"},
		[]string{"sp x", "dist 5", "randn 1 1 9 1 new", "sp 0 " + one + " 0 0 1:0", "randn 5 0 7 1 new", "frob"},
	)
	corr.Main(corr.Prop{
		ID: "C10", Model: "C10", Gen: gen, Impl: impl, Oracle: oracle,
		Cases: func(th bool) int {
			if th {
				return 40000
			}
			return 3000
		},
		Fixed: fixed,
		Extra: extra,
		Nontrivial: func(ops, outs []string) bool {
			for _, o := range outs {
				if strings.HasPrefix(o, "moved") || strings.HasPrefix(o, "h ") {
					return true
				}
			}
			return false
		},
	})
}
