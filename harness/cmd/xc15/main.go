// xc15: extracts from smartcontract/storagesc the facts the C15 model takes from the source rather than from a
// hand transcription, and writes Generated/C15.lean:
//   * the fields of `type ReadMarker struct` (as an inductive type `Field`, so a new struct field makes the model's
//     field lookup non-exhaustive and the Lean build fail);
//   * the field list `(*ReadMarker).GetHashData` formats into the signed string, in order, and its separator;
//   * the fields `(*ReadConnection).GetKey` concatenates into the storage key;
//   * the constants CHUNK_SIZE and GB (evaluated).
// Fail closed: any other shape of these functions (another statement, a non-field argument, a verb other than %v,
// a different separator pattern) is an error and nothing is written.
package main

import (
	"fmt"
	"go/ast"
	"go/constant"
	"go/parser"
	"go/token"
	"os"
	"path/filepath"
	"strconv"
	"strings"
)

func die(f string, a ...interface{}) {
	fmt.Fprintf(os.Stderr, "xc15: "+f+"\n", a...)
	os.Exit(1)
}

func recvName(fd *ast.FuncDecl) (typ, name string) {
	if fd.Recv == nil || len(fd.Recv.List) != 1 {
		return "", ""
	}
	t := fd.Recv.List[0].Type
	if s, ok := t.(*ast.StarExpr); ok {
		t = s.X
	}
	id, ok := t.(*ast.Ident)
	if !ok {
		return "", ""
	}
	n := ""
	if len(fd.Recv.List[0].Names) == 1 {
		n = fd.Recv.List[0].Names[0].Name
	}
	return id.Name, n
}

// fieldOf: `<recv>.<Field>` or `<recv>.<Inner>.<Field>` → the path below the receiver.
func fieldOf(e ast.Expr, recv string) ([]string, bool) {
	sel, ok := e.(*ast.SelectorExpr)
	if !ok {
		return nil, false
	}
	switch x := sel.X.(type) {
	case *ast.Ident:
		if x.Name == recv {
			return []string{sel.Sel.Name}, true
		}
	case *ast.SelectorExpr:
		if p, ok := fieldOf(x, recv); ok {
			return append(p, sel.Sel.Name), true
		}
	}
	return nil, false
}

// evalConst evaluates integer constant expressions made of literals, *, and previously known names.
func evalConst(e ast.Expr, env map[string]constant.Value) (constant.Value, bool) {
	switch x := e.(type) {
	case *ast.BasicLit:
		if x.Kind == token.INT {
			return constant.MakeFromLiteral(x.Value, token.INT, 0), true
		}
	case *ast.Ident:
		v, ok := env[x.Name]
		return v, ok
	case *ast.ParenExpr:
		return evalConst(x.X, env)
	case *ast.BinaryExpr:
		a, ok1 := evalConst(x.X, env)
		b, ok2 := evalConst(x.Y, env)
		if ok1 && ok2 && (x.Op == token.MUL || x.Op == token.ADD) {
			return constant.BinaryOp(a, x.Op, b), true
		}
	}
	return nil, false
}

func main() {
	gosrc, out := os.Args[1], os.Args[2]
	dir := filepath.Join(gosrc, "smartcontract/storagesc")
	fset := token.NewFileSet()
	files := map[string]*ast.File{}
	for _, n := range []string{"models.go", "sc.go", "blobber.go"} {
		f, err := parser.ParseFile(fset, filepath.Join(dir, n), nil, 0)
		if err != nil {
			die("%v", err)
		}
		files[n] = f
	}

	// constants: KB, MB, GB (sc.go), CHUNK_SIZE (blobber.go)
	env := map[string]constant.Value{}
	for _, n := range []string{"sc.go", "blobber.go"} {
		for _, d := range files[n].Decls {
			gd, ok := d.(*ast.GenDecl)
			if !ok || gd.Tok != token.CONST {
				continue
			}
			for _, sp := range gd.Specs {
				vs := sp.(*ast.ValueSpec)
				for i, nm := range vs.Names {
					if i < len(vs.Values) {
						if v, ok := evalConst(vs.Values[i], env); ok {
							env[nm.Name] = v
						}
					}
				}
			}
		}
	}
	for _, n := range []string{"GB", "CHUNK_SIZE"} {
		if _, ok := env[n]; !ok {
			die("constant %s not found / not evaluable", n)
		}
	}

	var structFields []string
	var signed, keyFields []string
	sep := ""
	for _, d := range files["models.go"].Decls {
		switch x := d.(type) {
		case *ast.GenDecl:
			for _, sp := range x.Specs {
				ts, ok := sp.(*ast.TypeSpec)
				if !ok || ts.Name.Name != "ReadMarker" {
					continue
				}
				st, ok := ts.Type.(*ast.StructType)
				if !ok {
					die("ReadMarker is not a struct")
				}
				for _, fl := range st.Fields.List {
					if len(fl.Names) == 0 {
						die("ReadMarker has an embedded field")
					}
					for _, nm := range fl.Names {
						structFields = append(structFields, nm.Name)
					}
				}
			}
		case *ast.FuncDecl:
			typ, recv := recvName(x)
			switch {
			case typ == "ReadMarker" && x.Name.Name == "GetHashData":
				// hashData := fmt.Sprintf("<fmt>", rm.A, ...); return hashData
				if len(x.Body.List) != 2 {
					die("GetHashData: expected 2 statements, found %d", len(x.Body.List))
				}
				as, ok := x.Body.List[0].(*ast.AssignStmt)
				if !ok || len(as.Lhs) != 1 || len(as.Rhs) != 1 {
					die("GetHashData: first statement is not a single assignment")
				}
				ret, ok := x.Body.List[1].(*ast.ReturnStmt)
				if !ok || len(ret.Results) != 1 || ret.Results[0].(*ast.Ident).Name != as.Lhs[0].(*ast.Ident).Name {
					die("GetHashData: does not return the formatted string")
				}
				call, ok := as.Rhs[0].(*ast.CallExpr)
				if !ok {
					die("GetHashData: not a call")
				}
				if s, ok := call.Fun.(*ast.SelectorExpr); !ok || s.Sel.Name != "Sprintf" || s.X.(*ast.Ident).Name != "fmt" {
					die("GetHashData: not fmt.Sprintf")
				}
				lit, ok := call.Args[0].(*ast.BasicLit)
				if !ok || lit.Kind != token.STRING {
					die("GetHashData: format is not a literal")
				}
				format, _ := strconv.Unquote(lit.Value)
				verbs := strings.Split(format, ":")
				for _, v := range verbs {
					if v != "%v" {
						die("GetHashData: format %q is not %%v joined by ':'", format)
					}
				}
				sep = ":"
				if len(verbs) != len(call.Args)-1 {
					die("GetHashData: %d verbs for %d arguments", len(verbs), len(call.Args)-1)
				}
				for _, a := range call.Args[1:] {
					p, ok := fieldOf(a, recv)
					if !ok || len(p) != 1 {
						die("GetHashData: argument is not a field of the receiver")
					}
					signed = append(signed, p[0])
				}
			case typ == "ReadConnection" && x.Name.Name == "GetKey":
				// return datastore.Key(globalKey + encryption.Hash(rc.ReadMarker.A + rc.ReadMarker.B + ...))
				if len(x.Body.List) != 1 {
					die("GetKey: expected 1 statement")
				}
				ret, ok := x.Body.List[0].(*ast.ReturnStmt)
				if !ok || len(ret.Results) != 1 {
					die("GetKey: not a return")
				}
				conv, ok := ret.Results[0].(*ast.CallExpr)
				if !ok || len(conv.Args) != 1 {
					die("GetKey: unexpected shape")
				}
				sum, ok := conv.Args[0].(*ast.BinaryExpr)
				if !ok || sum.Op != token.ADD {
					die("GetKey: unexpected shape (no +)")
				}
				if id, ok := sum.X.(*ast.Ident); !ok || id.Name != "globalKey" {
					die("GetKey: key does not start with globalKey")
				}
				h, ok := sum.Y.(*ast.CallExpr)
				if !ok || len(h.Args) != 1 || h.Fun.(*ast.SelectorExpr).Sel.Name != "Hash" {
					die("GetKey: second part is not encryption.Hash(..)")
				}
				var walk func(e ast.Expr)
				walk = func(e ast.Expr) {
					if b, ok := e.(*ast.BinaryExpr); ok && b.Op == token.ADD {
						walk(b.X)
						walk(b.Y)
						return
					}
					p, ok := fieldOf(e, recv)
					if !ok || len(p) != 2 || p[0] != "ReadMarker" {
						die("GetKey: operand is not rc.ReadMarker.<Field>")
					}
					keyFields = append(keyFields, p[1])
				}
				walk(h.Args[0])
			}
		}
	}
	if len(structFields) == 0 || len(signed) == 0 || len(keyFields) == 0 {
		die("ReadMarker struct / GetHashData / GetKey not found")
	}
	known := map[string]bool{}
	for _, f := range structFields {
		known[f] = true
	}
	for _, f := range append(append([]string{}, signed...), keyFields...) {
		if !known[f] {
			die("field %s is not a field of ReadMarker", f)
		}
	}

	var b strings.Builder
	b.WriteString("-- GENERATED by harness/cmd/xc15 from smartcontract/storagesc/{models,sc,blobber}.go — do not edit.\n")
	b.WriteString("namespace ZChain.Generated.C15\n\n")
	b.WriteString("/-- the fields of `type ReadMarker struct` -/\ninductive Field where\n")
	for _, f := range structFields {
		fmt.Fprintf(&b, "  | %s\n", f)
	}
	b.WriteString("deriving DecidableEq, Repr\n\n")
	q := func(l []string) string {
		var p []string
		for _, f := range l {
			p = append(p, "."+f)
		}
		return "[" + strings.Join(p, ", ") + "]"
	}
	fmt.Fprintf(&b, "/-- `(*ReadMarker).GetHashData`: the fields formatted (with %%v, joined by the separator) into the signed string -/\ndef signedFields : List Field := %s\n\n", q(signed))
	fmt.Fprintf(&b, "def separator : String := %q\n\n", sep)
	fmt.Fprintf(&b, "/-- `(*ReadConnection).GetKey`: the fields concatenated into the hashed storage key -/\ndef keyFields : List Field := %s\n\n", q(keyFields))
	fmt.Fprintf(&b, "def chunkSize : Nat := %s\ndef gb : Nat := %s\n\n", env["CHUNK_SIZE"].ExactString(), env["GB"].ExactString())
	b.WriteString("end ZChain.Generated.C15\n")
	if err := os.WriteFile(out, []byte(b.String()), 0o644); err != nil {
		die("%v", err)
	}
	fmt.Printf("signed=%s\nkey=%s\nstruct=%s\nCHUNK_SIZE=%s GB=%s\n", strings.Join(signed, ","), strings.Join(keyFields, ","), strings.Join(structFields, ","), env["CHUNK_SIZE"].ExactString(), env["GB"].ExactString())
}
