package main

import (
	"fmt"
	"strconv"
	"strings"

	"verifharness/lib/corr"
)

// The property on the answers of the real code, for honest DKGs (`rundkg`):
//   * a share is stored only if it is the sender's signature share on the round's message for the round's timeout
//     count (shares that fail verification are never counted);
//   * the seed appears only when >= T shares are stored, and does appear once T verified shares of distinct
//     parties were delivered;
//   * every instance of the same (round, timeout count, previous seed) — whatever subset of shares, whatever
//     order, whatever invalid shares in between — yields the same seed, and that seed is the first 16 hex digits of
//     H(group signature of the honest parties).
func oracle(ops, outs []string) *corr.Violation {
	mk := func(i int, sig, msg string) *corr.Violation {
		return &corr.Violation{Signature: "C33:" + sig, Message: fmt.Sprintf("op %d %q answered %q: %s", i, ops[i], outs[i], msg), Ops: ops, Impl: outs}
	}
	type delivery struct {
		k     int
		label string // label of the delivered signature ("" = undecodable)
		stc   int
		known bool // the round's message was available when it was delivered
	}
	T := 0
	honest, hasDkg := false, false
	var labels []string
	honestLabel := map[string]string{} // "k|m" -> label of party k's signature share on m
	var dels []delivery
	curMsg, tc := "", 0
	inst := ""
	seeds := map[string]string{}
	zeroLabel := "?"
	pushSig := func(i int, key string) {
		f := strings.Fields(outs[i])
		if len(f) == 3 && f[0] == "sig" {
			labels = append(labels, f[2])
			if strings.HasPrefix(ops[i], "sigzero") {
				zeroLabel = f[2]
			}
			if key != "" {
				honestLabel[key] = f[2]
			}
		}
	}
	for i, op := range ops {
		w := strings.Fields(op)
		if len(w) == 0 {
			continue
		}
		out := outs[i]
		switch w[0] {
		case "dkg":
			if len(w) != 3 || out != "ok" {
				return nil
			}
			T, _ = strconv.Atoi(w[1])
			honest, hasDkg = false, false
			labels, dels = nil, nil
			zeroLabel = "?"
			honestLabel = map[string]string{}
			curMsg, inst = "", ""
		case "rundkg":
			honest = out == "ok"
		case "recv", "aggsk", "aggpk", "party":
			honest = false
		case "chain":
			hasDkg = out == "ok" && len(w) == 2 && w[1] != "-"
		case "sign":
			if len(w) == 3 {
				key := ""
				if honest {
					key = w[1] + "|" + w[2]
				}
				pushSig(i, key)
			}
		case "sigadd", "sigsub", "sigzero", "ksign", "recover":
			pushSig(i, "")
		case "round", "prevseed", "restart":
			if w[0] != "prevseed" {
				dels = nil
			}
			curMsg = ""
			if strings.HasPrefix(out, "msg ") {
				curMsg = strings.TrimPrefix(out, "msg ")
			}
			if w[0] == "round" && len(w) == 5 {
				tc, _ = strconv.Atoi(w[2])
				inst = w[1] + "|" + w[3]
			}
			if w[0] == "prevseed" && len(w) == 3 {
				inst = strings.Split(inst, "|")[0] + "|" + w[1]
			}
			if w[0] == "restart" && len(w) == 3 {
				tc, _ = strconv.Atoi(w[1])
			}
		case "vshare":
			if len(w) != 4 || !honest || inst == "" {
				continue
			}
			f := strings.Fields(out)
			if len(f) < 4 || !strings.HasPrefix(f[1], "n=") {
				continue
			}
			k, _ := strconv.Atoi(w[1])
			stc, _ := strconv.Atoi(w[3])
			lab := ""
			if x, err := strconv.Atoi(w[2]); err == nil && x >= 0 && x < len(labels) {
				lab = labels[x]
			}
			dels = append(dels, delivery{k, lab, stc, curMsg != ""})
			n, _ := strconv.Atoi(strings.TrimPrefix(f[1], "n="))
			seed := strings.TrimPrefix(f[3], "seed=")
			// upper: parties that may have a verifying share stored; lower: parties whose verifying share was delivered
			// while the message was known (parked deliveries may be displaced in the cache, which keeps one per party)
			upper, lower := map[int]bool{}, map[int]bool{}
			isValid := func(d delivery) (valid, sure bool) {
				if curMsg == "" || !hasDkg || d.stc != tc || d.label == "" || d.label == zeroLabel {
					return false, true // (the library refuses the zero signature: a zero aggregated secret cannot sign)
				}
				hl, ok := honestLabel[strconv.Itoa(d.k)+"|"+curMsg]
				if !ok {
					return true, false // the party's honest share was never shown to the oracle: cannot refute
				}
				return hl == d.label, true
			}
			for _, d := range dels {
				v, sure := isValid(d)
				if v {
					upper[d.k] = true
					if sure && d.known {
						lower[d.k] = true
					}
				}
			}
			curValid, _ := isValid(dels[len(dels)-1])
			if n > len(upper) || (f[0] == "true" && !curValid) {
				return mk(i, "unverified-share-counted", fmt.Sprintf("%d shares stored, only %d parties delivered a verifying share", n, len(upper)))
			}
			valid := lower
			if seed != "-" && n < T {
				return mk(i, "seed-below-threshold", fmt.Sprintf("seed set with %d < T=%d shares", n, T))
			}
			if seed == "-" && len(valid) >= T && T >= 1 && zeroLabel != "?" {
				return mk(i, "threshold-reached-no-seed", fmt.Sprintf("%d parties delivered verifying shares (T=%d) but no seed", len(valid), T))
			}
			if seed != "-" {
				key := inst + "|" + strconv.Itoa(tc)
				if old, ok := seeds[key]; ok && old != seed {
					return mk(i, "seed-disagreement", fmt.Sprintf("instance %s produced seed %s, an earlier instance %s", key, seed, old))
				}
				seeds[key] = seed
				if len(f) >= 5 && f[4] != "derived=ok" {
					return mk(i, "seed-not-hash-of-group-signature", f[4])
				}
			}
		}
	}
	return nil
}
