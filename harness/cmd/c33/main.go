// C33 harness: the real round random beacon (miner.Chain.GetBlsMessageForRound / AddVRFShare / verifyVRFShare /
// ThresholdNumBLSSigReceived / computeRoundRandomSeed, round.Round.AddVRFShare) on a minimal miner chain, with a real
// DKG whose secrets the harness chose, against Model/VRF.lean.
package main

import (
	"context"
	"fmt"
	"math/big"
	"math/rand"
	"sort"
	"strconv"
	"strings"

	"0chain.net/chaincore/round"
	"0chain.net/core/encryption"
	"0chain.net/miner"
	"verifharness/lib/corr"
	"verifharness/lib/cryptow"
	"verifharness/lib/minerfix"
)

type state struct {
	w        *cryptow.World
	fix      *minerfix.Fix
	self     int
	hasChain bool
	rn       int64
	prev     int64
	mr       *miner.Round
	zlab     map[int64]int
	mb2T     int   // a second magic block (same miners, this T, NO DKG of its own) starting at round mb2S; 0 = none
	mb2S     int64
}

func (s *state) close() {
	if s.fix != nil {
		s.fix.Close()
		s.fix = nil
	}
}

// newFix builds a fresh miner chain whose magic block holds the DKG parties as miners (node ids = miner ids).
func (s *state) newFix(genesisSeed int64) bool {
	s.close()
	var idx []int
	for j := range s.w.Parties {
		idx = append(idx, j)
	}
	sort.Ints(idx)
	if len(idx) == 0 {
		return false
	}
	keys := make([]*encryption.BLS0ChainScheme, len(idx))
	for k, j := range idx {
		if j != k {
			return false // parties must be numbered 0..n-1
		}
		keys[k] = s.w.Keys["n"+strconv.Itoa(j)]
		if keys[k] == nil {
			return false
		}
	}
	selfIdx := 0
	if s.self >= 0 {
		selfIdx = s.self
	}
	o := minerfix.Opts{N: len(idx), T: s.w.T, Self: selfIdx, ThresholdByCount: 66, Keys: keys, GenesisSeed: genesisSeed}
	if s.mb2T > 0 {
		o.Pools = [][]int{idx, idx}
		o.PoolT = []int{s.w.T, s.mb2T}
		o.PoolStart = []int64{0, s.mb2S}
	}
	s.fix = minerfix.New(o)
	for k := range idx {
		if s.fix.Nodes[k].GetKey() != s.w.MinerIDs[k] {
			return false // the party's miner id must be the node id (= hash of the node's public key)
		}
	}
	if s.self >= 0 {
		d := s.w.Parties[s.self]
		d.T = s.w.T
		d.StartingRound = 0
		if err := s.fix.MC.SetDKG(d, 0); err != nil {
			panic(err)
		}
	}
	return true
}

func (s *state) message() string {
	m, err := s.fix.MC.GetBlsMessageForRound(s.mr.Round)
	if err != nil {
		return "nomsg"
	}
	s.w.Msgs[m] = []byte(m) // the DKG signs the message string itself
	return "msg " + m
}

func (s *state) showRound(ok bool) string {
	seed := "-"
	if s.mr.IsVRFComplete() {
		v := s.mr.GetRandomSeed()
		i, have := s.zlab[v]
		if !have {
			i = len(s.zlab)
			s.zlab[v] = i
		}
		seed = "Z" + strconv.Itoa(i)
	}
	return fmt.Sprintf("%v n=%d parked=%d seed=%s", ok, len(s.mr.GetVRFShares()), s.mr.VerifCachedVRFShares(), seed)
}

func (s *state) step(ws []string) string {
	if len(ws) == 0 {
		return "bad-op"
	}
	switch {
	case ws[0] == "chain" && len(ws) == 2:
		if ws[1] == "-" {
			s.self = -1
		} else {
			k, err := strconv.Atoi(ws[1])
			if err != nil || s.w.Parties[k] == nil {
				return "bad-op"
			}
			s.self = k
		}
		s.hasChain = true
		return "ok"
	case ws[0] == "mb2" && len(ws) == 3:
		t2, e1 := strconv.Atoi(ws[1])
		st, e2 := strconv.ParseInt(ws[2], 10, 64)
		if e1 != nil || e2 != nil || t2 < 1 || st < 1 {
			return "bad-op"
		}
		s.mb2T, s.mb2S = t2, st
		return "ok"
	case ws[0] == "round" && len(ws) == 5:
		rn, e1 := strconv.ParseInt(ws[1], 10, 64)
		tc, e2 := strconv.Atoi(ws[2])
		_, ok := cryptow.ParseFr(ws[4])
		if e1 != nil || e2 != nil || tc < 0 || !ok || !s.hasChain || rn < 1 {
			return "bad-op"
		}
		var prev int64
		if ws[3] != "-" {
			p, err := strconv.ParseInt(ws[3], 10, 64)
			if err != nil {
				return "bad-op"
			}
			prev = p
		}
		gs := int64(0)
		if rn == 1 {
			gs = prev
		}
		if !s.newFix(gs) {
			return "bad-op"
		}
		s.rn, s.prev = rn, prev
		if rn > 1 {
			s.fix.Round(rn-1, prev)
		} else if prev == 0 {
			// round 0 always has the genesis seed in the fixture: "no previous seed" is not expressible for rn = 1
			return "bad-op"
		}
		s.fix.MC.SetCurrentRound(rn + 1) // the beacon must not start block generation in the fixture
		s.mr = s.fix.Round(rn, 0)
		s.mr.SetTimeoutCount(tc)
		return s.message()
	case ws[0] == "prevseed" && len(ws) == 3:
		p, err := strconv.ParseInt(ws[1], 10, 64)
		_, ok := cryptow.ParseFr(ws[2])
		if err != nil || !ok || !s.hasChain || s.mr == nil || p == 0 || s.prev != 0 || s.rn < 2 {
			return "bad-op"
		}
		s.prev = p
		s.fix.Round(s.rn-1, p)
		return s.message()
	case ws[0] == "restart" && len(ws) == 3:
		tc, err := strconv.Atoi(ws[1])
		_, ok := cryptow.ParseFr(ws[2])
		if err != nil || tc < 0 || !ok || !s.hasChain || s.mr == nil {
			return "bad-op"
		}
		if err := s.mr.Restart(); err != nil {
			return "err"
		}
		s.mr.SetTimeoutCount(tc)
		return s.message()
	case ws[0] == "vshare" && len(ws) == 4:
		k, e1 := strconv.Atoi(ws[1])
		tc, e2 := strconv.Atoi(ws[3])
		if e1 != nil || e2 != nil || tc < 0 || !s.hasChain || s.mr == nil || s.w.Parties[k] == nil {
			return "bad-op"
		}
		share := "zz-not-hex" // "zero": an undecodable share string
		if ws[2] != "zero" {
			i, err := strconv.Atoi(ws[2])
			if err != nil || i < 0 || i >= len(s.w.Sigs) {
				return "bad-op"
			}
			share = s.w.Sigs[i].GetHexString()
		}
		v := &round.VRFShare{Round: s.rn, Share: share, RoundTimeoutCount: tc}
		v.SetParty(s.fix.Nodes[k])
		ok := s.fix.MC.AddVRFShare(context.Background(), s.mr, v)
		out := s.showRound(ok)
		if s.mr.IsVRFComplete() {
			out += " " + s.derived()
		}
		return out
	}
	o, handled := s.w.Step(ws)
	if !handled {
		return "bad-op"
	}
	if ws[0] == "dkg" {
		s.close()
		*s = state{w: s.w, self: -1, zlab: map[int64]int{}}
	}
	return o
}

// derived: the property's "seed = first hex digits of H(group signature)" checked against the group signature the
// HONEST parties produce for the round's message (recovered by the harness from shares it made itself).
func (s *state) derived() string {
	m, err := s.fix.MC.GetBlsMessageForRound(s.mr.Round)
	if err != nil {
		return "derived=nomsg"
	}
	var idx []int
	for j := range s.w.Parties {
		idx = append(idx, j)
	}
	sort.Ints(idx)
	if len(idx) < s.w.T {
		return "derived=na"
	}
	var sigs, ids []string
	for _, j := range idx[:s.w.T] {
		sigs = append(sigs, s.w.Parties[j].Sign(m).GetHexString())
		ids = append(ids, s.w.Parties[j].ID.GetHexString())
	}
	g, err := s.w.Parties[idx[0]].CalBlsGpSign(sigs, ids)
	if err != nil {
		return "derived=na"
	}
	h := encryption.Hash(g.GetHexString())
	u, err := strconv.ParseUint(h[0:16], 16, 64)
	if err != nil {
		return "derived=na"
	}
	if int64(u) == s.mr.GetRandomSeed() && s.mr.GetVRFOutput() == h {
		return "derived=ok"
	}
	return "derived=BAD"
}

func impl(ops []string) []string {
	s := &state{w: cryptow.New(), self: -1, zlab: map[int64]int{}}
	defer s.close()
	outs := make([]string, len(ops))
	for i, op := range ops {
		func() {
			defer func() {
				if r := recover(); r != nil {
					outs[i] = fmt.Sprintf("panic %v", r)
				}
			}()
			outs[i] = s.step(strings.Fields(op))
		}()
	}
	return outs
}

// ---------------------------------------------------------------------------------------------- generator

func rndGeneric(r *rand.Rand) string {
	for {
		v := new(big.Int).Rand(r, cryptow.Order())
		if v.BitLen() > 200 {
			return v.String()
		}
	}
}

func rndScalar(r *rand.Rand) string {
	q := cryptow.Order()
	switch r.Intn(12) {
	case 0:
		return "1"
	case 1:
		return new(big.Int).Sub(q, big.NewInt(1)).String()
	case 2:
		return strconv.Itoa(2 + r.Intn(5))
	}
	return new(big.Int).Rand(r, q).String()
}

func rndMinerID(r *rand.Rand) string {
	const hx = "0123456789abcdef"
	b := make([]byte, 64)
	for i := range b {
		b[i] = hx[r.Intn(16)]
	}
	return string(b)
}

func rndSeed(r *rand.Rand) int64 {
	switch r.Intn(8) {
	case 0:
		return 1
	case 1:
		return -1
	case 2:
		return 1<<63 - 1
	case 3:
		return -(1 << 62)
	}
	v := r.Int63()
	if r.Intn(2) == 0 {
		v = -v
	}
	if v == 0 {
		v = 7
	}
	return v
}

// blsMsg is the generator's own idea of the message string; it is only used to refer to the message in `sign` ops.
// If the real code formats the message differently the signatures are made for another string than the real one and
// the run disagrees with the model.
func blsMsg(rn int64, tc int, prev int64) string {
	return fmt.Sprintf("%d%d%s", rn, tc, strconv.FormatInt(prev, 16))
}

func subsets(n, k int) [][]int {
	var res [][]int
	var rec func(start int, cur []int)
	rec = func(start int, cur []int) {
		if len(cur) == k {
			res = append(res, append([]int(nil), cur...))
			return
		}
		for i := start; i < n; i++ {
			rec(i+1, append(cur, i))
		}
	}
	rec(0, nil)
	return res
}

func perms(xs []int) [][]int {
	if len(xs) <= 1 {
		return [][]int{append([]int(nil), xs...)}
	}
	var res [][]int
	for i := range xs {
		rest := append(append([]int(nil), xs[:i]...), xs[i+1:]...)
		for _, p := range perms(rest) {
			res = append(res, append([]int{xs[i]}, p...))
		}
	}
	return res
}

type gen struct {
	r    *rand.Rand
	ops  []string
	nsig int
}

func (g *gen) add(f string, a ...interface{}) { g.ops = append(g.ops, fmt.Sprintf(f, a...)) }
func (g *gen) sig(f string, a ...interface{}) int {
	g.add(f, a...)
	g.nsig++
	return g.nsig - 1
}

func genCase(r *rand.Rand, thorough bool, i int) []string {
	g := &gen{r: r}
	maxN := 5
	if thorough {
		maxN = 7
	}
	n := 1 + r.Intn(maxN)
	if thorough && r.Intn(12) == 0 {
		n = 8 + r.Intn(6)
	}
	t := 1 + r.Intn(n)
	g.add("dkg %d %d", t, n)
	g.add("order")
	for j := 0; j < n; j++ {
		var id string
		cs := make([]string, t)
		for k := range cs {
			cs[k] = rndScalar(r)
		}
		sk := rndGeneric(r)
		id = cryptow.IDOfSecret(sk)
		g.add("key n%d %s", j, sk)
		g.add("party %d %s %s", j, id, strings.Join(cs, ","))
	}
	g.add("rundkg")
	g.sig("sigzero") // shows the oracle the label of the zero signature (a party whose aggregated secret is 0 cannot sign validly)
	self := r.Intn(n)
	if r.Intn(25) == 0 {
		g.add("chain -")
	} else {
		g.add("chain %d", self)
	}
	rn := int64(2 + r.Intn(40))
	if r.Intn(10) == 0 {
		rn = 1
	}
	if r.Intn(10) == 0 {
		rn = 1<<40 + int64(r.Intn(100))
	}
	prev := rndSeed(r)
	tc := 0
	if r.Intn(3) == 0 {
		tc = r.Intn(13)
	}
	exhaustive := n <= 7 && (thorough || n <= 4)
	if r.Intn(4) == 0 && rn >= 8 {
		// a newer magic block with another T is known for this round, but there is no DKG for it: the DKG in force (and
		// its T) is still the old one
		t2 := 1 + r.Intn(n)
		if t2 == t {
			t2 = 1 + (t % n)
		}
		g.add("mb2 %d %d", t2, rn-4-int64(r.Intn(3)))
	}

	// one delivery schedule: a list of (party, what) pairs
	type dl struct {
		k    int
		kind int // 0 honest share, 1 share for another message, 2 another party's share, 3 undecodable, 4 wrong timeout count (later), 5 earlier timeout count, 6 perturbed
	}
	runRound := func(order []dl, lateSeed bool) {
		h := rndGeneric(r)
		m := blsMsg(rn, tc, prev)
		late := lateSeed && rn >= 2
		g.add("rawmsg %s %s", m, h)
		g.add("rawmsg other %s", rndGeneric(r))
		if late {
			g.add("round %d %d - %s", rn, tc, h) // the previous round has no seed yet: shares are parked
		} else {
			g.add("round %d %d %d %s", rn, tc, prev, h)
		}
		if n >= 2 && r.Intn(4) == 0 {
			// two individually invalid shares whose errors cancel: swapped shares, or s_a + P and s_b - P
			p := r.Perm(n)
			a, b := p[0], p[1]
			sa := g.sig("sign %d %s", a, m)
			sb := g.sig("sign %d %s", b, m)
			if r.Intn(2) == 0 {
				g.add("vshare %d %d %d", a, sb, tc)
				g.add("vshare %d %d %d", b, sa, tc)
			} else {
				P := g.sig("sign %d other", a)
				s1 := g.sig("sigadd %d %d", sa, P)
				s2 := g.sig("sigsub %d %d", sb, P)
				g.add("vshare %d %d %d", a, s1, tc)
				g.add("vshare %d %d %d", b, s2, tc)
			}
		}
		for x, d := range order {
			var s int
			switch d.kind {
			case 0, 4, 5:
				s = g.sig("sign %d %s", d.k, m)
			case 1:
				s = g.sig("sign %d other", d.k)
			case 2:
				s = g.sig("sign %d %s", (d.k+1)%n, m)
			case 3:
				g.add("vshare %d zero %d", d.k, tc)
				continue
			case 6:
				a := g.sig("sign %d other", d.k)
				b := g.sig("sign %d %s", d.k, m)
				s = g.sig("sigadd %d %d", a, b)
			}
			stc := tc
			if d.kind == 4 {
				stc = tc + 1 + r.Intn(2)
			}
			if d.kind == 5 && tc > 0 {
				stc = tc - 1
			}
			g.add("vshare %d %d %d", d.k, s, stc)
			if x%3 == 2 && r.Intn(3) == 0 {
				g.add("vshare %d %d %d", d.k, s, stc) // re-delivery
			}
		}
		if late {
			g.add("prevseed %d %s", prev, h)
			for _, k := range r.Perm(n) {
				if r.Intn(3) > 0 {
					s := g.sig("sign %d %s", k, m)
					g.add("vshare %d %d %d", k, s, tc)
				}
			}
		}
	}
	mkOrder := func(sub []int, noise bool) []dl {
		var o []dl
		for _, k := range sub {
			o = append(o, dl{k, 0})
		}
		if noise {
			for x := 0; x < 1+r.Intn(4); x++ {
				o = append(o, dl{r.Intn(n), 1 + r.Intn(6)})
			}
			r.Shuffle(len(o), func(a, b int) { o[a], o[b] = o[b], o[a] })
		}
		return o
	}
	// all subsets of size >= t (and some below), all orders of the t-subsets for small t
	count := 0
	for k := 1; k <= n; k++ {
		subs := subsets(n, k)
		for _, s := range subs {
			if !exhaustive && (k != t && r.Intn(4) > 0 || len(subs) > 8 && r.Intn(len(subs)) > 8) {
				continue
			}
			ps := [][]int{s}
			if exhaustive && k == t && k <= 3 {
				ps = perms(s)
			} else if k > 1 {
				p := append([]int(nil), s...)
				r.Shuffle(len(p), func(a, b int) { p[a], p[b] = p[b], p[a] })
				ps = [][]int{p}
			}
			for _, p := range ps {
				runRound(mkOrder(p, r.Intn(3) == 0), r.Intn(12) == 0)
				count++
			}
		}
	}
	// a restart in the middle of collecting shares
	if r.Intn(3) == 0 {
		h := rndGeneric(r)
		m := blsMsg(rn, tc, prev)
		g.add("rawmsg %s %s", m, h)
		g.add("round %d %d %d %s", rn, tc, prev, h)
		for k := 0; k < n && k < t-1; k++ {
			s := g.sig("sign %d %s", k, m)
			g.add("vshare %d %d %d", k, s, tc)
		}
		// a share for the next timeout count arrives early and is parked, then the round restarts
		m2 := blsMsg(rn, tc+1, prev)
		g.add("rawmsg %s %s", m2, rndGeneric(r))
		e := g.sig("sign %d %s", n-1, m2)
		g.add("vshare %d %d %d", n-1, e, tc+1)
		g.add("restart %d %s", tc+1, rndGeneric(r))
		for _, k := range r.Perm(n) {
			s := g.sig("sign %d %s", k, m2)
			g.add("vshare %d %d %d", k, s, tc+1)
		}
	}
	return g.ops
}

func genMalformed(r *rand.Rand) []string {
	return []string{"dkg 1 1", "key n0 104", "party 0 " + cryptow.IDOfSecret("104") + " 5", "rundkg", "round 2 0 5 7", "vshare 0 0 0", "chain 9", "mb2 0 5", "mb2 2 x", "chain 0", "round 0 0 5 7", "round x 0 5 7", "round 2 0 5 7", "vshare 5 0 0", "vshare 0 99 0", "restart x 1", "prevseed 0 1", "frob"}
}

func genAll(r *rand.Rand, thorough bool, i int) []string {
	if i%50 == 49 {
		return genMalformed(r)
	}
	return genCase(r, thorough, i)
}

func main() {
	sks := map[string]string{"a": "101", "b": "102", "c": "103", "d": "104"}
	id := func(c string) string { return cryptow.IDOfSecret(sks[c]) }
	corr.Main(corr.Prop{
		ID: "C33", Model: "C33", Gen: genAll, Impl: impl, Oracle: oracle, Serial: true,
		Cases: func(th bool) int {
			if th {
				return 800
			}
			return 150
		},
		Fixed: [][]string{
			{"dkg 2 3", "key n0 101", "key n1 102", "key n2 103", "party 0 " + id("a") + " 5,7", "party 1 " + id("b") + " 11,13", "party 2 " + id("c") + " 17,19", "rundkg", "chain 0",
				"rawmsg 203039 3", "round 2 0 12345 3", "sign 0 203039", "sign 1 203039", "sign 2 203039", "vshare 0 0 0", "vshare 0 0 0", "vshare 1 1 0", "vshare 2 2 0",
				"round 2 0 12345 3", "vshare 2 2 0", "vshare 1 0 0", "vshare 1 1 0"},
			// two swapped shares parked in the cache (the previous round's seed is not known yet), then flushed
			{"dkg 2 3", "key n0 101", "key n1 102", "key n2 103", "party 0 " + id("a") + " 5,7", "party 1 " + id("b") + " 11,13", "party 2 " + id("c") + " 17,19", "rundkg", "sigzero", "chain 0",
				"rawmsg 203039 3", "round 2 0 - 3", "sign 1 203039", "sign 2 203039", "vshare 1 2 0", "vshare 2 1 0", "prevseed 12345 3", "sign 0 203039", "vshare 0 3 0", "vshare 1 1 0"},
			// a newer magic block with T = 1 is in force for round 20 but has no DKG: the threshold stays the DKG's (2)
			{"dkg 2 3", "key n0 101", "key n1 102", "key n2 103", "party 0 " + id("a") + " 5,7", "party 1 " + id("b") + " 11,13", "party 2 " + id("c") + " 17,19", "rundkg", "sigzero", "chain 0",
				"mb2 1 10", "rawmsg 2003039 3", "round 20 0 12345 3", "sign 1 2003039", "sign 2 2003039", "vshare 1 1 0", "vshare 2 2 0"},
			// the message string is a plain concatenation: round 1 / timeout 12 and round 11 / timeout 2 sign the same string
			{"dkg 1 1", "key n0 104", "party 0 " + id("d") + " 9", "rundkg", "chain 0", "round 1 12 255 4", "round 11 2 255 5", "rawmsg 112ff 4", "sign 0 112ff", "vshare 0 0 2"},
		},
	})
}
