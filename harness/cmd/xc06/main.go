// xc06: translator for C06 (determinism of block execution).
//
// Loads, with full type information (go/packages, offline), every package of module 0chain.net that the block
// execution entry points can reach, builds a function-level call graph (static calls + method calls resolved by
// name to every method of that name, i.e. class-hierarchy analysis by name; serialization callbacks made by the
// external MPT/state-cache module are roots as well) and lists, inside reachable functions:
//
//   - every `range` over a map-typed expression, with the *shape* of its body:
//       S1  only writes/deletes entries keyed by the iteration key (or builds a set)
//       S2  accumulates with a commutative-associative operation (integer +, ||, &&, max/min, checked coin add)
//       S3  collects into a slice that is sorted before any other use in the same function
//       S4  anything else
//   - every time.Now / time.Since call, every call of a package-level math/rand function, every `go` statement and
//     every `select` statement.
//
// Output: lean/ZChain/Generated/C06.lean (table of sites) and a JSON copy for the harness. Fail closed: a package that
// does not type-check is an error.
package main

import (
	"bytes"
	"crypto/sha1"
	"encoding/hex"
	"encoding/json"
	"fmt"
	"go/ast"
	"go/printer"
	"go/token"
	"go/types"
	"os"
	"path/filepath"
	"sort"
	"strconv"
	"strings"

	"golang.org/x/tools/go/packages"
)

func harnessDir() string {
	if d := os.Getenv("VERIF_HARNESS"); d != "" {
		return d
	}
	return "/verif/harness"
}

func die(f string, a ...interface{}) {
	fmt.Fprintf(os.Stderr, "xc06: "+f+"\n", a...)
	os.Exit(1)
}

type Site struct {
	File  string `json:"file"` // relative to the module root
	Line  int    `json:"line"`
	Func  string `json:"func"`
	Expr  string `json:"expr"`
	Shape string `json:"shape"`
	Why   string `json:"why"`
	Gen   bool   `json:"generated"`
}

type GoSite struct {
	File     string   `json:"file"`
	Line     int      `json:"line"`
	Func     string   `json:"func"`
	Captures []string `json:"captures"`
}

type Other struct {
	Kind string `json:"kind"` // time.Now | math/rand | go | select
	File string `json:"file"`
	Line int    `json:"line"`
	Func string `json:"func"`
	Expr string `json:"expr"`
}

var fset *token.FileSet

func src(n ast.Node) string {
	var b bytes.Buffer
	printer.Fprint(&b, fset, n)
	return strings.Join(strings.Fields(b.String()), " ")
}

type fn struct {
	obj  *types.Func
	decl *ast.FuncDecl
	pkg  *packages.Package
	lits []*ast.FuncLit
}

func main() {
	if len(os.Args) < 3 {
		die("usage: xc06 <gosrc> <out.lean> [sites.json]")
	}
	gosrc, outPath := os.Args[1], os.Args[2]
	cfg := &packages.Config{
		Mode:       packages.NeedName | packages.NeedFiles | packages.NeedSyntax | packages.NeedTypes | packages.NeedTypesInfo | packages.NeedImports | packages.NeedDeps | packages.NeedModule,
		Dir:        harnessDir(),
		Env:        append(os.Environ(), "GOFLAGS=-mod=mod", "GOPROXY=off", "GOSUMDB=off", "GOWORK=off", "GOTOOLCHAIN=local"),
		BuildFlags: []string{},
	}
	// the harness module (replace 0chain.net => <repo>) is the loading context; for a scratch tree ./check has written
	// a go.mod copy pointing at it (build/mod-<sha1(repo)>/go.mod)
	if repo := os.Getenv("VERIF_REPO"); repo != "" && repo != "/repo" {
		h := sha1.Sum([]byte(repo))
		mf := filepath.Join(harnessDir(), "..", "build", "mod-"+hex.EncodeToString(h[:])[:10], "go.mod")
		if _, err := os.Stat(mf); err != nil {
			die("modfile for %s not found: %v", repo, err)
		}
		cfg.BuildFlags = append(cfg.BuildFlags, "-modfile="+mf)
	}
	roots := []string{"0chain.net/chaincore/smartcontract", "0chain.net/chaincore/block", "0chain.net/chaincore/chain", "0chain.net/smartcontract/setupsc"}
	// phase 1: the module's packages the roots depend on (names only)
	cfg1 := *cfg
	cfg1.Mode = packages.NeedName | packages.NeedImports | packages.NeedDeps
	pk1, err := packages.Load(&cfg1, roots...)
	if err != nil {
		die("load: %v", err)
	}
	var pats []string
	seen := map[string]bool{}
	var visit func(p *packages.Package)
	visit = func(p *packages.Package) {
		if seen[p.PkgPath] {
			return
		}
		seen[p.PkgPath] = true
		if strings.HasPrefix(p.PkgPath, "0chain.net/") {
			pats = append(pats, p.PkgPath)
		}
		for _, q := range p.Imports {
			visit(q)
		}
	}
	for _, p := range pk1 {
		visit(p)
	}
	sort.Strings(pats)
	// phase 2: those packages type-checked from source, everything else from export data
	cfg.Mode = packages.NeedName | packages.NeedFiles | packages.NeedSyntax | packages.NeedTypes | packages.NeedTypesInfo | packages.NeedImports
	pkgs, err := packages.Load(cfg, pats...)
	if err != nil {
		die("load: %v", err)
	}
	fset = pkgs[0].Fset
	all := map[string]*packages.Package{}
	for _, p := range pkgs {
		all[p.PkgPath] = p
	}
	for _, p := range all {
		for _, e := range p.Errors {
			die("package %s does not type-check: %v", p.PkgPath, e)
		}
		if p.TypesInfo == nil || len(p.Syntax) == 0 {
			die("package %s: no syntax/types", p.PkgPath)
		}
	}

	// functions
	fns := map[string]*fn{}
	byName := map[string][]*fn{} // methods by name
	implCache := map[string]bool{}
	for _, p := range all {
		for _, f := range p.Syntax {
			for _, d := range f.Decls {
				fd, ok := d.(*ast.FuncDecl)
				if !ok || fd.Body == nil {
					continue
				}
				obj, _ := p.TypesInfo.Defs[fd.Name].(*types.Func)
				if obj == nil {
					continue
				}
				x := &fn{obj: obj, decl: fd, pkg: p}
				fns[obj.FullName()] = x
				if fd.Recv != nil {
					byName[fd.Name.Name] = append(byName[fd.Name.Name], x)
				}
			}
		}
	}
	// edges
	callees := func(x *fn) []*fn {
		var res []*fn
		ast.Inspect(x.decl.Body, func(n ast.Node) bool {
			var id *ast.Ident
			switch e := n.(type) {
			case *ast.CallExpr:
				switch f := e.Fun.(type) {
				case *ast.Ident:
					id = f
				case *ast.SelectorExpr:
					id = f.Sel
				}
			case *ast.SelectorExpr: // method values / function values passed around
				id = e.Sel
			case *ast.Ident:
				id = e
			}
			if id == nil {
				return true
			}
			obj, _ := x.pkg.TypesInfo.Uses[id].(*types.Func)
			if obj == nil {
				return true
			}
			if y := fns[obj.FullName()]; y != nil {
				res = append(res, y)
			}
			// a call through an interface (or an embedded interface): every method of that name
			if sig, ok := obj.Type().(*types.Signature); ok && sig.Recv() != nil {
				if iface, isIface := sig.Recv().Type().Underlying().(*types.Interface); isIface {
					// class-hierarchy analysis: methods of that name whose receiver type has all the interface's method names
					// (types of different packages come from different type-checker universes here, so the test is by method names)
					for _, y := range byName[obj.Name()] {
						key := y.obj.FullName() + "|" + sig.Recv().Type().String()
						ok, seen := implCache[key]
						if !seen {
							ok = hasMethodNames(y, iface)
							implCache[key] = ok
						}
						if ok {
							res = append(res, y)
						}
					}
				}
			}
			return true
		})
		return res
	}
	reach := map[*fn]bool{}
	var work []*fn
	add := func(x *fn) {
		if x != nil && !reach[x] {
			reach[x] = true
			work = append(work, x)
		}
	}
	rootNames := map[string]bool{
		"0chain.net/chaincore/smartcontract.ExecuteSmartContract": true,
		"(*0chain.net/chaincore/block.Block).ComputeState":        true,
		"(*0chain.net/chaincore/chain.Chain).updateState":         true,
		"(*0chain.net/chaincore/chain.Chain).UpdateState":         true,
		// the contracts register their entry points as method values in their constructors
		"0chain.net/smartcontract/setupsc.SetupSmartContracts": true,
	}
	found := 0
	for name, x := range fns {
		if rootNames[name] {
			add(x)
			found++
		}
	}
	if found != len(rootNames) {
		die("only %d of %d root functions found", found, len(rootNames))
	}
	// callbacks from the external MPT / state cache / msgp into reachable packages
	callbacks := map[string]bool{"MarshalMsg": true, "UnmarshalMsg": true, "Msgsize": true, "Encode": true, "Decode": true, "Clone": true, "CopyFrom": true,
		"GetHash": true, "GetHashBytes": true, "MarshalJSON": true, "UnmarshalJSON": true, "Less": true, "Len": true, "Swap": true, "String": true, "Error": true}
	for len(work) > 0 {
		x := work[len(work)-1]
		work = work[:len(work)-1]
		for _, y := range callees(x) {
			add(y)
		}
		if len(work) == 0 {
			// closure: callbacks of every package that already has a reachable function
			pk := map[*packages.Package]bool{}
			for r := range reach {
				pk[r.pkg] = true
			}
			for name := range callbacks {
				for _, y := range byName[name] {
					if pk[y.pkg] {
						add(y)
					}
				}
			}
		}
	}

	rel := func(pos token.Pos) (string, int) {
		p := fset.Position(pos)
		r, err := filepath.Rel(gosrc, p.Filename)
		if err != nil {
			r = p.Filename
		}
		return r, p.Line
	}
	var sites []Site
	var others []Other
	var goSites []GoSite
	var order []*fn
	for x := range reach {
		order = append(order, x)
	}
	sort.Slice(order, func(i, j int) bool { return order[i].decl.Pos() < order[j].decl.Pos() })
	for _, x := range order {
		info := x.pkg.TypesInfo
		file, _ := rel(x.decl.Pos())
		if strings.Contains(file, "/benchmark") || strings.HasSuffix(file, "_test.go") {
			continue
		}
		gen := strings.HasSuffix(file, "_gen.go")
		fname := x.obj.FullName()
		fname = strings.ReplaceAll(fname, "0chain.net/", "")
		ast.Inspect(x.decl.Body, func(n ast.Node) bool {
			switch s := n.(type) {
			case *ast.RangeStmt:
				t := info.TypeOf(s.X)
				if t == nil {
					return true
				}
				if _, ok := t.Underlying().(*types.Map); !ok {
					return true
				}
				f, l := rel(s.Pos())
				shape, why := classify(x, s)
				sites = append(sites, Site{File: f, Line: l, Func: fname, Expr: src(s.X), Shape: shape, Why: why, Gen: gen})
			case *ast.CallExpr:
				if sel, ok := s.Fun.(*ast.SelectorExpr); ok {
					if obj, _ := info.Uses[sel.Sel].(*types.Func); obj != nil && obj.Pkg() != nil {
						f, l := rel(s.Pos())
						switch {
						case obj.Pkg().Path() == "time" && (obj.Name() == "Now" || obj.Name() == "Since" || obj.Name() == "Until"):
							others = append(others, Other{"time.Now", f, l, fname, src(s)})
						case obj.Pkg().Path() == "time" && (obj.Name() == "NewTimer" || obj.Name() == "After" || obj.Name() == "AfterFunc" || obj.Name() == "NewTicker" || obj.Name() == "Tick" || obj.Name() == "Sleep"):
							others = append(others, Other{"time.Timer", f, l, fname, src(s)})
						case obj.Pkg().Path() == "math/rand" && obj.Type().(*types.Signature).Recv() == nil && obj.Name() != "New" && obj.Name() != "NewSource":
							others = append(others, Other{"math/rand", f, l, fname, src(s)})
						}
					}
				}
			case *ast.GoStmt:
				{
					f, l := rel(s.Pos())
					goSites = append(goSites, GoSite{File: f, Line: l, Func: fname, Captures: captures(info, s)})
				}
				f, l := rel(s.Pos())
				others = append(others, Other{"go", f, l, fname, truncate(src(s.Call.Fun), 60)})
			case *ast.SelectStmt:
				f, l := rel(s.Pos())
				others = append(others, Other{"select", f, l, fname, ""})
			}
			return true
		})
	}
	sort.Slice(sites, func(i, j int) bool {
		if sites[i].File != sites[j].File {
			return sites[i].File < sites[j].File
		}
		return sites[i].Line < sites[j].Line
	})
	sort.Slice(others, func(i, j int) bool {
		if others[i].Kind != others[j].Kind {
			return others[i].Kind < others[j].Kind
		}
		if others[i].File != others[j].File {
			return others[i].File < others[j].File
		}
		return others[i].Line < others[j].Line
	})
	sort.Slice(goSites, func(i, j int) bool {
		if goSites[i].File != goSites[j].File {
			return goSites[i].File < goSites[j].File
		}
		return goSites[i].Line < goSites[j].Line
	})
	writeLean(outPath, sites, others, goSites)
	if len(os.Args) > 3 {
		b, _ := json.MarshalIndent(map[string]interface{}{"sites": sites, "others": others, "go_sites": goSites}, "", " ")
		os.WriteFile(os.Args[3], b, 0o644)
	}
	cnt := map[string]int{}
	for _, s := range sites {
		cnt[s.Shape]++
	}
	ocnt := map[string]int{}
	for _, o := range others {
		ocnt[o.Kind]++
	}
	fmt.Printf("packages=%d functions=%d reachable=%d map-range sites=%d %v others=%v\n", len(all), len(fns), len(reach), len(sites), cnt, ocnt)
}

// hasMethodNames: the receiver type of y declares (or promotes) every method name of the interface
func hasMethodNames(y *fn, iface *types.Interface) bool {
	recv := y.obj.Type().(*types.Signature).Recv().Type()
	ms := types.NewMethodSet(recv)
	if p, ok := recv.(*types.Pointer); !ok {
		ms = types.NewMethodSet(types.NewPointer(recv))
	} else {
		_ = p
	}
	for i := 0; i < iface.NumMethods(); i++ {
		if ms.Lookup(y.obj.Pkg(), iface.Method(i).Name()) == nil {
			return false
		}
	}
	return true
}

func truncate(s string, n int) string {
	if len(s) > n {
		return s[:n]
	}
	return s
}

// ---- shape classification --------------------------------------------------------------------------------------------

func identName(e ast.Expr) string {
	if id, ok := e.(*ast.Ident); ok {
		return id.Name
	}
	return ""
}

func isIntegerOrBool(t types.Type) (isInt, isBool bool) {
	if t == nil {
		return
	}
	b, ok := t.Underlying().(*types.Basic)
	if !ok {
		return
	}
	return b.Info()&types.IsInteger != 0, b.Info()&types.IsBoolean != 0
}

// mentions reports whether the node mentions the identifier name.
func mentions(n ast.Node, name string) bool {
	found := false
	ast.Inspect(n, func(m ast.Node) bool {
		if id, ok := m.(*ast.Ident); ok && id.Name == name {
			found = true
		}
		return !found
	})
	return found
}

// pure: an expression without calls (except len/cap/conversions to basic types) and without channel receives
func pure_unused(info *types.Info, e ast.Expr) bool {
	ok := true
	ast.Inspect(e, func(n ast.Node) bool {
		switch x := n.(type) {
		case *ast.CallExpr:
			if id, isId := x.Fun.(*ast.Ident); isId && (id.Name == "len" || id.Name == "cap") {
				return true
			}
			if tv, has := info.Types[x.Fun]; has && tv.IsType() {
				return true
			}
			ok = false
		case *ast.UnaryExpr:
			if x.Op == token.ARROW {
				ok = false
			}
		case *ast.FuncLit:
			ok = false
		}
		return ok
	})
	return ok
}

// classify the body of `for k, v := range m`.
func classify(x *fn, s *ast.RangeStmt) (string, string) {
	info := x.pkg.TypesInfo
	key := identName(s.Key)
	kinds := map[string]bool{}
	locals := map[string]bool{}
	if s.Value != nil && identName(s.Value) != "" {
		locals[identName(s.Value)] = true
	}
	var appendTargets []string
	bad := ""
	// calls that only copy their receiver/argument
	pureCall := func(c *ast.CallExpr) bool {
		if sel, ok := c.Fun.(*ast.SelectorExpr); ok && (sel.Sel.Name == "Clone" || sel.Sel.Name == "Copy" || sel.Sel.Name == "Msgsize") && len(c.Args) == 0 {
			return true
		}
		if id, ok := c.Fun.(*ast.Ident); ok && (id.Name == "make" || id.Name == "new" || id.Name == "len" || id.Name == "cap") {
			return true
		}
		if tv, has := info.Types[c.Fun]; has && tv.IsType() {
			return true
		}
		return false
	}
	pureE := func(e ast.Expr) bool {
		ok := true
		ast.Inspect(e, func(n ast.Node) bool {
			switch y := n.(type) {
			case *ast.CallExpr:
				if !pureCall(y) {
					ok = false
				}
			case *ast.UnaryExpr:
				if y.Op == token.ARROW {
					ok = false
				}
			case *ast.FuncLit:
				ok = false
			}
			return ok
		})
		return ok
	}
	rootIdent := func(e ast.Expr) string {
		for {
			switch y := e.(type) {
			case *ast.SelectorExpr:
				e = y.X
			case *ast.IndexExpr:
				e = y.X
			case *ast.StarExpr:
				e = y.X
			case *ast.ParenExpr:
				e = y.X
			case *ast.Ident:
				return y.Name
			default:
				return ""
			}
		}
	}
	var walk func(st ast.Stmt, k string)
	walkList := func(l []ast.Stmt, k string) {
		for i := 0; i < len(l) && bad == ""; i++ {
			st := l[i]
			// x, err = currency.AddCoin(x, e); if err != nil { return … }
			if as, ok := st.(*ast.AssignStmt); ok && len(as.Lhs) == 2 && len(as.Rhs) == 1 && i+1 < len(l) {
				if c, ok := as.Rhs[0].(*ast.CallExpr); ok {
					if sel, ok := c.Fun.(*ast.SelectorExpr); ok && sel.Sel.Name == "AddCoin" && len(c.Args) == 2 && src(c.Args[0]) == src(as.Lhs[0]) && pureE(c.Args[1]) {
						if ifs, ok := l[i+1].(*ast.IfStmt); ok && src(ifs.Cond) == src(as.Lhs[1])+" != nil" {
							kinds["S2"] = true
							i++
							continue
						}
					}
				}
			}
			walk(st, k)
		}
	}
	walk = func(st ast.Stmt, k string) {
		if bad != "" {
			return
		}
		switch t := st.(type) {
		case *ast.EmptyStmt:
		case *ast.DeclStmt:
			if gd, ok := t.Decl.(*ast.GenDecl); ok && gd.Tok == token.VAR {
				for _, sp := range gd.Specs {
					vs := sp.(*ast.ValueSpec)
					for _, v := range vs.Values {
						if !pureE(v) {
							bad = "declaration with a call"
						}
					}
					for _, n := range vs.Names {
						locals[n.Name] = true
					}
				}
			} else {
				bad = "declaration"
			}
		case *ast.BranchStmt:
			if t.Tok != token.CONTINUE {
				bad = "break/goto: " + t.Tok.String()
			}
		case *ast.IfStmt:
			if t.Init != nil {
				as, ok := t.Init.(*ast.AssignStmt)
				if !ok || as.Tok != token.DEFINE {
					bad = "if with a non-define init"
					return
				}
				for _, r := range as.Rhs {
					if !pureE(r) {
						bad = "if-init with a call: " + truncate(src(r), 50)
						return
					}
				}
				for _, l := range as.Lhs {
					locals[identName(l)] = true
				}
			}
			if !pureE(t.Cond) {
				bad = "guard with a call: " + truncate(src(t.Cond), 50)
				return
			}
			if be, ok := t.Cond.(*ast.BinaryExpr); ok && t.Else == nil && len(t.Body.List) == 1 &&
				(be.Op == token.GTR || be.Op == token.LSS || be.Op == token.GEQ || be.Op == token.LEQ) {
				if as, ok := t.Body.List[0].(*ast.AssignStmt); ok && len(as.Lhs) == 1 && len(as.Rhs) == 1 && as.Tok == token.ASSIGN {
					l, r := src(as.Lhs[0]), src(as.Rhs[0])
					if (src(be.X) == r && src(be.Y) == l) || (src(be.Y) == r && src(be.X) == l) {
						if isInt, _ := isIntegerOrBool(info.TypeOf(as.Lhs[0])); isInt {
							kinds["S2"] = true
							return
						}
					}
				}
			}
			walkList(t.Body.List, k)
			if t.Else != nil {
				walk(t.Else, k)
			}
		case *ast.BlockStmt:
			walkList(t.List, k)
		case *ast.RangeStmt:
			// nested loop (over a slice or an inner map): same rules; its own key may index writes into loop-local containers
			if !pureE(t.X) {
				bad = "nested range over a call result"
				return
			}
			if id := identName(t.Key); id != "" {
				locals[id] = true
			}
			if t.Value != nil {
				locals[identName(t.Value)] = true
			}
			walkList(t.Body.List, k)
		case *ast.IncDecStmt:
			if isInt, _ := isIntegerOrBool(info.TypeOf(t.X)); isInt {
				kinds["S2"] = true
			} else {
				bad = "inc/dec of a non-integer"
			}
		case *ast.ExprStmt:
			if c, ok := t.X.(*ast.CallExpr); ok && identName(c.Fun) == "delete" && len(c.Args) == 2 && k != "" && src(c.Args[1]) == k {
				kinds["S1"] = true
				return
			}
			if c, ok := t.X.(*ast.CallExpr); ok {
				cs := src(c.Fun)
				if strings.HasPrefix(cs, "logging.Logger.") || strings.HasPrefix(cs, "Logger.") || strings.HasPrefix(cs, "logging.N2n.") {
					return // logging only
				}
				if identName(c.Fun) == "copy" && len(c.Args) == 2 && locals[rootIdent(c.Args[0])] && pureE(c.Args[1]) {
					return // copy into a loop-local buffer
				}
			}
			bad = "call per element: " + truncate(src(t.X), 60)
		case *ast.AssignStmt:
			if len(t.Lhs) == 1 && len(t.Rhs) == 1 && identName(t.Lhs[0]) == "_" && pureE(t.Rhs[0]) {
				return // `_ = x`
			}
			if t.Tok == token.DEFINE {
				for _, r := range t.Rhs {
					if !pureE(r) {
						bad = "local defined by a call: " + truncate(src(r), 50)
						return
					}
				}
				for _, l := range t.Lhs {
					locals[identName(l)] = true
				}
				return
			}
			if len(t.Lhs) == 1 && len(t.Rhs) == 1 {
				lhs, rhs := t.Lhs[0], t.Rhs[0]
				// writes into a loop-local variable (or its fields / entries)
				if r := rootIdent(lhs); r != "" && locals[r] && pureE(rhs) {
					return
				}
				if ix, ok := lhs.(*ast.IndexExpr); ok && t.Tok == token.ASSIGN {
					if _, isMap := info.TypeOf(ix.X).Underlying().(*types.Map); isMap {
						if k != "" && src(ix.Index) == k && pureE(rhs) && !mentions(rhs, rootIdent(ix.X)) {
							kinds["S1"] = true
							return
						}
						if lit, ok := rhs.(*ast.Ident); ok && (lit.Name == "true" || lit.Name == "false") && pureE(ix.Index) {
							kinds["S1"] = true
							return
						}
						if _, ok := rhs.(*ast.CompositeLit); ok && src(rhs) == "struct{}{}" && pureE(ix.Index) {
							kinds["S1"] = true
							return
						}
					}
				}
				if c, ok := rhs.(*ast.CallExpr); ok && identName(c.Fun) == "append" && len(c.Args) >= 2 && src(c.Args[0]) == src(lhs) && t.Tok == token.ASSIGN {
					for _, e := range c.Args[1:] {
						if !pureE(e) {
							bad = "append of a call result"
							return
						}
					}
					// the collected elements must be the map KEYS (pairwise different): only then does a sort by the elements
					// themselves leave exactly one arrangement
					if len(c.Args) != 2 || k == "" || src(c.Args[1]) != k {
						bad = "collects something other than the iteration key: " + truncate(src(c.Args[1]), 40)
						return
					}
					appendTargets = append(appendTargets, src(lhs))
					kinds["S3"] = true
					return
				}
				isInt, isBool := isIntegerOrBool(info.TypeOf(lhs))
				switch t.Tok {
				case token.ADD_ASSIGN, token.OR_ASSIGN, token.AND_ASSIGN, token.XOR_ASSIGN, token.MUL_ASSIGN:
					if isInt && pureE(rhs) {
						kinds["S2"] = true
						return
					}
				case token.ASSIGN:
					if be, ok := rhs.(*ast.BinaryExpr); ok && pureE(rhs) {
						l := src(lhs)
						if (src(be.X) == l || src(be.Y) == l) &&
							((isBool && (be.Op == token.LOR || be.Op == token.LAND)) || (isInt && (be.Op == token.ADD || be.Op == token.OR || be.Op == token.AND || be.Op == token.MUL))) {
							kinds["S2"] = true
							return
						}
					}
					if id, ok := rhs.(*ast.Ident); ok && (id.Name == "true" || id.Name == "false") {
						kinds["S2"] = true
						return
					}
				}
			}
			bad = "assignment: " + truncate(src(t), 60)
		case *ast.ReturnStmt:
			bad = "return inside the loop"
		case *ast.SwitchStmt:
			if t.Init != nil || (t.Tag != nil && !pureE(t.Tag)) {
				bad = "switch with init / call"
				return
			}
			for _, cc := range t.Body.List {
				cl := cc.(*ast.CaseClause)
				for _, e := range cl.List {
					if !pureE(e) {
						bad = "case with a call"
						return
					}
				}
				walkList(cl.Body, k)
			}
		default:
			bad = fmt.Sprintf("%T", st)
		}
	}
	// exists / for-all with early exit: `for … { if cond { return C1 } }; return C2` with constant C1, C2
	if len(s.Body.List) == 1 {
		if ifs, ok := s.Body.List[0].(*ast.IfStmt); ok && ifs.Init == nil && ifs.Else == nil && len(ifs.Body.List) == 1 {
			if rs, ok := ifs.Body.List[0].(*ast.ReturnStmt); ok && constResults(rs) && lookupOnly(info, ifs.Cond) {
				if next := stmtAfter(x, s); next != nil {
					if rs2, ok := next.(*ast.ReturnStmt); ok && constResults(rs2) {
						return "S2", "exists/for-all with early return of a constant"
					}
				}
			}
		}
	}
	walkList(s.Body.List, key)
	if bad != "" {
		return "S4", bad
	}
	if kinds["S3"] {
		for _, tgt := range appendTargets {
			if !sortedAfter(x, s, tgt) {
				return "S4", "append without a following sort of " + tgt
			}
		}
	}
	switch {
	case kinds["S3"]:
		return "S3", "collect then sort"
	case kinds["S2"]:
		return "S2", "commutative accumulation"
	default:
		return "S1", "keyed writes / set / copies"
	}
}

func constResults(rs *ast.ReturnStmt) bool {
	for _, r := range rs.Results {
		switch e := r.(type) {
		case *ast.Ident:
			if e.Name != "true" && e.Name != "false" && e.Name != "nil" {
				return false
			}
		case *ast.BasicLit:
		default:
			return false
		}
	}
	return true
}

// lookupOnly: calls allowed in an exists-condition are read-only lookups (HasNode, Has…, Get…, Contains…, len)
func lookupOnly(info *types.Info, e ast.Expr) bool {
	ok := true
	ast.Inspect(e, func(n ast.Node) bool {
		if c, isCall := n.(*ast.CallExpr); isCall {
			name := ""
			switch f := c.Fun.(type) {
			case *ast.SelectorExpr:
				name = f.Sel.Name
			case *ast.Ident:
				name = f.Name
			}
			if !(strings.HasPrefix(name, "Has") || strings.HasPrefix(name, "Get") || strings.HasPrefix(name, "Contains") || strings.HasPrefix(name, "Is") || name == "len") {
				ok = false
			}
		}
		return ok
	})
	return ok
}

// stmtAfter: the statement following the loop in its enclosing block
func stmtAfter(x *fn, loop *ast.RangeStmt) ast.Stmt {
	var res ast.Stmt
	ast.Inspect(x.decl.Body, func(n ast.Node) bool {
		if b, ok := n.(*ast.BlockStmt); ok {
			for i, st := range b.List {
				if st == ast.Stmt(loop) {
					// logging statements between the loop and the return do not count
					j := i + 1
					for j < len(b.List) {
						if es, ok := b.List[j].(*ast.ExprStmt); ok {
							if c, ok := es.X.(*ast.CallExpr); ok && (strings.HasPrefix(src(c.Fun), "logging.Logger.") || strings.HasPrefix(src(c.Fun), "Logger.")) {
								j++
								continue
							}
						}
						break
					}
					if j < len(b.List) {
						res = b.List[j]
					}
				}
			}
		}
		return res == nil
	})
	return res
}

// sortedAfter: the first statement after the loop (in the enclosing block) that mentions tgt is a sort call on it.
func sortedAfter(x *fn, loop *ast.RangeStmt, tgt string) bool {
	var enclosing []ast.Stmt
	ast.Inspect(x.decl.Body, func(n ast.Node) bool {
		if b, ok := n.(*ast.BlockStmt); ok {
			for _, st := range b.List {
				if st == ast.Stmt(loop) {
					enclosing = b.List
				}
			}
		}
		return enclosing == nil
	})
	after := false
	base := tgt
	for _, st := range enclosing {
		if st == ast.Stmt(loop) {
			after = true
			continue
		}
		if !after || !strings.Contains(src(st), base) {
			continue
		}
		return totalOrderSort(st, base)
	}
	return false
}

// totalOrderSort: the statement sorts `base` by a TOTAL order on the elements themselves: sort.Strings / sort.Ints /
// msgp.Sort* / slices.Sort on it, or sort.Slice[Stable](base, func(i, j int) bool { return base[i] < base[j] }) (or >).
// A comparator on a field of the element, or on anything else, is not accepted: ties keep the collection order.
func totalOrderSort(st ast.Stmt, base string) bool {
	es, ok := st.(*ast.ExprStmt)
	if !ok {
		return false
	}
	c, ok := es.X.(*ast.CallExpr)
	if !ok || len(c.Args) == 0 || src(c.Args[0]) != base {
		return false
	}
	fn := src(c.Fun)
	switch fn {
	case "sort.Strings", "sort.Ints", "sort.Float64s", "slices.Sort", "msgp.Sort", "msgp.SortStrings":
		return len(c.Args) == 1
	case "sort.Slice", "sort.SliceStable":
		if len(c.Args) != 2 {
			return false
		}
		lit, ok := c.Args[1].(*ast.FuncLit)
		if !ok || len(lit.Body.List) != 1 || lit.Type.Params == nil {
			return false
		}
		var names []string
		for _, f := range lit.Type.Params.List {
			for _, n := range f.Names {
				names = append(names, n.Name)
			}
		}
		rs, ok := lit.Body.List[0].(*ast.ReturnStmt)
		if !ok || len(rs.Results) != 1 || len(names) != 2 {
			return false
		}
		be, ok := rs.Results[0].(*ast.BinaryExpr)
		if !ok || (be.Op != token.LSS && be.Op != token.GTR) {
			return false
		}
		a, b := base+"["+names[0]+"]", base+"["+names[1]+"]"
		return (src(be.X) == a && src(be.Y) == b) || (src(be.X) == b && src(be.Y) == a)
	}
	if strings.HasPrefix(fn, "msgp.Sort") {
		return true
	}
	return false
}

// ---- Lean emission -----------------------------------------------------------------------------------------------

func q(s string) string { return strconv.Quote(s) }

func leanStrList(xs []string) string {
	qs := make([]string, len(xs))
	for i, x := range xs {
		qs[i] = q(x)
	}
	return "[" + strings.Join(qs, ", ") + "]"
}

// shortFunc: the function's name without package path and receiver decoration: "(*chaincore/chain.Chain).updateState" -> "updateState"
func shortFunc(f string) string {
	if i := strings.LastIndex(f, "."); i >= 0 {
		return f[i+1:]
	}
	return f
}

func bytesLit(s string) string {
	parts := make([]string, len(s))
	for i := 0; i < len(s); i++ {
		parts[i] = strconv.Itoa(int(s[i]))
	}
	return "[" + strings.Join(parts, ", ") + "]"
}

// captures: the variables a goroutine shares with the function that starts it, with the way the goroutine uses each.
// `go func(params) { body }(args)`: identifiers of the body that denote variables declared outside the literal (and not at
// package level); `go f(args)`: the call itself and its arguments.
func captures(info *types.Info, g *ast.GoStmt) []string {
	set := map[string]bool{}
	lit, ok := g.Call.Fun.(*ast.FuncLit)
	if !ok {
		set["call:"+truncate(src(g.Call.Fun), 80)] = true
		for _, a := range g.Call.Args {
			set["arg:"+truncate(src(a), 60)] = true
		}
	} else {
		shared := func(id *ast.Ident) bool {
			v, ok := info.Uses[id].(*types.Var)
			if !ok || v.IsField() || v.Pkg() == nil {
				return false
			}
			if v.Parent() == v.Pkg().Scope() {
				return false // package-level
			}
			return v.Pos() < lit.Pos() || v.Pos() > lit.End()
		}
		used := map[*ast.Ident]bool{}
		mark := func(id *ast.Ident, use string) {
			if id != nil && shared(id) {
				set[id.Name+":"+use] = true
				used[id] = true
			}
		}
		root := func(e ast.Expr) *ast.Ident {
			for {
				switch y := e.(type) {
				case *ast.SelectorExpr:
					e = y.X
				case *ast.IndexExpr:
					e = y.X
				case *ast.StarExpr:
					e = y.X
				case *ast.ParenExpr:
					e = y.X
				case *ast.Ident:
					return y
				default:
					return nil
				}
			}
		}
		ast.Inspect(lit.Body, func(n ast.Node) bool {
			switch t := n.(type) {
			case *ast.AssignStmt:
				for _, l := range t.Lhs {
					switch y := l.(type) {
					case *ast.IndexExpr:
						mark(root(y.X), "index-write["+src(y.Index)+"]")
					case *ast.Ident:
						mark(y, "write")
					default:
						mark(root(l), "write")
					}
				}
			case *ast.IncDecStmt:
				mark(root(t.X), "write")
			case *ast.SendStmt:
				mark(root(t.Chan), "send")
			case *ast.UnaryExpr:
				if t.Op == token.ARROW {
					mark(root(t.X), "recv")
				}
			case *ast.CallExpr:
				if sel, ok := t.Fun.(*ast.SelectorExpr); ok {
					if x, ok := sel.X.(*ast.Ident); ok && (x.Name == "atomic") {
						for _, a := range t.Args {
							if u, ok := a.(*ast.UnaryExpr); ok && u.Op == token.AND {
								mark(root(u.X), "atomic."+sel.Sel.Name)
							}
						}
					} else if id := root(sel.X); id != nil && shared(id) {
						if _, isVar := info.Uses[id].(*types.Var); isVar && src(sel.X) == id.Name {
							mark(id, "call "+sel.Sel.Name)
						}
					}
				}
			}
			return true
		})
		ast.Inspect(lit.Body, func(n ast.Node) bool {
			if u, ok := n.(*ast.UnaryExpr); ok && u.Op == token.AND {
				if id := root(u.X); id != nil && !used[id] {
					mark(id, "addr")
				}
			}
			if id, ok := n.(*ast.Ident); ok && !used[id] && shared(id) {
				set[id.Name+":read"] = true
			}
			return true
		})
	}
	var res []string
	for k := range set {
		res = append(res, k)
	}
	sort.Strings(res)
	return res
}

func writeLean(path string, sites []Site, others []Other, goSites []GoSite) {
	var b strings.Builder
	b.WriteString("import ZChain.Model.DetTypes\n")
	b.WriteString("/-! GENERATED by harness/cmd/xc06 from the Go sources — do not edit. Regenerated on every `./check C06`.\n")
	b.WriteString("Every `range` over a map in a function reachable from smartcontract.ExecuteSmartContract / Block.ComputeState /\nChain.updateState, with the shape of its body. -/\n")
	b.WriteString("namespace ZChain.Generated.C06\nopen ZChain.Det\n\n")
	b.WriteString("def sites : List Site := [\n")
	for i, s := range sites {
		sep := ","
		if i == len(sites)-1 {
			sep = ""
		}
		fmt.Fprintf(&b, "  ⟨%s, %d, %s, %s, Shape.%s, %v⟩%s\n", q(s.File), s.Line, q(s.Func), bytesLit(s.File+":"+shortFunc(s.Func)), strings.ToLower(s.Shape), s.Gen, sep)
	}
	b.WriteString("]\n\n")
	b.WriteString("/-- clock reads, unseeded randomness, goroutines and selects in the same functions: (kind, file, line, function) -/\n")
	b.WriteString("def others : List Other := [\n")
	for i, o := range others {
		sep := ","
		if i == len(others)-1 {
			sep = ""
		}
		fmt.Fprintf(&b, "  ⟨%s, %s, %d, %s, %s⟩%s\n", q(o.Kind), q(o.File), o.Line, q(o.Func), bytesLit(o.Kind+"@"+o.File+":"+shortFunc(o.Func)), sep)
	}
	b.WriteString("]\n\n/-- every `go` statement in those functions with what its closure shares with the spawning function -/\n")
	b.WriteString("def goSites : List GoSite := [\n")
	for i, g := range goSites {
		sep := ","
		if i == len(goSites)-1 {
			sep = ""
		}
		ck := make([]string, len(g.Captures))
		for j, c := range g.Captures {
			ck[j] = bytesLit(c)
		}
		fmt.Fprintf(&b, "  ⟨%s, %d, %s, %s, %s, [%s]⟩%s\n", q(g.File), g.Line, q(g.Func), bytesLit(g.File+":"+shortFunc(g.Func)), leanStrList(g.Captures), strings.Join(ck, ", "), sep)
	}
	b.WriteString("]\n\nend ZChain.Generated.C06\n")
	if err := os.WriteFile(path, []byte(b.String()), 0o644); err != nil {
		die("%v", err)
	}
}
