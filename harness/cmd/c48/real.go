package main

// The real side of the C48 correspondence: one world (genesis with all five contract configurations, optional
// hard forks), governance transactions through the real Chain.UpdateState, canonical dumps of the settings nodes
// read back as raw msgpack, and classification of the real error messages into the classes the model prints.

import (
	"encoding/json"
	"fmt"
	"os"
	"regexp"
	"sort"
	"strconv"
	"strings"
	"sync"

	"0chain.net/chaincore/block"
	"0chain.net/chaincore/chain"
	cstate "0chain.net/chaincore/chain/state"
	"0chain.net/chaincore/smartcontract"
	"0chain.net/chaincore/transaction"
	"0chain.net/core/encryption"
	"0chain.net/smartcontract/faucetsc"
	"0chain.net/smartcontract/minersc"
	"0chain.net/smartcontract/storagesc"
	"0chain.net/smartcontract/vestingsc"
	"0chain.net/smartcontract/zcnsc"
	"github.com/0chain/common/core/currency"
	"github.com/0chain/common/core/statecache"
	"github.com/0chain/common/core/util"
	"github.com/tinylib/msgp/msgp"
	"verifharness/lib/engine"
)

// ---- generated table (written by xc48) ------------------------------------------------------------------------

type tEntry struct {
	Name, CT, Setter, Path string
	Mutable              bool
}
type tCase struct {
	Name, Path string
	Parse, Calls []string
}
type tReader struct{ Name, CT, Where, Getter string }

type tables struct {
	Readers                                   []tReader
	Globals                                   []tEntry
	Miner, Storage                            []tEntry
	Faucet, Vesting, Zcn                      []tCase
	FaucetCostFns, VestingCostFns, ZcnCostFns []string
}

func (t *tables) UnmarshalJSON(b []byte) error {
	var raw struct {
		Readers        []struct {
			Name   string `json:"name"`
			CT     string `json:"ct"`
			Where  string `json:"where"`
			Getter string `json:"getter"`
		} `json:"global_readers"`
		Globals        []tEntry `json:"globals"`
		Miner          []tEntry `json:"miner"`
		Storage        []tEntry `json:"storage"`
		Faucet         []tCase  `json:"faucet"`
		Vesting        []tCase  `json:"vesting"`
		Zcn            []tCase  `json:"zcn"`
		FaucetCostFns  []string `json:"faucet_cost_fns"`
		VestingCostFns []string `json:"vesting_cost_fns"`
		ZcnCostFns     []string `json:"zcn_cost_fns"`
	}
	if err := json.Unmarshal(b, &raw); err != nil {
		return err
	}
	var rs []tReader
	for _, r := range raw.Readers {
		rs = append(rs, tReader{r.Name, r.CT, r.Where, r.Getter})
	}
	*t = tables{rs, raw.Globals, raw.Miner, raw.Storage, raw.Faucet, raw.Vesting, raw.Zcn, raw.FaucetCostFns, raw.VestingCostFns, raw.ZcnCostFns}
	return nil
}

var (
	tab     tables
	tabOnce sync.Once
)

func table() *tables {
	tabOnce.Do(func() {
		b, err := os.ReadFile(*tablePath)
		if err != nil {
			panic(fmt.Sprintf("c48: cannot read the generated table %s (run xc48 first): %v", *tablePath, err))
		}
		if err := json.Unmarshal(b, &tab); err != nil {
			panic(err)
		}
	})
	return &tab
}

// ---- contracts ---------------------------------------------------------------------------------------------------

type field struct{ name, path, kind string }

type contract struct {
	tag, addr, fn, nodeKey string
	fields                 []field
	costFns                []string
	validate               func(cstate.CommonStateContextI) error
}

var (
	contracts map[string]*contract
	conOnce   sync.Once
)

func kindOfCT(ct string) string { return ct }

func kindOfParse(p []string) string {
	switch strings.Join(p, "+") {
	case "strconv.Atoi":
		return "int"
	case "strconv.ParseInt":
		return "int64"
	case "strconv.ParseUint+currency.Coin":
		return "uint64"
	case "strconv.ParseFloat":
		return "float64"
	case "strconv.ParseFloat+currency.ParseZCN":
		return "coin"
	case "strconv.ParseFloat+currency.MultFloat64":
		return "mult"
	case "strconv.ParseFloat+currency.Coin":
		return "rawcoin"
	case "time.ParseDuration":
		return "duration"
	case "hex.DecodeString":
		return "key"
	case "":
		return "string"
	}
	return "?"
}

func getContracts() map[string]*contract {
	conOnce.Do(func() {
		t := table()
		mk := func(es []tEntry) []field {
			var fs []field
			for _, e := range es {
				if e.CT != "cost" {
					fs = append(fs, field{e.Name, e.Path, kindOfCT(e.CT)})
				}
			}
			return fs
		}
		mc := func(cs []tCase) []field {
			var fs []field
			for _, c := range cs {
				if len(c.Calls) == 0 {
					fs = append(fs, field{c.Name, c.Path, kindOfParse(c.Parse)})
				}
			}
			return fs
		}
		costNames := func(es []tEntry) []string {
			var r []string
			for _, e := range es {
				if e.CT == "cost" {
					r = append(r, strings.TrimPrefix(e.Name, "cost."))
				}
			}
			return r
		}
		contracts = map[string]*contract{
			"miner": {tag: "miner", addr: minersc.ADDRESS, fn: "update_settings", nodeKey: minersc.GlobalNodeKey, fields: mk(t.Miner), costFns: costNames(t.Miner),
				validate: minersc.VerifC48Validate},
			"storage": {tag: "storage", addr: storagesc.ADDRESS, fn: "update_settings", nodeKey: storagesc.ADDRESS + encryption.Hash("storagesc_config"), fields: mk(t.Storage), costFns: costNames(t.Storage),
				validate: storagesc.VerifC48Validate},
			"faucet": {tag: "faucet", addr: faucetsc.ADDRESS, fn: "update-settings", nodeKey: faucetsc.ADDRESS + encryption.Hash("faucetsc_config"), fields: mc(t.Faucet), costFns: t.FaucetCostFns,
				validate: faucetsc.VerifC48Validate},
			"vesting": {tag: "vesting", addr: vestingsc.ADDRESS, fn: "vestingsc-update-settings", nodeKey: vestingsc.ADDRESS + encryption.Hash("vestingsc_config"), fields: mc(t.Vesting), costFns: t.VestingCostFns,
				validate: vestingsc.VerifC48Validate},
			"zcn": {tag: "zcn", addr: zcnsc.ADDRESS, fn: "update-global-config", nodeKey: fmt.Sprintf("%s:%s:%s", zcnsc.ADDRESS, zcnsc.GlobalNodeType, zcnsc.ADDRESS), fields: mc(t.Zcn), costFns: t.ZcnCostFns,
				validate: func(b cstate.CommonStateContextI) error {
					gn, err := zcnsc.GetGlobalNode(b)
					if err != nil {
						return err
					}
					return gn.Validate()
				}},
		}
	})
	return contracts
}

var contractOrder = []string{"miner", "storage", "faucet", "vesting", "zcn"}

var stagedKey = storagesc.ADDRESS + encryption.Hash("setting_changes")

// ---- escaping (same rule as Drv/C48.lean) ---------------------------------------------------------------------

func needEsc(c byte) bool {
	return c <= 32 || c >= 127 || c == '%' || c == '=' || c == ',' || c == ':' || c == '!' || c == '$'
}

func esc(s string) string {
	var b strings.Builder
	for i := 0; i < len(s); i++ {
		if needEsc(s[i]) {
			fmt.Fprintf(&b, "%%%02X", s[i])
		} else {
			b.WriteByte(s[i])
		}
	}
	return b.String()
}

func unesc(s string) (string, bool) {
	var b strings.Builder
	for i := 0; i < len(s); i++ {
		if s[i] == '%' {
			if i+3 > len(s) {
				return "", false
			}
			v, err := strconv.ParseUint(s[i+1:i+3], 16, 8)
			if err != nil {
				return "", false
			}
			b.WriteByte(byte(v))
			i += 2
		} else {
			b.WriteByte(s[i])
		}
	}
	return b.String(), true
}

type kv struct{ k, v string }

func parseKVs(ws []string) ([]kv, bool) {
	var res []kv
	for _, w := range ws {
		i := strings.IndexByte(w, '=')
		if i < 0 {
			return nil, false
		}
		k, ok1 := unesc(w[:i])
		v, ok2 := unesc(w[i+1:])
		if !ok1 || !ok2 {
			return nil, false
		}
		res = append(res, kv{k, v})
	}
	return res, true
}

// ---- world -------------------------------------------------------------------------------------------------------------

const ownerID = "1746b06bb09f55ee01b33b5e2e055d6cc7a900cb57c0a3a5eaabb8a0e7745802"

var callerTags = []string{"alice", "bob", "carol"}

func callerIDs() []string {
	ids := []string{ownerID}
	for _, t := range callerTags {
		ids = append(ids, engine.NewClient(t).ID)
	}
	return ids
}

var setupOnce sync.Once

func setup() {
	setupOnce.Do(func() {
		engine.Setup()
		// vesting is switched off in the repo's 0chain.yaml (server_chain.smart_contract.vesting: false); register it so
		// that its update entry point runs (a mutable global setting can switch it on in a deployment)
		vsc := vestingsc.NewVestingSmartContract()
		smartcontract.ContractMap[vsc.GetAddress()] = vsc
	})
}

type world struct {
	w       *engine.World
	nonce   map[string]int64
	tainted bool
	fork    bool
}

var (
	genesis     [2]*engine.World
	genesisOnce [2]sync.Once
)

// newWorld: a fresh chain of blocks on top of the genesis state (built once per fork setting and never written again:
// every case layers its own block states over it).
func newWorld(fork bool) *world {
	setup()
	fi := 0
	if fork {
		fi = 1
	}
	genesisOnce[fi].Do(func() { genesis[fi] = buildGenesis(fork) })
	g := genesis[fi]
	w := &engine.World{C: g.C, NDB: g.NDB, Prev: g.Prev, Round: 0, Now: g.Now}
	w.NextBlock()
	return &world{w: w, nonce: map[string]int64{}, fork: fork}
}

func buildGenesis(fork bool) *engine.World {
	bal := map[string]currency.Coin{faucetsc.ADDRESS: 1e15}
	for _, id := range callerIDs() {
		bal[id] = 1000e10
	}
	w, err := engine.NewWorld(bal, func(sctx *cstate.StateContext) error {
		for _, f := range []func() error{
			func() error { return storagesc.InitPartitions(sctx) },
			func() error { return faucetsc.InitConfig(sctx) },
			func() error { return minersc.InitConfig(sctx) },
			func() error { return storagesc.InitConfig(sctx) },
			func() error { return vestingsc.InitConfig(sctx) },
			func() error { return zcnsc.InitConfig(sctx) },
		} {
			if err := f(); err != nil {
				return err
			}
		}
		if fork {
			for _, n := range []string{"demeter", "electra"} {
				if _, err := sctx.InsertTrieNode(cstate.NewHardFork(n, 0).GetKey(), cstate.NewHardFork(n, 0)); err != nil {
					return err
				}
			}
		}
		return nil
	})
	if err != nil {
		panic(err)
	}
	return w
}

type rawNode struct{ b []byte }

func (r *rawNode) MarshalMsg(o []byte) ([]byte, error) { return append(o, r.b...), nil }
func (r *rawNode) UnmarshalMsg(b []byte) ([]byte, error) {
	r.b = append([]byte(nil), b...)
	return nil, nil
}

// node reads the value stored under an MPT key as a generic msgpack tree (nil when absent).
func node(st util.MerklePatriciaTrieI, key string) map[string]interface{} {
	var r rawNode
	if err := st.GetNodeValue(util.Path(encryption.Hash(key)), &r); err != nil {
		return nil
	}
	v, _, err := msgp.ReadIntfBytes(r.b)
	if err != nil {
		return nil
	}
	m, _ := v.(map[string]interface{})
	return m
}

func lookupPath(m map[string]interface{}, path string) (interface{}, bool) {
	parts := strings.Split(path, ".")
	var cur interface{} = m
	for _, p := range parts {
		mm, ok := cur.(map[string]interface{})
		if !ok {
			return nil, false
		}
		cur, ok = mm[p]
		if !ok {
			return nil, false
		}
	}
	return cur, true
}

// find looks a field path up at the root or inside an embedded struct (faucetsc GlobalNode embeds *FaucetConfig, zcnsc *ZCNSConfig).
func find(m map[string]interface{}, path string) (interface{}, bool) {
	if v, ok := lookupPath(m, path); ok {
		return v, true
	}
	for _, sub := range m {
		if sm, ok := sub.(map[string]interface{}); ok {
			if v, ok := lookupPath(sm, path); ok {
				return v, true
			}
		}
	}
	return nil, false
}

func showVal(v interface{}) string {
	switch x := v.(type) {
	case nil:
		return "n:"
	case int64:
		return "i:" + strconv.FormatInt(x, 10)
	case uint64:
		return "i:" + strconv.FormatUint(x, 10)
	case int:
		return "i:" + strconv.Itoa(x)
	case int32:
		return "i:" + strconv.FormatInt(int64(x), 10)
	case uint32:
		return "i:" + strconv.FormatUint(uint64(x), 10)
	case int8, int16, uint8, uint16, uint:
		return fmt.Sprintf("i:%d", x)
	case float64:
		return "f:" + strconv.FormatFloat(x, 'f', -1, 64)
	case float32:
		return "f:" + strconv.FormatFloat(float64(x), 'f', -1, 64)
	case bool:
		if x {
			return "b:true"
		}
		return "b:false"
	case string:
		return "s:" + esc(x)
	}
	return fmt.Sprintf("?:%T", v)
}

// fieldsOf: name -> shown value for every table field, cost name -> value
func fieldsOf(st util.MerklePatriciaTrieI, c *contract) (map[string]string, map[string]string) {
	m := node(st, c.nodeKey)
	fs, cs := map[string]string{}, map[string]string{}
	for _, f := range c.fields {
		v, ok := find(m, f.path)
		if !ok {
			fs[f.name] = "n:"
		} else {
			fs[f.name] = showVal(v)
		}
	}
	if cv, ok := find(m, "Cost"); ok {
		if cm, ok := cv.(map[string]interface{}); ok {
			for k, v := range cm {
				cs[k] = showVal(v)
			}
		}
	}
	return fs, cs
}

func dumpCfg(st util.MerklePatriciaTrieI, c *contract) string {
	fs, cs := fieldsOf(st, c)
	var a, b []string
	for k, v := range fs {
		a = append(a, k+"="+v)
	}
	for k, v := range cs {
		b = append(b, "$"+esc(k)+"="+v)
	}
	sort.Strings(a)
	sort.Strings(b)
	return "cfg " + strings.Join(append(a, b...), " ")
}

func strMap(m map[string]interface{}, key string) map[string]string {
	res := map[string]string{}
	if m == nil {
		return res
	}
	if f, ok := m[key].(map[string]interface{}); ok {
		for k, v := range f {
			res[k], _ = v.(string)
		}
	}
	return res
}

func dumpMap(tag string, m map[string]string) string {
	var a []string
	for k, v := range m {
		a = append(a, esc(k)+"="+esc(v))
	}
	sort.Strings(a)
	return strings.TrimRight(tag+" "+strings.Join(a, " "), " ")
}

func globalsOf(st util.MerklePatriciaTrieI) (int64, map[string]string) {
	m := node(st, minersc.GLOBALS_KEY)
	var ver int64
	if m != nil {
		switch x := m["Version"].(type) {
		case int64:
			ver = x
		case uint64:
			ver = int64(x)
		}
	}
	return ver, strMap(m, "Fields")
}

// ---- executing a governance transaction ------------------------------------------------------------------------------

type outcome struct {
	status int    // transaction status (1 success, 2 chargeable error), 0 = rejected by the engine
	output string // transaction output
	err    string // engine error
	root   string
}

func inputJSON(kvs []kv, special string) string {
	switch special {
	case "!bad":
		return `{"fields":{"a":1}}`
	case "!null":
		return `null`
	}
	m := map[string]string{}
	for _, p := range kvs {
		m[p.k] = p.v
	}
	b, _ := json.Marshal(map[string]interface{}{"fields": m})
	return string(b)
}

// mkTxn prepares the governance transaction (cloned for every execution, so that all executions are byte-identical).
func (x *world) mkTxn(caller, addr, fn, input string, nonce int64) *transaction.Transaction {
	return x.w.Txn(engine.Client{ID: caller}, addr, 0, 0, nonce, transaction.TxnTypeSmartContract, fn, input)
}

// exec runs the transaction on the current block state of the world (the state advances).
func (x *world) exec(t0 *transaction.Transaction) outcome {
	t := t0.Clone()
	_, err := x.w.Exec(t)
	o := outcome{status: t.Status, output: t.TransactionOutput, root: x.w.Root()}
	if err != nil {
		o.status = 0
		o.err = err.Error()
	}
	return o
}

// replayOnPrev executes the same transaction once more in a fresh block state on top of the sealed previous block
// (the world itself is not touched): same prior state, another run of the Go runtime's map iteration.
func (x *world) replayOnPrev(t0 *transaction.Transaction, k int) outcome {
	w := x.w
	b := block.NewBlock("", w.Round)
	b.Hash = w.B.Hash
	b.PrevHash = w.Prev.Hash
	b.PrevBlock = w.Prev
	b.CreationDate = w.Now
	b.MinerID = engine.NewClient("miner0").ID
	st := block.CreateStateWithPreviousBlock(w.Prev, w.NDB, w.Round)
	b.ClientState = st
	bc := statecache.NewBlockCache(w.C.GetStateCache(), statecache.Block{Round: b.Round, Hash: encryption.Hash(fmt.Sprintf("verif-replay-%p-%d-%d", w, w.Round, k)), PrevHash: b.PrevHash})
	t := t0.Clone()
	_, err := w.C.UpdateState(ctxBg, b, st, t, bc)
	o := outcome{status: t.Status, output: t.TransactionOutput}
	if err != nil {
		o.status = 0
		o.err = err.Error()
	}
	o.root = fmt.Sprintf("%x", st.GetRoot())
	return o
}
// probe: the real contract's verdict on one key alone — a dry run of the update entry point with the single-entry
// map {k: v} by the current owner on a throw-away state context (nothing is merged).
func (x *world) probe(owner, addr, fn string, p kv) string {
	w := x.w
	tc := statecache.NewTransactionCache(w.BC)
	mpt := chain.CreateTxnMPT(w.State, tc)
	t := w.Txn(engine.Client{ID: owner}, addr, 0, 0, 1, transaction.TxnTypeSmartContract, fn, inputJSON([]kv{p}, ""))
	sctx := w.C.NewStateContext(w.B, mpt, t, nil)
	_, err := smartcontract.ExecuteSmartContract(t, sctx)
	if err == nil {
		return ""
	}
	return err.Error()
}

// ---- classification of the real messages --------------------------------------------------------------------------------

type pat struct {
	re    *regexp.Regexp
	class string
}

func pats(ps ...string) []pat {
	var r []pat
	for i := 0; i+1 < len(ps); i += 2 {
		r = append(r, pat{regexp.MustCompile(ps[i]), ps[i+1]})
	}
	return r
}

var currencyErr = `negative coin value|too many decimal places|value is too large|float64 underflows uint64|uint64 overflows float64`

// per-key error messages -> class
var keyPats = map[string][]pat{
	"globals": pats(`is not a valid global setting`, "unknown", `cannot be modified via a transaction`, "immutable", `cannot be parsed as a`, "unparsable"),
	"miner": pats(`unsupported key `, "unknown", `cannot convert key `, "unparsable", `not implemented as`, "notimpl", `must be a hex string`, "unparsable",
		`unsupported type setting`, "unsupported", currencyErr, "unparsable"),
	"storage": pats(`unknown key `, "unknown", `cannot convert key `, "unparsable", `not implemented as`, "notimpl", `must be a hes string`, "unparsable",
		`unsupported type setting`, "unsupported", currencyErr, "unparsable"),
	"faucet": pats(`not recognised as setting`, "unknown", `cost config setting .* not found`, "unknown", `contains invalid value`, "negative",
		`unable to convert`, "unparsable", `should be valid hex string`, "unparsable", currencyErr, "unparsable"),
	"vesting": pats(`config setting .* not found`, "unknown", `contains invalid value`, "negative", `cannot be converted to`, "unparsable",
		`unable to convert`, "unparsable", currencyErr, "unparsable"),
	// zcnsc words "unknown key" and "value does not parse" identically ("key %s, unable to convert %v to currency.Coin")
	"zcn": pats(`contains invalid value`, "negative", `unable to convert`, "rejected", `cannot convert key`, "rejected", `not recognised as setting`, "rejected",
		`cost config setting .* not found`, "rejected", currencyErr, "rejected"),
}

// validate messages in the order of the conditions of the Go validate function -> index
var validatePats = map[string][]string{
	"miner": {`min_n is too small`, `max_n is less than min_n`, `min_s is too small`, `max_s is less than min_s`, `max_delegates is too small`,
		`num_sharder_delegates_rewarded cannot be negative`, `num_miner_delegates_rewarded cannot be negative`, `num_sharders_rewarded cannot be negative`},
	"storage": {`time_unit less than 1s`, `validator_reward not in`, `blobber_slash not in`, `cancellation_charge not in`, `invalid max_blobber_per_allocation`,
		`negative min_blobber_capacity`, `negative max_challenge_completion_rounds`, `non-positive health check period`, `negative min_alloc_size`,
		`max wirte price`, `stakepool.kill_slash,`, `negative free_allocation_settings.data_shards`, `negative free_allocation_settings.parity_shards`,
		`negative free_allocation_settings.size`, `invalid free_allocation_settings.read_price_range`, `invalid free_allocation_settings.write_price_range`,
		`free_allocation_settings.free_read_pool must be`, `invalid validators_per_challenge`, `invalid num_validators_rewarded`,
		`invalid max_blobber_select_for_challenge`, `max_stake less than min_stake`, `max_delegates is too small`, `negative max_charge`, `max_change >= 1.0`,
		`owner_id does not set or empty`, `invalid block_reward.gamma.a `, `invalid block_reward.gamma.b `, `invalid block_reward.gamma.alpha `,
		`invalid block_reward.zeta.mu `, `invalid block_reward.zeta.i `, `invalid block_reward.zeta.k `},
	"faucet": {`pour amount\(.*\) is less than 1`, `max pour amount\(.*\) is less than pour amount`, `periodic limit\(.*\) is less than max pour amount`,
		`global periodic limit\(.*\) is less than periodic limit`, `individual reset\(.*\) is too short`, `global reset\(.*\) is less than individual reset`},
	"vesting": {`invalid min_duration`, `invalid max_duration`, `invalid max_destinations`, `invalid max_description_length`, `owner_id is not set or empty`},
	"zcn": {`min stake amount`, `max stake amount`, `min mint amount`, `max fee`, `min quantity of authorizers`, `min burn amount`, `min percentage of authorizers`,
		`owner id`, `max delegate count`, `health check period`},
}

var (
	validateRe   map[string][]*regexp.Regexp
	validateOnce sync.Once
)

// classify: "ok" handled by the caller; returns kind ("unauthorized","decode","key","invalid","other") and detail.
func classify(tag, msg string) (string, string) {
	validateOnce.Do(func() {
		validateRe = map[string][]*regexp.Regexp{}
		for k, ps := range validatePats {
			for _, p := range ps {
				validateRe[k] = append(validateRe[k], regexp.MustCompile(p))
			}
		}
	})
	if strings.Contains(msg, "unauthorized access - only the owner can access") {
		return "unauthorized", ""
	}
	if strings.Contains(msg, "cannot unmarshal") || strings.Contains(msg, "invalid character") || strings.Contains(msg, "unexpected end of JSON") || strings.Contains(msg, "limit request not formatted correctly") {
		return "decode", ""
	}
	for i, re := range validateRe[tag] {
		if re.MatchString(msg) {
			return "invalid", strconv.Itoa(i)
		}
	}
	for _, p := range keyPats[tag] {
		if p.re.MatchString(msg) {
			return "key", p.class
		}
	}
	return "other", msg
}
